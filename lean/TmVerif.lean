-- Root of the library: importing every module makes `lake build` check everything.
import TmVerif.Base.Proto
import TmVerif.Gen.Extracted
import TmVerif.Monitor.Model
import TmVerif.Base.ListX
import TmVerif.Monitor.Lemmas
import TmVerif.Props.C20
