/-
  `masterapi.create_apps` (the cell API's side of a monitor's create request, C20): `count` sequence nodes are
  created one after the other; a lost reply (connection loss after the ensemble applied a create) fails the
  request — it is NOT retried, because a sequence create is not idempotent.
-/
namespace TmVerif.Monitor

/-- `createApps count lossAt`: number of instances scheduled and whether the request succeeded; `lossAt = some i`:
    the reply of the `(i+1)`-th create is lost. -/
def createApps (count : Nat) (lossAt : Option Nat) : Nat × Bool :=
  match lossAt with
  | some i => if i < count then (i + 1, false) else (count, true)
  | none => (count, true)

end TmVerif.Monitor
