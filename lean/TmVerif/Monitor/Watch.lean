/-
  Model of `treadmill.zkwatchers.ExistingDataWatch` (the watch through which the app monitor learns
  its configuration; C20) and of the way `appmonitor._watch_monitor` applies its deliveries.

  A watched node is `none` (absent) or `some (data, mzxid)`; the ensemble's transaction counter only
  grows, so every write gives the node a fresh `mzxid`.  The watch object remembers the `mzxid` it
  delivered last (`_version`) and whether it stopped.  `getData` is `_get_data`: called on
  registration, on every watch event and on every re-connection (session watcher).
-/
namespace TmVerif.Watch

/-- The node as one read (`client.get`) sees it: payload and `mzxid`. -/
abbrev Node (α : Type) := Option (α × Nat)

structure W where
  version : Option Nat := none      -- `_version`: mzxid delivered last
  stopped : Bool := false
  deriving DecidableEq, Repr

/-- What the watch hands to its function: `some d` = `(data, stat, event)`, `none` = `(None, None, event)`. -/
inductive Delivery (α : Type)
  | data (d : α)
  | gone
  deriving DecidableEq, Repr

/-- `_get_data(event)`; `deleted` = the event is a DELETED event. -/
def getData {α} (w : W) (node : Node α) (deleted : Bool) : W × Option (Delivery α) :=
  if w.stopped then (w, none)
  else if deleted then ({ w with stopped := true }, some .gone)
  else match node with
    | none => ({ w with stopped := true }, some .gone)
    | some (d, mz) =>
      if w.version = some mz then (w, none)
      else ({ w with version := some mz }, some (.data d))

/-- Histories of one watched node after the watch was registered. -/
inductive Ev (α : Type)
  | write (d : α)        -- the node's data is set (CHANGED event delivered to the watch)
  | delete               -- the node is deleted (DELETED event)
  | reconnect            -- connection suspended / lost and re-established, node untouched
  | spurious             -- a watch event without a change of this node (e.g. re-registration race)
  deriving Repr

structure Sys (α : Type) where
  node : Node α
  zxid : Nat                -- last transaction id handed out by the ensemble
  w    : W
  out  : List (Delivery α)  -- everything delivered so far, oldest first

def Sys.deliver {α} (s : Sys α) (r : W × Option (Delivery α)) : Sys α :=
  { s with w := r.1, out := match r.2 with | some d => s.out ++ [d] | none => s.out }

def step {α} (s : Sys α) : Ev α → Sys α
  | .write d =>
    match s.node with
    | none => s                                        -- nothing to set (a new node is a new watch)
    | some _ =>
      let s' := { s with node := some (d, s.zxid + 1), zxid := s.zxid + 1 }
      s'.deliver (getData s'.w s'.node false)
  | .delete =>
    match s.node with
    | none => s
    | some _ =>
      let s' := { s with node := none, zxid := s.zxid + 1 }
      s'.deliver (getData s'.w s'.node true)
  | .reconnect => s.deliver (getData s.w s.node false)
  | .spurious => s.deliver (getData s.w s.node false)

/-- Registration of the watch on a node written at `mz ≤ zxid`: the first `_get_data`. -/
def register {α} (node : Node α) (zxid : Nat) : Sys α :=
  ({ node, zxid, w := {}, out := [] } : Sys α).deliver (getData {} node false)

def run {α} (s : Sys α) (evs : List (Ev α)) : Sys α := evs.foldl step s

/-- The watch is in step with the node: it either stopped (node gone) or remembers exactly the
    node's current `mzxid`, and no transaction id beyond the counter was handed out. -/
def Synced {α} (s : Sys α) : Prop :=
  match s.node with
  | none => s.w.stopped = true
  | some (_, mz) => s.w.stopped = false ∧ s.w.version = some mz ∧ mz ≤ s.zxid

theorem synced_register {α} (node : Node α) (zxid : Nat) (h : ∀ d mz, node = some (d, mz) → mz ≤ zxid) :
    Synced (register node zxid) := by
  unfold register Sys.deliver getData Synced
  cases node with
  | none => simp
  | some p => obtain ⟨d, mz⟩ := p; simp; exact h d mz rfl

theorem synced_step {α} (s : Sys α) (e : Ev α) (h : Synced s) : Synced (step s e) := by
  unfold Synced at h
  cases e with
  | write d =>
    unfold step
    cases hn : s.node with
    | none => simp only []; unfold Synced; rw [hn] at h ⊢; exact h
    | some p =>
      obtain ⟨d0, mz⟩ := p
      rw [hn] at h
      obtain ⟨h1, h2, h3⟩ := h
      simp only [Sys.deliver, getData, h1, h2, Bool.false_eq_true, if_false]
      have : ¬ (some mz = some (s.zxid + 1)) := by simp; omega
      simp [this, Synced]
  | delete =>
    unfold step
    cases hn : s.node with
    | none => simp only []; unfold Synced; rw [hn] at h ⊢; exact h
    | some p =>
      obtain ⟨d0, mz⟩ := p
      rw [hn] at h
      obtain ⟨h1, _, _⟩ := h
      simp [Sys.deliver, getData, h1, Synced]
  | reconnect =>
    unfold step
    cases hn : s.node with
    | none => rw [hn] at h; simp [Sys.deliver, getData, h, Synced, hn]
    | some p =>
      obtain ⟨d0, mz⟩ := p
      rw [hn] at h
      obtain ⟨h1, h2, h3⟩ := h
      simp [Sys.deliver, getData, h1, h2, Synced, hn, h3]
  | spurious =>
    unfold step
    cases hn : s.node with
    | none => rw [hn] at h; simp [Sys.deliver, getData, h, Synced, hn]
    | some p =>
      obtain ⟨d0, mz⟩ := p
      rw [hn] at h
      obtain ⟨h1, h2, h3⟩ := h
      simp [Sys.deliver, getData, h1, h2, Synced, hn, h3]

theorem synced_run {α} (s : Sys α) (evs : List (Ev α)) (h : Synced s) : Synced (run s evs) := by
  induction evs generalizing s with
  | nil => exact h
  | cons e es ih => exact ih _ (synced_step s e h)

/-- **Re-connection is silent.**  In a synced system a re-connection (or a spurious watch event)
    delivers nothing and changes nothing. -/
theorem reconnect_silent {α} (s : Sys α) (h : Synced s) :
    step s .reconnect = s ∧ step s .spurious = s := by
  unfold Synced at h
  cases hn : s.node with
  | none =>
    rw [hn] at h
    obtain ⟨node, zxid, w, out⟩ := s
    simp only at hn h
    subst hn
    simp [step, Sys.deliver, getData, h]
  | some p =>
    obtain ⟨d0, mz⟩ := p
    rw [hn] at h
    obtain ⟨h1, h2, _⟩ := h
    obtain ⟨node, zxid, w, out⟩ := s
    simp only at hn h1 h2
    subst hn
    simp [step, Sys.deliver, getData, h1, h2]

/-- What a history SHOULD deliver: the payload of every write, and one `gone` for the deletion; after
    the deletion nothing. -/
def expected {α} : Bool → List (Ev α) → List (Delivery α)
  | _, [] => []
  | false, _ :: es => expected false es
  | true, .write d :: es => .data d :: expected true es
  | true, .delete :: es => .gone :: expected false es
  | true, .reconnect :: es => expected true es
  | true, .spurious :: es => expected true es

theorem run_out {α} (s : Sys α) (evs : List (Ev α)) (h : Synced s) :
    (run s evs).out = s.out ++ expected s.node.isSome evs := by
  induction evs generalizing s with
  | nil => cases s.node <;> simp [run, expected]
  | cons e es ih =>
    have hs := synced_step s e h
    have := ih (step s e) hs
    simp only [run, List.foldl_cons] at this ⊢
    rw [this]
    unfold Synced at h
    cases hn : s.node with
    | none =>
      rw [hn] at h
      cases e <;> simp [step, Sys.deliver, getData, h, hn, expected]
    | some p =>
      obtain ⟨d0, mz⟩ := p
      rw [hn] at h
      obtain ⟨h1, h2, h3⟩ := h
      have hne : ¬ (mz = s.zxid + 1) := by omega
      cases e <;> simp [step, Sys.deliver, getData, h1, h2, hn, expected, hne]

/-- **Deliveries = configuration changes.**  From registration on an existing node, what the watch
    delivers over ANY history is the registered payload, then exactly one delivery per write (its
    payload) and one for the deletion — re-connections and spurious events add nothing. -/
theorem deliveries_exact {α} (d0 : α) (mz zxid : Nat) (hz : mz ≤ zxid) (evs : List (Ev α)) :
    (run (register (some (d0, mz)) zxid) evs).out = .data d0 :: expected true evs := by
  have hs : Synced (register (some (d0, mz)) zxid) :=
    synced_register _ _ (fun d m e => by cases e; exact hz)
  rw [run_out _ _ hs]
  simp [register, Sys.deliver, getData]

/-- The premises are satisfiable and the statement is not vacuous: a write between two
    re-connections is delivered once. -/
example : (run (register (some (7, 3)) 5) [.reconnect, .write 9, .reconnect, .spurious, .delete, .reconnect]).out
    = [.data 7, .data 9, .gone] := by decide

end TmVerif.Watch
