/-
  The app monitor's configuration path, end to end (C20): /app-monitors/<name> nodes in ZooKeeper →
  `zkwatchers.ExistingDataWatch` (TmVerif/Monitor/Watch.lean) → `_monitor_data_watch` /
  `_appmonitors_watch` → `state['monitors']` (TmVerif/Monitor/Model.lean).

  `zstep` is the executable composition the driver runs; `zrun_st` shows that over ANY ZooKeeper-level
  history (node writes, deletions, re-connections, spurious watch events, interleaved with schedule
  changes, clock ticks and evaluations) the monitor state is the one `runOps` reaches on the history
  with the re-connections and spurious events erased — so every theorem about `runOps`
  (`C20_budget` …) speaks about ZooKeeper-level histories too.
-/
import TmVerif.Monitor.Lemmas
import TmVerif.Monitor.Watch

namespace TmVerif.Monitor
open TmVerif.Watch

abbrev Conf := Nat × Policy

structure ZSt where
  st : St
  ws : List (Nat × Sys Conf) := []      -- the data watch `_watch_monitor(name)` set up, by name

inductive ZOp
  | put (n c : Nat) (p : Policy)        -- /app-monitors/n created, or its data set
  | del (n : Nat)                       -- /app-monitors/n deleted
  | reconnect                           -- connection suspended / session lost, then re-established
  | spurious (n : Nat)                  -- a watch event on n's node without a change
  | other (op : Op)                     -- setSched / tick / eval (anything but configuration)

/-- `_monitor_data_watch(data, stat, event)` for the deliveries `ds` of n's watch. -/
def applyNew (st : St) (n : Nat) (ds : List (Delivery Conf)) : St :=
  ds.foldl (fun st d => match d with
    | .data (c, p) => setMon st n c p
    | .gone => st) st

/-- One event for n's watch; what it newly delivered is applied to the state. -/
def watchEv (z : ZSt) (n : Nat) (w : Sys Conf) (e : Ev Conf) : ZSt :=
  let w' := Watch.step w e
  { st := applyNew z.st n (w'.out.drop w.out.length), ws := insert n w' z.ws }

def reconnectAll (z : ZSt) : List (Nat × Sys Conf) → ZSt
  | [] => z
  | (n, _) :: rest =>
    match lookup n z.ws with
    | some w => reconnectAll (watchEv z n w .reconnect) rest
    | none => reconnectAll z rest

def liveWatch (z : ZSt) (n : Nat) : Option (Sys Conf) :=
  match lookup n z.ws with
  | some w => if w.node.isSome then some w else none
  | none => none

def zstep (z : ZSt) : ZOp → ZSt
  | .put n c p =>
    match liveWatch z n with
    | some w => watchEv z n w (.write (c, p))
    | none =>
      -- a new child: `_appmonitors_watch` finds it missing and calls `_watch_monitor(n)`; the new
      -- watch's first read delivers the payload
      let w := Watch.register (some ((c, p), 1)) 1
      { st := applyNew z.st n w.out, ws := insert n w z.ws }
  | .del n =>
    match liveWatch z n with
    | some w =>
      -- DELETED event to the data watch (logs, stops), then `_appmonitors_watch` pops the monitor
      let z' := watchEv z n w .delete
      { z' with st := delMon z'.st n }
    | none => { z with st := delMon z.st n }      -- no such node: only the children watch's pruning
  | .reconnect => reconnectAll z z.ws
  | .spurious n =>
    match lookup n z.ws with
    | some w => watchEv z n w .spurious
    | none => z
  | .other op => { z with st := step z.st op }

def zrun (z : ZSt) (ops : List ZOp) : ZSt := ops.foldl zstep z

/-- The configuration history a ZooKeeper-level history amounts to. -/
def ZOp.erase : ZOp → Option Op
  | .put n c p => some (.setMon n c p)
  | .del n => some (.delMon n)
  | .reconnect => none
  | .spurious _ => none
  | .other op => some op

def ZInv (z : ZSt) : Prop := ∀ n w, lookup n z.ws = some w → Synced w

theorem step_out_single {α} (w : Sys α) (e : Ev α) (h : Synced w) :
    (Watch.step w e).out = w.out ++ expected w.node.isSome [e] := by
  have := run_out w [e] h
  simpa [run] using this

theorem drop_own {α} (l x : List α) : (l ++ x).drop l.length = x := by simp

theorem zinv_insert (z : ZSt) (st : St) (n : Nat) (w : Sys Conf) (hz : ZInv z) (hw : Synced w) :
    ZInv { st := st, ws := insert n w z.ws } := by
  intro k w' hk
  by_cases hkn : k = n
  · subst hkn
    simp only [lookup_insert_self] at hk
    cases hk; exact hw
  · have hnk : n ≠ k := fun e => hkn e.symm
    simp only [lookup_insert_ne n k w z.ws hnk] at hk
    exact hz k w' hk

/-- One event of n's (synced) watch: the state changes by exactly what the event should deliver. -/
theorem watchEv_spec (z : ZSt) (n : Nat) (w : Sys Conf) (e : Ev Conf) (hz : ZInv z) (hw : Synced w) :
    (watchEv z n w e).st = applyNew z.st n (expected w.node.isSome [e]) ∧ ZInv (watchEv z n w e) := by
  refine ⟨?_, ?_⟩
  · simp only [watchEv]
    rw [step_out_single w e hw, drop_own]
  · exact zinv_insert z _ n _ hz (synced_step w e hw)

theorem reconnectAll_spec (l : List (Nat × Sys Conf)) (z : ZSt) (hz : ZInv z) :
    (reconnectAll z l).st = z.st ∧ ZInv (reconnectAll z l) := by
  induction l generalizing z with
  | nil => exact ⟨rfl, hz⟩
  | cons a rest ih =>
    obtain ⟨n, w0⟩ := a
    simp only [reconnectAll]
    cases hl : lookup n z.ws with
    | none => exact ih z hz
    | some w =>
      have hw := hz n w hl
      obtain ⟨h1, h2⟩ := watchEv_spec z n w .reconnect hz hw
      obtain ⟨h3, h4⟩ := ih _ h2
      refine ⟨?_, h4⟩
      rw [h3, h1]
      cases w.node <;> simp [expected, applyNew]

theorem liveWatch_some (z : ZSt) (n : Nat) (w : Sys Conf) (h : liveWatch z n = some w) :
    lookup n z.ws = some w ∧ w.node.isSome = true := by
  unfold liveWatch at h
  cases hl : lookup n z.ws with
  | none => rw [hl] at h; cases h
  | some w' =>
    rw [hl] at h
    simp only at h
    split at h
    · cases h; exact ⟨rfl, by assumption⟩
    · cases h

/-- **The ZooKeeper layer is transparent.**  One ZooKeeper-level operation changes the monitor state
    exactly as the configuration operation it amounts to (`ZOp.erase`); a re-connection or a spurious
    watch event changes nothing. -/
theorem zstep_st (z : ZSt) (op : ZOp) (hz : ZInv z) :
    (zstep z op).st = (match op.erase with | some o => step z.st o | none => z.st) ∧ ZInv (zstep z op) := by
  cases op with
  | put n c p =>
    simp only [zstep, ZOp.erase, step]
    cases hl : liveWatch z n with
    | some w =>
      obtain ⟨h1, h2⟩ := liveWatch_some z n w hl
      obtain ⟨h3, h4⟩ := watchEv_spec z n w (.write (c, p)) hz (hz n w h1)
      refine ⟨?_, h4⟩
      rw [h3, h2]; simp [expected, applyNew]
    | none =>
      refine ⟨?_, ?_⟩
      · simp [Watch.register, Sys.deliver, getData, applyNew]
      · exact zinv_insert z _ n _ hz (synced_register _ _ (fun d m e => by cases e; exact Nat.le_refl _))
  | del n =>
    simp only [zstep, ZOp.erase, step]
    cases hl : liveWatch z n with
    | some w =>
      obtain ⟨h1, h2⟩ := liveWatch_some z n w hl
      obtain ⟨h3, h4⟩ := watchEv_spec z n w .delete hz (hz n w h1)
      refine ⟨?_, ?_⟩
      · simp only []
        rw [h3, h2]; simp [expected, applyNew]
      · intro k w' hk; exact h4 k w' hk
    | none => exact ⟨by simp, fun k w' hk => hz k w' hk⟩
  | reconnect =>
    simp only [zstep, ZOp.erase]
    exact reconnectAll_spec z.ws z hz
  | spurious n =>
    simp only [zstep, ZOp.erase]
    cases hl : lookup n z.ws with
    | none => exact ⟨rfl, hz⟩
    | some w =>
      obtain ⟨h1, h2⟩ := watchEv_spec z n w .spurious hz (hz n w hl)
      refine ⟨?_, h2⟩
      rw [h1]
      cases w.node <;> simp [expected, applyNew]
  | other o =>
    simp only [zstep, ZOp.erase]
    exact ⟨by simp, fun k w' hk => hz k w' hk⟩

theorem zinv_init (st : St) : ZInv { st := st } := by
  intro n w h; simp [lookup] at h

/-- Over any ZooKeeper-level history the monitor state is the one the erased configuration history
    reaches. -/
theorem zrun_st (z : ZSt) (ops : List ZOp) (hz : ZInv z) :
    (zrun z ops).st = runOps z.st (ops.filterMap ZOp.erase) ∧ ZInv (zrun z ops) := by
  induction ops generalizing z with
  | nil => exact ⟨rfl, hz⟩
  | cons op rest ih =>
    obtain ⟨h1, h2⟩ := zstep_st z op hz
    obtain ⟨h3, h4⟩ := ih (zstep z op) h2
    refine ⟨?_, h4⟩
    simp only [zrun, List.foldl_cons] at h3 ⊢
    rw [h3, h1]
    cases he : op.erase with
    | none => simp [he]
    | some o => simp [he, runOps]

end TmVerif.Monitor
