/- Helper lemmas about the appmonitor model (C20). -/
import TmVerif.Monitor.Model
import TmVerif.Base.ListX

namespace TmVerif.Monitor

theorem SCALE_pos : 0 < SCALE := by decide

/-- What a call issued for monitor `m` must satisfy (the statement of C20 for one call). -/
def CallOk (sched : List (Nat × List Nat)) (m : Mon) : Call → Prop
  | .create n k =>
      n = m.name ∧ 1 ≤ k ∧
      (k : Int) ≤ (m.count : Int) - ((lookup m.name sched).getD []).length ∧
      (k : Int) * SCALE ≤ m.avail
  | .delete n l =>
      n = m.name ∧ m.count < ((lookup m.name sched).getD []).length ∧
      ((m.policy = .fifo ∧ l = ((lookup m.name sched).getD []).take
          (((lookup m.name sched).getD []).length - m.count)) ∨
       (m.policy = .lifo ∧ l = ((lookup m.name sched).getD []).drop m.count))

def callName : Call → Nat
  | .create n _ => n
  | .delete n _ => n

theorem floorTokens_mul_le (a : Int) : floorTokens a * SCALE ≤ a := by
  unfold floorTokens
  have := Int.ediv_mul_le a (Int.ne_of_gt SCALE_pos)
  simpa [Int.mul_comm] using this

/-- `evalOne` appends at most one call, for `m`, and that call is `CallOk`; it never fires for a
    suspended monitor; the monitor keeps name/count/policy/last and its budget only shrinks by the
    tokens spent. -/
theorem evalOne_spec (now : Int) (sched lastWaited outcome) (susp : List (Nat × Int)) (acc : Acc) (m : Mon) :
    let r := evalOne now sched lastWaited outcome susp acc m
    (r.2.2.calls = acc.calls ∨
      ∃ c, r.2.2.calls = acc.calls ++ [c] ∧ CallOk sched m c ∧ isSuspended susp now m.name = false) ∧
    r.1.name = m.name ∧ r.1.count = m.count ∧ r.1.policy = m.policy ∧ r.1.last = m.last ∧
    r.1.avail ≤ m.avail ∧ (0 ≤ m.avail → 0 ≤ r.1.avail) := by
  intro r
  simp only [r]
  unfold evalOne
  by_cases hs : isSuspended susp now m.name = true
  · simp [hs]
  · have hs' : isSuspended susp now m.name = false := by simpa using hs
    simp only [hs', Bool.false_eq_true, ↓reduceIte]
    by_cases heq : m.count = ((lookup m.name sched).getD []).length
    · simp [heq]
    · simp only [heq, ↓reduceIte]
      by_cases hgt : m.count > ((lookup m.name sched).getD []).length
      · simp only [hgt, ↓reduceIte]
        by_cases hal : min ((m.count : Int) - ((lookup m.name sched).getD []).length) (floorTokens m.avail) ≤ 0
        · simp only [hal, ↓reduceIte]
          split <;> simp
        · simp only [hal, ↓reduceIte]
          have hpos : 0 < min ((m.count : Int) - ((lookup m.name sched).getD []).length) (floorTokens m.avail) := by omega
          have hle1 := Int.min_le_left ((m.count : Int) - ((lookup m.name sched).getD []).length) (floorTokens m.avail)
          have hle2 := Int.min_le_right ((m.count : Int) - ((lookup m.name sched).getD []).length) (floorTokens m.avail)
          have hfl := floorTokens_mul_le m.avail
          have hcast : ((min ((m.count : Int) - ((lookup m.name sched).getD []).length) (floorTokens m.avail)).toNat : Int)
              = min ((m.count : Int) - ((lookup m.name sched).getD []).length) (floorTokens m.avail) :=
            Int.toNat_of_nonneg (Int.le_of_lt hpos)
          have hbud : min ((m.count : Int) - ((lookup m.name sched).getD []).length) (floorTokens m.avail) * SCALE ≤ m.avail := by
            have : min ((m.count : Int) - ((lookup m.name sched).getD []).length) (floorTokens m.avail) * SCALE
                ≤ floorTokens m.avail * SCALE :=
              Int.mul_le_mul_of_nonneg_right hle2 (Int.le_of_lt SCALE_pos)
            omega
          have hok : CallOk sched m (Call.create m.name
              (min ((m.count : Int) - ((lookup m.name sched).getD []).length) (floorTokens m.avail)).toNat) := by
            refine ⟨rfl, ?_, ?_, ?_⟩
            · omega
            · rw [hcast]; exact hle1
            · rw [hcast]; exact hbud
          have hspos : 0 ≤ min ((m.count : Int) - ((lookup m.name sched).getD []).length) (floorTokens m.avail) * SCALE :=
            Int.mul_nonneg (Int.le_of_lt hpos) (Int.le_of_lt SCALE_pos)
          split
          · refine ⟨Or.inr ⟨_, ?_, hok, trivial⟩, rfl, rfl, rfl, rfl, ?_, ?_⟩
            · split <;> rfl
            · simp only; omega
            · intro _; simp only; omega
          · exact ⟨Or.inr ⟨_, rfl, hok, trivial⟩, rfl, rfl, rfl, rfl, Int.le_refl _, id⟩
          · exact ⟨Or.inr ⟨_, rfl, hok, trivial⟩, rfl, rfl, rfl, rfl, Int.le_refl _, id⟩
          · exact ⟨Or.inr ⟨_, rfl, hok, trivial⟩, rfl, rfl, rfl, rfl, Int.le_refl _, id⟩
          · exact ⟨Or.inr ⟨_, rfl, hok, trivial⟩, rfl, rfl, rfl, rfl, Int.le_refl _, id⟩
      · simp only [hgt, ↓reduceIte]
        have hlt : m.count < ((lookup m.name sched).getD []).length := by omega
        split
        · simp
        · refine ⟨Or.inr ⟨Call.delete m.name (((lookup m.name sched).getD []).take
              (((lookup m.name sched).getD []).length - m.count)), ?_,
              (show CallOk sched m (Call.delete _ _) from ⟨rfl, hlt, Or.inl ⟨by assumption, rfl⟩⟩), trivial⟩,
              rfl, rfl, rfl, rfl, Int.le_refl _, id⟩
          split <;> rfl
        · refine ⟨Or.inr ⟨Call.delete m.name (((lookup m.name sched).getD []).drop m.count), ?_,
              (show CallOk sched m (Call.delete _ _) from ⟨rfl, hlt, Or.inr ⟨by assumption, rfl⟩⟩), trivial⟩,
              rfl, rfl, rfl, rfl, Int.le_refl _, id⟩
          split <;> rfl

end TmVerif.Monitor

namespace TmVerif.Monitor

/-! ### association-list lemmas -/

theorem lookup_filter_key {β} (p : Nat → Bool) (n : Nat) (l : List (Nat × β)) (hp : p n = true) :
    lookup n (l.filter (fun q => p q.1)) = lookup n l := by
  induction l with
  | nil => rfl
  | cons h t ih =>
    by_cases hq : p h.1 = true
    · simp only [List.filter_cons, hq, ↓reduceIte, lookup]; split <;> simp_all
    · have hne : h.1 ≠ n := by intro e; rw [e] at hq; exact hq hp
      simp only [List.filter_cons, hq, lookup, hne]; simpa using ih

theorem lookup_erase_ne {β} (k n : Nat) (l : List (Nat × β)) (h : k ≠ n) :
    lookup n (erase k l) = lookup n l := by
  unfold erase
  have := lookup_filter_key (β := β) (fun x => decide (x ≠ k)) n l (by simpa using Ne.symm h)
  simpa using this

theorem lookup_map_ne {β} (k n : Nat) (v : β) (l : List (Nat × β)) (h : k ≠ n) :
    lookup n (l.map (fun p => if p.1 = k then (k, v) else p)) = lookup n l := by
  induction l with
  | nil => rfl
  | cons a t ih =>
    simp only [List.map_cons, lookup]
    by_cases ha : a.1 = k
    · have : a.1 ≠ n := by rw [ha]; exact h
      simp [ha, h, this, ih]
    · simp only [ha, ↓reduceIte]; split <;> simp_all

theorem lookup_append_single_ne {β} (k n : Nat) (v : β) (l : List (Nat × β)) (h : k ≠ n) :
    lookup n (l ++ [(k, v)]) = lookup n l := by
  induction l with
  | nil => simp [lookup, h]
  | cons a t ih => simp only [List.cons_append, lookup]; split <;> simp_all

theorem lookup_insert_ne {β} (k n : Nat) (v : β) (l : List (Nat × β)) (h : k ≠ n) :
    lookup n (insert k v l) = lookup n l := by
  unfold insert
  split
  · exact lookup_map_ne k n v l h
  · exact lookup_append_single_ne k n v l h

theorem lookup_map_self {β} (k : Nat) (v : β) (l : List (Nat × β)) (h : (lookup k l).isSome) :
    lookup k (l.map (fun p => if p.1 = k then (k, v) else p)) = some v := by
  induction l with
  | nil => simp [lookup] at h
  | cons a t ih =>
    simp only [List.map_cons, lookup] at *
    by_cases ha : a.1 = k
    · simp [ha]
    · simp only [ha, ↓reduceIte] at *; exact ih h

theorem lookup_append_single_self {β} (k : Nat) (v : β) (l : List (Nat × β)) (h : lookup k l = none) :
    lookup k (l ++ [(k, v)]) = some v := by
  induction l with
  | nil => simp [lookup]
  | cons a t ih =>
    simp only [List.cons_append, lookup] at *
    by_cases ha : a.1 = k
    · simp [ha] at h
    · simp only [ha, ↓reduceIte] at *; exact ih h

theorem lookup_insert_self {β} (k : Nat) (v : β) (l : List (Nat × β)) :
    lookup k (insert k v l) = some v := by
  unfold insert
  split
  · rename_i x hx; exact lookup_map_self k v l (by simp [hx])
  · rename_i hx; exact lookup_append_single_self k v l hx

theorem DELAY_pos : 0 < DELAY := by decide

/-- `evalOne` only ever *adds* suspensions (for its own name, until `now + DELAY`). -/
theorem evalOne_susp (now : Int) (sched lastWaited outcome) (susp : List (Nat × Int)) (acc : Acc) (m : Mon) :
    let r := evalOne now sched lastWaited outcome susp acc m
    r.2.1 = susp ∨ r.2.1 = insert m.name (now + DELAY) susp := by
  intro r
  simp only [r]
  unfold evalOne
  simp only []
  repeat' split
  all_goals first | exact Or.inl rfl | exact Or.inr rfl

theorem isSuspended_mono_insert (susp : List (Nat × Int)) (now : Int) (k n : Nat)
    (h : isSuspended (insert k (now + DELAY) susp) now n = false) :
    isSuspended susp now n = false := by
  by_cases hk : k = n
  · subst hk
    unfold isSuspended at h
    rw [lookup_insert_self] at h
    have := DELAY_pos
    simp at h; omega
  · unfold isSuspended at *
    rwa [lookup_insert_ne k n _ susp hk] at h

theorem evalOne_susp_mono (now : Int) (sched lastWaited outcome) (susp : List (Nat × Int)) (acc : Acc) (m : Mon) (n : Nat)
    (h : isSuspended (evalOne now sched lastWaited outcome susp acc m).2.1 now n = false) :
    isSuspended susp now n = false := by
  rcases evalOne_susp now sched lastWaited outcome susp acc m with e | e
  · rwa [e] at h
  · rw [e] at h; exact isSuspended_mono_insert susp now m.name n h

/-- Specification of the second loop. -/
theorem pass2_spec (now : Int) (sched lastWaited outcome) :
    ∀ (ms : List Mon) (susp : List (Nat × Int)) (acc : Acc),
    let r := pass2 now sched lastWaited outcome susp acc ms
    (∃ cs, r.2.2.calls = acc.calls ++ cs ∧
        List.Sublist (cs.map callName) (ms.map (·.name)) ∧
        ∀ c ∈ cs, ∃ m ∈ ms, CallOk sched m c ∧ isSuspended susp now (callName c) = false) ∧
    Forall2 (fun m' m => m'.name = m.name ∧ m'.count = m.count ∧ m'.policy = m.policy ∧
        m'.last = m.last ∧ m'.avail ≤ m.avail ∧ (0 ≤ m.avail → 0 ≤ m'.avail)) r.1 ms := by
  intro ms
  induction ms with
  | nil => intro susp acc; exact ⟨⟨[], by simp [pass2], by simp, by simp⟩, Forall2.nil⟩
  | cons m ms ih =>
    intro susp acc
    simp only [pass2]
    have h1 := evalOne_spec now sched lastWaited outcome susp acc m
    have hmono := evalOne_susp_mono now sched lastWaited outcome susp acc m
    generalize evalOne now sched lastWaited outcome susp acc m = e at h1 hmono
    obtain ⟨m', susp1, acc1⟩ := e
    have h2 := ih susp1 acc1
    generalize pass2 now sched lastWaited outcome susp1 acc1 ms = p at h2
    obtain ⟨ms', susp', acc'⟩ := p
    simp only at h1 h2 hmono ⊢
    obtain ⟨hc1, hrest⟩ := h1
    obtain ⟨⟨cs, hcs, hsub, hall⟩, hf⟩ := h2
    refine ⟨?_, Forall2.cons hrest hf⟩
    rcases hc1 with hc1 | ⟨c, hc1, hok, hns⟩
    · refine ⟨cs, by rw [hcs, hc1], ?_, ?_⟩
      · simpa using List.Sublist.cons m.name hsub
      · intro c hc
        obtain ⟨m0, hm0, hok0, hs0⟩ := hall c hc
        exact ⟨m0, List.mem_cons_of_mem _ hm0, hok0, hmono _ hs0⟩
    · refine ⟨c :: cs, by rw [hcs, hc1]; simp, ?_, ?_⟩
      · have hn : callName c = m.name := by
          cases c <;> simp only [CallOk] at hok <;> exact hok.1
        simpa [hn] using hsub
      · intro c' hc'
        rcases List.mem_cons.mp hc' with rfl | hc'
        · refine ⟨m, List.mem_cons_self, hok, ?_⟩
          have hn : callName c' = m.name := by
            cases c' <;> simp only [CallOk] at hok <;> exact hok.1
          rw [hn]; exact hns
        · obtain ⟨m0, hm0, hok0, hs0⟩ := hall c' hc'
          exact ⟨m0, List.mem_cons_of_mem _ hm0, hok0, hmono _ hs0⟩

end TmVerif.Monitor

namespace TmVerif.Monitor

theorem refill_facts (now : Int) (m : Mon) :
    (refill now m).name = m.name ∧ (refill now m).count = m.count ∧
    (refill now m).policy = m.policy ∧ (refill now m).last = now := ⟨rfl, rfl, rfl, rfl⟩

theorem refill_avail (now : Int) (m : Mon) (h0 : 0 ≤ m.avail) (h1 : m.avail ≤ m.max) (hl : m.last ≤ now) :
    0 ≤ (refill now m).avail ∧ (refill now m).avail ≤ m.max ∧ m.avail ≤ (refill now m).avail := by
  unfold refill
  simp only
  have hd : 0 ≤ 2 * (m.count : Int) * (now - m.last) :=
    Int.mul_nonneg (by omega) (by omega)
  split
  · refine ⟨?_, Int.min_le_right _ _, ?_⟩ <;> omega
  · omega

/-- Specification of the first loop. -/
theorem pass1_spec (now : Int) :
    ∀ (ms : List Mon) (susp : List (Nat × Int)) (acc : Acc),
    let r := pass1 now susp acc ms
    Forall2 (fun m1 m => (m1 = m ∧ isSuspended susp now m.name = true) ∨ m1 = refill now m) r.1 ms ∧
    (∀ n, isSuspended susp now n = true → isSuspended r.2.1 now n = true) ∧
    r.2.2.calls = acc.calls := by
  intro ms
  induction ms with
  | nil => intro susp acc; exact ⟨.nil, fun _ h => h, rfl⟩
  | cons m ms ih =>
    intro susp acc
    simp only [pass1]
    by_cases hs : isSuspended susp now m.name = true
    · simp only [hs, ↓reduceIte]
      have h2 := ih susp acc
      generalize pass1 now susp acc ms = p at h2
      obtain ⟨ms', susp', acc'⟩ := p
      exact ⟨.cons (Or.inl ⟨rfl, hs⟩) h2.1, h2.2.1, h2.2.2⟩
    · simp only [hs, Bool.false_eq_true, ↓reduceIte]
      cases hl : lookup m.name susp with
      | none =>
        simp only
        have h2 := ih susp acc
        generalize pass1 now susp acc ms = p at h2
        obtain ⟨ms', susp', acc'⟩ := p
        refine ⟨.cons (Or.inr rfl) (h2.1.imp ?_), h2.2.1, h2.2.2⟩
        intro a b hab; exact hab
      | some t =>
        simp only
        have h2 := ih (erase m.name susp) { acc with alerts := acc.alerts ++ [(m.name, 0)], modified := true }
        generalize pass1 now (erase m.name susp) { acc with alerts := acc.alerts ++ [(m.name, 0)], modified := true } ms = p at h2
        obtain ⟨ms', susp', acc'⟩ := p
        have hkeep : ∀ n, isSuspended susp now n = true → isSuspended (erase m.name susp) now n = true := by
          intro n hn
          have hne : m.name ≠ n := by intro e; rw [e] at hs; exact hs hn
          unfold isSuspended at *
          rwa [lookup_erase_ne m.name n susp hne]
        refine ⟨.cons (Or.inr rfl) (h2.1.imp ?_), fun n hn => h2.2.1 n (hkeep n hn), h2.2.2⟩
        intro a b hab
        rcases hab with ⟨e, hsb⟩ | e
        · left
          refine ⟨e, ?_⟩
          by_cases hne : m.name = b.name
          · unfold isSuspended at hsb
            rw [← hne] at hsb
            have : lookup m.name (erase m.name susp) = none := by
              unfold erase
              clear hsb hl hs h2 hkeep
              induction susp with
              | nil => rfl
              | cons a t iht =>
                by_cases ha : a.1 = m.name
                · simp only [List.filter_cons, ha, ne_eq, not_true_eq_false, decide_false,
                    Bool.false_eq_true, ↓reduceIte]; exact iht
                · simp only [List.filter_cons, ne_eq, ha, not_false_eq_true, decide_true, ↓reduceIte, lookup]
                  exact iht
            rw [this] at hsb; simp at hsb
          · unfold isSuspended at *
            rwa [lookup_erase_ne m.name b.name susp hne] at hsb
        · right; exact e

end TmVerif.Monitor
