/-
  Model of `treadmill.sproc.appmonitor.reevaluate` (C20).

  Token bucket in exact arithmetic: `avail` is counted in units of 1/SCALE token where
  SCALE = _INTERVAL (3600), so that `rate * dt = 2*count*dt` units when `dt` is a whole number of
  seconds.  Names and instance ids are `Nat` (the harness interns them).
-/
import TmVerif.Gen.Extracted

namespace TmVerif.Monitor

/-- `_INTERVAL` in seconds (extracted). -/
def SCALE : Int := Extracted.appmonInterval
/-- `_DELAY_INTERVAL` in seconds (extracted). -/
def DELAY : Int := Extracted.appmonDelay

inductive Policy | fifo | lifo | invalid
  deriving DecidableEq, Repr

structure Mon where
  name   : Nat
  count  : Nat
  avail  : Int          -- units of 1/SCALE token
  last   : Int          -- last_update, seconds
  policy : Policy
  deriving Repr

/-- Outcome of a REST call as the monitor distinguishes them. -/
inductive Outcome | ok | notFound | badRequest | validation | other
  deriving DecidableEq, Repr

inductive Call
  | create (name : Nat) (n : Nat)
  | delete (name : Nat) (insts : List Nat)
  deriving DecidableEq, Repr

structure St where
  now        : Int
  mons       : List Mon                 -- insertion order of `state['monitors']`
  sched      : List (Nat × List Nat)    -- name ↦ sorted instances
  susp       : List (Nat × Int)         -- `state['suspended']`
  lastWaited : List Nat                 -- keys of the previous evaluation's result
  deriving Repr

def St.init : St := { now := 0, mons := [], sched := [], susp := [], lastWaited := [] }

def lookup {β} (k : Nat) : List (Nat × β) → Option β
  | [] => none
  | (k', v) :: t => if k' = k then some v else lookup k t

def erase {β} (k : Nat) (l : List (Nat × β)) : List (Nat × β) := l.filter (fun p => p.1 ≠ k)

def insert {β} (k : Nat) (v : β) (l : List (Nat × β)) : List (Nat × β) :=
  match lookup k l with
  | some _ => l.map (fun p => if p.1 = k then (k, v) else p)
  | none => l ++ [(k, v)]

def isSuspended (susp : List (Nat × Int)) (now : Int) (name : Nat) : Bool :=
  match lookup name susp with
  | some t => decide (t > now)
  | none => false

/-- `conf` as created by `_monitor_data_watch`. -/
def Mon.fresh (name count : Nat) (policy : Policy) (now : Int) : Mon :=
  { name, count, avail := 2 * (count : Int) * SCALE, last := now, policy }

def Mon.max (m : Mon) : Int := 2 * (m.count : Int) * SCALE

/-- Refill pass for one monitor (first loop of `reevaluate`). -/
def refill (now : Int) (m : Mon) : Mon :=
  let a := if m.avail < m.max then min (m.avail + 2 * (m.count : Int) * (now - m.last)) m.max
           else m.avail
  { m with avail := a, last := now }

/-- Output accumulated by an evaluation. -/
structure Acc where
  calls    : List Call := []
  alerts   : List (Nat × Nat) := []     -- (name, kind) 0 = clear, 1 = rate limited, 2.. = suspended:*
  waited   : List (Nat × Int) := []
  exactW   : List Nat := []             -- names whose wait quotient is exact (float boundary)
  modified : Bool := false
  deriving Repr

/-- First loop: drop stale `suspended`, refill. -/
def pass1 (now : Int) (susp : List (Nat × Int)) (acc : Acc) :
    List Mon → List Mon × List (Nat × Int) × Acc
  | [] => ([], susp, acc)
  | m :: ms =>
    if isSuspended susp now m.name then
      let (ms', susp', acc') := pass1 now susp acc ms
      (m :: ms', susp', acc')
    else
      let (susp1, acc1) :=
        match lookup m.name susp with
        | some _ => (erase m.name susp, { acc with alerts := acc.alerts ++ [(m.name, 0)], modified := true })
        | none => (susp, acc)
      let (ms', susp', acc') := pass1 now susp1 acc1 ms
      (refill now m :: ms', susp', acc')

def floorTokens (avail : Int) : Int := avail / SCALE        -- Int `/` floors for positive divisor

/-- Second loop body for one monitor. -/
def evalOne (now : Int) (sched : List (Nat × List Nat)) (lastWaited : List Nat)
    (outcome : Nat → Outcome) (susp : List (Nat × Int)) (acc : Acc) (m : Mon) :
    Mon × List (Nat × Int) × Acc :=
  if isSuspended susp now m.name then (m, susp, acc) else
  let insts := (lookup m.name sched).getD []
  let current := insts.length
  if m.count = current then (m, susp, acc)
  else if m.count > current then
    let needed : Int := (m.count : Int) - current
    let allowed : Int := min needed (floorTokens m.avail)
    if allowed ≤ 0 then
      let num := SCALE - m.avail
      let den := 2 * (m.count : Int)
      let w := now + num / den
      let acc := { acc with waited := insert m.name w acc.waited,
                            exactW := if num % den = 0 then m.name :: acc.exactW else acc.exactW }
      let acc := if lastWaited.contains m.name then acc
                 else { acc with alerts := acc.alerts ++ [(m.name, 1)], modified := true }
      (m, susp, acc)
    else
      let acc := { acc with calls := acc.calls ++ [Call.create m.name allowed.toNat] }
      match outcome m.name with
      | .ok =>
        let acc := if lastWaited.contains m.name
                   then { acc with alerts := acc.alerts ++ [(m.name, 0)], modified := true } else acc
        ({ m with avail := m.avail - allowed * SCALE }, susp, acc)
      | .notFound =>
        (m, insert m.name (now + DELAY) susp,
          { acc with alerts := acc.alerts ++ [(m.name, 2)], modified := true })
      | .badRequest =>
        (m, insert m.name (now + DELAY) susp,
          { acc with alerts := acc.alerts ++ [(m.name, 3)], modified := true })
      | .validation =>
        (m, insert m.name (now + DELAY) susp,
          { acc with alerts := acc.alerts ++ [(m.name, 4)], modified := true })
      | .other => (m, susp, acc)
  else
    let surplus := current - m.count
    match m.policy with
    | .invalid => (m, susp, acc)
    | .fifo =>
      let acc := { acc with calls := acc.calls ++ [Call.delete m.name (insts.take surplus)] }
      (m, susp, if outcome m.name = .ok then { acc with modified := true } else acc)
    | .lifo =>
      let acc := { acc with calls := acc.calls ++ [Call.delete m.name (insts.drop m.count)] }
      (m, susp, if outcome m.name = .ok then { acc with modified := true } else acc)

def pass2 (now : Int) (sched : List (Nat × List Nat)) (lastWaited : List Nat)
    (outcome : Nat → Outcome) (susp : List (Nat × Int)) (acc : Acc) :
    List Mon → List Mon × List (Nat × Int) × Acc
  | [] => ([], susp, acc)
  | m :: ms =>
    let (m', susp1, acc1) := evalOne now sched lastWaited outcome susp acc m
    let (ms', susp', acc') := pass2 now sched lastWaited outcome susp1 acc1 ms
    (m' :: ms', susp', acc')

/-- Result of one evaluation. -/
structure EvalOut where
  calls    : List Call
  alerts   : List (Nat × Nat)
  waited   : List (Nat × Int)      -- returned dict (= waited ∪ suspended)
  exactW   : List Nat
  modified : Bool
  deriving Repr

def mergeWaited (w : List (Nat × Int)) : List (Nat × Int) → List (Nat × Int)
  | [] => w
  | (k, v) :: t => mergeWaited (insert k v w) t

def reevaluate (s : St) (outcome : Nat → Outcome) : St × EvalOut :=
  -- remove outdated information in suspended dict
  let stale := s.susp.filter (fun p => !(s.mons.any (fun m => m.name = p.1)))
  let susp0 := s.susp.filter (fun p => s.mons.any (fun m => m.name = p.1))
  let acc0 : Acc := { modified := !stale.isEmpty }
  let (mons1, susp1, acc1) := pass1 s.now susp0 acc0 s.mons
  let (mons2, susp2, acc2) := pass2 s.now s.sched s.lastWaited outcome susp1 acc1 mons1
  let waited := mergeWaited acc2.waited susp2
  ({ s with mons := mons2, susp := susp2, lastWaited := waited.map (·.1) },
   { calls := acc2.calls, alerts := acc2.alerts, waited, exactW := acc2.exactW,
     modified := acc2.modified })

/-! ### Environment operations (what the ZooKeeper watches do to `state`) -/

inductive Op
  | setMon (name count : Nat) (policy : Policy)
  | delMon (name : Nat)
  | setSched (name : Nat) (insts : List Nat)
  | tick (dt : Nat)
  | eval (outcome : Nat → Outcome)

def setMon (s : St) (name count : Nat) (policy : Policy) : St :=
  let m := Mon.fresh name count policy s.now
  if s.mons.any (fun x => x.name = name)
  then { s with mons := s.mons.map (fun x => if x.name = name then m else x) }
  else { s with mons := s.mons ++ [m] }

def delMon (s : St) (name : Nat) : St := { s with mons := s.mons.filter (fun x => x.name ≠ name) }

def setSched (s : St) (name : Nat) (insts : List Nat) : St :=
  if insts.isEmpty then { s with sched := erase name s.sched }
  else { s with sched := insert name insts s.sched }

def step (s : St) : Op → St
  | .setMon n c p => setMon s n c p
  | .delMon n => delMon s n
  | .setSched n i => setSched s n i
  | .tick dt => { s with now := s.now + dt }
  | .eval o => (reevaluate s o).1

def runOps (s : St) (ops : List Op) : St := ops.foldl step s

end TmVerif.Monitor
