/-
  Lemmas about the unit-parser model: what the parsers return on `<decimal digits><suffix>`
  strings (any Unicode decimal digits, optional trailing white space), and the decimal
  printer/parser round trip for `Nat.toDigits 10` (= `toString`), all by induction.
-/
import TmVerif.Units.Model

namespace TmVerif.Units
open TmVerif.ExtReserve

/-! ### Facts read off the extracted tables (re-checked by `decide` whenever a table changes) -/

/-- Code points that are significant to the parsers in some other role than "digit". -/
def otherRoles : List Nat :=
  pySpace ++ pyIntSpace ++ upperSpecial.map (·.1) ++ sizeScale.map (·.1) ++ List.range' 97 26 ++
  [95, 43, 45, 37] ++ bytesUnits ++ [cpuSuffix]

theorem otherRoles_not_digit : ∀ s ∈ otherRoles, tableDigit s digitZeros = none := by decide +kernel

theorem not_otherRole_of_dec {c : Char} (h : isDecimal c = true) : c.toNat ∉ otherRoles := by
  intro hm
  have := otherRoles_not_digit _ hm
  simp [isDecimal, digitVal?, this] at h

theorem lookupNat_none {β} (k : Nat) (l : List (Nat × β)) (h : k ∉ l.map (·.1)) :
    lookupNat k l = none := by
  induction l with
  | nil => rfl
  | cons p t ih =>
    obtain ⟨k', v⟩ := p
    simp only [List.map_cons, List.mem_cons, not_or] at h
    simp only [lookupNat]
    rw [if_neg (fun e => h.1 e.symm)]
    exact ih h.2

theorem toUpper_eq_self (c : Char) (h : ¬ (97 ≤ c.toNat ∧ c.toNat ≤ 122)) : c.toUpper = c := by
  unfold Char.toUpper
  split
  · rename_i h'
    exfalso; apply h
    simp only [Char.toNat, UInt32.le_iff_toNat_le] at *
    exact h'
  · rfl

theorem mem_otherRoles_iff (n : Nat) : n ∈ otherRoles ↔
    n ∈ pySpace ∨ n ∈ pyIntSpace ∨ n ∈ upperSpecial.map (·.1) ∨ n ∈ sizeScale.map (·.1) ∨
    n ∈ List.range' 97 26 ∨ n ∈ [95, 43, 45, 37] ∨ n ∈ bytesUnits ∨ n = cpuSuffix := by
  simp only [otherRoles, List.mem_append, List.mem_singleton, or_assoc]

theorem dec_not_space {c : Char} (h : isDecimal c = true) : isPySpace c = false := by
  have hn := not_otherRole_of_dec h
  rw [mem_otherRoles_iff] at hn
  cases hs : isPySpace c with
  | false => rfl
  | true => exact absurd (Or.inl (List.contains_iff_mem.mp hs)) hn

theorem dec_not_intSpace {c : Char} (h : isDecimal c = true) : isIntSpace c = false := by
  have hn := not_otherRole_of_dec h
  rw [mem_otherRoles_iff] at hn
  cases hs : isIntSpace c with
  | false => rfl
  | true => exact absurd (Or.inr (Or.inl (List.contains_iff_mem.mp hs))) hn

theorem dec_upperC {c : Char} (h : isDecimal c = true) : upperC c = [c] := by
  have hn := not_otherRole_of_dec h
  rw [mem_otherRoles_iff] at hn
  have h1 : lookupNat c.toNat upperSpecial = none :=
    lookupNat_none _ _ (fun hm => hn (Or.inr (Or.inr (Or.inl hm))))
  have h2 : c.toUpper = c := by
    apply toUpper_eq_self
    intro hr
    apply hn
    refine Or.inr (Or.inr (Or.inr (Or.inr (Or.inl ?_))))
    rw [List.mem_range']
    exact ⟨c.toNat - 97, by omega, by omega⟩
  simp only [upperC, h1, h2]

theorem dec_scaleOf {c : Char} (h : isDecimal c = true) : scaleOf c = none := by
  have hn := not_otherRole_of_dec h
  rw [mem_otherRoles_iff] at hn
  exact lookupNat_none _ _ (fun hm => hn (Or.inr (Or.inr (Or.inr (Or.inl hm)))))

theorem dec_ne_of_code {c : Char} (h : isDecimal c = true) (d : Char)
    (hd : d.toNat ∈ [95, 43, 45, 37]) : c ≠ d := by
  have hn := not_otherRole_of_dec h
  rw [mem_otherRoles_iff] at hn
  intro e
  subst e
  exact hn (Or.inr (Or.inr (Or.inr (Or.inr (Or.inr (Or.inl hd))))))

theorem dec_ne_underscore {c : Char} (h : isDecimal c = true) : c ≠ '_' := dec_ne_of_code h _ (by decide)
theorem dec_ne_plus {c : Char} (h : isDecimal c = true) : c ≠ '+' := dec_ne_of_code h _ (by decide)
theorem dec_ne_minus {c : Char} (h : isDecimal c = true) : c ≠ '-' := dec_ne_of_code h _ (by decide)
theorem dec_ne_percent {c : Char} (h : isDecimal c = true) : c ≠ '%' := dec_ne_of_code h _ (by decide)

theorem dec_ne_B {c : Char} (h : isDecimal c = true) : c ≠ 'B' := by
  intro e
  have := dec_scaleOf h
  rw [e] at this
  revert this
  decide

theorem digitZeros_head : ∃ t, digitZeros = 48 :: t := ⟨_, rfl⟩

/-- ASCII digits are decimal digits with the usual value. -/
theorem digitVal_of_isDigit {c : Char} (h : c.isDigit = true) : digitVal? c = some (c.toNat - 48) := by
  obtain ⟨t, ht⟩ := digitZeros_head
  have h' : 48 ≤ c.toNat ∧ c.toNat < 48 + 10 := by
    simp only [Char.isDigit, Bool.and_eq_true, decide_eq_true_eq, UInt32.le_iff_toNat_le,
      Char.toNat_val] at h
    have a : ('0' : Char).toNat = 48 := rfl
    have b : ('9' : Char).toNat = 57 := rfl
    omega
  simp only [digitVal?, ht, tableDigit, if_pos h']

theorem isDecimal_of_isDigit {c : Char} (h : c.isDigit = true) : isDecimal c = true := by
  simp [isDecimal, digitVal_of_isDigit h]

/-! ### `upper`, `strip` -/

theorem upper_append (a b : List Char) : upper (a ++ b) = upper a ++ upper b := by
  simp [upper, List.flatMap_append]

theorem upper_fixed (s : List Char) (h : ∀ c ∈ s, upperC c = [c]) : upper s = s := by
  induction s with
  | nil => rfl
  | cons a t ih =>
    have ha := h a List.mem_cons_self
    have := ih (fun c hc => h c (List.mem_cons_of_mem _ hc))
    simp only [upper, List.flatMap_cons] at this ⊢
    rw [ha, this]; rfl

/-- `strip` / the white-space skipping of `int()`, generically. -/
def trim (p : Char → Bool) (s : List Char) : List Char :=
  ((s.dropWhile p).reverse.dropWhile p).reverse

theorem strip_eq_trim (s : List Char) : strip s = trim isPySpace s := rfl
theorem intStrip_eq_trim (s : List Char) : intStrip s = trim isIntSpace s := rfl

theorem dropWhile_of_head {p : Char → Bool} (l : List Char)
    (h : ∀ a, l.head? = some a → p a = false) : l.dropWhile p = l := by
  cases l with
  | nil => rfl
  | cons a t =>
    have := h a rfl
    simp [this]

theorem dropWhile_append_all {p : Char → Bool} (w r : List Char) (h : ∀ x ∈ w, p x = true) :
    (w ++ r).dropWhile p = r.dropWhile p := by
  induction w with
  | nil => rfl
  | cons a t ih =>
    have ha := h a List.mem_cons_self
    simp only [List.cons_append, List.dropWhile_cons, ha, if_true]
    exact ih (fun x hx => h x (List.mem_cons_of_mem _ hx))

/-- Trimming removes exactly a trailing run `w` of `p`-characters when `s` neither starts nor
    ends with one. -/
theorem trim_eq {p : Char → Bool} (s w : List Char) (hne : s ≠ [])
    (hh : ∀ a, s.head? = some a → p a = false) (hl : ∀ b, s.getLast? = some b → p b = false)
    (hw : ∀ x ∈ w, p x = true) : trim p (s ++ w) = s := by
  unfold trim
  have h1 : (s ++ w).dropWhile p = s ++ w := by
    apply dropWhile_of_head
    intro a ha
    cases s with
    | nil => exact absurd rfl hne
    | cons b t => exact hh a (by simpa using ha)
  rw [h1, List.reverse_append,
    dropWhile_append_all _ _ (fun x hx => hw x (List.mem_reverse.mp hx)),
    dropWhile_of_head _ (fun a ha => hl a (by rw [← List.head?_reverse]; exact ha)),
    List.reverse_reverse]

/-! ### `int()` on digit strings -/

/-- `intMaxStrDigits` allows a string of `k` digits. -/
def WithinLimit (k : Nat) : Prop := intMaxStrDigits = 0 ∨ k ≤ intMaxStrDigits

instance (k : Nat) : Decidable (WithinLimit k) := inferInstanceAs (Decidable (_ ∨ _))

/-- Value of a string of decimal digits (most significant first), on top of `acc`. -/
def decVal (l : List Char) (acc : Nat) : Nat :=
  l.foldl (fun a c => 10 * a + (match digitVal? c with | some d => d | none => 0)) acc

theorem parseDigits_dec (l : List Char) (acc cnt : Nat) (prev : Bool)
    (hd : ∀ c ∈ l, isDecimal c = true) (hne : l ≠ [] ∨ prev = true) :
    parseDigits l acc cnt prev = some (decVal l acc, cnt + l.length) := by
  induction l generalizing acc cnt prev with
  | nil =>
    rcases hne with h | h
    · exact absurd rfl h
    · simp [parseDigits, h, decVal]
  | cons c t ih =>
    have hc := hd c List.mem_cons_self
    have hcu := dec_ne_underscore hc
    obtain ⟨d, hdv⟩ : ∃ d, digitVal? c = some d := by
      simp only [isDecimal, Option.isSome_iff_exists] at hc; exact hc
    simp only [parseDigits, if_neg hcu, hdv]
    rw [ih _ _ _ (fun x hx => hd x (List.mem_cons_of_mem _ hx)) (Or.inr rfl)]
    simp only [decVal, List.foldl_cons, hdv, List.length_cons]
    congr 2
    omega

theorem splitSign_dec (l : List Char) (h : ∀ a, l.head? = some a → isDecimal a = true) :
    splitSign l = (false, l) := by
  cases l with
  | nil => rfl
  | cons a t =>
    have ha := h a rfl
    have h1 := dec_ne_minus ha
    have h2 := dec_ne_plus ha
    unfold splitSign
    split
    · rename_i heq; cases heq; exact absurd rfl h1
    · rename_i heq; cases heq; exact absurd rfl h2
    · rfl

theorem head_mem {l : List Char} {a : Char} (h : l.head? = some a) : a ∈ l := by
  cases l with
  | nil => cases h
  | cons b t => cases h; exact List.mem_cons_self

theorem getLast_mem {l : List Char} {a : Char} (h : l.getLast? = some a) : a ∈ l :=
  List.mem_of_getLast? h

/-- `int()` of a non-empty string of decimal digits within the digit limit. -/
theorem pyInt_dec (l : List Char) (hne : l ≠ []) (hd : ∀ c ∈ l, isDecimal c = true)
    (hlim : WithinLimit l.length) : pyInt l = some ((decVal l 0 : Nat) : Int) := by
  have hs : intStrip l = l := by
    have := trim_eq (p := isIntSpace) l [] hne
      (fun a ha => dec_not_intSpace (hd a (head_mem ha)))
      (fun b hb => dec_not_intSpace (hd b (getLast_mem hb))) (fun x hx => by cases hx)
    rw [intStrip_eq_trim]; simpa using this
  have hsg := splitSign_dec l (fun a ha => hd a (head_mem ha))
  unfold pyInt
  simp only [hs, hsg, parseDigits_dec l 0 0 false hd (Or.inl hne), Nat.zero_add]
  have : ¬ (intMaxStrDigits ≠ 0 ∧ l.length > intMaxStrDigits) := by
    rcases hlim with h | h
    · intro hh; exact hh.1 h
    · intro hh; omega
  rw [if_neg this]
  rfl

/-! ### decimal printer (`Nat.toDigits 10` = `toString`) / parser round trip -/

theorem toDigits_dec (n : Nat) : ∀ c ∈ Nat.toDigits 10 n, isDecimal c = true :=
  fun _ hc => isDecimal_of_isDigit (Nat.isDigit_of_mem_toDigits (by decide) (by decide) hc)

theorem decVal_eq_ofDigitChars (l : List Char) (acc : Nat) (h : ∀ c ∈ l, c.isDigit = true) :
    decVal l acc = Nat.ofDigitChars 10 l acc := by
  induction l generalizing acc with
  | nil => rfl
  | cons c t ih =>
    have hc := digitVal_of_isDigit (h c List.mem_cons_self)
    simp only [decVal, List.foldl_cons, hc, Nat.ofDigitChars_cons]
    exact ih _ (fun x hx => h x (List.mem_cons_of_mem _ hx))

/-- Parsing what the decimal printer printed gives the number back. -/
theorem decVal_toDigits (n : Nat) : decVal (Nat.toDigits 10 n) 0 = n := by
  rw [decVal_eq_ofDigitChars _ _ (fun c hc => Nat.isDigit_of_mem_toDigits (by decide) (by decide) hc)]
  exact Nat.ofDigitChars_ten_toDigits

theorem pyInt_toDigits (n : Nat) (hlim : WithinLimit (Nat.toDigits 10 n).length) :
    pyInt (Nat.toDigits 10 n) = some (n : Int) := by
  rw [pyInt_dec _ Nat.toDigits_ne_nil (toDigits_dec n) hlim, decVal_toDigits]

/-! ### the parsers on `<digits><suffix><white space>` -/

/-- `upper().strip()` of digits, a suffix whose upper case is the single non-space `U`, and
    trailing white space. -/
theorem norm_dec_suffix (ds w : List Char) (u U : Char) (hne : ds ≠ [])
    (hd : ∀ c ∈ ds, isDecimal c = true) (hu : upperC u = [U]) (hU : isPySpace U = false)
    (hw : ∀ x ∈ w, upperC x = [x] ∧ isPySpace x = true) :
    norm (ds ++ [u] ++ w) = ds ++ [U] := by
  have h1 : upper (ds ++ [u] ++ w) = (ds ++ [U]) ++ w := by
    rw [upper_append, upper_append, upper_fixed ds (fun c hc => dec_upperC (hd c hc)),
      upper_fixed w (fun x hx => (hw x hx).1)]
    simp [upper, hu]
  rw [norm, h1, strip_eq_trim]
  apply trim_eq
  · simp
  · intro a ha
    cases ds with
    | nil => exact absurd rfl hne
    | cons b t =>
      simp only [List.cons_append, List.head?_cons, Option.some.injEq] at ha
      subst ha; exact dec_not_space (hd _ List.mem_cons_self)
  · intro b hb
    rw [List.getLast?_concat] at hb
    cases hb; exact hU
  · exact fun x hx => (hw x hx).2

/-- `upper().strip()` of bare digits and trailing white space. -/
theorem norm_dec (ds w : List Char) (hne : ds ≠ []) (hd : ∀ c ∈ ds, isDecimal c = true)
    (hw : ∀ x ∈ w, upperC x = [x] ∧ isPySpace x = true) : norm (ds ++ w) = ds := by
  have h1 : upper (ds ++ w) = ds ++ w := by
    rw [upper_append, upper_fixed ds (fun c hc => dec_upperC (hd c hc)),
      upper_fixed w (fun x hx => (hw x hx).1)]
  rw [norm, h1, strip_eq_trim]
  exact trim_eq ds w hne (fun a ha => dec_not_space (hd a (head_mem ha)))
    (fun b hb => dec_not_space (hd b (getLast_mem hb))) (fun x hx => (hw x hx).2)

/-- `cpu_units("<digits>%")`. -/
theorem cpuUnits_dec_percent (ds w : List Char) (u : Char) (hne : ds ≠ [])
    (hd : ∀ c ∈ ds, isDecimal c = true) (hu : upperC u = ['%'])
    (hw : ∀ x ∈ w, upperC x = [x] ∧ isPySpace x = true) (hlim : WithinLimit ds.length) :
    cpuUnits (ds ++ [u] ++ w) = .ok (decVal ds 0 : Nat) := by
  unfold cpuUnits
  rw [norm_dec_suffix ds w u '%' hne hd hu (by decide) hw]
  simp only [List.reverse_append, List.reverse_cons, List.reverse_nil, List.nil_append,
    List.cons_append, List.reverse_reverse]
  rw [pyInt_dec ds hne hd hlim]; rfl

/-- `cpu_units("<digits>")`. -/
theorem cpuUnits_dec (ds w : List Char) (hne : ds ≠ []) (hd : ∀ c ∈ ds, isDecimal c = true)
    (hw : ∀ x ∈ w, upperC x = [x] ∧ isPySpace x = true) (hlim : WithinLimit ds.length) :
    cpuUnits (ds ++ w) = .ok (decVal ds 0 : Nat) := by
  unfold cpuUnits
  rw [norm_dec ds w hne hd hw]
  have hlast : ∀ r, ds.reverse = '%' :: r → False := by
    intro r hr
    have hm : '%' ∈ ds := by
      rw [← List.mem_reverse, hr]; exact List.mem_cons_self
    exact dec_ne_percent (hd _ hm) rfl
  split
  · rename_i r hr; exact (hlast r hr).elim
  · rename_i r _
    rw [List.reverse_reverse, pyInt_dec ds hne hd hlim]; rfl

/-- `size_to_bytes("<digits><unit>")` for a unit other than `B`. -/
theorem sizeToBytes_dec_unit (ds w : List Char) (u U : Char) (k : Nat) (hne : ds ≠ [])
    (hd : ∀ c ∈ ds, isDecimal c = true) (hu : upperC u = [U]) (hU : isPySpace U = false)
    (hB : U ≠ 'B') (hk : scaleOf U = some k)
    (hw : ∀ x ∈ w, upperC x = [x] ∧ isPySpace x = true) (hlim : WithinLimit ds.length) :
    sizeToBytes (ds ++ [u] ++ w) = .ok ((decVal ds 0 : Nat) * (1024 : Int) ^ k) := by
  unfold sizeToBytes
  rw [norm_dec_suffix ds w u U hne hd hu hU hw]
  simp only [List.reverse_append, List.reverse_cons, List.reverse_nil, List.nil_append,
    List.cons_append, if_neg hB, sizeCore, hk, List.reverse_reverse]
  rw [pyInt_dec ds hne hd hlim]; rfl

/-- `size_to_bytes("<digits><unit>B")` (decimal multiples). -/
theorem sizeToBytes_dec_unitB (ds w : List Char) (u U b : Char) (k : Nat) (hne : ds ≠ [])
    (hd : ∀ c ∈ ds, isDecimal c = true) (hu : upperC u = [U]) (hb : upperC b = ['B'])
    (hk : scaleOf U = some k)
    (hw : ∀ x ∈ w, upperC x = [x] ∧ isPySpace x = true) (hlim : WithinLimit ds.length) :
    sizeToBytes (ds ++ [u, b] ++ w) = .ok ((decVal ds 0 : Nat) * (1000 : Int) ^ k) := by
  unfold sizeToBytes
  have hn : norm (ds ++ [u, b] ++ w) = ds ++ [U, 'B'] := by
    have h1 : upper (ds ++ [u, b] ++ w) = (ds ++ [U, 'B']) ++ w := by
      rw [upper_append, upper_append, upper_fixed ds (fun c hc => dec_upperC (hd c hc)),
        upper_fixed w (fun x hx => (hw x hx).1)]
      simp [upper, hu, hb]
    rw [norm, h1, strip_eq_trim]
    apply trim_eq
    · simp
    · intro a ha
      cases ds with
      | nil => exact absurd rfl hne
      | cons c t =>
        simp only [List.cons_append, List.head?_cons, Option.some.injEq] at ha
        subst ha; exact dec_not_space (hd _ List.mem_cons_self)
    · intro c hc
      have : ds ++ [U, 'B'] = (ds ++ [U]) ++ ['B'] := by simp
      rw [this, List.getLast?_concat] at hc
      cases hc; decide
    · exact fun x hx => (hw x hx).2
  rw [hn]
  simp only [List.reverse_append, List.reverse_cons, List.reverse_nil, List.nil_append,
    List.cons_append, if_true, sizeCore, hk, List.reverse_reverse]
  rw [pyInt_dec ds hne hd hlim]; rfl

/-- `kilobytes("<digits><unit>")`. -/
theorem kilobytes_dec_unit (ds w : List Char) (u U : Char) (k : Nat) (hne : ds ≠ [])
    (hd : ∀ c ∈ ds, isDecimal c = true) (hu : upperC u = [U]) (hU : isPySpace U = false)
    (hB : U ≠ 'B') (hk : scaleOf U = some k)
    (hw : ∀ x ∈ w, upperC x = [x] ∧ isPySpace x = true) (hlim : WithinLimit ds.length) :
    kilobytes (ds ++ [u] ++ w) = .ok ((decVal ds 0 : Nat) * (1024 : Int) ^ k / 1024) := by
  unfold kilobytes
  rw [sizeToBytes_dec_unit ds w u U k hne hd hu hU hB hk hw hlim,
    norm_dec_suffix ds w u U hne hd hu hU hw]
  have h0 : ds ++ [U] ≠ ['0'] := by
    cases ds with
    | nil => exact absurd rfl hne
    | cons a t => cases t <;> simp
  simp only [if_neg h0, List.reverse_append, List.reverse_cons, List.reverse_nil, List.nil_append,
    List.cons_append, hk]
  rfl

theorem megabytes_dec_unit (ds w : List Char) (u U : Char) (k : Nat) (hne : ds ≠ [])
    (hd : ∀ c ∈ ds, isDecimal c = true) (hu : upperC u = [U]) (hU : isPySpace U = false)
    (hB : U ≠ 'B') (hk : scaleOf U = some k)
    (hw : ∀ x ∈ w, upperC x = [x] ∧ isPySpace x = true) (hlim : WithinLimit ds.length) :
    megabytes (ds ++ [u] ++ w) = .ok ((decVal ds 0 : Nat) * (1024 : Int) ^ k / 1024 / 1024) := by
  unfold megabytes
  rw [kilobytes_dec_unit ds w u U k hne hd hu hU hB hk hw hlim]
  rfl

/-! ### case-insensitivity -/

theorem upperC_ascii_letter : ∀ k ∈ List.range' 65 26,
    upperC (Char.ofNat k).toLower = upperC (Char.ofNat k) ∧
    upperC (Char.ofNat (k + 32)).toUpper = upperC (Char.ofNat (k + 32)) := by decide

theorem toLower_eq_self (c : Char) (h : ¬ (65 ≤ c.toNat ∧ c.toNat ≤ 90)) : c.toLower = c := by
  unfold Char.toLower
  split
  · rename_i h'
    exfalso; apply h
    simp only [Char.toNat, ge_iff_le, UInt32.le_iff_toNat_le] at *
    exact h'
  · rfl

theorem upperC_toLower (c : Char) : upperC c.toLower = upperC c := by
  by_cases h : 65 ≤ c.toNat ∧ c.toNat ≤ 90
  · have := (upperC_ascii_letter c.toNat (List.mem_range'.mpr ⟨c.toNat - 65, by omega, by omega⟩)).1
    rwa [Char.ofNat_toNat] at this
  · rw [toLower_eq_self c h]

theorem upperC_toUpper (c : Char) : upperC c.toUpper = upperC c := by
  by_cases h : 97 ≤ c.toNat ∧ c.toNat ≤ 122
  · have := (upperC_ascii_letter (c.toNat - 32)
      (List.mem_range'.mpr ⟨c.toNat - 97, by omega, by omega⟩)).2
    have e : c.toNat - 32 + 32 = c.toNat := by omega
    rwa [e, Char.ofNat_toNat] at this
  · rw [toUpper_eq_self c h]

theorem norm_map_toLower (s : List Char) : norm (s.map Char.toLower) = norm s := by
  simp only [norm, upper, List.flatMap_map, upperC_toLower]

theorem norm_map_toUpper (s : List Char) : norm (s.map Char.toUpper) = norm s := by
  simp only [norm, upper, List.flatMap_map, upperC_toUpper]

/-- All four parsers depend on their argument only through `norm`. -/
theorem parsers_of_norm_eq (s t : List Char) (h : norm s = norm t) :
    cpuUnits s = cpuUnits t ∧ sizeToBytes s = sizeToBytes t ∧
    kilobytes s = kilobytes t ∧ megabytes s = megabytes t := by
  have h2 : sizeToBytes s = sizeToBytes t := by simp only [sizeToBytes, h]
  have h3 : kilobytes s = kilobytes t := by simp only [kilobytes, h, h2]
  exact ⟨by simp only [cpuUnits, h], h2, h3, by simp only [megabytes, h3]⟩

/-! ### `to_seconds` -/

/-- `to_seconds("<digits><unit>")` for a unit of the time table, in either case, with trailing white
    space. -/
theorem toSeconds_dec_unit (ds w : List Char) (u U : Char) (k : Nat) (hne : ds ≠ [])
    (hd : ∀ c ∈ ds, isDecimal c = true) (hu : upperC u = [U]) (hU : isPySpace U = false)
    (hk : timeScaleOf U = some k)
    (hw : ∀ x ∈ w, upperC x = [x] ∧ isPySpace x = true) (hlim : WithinLimit ds.length) :
    toSeconds (ds ++ [u] ++ w) = .ok ((decVal ds 0 : Nat) * (k : Int)) := by
  unfold toSeconds
  rw [norm_dec_suffix ds w u U hne hd hu hU hw]
  simp only [List.reverse_append, List.reverse_cons, List.reverse_nil, List.nil_append,
    List.cons_append, hk, List.reverse_reverse]
  rw [pyInt_dec ds hne hd hlim]; rfl

/-- `to_seconds` depends on its argument only through `norm` (so it is insensitive to case). -/
theorem toSeconds_of_norm_eq (s t : List Char) (h : norm s = norm t) : toSeconds s = toSeconds t := by
  simp only [toSeconds, h]

/-- The time table as the property reads it: seconds, minutes, hours, days. -/
theorem timeScale_values :
    timeScaleOf 'S' = some 1 ∧ timeScaleOf 'M' = some 60 ∧ timeScaleOf 'H' = some 3600 ∧
    timeScaleOf 'D' = some 86400 := by decide

/-- `to_seconds(str(n) + unit)` for every natural `n` (within the interpreter's digit limit) and every
    unit letter in either case: `n` seconds, `60 n`, `3600 n`, `86400 n`. -/
theorem toSeconds_nat (n : Nat) (hlim : WithinLimit (Nat.toDigits 10 n).length) :
    (∀ u ∈ ['s', 'S'], toSeconds (Nat.toDigits 10 n ++ [u]) = .ok (n : Int)) ∧
    (∀ u ∈ ['m', 'M'], toSeconds (Nat.toDigits 10 n ++ [u]) = .ok ((n : Int) * 60)) ∧
    (∀ u ∈ ['h', 'H'], toSeconds (Nat.toDigits 10 n ++ [u]) = .ok ((n : Int) * 3600)) ∧
    (∀ u ∈ ['d', 'D'], toSeconds (Nat.toDigits 10 n ++ [u]) = .ok ((n : Int) * 86400)) := by
  have key : ∀ (u U : Char) (k : Nat), upperC u = [U] → isPySpace U = false → timeScaleOf U = some k →
      toSeconds (Nat.toDigits 10 n ++ [u]) = .ok ((n : Int) * (k : Int)) := by
    intro u U k hu hU hk
    have := toSeconds_dec_unit (Nat.toDigits 10 n) [] u U k Nat.toDigits_ne_nil (toDigits_dec n) hu hU hk
      (by simp) hlim
    simpa [decVal_toDigits] using this
  obtain ⟨hS, hM, hH, hD⟩ := timeScale_values
  refine ⟨?_, ?_, ?_, ?_⟩ <;> intro u hu <;> simp only [List.mem_cons, List.not_mem_nil, or_false] at hu
  · rcases hu with rfl | rfl
    · simpa using key 's' 'S' 1 (by decide) (by decide) hS
    · simpa using key 'S' 'S' 1 (by decide) (by decide) hS
  · rcases hu with rfl | rfl
    · simpa using key 'm' 'M' 60 (by decide) (by decide) hM
    · simpa using key 'M' 'M' 60 (by decide) (by decide) hM
  · rcases hu with rfl | rfl
    · simpa using key 'h' 'H' 3600 (by decide) (by decide) hH
    · simpa using key 'H' 'H' 3600 (by decide) (by decide) hH
  · rcases hu with rfl | rfl
    · simpa using key 'd' 'D' 86400 (by decide) (by decide) hD
    · simpa using key 'D' 'D' 86400 (by decide) (by decide) hD

end TmVerif.Units
