/-
  Executable model of the unit parsers of `treadmill.utils`:
  `cpu_units`, `size_to_bytes`, `kilobytes`, `megabytes`, and of the Python builtins they are
  made of (`str.upper`, `str.strip`, `int`), over `List Char` (the driver converts from String).

  Every function returns exactly what Python returns on *every* `str` whose characters are
  Unicode scalar values (Lean's `Char`; lone surrogates are not representable), including which
  exception is raised:
    `.error .valueError`  `int()` could not parse            (ValueError)
    `.error .indexError`  `size[-1]` / `norm[-1]` on ''      (IndexError)
    `.error .exception`   `kilobytes` on a unit-less value   (Exception)
  Tables (`sizeScale`, Unicode facts of the running interpreter) come from the extractor
  (`TmVerif.ExtReserve`).  The one abstraction: a non-ASCII character that is neither a decimal
  digit nor a space and whose `upper()` contains no significant character is kept as itself by
  `upper` (Python may replace it by other such characters); the extractor checks that every such
  replacement consists of characters that are an error in every position, exactly like the
  original, so results (and exception kinds) coincide.
-/
import TmVerif.Gen.ExtReserve

namespace TmVerif.Units
open TmVerif.ExtReserve

inductive PyErr | valueError | indexError | exception
  deriving DecidableEq, Repr

instance instDecEqExcept {ε α} [DecidableEq ε] [DecidableEq α] : DecidableEq (Except ε α)
  | .ok a, .ok b => if h : a = b then isTrue (by rw [h]) else isFalse (fun e => h (by cases e; rfl))
  | .error a, .error b =>
    if h : a = b then isTrue (by rw [h]) else isFalse (fun e => h (by cases e; rfl))
  | .ok _, .error _ => isFalse (fun e => by cases e)
  | .error _, .ok _ => isFalse (fun e => by cases e)

/-- `str.isspace()` of one character. -/
def isPySpace (c : Char) : Bool := pySpace.contains c.toNat
/-- what `int()` skips around a number. -/
def isIntSpace (c : Char) : Bool := pyIntSpace.contains c.toNat

/-- Digit value from the table of Unicode zeros (each zero starts a run `0..9`). -/
def tableDigit (cp : Nat) : List Nat → Option Nat
  | [] => none
  | z :: zs => if z ≤ cp ∧ cp < z + 10 then some (cp - z) else tableDigit cp zs

/-- Decimal value of a character (`Py_UNICODE_TODECIMAL`), `none` if it is not a digit. -/
def digitVal? (c : Char) : Option Nat := tableDigit c.toNat digitZeros

def isDecimal (c : Char) : Bool := (digitVal? c).isSome

def lookupNat {β} (k : Nat) : List (Nat × β) → Option β
  | [] => none
  | (k', v) :: t => if k' = k then some v else lookupNat k t

/-- `str.upper()` of one character (may expand to several). -/
def upperC (c : Char) : List Char :=
  match lookupNat c.toNat upperSpecial with
  | some l => l.map Char.ofNat
  | none => [c.toUpper]

def upper (s : List Char) : List Char := s.flatMap upperC

/-- `str.strip()`. -/
def strip (s : List Char) : List Char :=
  ((s.dropWhile isPySpace).reverse.dropWhile isPySpace).reverse

/-- `norm = str(value).upper().strip()` -/
def norm (s : List Char) : List Char := strip (upper s)

/-- Digits with single underscores between them (`prev` = previous char was a digit).
    Returns the value and the number of digits. -/
def parseDigits : List Char → (acc cnt : Nat) → (prev : Bool) → Option (Nat × Nat)
  | [], acc, cnt, prev => if prev then some (acc, cnt) else none
  | c :: cs, acc, cnt, prev =>
    if c = '_' then
      if prev then parseDigits cs acc cnt false else none
    else
      match digitVal? c with
      | some d => parseDigits cs (10 * acc + d) (cnt + 1) true
      | none => none

def intStrip (s : List Char) : List Char :=
  ((s.dropWhile isIntSpace).reverse.dropWhile isIntSpace).reverse

def splitSign : List Char → Bool × List Char
  | '-' :: r => (true, r)
  | '+' :: r => (false, r)
  | r => (false, r)

/-- `int(s)` for a `str` argument, base 10; `none` = ValueError. -/
def pyInt (s : List Char) : Option Int :=
  let sb := splitSign (intStrip s)
  match parseDigits sb.2 0 0 false with
  | some (v, cnt) =>
    if intMaxStrDigits ≠ 0 ∧ cnt > intMaxStrDigits then none
    else some (if sb.1 then -(v : Int) else (v : Int))
  | none => none

def ofInt? : Option Int → Except PyErr Int
  | some v => .ok v
  | none => .error .valueError

/-- exponent of a size suffix: `_SIZE_SCALE[c]`, `none` when `c not in _SIZE_SCALE`. -/
def scaleOf (c : Char) : Option Nat := lookupNat c.toNat sizeScale

/-- `utils.cpu_units`. -/
def cpuUnits (s : List Char) : Except PyErr Int :=
  match (norm s).reverse with
  | '%' :: r => ofInt? (pyInt r.reverse)
  | r => ofInt? (pyInt r.reverse)

/-- tail of `size_to_bytes` after the optional `B` was removed; argument is reversed. -/
def sizeCore (unit : Nat) : List Char → Except PyErr Int
  | [] => .error .indexError
  | c :: r =>
    match scaleOf c with
    | some k => (ofInt? (pyInt r.reverse)).map (· * ((unit : Int) ^ k))
    | none => ofInt? (pyInt (c :: r).reverse)

/-- `utils.size_to_bytes` on a `str`. -/
def sizeToBytes (s : List Char) : Except PyErr Int :=
  match (norm s).reverse with
  | [] => .error .indexError
  | c :: r => if c = 'B' then sizeCore 1000 r else sizeCore 1024 (c :: r)

/-- `utils.kilobytes` (Python `//` floors, as `Int./` does for a positive divisor). -/
def kilobytes (s : List Char) : Except PyErr Int :=
  if norm s = ['0'] then .ok 0 else
  match (norm s).reverse with
  | [] => .error .indexError
  | c :: _ =>
    match scaleOf c with
    | none => .error .exception
    | some _ => (sizeToBytes s).map (· / 1024)

/-- `utils.megabytes`. -/
def megabytes (s : List Char) : Except PyErr Int := (kilobytes s).map (· / 1024)

/-- `_TIME_SCALE[c]`, `none` when `c not in _TIME_SCALE`. -/
def timeScaleOf (c : Char) : Option Nat := lookupNat c.toNat timeScale

/-- `utils.to_seconds` on a `str`: `norm[-1]` must be a time suffix (else `Exception`; IndexError on
    an empty string), the rest goes through `int()`. -/
def toSeconds (s : List Char) : Except PyErr Int :=
  match (norm s).reverse with
  | [] => .error .indexError
  | c :: r =>
    match timeScaleOf c with
    | none => .error .exception
    | some k => (ofInt? (pyInt r.reverse)).map (· * (k : Int))

end TmVerif.Units
