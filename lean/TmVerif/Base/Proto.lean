/-
  Line-protocol helpers shared by all engine drivers (no Mathlib, core only).
  One op per input line, exactly one output line per input line.
-/
namespace TmVerif.Proto

/-- Split on single spaces, dropping empty tokens. -/
def words (s : String) : List String :=
  (s.trimAscii.toString.splitOn " ").filter (· ≠ "")

/-- Comma separated list; the token "-" or "" is the empty list. -/
def csv (s : String) : List String :=
  if s = "-" || s = "" then [] else s.splitOn ","

def showCsv (l : List String) : String :=
  if l.isEmpty then "-" else String.intercalate "," l

def natList? (s : String) : Option (List Nat) := (csv s).mapM String.toNat?
def intList? (s : String) : Option (List Int) := (csv s).mapM String.toInt?

def showNats (l : List Nat) : String := showCsv (l.map toString)
def showInts (l : List Int) : String := showCsv (l.map toString)

def optNat? (s : String) : Option (Option Nat) :=
  if s = "none" then some none else s.toNat?.map some
def optInt? (s : String) : Option (Option Int) :=
  if s = "none" then some none else s.toInt?.map some

def showOpt {α} [ToString α] : Option α → String
  | none => "none"
  | some a => toString a

def bool? (s : String) : Option Bool :=
  if s = "1" then some true else if s = "0" then some false else none
def showBool (b : Bool) : String := if b then "1" else "0"

/-- Generic driver loop: `step` returns the new state and one output line. -/
partial def loop {σ} (step : σ → List String → σ × String) (init : σ)
    (h : IO.FS.Stream) (out : IO.FS.Stream) (s : σ) : IO Unit := do
  let line ← h.getLine
  if line.isEmpty then
    out.flush
    return ()
  let ws := words line
  match ws with
  | ["reset"] => out.putStrLn "ok"; loop step init h out init
  | _ =>
    let (s', o) := step s ws
    out.putStrLn o
    loop step init h out s'

def run {σ} (step : σ → List String → σ × String) (init : σ) : IO Unit := do
  let i ← IO.getStdin
  let o ← IO.getStdout
  loop step init i o init

end TmVerif.Proto
