/- Small list utilities shared by the proof files (core only). -/
namespace TmVerif

/-- Pointwise relation between two lists (core Lean has no `Forall₂`). -/
inductive Forall2 {α β} (R : α → β → Prop) : List α → List β → Prop
  | nil : Forall2 R [] []
  | cons {a b l₁ l₂} : R a b → Forall2 R l₁ l₂ → Forall2 R (a :: l₁) (b :: l₂)

theorem Forall2.mem_left {α β} {R : α → β → Prop} {l₁ : List α} {l₂ : List β}
    (h : Forall2 R l₁ l₂) {a : α} (ha : a ∈ l₁) : ∃ b ∈ l₂, R a b := by
  induction h with
  | nil => cases ha
  | cons hr _ ih =>
    rcases List.mem_cons.mp ha with rfl | ha
    · exact ⟨_, List.mem_cons_self, hr⟩
    · obtain ⟨b, hb, hr'⟩ := ih ha
      exact ⟨b, List.mem_cons_of_mem _ hb, hr'⟩

theorem Forall2.mem_right {α β} {R : α → β → Prop} {l₁ : List α} {l₂ : List β}
    (h : Forall2 R l₁ l₂) {b : β} (hb : b ∈ l₂) : ∃ a ∈ l₁, R a b := by
  induction h with
  | nil => cases hb
  | cons hr _ ih =>
    rcases List.mem_cons.mp hb with rfl | hb
    · exact ⟨_, List.mem_cons_self, hr⟩
    · obtain ⟨a, ha, hr'⟩ := ih hb
      exact ⟨a, List.mem_cons_of_mem _ ha, hr'⟩

theorem Forall2.map_eq {α β γ} {R : α → β → Prop} {l₁ : List α} {l₂ : List β} (f : α → γ) (g : β → γ)
    (h : Forall2 R l₁ l₂) (hfg : ∀ a b, R a b → f a = g b) : l₁.map f = l₂.map g := by
  induction h with
  | nil => rfl
  | cons hr _ ih => simp [hfg _ _ hr, ih]

theorem Forall2.imp {α β} {R S : α → β → Prop} {l₁ : List α} {l₂ : List β}
    (h : Forall2 R l₁ l₂) (hrs : ∀ a b, R a b → S a b) : Forall2 S l₁ l₂ := by
  induction h with
  | nil => exact .nil
  | cons hr _ ih => exact .cons (hrs _ _ hr) ih

end TmVerif
