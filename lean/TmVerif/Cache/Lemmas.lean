/- Helper lemmas about the manifest-cache model (C12). -/
import TmVerif.Cache.Model

namespace TmVerif.Cache

/-! ### association lists -/

section assoc
variable {β : Type}

theorem get_erase_self (k : Name) (l : List (Name × β)) : get k (erase k l) = none := by
  induction l with
  | nil => rfl
  | cons a t ih =>
    by_cases h : a.1 = k
    · simp only [erase, List.filter_cons, h, ne_eq, not_true_eq_false, decide_false,
        Bool.false_eq_true, ↓reduceIte]
      exact ih
    · simp only [erase, List.filter_cons, ne_eq, h, not_false_eq_true, decide_true, ↓reduceIte, get]
      exact ih

theorem get_erase_ne {k n : Name} (h : k ≠ n) (l : List (Name × β)) :
    get n (erase k l) = get n l := by
  induction l with
  | nil => rfl
  | cons a t ih =>
    by_cases ha : a.1 = k
    · have hne : a.1 ≠ n := by rw [ha]; exact h
      simp only [erase, List.filter_cons, ha, ne_eq, not_true_eq_false, decide_false,
        Bool.false_eq_true, ↓reduceIte, get, h]
      exact ih
    · simp only [erase, List.filter_cons, ne_eq, ha, not_false_eq_true, decide_true, ↓reduceIte, get]
      split
      · rfl
      · exact ih

theorem get_put_self (k : Name) (v : β) (l : List (Name × β)) : get k (put k v l) = some v := by
  simp [put, get]

theorem get_put_ne {k n : Name} (h : k ≠ n) (v : β) (l : List (Name × β)) :
    get n (put k v l) = get n l := by
  simp only [put, get, h, ↓reduceIte]
  exact get_erase_ne h l

theorem get_erase (k n : Name) (l : List (Name × β)) :
    get n (erase k l) = if k = n then none else get n l := by
  by_cases h : k = n
  · subst h; simp [get_erase_self]
  · simp [h, get_erase_ne h]

theorem get_put (k n : Name) (v : β) (l : List (Name × β)) :
    get n (put k v l) = if k = n then some v else get n l := by
  by_cases h : k = n
  · subst h; simp [get_put_self]
  · simp [h, get_put_ne h]

theorem get_isSome_iff_mem (n : Name) (l : List (Name × β)) :
    (get n l).isSome ↔ n ∈ l.map (·.1) := by
  induction l with
  | nil => simp [get]
  | cons a t ih =>
    simp only [get, List.map_cons, List.mem_cons]
    by_cases h : a.1 = n
    · simp [h]
    · simp only [h, ↓reduceIte, ih]
      constructor
      · intro hm; exact Or.inr hm
      · intro hm; rcases hm with e | hm
        · exact absurd e.symm h
        · exact hm

theorem get_append (n : Name) (l₁ l₂ : List (Name × β)) :
    get n (l₁ ++ l₂) = match get n l₁ with | some v => some v | none => get n l₂ := by
  induction l₁ with
  | nil => rfl
  | cons a t ih =>
    simp only [List.cons_append, get]
    split
    · rfl
    · exact ih

end assoc

/-! ### names -/

theorem mem_visible_iff (n : Name) (fs : FS) :
    n ∈ visible fs ↔ (get n fs).isSome ∧ isDot n = false := by
  unfold visible names
  rw [List.mem_filter, get_isSome_iff_mem]
  simp

/-- The temp file of `write_safe` is a dot file (depends on the extracted prefix format). -/
theorem isDot_tmpName (app sfx : Name) : isDot (tmpName app sfx) = true := by
  simp [tmpName, ExtCache.tmpPre, isDot, ExtCache.globHidden]

theorem tmpName_ne_of_not_dot (app sfx n : Name) (h : isDot n = false) : tmpName app sfx ≠ n := by
  intro e
  rw [← e, isDot_tmpName] at h
  cases h

theorem isDot_readyFile : isDot ExtCache.readyFile = true := by decide

theorem mem_dedup (n : Name) (l : List Name) : n ∈ dedup l ↔ n ∈ l := by
  induction l with
  | nil => simp [dedup]
  | cons a t ih =>
    simp only [dedup]
    split
    · rename_i hc
      have hat : a ∈ t := by simpa using hc
      rw [ih]
      constructor
      · intro h; exact List.mem_cons_of_mem _ h
      · intro h; rcases List.mem_cons.mp h with rfl | h
        · exact hat
        · exact h
    · simp [ih]

theorem nodup_dedup (l : List Name) : (dedup l).Nodup := by
  induction l with
  | nil => simp [dedup]
  | cons a t ih =>
    simp only [dedup]
    split
    · exact ih
    · rename_i hc
      have hat : a ∉ t := by simpa using hc
      exact List.nodup_cons.mpr ⟨fun h => hat ((mem_dedup a t).mp h), ih⟩

/-! ### dict update / merge -/

/-- `dict.update`: the last entry for a key wins, otherwise the old value stays. -/
theorem get_update (k : Name) (p d : Data) :
    get k (update d p) = match get k p.reverse with | some v => some v | none => get k d := by
  induction p generalizing d with
  | nil => rfl
  | cons a t ih =>
    obtain ⟨k', v⟩ := a
    simp only [update, List.reverse_cons]
    rw [ih, get_append]
    cases hrev : get k t.reverse with
    | some w => rfl
    | none =>
      simp only [get]
      by_cases hk : k' = k
      · subst hk; simp [get_put_self]
      · simp [hk, get_put_ne hk]

/-! ### write_safe -/

theorem applyStep_frame (tmp final : Name) (new : Data) (now : Int) (perm : Nat) (fs : FS) (s : Step)
    (n : Name) (h1 : tmp ≠ n) (h2 : final ≠ n) :
    get n (applyStep tmp final new now perm fs s) = get n fs := by
  cases s <;> simp only [applyStep]
  · exact get_put_ne h1 _ _
  · split
    · exact get_put_ne h1 _ _
    · rfl
  · split
    · exact get_put_ne h1 _ _
    · rfl
  · split
    · exact get_put_ne h1 _ _
    · rfl
  · split
    · rw [get_put_ne h2, get_erase_ne h1]
    · rfl
  · exact get_erase_ne h1 _

theorem runSteps_frame (tmp final : Name) (new : Data) (now : Int) (perm : Nat) (l : List Step) (fs : FS)
    (n : Name) (h1 : tmp ≠ n) (h2 : final ≠ n) :
    get n (runSteps tmp final new now perm fs l) = get n fs := by
  induction l generalizing fs with
  | nil => rfl
  | cons s t ih =>
    simp only [runSteps, List.foldl_cons] at ih ⊢
    rw [ih, applyStep_frame _ _ _ _ _ _ _ _ h1 h2]

/-- The file `write_safe` publishes. -/
def written (new : Data) (now : Int) (perm : Nat) : File :=
  { content := new, complete := true, ctime := now, mode := perm }

/-- State of the two names touched by `write_safe` after any prefix of `allSteps`
    (crash after `k` steps). -/
theorem crash_prefix (tmp final : Name) (new : Data) (now : Int) (perm : Nat) (fs : FS) (k : Nat)
    (h : tmp ≠ final) :
    let fs' := runSteps tmp final new now perm fs (allSteps.take k)
    (k ≤ 4 → get final fs' = get final fs) ∧
    (5 ≤ k → get final fs' = some (written new now perm) ∧ get tmp fs' = none) := by
  have h' : final ≠ tmp := Ne.symm h
  rcases k with _ | _ | _ | _ | _ | _ | _ | k <;>
    simp [allSteps, bodySteps, runSteps, applyStep, written, get_put_self, get_put_ne, get_erase_self,
      get_erase_ne, h, h']

/-- A Python exception at step `j ≥ 1` (steps `< j`, then the `finally` clean-up). -/
theorem exc_prefix (tmp final : Name) (new : Data) (now : Int) (perm : Nat) (fs : FS) (j : Nat)
    (h : tmp ≠ final) :
    let fs' := runSteps tmp final new now perm fs (bodySteps.take (j + 1) ++ [.cleanup])
    get tmp fs' = none ∧
    (j + 1 ≤ 4 → get final fs' = get final fs) ∧
    (5 ≤ j + 1 → get final fs' = some (written new now perm)) := by
  rcases j with _ | _ | _ | _ | _ | j <;>
    simp [bodySteps, runSteps, applyStep, written, get_put_self, get_put_ne, get_erase_self,
      get_erase_ne, h]

theorem stepsOf_normal : stepsOf .normal = allSteps.take 6 := rfl

/-- Atomicity of `write_safe` on the final name, for every way the call can end. -/
theorem writeSafe_final (tmp final : Name) (new : Data) (now : Int) (perm : Nat) (wm : WriteMode)
    (fs : FS) (h : tmp ≠ final) :
    get final (writeSafe tmp final new now perm wm fs).1 = get final fs ∨
    get final (writeSafe tmp final new now perm wm fs).1 = some (written new now perm) := by
  unfold writeSafe
  cases wm with
  | normal =>
    rw [stepsOf_normal]
    exact Or.inr ((crash_prefix tmp final new now perm fs 6 h).2 (by omega)).1
  | exc j =>
    cases j with
    | zero => exact Or.inl rfl
    | succ j =>
      have := exc_prefix tmp final new now perm fs j h
      simp only [stepsOf]
      by_cases hj : j + 1 ≤ 4
      · exact Or.inl (this.2.1 hj)
      · exact Or.inr (this.2.2 (by omega))
  | crash k =>
    have := crash_prefix tmp final new now perm fs k h
    simp only [stepsOf]
    by_cases hk : k ≤ 4
    · exact Or.inl (this.1 hk)
    · exact Or.inr (this.2 (by omega)).1

theorem writeSafe_frame (tmp final : Name) (new : Data) (now : Int) (perm : Nat) (wm : WriteMode)
    (fs : FS) (n : Name) (h1 : tmp ≠ n) (h2 : final ≠ n) :
    get n (writeSafe tmp final new now perm wm fs).1 = get n fs :=
  runSteps_frame tmp final new now perm _ fs n h1 h2

theorem writeSafe_normal (tmp final : Name) (new : Data) (now : Int) (perm : Nat) (fs : FS)
    (h : tmp ≠ final) :
    get final (writeSafe tmp final new now perm .normal fs).1 = some (written new now perm) ∧
    get tmp (writeSafe tmp final new now perm .normal fs).1 = none := by
  unfold writeSafe
  rw [stepsOf_normal]
  exact (crash_prefix tmp final new now perm fs 6 h).2 (by omega)

theorem writeSafe_ok (tmp final : Name) (new : Data) (now : Int) (perm : Nat) (wm : WriteMode) (fs : FS)
    (h : (writeSafe tmp final new now perm wm fs).2 = .ok) : wm = .normal := by
  cases wm <;> simp [writeSafe, outcomeOf] at h ⊢

/-! ### `_cache` -/

/-- `fs'` holds under `a` the complete file built from `a`'s manifest, task id and placement. -/
def Written (zk : Zk) (now : Int) (a : Name) (fs' : FS) : Prop :=
  ∃ pn m task, get a zk.placement = some pn ∧ get a zk.manifest = some (.dict m) ∧
    taskOf a = some task ∧ get a fs' = some (newFile (merge m task pn.data) now)

theorem cacheOne_frame (zk : Zk) (now : Int) (sfx wm) (check : Bool) (fs : FS) (app n : Name)
    (hn : isDot n = false) (hne : app ≠ n) :
    get n (cacheOne zk now sfx wm check fs app).1 = get n fs := by
  unfold cacheOne
  repeat' split
  all_goals first
    | rfl
    | exact writeSafe_frame _ _ _ _ _ _ _ _ (tmpName_ne_of_not_dot _ _ _ hn) hne

theorem cacheOne_self (zk : Zk) (now : Int) (sfx wm) (check : Bool) (fs : FS) (app : Name)
    (hd : isDot app = false) :
    get app (cacheOne zk now sfx wm check fs app).1 = get app fs ∨
    Written zk now app (cacheOne zk now sfx wm check fs app).1 := by
  unfold cacheOne
  cases hp : get app zk.placement with
  | none => exact Or.inl rfl
  | some pn =>
    simp only
    split
    · exact Or.inl rfl
    · cases hmn : get app zk.manifest with
      | none => exact Or.inl rfl
      | some mn =>
        simp only
        cases htask : taskOf app with
        | none => exact Or.inl rfl
        | some task =>
          simp only
          cases mn with
          | notDict => exact Or.inl rfl
          | dict m =>
            simp only
            rcases writeSafe_final (tmpName app (sfx app)) app (merge m task pn.data) now
                ExtCache.cachePerm (wm app) fs (tmpName_ne_of_not_dot _ _ _ hd) with h | h
            · exact Or.inl h
            · exact Or.inr ⟨pn, m, task, hp, hmn, htask, h⟩

/-- A `_cache` call that returns normally for an instance whose placement node and manifest
    exist either found the file up to date (only under `check_existing`) or wrote it. -/
theorem cacheOne_ok (zk : Zk) (now : Int) (sfx wm) (check : Bool) (fs : FS) (app : Name) (pn : PNode)
    (hd : isDot app = false) (hok : (cacheOne zk now sfx wm check fs app).2 = .ok)
    (hp : get app zk.placement = some pn) (hm : (get app zk.manifest).isSome) :
    (check = true ∧ upToDate fs app pn = true ∧ (cacheOne zk now sfx wm check fs app).1 = fs) ∨
    Written zk now app (cacheOne zk now sfx wm check fs app).1 := by
  unfold cacheOne at hok ⊢
  simp only [hp] at hok ⊢
  by_cases hc : (check && upToDate fs app pn) = true
  · simp only [hc, ↓reduceIte]
    simp only [Bool.and_eq_true] at hc
    exact Or.inl ⟨hc.1, hc.2, by first | rfl | trivial⟩
  · simp only [hc, Bool.false_eq_true, ↓reduceIte] at hok ⊢
    cases hmn : get app zk.manifest with
    | none => rw [hmn] at hm; cases hm
    | some mn =>
      simp only [hmn] at hok ⊢
      cases htask : taskOf app with
      | none => simp [htask] at hok
      | some task =>
        simp only [htask] at hok ⊢
        cases mn with
        | notDict => simp at hok
        | dict m =>
          simp only at hok ⊢
          have hwm := writeSafe_ok _ _ _ _ _ _ _ hok
          rw [hwm]
          exact Or.inr ⟨pn, m, task, hp, hmn, htask,
            (writeSafe_normal _ _ _ _ _ _ (tmpName_ne_of_not_dot _ _ _ hd)).1⟩

theorem upToDate_isSome (fs : FS) (app : Name) (pn : PNode) (h : upToDate fs app pn = true) :
    (get app fs).isSome := by
  unfold upToDate at h
  split at h
  · rename_i f hf; simp [hf]
  · cases h

/-! ### the `_cache` loops -/

theorem cacheAll_get (zk : Zk) (now : Int) (sfx wm) (check : Bool) (l : List Name) (fs : FS) (n : Name)
    (hn : isDot n = false) :
    get n (cacheAll zk now sfx wm check fs l).1 = get n fs ∨
    (n ∈ l ∧ Written zk now n (cacheAll zk now sfx wm check fs l).1) := by
  induction l generalizing fs with
  | nil => exact Or.inl rfl
  | cons a t ih =>
    simp only [cacheAll]
    have hone : get n (cacheOne zk now sfx wm check fs a).1 = get n fs ∨
        (n = a ∧ Written zk now n (cacheOne zk now sfx wm check fs a).1) := by
      by_cases hna : a = n
      · subst hna
        rcases cacheOne_self zk now sfx wm check fs a hn with h | h
        · exact Or.inl h
        · exact Or.inr ⟨rfl, h⟩
      · exact Or.inl (cacheOne_frame zk now sfx wm check fs a n hn hna)
    generalize cacheOne zk now sfx wm check fs a = r at hone
    obtain ⟨fs1, o⟩ := r
    cases o
    case ok =>
      simp only
      rcases ih fs1 with h | ⟨hm, hw⟩
      · rcases hone with h1 | ⟨e, hw1⟩
        · exact Or.inl (h.trans h1)
        · refine Or.inr ⟨by rw [e]; exact List.mem_cons_self, ?_⟩
          obtain ⟨pn, m, task, a1, a2, a3, a4⟩ := hw1
          exact ⟨pn, m, task, a1, a2, a3, by rw [h]; exact a4⟩
      · exact Or.inr ⟨List.mem_cons_of_mem _ hm, hw⟩
    all_goals
      simp only
      rcases hone with h1 | ⟨e, hw1⟩
      · exact Or.inl h1
      · exact Or.inr ⟨by rw [e]; exact List.mem_cons_self, hw1⟩

theorem Written.isSome {zk : Zk} {now : Int} {a : Name} {fs : FS} (h : Written zk now a fs) :
    (get a fs).isSome := by
  obtain ⟨_, _, _, _, _, _, h⟩ := h
  simp [h]

theorem cacheAll_isSome (zk : Zk) (now : Int) (sfx wm) (check : Bool) (l : List Name) (fs : FS) (n : Name)
    (hn : isDot n = false) (h : (get n fs).isSome) :
    (get n (cacheAll zk now sfx wm check fs l).1).isSome := by
  rcases cacheAll_get zk now sfx wm check l fs n hn with e | ⟨_, hw⟩
  · rw [e]; exact h
  · exact hw.isSome

/-- After a loop that ran to completion every listed instance with placement node and manifest
    has a file (under `check_existing`: provided it had one, which is what `existing` means). -/
theorem cacheAll_ok_present (zk : Zk) (now : Int) (sfx wm) (check : Bool) (l : List Name) (fs : FS)
    (a : Name) (pn : PNode) (hd : isDot a = false)
    (hok : (cacheAll zk now sfx wm check fs l).2 = .ok) (ha : a ∈ l)
    (hp : get a zk.placement = some pn) (hm : (get a zk.manifest).isSome) :
    (get a (cacheAll zk now sfx wm check fs l).1).isSome := by
  induction l generalizing fs with
  | nil => cases ha
  | cons b t ih =>
    simp only [cacheAll] at hok ⊢
    have hone := cacheOne_ok zk now sfx wm check fs a pn hd
    generalize hr : cacheOne zk now sfx wm check fs b = r at hok
    obtain ⟨fs1, o⟩ := r
    cases o
    case ok =>
      simp only at hok ⊢
      by_cases hba : b = a
      · subst hba
        rw [hr] at hone
        have h1 : (get b fs1).isSome := by
          rcases hone rfl hp hm with ⟨_, hu, e⟩ | hw
          · simp only at e; rw [e]; exact upToDate_isSome fs b pn hu
          · exact hw.isSome
        exact cacheAll_isSome zk now sfx wm check t fs1 b hd h1
      · have hat : a ∈ t := by
          rcases List.mem_cons.mp ha with e | h
          · exact absurd e.symm hba
          · exact h
        exact ih fs1 hok hat
    all_goals simp at hok

theorem get_unlinkAll (fs : FS) (l : List Name) (n : Name) :
    get n (unlinkAll fs l) = if n ∈ l then none else get n fs := by
  induction l generalizing fs with
  | nil => simp [unlinkAll]
  | cons a t ih =>
    simp only [unlinkAll, List.foldl_cons] at ih ⊢
    rw [ih, get_erase]
    by_cases hat : n ∈ t
    · simp [hat]
    · by_cases han : a = n
      · subst han; simp
      · have : n ≠ a := fun e => han e.symm
        simp [hat, han, this]

/-! ### `_synchronize` -/

/-- Two-stage description of what `_synchronize` does to one visible name. -/
theorem syncOrd_stage (zk : Zk) (now : Int) (sfx wm) (check : Bool) (extra missing existing : List Name)
    (fs : FS) (n : Name) (hn : isDot n = false) :
    get n (syncOrd zk now sfx wm check extra missing existing fs).1 = get n (unlinkAll fs extra) ∨
    ((n ∈ missing ∨ n ∈ existing) ∧
      Written zk now n (syncOrd zk now sfx wm check extra missing existing fs).1) := by
  unfold syncOrd
  have h2 := cacheAll_get zk now sfx wm false missing (unlinkAll fs extra) n hn
  generalize cacheAll zk now sfx wm false (unlinkAll fs extra) missing = r2 at h2
  obtain ⟨fs2, o⟩ := r2
  cases o
  case ok =>
    simp only
    by_cases hc : check = true
    · simp only [hc, ↓reduceIte]
      rcases cacheAll_get zk now sfx wm true existing fs2 n hn with h3 | ⟨hm, hw⟩
      · rcases h2 with h2 | ⟨hm2, hw2⟩
        · exact Or.inl (h3.trans h2)
        · refine Or.inr ⟨Or.inl hm2, ?_⟩
          obtain ⟨pn, m, task, a1, a2, a3, a4⟩ := hw2
          exact ⟨pn, m, task, a1, a2, a3, by rw [h3]; exact a4⟩
      · exact Or.inr ⟨Or.inr hm, hw⟩
    · simp only [hc, Bool.false_eq_true, ↓reduceIte]
      rcases h2 with h2 | ⟨hm2, hw2⟩
      · exact Or.inl h2
      · exact Or.inr ⟨Or.inl hm2, hw2⟩
  all_goals
    simp only
    rcases h2 with h2 | ⟨hm2, hw2⟩
    · exact Or.inl h2
    · exact Or.inr ⟨Or.inl hm2, hw2⟩

/-- A completed `_synchronize` completed both loops. -/
theorem syncOrd_ok (zk : Zk) (now : Int) (sfx wm) (check : Bool) (extra missing existing : List Name)
    (fs : FS) (hok : (syncOrd zk now sfx wm check extra missing existing fs).2 = .ok) :
    (cacheAll zk now sfx wm false (unlinkAll fs extra) missing).2 = .ok ∧
    (syncOrd zk now sfx wm check extra missing existing fs) =
      (if check then cacheAll zk now sfx wm true
          (cacheAll zk now sfx wm false (unlinkAll fs extra) missing).1 existing
       else (cacheAll zk now sfx wm false (unlinkAll fs extra) missing)) := by
  unfold syncOrd at hok ⊢
  generalize cacheAll zk now sfx wm false (unlinkAll fs extra) missing = r2 at hok ⊢
  obtain ⟨fs2, o⟩ := r2
  cases o <;> simp_all

end TmVerif.Cache
