/-
  Model of the node manifest cache (C12):
  `treadmill.eventmgr.EventMgr._synchronize / _cache / _cache_notify` and `treadmill.fs.write_safe`.

  * Names (instance names, file names, dict keys) are `List Char`: the property depends on their
    shape (`glob('*')` hides names starting with '.', the task id is the text after the first '#',
    the temp file is `'.%s-' % app` + random suffix).
  * A manifest / placement record is a dict: an association list `Data` (first match wins,
    `put` keeps keys unique).
  * The file system is an association list name ↦ `File` (content, complete?, ctime, mode),
    dot files included.
  * `write_safe` is an explicit list of primitive steps; a crash executes a prefix of it, a Python
    exception at step `j` executes the steps before `j` and then the `finally` clean-up.
  * The iteration order of the three Python `set`s in `_synchronize` is resolved by the
    implementation: `syncOrd` takes the orders as arguments (the driver checks they enumerate the
    right sets; the theorems quantify over all such orders); `synchronize` uses a canonical order.
-/
import TmVerif.Gen.ExtCache

namespace TmVerif.Cache

abbrev Name := List Char

/-! ### association lists keyed by names -/

def get {β} (k : Name) : List (Name × β) → Option β
  | [] => none
  | (k', v) :: t => if k' = k then some v else get k t

def erase {β} (k : Name) (l : List (Name × β)) : List (Name × β) :=
  l.filter (fun p => decide (p.1 ≠ k))

def put {β} (k : Name) (v : β) (l : List (Name × β)) : List (Name × β) :=
  (k, v) :: erase k l

/-! ### names -/

/-- `glob('*')` does not return names starting with '.' (extracted: the pattern is `*`). -/
def isDot : Name → Bool
  | c :: _ => c == ExtCache.globHidden
  | [] => false

/-- `app[app.index('#') + 1:]`; `none` where Python raises `ValueError` (no '#'). -/
def taskOf : Name → Option Name
  | [] => none
  | c :: t => if c = '#' then some t else taskOf t

/-- A well-formed instance name: contains '#' and does not start with '.'. -/
def WellFormed (n : Name) : Prop := (taskOf n).isSome ∧ isDot n = false

/-- `tempfile` name: `prefix + random`, `prefix = '.%s-' % app` (format extracted). -/
def tmpName (app sfx : Name) : Name := ExtCache.tmpPre ++ app ++ ExtCache.tmpPost ++ sfx

def taskKey : Name := ['t', 'a', 's', 'k']

/-! ### data -/

inductive Val
  | str (s : List Char)
  | int (i : Int)
  | null
  deriving DecidableEq, Repr

/-- A YAML/JSON mapping. -/
abbrev Data := List (Name × Val)

/-- `dict.update`: entries of the second argument are applied left to right. -/
def update (d : Data) : Data → Data
  | [] => d
  | (k, v) :: t => update (put k v d) t

/-- What `_cache` dumps: `manifest['task'] = task; manifest.update(placement_data)` (the update
    is skipped when the placement node has no data). -/
def merge (m : Data) (task : Name) (pd : Option Data) : Data :=
  match pd with
  | none => put taskKey (.str task) m
  | some p => update (put taskKey (.str task) m) p

/-! ### ZooKeeper view -/

/-- `/placement/<host>/<app>`: parsed data (`none` = empty node) and `ctime` in milliseconds. -/
structure PNode where
  data : Option Data
  ctime : Int
  deriving DecidableEq, Repr

/-- `/scheduled/<app>`: a mapping, or something `manifest['task'] = …` raises `TypeError` on. -/
inductive MNode
  | dict (d : Data)
  | notDict
  deriving DecidableEq, Repr

structure Zk where
  placement : List (Name × PNode) := []
  manifest : List (Name × MNode) := []
  deriving Repr

/-! ### file system -/

structure File where
  content : Data
  complete : Bool
  ctime : Int          -- seconds (virtual clock of the harness)
  mode : Nat
  deriving DecidableEq, Repr

abbrev FS := List (Name × File)

def names (fs : FS) : List Name := fs.map (·.1)

/-- What `glob(cache_dir/*)` returns. -/
def visible (fs : FS) : List Name := (names fs).filter (fun n => !isDot n)

/-! ### `fs.write_safe` -/

inductive Step
  | mkstemp    -- NamedTemporaryFile(dir, prefix, delete=False): new empty file, mode 0600
  | write      -- func(tmpfile): yaml.dump into the (buffered) stream
  | chmod      -- os.fchmod(tmpfile.fileno(), permission)
  | close      -- `with` exit: flush + close
  | replace    -- os.replace(tmp, final)
  | cleanup    -- finally: rm_safe(tmp)
  deriving DecidableEq, Repr

def applyStep (tmp final : Name) (new : Data) (now : Int) (perm : Nat) (fs : FS) : Step → FS
  | .mkstemp => put tmp { content := [], complete := false, ctime := now, mode := 0o600 } fs
  | .write =>
    match get tmp fs with
    | some f => put tmp { f with content := new, complete := false } fs
    | none => fs
  | .chmod =>
    match get tmp fs with
    | some f => put tmp { f with mode := perm } fs
    | none => fs
  | .close =>
    match get tmp fs with
    | some f => put tmp { f with complete := true } fs
    | none => fs
  | .replace =>
    match get tmp fs with
    | some f => put final f (erase tmp fs)
    | none => fs
  | .cleanup => erase tmp fs

def runSteps (tmp final : Name) (new : Data) (now : Int) (perm : Nat) (fs : FS) (l : List Step) : FS :=
  l.foldl (applyStep tmp final new now perm) fs

/-- The body of `write_safe` (inside `try`). -/
def bodySteps : List Step := [.mkstemp, .write, .chmod, .close, .replace]

/-- The complete run: body, then `finally`. -/
def allSteps : List Step := bodySteps ++ [.cleanup]

/-- How one `write_safe` call ends. -/
inductive WriteMode
  | normal
  | exc (j : Nat)      -- step `j` raises a Python exception: steps `< j` ran, `finally` runs
  | crash (k : Nat)    -- the process dies after `k` steps of `allSteps`; nothing else runs
  deriving DecidableEq, Repr

inductive Outcome
  | ok | valueError | typeError | fault | crashed
  deriving DecidableEq, Repr

def stepsOf : WriteMode → List Step
  | .normal => allSteps
  | .exc 0 => []                               -- NamedTemporaryFile raised: `tmpfile is None`
  | .exc (j + 1) => bodySteps.take (j + 1) ++ [.cleanup]
  | .crash k => allSteps.take k

def outcomeOf : WriteMode → Outcome
  | .normal => .ok
  | .exc _ => .fault
  | .crash _ => .crashed

def writeSafe (tmp final : Name) (new : Data) (now : Int) (perm : Nat) (wm : WriteMode) (fs : FS) :
    FS × Outcome :=
  (runSteps tmp final new now perm fs (stepsOf wm), outcomeOf wm)

/-! ### `EventMgr._cache` -/

/-- `manifest_time and manifest_time >= placement_time` (`placement_time = ctime / 1000.0`). -/
def upToDate (fs : FS) (app : Name) (pn : PNode) : Bool :=
  match get app fs with
  | some f => decide (f.ctime ≠ 0) && decide (f.ctime * 1000 ≥ pn.ctime)
  | none => false

/-- The file a successful `_cache` leaves under the instance's name. -/
def newFile (content : Data) (now : Int) : File :=
  { content, complete := true, ctime := now, mode := ExtCache.cachePerm }

def cacheOne (zk : Zk) (now : Int) (sfx : Name → Name) (wm : Name → WriteMode) (check : Bool)
    (fs : FS) (app : Name) : FS × Outcome :=
  match get app zk.placement with
  | none => (fs, .ok)                                   -- NoNodeError: 'Placement not found'
  | some pn =>
    if check && upToDate fs app pn then (fs, .ok) else
    match get app zk.manifest with
    | none => (fs, .ok)                                 -- NoNodeError: 'App not found'
    | some mn =>
      match taskOf app with
      | none => (fs, .valueError)                       -- app.index('#')
      | some task =>
        match mn with
        | .notDict => (fs, .typeError)                  -- manifest['task'] = ...
        | .dict m =>
          writeSafe (tmpName app (sfx app)) app (merge m task pn.data) now ExtCache.cachePerm
            (wm app) fs

/-- A `for app in …: self._cache(…)` loop; an exception ends it. -/
def cacheAll (zk : Zk) (now : Int) (sfx : Name → Name) (wm : Name → WriteMode) (check : Bool) :
    FS → List Name → FS × Outcome
  | fs, [] => (fs, .ok)
  | fs, a :: as =>
    match cacheOne zk now sfx wm check fs a with
    | (fs', .ok) => cacheAll zk now sfx wm check fs' as
    | r => r

def unlinkAll (fs : FS) (l : List Name) : FS := l.foldl (fun fs a => erase a fs) fs

/-! ### `EventMgr._synchronize` -/

/-- `_synchronize` with the iteration orders of `extra`, `missing`, `existing` given. -/
def syncOrd (zk : Zk) (now : Int) (sfx : Name → Name) (wm : Name → WriteMode) (check : Bool)
    (extra missing existing : List Name) (fs : FS) : FS × Outcome :=
  match cacheAll zk now sfx wm false (unlinkAll fs extra) missing with
  | (fs2, .ok) => if check then cacheAll zk now sfx wm true fs2 existing else (fs2, .ok)
  | r => r

def dedup : List Name → List Name
  | [] => []
  | a :: t => if t.contains a then dedup t else a :: dedup t

def extraOf (fs : FS) (expected : List Name) : List Name :=
  dedup ((visible fs).filter (fun n => !expected.contains n))
def missingOf (fs : FS) (expected : List Name) : List Name :=
  dedup (expected.filter (fun n => !(visible fs).contains n))
def existingOf (fs : FS) (expected : List Name) : List Name :=
  dedup ((visible fs).filter (fun n => expected.contains n))

/-- `_synchronize` losing a race in its first loop: the `k`-th entry of `extra` was removed by another
    process (appcfgmgr drops the cache entry of an instance it failed to configure) between the
    directory listing and the `os.unlink`.  `FileNotFoundError` ends the synchronisation - nothing is
    fetched, the service exits and its successor synchronises from scratch.  What is gone: the entries
    unlinked so far and the one the other process took. -/
def syncRaced (fs : FS) (extra : List Name) (k : Nat) : FS × Outcome :=
  (unlinkAll fs (extra.take (k + 1)), .fault)

/-- `_synchronize` with a canonical iteration order. -/
def synchronize (zk : Zk) (now : Int) (sfx : Name → Name) (wm : Name → WriteMode) (check : Bool)
    (expected : List Name) (fs : FS) : FS × Outcome :=
  syncOrd zk now sfx wm check (extraOf fs expected) (missingOf fs expected) (existingOf fs expected) fs

/-! ### `EventMgr._cache_notify` -/

/-- `io.open(ready_file, 'w')` (create or truncate) / `fs.rm_safe(ready_file)`. -/
def cacheNotify (ready : Bool) (now : Int) (fs : FS) : FS :=
  if ready then
    match get ExtCache.readyFile fs with
    | some f => put ExtCache.readyFile { f with content := [], complete := true, ctime := now } fs
    | none => put ExtCache.readyFile { content := [], complete := true, ctime := now, mode := 0o644 } fs
  else erase ExtCache.readyFile fs

/-! ### histories -/

structure St where
  zk : Zk := {}
  fs : FS := []
  deriving Repr

def St.init : St := {}

inductive Op
  | setPlacement (app : Name) (pn : Option PNode)
  | setManifest (app : Name) (mn : Option MNode)
  /-- the environment puts a complete file (prior cache content: stale, extra, outdated, dot file) -/
  | putFile (name : Name) (content : Data) (ctime : Int) (mode : Nat)
  | rmFile (name : Name)
  | notify (ready : Bool) (now : Int)
  | sync (now : Int) (sfx : Name → Name) (wm : Name → WriteMode) (check : Bool)
      (extra missing existing : List Name)
  /-- a synchronisation whose `k`-th unlink of the extra loop finds the entry already gone -/
  | syncRaced (extra : List Name) (k : Nat)

def setOpt {β} (k : Name) (v : Option β) (l : List (Name × β)) : List (Name × β) :=
  match v with
  | some v => put k v l
  | none => erase k l

def step (s : St) : Op → St
  | .setPlacement a pn => { s with zk := { s.zk with placement := setOpt a pn s.zk.placement } }
  | .setManifest a mn => { s with zk := { s.zk with manifest := setOpt a mn s.zk.manifest } }
  | .putFile n c t m => { s with fs := put n { content := c, complete := true, ctime := t, mode := m } s.fs }
  | .rmFile n => { s with fs := erase n s.fs }
  | .notify r now => { s with fs := cacheNotify r now s.fs }
  | .sync now sfx wm check extra missing existing =>
    { s with fs := (syncOrd s.zk now sfx wm check extra missing existing s.fs).1 }
  | .syncRaced extra k => { s with fs := (syncRaced s.fs extra k).1 }

def runOps (s : St) (ops : List Op) : St := ops.foldl step s

end TmVerif.Cache
