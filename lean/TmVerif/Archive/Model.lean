/-
  Model of the trace archiver (C18):

    treadmill/trace/_zk.py        upload_batch, download_batch, cleanup
    treadmill/trace/app/zk.py     cleanup_trace, cleanup_finished, cleanup_*_history
    treadmill/trace/server/zk.py  cleanup_server_trace, cleanup_server_trace_history

  ZooKeeper is a tree of named nodes: a path is the list of its components
  (`join_zookeeper_path` appends components; node names never contain '/').
  Strings are lists of Unicode code points (`Str`), compared as Python compares `str`.
  Every function of the archiver is modelled as the *list of ZooKeeper writes* it performs on a
  given state (all of them read everything they need before their first write, or re-read
  state that only their own writes changed); a crash of the archiver is "apply a prefix of the
  write list".

  sqlite3 + zlib are a parameter (`Codec`) with a stated round-trip law.
  Timestamps are exact decimals (`Dec`); the code compares IEEE doubles (see the assumptions in
  props_registry.d/C18.json).
-/
import TmVerif.Gen.ExtArchive

namespace TmVerif.Archive

/-! ### Strings -/

/-- A string as its list of Unicode code points. -/
abbrev Str := List Nat

/-- Code points of a Lean string literal (used by the driver and by examples). -/
def str (s : String) : Str := s.toList.map Char.toNat

def COMMA : Nat := 44
def DOT : Nat := 46
def MINUS : Nat := 45

/-- Python `str` three-way comparison (lexicographic on code points). -/
def strCmp : Str → Str → Ordering
  | [], [] => .eq
  | [], _ :: _ => .lt
  | _ :: _, [] => .gt
  | a :: as, b :: bs => if a < b then .lt else if b < a then .gt else strCmp as bs

/-- Python `a <= b` on `str`. -/
def strLe (a b : Str) : Bool := strCmp a b != .gt

/-- `s.split(sep, 1)`: `none` when `sep` does not occur. -/
def splitAt1 (sep : Nat) : Str → Option (Str × Str)
  | [] => none
  | c :: t =>
    if c = sep then some ([], t)
    else match splitAt1 sep t with
      | some (a, b) => some (c :: a, b)
      | none => none

/-! ### Decimal numbers -/

/-- The decimal `num / 10^exp`. -/
structure Dec where
  num : Int
  exp : Nat
  deriving DecidableEq, Repr

def Dec.cmp (a b : Dec) : Ordering :=
  if a.num * (10 : Int) ^ b.exp < b.num * (10 : Int) ^ a.exp then .lt
  else if b.num * (10 : Int) ^ a.exp < a.num * (10 : Int) ^ b.exp then .gt
  else .eq

/-- `a < b` as numbers. -/
def Dec.lt (a b : Dec) : Bool := decide (a.num * (10 : Int) ^ b.exp < b.num * (10 : Int) ^ a.exp)

/-- `now - seconds` for a whole number of seconds. -/
def Dec.subInt (a : Dec) (n : Int) : Dec := ⟨a.num - n * (10 : Int) ^ a.exp, a.exp⟩

def isDigit (c : Nat) : Bool := decide (48 ≤ c) && decide (c ≤ 57)

/-- Value of a string of ASCII digits (`none` if any other character occurs). -/
def digitsVal : Str → Nat → Option Nat
  | [], acc => some acc
  | c :: t, acc => if isDigit c then digitsVal t (acc * 10 + (c - 48)) else none

/-- `D+` or `D+.D+`. -/
def parseUDec (s : Str) : Option Dec :=
  match splitAt1 DOT s with
  | none =>
    if s.isEmpty then none
    else match digitsVal s 0 with
      | some n => some ⟨n, 0⟩
      | none => none
  | some (ip, fp) =>
    if ip.isEmpty || fp.isEmpty then none
    else match digitsVal ip 0, digitsVal fp 0 with
      | some i, some f => some ⟨(i : Int) * (10 : Int) ^ fp.length + f, fp.length⟩
      | _, _ => none

/-- The part of Python's `float(s)` that is modelled: plain decimals `-?D+(.D+)?`; everything
    else is `none` (Python raises `ValueError` on the malformed strings the harness generates;
    exponents, inf/nan, underscores, surrounding blanks are accepted by Python and *not*
    modelled — the harness never generates them). -/
def parseDec (s : Str) : Option Dec :=
  match s with
  | c :: t =>
    if c = MINUS then
      match parseUDec t with
      | some d => some ⟨-d.num, d.exp⟩
      | none => none
    else parseUDec s
  | [] => none

/-! ### Nodes -/

/-- A ZooKeeper path as its list of components. -/
abbrev Path := List Str

/-- The two sharded trace trees. -/
inductive Root | app | server
  deriving DecidableEq, Repr

/-- The three history directories. -/
inductive Hist | trace | finished | server
  deriving DecidableEq, Repr

def rootName : Root → Str
  | .app => ExtArchive.traceRoot
  | .server => ExtArchive.serverTraceRoot

def histName : Hist → Str
  | .trace => ExtArchive.traceHistRoot
  | .finished => ExtArchive.finishedHistRoot
  | .server => ExtArchive.serverTraceHistRoot

def histPrefix : Hist → Str
  | .trace => ExtArchive.tracePrefix
  | .finished => ExtArchive.finishedPrefix
  | .server => ExtArchive.serverTracePrefix

def histTable : Hist → Str
  | .trace => ExtArchive.traceTable
  | .finished => ExtArchive.finishedTable
  | .server => ExtArchive.serverTraceTable

def Root.hist : Root → Hist
  | .app => .trace
  | .server => .server

/-- A live trace event: node `/<root>/<shard>/<name>`; `name` is
    `object,timestamp,source,type,data`. -/
structure Ev where
  root : Root
  shard : Str
  name : Str
  deriving DecidableEq, Repr

def Ev.path (e : Ev) : Path := [rootName e.root, e.shard, e.name]

/-- `/<root>/<shard>`. -/
def shardPath (r : Root) (shard : Str) : Path := [rootName r, shard]

/-- A finished record: node `/finished/<name>` with data and modification time (ms). -/
structure Fin where
  name : Str
  mtime : Int
  data : Str
  deriving DecidableEq, Repr

def finPath (name : Str) : Path := [ExtArchive.finishedRoot, name]

/-- A row of a snapshot table: `(path, timestamp, data, directory, name)`. -/
structure Row where
  path : Path
  ts : Dec
  data : Option Str
  dir : Path
  name : Str
  deriving DecidableEq, Repr

/-- sqlite3 + zlib: how a table of rows becomes the bytes of a snapshot node and back.
    The only thing assumed is the round trip. -/
structure Codec where
  Blob : Type
  enc : Str → List Row → Blob
  dec : Str → Blob → Option (List Row)
  rt : ∀ table rows, dec table (enc table rows) = some rows

/-- A snapshot node `/<hist>/<name>`. -/
structure Snap (C : Codec) where
  dir : Hist
  name : Str
  blob : C.Blob

def Snap.path {C : Codec} (sn : Snap C) : Path := [histName sn.dir, sn.name]

/-- The part of ZooKeeper the archiver reads and writes. -/
structure St (C : Codec) where
  live  : List Ev          -- children of /trace/* and /server-trace/*
  sched : List Str         -- children of /scheduled
  fin   : List Fin         -- children of /finished, in the order ZooKeeper lists them
  snaps : List (Snap C)    -- children of the three history directories, in creation order
  tseq  : Nat              -- next sequence number of /trace.history
  fseq  : Nat              -- ... of /finished.history
  sseq  : Nat              -- ... of /server-trace.history

def St.init (C : Codec) : St C :=
  { live := [], sched := [], fin := [], snaps := [], tseq := 0, fseq := 0, sseq := 0 }

def St.seq {C} (s : St C) : Hist → Nat
  | .trace => s.tseq
  | .finished => s.fseq
  | .server => s.sseq

def St.bump {C} (s : St C) : Hist → St C
  | .trace => { s with tseq := s.tseq + 1 }
  | .finished => { s with fseq := s.fseq + 1 }
  | .server => { s with sseq := s.sseq + 1 }

/-! ### Sequence node names (`%s%010d`) -/

/-- `w` decimal digits of `n`, most significant first (`n mod 10^w`). -/
def fixedDigits : Nat → Nat → Str
  | 0, _ => []
  | w + 1, n => fixedDigits w (n / 10) ++ [48 + n % 10]

/-- Decimal digits of `n` without padding (`fuel` ≥ number of digits); `0 ↦ []`. -/
def natDigits : Nat → Nat → Str
  | 0, _ => []
  | fuel + 1, n => if n = 0 then [] else natDigits fuel (n / 10) ++ [48 + n % 10]

/-- `'%010d' % n` for `n ≥ 0`. -/
def pad10 (n : Nat) : Str := natDigits (n / 10 ^ 10) (n / 10 ^ 10) ++ fixedDigits 10 n

/-- Name ZooKeeper gives the `n`-th sequence node created in history directory `h`. -/
def snapName (h : Hist) (n : Nat) : Str := histPrefix h ++ pad10 n

/-! ### Writes -/

/-- One ZooKeeper write of the archiver. -/
inductive Write
  /-- `zkutils.create(zkclient, <hist>/<prefix>, zlib.compress(db), sequence=True)` -/
  | create (h : Hist) (rows : List Row)
  /-- `zkutils.ensure_deleted(zkclient, path)` of an existing leaf node -/
  | delete (path : Path)
  deriving DecidableEq, Repr

def apply {C} (s : St C) : Write → St C
  | .create h rows =>
    { s.bump h with snaps := s.snaps ++ [⟨h, snapName h (s.seq h), C.enc (histTable h) rows⟩] }
  | .delete p =>
    { s with live := s.live.filter (fun e => e.path != p),
             fin := s.fin.filter (fun f => finPath f.name != p),
             snaps := s.snaps.filter (fun sn => sn.path != p) }

def applyAll {C} (s : St C) (ws : List Write) : St C := ws.foldl apply s

/-- `_zk.upload_batch`: the snapshot is created first, then every row's node is deleted. -/
def uploadWrites (h : Hist) (rows : List Row) : List Write :=
  .create h rows :: rows.map (fun r => .delete r.path)

/-! ### Sorting and batching -/

def insertBy {α} (le : α → α → Bool) (x : α) : List α → List α
  | [] => [x]
  | y :: t => if le x y then x :: y :: t else y :: insertBy le x t

/-- `sorted(l)` (the order is total in all uses, so the result does not depend on the algorithm). -/
def sortBy {α} (le : α → α → Bool) (l : List α) : List α := l.foldr (insertBy le) []

/-- Full slices of length `n` of `l`, in order (`fuel` ≥ `l.length` suffices, `n ≥ 1`):
    `for idx in range(0, len(l), n): batch = l[idx:idx+n]; if len(batch) < n: break`. -/
def batches {α} (n : Nat) : Nat → List α → List (List α)
  | 0, _ => []
  | fuel + 1, l => if l.length < n then [] else l.take n :: batches n fuel (l.drop n)

inductive Err
  | valueError      -- Python raised ValueError (bad event name, `range()` step 0)
  | diverges        -- `cleanup_server_trace` with batch_size <= 0 never terminates
  deriving DecidableEq, Repr

/-- The batching loop of cleanup_trace / cleanup_finished for a Python int `bs`:
    `range(0, n, 0)` raises, a negative step gives an empty range. -/
def batchesPy {α} (bs : Int) (l : List α) : Except Err (List (List α)) :=
  if bs = 0 then .error .valueError
  else if bs < 0 then .ok []
  else .ok (batches bs.toNat l.length l)

/-! ### cleanup_trace / cleanup_server_trace -/

/-- `instanceid, timestamp, _ = event.split(',', 2); timestamp = float(timestamp)`. -/
def parseEvent (name : Str) : Option (Str × Dec × Str) :=
  match splitAt1 COMMA name with
  | none => none
  | some (obj, r) =>
    match splitAt1 COMMA r with
    | none => none
    | some (ts, rest) =>
      match parseDec ts with
      | none => none
      | some d => some (obj, d, rest)

/-- An element of `traces`: `(timestamp, shard, event)`. -/
structure Cand where
  ts : Dec
  ev : Ev
  deriving DecidableEq, Repr

/-- Python tuple order on `(timestamp, shard, event)`. -/
def candLe (a b : Cand) : Bool :=
  match Dec.cmp a.ts b.ts with
  | .lt => true
  | .gt => false
  | .eq =>
    match strCmp a.ev.shard b.ev.shard with
    | .lt => true
    | .gt => false
    | .eq => strLe a.ev.name b.ev.name

/-- The selection loop: `keep obj ts` decides; a malformed name raises. -/
def selectAll (keep : Str → Dec → Bool) : List Ev → Except Err (List Cand)
  | [] => .ok []
  | e :: es =>
    match parseEvent e.name with
    | none => .error .valueError
    | some (obj, ts, _) =>
      match selectAll keep es with
      | .error x => .error x
      | .ok cs => .ok (if keep obj ts then ⟨ts, e⟩ :: cs else cs)

/-- `(join(ROOT, shard, event), timestamp, None, join(ROOT, shard), event)`. -/
def candRow (c : Cand) : Row :=
  { path := c.ev.path, ts := c.ts, data := none, dir := shardPath c.ev.root c.ev.shard, name := c.ev.name }

/-- `instanceid not in scheduled and timestamp < time.time() - expires_after`. -/
def traceKeep (sched : List Str) (thr : Dec) (obj : Str) (ts : Dec) : Bool :=
  !sched.contains obj && ts.lt thr

/-- Sorted candidates of `cleanup_trace`. -/
def traceCands {C} (s : St C) (now : Dec) (exp : Int) : Except Err (List Cand) :=
  match selectAll (traceKeep s.sched (now.subInt exp)) (s.live.filter (fun e => e.root = .app)) with
  | .error x => .error x
  | .ok cs => .ok (sortBy candLe cs)

def traceWrites {C} (s : St C) (now : Dec) (bs exp : Int) : Except Err (List Write) :=
  match traceCands s now exp with
  | .error x => .error x
  | .ok cs =>
    match batchesPy bs cs with
    | .error x => .error x
    | .ok bl => .ok (bl.flatMap (fun b => uploadWrites .trace (b.map candRow)))

/-- `cleanup_server_trace`: every iteration re-reads the tree and takes the `bs` oldest events of
    all shards (iterated `heapq.merge(...)[:bs]`), i.e. the next full slice of the sorted list. -/
def serverWrites {C} (s : St C) (bs : Int) : Except Err (List Write) :=
  match selectAll (fun _ _ => true) (s.live.filter (fun e => e.root = .server)) with
  | .error x => .error x
  | .ok cs =>
    if bs ≤ 0 then .error .diverges
    else .ok ((batches bs.toNat cs.length (sortBy candLe cs)).flatMap
                (fun b => uploadWrites .server (b.map candRow)))

/-! ### cleanup_finished -/

/-- `(node_path, metadata.last_modified, data, z.FINISHED, finished)`. -/
def finRow (f : Fin) : Row :=
  { path := finPath f.name, ts := ⟨f.mtime, 3⟩, data := some f.data,
    dir := [ExtArchive.finishedRoot], name := f.name }

/-- `metadata.last_modified < time.time() - expires_after`. -/
def finExpired (thr : Dec) (f : Fin) : Bool := Dec.lt ⟨f.mtime, 3⟩ thr

def finishedWrites {C} (s : St C) (now : Dec) (bs exp : Int) : Except Err (List Write) :=
  match batchesPy bs (s.fin.filter (finExpired (now.subInt exp))) with
  | .error x => .error x
  | .ok bl => .ok (bl.flatMap (fun b => uploadWrites .finished (b.map finRow)))

/-! ### _zk.cleanup -/

def snapNames {C} (s : St C) (h : Hist) : List Str :=
  (s.snaps.filter (fun sn => sn.dir = h)).map (·.name)

/-- Names `_zk.cleanup` deletes, in order: `sorted(children)[0:len - max_count]` if that is > 0. -/
def pruneNames (names : List Str) (max : Int) : List Str :=
  let extra : Int := (names.length : Int) - max
  if extra > 0 then (sortBy strLe names).take extra.toNat else []

def pruneWrites {C} (s : St C) (h : Hist) (max : Int) : List Write :=
  (pruneNames (snapNames s h) max).map (fun n => .delete [histName h, n])

/-! ### download_batch -/

/-- `SELECT name FROM table WHERE name GLOB '<name>,*'` on the decoded snapshot (`none` when the
    node does not decode); `name` without GLOB metacharacters. -/
def download (C : Codec) (table : Str) (blob : C.Blob) (name : Str) : Option (List Str) :=
  match C.dec table blob with
  | none => none
  | some rows => some ((rows.filter (fun r => (name ++ [COMMA]).isPrefixOf r.name)).map (·.name))

/-! ### Phases of one pass of `treadmill sproc trace cleanup`, with a crash point -/

inductive Phase
  | trace (bs exp : Int)        -- cleanup_trace(zk, bs, exp)
  | finished (bs exp : Int)     -- cleanup_finished(zk, bs, exp)
  | server (bs : Int)           -- cleanup_server_trace(zk, bs)
  | prune (h : Hist) (max : Int) -- _zk.cleanup(zk, <hist>, max)
  deriving Repr

def phaseWrites {C} (s : St C) (now : Dec) : Phase → Except Err (List Write)
  | .trace bs exp => traceWrites s now bs exp
  | .finished bs exp => finishedWrites s now bs exp
  | .server bs => serverWrites s bs
  | .prune h max => .ok (pruneWrites s h max)

inductive Status
  | done (writes : Nat)     -- ran to completion
  | cut (writes : Nat)      -- stopped after `writes` writes
  | error (e : Err)         -- raised before the first write
  deriving DecidableEq, Repr

/-- Run a phase; `cut = some k` stops the archiver when it attempts write number `k+1`. -/
def runPhase {C} (s : St C) (now : Dec) (ph : Phase) (cut : Option Nat) : St C × Status :=
  match phaseWrites s now ph with
  | .error e => (s, .error e)
  | .ok ws =>
    match cut with
    | none => (applyAll s ws, .done ws.length)
    | some k =>
      if k < ws.length then (applyAll s (ws.take k), .cut k)
      else (applyAll s ws, .done ws.length)

/-! ### Environment -/

/-- `publish`: create the event node unless it exists. -/
def publish {C} (s : St C) (e : Ev) : St C :=
  if s.live.contains e then s else { s with live := s.live ++ [e] }

/-- A new finished record (ignored if one of that name exists). -/
def putFin {C} (s : St C) (f : Fin) : St C :=
  if s.fin.any (fun g => g.name = f.name) then s else { s with fin := s.fin ++ [f] }

inductive Op
  | publish (e : Ev)
  | setSched (l : List Str)
  | putFin (f : Fin)
  | run (now : Dec) (ph : Phase) (cut : Option Nat)

def step {C} (s : St C) : Op → St C
  | .publish e => publish s e
  | .setSched l => { s with sched := l }
  | .putFin f => putFin s f
  | .run now ph cut => (runPhase s now ph cut).1

def runOps {C} (s : St C) (ops : List Op) : St C := ops.foldl step s

/-! ### One pass of the archiver service -/

/-- The options of `treadmill sproc trace cleanup` that reach the archiver functions. -/
structure PassOpts where
  traceBatch  : Int
  traceExpire : Int
  traceHist   : Int
  finBatch    : Int
  finExpire   : Int
  finHist     : Int

/-- One pass of the loop, in the order of `sproc/trace.py` (`prune_trace_evictions` and
    `prune_trace_service_events`, which delete by design, are outside the model). -/
def passPhases (o : PassOpts) : List Phase :=
  [.trace o.traceBatch o.traceExpire, .finished o.finBatch o.finExpire, .prune .trace o.traceHist,
   .prune .finished o.finHist, .server o.traceBatch, .prune .server o.traceHist]

/-- Run phases in order.  `stop = some (i, k)`: phases before number `i` run to completion, phase `i`
    is cut at its write `k`, nothing runs after it.  A phase that raises ends the run. -/
def runPhases {C} (now : Dec) : St C → List Phase → Option (Nat × Nat) → St C
  | s, [], _ => s
  | s, ph :: _, some (0, k) => (runPhase s now ph (some k)).1
  | s, ph :: t, some (i + 1, k) =>
    match runPhase s now ph none with
    | (s', .error _) => s'
    | (s', _) => runPhases now s' t (some (i, k))
  | s, ph :: t, none =>
    match runPhase s now ph none with
    | (s', .error _) => s'
    | (s', _) => runPhases now s' t none

def runPass {C} (s : St C) (now : Dec) (o : PassOpts) (stop : Option (Nat × Nat)) : St C :=
  runPhases now s (passPhases o) stop

/-! ### The concrete codec the driver and the examples use -/

/-- Identity codec: a blob is the table name and the rows, or junk. -/
def Codec.plain : Codec :=
  { Blob := Option (Str × List Row)
    enc := fun t rows => some (t, rows)
    dec := fun t b =>
      match b with
      | some (t', rows) => if t = t' then some rows else none
      | none => none
    rt := by intro t rows; simp }

end TmVerif.Archive
