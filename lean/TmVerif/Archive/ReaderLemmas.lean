/-
  Helper lemmas about the trace reader model (TmVerif/Archive/Reader.lean).
-/
import TmVerif.Archive.Lemmas
import TmVerif.Archive.Reader

namespace TmVerif.Archive

/-! ### Tuple order -/

theorem tupCmp_refl (a : Tup) : tupCmp a a = .eq := by
  induction a with
  | nil => rfl
  | cons x xs ih => simp only [tupCmp, strCmp_refl, ih]

theorem tupCmp_eq_iff (a b : Tup) : tupCmp a b = .eq ↔ a = b := by
  induction a generalizing b with
  | nil => cases b <;> simp [tupCmp]
  | cons x xs ih =>
    cases b with
    | nil => simp [tupCmp]
    | cons y ys =>
      simp only [tupCmp, List.cons.injEq]
      cases h : strCmp x y with
      | lt =>
        simp only [reduceCtorEq, false_iff, not_and]
        intro hxy; rw [hxy, strCmp_refl] at h; cases h
      | gt =>
        simp only [reduceCtorEq, false_iff, not_and]
        intro hxy; rw [hxy, strCmp_refl] at h; cases h
      | eq =>
        simp only [ih]
        have := (strCmp_eq_iff x y).mp h
        simp [this]

theorem tupCmp_swap (a b : Tup) : tupCmp b a = (tupCmp a b).swap := by
  induction a generalizing b with
  | nil => cases b <;> rfl
  | cons x xs ih =>
    cases b with
    | nil => rfl
    | cons y ys =>
      simp only [tupCmp]
      rw [strCmp_swap x y]
      cases strCmp x y <;> simp [Ordering.swap, ih]

theorem tupLe_total (a b : Tup) : tupLe a b = true ∨ tupLe b a = true := by
  unfold tupLe
  rw [tupCmp_swap a b]
  cases tupCmp a b <;> simp [Ordering.swap]

theorem tupCmp_lt_trans {a b c : Tup} (h1 : tupCmp a b = .lt) (h2 : tupCmp b c = .lt) : tupCmp a c = .lt := by
  induction a generalizing b c with
  | nil =>
    cases b with
    | nil => cases h1
    | cons y ys => cases c with
      | nil => cases h2
      | cons z zs => rfl
  | cons x xs ih =>
    cases b with
    | nil => cases h1
    | cons y ys =>
      cases c with
      | nil => cases h2
      | cons z zs =>
        simp only [tupCmp] at h1 h2 ⊢
        cases hxy : strCmp x y with
        | gt => rw [hxy] at h1; cases h1
        | lt =>
          cases hyz : strCmp y z with
          | gt => rw [hyz] at h2; cases h2
          | lt => rw [strCmp_lt_trans hxy hyz]
          | eq => rw [← (strCmp_eq_iff y z).mp hyz, hxy]
        | eq =>
          have hx := (strCmp_eq_iff x y).mp hxy
          subst hx
          cases hyz : strCmp x z with
          | gt => rw [hyz] at h2; cases h2
          | lt => rfl
          | eq =>
            rw [hxy] at h1; rw [hyz] at h2
            exact ih h1 h2

theorem tupLe_iff (a b : Tup) : tupLe a b = true ↔ tupCmp a b = .lt ∨ a = b := by
  unfold tupLe
  rw [← tupCmp_eq_iff]
  cases tupCmp a b <;> simp

theorem tupLe_trans {a b c : Tup} (h1 : tupLe a b = true) (h2 : tupLe b c = true) : tupLe a c = true := by
  rw [tupLe_iff] at h1 h2 ⊢
  rcases h1 with h1 | rfl
  · rcases h2 with h2 | rfl
    · exact Or.inl (tupCmp_lt_trans h1 h2)
    · exact Or.inl h1
  · exact h2

theorem tupLe_antisymm {a b : Tup} (h1 : tupLe a b = true) (h2 : tupLe b a = true) : a = b := by
  rw [tupLe_iff] at h1 h2
  rcases h1 with h1 | h1
  · rcases h2 with h2 | h2
    · rw [tupCmp_swap a b, h1] at h2; cases h2
    · exact h2.symm
  · exact h1

/-- `¬ (a < b)` on strings is `b <= a`. -/
theorem strLt_false_iff (a b : Str) : strLt a b = false ↔ strLe b a = true := by
  unfold strLt strLe
  rw [strCmp_swap a b]
  cases strCmp a b <;> simp [Ordering.swap]

/-- Tuples with the same first field compare by the second field first. -/
theorem tupLe_ts (e1 e2 : Event) (ho : e1.obj = e2.obj) (h : tupLe e1.tup e2.tup = true) :
    strLe e1.ts e2.ts = true := by
  unfold tupLe Event.tup at h
  simp only [tupCmp, ho, strCmp_refl] at h
  unfold strLe
  cases hc : strCmp e1.ts e2.ts with
  | lt => rfl
  | eq => rfl
  | gt => rw [hc] at h; simp at h

theorem Event.tup_inj (a b : Event) (h : a.tup = b.tup) : a = b := by
  cases a; cases b
  simp only [Event.tup, List.cons.injEq, and_true] at h
  obtain ⟨h1, h2, h3, h4, h5⟩ := h
  subst h1 h2 h3 h4 h5
  rfl

theorem unpack5_some (t : Tup) (e : Event) : unpack5 t = some e ↔ t = e.tup := by
  constructor
  · intro h
    unfold unpack5 at h
    split at h
    · simp only [Option.some.injEq] at h; subst h; rfl
    · cases h
  · rintro rfl; rfl

/-! ### The delivery chain -/

/-- `out` was delivered starting from `_last_event = last`: every event passed the skip test against
    the event delivered just before it. -/
def Deliv : Option Event → List Event → Prop
  | _, [] => True
  | last, e :: t => skips last e = false ∧ Deliv (some e) t

/-- `_last_event` after delivering `out`. -/
def lastOf : Option Event → List Event → Option Event
  | last, [] => last
  | _, e :: t => lastOf (some e) t

theorem Deliv_append (last : Option Event) (a b : List Event) (ha : Deliv last a) (hb : Deliv (lastOf last a) b) :
    Deliv last (a ++ b) := by
  induction a generalizing last with
  | nil => exact hb
  | cons e t ih => exact ⟨ha.1, ih (some e) ha.2 hb⟩

theorem lastOf_append (last : Option Event) (a b : List Event) : lastOf last (a ++ b) = lastOf (lastOf last a) b := by
  induction a generalizing last with
  | nil => rfl
  | cons e t ih => exact ih (some e)

theorem lastOf_cases (last : Option Event) (out : List Event) (x : Event) (h : lastOf last out = some x) :
    last = some x ∨ x ∈ out := by
  induction out generalizing last with
  | nil => exact Or.inl h
  | cons e t ih =>
    rcases ih (some e) h with h' | h'
    · simp only [Option.some.injEq] at h'; subst h'; exact Or.inr List.mem_cons_self
    · exact Or.inr (List.mem_cons_of_mem _ h')

theorem procLoop_deliv (obj : Str) (l : List Tup) (last : Option Event) :
    Deliv last (procLoop obj l last).out ∧ (procLoop obj l last).last = lastOf last (procLoop obj l last).out := by
  induction l generalizing last with
  | nil => exact ⟨trivial, rfl⟩
  | cons t rest ih =>
    simp only [procLoop]
    split
    · exact ⟨trivial, rfl⟩
    · rename_i e _
      split
      · exact ih last
      · rename_i hc
        have hs : skips last e = false := by
          cases hsk : skips last e with
          | false => rfl
          | true => exact absurd (Or.inr hsk) hc
        exact ⟨⟨hs, (ih (some e)).1⟩, (ih (some e)).2⟩

theorem procLoop_mem (obj : Str) (l : List Tup) (last : Option Event) :
    ∀ e ∈ (procLoop obj l last).out, e.tup ∈ l ∧ e.obj = obj := by
  induction l generalizing last with
  | nil => intro e he; cases he
  | cons t rest ih =>
    simp only [procLoop]
    split
    · intro e he; cases he
    · rename_i e1 hu
      have ht : t = e1.tup := (unpack5_some t e1).mp hu
      split
      · intro e he
        exact ⟨List.mem_cons_of_mem _ (ih last e he).1, (ih last e he).2⟩
      · rename_i hc
        intro e he
        rcases List.mem_cons.mp he with rfl | he'
        · refine ⟨by rw [ht]; exact List.mem_cons_self, ?_⟩
          by_cases ho : e.obj = obj
          · exact ho
          · exact absurd (Or.inl ho) hc
        · exact ⟨List.mem_cons_of_mem _ (ih (some e1) e he').1, (ih (some e1) e he').2⟩

/-- From the chain: timestamps (as strings) never decrease. -/
theorem Deliv_ts (last : Option Event) (out : List Event) (h : Deliv last out) :
    (∀ l0, last = some l0 → ∀ e ∈ out, strLe l0.ts e.ts = true) ∧
    out.Pairwise (fun a b => strLe a.ts b.ts = true) := by
  induction out generalizing last with
  | nil => exact ⟨fun _ _ e he => (by cases he), List.Pairwise.nil⟩
  | cons e t ih =>
    obtain ⟨h1, h2⟩ := h
    obtain ⟨ih1, ih2⟩ := ih (some e) h2
    refine ⟨?_, List.Pairwise.cons (fun b hb => ih1 e rfl b hb) ih2⟩
    intro l0 hl x hx
    subst hl
    have hle : strLe l0.ts e.ts = true := by
      simp only [skips, Bool.or_eq_false_iff] at h1
      exact (strLt_false_iff _ _).mp h1.1
    rcases List.mem_cons.mp hx with rfl | hx'
    · exact hle
    · exact strLe_trans hle (ih1 e rfl x hx')

/-- From the chain: if distinct events have distinct timestamp strings, nothing is delivered twice. -/
theorem Deliv_nodup (l0 : Event) (out : List Event) (h : Deliv (some l0) out)
    (hd : ∀ a ∈ l0 :: out, ∀ b ∈ l0 :: out, a.ts = b.ts → a = b) : (l0 :: out).Nodup := by
  induction out generalizing l0 with
  | nil => simp
  | cons e t ih =>
    obtain ⟨h1, h2⟩ := h
    have hsub : ∀ a ∈ e :: t, a ∈ l0 :: e :: t := fun a ha => List.mem_cons_of_mem _ ha
    have ihn := ih e h2 (fun a ha b hb => hd a (hsub a ha) b (hsub b hb))
    simp only [skips, Bool.or_eq_false_iff, decide_eq_false_iff_not] at h1
    have hle : strLe l0.ts e.ts = true := (strLt_false_iff _ _).mp h1.1
    refine List.nodup_cons.mpr ⟨?_, ihn⟩
    intro hmem
    rcases List.mem_cons.mp hmem with rfl | hmem'
    · exact h1.2 rfl
    · have hge := (Deliv_ts (some e) t h2).1 e rfl l0 hmem'
      have hts : l0.ts = e.ts := strLe_antisymm hle hge
      have := hd l0 List.mem_cons_self e (List.mem_cons_of_mem _ List.mem_cons_self) hts
      exact h1.2 this.symm

/-! ### One call: sorted output, completeness -/

def tupLt (a b : Event) : Prop := tupCmp a.tup b.tup = .lt

theorem procLoop_sorted_from (obj : Str) (l : List Tup) (hs : Sorted tupLe l) (l0 : Event)
    (hl : ∀ t ∈ l, tupLe l0.tup t = true) :
    (procLoop obj l (some l0)).out.Pairwise tupLt ∧ ∀ e ∈ (procLoop obj l (some l0)).out, tupLt l0 e := by
  induction l generalizing l0 with
  | nil =>
    refine ⟨List.Pairwise.nil, ?_⟩
    intro e he
    simp [procLoop] at he
  | cons t rest ih =>
    have hs' : Sorted tupLe rest := (List.pairwise_cons.mp hs).2
    have hhead := (List.pairwise_cons.mp hs).1
    simp only [procLoop]
    split
    · exact ⟨List.Pairwise.nil, fun e he => by cases he⟩
    · rename_i e1 hu
      have ht : t = e1.tup := (unpack5_some t e1).mp hu
      split
      · exact ih hs' l0 (fun x hx => hl x (List.mem_cons_of_mem _ hx))
      · rename_i hc
        have hne : e1 ≠ l0 := by
          intro heq
          apply hc; right
          simp [skips, heq]
        have hlt : tupLt l0 e1 := by
          have := (tupLe_iff _ _).mp (hl t List.mem_cons_self)
          rcases this with h | h
          · rw [ht] at h; exact h
          · rw [ht] at h; exact absurd (Event.tup_inj _ _ h).symm hne
        obtain ⟨ih1, ih2⟩ := ih hs' e1 (fun x hx => by rw [← ht]; exact hhead x hx)
        refine ⟨List.Pairwise.cons (fun b hb => ih2 b hb) ih1, ?_⟩
        intro e he
        rcases List.mem_cons.mp he with rfl | he'
        · exact hlt
        · exact tupCmp_lt_trans hlt (ih2 e he')

theorem procLoop_sorted (obj : Str) (l : List Tup) (hs : Sorted tupLe l) (last : Option Event) :
    (procLoop obj l last).out.Pairwise tupLt := by
  induction l generalizing last with
  | nil => exact List.Pairwise.nil
  | cons t rest ih =>
    have hs' : Sorted tupLe rest := (List.pairwise_cons.mp hs).2
    have hhead := (List.pairwise_cons.mp hs).1
    simp only [procLoop]
    split
    · exact List.Pairwise.nil
    · rename_i e1 hu
      have ht : t = e1.tup := (unpack5_some t e1).mp hu
      split
      · exact ih hs' last
      · obtain ⟨h1, h2⟩ := procLoop_sorted_from obj rest hs' e1 (fun x hx => by rw [← ht]; exact hhead x hx)
        exact List.Pairwise.cons (fun b hb => h2 b hb) h1

/-- One call on a sorted list without exception: an event of the object that is not older (string
    order) than `_last_event` is delivered, unless it *is* `_last_event`. -/
theorem procLoop_complete (obj : Str) (l : List Tup) (hs : Sorted tupLe l) (last : Option Event)
    (hok : (procLoop obj l last).err = none) (e : Event) (he : e.tup ∈ l) (ho : e.obj = obj)
    (hl : ∀ l0, last = some l0 → strLe l0.ts e.ts = true) :
    e ∈ (procLoop obj l last).out ∨ last = some e := by
  induction l generalizing last with
  | nil => cases he
  | cons t rest ih =>
    have hs' : Sorted tupLe rest := (List.pairwise_cons.mp hs).2
    have hhead := (List.pairwise_cons.mp hs).1
    simp only [procLoop] at hok ⊢
    split at hok
    · cases hok
    · rename_i e1 hu
      have ht : t = e1.tup := (unpack5_some t e1).mp hu
      split at hok
      · rename_i hc
        rw [if_pos hc]
        rcases List.mem_cons.mp he with h | h
        · have : e = e1 := Event.tup_inj _ _ (h.trans ht)
          subst this
          rcases hc with hc | hc
          · exact absurd ho hc
          · cases last with
            | none => simp [skips] at hc
            | some l0 =>
              simp only [skips, Bool.or_eq_true, decide_eq_true_eq] at hc
              rcases hc with hc | hc
              · have := (strLt_false_iff _ _).mpr (hl l0 rfl)
                rw [this] at hc; cases hc
              · right; rw [hc]
        · exact ih hs' last hok h hl
      · rename_i hc
        rw [if_neg hc]
        simp only at hok ⊢
        rcases List.mem_cons.mp he with h | h
        · have : e = e1 := Event.tup_inj _ _ (h.trans ht)
          subst this
          exact Or.inl List.mem_cons_self
        · have ho1 : e1.obj = obj := by
            by_cases ho1 : e1.obj = obj
            · exact ho1
            · exact absurd (Or.inl ho1) hc
          have hle : strLe e1.ts e.ts = true :=
            tupLe_ts e1 e (ho1.trans ho.symm) (by rw [← ht]; exact hhead _ h)
          rcases ih hs' (some e1) hok h (fun l0 hl0 => by cases hl0; exact hle) with h' | h'
          · exact Or.inl (List.mem_cons_of_mem _ h')
          · simp only [Option.some.injEq] at h'; subst h'; exact Or.inl List.mem_cons_self

end TmVerif.Archive
