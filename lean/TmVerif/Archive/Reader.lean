/-
  Model of the trace *reader* (C18, "retrievable"):

    treadmill/trace/_zk.py         TraceLoop._process_events
    treadmill/trace/app/zk.py      AppTraceLoop.run(snapshot=True) / _process_db_events
    treadmill/trace/server/zk.py   ServerTraceLoop.run(snapshot=True) / _process_db_events

  `_process_events(events)`:
      events = sorted(tuple(event.split(',')) for event in events)
      for event in events:
          object_name, timestamp, source, event_type, event_data = event     # ValueError unless 5 fields
          if object_name != self._object_name: continue
          if self._last_event and (event[1] < self._last_event[1] or event == self._last_event): continue
          self._process_event(...); self._last_event = event

  Tuples of strings are `List Str` with Python's tuple order (`tupCmp`); the timestamp test is
  Python's `<` on *strings* (`strLt`); the only memory between calls is `_last_event`.
  `run(snapshot=True)`: unless `/scheduled/<instance>` exists (app trace only) the snapshots of the
  history directory are downloaded and processed one by one, in the order `get_children` lists
  them (ZooKeeper defines none: the order is a parameter), then the children of the object's shard.
  An exception (5-field unpack, undecodable snapshot) ends the read; what was delivered stays delivered.
-/
import TmVerif.Archive.Model

namespace TmVerif.Archive

/-! ### `str.split(',')` and tuples of strings -/

/-- `s.split(sep)`: all fields (never empty: `''.split(',') == ['']`). -/
def splitAll (sep : Nat) : Str → List Str
  | [] => [[]]
  | c :: t =>
    if c = sep then [] :: splitAll sep t
    else match splitAll sep t with
      | [] => [[c]]
      | h :: r => (c :: h) :: r

/-- A tuple of strings. -/
abbrev Tup := List Str

/-- Python three-way comparison of tuples of `str` (lexicographic, a proper prefix is smaller). -/
def tupCmp : Tup → Tup → Ordering
  | [], [] => .eq
  | [], _ :: _ => .lt
  | _ :: _, [] => .gt
  | a :: as, b :: bs =>
    match strCmp a b with
    | .lt => .lt
    | .gt => .gt
    | .eq => tupCmp as bs

/-- Python `a <= b` on tuples of `str`. -/
def tupLe (a b : Tup) : Bool := tupCmp a b != .gt

/-- Python `a < b` on `str`. -/
def strLt (a b : Str) : Bool := strCmp a b == .lt

/-- A trace event as the reader sees it: the five fields of the node name. -/
structure Event where
  obj : Str
  ts : Str
  src : Str
  ty : Str
  data : Str
  deriving DecidableEq, Repr

def Event.tup (e : Event) : Tup := [e.obj, e.ts, e.src, e.ty, e.data]

/-- `object_name, timestamp, source, event_type, event_data = event` (`none`: ValueError). -/
def unpack5 : Tup → Option Event
  | [a, b, c, d, e] => some ⟨a, b, c, d, e⟩
  | _ => none

/-- The event a node name denotes (`none` unless it has exactly five comma separated fields). -/
def eventOf (name : Str) : Option Event := unpack5 (splitAll COMMA name)

/-! ### `_process_events` -/

/-- `self._last_event and (event[1] < self._last_event[1] or event == self._last_event)`. -/
def skips (last : Option Event) (e : Event) : Bool :=
  match last with
  | none => false
  | some l => strLt e.ts l.ts || decide (e = l)

inductive RErr
  | valueError     -- an event name without exactly five fields reached the unpacking
  | undecodable    -- zlib / sqlite3 could not read a snapshot node
  deriving DecidableEq, Repr

/-- Result of (part of) a read: the events handed to `_process_event` in order, `_last_event`
    afterwards, and the exception that ended it (if any). -/
structure Res where
  out : List Event
  last : Option Event
  err : Option RErr
  deriving DecidableEq, Repr

/-- The `for event in events` loop over the sorted tuples. -/
def procLoop (obj : Str) : List Tup → Option Event → Res
  | [], last => ⟨[], last, none⟩
  | t :: rest, last =>
    match unpack5 t with
    | none => ⟨[], last, some .valueError⟩
    | some e =>
      if e.obj ≠ obj ∨ skips last e = true then procLoop obj rest last
      else
        let r := procLoop obj rest (some e)
        ⟨e :: r.out, r.last, r.err⟩

/-- `TraceLoop._process_events(events)` for `_object_name = obj`, `_last_event = last`. -/
def processEvents (obj : Str) (last : Option Event) (batch : List Str) : Res :=
  procLoop obj (sortBy tupLe (batch.map (splitAll COMMA))) last

/-- Successive `_process_events` calls; an exception ends the sequence. -/
def readBatches (obj : Str) : List (List Str) → Option Event → Res
  | [], last => ⟨[], last, none⟩
  | b :: bs, last =>
    let r := processEvents obj last b
    match r.err with
    | some _ => r
    | none =>
      let r' := readBatches obj bs r.last
      ⟨r.out ++ r'.out, r'.last, r'.err⟩

/-! ### `run(snapshot=True)` on a ZooKeeper state -/

/-- `download_batch` of the snapshots in the given order; `none` at the first undecodable one
    together with the batches before it. -/
def downloads (C : Codec) (table obj : Str) : List C.Blob → List (List Str) × Bool
  | [] => ([], true)
  | b :: bs =>
    match download C table b obj with
    | none => ([], false)
    | some l =>
      let (r, ok) := downloads C table obj bs
      (l :: r, ok)

/-- Children of `/<root>/<shard>` (the ChildrenWatch of the object's shard; a missing shard node
    delivers nothing, as an empty one). -/
def shardChildren {C} (s : St C) (r : Root) (shard : Str) : List Str :=
  (s.live.filter (fun e => e.root = r ∧ e.shard = shard)).map (·.name)

/-- `AppTraceLoop(zk, obj, handler).run(snapshot=True)` / `ServerTraceLoop...` : `snaps` is what
    `get_children(<history>)` returned, in that order; `useSnaps` is `not exists(/scheduled/obj)` for
    the app trace and `true` for the server trace. -/
def readTraceWith {C} (s : St C) (r : Root) (obj shard : Str) (useSnaps : Bool) (snaps : List (Snap C)) : Res :=
  let (bs, ok) := if useSnaps then downloads C (histTable r.hist) obj (snaps.map (·.blob)) else ([], true)
  if ok then readBatches obj (bs ++ [shardChildren s r shard]) none
  else
    let res := readBatches obj bs none
    match res.err with
    | some _ => res
    | none => { res with err := some .undecodable }

/-- The app-trace reader (`trace/app/zk.py`). -/
def readTrace {C} (s : St C) (obj shard : Str) (snaps : List (Snap C)) : Res :=
  readTraceWith s .app obj shard (!s.sched.contains obj) snaps

/-- The server-trace reader (`trace/server/zk.py`): snapshots always. -/
def readServerTrace {C} (s : St C) (obj shard : Str) (snaps : List (Snap C)) : Res :=
  readTraceWith s .server obj shard true snaps

/-- The snapshots of a history directory in the order of a listing of their names (names that are
    not there are ignored; the driver checks the listing is a permutation). -/
def snapsInOrder {C} (s : St C) (h : Hist) (order : List Str) : List (Snap C) :=
  order.flatMap (fun n => s.snaps.filter (fun sn => sn.dir = h ∧ sn.name = n))

end TmVerif.Archive
