/- Helper lemmas about the trace-archiver model (C18). -/
import TmVerif.Archive.Model

namespace TmVerif.Archive

/-! ### `strCmp` is a total order -/

theorem strCmp_refl (a : Str) : strCmp a a = .eq := by
  induction a with
  | nil => rfl
  | cons x t ih => simp [strCmp, ih]

theorem strCmp_eq_iff (a b : Str) : strCmp a b = .eq ↔ a = b := by
  induction a generalizing b with
  | nil => cases b <;> simp [strCmp]
  | cons x t ih =>
    cases b with
    | nil => simp [strCmp]
    | cons y u =>
      simp only [strCmp]
      by_cases h1 : x < y
      · simp [h1]; omega
      · by_cases h2 : y < x
        · simp [h1, h2]; omega
        · have : x = y := by omega
          simp [ih, this]

theorem strCmp_swap (a b : Str) : strCmp b a = (strCmp a b).swap := by
  induction a generalizing b with
  | nil => cases b <;> simp [strCmp, Ordering.swap]
  | cons x t ih =>
    cases b with
    | nil => simp [strCmp, Ordering.swap]
    | cons y u =>
      simp only [strCmp]
      by_cases h1 : x < y
      · have : ¬ y < x := by omega
        simp [h1, this, Ordering.swap]
      · by_cases h2 : y < x
        · simp [h1, h2, Ordering.swap]
        · simp [h1, h2, ih]

theorem strLe_total (a b : Str) : strLe a b = true ∨ strLe b a = true := by
  unfold strLe
  rw [strCmp_swap a b]
  cases strCmp a b <;> simp [Ordering.swap]

theorem strCmp_lt_trans {a b c : Str} (h1 : strCmp a b = .lt) (h2 : strCmp b c = .lt) : strCmp a c = .lt := by
  induction a generalizing b c with
  | nil =>
    cases b with
    | nil => simp [strCmp] at h1
    | cons y u => cases c <;> simp_all [strCmp]
  | cons x t ih =>
    cases b with
    | nil => simp [strCmp] at h1
    | cons y u =>
      cases c with
      | nil => simp [strCmp] at h2
      | cons z v =>
        simp only [strCmp] at *
        by_cases hxy : x < y
        · by_cases hyz : y < z
          · have : x < z := by omega
            simp [this]
          · by_cases hzy : z < y
            · simp [hyz, hzy] at h2
            · have : y = z := by omega
              subst this; simp [hxy]
        · by_cases hyx : y < x
          · simp [hxy, hyx] at h1
          · have hxy' : x = y := by omega
            subst hxy'
            simp only [hxy, ↓reduceIte] at h1
            by_cases hyz : x < z
            · simp [hyz]
            · by_cases hzy : z < x
              · simp [hyz, hzy] at h2
              · simp only [hyz, hzy, ↓reduceIte] at h2 ⊢
                exact ih h1 h2

theorem strLe_trans {a b c : Str} (h1 : strLe a b = true) (h2 : strLe b c = true) : strLe a c = true := by
  unfold strLe at *
  cases hab : strCmp a b with
  | gt => simp [hab] at h1
  | eq =>
    have := (strCmp_eq_iff a b).mp hab; subst this; exact h2
  | lt =>
    cases hbc : strCmp b c with
    | gt => simp [hbc] at h2
    | eq => have := (strCmp_eq_iff b c).mp hbc; subst this; simp [hab]
    | lt => simp [strCmp_lt_trans hab hbc]

theorem strLe_antisymm {a b : Str} (h1 : strLe a b = true) (h2 : strLe b a = true) : a = b := by
  unfold strLe at *
  rw [strCmp_swap a b] at h2
  cases hab : strCmp a b with
  | gt => simp [hab] at h1
  | eq => exact (strCmp_eq_iff a b).mp hab
  | lt => simp [hab, Ordering.swap] at h2

theorem strCmp_append_left (p a b : Str) : strCmp (p ++ a) (p ++ b) = strCmp a b := by
  induction p with
  | nil => rfl
  | cons x t ih => simp [strCmp, ih]


/-- Three-way comparison of naturals. -/
def natCmp (a b : Nat) : Ordering := if a < b then .lt else if b < a then .gt else .eq

theorem strCmp_snoc (x y : Str) (a b : Nat) (hlen : x.length = y.length) :
    strCmp (x ++ [a]) (y ++ [b]) = (strCmp x y).then (natCmp a b) := by
  induction x generalizing y with
  | nil =>
    cases y with
    | nil => simp [strCmp, natCmp, Ordering.then]
    | cons _ _ => simp at hlen
  | cons c t ih =>
    cases y with
    | nil => simp at hlen
    | cons d u =>
      simp only [List.cons_append, strCmp]
      by_cases h1 : c < d
      · simp [h1, Ordering.then]
      · by_cases h2 : d < c
        · simp [h1, h2, Ordering.then]
        · simp only [h1, h2, ↓reduceIte]
          exact ih u (by simpa using hlen)

theorem fixedDigits_length (w n : Nat) : (fixedDigits w n).length = w := by
  induction w generalizing n with
  | zero => rfl
  | succ w ih => simp [fixedDigits, ih]

/-- Fixed-width decimal numerals compare like the numbers. -/
theorem fixedDigits_cmp (w a b : Nat) (ha : a < 10 ^ w) (hb : b < 10 ^ w) :
    strCmp (fixedDigits w a) (fixedDigits w b) = natCmp a b := by
  induction w generalizing a b with
  | zero =>
    have : a = 0 := by simpa using ha
    have : b = 0 := by simpa using hb
    subst_vars; simp [fixedDigits, strCmp, natCmp]
  | succ w ih =>
    simp only [fixedDigits]
    rw [strCmp_snoc _ _ _ _ (by simp [fixedDigits_length])]
    have ha' : a / 10 < 10 ^ w := by
      rw [Nat.pow_succ] at ha; omega
    have hb' : b / 10 < 10 ^ w := by
      rw [Nat.pow_succ] at hb; omega
    rw [ih _ _ ha' hb']
    unfold natCmp
    by_cases h1 : a / 10 < b / 10
    · have : a < b := by omega
      simp [h1, this, Ordering.then]
    · by_cases h2 : b / 10 < a / 10
      · have h3 : b < a := by omega
        have h4 : ¬ a < b := by omega
        simp [h1, h2, h3, h4, Ordering.then]
      · simp only [h1, h2, ↓reduceIte, Ordering.then]
        by_cases h3 : a < b
        · have : 48 + a % 10 < 48 + b % 10 := by omega
          simp [h3, this]
        · by_cases h4 : b < a
          · have h5 : 48 + b % 10 < 48 + a % 10 := by omega
            have h6 : ¬ 48 + a % 10 < 48 + b % 10 := by omega
            simp [h3, h4, h5, h6]
          · have h5 : ¬ 48 + b % 10 < 48 + a % 10 := by omega
            have h6 : ¬ 48 + a % 10 < 48 + b % 10 := by omega
            simp [h3, h4, h5, h6]

theorem pad10_small (n : Nat) (h : n < 10 ^ 10) : pad10 n = fixedDigits 10 n := by
  unfold pad10
  have : n / 10 ^ 10 = 0 := Nat.div_eq_of_lt h
  rw [this]; rfl


/-! ### insertion sort -/

theorem insertBy_perm {α} (le : α → α → Bool) (x : α) (l : List α) : (insertBy le x l).Perm (x :: l) := by
  induction l with
  | nil => exact List.Perm.refl _
  | cons y t ih =>
    simp only [insertBy]
    split
    · exact List.Perm.refl _
    · exact (List.Perm.cons y ih).trans (List.Perm.swap x y t)

theorem sortBy_perm {α} (le : α → α → Bool) (l : List α) : (sortBy le l).Perm l := by
  induction l with
  | nil => exact List.Perm.refl _
  | cons x t ih =>
    show (insertBy le x (sortBy le t)).Perm (x :: t)
    exact (insertBy_perm le x _).trans (List.Perm.cons x ih)

theorem mem_sortBy {α} (le : α → α → Bool) (l : List α) (x : α) : x ∈ sortBy le l ↔ x ∈ l :=
  (sortBy_perm le l).mem_iff

theorem length_sortBy {α} (le : α → α → Bool) (l : List α) : (sortBy le l).length = l.length :=
  (sortBy_perm le l).length_eq

/-- `l` is ascending for `le`. -/
def Sorted {α} (le : α → α → Bool) (l : List α) : Prop := List.Pairwise (fun a b => le a b = true) l

theorem insertBy_sorted {α} (le : α → α → Bool)
    (htot : ∀ a b, le a b = true ∨ le b a = true)
    (htrans : ∀ a b c, le a b = true → le b c = true → le a c = true)
    (x : α) (l : List α) (hs : Sorted le l) : Sorted le (insertBy le x l) := by
  induction l with
  | nil => simp [insertBy, Sorted]
  | cons y t ih =>
    simp only [insertBy]
    unfold Sorted at hs ih ⊢
    rw [List.pairwise_cons] at hs
    split
    · rename_i hxy
      rw [List.pairwise_cons]
      refine ⟨?_, List.pairwise_cons.mpr hs⟩
      intro z hz
      rcases List.mem_cons.mp hz with rfl | hz
      · exact hxy
      · exact htrans _ _ _ hxy (hs.1 z hz)
    · rename_i hxy
      have hyx : le y x = true := by
        rcases htot x y with h | h
        · exact absurd h hxy
        · exact h
      rw [List.pairwise_cons]
      refine ⟨?_, ih hs.2⟩
      intro z hz
      rcases List.mem_cons.mp ((insertBy_perm le x t).mem_iff.mp hz) with rfl | hz
      · exact hyx
      · exact hs.1 z hz

theorem sortBy_sorted {α} (le : α → α → Bool)
    (htot : ∀ a b, le a b = true ∨ le b a = true)
    (htrans : ∀ a b c, le a b = true → le b c = true → le a c = true)
    (l : List α) : Sorted le (sortBy le l) := by
  induction l with
  | nil => simp [sortBy, Sorted]
  | cons x t ih => exact insertBy_sorted le htot htrans x _ ih

/-- Sorting an ascending list changes nothing. -/
theorem sortBy_of_sorted {α} (le : α → α → Bool) (l : List α) (hs : Sorted le l) : sortBy le l = l := by
  induction l with
  | nil => rfl
  | cons x t ih =>
    unfold Sorted at hs ih
    rw [List.pairwise_cons] at hs
    show insertBy le x (sortBy le t) = x :: t
    rw [ih hs.2]
    cases t with
    | nil => rfl
    | cons y u => simp [insertBy, hs.1 y (by simp)]

/-! ### batching -/

theorem batches_spec {α} (n : Nat) (fuel : Nat) (l : List α) :
    ∀ b ∈ batches n fuel l, b.length = n ∧ ∀ x ∈ b, x ∈ l := by
  induction fuel generalizing l with
  | zero => intro b hb; simp [batches] at hb
  | succ f ih =>
    intro b hb
    simp only [batches] at hb
    split at hb
    · simp at hb
    · rename_i hlen
      rcases List.mem_cons.mp hb with rfl | hb
      · exact ⟨by simp [List.length_take]; omega, fun x hx => List.mem_of_mem_take hx⟩
      · obtain ⟨h1, h2⟩ := ih _ b hb
        exact ⟨h1, fun x hx => List.mem_of_mem_drop (h2 x hx)⟩

/-- With enough fuel the batches are a prefix of `l` and fewer than `n` elements are left over. -/
theorem batches_flatten {α} (n : Nat) (hn : 1 ≤ n) (fuel : Nat) (l : List α) (hf : l.length ≤ fuel) :
    ∃ rest, (batches n fuel l).flatten ++ rest = l ∧ rest.length < n := by
  induction fuel generalizing l with
  | zero =>
    have : l = [] := by simpa using hf
    subst this
    exact ⟨[], by simp [batches], by omega⟩
  | succ f ih =>
    simp only [batches]
    split
    · rename_i hlen
      exact ⟨l, by simp, hlen⟩
    · rename_i hlen
      have : (l.drop n).length ≤ f := by simp [List.length_drop]; omega
      obtain ⟨rest, h1, h2⟩ := ih (l.drop n) this
      refine ⟨rest, ?_, h2⟩
      simp only [List.flatten_cons, List.append_assoc, h1, List.take_append_drop]


/-! ### What a list of writes does -/

def Write.delPath? : Write → Option Path
  | .delete p => some p
  | .create _ _ => none

/-- Paths deleted by a write list. -/
def delPaths (ws : List Write) : List Path := ws.filterMap Write.delPath?

theorem delPaths_append (a b : List Write) : delPaths (a ++ b) = delPaths a ++ delPaths b := by
  simp [delPaths, List.filterMap_append]

theorem delPaths_cons_create (h : Hist) (rows : List Row) (ws : List Write) :
    delPaths (.create h rows :: ws) = delPaths ws := rfl

theorem delPaths_cons_delete (p : Path) (ws : List Write) :
    delPaths (.delete p :: ws) = p :: delPaths ws := rfl

theorem delPaths_map_delete (ps : List Path) : delPaths (ps.map Write.delete) = ps := by
  induction ps with
  | nil => rfl
  | cons p t ih => simp [delPaths_cons_delete, ih]

theorem applyAll_cons {C} (s : St C) (w : Write) (ws : List Write) :
    applyAll s (w :: ws) = applyAll (apply s w) ws := rfl

theorem applyAll_append {C} (s : St C) (a b : List Write) :
    applyAll s (a ++ b) = applyAll (applyAll s a) b := by
  simp [applyAll, List.foldl_append]

theorem apply_sched {C} (s : St C) (w : Write) : (apply s w).sched = s.sched := by
  cases w with
  | create h rows => cases h <;> rfl
  | delete p => rfl

theorem applyAll_sched {C} (s : St C) (ws : List Write) : (applyAll s ws).sched = s.sched := by
  induction ws generalizing s with
  | nil => rfl
  | cons w ws ih => rw [applyAll_cons, ih, apply_sched]

theorem apply_create_live {C} (s : St C) (h : Hist) (rows : List Row) :
    (apply s (.create h rows)).live = s.live := by cases h <;> rfl
theorem apply_create_fin {C} (s : St C) (h : Hist) (rows : List Row) :
    (apply s (.create h rows)).fin = s.fin := by cases h <;> rfl
theorem apply_create_snaps {C} (s : St C) (h : Hist) (rows : List Row) :
    (apply s (.create h rows)).snaps = s.snaps ++ [⟨h, snapName h (s.seq h), C.enc (histTable h) rows⟩] := by
  cases h <;> rfl

/-- A live event survives a write list iff its path is not deleted. -/
theorem mem_applyAll_live {C} (s : St C) (ws : List Write) (e : Ev) :
    e ∈ (applyAll s ws).live ↔ e ∈ s.live ∧ e.path ∉ delPaths ws := by
  induction ws generalizing s with
  | nil => simp [applyAll, delPaths]
  | cons w ws ih =>
    rw [applyAll_cons, ih]
    cases w with
    | create h rows => rw [apply_create_live, delPaths_cons_create]
    | delete p =>
      rw [delPaths_cons_delete]
      simp only [apply, List.mem_filter, bne_iff_ne, ne_eq, List.mem_cons, not_or]
      constructor
      · rintro ⟨⟨h1, h2⟩, h3⟩; exact ⟨h1, h2, h3⟩
      · rintro ⟨h1, h2, h3⟩; exact ⟨⟨h1, h2⟩, h3⟩

theorem mem_applyAll_fin {C} (s : St C) (ws : List Write) (f : Fin) :
    f ∈ (applyAll s ws).fin ↔ f ∈ s.fin ∧ finPath f.name ∉ delPaths ws := by
  induction ws generalizing s with
  | nil => simp [applyAll, delPaths]
  | cons w ws ih =>
    rw [applyAll_cons, ih]
    cases w with
    | create h rows => rw [apply_create_fin, delPaths_cons_create]
    | delete p =>
      rw [delPaths_cons_delete]
      simp only [apply, List.mem_filter, bne_iff_ne, ne_eq, List.mem_cons, not_or]
      constructor
      · rintro ⟨⟨h1, h2⟩, h3⟩; exact ⟨h1, h2, h3⟩
      · rintro ⟨h1, h2, h3⟩; exact ⟨⟨h1, h2⟩, h3⟩

/-- Paths of trace events and of finished records (never of a snapshot). -/
def DataPath (p : Path) : Prop := p.length = 3 ∨ p.head? = some ExtArchive.finishedRoot

theorem histName_ne_finished (h : Hist) : histName h ≠ ExtArchive.finishedRoot := by
  cases h <;> decide

theorem snap_path_ne_data {C} (sn : Snap C) (p : Path) (hp : DataPath p) : sn.path ≠ p := by
  intro e
  subst e
  rcases hp with h | h
  · simp [Snap.path] at h
  · simp only [Snap.path, List.head?_cons, Option.some.injEq] at h
    exact histName_ne_finished _ h

theorem ev_path_data (e : Ev) : DataPath e.path := Or.inl rfl
theorem fin_path_data (n : Str) : DataPath (finPath n) := Or.inr rfl

/-- Writes that delete only data nodes never remove a snapshot. -/
theorem applyAll_snaps_mono {C} (s : St C) (ws : List Write) (hd : ∀ p ∈ delPaths ws, DataPath p)
    (sn : Snap C) (hsn : sn ∈ s.snaps) : sn ∈ (applyAll s ws).snaps := by
  induction ws generalizing s with
  | nil => exact hsn
  | cons w ws ih =>
    rw [applyAll_cons]
    cases w with
    | create h rows =>
      rw [delPaths_cons_create] at hd
      apply ih _ hd
      rw [apply_create_snaps]; exact List.mem_append_left _ hsn
    | delete p =>
      rw [delPaths_cons_delete] at hd
      apply ih _ (fun q hq => hd q (List.mem_cons_of_mem _ hq))
      simp only [apply, List.mem_filter, bne_iff_ne, ne_eq]
      exact ⟨hsn, snap_path_ne_data sn p (hd p List.mem_cons_self)⟩

/-- ... and every snapshot they create is there afterwards, holding the encoded rows. -/
theorem applyAll_created {C} (s : St C) (ws : List Write) (hd : ∀ p ∈ delPaths ws, DataPath p)
    (h : Hist) (rows : List Row) (hw : Write.create h rows ∈ ws) :
    ∃ sn ∈ (applyAll s ws).snaps, sn.dir = h ∧ sn.blob = C.enc (histTable h) rows := by
  induction ws generalizing s with
  | nil => cases hw
  | cons w ws ih =>
    rw [applyAll_cons]
    cases w with
    | create h' rows' =>
      rw [delPaths_cons_create] at hd
      rcases List.mem_cons.mp hw with e | hw
      · cases e
        refine ⟨⟨h, snapName h (s.seq h), C.enc (histTable h) rows⟩, ?_, rfl, rfl⟩
        apply applyAll_snaps_mono _ _ hd
        rw [apply_create_snaps]; simp
      · exact ih _ hd hw
    | delete p =>
      rw [delPaths_cons_delete] at hd
      rcases List.mem_cons.mp hw with e | hw
      · cases e
      · exact ih _ (fun q hq => hd q (List.mem_cons_of_mem _ hq)) hw

/-! ### Prefixes of a sequence of `upload_batch` calls -/

theorem delPaths_uploadWrites (h : Hist) (rows : List Row) :
    delPaths (uploadWrites h rows) = rows.map (·.path) := by
  unfold uploadWrites
  rw [delPaths_cons_create]
  have : rows.map (fun r => Write.delete r.path) = (rows.map (·.path)).map Write.delete := by
    simp [List.map_map]
  rw [this, delPaths_map_delete]

/-- In every prefix of the writes of a sequence of uploads, each deleted path is the path of a row
    of a batch whose snapshot creation is in the same prefix: upload precedes delete. -/
theorem take_uploads {β} (h : Hist) (g : β → List Row) (bl : List β) (k : Nat) :
    ∀ p ∈ delPaths ((bl.flatMap (fun b => uploadWrites h (g b))).take k),
      ∃ b ∈ bl, (∃ r ∈ g b, r.path = p) ∧
        Write.create h (g b) ∈ (bl.flatMap (fun b => uploadWrites h (g b))).take k := by
  induction bl generalizing k with
  | nil => intro p hp; simp [delPaths] at hp
  | cons b bl ih =>
    intro p hp
    simp only [List.flatMap_cons, List.take_append, delPaths_append, List.mem_append] at hp ⊢
    rcases hp with hp | hp
    · cases k with
      | zero => simp [delPaths] at hp
      | succ k =>
        refine ⟨b, List.mem_cons_self, ?_, Or.inl ?_⟩
        · simp only [uploadWrites, List.take_succ_cons, delPaths_cons_create] at hp
          have : p ∈ delPaths ((g b).map (fun r => Write.delete r.path)) := by
            unfold delPaths at hp ⊢
            obtain ⟨w, hw, hwp⟩ := List.mem_filterMap.mp hp
            exact List.mem_filterMap.mpr ⟨w, List.mem_of_mem_take hw, hwp⟩
          have h2 : (g b).map (fun r => Write.delete r.path) = ((g b).map (·.path)).map Write.delete := by
            simp [List.map_map]
          rw [h2, delPaths_map_delete] at this
          obtain ⟨r, hr, hrp⟩ := List.mem_map.mp this
          exact ⟨r, hr, hrp⟩
        · simp [uploadWrites]
    · obtain ⟨b', hb', hr, hc⟩ := ih _ p hp
      exact ⟨b', List.mem_cons_of_mem _ hb', hr, Or.inr hc⟩

theorem delPaths_take_subset (ws : List Write) (k : Nat) : ∀ p ∈ delPaths (ws.take k), p ∈ delPaths ws := by
  intro p hp
  unfold delPaths at *
  obtain ⟨w, hw, hwp⟩ := List.mem_filterMap.mp hp
  exact List.mem_filterMap.mpr ⟨w, List.mem_of_mem_take hw, hwp⟩


/-! ### parsing event names -/

theorem splitAt1_spec (sep : Nat) (s a b : Str) (h : splitAt1 sep s = some (a, b)) :
    s = a ++ sep :: b ∧ sep ∉ a := by
  induction s generalizing a with
  | nil => simp [splitAt1] at h
  | cons c t ih =>
    simp only [splitAt1] at h
    by_cases hc : c = sep
    · simp only [hc, ↓reduceIte, Option.some.injEq, Prod.mk.injEq] at h
      obtain ⟨rfl, rfl⟩ := h
      simp [hc]
    · simp only [hc, ↓reduceIte] at h
      cases hr : splitAt1 sep t with
      | none => simp [hr] at h
      | some ab =>
        obtain ⟨a', b'⟩ := ab
        simp only [hr, Option.some.injEq, Prod.mk.injEq] at h
        obtain ⟨rfl, rfl⟩ := h
        obtain ⟨h1, h2⟩ := ih a' hr
        refine ⟨by simp [h1], ?_⟩
        simp only [List.mem_cons, not_or]
        exact ⟨fun e => hc e.symm, h2⟩

theorem splitAt1_of_append (sep : Nat) (a b : Str) (h : sep ∉ a) :
    splitAt1 sep (a ++ sep :: b) = some (a, b) := by
  induction a with
  | nil => simp [splitAt1]
  | cons c t ih =>
    simp only [List.mem_cons, not_or] at h
    have hc : c ≠ sep := fun e => h.1 e.symm
    simp [splitAt1, hc, ih h.2]

/-- The object name of an event name (text before the first comma). -/
def objOf (name : Str) : Option Str :=
  match splitAt1 COMMA name with
  | some (obj, _) => some obj
  | none => none

theorem parseEvent_obj (name obj : Str) (ts : Dec) (rest : Str) (h : parseEvent name = some (obj, ts, rest)) :
    objOf name = some obj := by
  unfold parseEvent at h
  unfold objOf
  cases h1 : splitAt1 COMMA name with
  | none => simp [h1] at h
  | some ab =>
    obtain ⟨a, b⟩ := ab
    simp only [h1] at h ⊢
    cases h2 : splitAt1 COMMA b with
    | none => simp [h2] at h
    | some cd =>
      obtain ⟨c, d⟩ := cd
      simp only [h2] at h
      cases h3 : parseDec c with
      | none => simp [h3] at h
      | some x =>
        simp only [h3, Option.some.injEq, Prod.mk.injEq] at h
        rw [h.1]

/-- `name GLOB 'obj,*'` ⇔ `obj` is the object of `name` (for `obj` without a comma). -/
theorem prefix_iff_objOf (obj name : Str) (hobj : COMMA ∉ obj) :
    (obj ++ [COMMA]).isPrefixOf name = true ↔ objOf name = some obj := by
  rw [List.isPrefixOf_iff_prefix]
  constructor
  · rintro ⟨t, ht⟩
    unfold objOf
    have : name = obj ++ COMMA :: t := by rw [← ht]; simp
    rw [this, splitAt1_of_append COMMA obj t hobj]
  · intro h
    unfold objOf at h
    cases h1 : splitAt1 COMMA name with
    | none => simp [h1] at h
    | some ab =>
      obtain ⟨a, b⟩ := ab
      simp only [h1, Option.some.injEq] at h
      subst h
      obtain ⟨e, _⟩ := splitAt1_spec COMMA name a b h1
      exact ⟨b, by rw [e]; simp⟩

theorem objOf_no_comma (name obj : Str) (h : objOf name = some obj) : COMMA ∉ obj := by
  unfold objOf at h
  cases h1 : splitAt1 COMMA name with
  | none => simp [h1] at h
  | some ab =>
    obtain ⟨a, b⟩ := ab
    simp only [h1, Option.some.injEq] at h
    subst h
    exact (splitAt1_spec COMMA name a b h1).2

/-! ### selection -/

theorem selectAll_spec (keep : Str → Dec → Bool) (l : List Ev) (cs : List Cand)
    (h : selectAll keep l = .ok cs) :
    ∀ c ∈ cs, c.ev ∈ l ∧ ∃ obj rest, parseEvent c.ev.name = some (obj, c.ts, rest) ∧ keep obj c.ts = true := by
  induction l generalizing cs with
  | nil =>
    simp only [selectAll, Except.ok.injEq] at h
    subst h; intro c hc; cases hc
  | cons e es ih =>
    simp only [selectAll] at h
    cases hp : parseEvent e.name with
    | none => simp [hp] at h
    | some t =>
      obtain ⟨obj, ts, rest⟩ := t
      simp only [hp] at h
      cases hr : selectAll keep es with
      | error x => simp [hr] at h
      | ok cs' =>
        simp only [hr, Except.ok.injEq] at h
        intro c hc
        by_cases hk : keep obj ts = true
        · simp only [hk, ↓reduceIte] at h
          subst h
          rcases List.mem_cons.mp hc with rfl | hc
          · exact ⟨List.mem_cons_self, obj, rest, hp, hk⟩
          · obtain ⟨h1, h2⟩ := ih cs' hr c hc
            exact ⟨List.mem_cons_of_mem _ h1, h2⟩
        · simp only [hk, Bool.false_eq_true, ↓reduceIte] at h
          subst h
          obtain ⟨h1, h2⟩ := ih cs' hr c hc
          exact ⟨List.mem_cons_of_mem _ h1, h2⟩

/-- Conversely every parsable event the predicate keeps is selected. -/
theorem selectAll_complete (keep : Str → Dec → Bool) (l : List Ev) (cs : List Cand)
    (h : selectAll keep l = .ok cs) (e : Ev) (he : e ∈ l) (obj : Str) (ts : Dec) (rest : Str)
    (hp : parseEvent e.name = some (obj, ts, rest)) (hk : keep obj ts = true) : ⟨ts, e⟩ ∈ cs := by
  induction l generalizing cs with
  | nil => cases he
  | cons e' es ih =>
    simp only [selectAll] at h
    cases hp' : parseEvent e'.name with
    | none => simp [hp'] at h
    | some t =>
      obtain ⟨obj', ts', rest'⟩ := t
      simp only [hp'] at h
      cases hr : selectAll keep es with
      | error x => simp [hr] at h
      | ok cs' =>
        simp only [hr, Except.ok.injEq] at h
        rcases List.mem_cons.mp he with rfl | he
        · rw [hp] at hp'
          simp only [Option.some.injEq, Prod.mk.injEq] at hp'
          obtain ⟨rfl, rfl, rfl⟩ := hp'
          simp only [hk, ↓reduceIte] at h
          subst h; exact List.mem_cons_self
        · have := ih cs' hr he
          subst h
          split
          · exact List.mem_cons_of_mem _ this
          · exact this

/-! ### Coverage: nothing of `s0` is lost in `s` -/

theorem rootName_inj (a b : Root) (h : rootName a = rootName b) : a = b := by
  cases a <;> cases b <;> first | rfl | (exfalso; revert h; decide)

theorem Ev.path_inj (a b : Ev) (h : a.path = b.path) : a = b := by
  obtain ⟨ra, sa, na⟩ := a
  obtain ⟨rb, sb, nb⟩ := b
  simp only [Ev.path, List.cons.injEq, and_true] at h
  obtain ⟨h1, h2, h3⟩ := h
  rw [rootName_inj _ _ h1, h2, h3]

/-- `e` is inside a decodable snapshot of the history directory of its tree. -/
def Archived {C} (s : St C) (e : Ev) : Prop :=
  ∃ sn ∈ s.snaps, sn.dir = e.root.hist ∧
    ∃ rows, C.dec (histTable sn.dir) sn.blob = some rows ∧ ∃ r ∈ rows, r.path = e.path

/-- The finished record `f` (name, data, modification time) is a row of a decodable snapshot. -/
def FinArchived {C} (s : St C) (f : Fin) : Prop :=
  ∃ sn ∈ s.snaps, sn.dir = .finished ∧
    ∃ rows, C.dec (histTable sn.dir) sn.blob = some rows ∧ finRow f ∈ rows

/-- Nothing that `s0` holds is lost in `s`: every live event is still live or archived, every
    finished record is still there or archived, and every snapshot is still there. -/
def Cov {C} (s0 s : St C) : Prop :=
  (∀ e ∈ s0.live, e ∈ s.live ∨ Archived s e) ∧
  (∀ f ∈ s0.fin, f ∈ s.fin ∨ FinArchived s f) ∧
  (∀ sn ∈ s0.snaps, sn ∈ s.snaps)

theorem Cov.refl {C} (s : St C) : Cov s s :=
  ⟨fun _ h => Or.inl h, fun _ h => Or.inl h, fun _ h => h⟩

theorem Cov.trans {C} {a b c : St C} (h1 : Cov a b) (h2 : Cov b c) : Cov a c := by
  refine ⟨?_, ?_, fun sn h => h2.2.2 sn (h1.2.2 sn h)⟩
  · intro e he
    rcases h1.1 e he with h | ⟨sn, hsn, hd, rows, hdec, hr⟩
    · exact h2.1 e h
    · exact Or.inr ⟨sn, h2.2.2 sn hsn, hd, rows, hdec, hr⟩
  · intro f hf
    rcases h1.2.1 f hf with h | ⟨sn, hsn, hd, rows, hdec, hr⟩
    · exact h2.2.1 f h
    · exact Or.inr ⟨sn, h2.2.2 sn hsn, hd, rows, hdec, hr⟩

/-- One node per name under /finished. -/
def FinUnique {C} (s : St C) : Prop := ∀ f ∈ s.fin, ∀ g ∈ s.fin, f.name = g.name → f = g

/-- Any prefix of a sequence of uploads into `h` covers the state it started from, provided the
    rows name data nodes, event rows belong to trees archived into `h`, and a finished record
    whose node is named by a row is that row. -/
theorem cov_take_uploads {C} {β} (s : St C) (h : Hist) (g : β → List Row) (bl : List β) (k : Nat)
    (hdata : ∀ b ∈ bl, ∀ r ∈ g b, DataPath r.path)
    (hev : ∀ b ∈ bl, ∀ r ∈ g b, ∀ e : Ev, r.path = e.path → e.root.hist = h)
    (hfin : ∀ b ∈ bl, ∀ r ∈ g b, ∀ f ∈ s.fin, r.path = finPath f.name → h = .finished ∧ finRow f ∈ g b) :
    Cov s (applyAll s ((bl.flatMap (fun b => uploadWrites h (g b))).take k)) := by
  have htk := take_uploads h g bl k
  generalize hws : (bl.flatMap (fun b => uploadWrites h (g b))).take k = ws at htk
  have hd : ∀ p ∈ delPaths ws, DataPath p := by
    intro p hp
    obtain ⟨b, hb, ⟨r, hr, hrp⟩, _⟩ := htk p hp
    rw [← hrp]; exact hdata b hb r hr
  refine ⟨?_, ?_, fun sn hsn => applyAll_snaps_mono s ws hd sn hsn⟩
  · intro e he
    by_cases hp : e.path ∈ delPaths ws
    · right
      obtain ⟨b, hb, ⟨r, hr, hrp⟩, hc⟩ := htk _ hp
      obtain ⟨sn, hsn, hdir, hblob⟩ := applyAll_created s ws hd h (g b) hc
      refine ⟨sn, hsn, ?_, g b, ?_, r, hr, hrp⟩
      · rw [hdir]; exact (hev b hb r hr e hrp).symm
      · rw [hdir, hblob]; exact C.rt _ _
    · left; exact (mem_applyAll_live s ws e).mpr ⟨he, hp⟩
  · intro f hf
    by_cases hp : finPath f.name ∈ delPaths ws
    · right
      obtain ⟨b, hb, ⟨r, hr, hrp⟩, hc⟩ := htk _ hp
      obtain ⟨hh, hrow⟩ := hfin b hb r hr f hf hrp
      obtain ⟨sn, hsn, hdir, hblob⟩ := applyAll_created s ws hd h (g b) hc
      refine ⟨sn, hsn, by rw [hdir, hh], g b, ?_, hrow⟩
      rw [hdir, hblob]; exact C.rt _ _
    · left; exact (mem_applyAll_fin s ws f).mpr ⟨hf, hp⟩

/-! ### The three archiving phases produce such upload sequences -/

theorem traceCands_spec {C} (s : St C) (now : Dec) (exp : Int) (cs : List Cand)
    (h : traceCands s now exp = .ok cs) :
    ∀ c ∈ cs, c.ev ∈ s.live ∧ c.ev.root = .app ∧
      ∃ obj rest, parseEvent c.ev.name = some (obj, c.ts, rest) ∧
        obj ∉ s.sched ∧ c.ts.lt (now.subInt exp) = true := by
  unfold traceCands at h
  cases hsel : selectAll (traceKeep s.sched (now.subInt exp)) (s.live.filter (fun e => e.root = .app)) with
  | error x => simp [hsel] at h
  | ok cs' =>
    simp only [hsel, Except.ok.injEq] at h
    subst h
    intro c hc
    rw [mem_sortBy] at hc
    obtain ⟨hmem, obj, rest, hp, hk⟩ := selectAll_spec _ _ _ hsel c hc
    simp only [List.mem_filter, decide_eq_true_eq] at hmem
    refine ⟨hmem.1, hmem.2, obj, rest, hp, ?_⟩
    simp only [traceKeep, Bool.and_eq_true, Bool.not_eq_true', List.contains_eq_mem,
      decide_eq_false_iff_not] at hk
    exact hk

/-- The batches a phase uploads, as data. -/
theorem traceWrites_shape {C} (s : St C) (now : Dec) (bs exp : Int) (ws : List Write)
    (h : traceWrites s now bs exp = .ok ws) :
    ∃ cs bl, traceCands s now exp = .ok cs ∧ batchesPy bs cs = .ok bl ∧
      ws = bl.flatMap (fun b => uploadWrites .trace (b.map candRow)) := by
  unfold traceWrites at h
  cases hc : traceCands s now exp with
  | error x => simp [hc] at h
  | ok cs =>
    simp only [hc] at h
    cases hb : batchesPy bs cs with
    | error x => simp [hb] at h
    | ok bl =>
      simp only [hb, Except.ok.injEq] at h
      exact ⟨cs, bl, rfl, hb, h.symm⟩

theorem batchesPy_spec {α} (bs : Int) (l : List α) (bl : List (List α)) (h : batchesPy bs l = .ok bl) :
    bs ≠ 0 ∧ ∀ b ∈ bl, (b.length : Int) = bs ∧ ∀ x ∈ b, x ∈ l := by
  unfold batchesPy at h
  by_cases h0 : bs = 0
  · simp [h0] at h
  · refine ⟨h0, ?_⟩
    by_cases hneg : bs < 0
    · simp only [h0, ↓reduceIte, hneg, Except.ok.injEq] at h
      subst h; intro b hb; cases hb
    · simp only [h0, ↓reduceIte, hneg, Except.ok.injEq] at h
      subst h
      intro b hb
      obtain ⟨h1, h2⟩ := batches_spec _ _ _ b hb
      exact ⟨by rw [h1]; omega, h2⟩

theorem cov_trace {C} (s : St C) (now : Dec) (bs exp : Int) (ws : List Write)
    (h : traceWrites s now bs exp = .ok ws) (k : Nat) : Cov s (applyAll s (ws.take k)) := by
  obtain ⟨cs, bl, hcs, hbl, rfl⟩ := traceWrites_shape s now bs exp ws h
  have hspec := traceCands_spec s now exp cs hcs
  have hb := (batchesPy_spec bs cs bl hbl).2
  apply cov_take_uploads
  · intro b hb' r hr
    obtain ⟨c, _, rfl⟩ := List.mem_map.mp hr
    exact ev_path_data _
  · intro b hb' r hr e hre
    obtain ⟨c, hc, rfl⟩ := List.mem_map.mp hr
    have : c.ev = e := Ev.path_inj _ _ hre
    rw [← this, (hspec c ((hb b hb').2 c hc)).2.1]; rfl
  · intro b hb' r hr f _ hrf
    obtain ⟨c, _, rfl⟩ := List.mem_map.mp hr
    simp [candRow, Ev.path, finPath] at hrf

theorem serverCands_spec (l : List Ev) (cs : List Cand) (h : selectAll (fun _ _ => true) l = .ok cs) :
    ∀ c ∈ sortBy candLe cs, c.ev ∈ l ∧ ∃ obj rest, parseEvent c.ev.name = some (obj, c.ts, rest) := by
  intro c hc
  rw [mem_sortBy] at hc
  obtain ⟨h1, obj, rest, hp, _⟩ := selectAll_spec _ _ _ h c hc
  exact ⟨h1, obj, rest, hp⟩

theorem serverWrites_shape {C} (s : St C) (bs : Int) (ws : List Write) (h : serverWrites s bs = .ok ws) :
    ∃ cs, selectAll (fun _ _ => true) (s.live.filter (fun e => e.root = .server)) = .ok cs ∧ 0 < bs ∧
      ws = (batches bs.toNat cs.length (sortBy candLe cs)).flatMap
              (fun b => uploadWrites .server (b.map candRow)) := by
  unfold serverWrites at h
  cases hc : selectAll (fun _ _ => true) (s.live.filter (fun e => e.root = .server)) with
  | error x => simp [hc] at h
  | ok cs =>
    simp only [hc] at h
    by_cases hb : bs ≤ 0
    · simp [hb] at h
    · simp only [hb, ↓reduceIte, Except.ok.injEq] at h
      exact ⟨cs, rfl, by omega, h.symm⟩

theorem cov_server {C} (s : St C) (bs : Int) (ws : List Write)
    (h : serverWrites s bs = .ok ws) (k : Nat) : Cov s (applyAll s (ws.take k)) := by
  obtain ⟨cs, hcs, _, rfl⟩ := serverWrites_shape s bs ws h
  have hspec := serverCands_spec _ cs hcs
  apply cov_take_uploads
  · intro b hb' r hr
    obtain ⟨c, _, rfl⟩ := List.mem_map.mp hr
    exact ev_path_data _
  · intro b hb' r hr e hre
    obtain ⟨c, hc, rfl⟩ := List.mem_map.mp hr
    have : c.ev = e := Ev.path_inj _ _ hre
    have hmem := (hspec c ((batches_spec _ _ _ b hb').2 c hc)).1
    simp only [List.mem_filter, decide_eq_true_eq] at hmem
    rw [← this, hmem.2]; rfl
  · intro b hb' r hr f _ hrf
    obtain ⟨c, _, rfl⟩ := List.mem_map.mp hr
    simp [candRow, Ev.path, finPath] at hrf

theorem finishedWrites_shape {C} (s : St C) (now : Dec) (bs exp : Int) (ws : List Write)
    (h : finishedWrites s now bs exp = .ok ws) :
    ∃ bl, batchesPy bs (s.fin.filter (finExpired (now.subInt exp))) = .ok bl ∧
      ws = bl.flatMap (fun b => uploadWrites .finished (b.map finRow)) := by
  unfold finishedWrites at h
  cases hb : batchesPy bs (s.fin.filter (finExpired (now.subInt exp))) with
  | error x => simp [hb] at h
  | ok bl =>
    simp only [hb, Except.ok.injEq] at h
    exact ⟨bl, rfl, h.symm⟩

theorem finPath_inj (a b : Str) (h : finPath a = finPath b) : a = b := by
  simpa [finPath] using h

theorem cov_finished {C} (s : St C) (hu : FinUnique s) (now : Dec) (bs exp : Int) (ws : List Write)
    (h : finishedWrites s now bs exp = .ok ws) (k : Nat) : Cov s (applyAll s (ws.take k)) := by
  obtain ⟨bl, hbl, rfl⟩ := finishedWrites_shape s now bs exp ws h
  have hb := (batchesPy_spec bs _ bl hbl).2
  apply cov_take_uploads
  · intro b hb' r hr
    obtain ⟨f, _, rfl⟩ := List.mem_map.mp hr
    exact fin_path_data _
  · intro b hb' r hr e hre
    obtain ⟨f, _, rfl⟩ := List.mem_map.mp hr
    simp [finRow, Ev.path, finPath] at hre
  · intro b hb' r hr f hf hrf
    obtain ⟨f', hf', rfl⟩ := List.mem_map.mp hr
    refine ⟨rfl, ?_⟩
    have hmem := (hb b hb').2 f' hf'
    have : f' = f := hu f' (List.mem_filter.mp hmem).1 f hf (finPath_inj _ _ hrf)
    rw [← this]; exact hr

/-! ### Sequence names and pruning -/

theorem snapName_cmp (h : Hist) (a b : Nat) (ha : a < 10 ^ 10) (hb : b < 10 ^ 10) :
    strCmp (snapName h a) (snapName h b) = natCmp a b := by
  unfold snapName
  rw [strCmp_append_left, pad10_small a ha, pad10_small b hb, fixedDigits_cmp 10 a b ha hb]

theorem snapName_inj (h : Hist) (a b : Nat) (ha : a < 10 ^ 10) (hb : b < 10 ^ 10)
    (e : snapName h a = snapName h b) : a = b := by
  have h1 := snapName_cmp h a b ha hb
  rw [e, strCmp_refl] at h1
  unfold natCmp at h1
  by_cases h2 : a < b
  · simp [h2] at h1
  · by_cases h3 : b < a
    · simp [h2, h3] at h1
    · omega

theorem seqNames_sorted (h : Hist) (nums : List Nat) (hinc : nums.Pairwise (· < ·))
    (hb : ∀ n ∈ nums, n < 10 ^ 10) : Sorted strLe (nums.map (snapName h)) := by
  unfold Sorted
  rw [List.pairwise_map]
  induction nums with
  | nil => exact List.Pairwise.nil
  | cons a t ih =>
    rw [List.pairwise_cons] at hinc ⊢
    refine ⟨?_, ih hinc.2 (fun n hn => hb n (List.mem_cons_of_mem _ hn))⟩
    intro b hbt
    unfold strLe
    rw [snapName_cmp h a b (hb a List.mem_cons_self) (hb b (List.mem_cons_of_mem _ hbt))]
    have := hinc.1 b hbt
    simp [natCmp, this]

theorem seqNames_nodup (h : Hist) (nums : List Nat) (hinc : nums.Pairwise (· < ·))
    (hb : ∀ n ∈ nums, n < 10 ^ 10) : (nums.map (snapName h)).Nodup := by
  unfold List.Nodup
  rw [List.pairwise_map]
  induction nums with
  | nil => exact List.Pairwise.nil
  | cons a t ih =>
    rw [List.pairwise_cons] at hinc ⊢
    refine ⟨?_, ih hinc.2 (fun n hn => hb n (List.mem_cons_of_mem _ hn))⟩
    intro b hbt e
    have := snapName_inj h a b (hb a List.mem_cons_self) (hb b (List.mem_cons_of_mem _ hbt)) e
    have := hinc.1 b hbt
    omega

theorem filter_not_mem_take {α} [BEq α] [LawfulBEq α] (l : List α) (hn : l.Nodup) (j : Nat) :
    l.filter (fun x => !(l.take j).contains x) = l.drop j := by
  induction l generalizing j with
  | nil => simp
  | cons x t ih =>
    cases j with
    | zero => simp
    | succ j =>
      rw [List.nodup_cons] at hn
      simp only [List.take_succ_cons, List.drop_succ_cons, List.filter_cons, List.contains_cons,
        BEq.rfl, Bool.true_or, Bool.not_true, Bool.false_eq_true, ↓reduceIte]
      rw [← ih hn.2 j]
      apply List.filter_congr
      intro y hy
      have : (y == x) = false := by
        rw [beq_eq_false_iff_ne]; rintro rfl; exact hn.1 hy
      simp [this]

theorem histName_inj (a b : Hist) (h : histName a = histName b) : a = b := by
  cases a <;> cases b <;> first | rfl | (exfalso; revert h; decide)

theorem mem_delete_paths (h : Hist) (taken : List Str) (d : Hist) (name : Str) :
    [histName d, name] ∈ taken.map (fun n => [histName h, n]) ↔ d = h ∧ name ∈ taken := by
  simp only [List.mem_map, List.cons.injEq, and_true]
  constructor
  · rintro ⟨n, hn, e1, e2⟩
    exact ⟨(histName_inj _ _ e1).symm, e2 ▸ hn⟩
  · rintro ⟨rfl, hn⟩
    exact ⟨name, hn, rfl, rfl⟩

/-- A list of deletions removes exactly the snapshots whose path is listed. -/
theorem applyAll_deletes_snaps {C} (s : St C) (ps : List Path) :
    (applyAll s (ps.map Write.delete)).snaps = s.snaps.filter (fun sn => !ps.contains sn.path) := by
  induction ps generalizing s with
  | nil => exact (List.filter_eq_self.mpr (by simp)).symm
  | cons p t ih =>
    simp only [List.map_cons, applyAll_cons]
    rw [ih]
    simp only [apply, List.filter_filter]
    apply List.filter_congr
    intro sn _
    simp only [List.contains_cons, Bool.not_or, bne, Bool.and_comm]

theorem snapNames_filter {C} (snaps : List (Snap C)) (h : Hist) (taken : List Str) :
    ((snaps.filter (fun sn => !(taken.map (fun n => [histName h, n])).contains sn.path)).filter
        (fun sn => sn.dir = h)).map (·.name)
      = ((snaps.filter (fun sn => sn.dir = h)).map (·.name)).filter (fun n => !taken.contains n) := by
  rw [List.filter_map, List.filter_filter, List.filter_filter]
  congr 1
  apply List.filter_congr
  intro sn _
  by_cases hd : sn.dir = h
  · have : (taken.map (fun n => [histName h, n])).contains sn.path = taken.contains sn.name := by
      rw [Bool.eq_iff_iff, List.contains_iff_mem, List.contains_iff_mem, Snap.path, mem_delete_paths]
      simp [hd]
    simp only [this]; simp [hd]
  · simp [hd]

theorem snapNames_filter_other {C} (snaps : List (Snap C)) (h h' : Hist) (hne : h' ≠ h) (taken : List Str) :
    (snaps.filter (fun sn => !(taken.map (fun n => [histName h, n])).contains sn.path)).filter
        (fun sn => sn.dir = h')
      = snaps.filter (fun sn => sn.dir = h') := by
  rw [List.filter_filter]
  apply List.filter_congr
  intro sn _
  by_cases hd : sn.dir = h'
  · have : (taken.map (fun n => [histName h, n])).contains sn.path = false := by
      rw [Bool.eq_false_iff]
      intro hc
      rw [List.contains_iff_mem, Snap.path, mem_delete_paths] at hc
      exact hne (hd ▸ hc.1)
    simp only [this]; simp [hd]
  · simp [hd]

theorem applyAll_live_eq {C} (s : St C) (ws : List Write) :
    (applyAll s ws).live = s.live.filter (fun e => !(delPaths ws).contains e.path) := by
  induction ws generalizing s with
  | nil => exact (List.filter_eq_self.mpr (by simp [delPaths])).symm
  | cons w ws ih =>
    rw [applyAll_cons, ih]
    cases w with
    | create h rows => rw [apply_create_live, delPaths_cons_create]
    | delete p =>
      rw [delPaths_cons_delete]
      simp only [apply, List.filter_filter]
      apply List.filter_congr
      intro e _
      simp only [List.contains_cons, Bool.not_or, bne, Bool.and_comm]

theorem applyAll_fin_eq {C} (s : St C) (ws : List Write) :
    (applyAll s ws).fin = s.fin.filter (fun f => !(delPaths ws).contains (finPath f.name)) := by
  induction ws generalizing s with
  | nil => exact (List.filter_eq_self.mpr (by simp [delPaths])).symm
  | cons w ws ih =>
    rw [applyAll_cons, ih]
    cases w with
    | create h rows => rw [apply_create_fin, delPaths_cons_create]
    | delete p =>
      rw [delPaths_cons_delete]
      simp only [apply, List.filter_filter]
      apply List.filter_congr
      intro e _
      simp only [List.contains_cons, Bool.not_or, bne, Bool.and_comm]

theorem filter_not_mem_take_map {α β} [BEq β] [LawfulBEq β] (f : α → β) (l : List α)
    (hn : (l.map f).Nodup) (j : Nat) :
    l.filter (fun x => !((l.map f).take j).contains (f x)) = l.drop j := by
  induction l generalizing j with
  | nil => simp
  | cons x t ih =>
    cases j with
    | zero => simp
    | succ j =>
      rw [List.map_cons, List.nodup_cons] at hn
      simp only [List.map_cons, List.take_succ_cons, List.drop_succ_cons, List.filter_cons,
        List.contains_cons, BEq.rfl, Bool.true_or, Bool.not_true, Bool.false_eq_true, ↓reduceIte]
      rw [← ih hn.2 j]
      apply List.filter_congr
      intro y hy
      have : (f y == f x) = false := by
        rw [beq_eq_false_iff_ne]; intro e; exact hn.1 (e ▸ List.mem_map_of_mem hy)
      simp [this]

theorem snaps_filter_deleted {C} (snaps : List (Snap C)) (h : Hist) (taken : List Str) :
    (snaps.filter (fun sn => !(taken.map (fun n => [histName h, n])).contains sn.path)).filter
        (fun sn => sn.dir = h)
      = (snaps.filter (fun sn => sn.dir = h)).filter (fun sn => !taken.contains sn.name) := by
  rw [List.filter_filter, List.filter_filter]
  apply List.filter_congr
  intro sn _
  by_cases hd : sn.dir = h
  · have : (taken.map (fun n => [histName h, n])).contains sn.path = taken.contains sn.name := by
      rw [Bool.eq_iff_iff, List.contains_iff_mem, List.contains_iff_mem, Snap.path, mem_delete_paths]
      simp [hd]
    simp only [this]; simp [hd]
  · simp [hd]

/-- The snapshots of history directory `h`, in creation order. -/
def snapsOf {C} (s : St C) (h : Hist) : List (Snap C) := s.snaps.filter (fun sn => sn.dir = h)

theorem snapNames_eq {C} (s : St C) (h : Hist) : snapNames s h = (snapsOf s h).map (·.name) := rfl

/-- The names in `h` are the sequence names of strictly increasing numbers below the counter
    (what ZooKeeper guarantees for a directory that only ever receives sequence nodes). -/
def HistInv {C} (s : St C) (h : Hist) : Prop :=
  ∃ nums : List Nat, snapNames s h = nums.map (snapName h) ∧ nums.Pairwise (· < ·) ∧ ∀ n ∈ nums, n < s.seq h

theorem pruneNames_of_sorted (names : List Str) (hs : Sorted strLe names) (max : Int) :
    pruneNames names max = names.take ((names.length : Int) - max).toNat := by
  unfold pruneNames
  simp only [sortBy_of_sorted strLe names hs]
  split
  · rfl
  · rename_i h
    have : ((names.length : Int) - max).toNat = 0 := by omega
    rw [this]; rfl

/-- Effect of any prefix of `_zk.cleanup` on a directory of sequence nodes. -/
theorem prune_prefix {C} (s : St C) (h : Hist) (hinv : HistInv s h) (hb : s.seq h ≤ 10 ^ 10)
    (max : Int) (k : Nat) :
    snapsOf (applyAll s ((pruneWrites s h max).take k)) h
        = (snapsOf s h).drop (min k (((snapsOf s h).length : Int) - max).toNat) ∧
    (∀ h', h' ≠ h → snapsOf (applyAll s ((pruneWrites s h max).take k)) h' = snapsOf s h') ∧
    (applyAll s ((pruneWrites s h max).take k)).live = s.live ∧
    (applyAll s ((pruneWrites s h max).take k)).fin = s.fin := by
  obtain ⟨nums, hnames, hinc, hlt⟩ := hinv
  have hbound : ∀ n ∈ nums, n < 10 ^ 10 := fun n hn => Nat.lt_of_lt_of_le (hlt n hn) hb
  have hsorted : Sorted strLe (snapNames s h) := hnames ▸ seqNames_sorted h nums hinc hbound
  have hnodup : (snapNames s h).Nodup := hnames ▸ seqNames_nodup h nums hinc hbound
  have hlen : (snapNames s h).length = (snapsOf s h).length := by rw [snapNames_eq]; simp
  -- the write list is a list of deletions of the first names
  have hws : (pruneWrites s h max).take k
      = (((snapNames s h).take (min k (((snapsOf s h).length : Int) - max).toNat)).map
          (fun n => [histName h, n])).map Write.delete := by
    unfold pruneWrites
    rw [pruneNames_of_sorted _ hsorted, ← List.map_take, List.take_take, hlen, List.map_map]
    rfl
  rw [hws]
  generalize (min k (((snapsOf s h).length : Int) - max).toNat) = j
  refine ⟨?_, ?_, ?_, ?_⟩
  · unfold snapsOf
    rw [applyAll_deletes_snaps, snaps_filter_deleted]
    have := filter_not_mem_take_map (fun sn : Snap C => sn.name) (s.snaps.filter (fun sn => sn.dir = h))
      hnodup j
    exact this
  · intro h' hne
    unfold snapsOf
    rw [applyAll_deletes_snaps, snapNames_filter_other _ h h' hne]
  · rw [applyAll_live_eq, delPaths_map_delete]
    apply List.filter_eq_self.mpr
    intro e _
    rw [Bool.not_eq_true', Bool.eq_false_iff]
    intro hc
    rw [List.contains_iff_mem] at hc
    obtain ⟨n, _, hn⟩ := List.mem_map.mp hc
    simp [Ev.path] at hn
  · rw [applyAll_fin_eq, delPaths_map_delete]
    apply List.filter_eq_self.mpr
    intro f _
    rw [Bool.not_eq_true', Bool.eq_false_iff]
    intro hc
    rw [List.contains_iff_mem] at hc
    obtain ⟨n, _, hn⟩ := List.mem_map.mp hc
    simp only [finPath, List.cons.injEq, and_true] at hn
    exact histName_ne_finished h hn.1

/-! ### The history-directory invariant is preserved by every write -/

theorem seq_apply_create {C} (s : St C) (h' : Hist) (rows : List Row) (h : Hist) :
    (apply s (.create h' rows)).seq h = if h' = h then s.seq h + 1 else s.seq h := by
  cases h' <;> cases h <;> rfl

theorem snapNames_apply_create {C} (s : St C) (h' : Hist) (rows : List Row) (h : Hist) :
    snapNames (apply s (.create h' rows)) h
      = if h' = h then snapNames s h ++ [snapName h (s.seq h)] else snapNames s h := by
  unfold snapNames
  rw [apply_create_snaps, List.filter_append]
  by_cases e : h' = h
  · subst e; simp
  · simp [e]

theorem snapNames_apply_delete {C} (s : St C) (p : Path) (h : Hist) :
    snapNames (apply s (.delete p)) h = (snapNames s h).filter (fun n => [histName h, n] != p) := by
  unfold snapNames
  simp only [apply]
  rw [List.filter_map, List.filter_filter, List.filter_filter]
  congr 1
  apply List.filter_congr
  intro sn _
  by_cases hd : sn.dir = h
  · simp [hd, Snap.path]
  · simp [hd]

theorem histInv_apply {C} (s : St C) (w : Write) (h : Hist) (hinv : HistInv s h) : HistInv (apply s w) h := by
  obtain ⟨nums, hnames, hinc, hlt⟩ := hinv
  cases w with
  | create h' rows =>
    by_cases e : h' = h
    · subst e
      refine ⟨nums ++ [s.seq h'], ?_, ?_, ?_⟩
      · rw [snapNames_apply_create, if_pos rfl, hnames]; simp
      · rw [List.pairwise_append]
        refine ⟨hinc, by simp, ?_⟩
        intro a ha b hb
        simp only [List.mem_singleton] at hb
        subst hb; exact hlt a ha
      · intro n hn
        rw [seq_apply_create, if_pos rfl]
        rcases List.mem_append.mp hn with hn | hn
        · have := hlt n hn; omega
        · simp only [List.mem_singleton] at hn; omega
    · refine ⟨nums, ?_, hinc, ?_⟩
      · rw [snapNames_apply_create, if_neg e, hnames]
      · intro n hn; rw [seq_apply_create, if_neg e]; exact hlt n hn
  | delete p =>
    refine ⟨nums.filter (fun k => [histName h, snapName h k] != p), ?_, hinc.filter _, ?_⟩
    · rw [snapNames_apply_delete, hnames, List.filter_map]; rfl
    · intro n hn; exact hlt n (List.mem_filter.mp hn).1

theorem histInv_applyAll {C} (s : St C) (ws : List Write) (h : Hist) (hinv : HistInv s h) :
    HistInv (applyAll s ws) h := by
  induction ws generalizing s with
  | nil => exact hinv
  | cons w ws ih => exact ih _ (histInv_apply s w h hinv)

theorem histInv_runPhase {C} (s : St C) (now : Dec) (ph : Phase) (cut : Option Nat) (h : Hist)
    (hinv : HistInv s h) : HistInv (runPhase s now ph cut).1 h := by
  unfold runPhase
  split
  · exact hinv
  · split
    · exact histInv_applyAll _ _ _ hinv
    · split <;> exact histInv_applyAll _ _ _ hinv

theorem histInv_step {C} (s : St C) (op : Op) (h : Hist) (hinv : HistInv s h) : HistInv (step s op) h := by
  cases op with
  | publish e => simp only [step, publish]; split <;> exact hinv
  | setSched l => exact hinv
  | putFin f => simp only [step, putFin]; split <;> exact hinv
  | run now ph cut => exact histInv_runPhase s now ph cut h hinv

theorem histInv_init (C : Codec) (h : Hist) : HistInv (St.init C) h :=
  ⟨[], rfl, List.Pairwise.nil, fun _ hn => by cases hn⟩

theorem seq_apply_le {C} (s : St C) (w : Write) (h : Hist) : s.seq h ≤ (apply s w).seq h := by
  cases w with
  | create h' rows => rw [seq_apply_create]; split <;> omega
  | delete p => exact Nat.le_refl _

/-! ### FinUnique is an invariant -/

theorem finUnique_applyAll {C} (s : St C) (ws : List Write) (hu : FinUnique s) : FinUnique (applyAll s ws) := by
  intro f hf g hg e
  exact hu f ((mem_applyAll_fin s ws f).mp hf).1 g ((mem_applyAll_fin s ws g).mp hg).1 e

theorem finUnique_runPhase {C} (s : St C) (now : Dec) (ph : Phase) (cut : Option Nat)
    (hu : FinUnique s) : FinUnique (runPhase s now ph cut).1 := by
  unfold runPhase
  split
  · exact hu
  · split
    · exact finUnique_applyAll _ _ hu
    · split <;> exact finUnique_applyAll _ _ hu

theorem finUnique_step {C} (s : St C) (op : Op) (hu : FinUnique s) : FinUnique (step s op) := by
  cases op with
  | publish e => simp only [step, publish]; split <;> exact hu
  | setSched l => exact hu
  | putFin f =>
    simp only [step, putFin]
    split
    · exact hu
    · rename_i hnot
      simp only [List.any_eq_true, decide_eq_true_eq, not_exists, not_and] at hnot
      intro a ha b hb e
      simp only [List.mem_append, List.mem_singleton] at ha hb
      rcases ha with ha | rfl <;> rcases hb with hb | rfl
      · exact hu a ha b hb e
      · exact absurd e (hnot a ha)
      · exact absurd e.symm (hnot b hb)
      · rfl
  | run now ph cut => exact finUnique_runPhase s now ph cut hu

/-! ### Archiving phases -/

/-- The phases that move data into snapshots (everything except pruning). -/
def Phase.archiving : Phase → Prop
  | .prune _ _ => False
  | _ => True

theorem cov_phase {C} (s : St C) (hu : FinUnique s) (now : Dec) (ph : Phase) (ha : ph.archiving)
    (ws : List Write) (h : phaseWrites s now ph = .ok ws) (k : Nat) :
    Cov s (applyAll s (ws.take k)) := by
  cases ph with
  | trace bs exp => exact cov_trace s now bs exp ws h k
  | finished bs exp => exact cov_finished s hu now bs exp ws h k
  | server bs => exact cov_server s bs ws h k
  | prune hh max => exact absurd ha id

theorem cov_runPhase {C} (s : St C) (hu : FinUnique s) (now : Dec) (ph : Phase) (ha : ph.archiving)
    (cut : Option Nat) : Cov s (runPhase s now ph cut).1 := by
  unfold runPhase
  cases hws : phaseWrites s now ph with
  | error e => exact Cov.refl s
  | ok ws =>
    have hfull : Cov s (applyAll s ws) := by
      have := cov_phase s hu now ph ha ws hws ws.length
      rwa [List.take_length] at this
    cases cut with
    | none => exact hfull
    | some k =>
      simp only
      split
      · exact cov_phase s hu now ph ha ws hws k
      · exact hfull

/-- Operations that do not prune. -/
def Op.archiving : Op → Prop
  | .run _ ph _ => ph.archiving
  | _ => True

theorem cov_step {C} (s : St C) (hu : FinUnique s) (op : Op) (ha : op.archiving) : Cov s (step s op) := by
  cases op with
  | publish e =>
    simp only [step, publish]
    split
    · exact Cov.refl s
    · exact ⟨fun x hx => Or.inl (List.mem_append_left _ hx), fun _ h => Or.inl h, fun _ h => h⟩
  | setSched l => exact ⟨fun _ h => Or.inl h, fun _ h => Or.inl h, fun _ h => h⟩
  | putFin f =>
    simp only [step, putFin]
    split
    · exact Cov.refl s
    · exact ⟨fun _ h => Or.inl h, fun x hx => Or.inl (List.mem_append_left _ hx), fun _ h => h⟩
  | run now ph cut => exact cov_runPhase s hu now ph ha cut

theorem cov_runOps {C} (s : St C) (hu : FinUnique s) (ops : List Op) (ha : ∀ op ∈ ops, op.archiving) :
    Cov s (runOps s ops) := by
  induction ops generalizing s with
  | nil => exact Cov.refl s
  | cons op ops ih =>
    have h1 := cov_step s hu op (ha op List.mem_cons_self)
    have h2 := ih (step s op) (finUnique_step s op hu) (fun o ho => ha o (List.mem_cons_of_mem _ ho))
    exact h1.trans h2

/-! ### Events that must stay live; retrieval -/

/-- Every deletion of a `cleanup_trace` run targets a selected event. -/
theorem trace_deleted {C} (s : St C) (now : Dec) (bs exp : Int) (ws : List Write)
    (h : traceWrites s now bs exp = .ok ws) (p : Path) (hp : p ∈ delPaths ws) :
    ∃ e ∈ s.live, e.path = p ∧ e.root = .app ∧ ∃ obj ts rest,
      parseEvent e.name = some (obj, ts, rest) ∧ obj ∉ s.sched ∧ ts.lt (now.subInt exp) = true := by
  obtain ⟨cs, bl, hcs, hbl, rfl⟩ := traceWrites_shape s now bs exp ws h
  have hspec := traceCands_spec s now exp cs hcs
  have hb := (batchesPy_spec bs cs bl hbl).2
  have := take_uploads .trace (fun b : List Cand => b.map candRow) bl
    (bl.flatMap (fun b => uploadWrites .trace (b.map candRow))).length p (by rwa [List.take_length])
  obtain ⟨b, hbm, ⟨r, hr, hrp⟩, _⟩ := this
  obtain ⟨c, hc, rfl⟩ := List.mem_map.mp hr
  obtain ⟨h1, h2, obj, rest, h3, h4, h5⟩ := hspec c ((hb b hbm).2 c hc)
  exact ⟨c.ev, h1, hrp, h2, obj, c.ts, rest, h3, h4, h5⟩

/-- Deleted paths of a prefix of uploads of candidate rows are event paths. -/
theorem take_uploads_data {β} (h : Hist) (g : β → List Row) (bl : List β) (k : Nat)
    (hdata : ∀ b ∈ bl, ∀ r ∈ g b, DataPath r.path) :
    ∀ p ∈ delPaths ((bl.flatMap (fun b => uploadWrites h (g b))).take k), DataPath p := by
  intro p hp
  obtain ⟨b, hb, ⟨r, hr, hrp⟩, _⟩ := take_uploads h g bl k p hp
  rw [← hrp]; exact hdata b hb r hr

theorem download_enc (C : Codec) (table : Str) (rows : List Row) (obj : Str) :
    download C table (C.enc table rows) obj
      = some ((rows.filter (fun r => (obj ++ [COMMA]).isPrefixOf r.name)).map (·.name)) := by
  unfold download
  rw [C.rt]

/-- An event that a prefix of uploads of candidate rows removed from the live tree is returned
    by `download_batch` of one of the snapshots, asked for the event's object. -/
theorem retrievable_uploads {C} (s : St C) (h : Hist) (bl : List (List Cand)) (k : Nat)
    (hparse : ∀ b ∈ bl, ∀ c ∈ b, ∃ obj rest, parseEvent c.ev.name = some (obj, c.ts, rest))
    (e : Ev) (he : e ∈ s.live)
    (hgone : e ∉ (applyAll s ((bl.flatMap (fun b => uploadWrites h (b.map candRow))).take k)).live) :
    ∃ sn ∈ (applyAll s ((bl.flatMap (fun b => uploadWrites h (b.map candRow))).take k)).snaps,
      sn.dir = h ∧ ∃ obj, objOf e.name = some obj ∧
        ∃ l, download C (histTable h) sn.blob obj = some l ∧ e.name ∈ l := by
  have hd := take_uploads_data h (fun b : List Cand => b.map candRow) bl k (by
    intro b _ r hr
    obtain ⟨c, _, rfl⟩ := List.mem_map.mp hr
    exact ev_path_data _)
  have htk := take_uploads h (fun b : List Cand => b.map candRow) bl k
  generalize (bl.flatMap (fun b => uploadWrites h (b.map candRow))).take k = ws at hd htk hgone ⊢
  have hp : e.path ∈ delPaths ws := by
    apply Classical.byContradiction
    intro hn
    exact hgone ((mem_applyAll_live s ws e).mpr ⟨he, hn⟩)
  obtain ⟨b, hb, ⟨r, hr, hrp⟩, hc⟩ := htk _ hp
  obtain ⟨sn, hsn, hdir, hblob⟩ := applyAll_created s ws hd h (b.map candRow) hc
  obtain ⟨c, hcb, rfl⟩ := List.mem_map.mp hr
  have hce : c.ev = e := Ev.path_inj _ _ hrp
  obtain ⟨obj, rest, hpe⟩ := hparse b hb c hcb
  rw [hce] at hpe
  have hobj := parseEvent_obj _ _ _ _ hpe
  refine ⟨sn, hsn, hdir, obj, hobj, _, by rw [hblob]; exact download_enc C _ _ obj, ?_⟩
  apply List.mem_map.mpr
  refine ⟨candRow c, List.mem_filter.mpr ⟨hr, ?_⟩, by simp [candRow, hce]⟩
  rw [prefix_iff_objOf obj _ (objOf_no_comma _ _ hobj)]
  simpa [candRow, hce] using hobj

end TmVerif.Archive
