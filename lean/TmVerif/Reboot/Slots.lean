/-
  Which timestamps a partition's bucket list holds: exactly the schedule's slots in a range of days.
  Used for the restart theorem (`Props/C03RebootRestart.lean`).
-/
import TmVerif.Reboot.Lemmas
namespace TmVerif.Reboot
open TmVerif.ExtReboot

/-- Timestamps of the buckets `grow` returns: the old ones and the slot of every day it walked over. -/
theorem grow_mem (sc : Schedule) (lim : Int) :
    ∀ (fuel day : Nat) (last : Int) (bs : List Bkt) (day' : Nat) (last' : Int) (bs' : List Bkt),
      grow sc lim fuel day last bs = some (day', last', bs') →
      ∀ ts, ts ∈ bs'.map (·.ts) ↔ (ts ∈ bs.map (·.ts) ∨ ∃ d, day ≤ d ∧ d < day' ∧ slot sc d = some ts) := by
  intro fuel
  induction fuel with
  | zero =>
    intro day last bs day' last' bs' hg ts
    unfold grow at hg
    split at hg
    · simp at hg
    · simp at hg; obtain ⟨rfl, rfl, rfl⟩ := hg
      constructor
      · intro h; exact Or.inl h
      · rintro (h | ⟨d, h1, h2, _⟩)
        · exact h
        · omega
  | succ n ih =>
    intro day last bs day' last' bs' hg ts
    unfold grow at hg
    split at hg
    · split at hg
      · rename_i t hs
        have hd : day + 1 ≤ day' := by
          -- `grow` never moves the day backwards
          have : ∀ (f d : Nat) (l : Int) (b : List Bkt) (d' : Nat) (l' : Int) (b' : List Bkt),
              grow sc lim f d l b = some (d', l', b') → d ≤ d' := by
            intro f
            induction f with
            | zero => intro d l b d' l' b' h; unfold grow at h; split at h <;> simp at h; omega
            | succ m ihm =>
              intro d l b d' l' b' h
              unfold grow at h
              split at h
              · split at h
                · have := ihm _ _ _ _ _ _ h; omega
                · have := ihm _ _ _ _ _ _ h; omega
              · simp at h; omega
          exact this _ _ _ _ _ _ _ hg
        rw [ih _ _ _ _ _ _ hg ts]
        constructor
        · rintro (h | ⟨d, h1, h2, h3⟩)
          · simp at h
            rcases h with h | h
            · exact Or.inl (by simpa using h)
            · subst h; exact Or.inr ⟨day, Nat.le_refl _, by omega, hs⟩
          · exact Or.inr ⟨d, by omega, h2, h3⟩
        · rintro (h | ⟨d, h1, h2, h3⟩)
          · exact Or.inl (by simp; exact Or.inl (by simpa using h))
          · by_cases hdd : d = day
            · subst hdd; rw [hs] at h3; simp at h3; subst h3; exact Or.inl (by simp)
            · exact Or.inr ⟨d, by omega, h2, h3⟩
      · rename_i hs
        rw [ih _ _ _ _ _ _ hg ts]
        constructor
        · rintro (h | ⟨d, h1, h2, h3⟩)
          · exact Or.inl h
          · exact Or.inr ⟨d, by omega, h2, h3⟩
        · rintro (h | ⟨d, h1, h2, h3⟩)
          · exact Or.inl h
          · by_cases hdd : d = day
            · subst hdd
              -- that day has no slot
              rw [hs] at h3; simp at h3
            · exact Or.inr ⟨d, by omega, h2, h3⟩
    · simp at hg; obtain ⟨rfl, rfl, rfl⟩ := hg
      constructor
      · intro h; exact Or.inl h
      · rintro (h | ⟨d, h1, h2, _⟩)
        · exact h
        · omega

/-- `dropOld` on a time-sorted list keeps exactly the buckets that are not in the past. -/
theorem dropOld_mem (now : Int) (bs bs' : List Bkt) (hs : bs.Pairwise (fun a b => a.ts < b.ts))
    (h : dropOld now bs = some bs') : ∀ b, b ∈ bs' ↔ (b ∈ bs ∧ now ≤ b.ts) := by
  obtain ⟨⟨old, hold, hall⟩, b0, rest, hb, hge⟩ := dropOld_spec _ _ _ h
  intro b
  constructor
  · intro hb'
    refine ⟨by rw [hold]; exact List.mem_append_right _ hb', ?_⟩
    rw [hold, hb] at hs
    have hs2 := (List.pairwise_append.mp hs).2.1
    rw [hb] at hb'
    simp at hb'
    rcases hb' with rfl | hb'
    · exact hge
    · have := (List.pairwise_cons.mp hs2).1 b hb'; omega
  · rintro ⟨hm, hn⟩
    rw [hold] at hm
    rcases List.mem_append.mp hm with ho | hn'
    · have := hall b ho; omega
    · exact hn'

end TmVerif.Reboot
