/-
  Reboot schedule of a partition: where `Server.valid_until` — the quantity the lease clause of C03 compares a
  lease with (`Server.check_app_lifetime`: `now + lease < valid_until`) and `Master.check_reboot` reboots at —
  comes from.  Hand-written from `treadmill/scheduler/__init__.py`:

    reboot_dates(schedule, start_date)      `slot`   (one candidate per calendar day, TZ = UTC)
    Partition.__init__ / Partition.tick     `init` / `tick`  (`grow`: the first `while`, `dropOld`: the second)
    Partition._find_bucket / add / remove   `findIdx` / `add` / `remove`
    RebootBucket.cost / add / remove        `cost` / `putIn` / `takeOut`
    Loader.set_server_valid_until           `setValidUntil`

  Timestamps are integers (seconds); a day index is the number of days since 1970-01-01 (a Thursday, weekday 3).
  Where Python raises (`IndexError` on an empty bucket list, `ValueError` of `min()`), or loops for ever (a schedule
  naming no weekday), the model returns `none`.
-/
import TmVerif.Gen.ExtReboot
namespace TmVerif.Reboot
open TmVerif.ExtReboot

/-- `RebootBucket`: a reboot time and the set of servers rebooted then. -/
structure Bkt where
  ts : Int
  servers : List Nat
deriving Repr, DecidableEq

/-- `reboot_schedule`: weekday (0 = Monday … 6) ↦ second of the day, `none` = no reboot on that weekday. -/
abbrev Schedule := List (Option Int)

structure Part where
  sched : Schedule
  day : Nat            -- the next calendar day the date generator looks at
  buckets : List Bkt   -- `_reboot_buckets`, oldest first
  last : Int           -- `_reboot_last`
deriving Repr

/-- The default schedule of `Partition.__init__` (extracted): the first `defaultScheduleDays` weekdays at
    `defaultScheduleSecond`. -/
def defaultSchedule : Schedule :=
  (List.range 7).map (fun d => if d < defaultScheduleDays then some defaultScheduleSecond else none)

/-- What `reboot_dates` yields for calendar day `day`, if that weekday is in the schedule. -/
def slot (sc : Schedule) (day : Nat) : Option Int :=
  match sc[(day + 3) % 7]? with
  | some (some t) => some ((day : Int) * 86400 + t)
  | _ => none

/-- First loop of `tick`: `while self._reboot_last <= lim: append RebootBucket(next(dates))`, one calendar day per
    step of the fuel. -/
def grow (sc : Schedule) (lim : Int) : Nat → Nat → Int → List Bkt → Option (Nat × Int × List Bkt)
  | 0, day, last, bs => if last ≤ lim then none else some (day, last, bs)
  | fuel + 1, day, last, bs =>
    if last ≤ lim then
      match slot sc day with
      | some ts => grow sc lim fuel (day + 1) ts (bs ++ [⟨ts, []⟩])
      | none => grow sc lim fuel (day + 1) last bs
    else some (day, last, bs)

/-- Second loop of `tick`: `while self._reboot_buckets[0].timestamp < now: pop(0)` (`IndexError` on `[]`). -/
def dropOld (now : Int) : List Bkt → Option (List Bkt)
  | [] => none
  | b :: bs => if b.ts < now then dropOld now bs else some (b :: bs)

def growFuel (lim : Int) (day : Nat) : Nat := (lim / 86400 + 1 - (day : Int)).toNat + 8

def tick (p : Part) (now : Int) : Option Part :=
  match grow p.sched (now + defaultUptime) (growFuel (now + defaultUptime) p.day) p.day p.last p.buckets with
  | none => none
  | some (day, last, bs) =>
    match dropOld now bs with
    | none => none
    | some bs' => some { p with day := day, last := last, buckets := bs' }

/-- `Partition(reboot_schedule=sc, now=now)`; an empty / missing schedule is the default one. -/
def init (sc : Option Schedule) (now : Int) : Option Part :=
  let sc := match sc with
    | some s => if s.all (· == none) then defaultSchedule else s
    | none => defaultSchedule
  tick { sched := sc, day := (now / 86400).toNat, buckets := [], last := now } now

/-- `RebootBucket.cost(server)`: `none` is `float('inf')`. -/
def cost (up : Int) (b : Bkt) : Option Nat :=
  if b.ts > up + defaultUptime then none
  else if b.ts < up + minUptime then none
  else some b.servers.length

/-- `a <= b` for costs (`none` = ∞). -/
def costLe : Option Nat → Option Nat → Bool
  | _, none => true
  | none, some _ => false
  | some a, some b => a ≤ b

/-- `min(reversed(buckets), key=cost)` as an index into `buckets`: the LAST index with a minimal key. -/
def argminLastAux : List (Option Nat) → Nat → Option (Nat × Option Nat) → Option (Nat × Option Nat)
  | [], _, best => best
  | k :: ks, i, none => argminLastAux ks (i + 1) (some (i, k))
  | k :: ks, i, some (j, kj) => argminLastAux ks (i + 1) (if costLe k kj then some (i, k) else some (j, kj))

def argminLast (keys : List (Option Nat)) : Option Nat := (argminLastAux keys 0 none).map (·.1)

/-- `_find_bucket(timestamp)`: the first bucket with that timestamp. -/
def findIdx (bs : List Bkt) (t : Int) : Option Nat :=
  if bs.findIdx (fun b => b.ts == t) < bs.length then some (bs.findIdx (fun b => b.ts == t)) else none

/-- `set.add`. -/
def insertSet (s : Nat) (l : List Nat) : List Nat := if s ∈ l then l else l ++ [s]

/-- `RebootBucket.add(server)` on bucket `i`. -/
def putIn (bs : List Bkt) (i s : Nat) : List Bkt :=
  bs.modify i (fun b => { b with servers := insertSet s b.servers })

/-- `if timestamp: bucket = self._find_bucket(timestamp)` (`None` and `0` are falsy). -/
def byStored (bs : List Bkt) (stored : Option Int) : Option Nat :=
  match stored with
  | some t => if t ≠ 0 then findIdx bs t else none
  | none => none

/-- `self._reboot_buckets[0].timestamp > server.up_since + DEFAULT_SERVER_UPTIME`. -/
def overdue (bs : List Bkt) (up : Int) : Bool :=
  match bs.head? with
  | some b0 => decide (b0.ts > up + defaultUptime)
  | none => false

/-- The bucket `Partition.add(server, timestamp)` chooses (`none`: `IndexError` / `ValueError` on no buckets). -/
def choose (bs : List Bkt) (up : Int) (stored : Option Int) : Option Nat :=
  if bs.isEmpty then none
  else if overdue bs up then some 0
  else
    match byStored bs stored with
    | some i => some i
    | none => argminLast (bs.map (cost up))

/-- `Partition.add(server, timestamp)`: new partition and the server's new `valid_until`. -/
def add (p : Part) (s : Nat) (up : Int) (stored : Option Int) : Option (Part × Int) :=
  match choose p.buckets up stored with
  | none => none
  | some i =>
    match p.buckets[i]? with
    | none => none
    | some b => some ({ p with buckets := putIn p.buckets i s }, b.ts)

/-- `Partition.remove(server)`. -/
def remove (p : Part) (s : Nat) : Part :=
  { p with buckets := p.buckets.map (fun b => { b with servers := b.servers.filter (· ≠ s) }) }

/-- `Loader.set_server_valid_until` for a server with one label: `presence = none` — no presence node (nothing
    happens); `some v` — the node's `valid_until` field (`none`: absent).  Result: the partition, the server's
    `valid_until`, and the value written back to the presence node. -/
def setValidUntil (p : Part) (s : Nat) (up : Int) (presence : Option (Option Int)) :
    Option (Part × Option Int) :=
  match presence with
  | none => some (p, none)
  | some stored =>
    match add p s up stored with
    | none => none
    | some (p', v) => some (p', some v)

end TmVerif.Reboot
