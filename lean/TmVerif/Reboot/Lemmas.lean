/-
  Helper lemmas for the reboot-bucket model (`TmVerif/Reboot/Model.lean`).
-/
import TmVerif.Reboot.Model
namespace TmVerif.Reboot
open TmVerif.ExtReboot

/-! ### the schedule -/

/-- A schedule as `Partition` gets it from a partition record with weekday keys 0..6 and times of day. -/
def SchedOk (sc : Schedule) : Prop :=
  sc.length = 7 ∧ (∀ t ∈ sc, ∀ x, t = some x → 0 ≤ x ∧ x < 86400) ∧ ∃ t ∈ sc, t ≠ none

theorem slot_range {sc : Schedule} (h : SchedOk sc) {day : Nat} {ts : Int} (hs : slot sc day = some ts) :
    (day : Int) * 86400 ≤ ts ∧ ts < ((day : Int) + 1) * 86400 := by
  unfold slot at hs
  split at hs
  · rename_i t ht
    have hm : some t ∈ sc := List.mem_of_getElem? ht
    have := h.2.1 _ hm t rfl
    simp at hs
    omega
  · simp at hs

/-- Within any seven consecutive days the schedule names one. -/
theorem slot_within_week {sc : Schedule} (h : SchedOk sc) (d : Nat) :
    ∃ k, k < 7 ∧ ∃ ts, slot sc (d + k) = some ts := by
  obtain ⟨hl, _, t, ht, hne⟩ := h
  obtain ⟨w, hw, hget⟩ := List.getElem_of_mem ht
  cases t with
  | none => exact absurd rfl hne
  | some x =>
    refine ⟨(w + 7 - (d + 3) % 7) % 7, by omega, (d + (w + 7 - (d + 3) % 7) % 7 : Nat) * 86400 + x, ?_⟩
    unfold slot
    have hidx : (d + (w + 7 - (d + 3) % 7) % 7 + 3) % 7 = w := by omega
    rw [hidx, List.getElem?_eq_getElem hw, hget]

/-! ### `grow` -/

/-- What `grow` maintains about (next day, last, buckets). -/
structure GInv (day : Nat) (last : Int) (bs : List Bkt) : Prop where
  sorted : bs.Pairwise (fun a b => a.ts < b.ts)
  bound : ∀ b ∈ bs, b.ts < (day : Int) * 86400
  last : bs ≠ [] → (bs.getLast?.map (·.ts)) = some last

theorem ginv_step {sc : Schedule} (h : SchedOk sc) {day : Nat} {last ts : Int} {bs : List Bkt}
    (g : GInv day last bs) (hs : slot sc day = some ts) : GInv (day + 1) ts (bs ++ [⟨ts, []⟩]) := by
  have hr := slot_range h hs
  refine ⟨?_, ?_, ?_⟩
  · rw [List.pairwise_append]
    refine ⟨g.sorted, by simp, ?_⟩
    intro a ha b hb
    simp at hb
    subst hb
    have := g.bound a ha
    show a.ts < ts
    omega
  · intro b hb
    simp at hb
    rcases hb with hb | hb
    · have := g.bound b hb; push_cast; omega
    · subst hb; push_cast; show ts < ((day : Int) + 1) * 86400; omega
  · intro _; simp

theorem ginv_skip {day : Nat} {last : Int} {bs : List Bkt} (g : GInv day last bs) : GInv (day + 1) last bs :=
  ⟨g.sorted, fun b hb => by have := g.bound b hb; push_cast; omega, g.last⟩

/-- `grow` result: invariant kept, the limit passed, the old buckets are a prefix (with their servers), the new
    ones are empty, and at least one bucket exists if the loop ran or one existed. -/
theorem grow_spec {sc : Schedule} (h : SchedOk sc) (lim : Int) :
    ∀ (fuel day : Nat) (last : Int) (bs : List Bkt) (day' : Nat) (last' : Int) (bs' : List Bkt),
      GInv day last bs → grow sc lim fuel day last bs = some (day', last', bs') →
      GInv day' last' bs' ∧ lim < last' ∧ (∃ new, bs' = bs ++ new ∧ ∀ b ∈ new, b.servers = []) ∧
      (last ≤ lim → bs' ≠ [] ∧ (bs'.getLast?.map (·.ts)) = some last') ∧ day ≤ day' := by
  intro fuel
  induction fuel with
  | zero =>
    intro day last bs day' last' bs' g hg
    unfold grow at hg
    split at hg
    · simp at hg
    · simp at hg; obtain ⟨rfl, rfl, rfl⟩ := hg
      exact ⟨g, by omega, ⟨[], by simp⟩, fun hc => by omega, Nat.le_refl _⟩
  | succ n ih =>
    intro day last bs day' last' bs' g hg
    unfold grow at hg
    split at hg
    · rename_i hle
      split at hg
      · rename_i ts hs
        have g2 := ginv_step h g hs
        obtain ⟨gi, hl, ⟨new, hnew, hemp⟩, hne, hd⟩ := ih _ _ _ _ _ _ g2 hg
        refine ⟨gi, hl, ⟨⟨ts, []⟩ :: new, by simp [hnew], ?_⟩, ?_, by omega⟩
        · intro b hb; simp at hb; rcases hb with hb | hb
          · subst hb; rfl
          · exact hemp b hb
        · intro _
          have hne' : bs' ≠ [] := by rw [hnew]; simp
          exact ⟨hne', gi.last hne'⟩
      · have g2 := ginv_skip (day := day) g
        obtain ⟨gi, hl, hpre, hne, hd⟩ := ih _ _ _ _ _ _ g2 hg
        exact ⟨gi, hl, hpre, fun _ => hne hle, by omega⟩
    · rename_i hgt
      simp at hg; obtain ⟨rfl, rfl, rfl⟩ := hg
      exact ⟨g, by omega, ⟨[], by simp⟩, fun hc => by omega, Nat.le_refl _⟩

theorem grow_stop (sc : Schedule) (lim : Int) (fuel day : Nat) (last : Int) (bs : List Bkt) (h : lim < last) :
    grow sc lim fuel day last bs = some (day, last, bs) := by
  have hn : ¬ last ≤ lim := by omega
  cases fuel <;> simp [grow, hn]

/-- `grow` terminates when some scheduled day within the fuel lies past the limit. -/
theorem grow_some_of_late (sc : Schedule) (lim : Int) :
    ∀ (fuel day : Nat) (last : Int) (bs : List Bkt),
      (∃ k, k < fuel ∧ ∃ ts, slot sc (day + k) = some ts ∧ lim < ts) →
      (grow sc lim fuel day last bs).isSome := by
  intro fuel
  induction fuel with
  | zero => intro day last bs ⟨k, hk, _⟩; omega
  | succ n ih =>
    intro day last bs ⟨k, hk, ts, hs, hlt⟩
    unfold grow
    split
    · cases k with
      | zero =>
        simp at hs
        rw [hs]
        simp only
        -- the next call sees last = ts > lim and stops
        rw [grow_stop _ _ _ _ _ _ hlt]; rfl
      | succ k =>
        have hs' : slot sc (day + 1 + k) = some ts := by rw [← hs]; congr 1; omega
        split
        · exact ih _ _ _ ⟨k, by omega, ts, hs', hlt⟩
        · exact ih _ _ _ ⟨k, by omega, ts, hs', hlt⟩
    · simp

theorem grow_total {sc : Schedule} (h : SchedOk sc) (lim : Int) (day : Nat) (last : Int) (bs : List Bkt) :
    (grow sc lim (growFuel lim day) day last bs).isSome := by
  apply grow_some_of_late
  -- the first day whose every second lies past the limit, or `day` if that is later
  let d0 : Nat := (lim / 86400 + 1 - (day : Int)).toNat
  obtain ⟨k, hk, ts, hs⟩ := slot_within_week h (day + d0)
  refine ⟨d0 + k, by unfold growFuel; omega, ts, by rw [← hs]; congr 1; omega, ?_⟩
  have hr := (slot_range h hs).1
  have : lim / 86400 + 1 ≤ ((day + d0 + k : Nat) : Int) := by push_cast; omega
  omega

/-! ### `dropOld` -/

theorem dropOld_spec (now : Int) : ∀ (bs bs' : List Bkt), dropOld now bs = some bs' →
    (∃ old, bs = old ++ bs' ∧ ∀ b ∈ old, b.ts < now) ∧ ∃ b rest, bs' = b :: rest ∧ now ≤ b.ts := by
  intro bs
  induction bs with
  | nil => intro bs' h; simp [dropOld] at h
  | cons b t ih =>
    intro bs' h
    unfold dropOld at h
    split at h
    · rename_i hlt
      obtain ⟨⟨old, ho, hall⟩, hb⟩ := ih _ h
      refine ⟨⟨b :: old, by simp [ho], ?_⟩, hb⟩
      intro x hx; simp at hx; rcases hx with hx | hx
      · subst hx; exact hlt
      · exact hall x hx
    · rename_i hge
      simp at h; subst h
      exact ⟨⟨[], by simp⟩, b, t, rfl, by omega⟩

theorem dropOld_some_of_mem (now : Int) : ∀ (bs : List Bkt), (∃ b ∈ bs, now ≤ b.ts) → (dropOld now bs).isSome := by
  intro bs
  induction bs with
  | nil => intro ⟨b, hb, _⟩; simp at hb
  | cons a t ih =>
    intro ⟨b, hb, hle⟩
    unfold dropOld
    split
    · rename_i hlt
      simp at hb
      rcases hb with hb | hb
      · subst hb; omega
      · exact ih ⟨b, hb, hle⟩
    · simp

/-! ### `argminLast` -/

theorem costLe_refl (a : Option Nat) : costLe a a = true := by
  cases a <;> simp [costLe]

theorem costLe_trans {a b c : Option Nat} (h1 : costLe a b = true) (h2 : costLe b c = true) : costLe a c = true := by
  cases a <;> cases b <;> cases c <;> simp_all [costLe] <;> omega

theorem costLe_total (a b : Option Nat) : costLe a b = true ∨ costLe b a = true := by
  cases a <;> cases b <;> simp [costLe] <;> omega

/-- Invariant of the scan: the best so far is at an index `< i`, its key is as stated, it is minimal among the
    keys seen, and every later index seen is strictly worse. -/
theorem argminLastAux_spec (all : List (Option Nat)) :
    ∀ (ks : List (Option Nat)) (i : Nat) (best : Option (Nat × Option Nat)),
      all.drop i = ks →
      (∀ j kj, best = some (j, kj) → j < i ∧ all[j]? = some kj ∧
        (∀ m, m < i → ∀ km, all[m]? = some km → costLe kj km = true) ∧
        (∀ m, j < m → m < i → ∀ km, all[m]? = some km → costLe km kj = false)) →
      (best = none → i = 0) →
      ∀ r kr, argminLastAux ks i best = some (r, kr) →
        r < all.length ∧ all[r]? = some kr ∧
        (∀ (m : Nat) km, all[m]? = some km → costLe kr km = true) ∧
        (∀ m, r < m → ∀ km, all[m]? = some km → costLe km kr = false) := by
  intro ks
  induction ks with
  | nil =>
    intro i best hdrop hb _ r kr hres
    simp [argminLastAux] at hres
    have hi : all.length ≤ i := by
      have : (all.drop i).length = all.length - i := List.length_drop
      rw [hdrop] at this; simp at this; omega
    obtain ⟨hj, hget, hmin, hlate⟩ := hb r kr hres
    refine ⟨?_, hget, ?_, ?_⟩
    · exact (List.getElem?_eq_some_iff.mp hget).1
    · intro m km hm
      have hml : m < all.length := (List.getElem?_eq_some_iff.mp hm).1
      exact hmin m (by omega) km hm
    · intro m hrm km hm
      have hml : m < all.length := (List.getElem?_eq_some_iff.mp hm).1
      exact hlate m hrm (by omega) km hm
  | cons k ks ih =>
    intro i best hdrop hb hnone r kr hres
    have hki : all[i]? = some k := by
      have : (all.drop i)[0]? = some k := by rw [hdrop]; rfl
      simpa using this
    have hdrop' : all.drop (i + 1) = ks := by
      have : (all.drop i).drop 1 = ks := by rw [hdrop]; rfl
      simpa [List.drop_drop, Nat.add_comm] using this
    cases best with
    | none =>
      have hi0 := hnone rfl
      subst hi0
      unfold argminLastAux at hres
      refine ih 1 (some (0, k)) hdrop' ?_ (by simp) r kr hres
      intro j kj hj
      simp at hj; obtain ⟨rfl, rfl⟩ := hj
      refine ⟨by omega, hki, ?_, ?_⟩
      · intro m hm km hkm
        have : m = 0 := by omega
        subst this; rw [hki] at hkm; simp at hkm; subst hkm; exact costLe_refl _
      · intro m h1 h2; omega
    | some bj =>
      obtain ⟨j, kj⟩ := bj
      obtain ⟨hji, hjget, hmin, hlate⟩ := hb j kj rfl
      unfold argminLastAux at hres
      by_cases hle : costLe k kj = true
      · rw [if_pos hle] at hres
        refine ih (i + 1) (some (i, k)) hdrop' ?_ (by simp) r kr hres
        intro j' kj' hj'
        simp at hj'; obtain ⟨rfl, rfl⟩ := hj'
        refine ⟨by omega, hki, ?_, ?_⟩
        · intro m hm km hkm
          by_cases hmi : m = i
          · subst hmi; rw [hki] at hkm; simp at hkm; subst hkm; exact costLe_refl _
          · exact costLe_trans hle (hmin m (by omega) km hkm)
        · intro m h1 h2; omega
      · rw [if_neg hle] at hres
        refine ih (i + 1) (some (j, kj)) hdrop' ?_ (by simp) r kr hres
        intro j' kj' hj'
        simp at hj'; obtain ⟨rfl, rfl⟩ := hj'
        refine ⟨by omega, hjget, ?_, ?_⟩
        · intro m hm km hkm
          by_cases hmi : m = i
          · subst hmi; rw [hki] at hkm; simp at hkm; subst hkm
            rcases costLe_total kj k with h | h
            · exact h
            · exact absurd h hle
          · exact hmin m (by omega) km hkm
        · intro m h1 h2 km hkm
          by_cases hmi : m = i
          · subst hmi; rw [hki] at hkm; simp at hkm; subst hkm
            simpa using hle
          · exact hlate m h1 (by omega) km hkm

/-- `min(reversed(l), key)`: an index of a minimal key, and every later index is strictly worse. -/
theorem argminLast_spec {keys : List (Option Nat)} {r : Nat} (h : argminLast keys = some r) :
    ∃ kr, keys[r]? = some kr ∧ (∀ (m : Nat) km, keys[m]? = some km → costLe kr km = true) ∧
      (∀ (m : Nat), r < m → ∀ km, keys[m]? = some km → costLe km kr = false) := by
  unfold argminLast at h
  cases hres : argminLastAux keys 0 none with
  | none => rw [hres] at h; simp at h
  | some p =>
    obtain ⟨r', kr⟩ := p
    rw [hres] at h; simp at h; subst h
    obtain ⟨_, hget, hmin, hlate⟩ :=
      argminLastAux_spec keys keys 0 none (by simp) (by intro j kj h; simp at h) (fun _ => rfl) _ _ hres
    exact ⟨kr, hget, hmin, hlate⟩

theorem argminLast_some {keys : List (Option Nat)} (h : keys ≠ []) : (argminLast keys).isSome := by
  cases keys with
  | nil => exact absurd rfl h
  | cons k ks =>
    unfold argminLast
    simp only [argminLastAux, Option.isSome_map]
    -- once a best exists the scan never loses it
    have : ∀ (l : List (Option Nat)) (i : Nat) (b : Nat × Option Nat), (argminLastAux l i (some b)).isSome := by
      intro l
      induction l with
      | nil => intro i b; simp [argminLastAux]
      | cons a t ih => intro i b; obtain ⟨j, kj⟩ := b; unfold argminLastAux; split <;> exact ih _ _
    exact this _ _ _

end TmVerif.Reboot
