/-
  Helper lemmas for C06 (queue order).  Core Lean only.
-/
import TmVerif.Queue.Model

namespace TmVerif.Queue

/-! ### the priority order of one allocation -/

theorem appLt_irrefl (a : App) : ¬ appLt a a := by
  unfold appLt; omega

theorem appLt_trans {a b c : App} (h1 : appLt a b) (h2 : appLt b c) : appLt a c := by
  unfold appLt at *; omega

theorem appLt_asymm {a b : App} (h : appLt a b) : ¬ appLt b a := by
  unfold appLt at *; omega

theorem appLe_of_lt {a b : App} (h : appLt a b) : appLe a b := appLt_asymm h

theorem appLe_refl (a : App) : appLe a a := appLt_irrefl a

theorem appLe_trans {a b c : App} (h1 : appLe a b) (h2 : appLe b c) : appLe a c := by
  unfold appLe appLt at *; omega

theorem appLe_total (a b : App) : appLe a b ∨ appLe b a := by
  unfold appLe appLt; omega

/-- Two instances with the same key are the same name. -/
theorem appLe_antisymm_id {a b : App} (h1 : appLe a b) (h2 : appLe b a) : a.id = b.id := by
  unfold appLe appLt at *; omega

theorem insertApp_perm (a : App) (l : List App) : (insertApp a l).Perm (a :: l) := by
  induction l with
  | nil => exact List.Perm.refl _
  | cons b l ih =>
    simp only [insertApp]
    split
    · exact ((List.Perm.cons b ih).trans (List.Perm.swap a b l))
    · exact List.Perm.refl _

theorem sortApps_perm (l : List App) : (sortApps l).Perm l := by
  induction l with
  | nil => exact List.Perm.refl _
  | cons a l ih => exact (insertApp_perm a _).trans (List.Perm.cons a ih)

theorem mem_sortApps {a : App} {l : List App} : a ∈ sortApps l ↔ a ∈ l :=
  (sortApps_perm l).mem_iff

theorem insertApp_sorted (a : App) (l : List App) (h : l.Pairwise appLe) :
    (insertApp a l).Pairwise appLe := by
  induction l with
  | nil => simp [insertApp]
  | cons b l ih =>
    simp only [insertApp]
    rw [List.pairwise_cons] at h
    split
    · rename_i hlt
      rw [List.pairwise_cons]
      refine ⟨?_, ih h.2⟩
      intro x hx
      rcases List.mem_cons.mp ((insertApp_perm a l).mem_iff.mp hx) with e | hx'
      · subst e; exact appLe_of_lt hlt
      · exact h.1 x hx'
    · rename_i hnlt
      rw [List.pairwise_cons]
      refine ⟨?_, List.pairwise_cons.mpr h⟩
      intro x hx
      rcases List.mem_cons.mp hx with e | hx
      · subst e; exact hnlt
      · exact appLe_trans hnlt (h.1 x hx)

/-- `sorted(..., key=_app_key)` is sorted by `(priority desc, running first, global order, name)`. -/
theorem sortApps_sorted (l : List App) : (sortApps l).Pairwise appLe := by
  induction l with
  | nil => exact List.Pairwise.nil
  | cons a l ih => exact insertApp_sorted a _ ih

/-! ### induction over allocation trees -/

section tree
variable {F : Type}

mutual
theorem Alloc.induct_aux {P : Alloc F → Prop}
    (h : ∀ r k a m ap s, (∀ t ∈ s, P t) → P (.node r k a m ap s)) : ∀ t, P t
  | .node r k a m ap s => h r k a m ap s (Alloc.induct_auxL h s)
theorem Alloc.induct_auxL {P : Alloc F → Prop}
    (h : ∀ r k a m ap s, (∀ t ∈ s, P t) → P (.node r k a m ap s)) : ∀ (s : List (Alloc F)), ∀ t ∈ s, P t
  | [] => fun _ ht => by cases ht
  | t :: l => fun x hx =>
    (List.mem_cons.mp hx).elim (fun e => e ▸ Alloc.induct_aux h t) (fun hx => Alloc.induct_auxL h l x hx)
end

/-- Structural induction on allocation trees. -/
theorem Alloc.induct {P : Alloc F → Prop}
    (h : ∀ r k a m ap s, (∀ t ∈ s, P t) → P (.node r k a m ap s)) (t : Alloc F) : P t :=
  Alloc.induct_aux h t

theorem allAppsL_eq (s : List (Alloc F)) : Alloc.allAppsL s = s.flatMap Alloc.allApps := by
  induction s with
  | nil => simp [Alloc.allAppsL]
  | cons t l ih => simp [Alloc.allAppsL, ih]

theorem allocsL_eq (s : List (Alloc F)) : Alloc.allocsL s = s.flatMap Alloc.allocs := by
  induction s with
  | nil => simp [Alloc.allocsL]
  | cons t l ih => simp [Alloc.allocsL, ih]

theorem utilQueues_eq (ops : ScoreOps F) (free : V3 F) (s : List (Alloc F)) :
    utilQueues ops free s = s.map (utilQueue ops free) := by
  induction s with
  | nil => simp [utilQueues]
  | cons t l ih => simp [utilQueues, ih]

theorem mem_allocs_self (t : Alloc F) : t ∈ t.allocs := by
  cases t; simp [Alloc.allocs]

theorem mem_allocs_node {A : Alloc F} {r k a m ap s} :
    A ∈ (Alloc.node r k a m ap s).allocs ↔ A = .node r k a m ap s ∨ ∃ t ∈ s, A ∈ t.allocs := by
  simp [Alloc.allocs, allocsL_eq, List.mem_flatMap]

end tree

/-! ### the scoring loops -/

section loops
variable {F : Type} (ops : ScoreOps F)

/-- What re-scoring keeps of an entry. -/
def Entry.core (e : Entry F) : Int × Bool × Int × App := (e.rank, e.pending, e.order, e.app)

/-- Shape every scored entry has: a priority-0 instance carries `(inf, inf)`, any other instance a
    finite `util_after`. -/
def Good (e : Entry F) : Prop :=
  (e.app.prio = 0 ∧ e.ub = .top ∧ e.ua = .top) ∨ (e.app.prio ≠ 0 ∧ ∃ x, e.ua = .fin x)

theorem scoreStep_good (res avail acc : V3 F) (ub : Score F) (a : App) :
    (a.prio = 0 ∧ (scoreStep ops res avail acc ub a).2.1 = .top ∧ (scoreStep ops res avail acc ub a).2.2 = .top) ∨
    (a.prio ≠ 0 ∧ ∃ x, (scoreStep ops res avail acc ub a).2.2 = .fin x) := by
  unfold scoreStep
  by_cases h : a.prio = 0
  · left; simp [h]
  · right; simp [h]

theorem privGo_map_app (rank adj : Int) (mu : Option F) (res avail : V3 F) (acc : V3 F) (ub : Score F)
    (l : List App) : (privGo ops rank adj mu res avail acc ub l).map (·.app) = l := by
  induction l generalizing acc ub with
  | nil => rfl
  | cons a l ih => simp [privGo, ih]

theorem privGo_good (rank adj : Int) (mu : Option F) (res avail : V3 F) (acc : V3 F) (ub : Score F)
    (l : List App) : ∀ e ∈ privGo ops rank adj mu res avail acc ub l, Good e := by
  induction l generalizing acc ub with
  | nil => intro e he; cases he
  | cons a l ih =>
    intro e he
    simp only [privGo, List.mem_cons] at he
    rcases he with rfl | he
    · exact scoreStep_good ops res avail acc ub a
    · exact ih _ _ e he

theorem rescoreGo_map_core (res avail : V3 F) (acc : V3 F) (ub : Score F) (q : List (Entry F)) :
    (rescoreGo ops res avail acc ub q).map Entry.core = q.map Entry.core := by
  induction q generalizing acc ub with
  | nil => rfl
  | cons e q ih => simp [rescoreGo, ih, Entry.core]

theorem rescoreGo_good (res avail : V3 F) (acc : V3 F) (ub : Score F) (q : List (Entry F)) :
    ∀ e ∈ rescoreGo ops res avail acc ub q, Good e := by
  induction q generalizing acc ub with
  | nil => intro e he; cases he
  | cons e0 q ih =>
    intro e he
    simp only [rescoreGo, List.mem_cons] at he
    rcases he with rfl | he
    · exact scoreStep_good ops res avail acc ub e0.app
    · exact ih _ _ e he

theorem rescore_map_core (tr free : V3 F) (q : List (Entry F)) :
    (rescore ops tr free q).map Entry.core = q.map Entry.core :=
  rescoreGo_map_core ops _ _ _ _ q

theorem rescore_good (tr free : V3 F) (q : List (Entry F)) : ∀ e ∈ rescore ops tr free q, Good e :=
  rescoreGo_good ops _ _ _ _ q

theorem map_app_of_core {q₁ q₂ : List (Entry F)} (h : q₁.map Entry.core = q₂.map Entry.core) :
    q₁.map (·.app) = q₂.map (·.app) := by
  have := congrArg (List.map (fun c : Int × Bool × Int × App => c.2.2.2)) h
  simpa [List.map_map, Entry.core, Function.comp_def] using this

theorem map_rank_of_core {q₁ q₂ : List (Entry F)} (h : q₁.map Entry.core = q₂.map Entry.core) :
    q₁.map (·.rank) = q₂.map (·.rank) := by
  have := congrArg (List.map (fun c : Int × Bool × Int × App => c.1)) h
  simpa [List.map_map, Entry.core, Function.comp_def] using this

/-- Entries of two lists with the same cores correspond. -/
theorem mem_of_core {q₁ q₂ : List (Entry F)} (h : q₁.map Entry.core = q₂.map Entry.core)
    {e : Entry F} (he : e ∈ q₁) : ∃ e' ∈ q₂, e'.core = e.core := by
  have : e.core ∈ q₁.map Entry.core := List.mem_map.mpr ⟨e, he, rfl⟩
  rw [h] at this
  obtain ⟨e', he', hc⟩ := List.mem_map.mp this
  exact ⟨e', he', hc⟩

end loops

/-! ### heapq.merge -/

section merge
variable {F : Type} (ops : ScoreOps F)

/-- `Pop qs e qs'`: `e` is the head of one of the queues and `qs'` is `qs` with that head removed. -/
inductive Pop {α : Type} : List (List α) → α → List (List α) → Prop
  | here (e : α) (t : List α) (qs : List (List α)) : Pop ((e :: t) :: qs) e (t :: qs)
  | there (q : List α) {qs : List (List α)} {e : α} {qs' : List (List α)} :
      Pop qs e qs' → Pop (q :: qs) e (q :: qs')

theorem popMin_pop {qs : List (List (Entry F))} {e : Entry F} {qs' : List (List (Entry F))}
    (h : popMin ops qs = some (e, qs')) : Pop qs e qs' := by
  induction qs generalizing e qs' with
  | nil => simp [popMin] at h
  | cons q qs ih =>
    cases q with
    | nil =>
      simp only [popMin] at h
      cases hp : popMin ops qs with
      | none => simp [hp] at h
      | some p =>
        obtain ⟨e1, qs1⟩ := p
        simp only [hp, Option.some.injEq, Prod.mk.injEq] at h
        obtain ⟨rfl, rfl⟩ := h
        exact Pop.there [] (ih hp)
    | cons hd t =>
      simp only [popMin] at h
      cases hp : popMin ops qs with
      | none =>
        simp only [hp, Option.some.injEq, Prod.mk.injEq] at h
        obtain ⟨rfl, rfl⟩ := h
        exact Pop.here _ _ _
      | some p =>
        obtain ⟨e1, qs1⟩ := p
        simp only [hp] at h
        split at h
        · simp only [Option.some.injEq, Prod.mk.injEq] at h
          obtain ⟨rfl, rfl⟩ := h
          exact Pop.there _ (ih hp)
        · simp only [Option.some.injEq, Prod.mk.injEq] at h
          obtain ⟨rfl, rfl⟩ := h
          exact Pop.here _ _ _

theorem popMin_none {qs : List (List (Entry F))} (h : popMin ops qs = none) : ∀ q ∈ qs, q = [] := by
  induction qs with
  | nil => intro q hq; cases hq
  | cons q qs ih =>
    cases q with
    | nil =>
      simp only [popMin] at h
      cases hp : popMin ops qs with
      | none =>
        intro q hq
        rcases List.mem_cons.mp hq with rfl | hq
        · rfl
        · exact ih hp q hq
      | some p => obtain ⟨e1, qs1⟩ := p; simp [hp] at h
    | cons hd t =>
      simp only [popMin] at h
      cases hp : popMin ops qs with
      | none => simp [hp] at h
      | some p =>
        obtain ⟨e1, qs1⟩ := p
        simp only [hp] at h
        split at h <;> simp at h

theorem Pop.perm {α : Type} {qs : List (List α)} {e : α} {qs' : List (List α)} (h : Pop qs e qs') :
    qs.flatten.Perm (e :: qs'.flatten) := by
  induction h with
  | here e t qs => simp
  | there q _ ih =>
    simp only [List.flatten_cons]
    exact (List.Perm.append_left q ih).trans (List.perm_middle)

theorem Pop.mem_old {α : Type} {qs : List (List α)} {e : α} {qs' : List (List α)} (h : Pop qs e qs')
    {q : List α} (hq : q ∈ qs) : q ∈ qs' ∨ ∃ t, q = e :: t ∧ t ∈ qs' := by
  induction h with
  | here e t qs =>
    rcases List.mem_cons.mp hq with rfl | hq
    · exact Or.inr ⟨t, rfl, List.mem_cons_self⟩
    · exact Or.inl (List.mem_cons_of_mem _ hq)
  | there q0 _ ih =>
    rcases List.mem_cons.mp hq with rfl | hq
    · exact Or.inl List.mem_cons_self
    · rcases ih hq with h1 | ⟨t, rfl, ht⟩
      · exact Or.inl (List.mem_cons_of_mem _ h1)
      · exact Or.inr ⟨t, rfl, List.mem_cons_of_mem _ ht⟩

theorem Pop.mem_new {α : Type} {qs : List (List α)} {e : α} {qs' : List (List α)} (h : Pop qs e qs')
    {q' : List α} (hq : q' ∈ qs') : q' ∈ qs ∨ (e :: q') ∈ qs := by
  induction h with
  | here e t qs =>
    rcases List.mem_cons.mp hq with rfl | hq
    · exact Or.inr List.mem_cons_self
    · exact Or.inl (List.mem_cons_of_mem _ hq)
  | there q0 _ ih =>
    rcases List.mem_cons.mp hq with rfl | hq
    · exact Or.inl List.mem_cons_self
    · rcases ih hq with h1 | h1
      · exact Or.inl (List.mem_cons_of_mem _ h1)
      · exact Or.inr (List.mem_cons_of_mem _ h1)

/-- The popped element is a head. -/
theorem Pop.head_mem {α : Type} {qs : List (List α)} {e : α} {qs' : List (List α)} (h : Pop qs e qs') :
    ∃ t, (e :: t) ∈ qs := by
  induction h with
  | here e t qs => exact ⟨t, List.mem_cons_self⟩
  | there q0 _ ih => obtain ⟨t, ht⟩ := ih; exact ⟨t, List.mem_cons_of_mem _ ht⟩

theorem totalLen_eq (qs : List (List (Entry F))) : totalLen qs = qs.flatten.length := by
  simp [totalLen, List.length_flatten]

theorem flatten_nil_of_all_nil {α : Type} {qs : List (List α)} (h : ∀ q ∈ qs, q = []) : qs.flatten = [] := by
  induction qs with
  | nil => rfl
  | cons q qs ih =>
    have := h q List.mem_cons_self
    subst this
    simpa using ih (fun q hq => h q (List.mem_cons_of_mem _ hq))

/-- The fuel is never exhausted: with at least `totalLen` fuel, the merge emits every entry. -/
theorem mergeFuel_perm (n : Nat) (qs : List (List (Entry F))) (hn : totalLen qs ≤ n) :
    (mergeFuel ops n qs).Perm qs.flatten := by
  induction n generalizing qs with
  | zero =>
    rw [totalLen_eq] at hn
    have : qs.flatten = [] := List.eq_nil_of_length_eq_zero (by omega)
    rw [this]; exact List.Perm.refl _
  | succ n ih =>
    simp only [mergeFuel]
    cases hp : popMin ops qs with
    | none => rw [flatten_nil_of_all_nil (popMin_none ops hp)]
    | some p =>
      obtain ⟨e, qs'⟩ := p
      have hpop := popMin_pop ops hp
      have hlen : totalLen qs = totalLen qs' + 1 := by
        rw [totalLen_eq, totalLen_eq, hpop.perm.length_eq]; rfl
      exact ((List.Perm.cons e (ih qs' (by omega))).trans hpop.perm.symm)

theorem merge_perm (qs : List (List (Entry F))) : (merge ops qs).Perm qs.flatten :=
  mergeFuel_perm ops _ qs (Nat.le_refl _)

/-- Every input is a subsequence of the output: the merge never reorders one input. -/
theorem mergeFuel_sublist (n : Nat) (qs : List (List (Entry F))) (hn : totalLen qs ≤ n)
    {q : List (Entry F)} (hq : q ∈ qs) : q.Sublist (mergeFuel ops n qs) := by
  induction n generalizing qs q with
  | zero =>
    rw [totalLen_eq] at hn
    have hnil : qs.flatten = [] := List.eq_nil_of_length_eq_zero (by omega)
    have : q = [] := by
      cases q with
      | nil => rfl
      | cons x t =>
        have : x ∈ qs.flatten := List.mem_flatten.mpr ⟨_, hq, List.mem_cons_self⟩
        rw [hnil] at this; cases this
    subst this; exact List.nil_sublist _
  | succ n ih =>
    simp only [mergeFuel]
    cases hp : popMin ops qs with
    | none => rw [popMin_none ops hp q hq]; exact List.nil_sublist _
    | some p =>
      obtain ⟨e, qs'⟩ := p
      have hpop := popMin_pop ops hp
      have hlen : totalLen qs = totalLen qs' + 1 := by
        rw [totalLen_eq, totalLen_eq, hpop.perm.length_eq]; rfl
      rcases hpop.mem_old hq with h1 | ⟨t, rfl, ht⟩
      · exact (ih qs' (by omega) h1).cons e
      · exact (ih qs' (by omega) ht).cons_cons e

theorem merge_sublist (qs : List (List (Entry F))) {q : List (Entry F)} (hq : q ∈ qs) :
    q.Sublist (merge ops qs) :=
  mergeFuel_sublist ops _ qs (Nat.le_refl _) hq

theorem mem_mergeFuel (n : Nat) (qs : List (List (Entry F))) {x : Entry F}
    (hx : x ∈ mergeFuel ops n qs) : ∃ q ∈ qs, x ∈ q := by
  induction n generalizing qs with
  | zero => simp [mergeFuel] at hx
  | succ n ih =>
    simp only [mergeFuel] at hx
    cases hp : popMin ops qs with
    | none => simp [hp] at hx
    | some p =>
      obtain ⟨e, qs'⟩ := p
      have hpop := popMin_pop ops hp
      simp only [hp, List.mem_cons] at hx
      rcases hx with rfl | hx
      · obtain ⟨t, ht⟩ := hpop.head_mem
        exact ⟨_, ht, List.mem_cons_self⟩
      · obtain ⟨q', hq', hxq⟩ := ih qs' hx
        rcases hpop.mem_new hq' with h1 | h1
        · exact ⟨q', h1, hxq⟩
        · exact ⟨_, h1, List.mem_cons_of_mem _ hxq⟩

/-! #### order invariants of the merge -/

/-- `a` may precede `b`: rank does not decrease, and within one rank a priority-0 instance is
    only followed by priority-0 instances. -/
def Ord (a b : Entry F) : Prop :=
  a.rank ≤ b.rank ∧ (a.rank = b.rank → a.app.prio = 0 → b.app.prio = 0)

theorem Ord.refl (a : Entry F) : Ord a a := ⟨Int.le_refl _, fun _ h => h⟩

theorem Ord.trans {a b c : Entry F} (h1 : Ord a b) (h2 : Ord b c) : Ord a c := by
  refine ⟨Int.le_trans h1.1 h2.1, ?_⟩
  intro he h0
  have hab : a.rank = b.rank := by have := h1.1; have := h2.1; omega
  have hbc : b.rank = c.rank := by omega
  exact h2.2 hbc (h1.2 hab h0)

theorem keyLt_rank_le {a b : Entry F} (h : keyLt ops a b = true) : a.rank ≤ b.rank := by
  unfold keyLt at h
  split at h
  · exact Int.le_of_lt (of_decide_eq_true h)
  · rename_i he; simp at he; omega

theorem keyLt_false_rank_le {a b : Entry F} (h : keyLt ops a b = false) : b.rank ≤ a.rank := by
  unfold keyLt at h
  split at h
  · have := of_decide_eq_false h; omega
  · rename_i he; simp at he; omega

/-- Same rank: a scored non-priority-0 entry is strictly smaller than a priority-0 entry.
    Needs only that `inf` is the largest score. -/
theorem keyLt_nonzero_zero {a b : Entry F} (ha : Good a) (hb : Good b) (hr : a.rank = b.rank)
    (ha0 : a.app.prio ≠ 0) (hb0 : b.app.prio = 0) : keyLt ops a b = true ∧ keyLt ops b a = false := by
  rcases ha with ⟨h, _⟩ | ⟨_, x, hax⟩
  · exact absurd h ha0
  rcases hb with ⟨_, hbu, hba⟩ | ⟨h, _⟩
  case inr.inr => exact absurd hb0 h
  unfold keyLt
  simp only [hr, ne_eq, not_true_eq_false, ↓reduceIte, hbu, hba, hax]
  cases hub : a.ub with
  | fin y => simp [Score.eq, Score.le, Score.lt]
  | top => simp [Score.eq, Score.le, Score.lt]

/-- A relation between entries that the merge respects: reflexive, transitive, implied by the
    outcome of the key comparison (for scored entries), and a function of the cores only. -/
structure MergeRel (R : Entry F → Entry F → Prop) : Prop where
  refl : ∀ a, R a a
  trans : ∀ {a b c}, R a b → R b c → R a c
  of_lt : ∀ {a b}, Good a → Good b → keyLt ops a b = true → R a b
  of_not_lt : ∀ {a b}, Good a → Good b → keyLt ops a b = false → R b a
  core : ∀ {a b a' b'}, Entry.core a = Entry.core a' → Entry.core b = Entry.core b' → R a b → R a' b'

theorem ordRel : MergeRel ops (Ord (F := F)) where
  refl := Ord.refl
  trans := Ord.trans
  of_lt := by
    intro a b ha hb hlt
    refine ⟨keyLt_rank_le ops hlt, ?_⟩
    intro hr he0
    by_cases hh : b.app.prio = 0
    · exact hh
    · have := (keyLt_nonzero_zero ops hb ha hr.symm hh he0).2
      rw [this] at hlt; cases hlt
  of_not_lt := by
    intro a b ha hb hnlt
    refine ⟨keyLt_false_rank_le ops hnlt, ?_⟩
    intro hr he0
    by_cases hh : a.app.prio = 0
    · exact hh
    · have := (keyLt_nonzero_zero ops ha hb hr.symm hh he0).1
      rw [this] at hnlt; cases hnlt
  core := by
    intro a b a' b' ha hb h
    simp only [Entry.core, Prod.mk.injEq] at ha hb
    unfold Ord at *
    rw [← ha.1, ← hb.1, ← ha.2.2.2, ← hb.2.2.2]; exact h

/-- Rank order alone. -/
def RankLe (a b : Entry F) : Prop := a.rank ≤ b.rank

theorem rankRel : MergeRel ops (RankLe (F := F)) where
  refl a := Int.le_refl _
  trans h1 h2 := Int.le_trans h1 h2
  of_lt _ _ hlt := keyLt_rank_le ops hlt
  of_not_lt _ _ hnlt := keyLt_false_rank_le ops hnlt
  core := by
    intro a b a' b' ha hb h
    simp only [Entry.core, Prod.mk.injEq] at ha hb
    unfold RankLe at *
    rw [← ha.1, ← hb.1]; exact h

variable {R : Entry F → Entry F → Prop} (mr : MergeRel ops R)
include mr

/-- The popped entry may precede every head. -/
theorem popMin_min {qs : List (List (Entry F))} (hg : ∀ q ∈ qs, ∀ x ∈ q, Good x)
    {e : Entry F} {qs' : List (List (Entry F))} (h : popMin ops qs = some (e, qs')) :
    ∀ hd t, (hd :: t) ∈ qs → R e hd := by
  induction qs generalizing e qs' with
  | nil => simp [popMin] at h
  | cons q qs ih =>
    have hg' : ∀ q ∈ qs, ∀ x ∈ q, Good x := fun q hq => hg q (List.mem_cons_of_mem _ hq)
    cases q with
    | nil =>
      simp only [popMin] at h
      cases hp : popMin ops qs with
      | none => simp [hp] at h
      | some p =>
        obtain ⟨e1, qs1⟩ := p
        simp only [hp, Option.some.injEq, Prod.mk.injEq] at h
        obtain ⟨rfl, rfl⟩ := h
        intro hd t hm
        rcases List.mem_cons.mp hm with hm | hm
        · cases hm
        · exact ih hg' hp hd t hm
    | cons h0 t0 =>
      have hgh0 : Good h0 := hg _ List.mem_cons_self h0 List.mem_cons_self
      simp only [popMin] at h
      cases hp : popMin ops qs with
      | none =>
        simp only [hp, Option.some.injEq, Prod.mk.injEq] at h
        obtain ⟨rfl, rfl⟩ := h
        intro hd t hm
        rcases List.mem_cons.mp hm with hm | hm
        · cases hm; exact mr.refl _
        · have := popMin_none ops hp _ hm; cases this
      | some p =>
        obtain ⟨e1, qs1⟩ := p
        have hge1 : Good e1 := by
          obtain ⟨t, ht⟩ := (popMin_pop ops hp).head_mem
          exact hg' _ ht e1 List.mem_cons_self
        have ih1 := ih hg' hp
        simp only [hp] at h
        split at h
        · rename_i hlt
          simp only [Option.some.injEq, Prod.mk.injEq] at h
          rw [← h.1]
          intro hd t hm
          rcases List.mem_cons.mp hm with hm | hm
          · rw [(List.cons.inj hm).1]
            exact mr.of_lt hge1 hgh0 hlt
          · exact ih1 hd t hm
        · rename_i hnlt
          have hnlt' : keyLt ops e1 h0 = false := by simpa using hnlt
          simp only [Option.some.injEq, Prod.mk.injEq] at h
          rw [← h.1]
          have hoe : R h0 e1 := mr.of_not_lt hge1 hgh0 hnlt'
          intro hd t hm
          rcases List.mem_cons.mp hm with hm | hm
          · rw [(List.cons.inj hm).1]; exact mr.refl _
          · exact mr.trans hoe (ih1 hd t hm)

theorem mergeFuel_pairwise (n : Nat) (qs : List (List (Entry F)))
    (hg : ∀ q ∈ qs, ∀ x ∈ q, Good x) (hs : ∀ q ∈ qs, q.Pairwise R) :
    (mergeFuel ops n qs).Pairwise R := by
  induction n generalizing qs with
  | zero => exact List.Pairwise.nil
  | succ n ih =>
    simp only [mergeFuel]
    cases hp : popMin ops qs with
    | none => exact List.Pairwise.nil
    | some p =>
      obtain ⟨e, qs'⟩ := p
      have hpop := popMin_pop ops hp
      have hmin := popMin_min ops mr hg hp
      -- every entry of every queue may follow `e`
      have hall : ∀ q ∈ qs, ∀ x ∈ q, R e x := by
        intro q hq x hx
        cases q with
        | nil => cases hx
        | cons hd t =>
          have h1 := hmin hd t hq
          rcases List.mem_cons.mp hx with rfl | hx
          · exact h1
          · exact mr.trans h1 ((List.pairwise_cons.mp (hs _ hq)).1 x hx)
      have hg' : ∀ q ∈ qs', ∀ x ∈ q, Good x := by
        intro q hq x hx
        rcases hpop.mem_new hq with h1 | h1
        · exact hg q h1 x hx
        · exact hg _ h1 x (List.mem_cons_of_mem _ hx)
      have hs' : ∀ q ∈ qs', q.Pairwise R := by
        intro q hq
        rcases hpop.mem_new hq with h1 | h1
        · exact hs q h1
        · exact (List.pairwise_cons.mp (hs _ h1)).2
      rw [List.pairwise_cons]
      refine ⟨?_, ih qs' hg' hs'⟩
      intro x hx
      obtain ⟨q', hq', hxq⟩ := mem_mergeFuel ops n qs' hx
      rcases hpop.mem_new hq' with h1 | h1
      · exact hall q' h1 x hxq
      · exact hall _ h1 x (List.mem_cons_of_mem _ hxq)

theorem merge_pairwise (qs : List (List (Entry F)))
    (hg : ∀ q ∈ qs, ∀ x ∈ q, Good x) (hs : ∀ q ∈ qs, q.Pairwise R) : (merge ops qs).Pairwise R :=
  mergeFuel_pairwise ops mr _ qs hg hs

/-- A relation that only looks at cores transfers along equal cores. -/
theorem pairwise_of_core {q₁ q₂ : List (Entry F)} (h : q₁.map Entry.core = q₂.map Entry.core)
    (h2 : q₂.Pairwise R) : q₁.Pairwise R := by
  induction q₁ generalizing q₂ with
  | nil => exact List.Pairwise.nil
  | cons a l₁ ih =>
    cases q₂ with
    | nil => simp at h
    | cons b l₂ =>
      simp only [List.map_cons, List.cons.injEq] at h
      rw [List.pairwise_cons] at h2 ⊢
      refine ⟨?_, ih h.2 h2.2⟩
      intro x hx
      obtain ⟨y, hy, hc⟩ := mem_of_core h.2 hx
      exact mr.core h.1.symm hc (h2.1 y hy)

end merge


/-! ### the whole tree -/

section whole
variable {F : Type} (ops : ScoreOps F)

theorem privQueue_map_app (A : Alloc F) : (privQueue ops A).map (·.app) = sortApps A.apps :=
  privGo_map_app ops _ _ _ _ _ _ _ _

theorem privQueue_good (A : Alloc F) : ∀ e ∈ privQueue ops A, Good e :=
  privGo_good ops _ _ _ _ _ _ _ _

theorem perm_flatMap_congr {α β : Type} (l : List α) (f g : α → List β) (h : ∀ a ∈ l, (f a).Perm (g a)) :
    (l.flatMap f).Perm (l.flatMap g) := by
  induction l with
  | nil => exact List.Perm.refl _
  | cons a l ih =>
    simp only [List.flatMap_cons]
    exact (h a List.mem_cons_self).append (ih (fun b hb => h b (List.mem_cons_of_mem _ hb)))

/-- The queue of a node, unfolded. -/
theorem utilQueue_node (free : V3 F) (r : V3 Int) (k a : Int) (m : Option F) (ap : List App)
    (s : List (Alloc F)) :
    utilQueue ops free (.node r k a m ap s) =
      rescore ops (totalReserved ops (.node r k a m ap s)) free
        (merge ops (s.map (utilQueue ops free) ++ [privQueue ops (.node r k a m ap s)])) := by
  rw [utilQueue, utilQueues_eq]

theorem utilQueue_good (free : V3 F) (t : Alloc F) : ∀ e ∈ utilQueue ops free t, Good e := by
  cases t with
  | node r k a m ap s => rw [utilQueue_node]; exact rescore_good ops _ _ _

/-- Each instance of the tree appears exactly once in the queue. -/
theorem utilQueue_perm (free : V3 F) (t : Alloc F) :
    ((utilQueue ops free t).map (·.app)).Perm t.allApps := by
  induction t using Alloc.induct with
  | h r k a m ap s ih =>
    rw [utilQueue_node, map_app_of_core (rescore_map_core ops _ _ _)]
    refine ((merge_perm ops _).map _).trans ?_
    rw [List.flatten_append, List.map_append]
    simp only [List.flatten_cons, List.flatten_nil, List.append_nil]
    rw [privQueue_map_app]
    simp only [Alloc.allApps, Alloc.apps, allAppsL_eq]
    refine List.perm_append_comm.trans ((sortApps_perm ap).append ?_)
    rw [List.map_flatten, List.map_map, ← List.flatMap_def]
    exact perm_flatMap_congr s _ _ (fun t ht => ih t ht)

/-- The priority-sorted list of every allocation of the tree is a subsequence of the queue. -/
theorem sortApps_sublist_utilQueue (free : V3 F) (t : Alloc F) {A : Alloc F} (hA : A ∈ t.allocs) :
    (sortApps A.apps).Sublist ((utilQueue ops free t).map (·.app)) := by
  induction t using Alloc.induct with
  | h r k a m ap s ih =>
    rw [utilQueue_node, map_app_of_core (rescore_map_core ops _ _ _)]
    rcases mem_allocs_node.mp hA with rfl | ⟨t, ht, hAt⟩
    · rw [← privQueue_map_app ops]
      exact (merge_sublist ops _ (List.mem_append_right _ List.mem_cons_self)).map _
    · refine (ih t ht hAt).trans ?_
      exact (merge_sublist ops _ (List.mem_append_left _ (List.mem_map.mpr ⟨t, ht, rfl⟩))).map _

/-- Ranks and instances of the queue come from the private queues of the tree's allocations. -/
theorem utilQueue_source (free : V3 F) (t : Alloc F) {e : Entry F} (he : e ∈ utilQueue ops free t) :
    ∃ A ∈ t.allocs, ∃ e' ∈ privQueue ops A, e'.core = e.core := by
  induction t using Alloc.induct generalizing e with
  | h r k a m ap s ih =>
    rw [utilQueue_node] at he
    obtain ⟨e1, he1, hc1⟩ := mem_of_core (rescore_map_core ops _ _ _) he
    obtain ⟨q, hq, he1q⟩ := List.mem_flatten.mp ((merge_perm ops _).mem_iff.mp he1)
    rcases List.mem_append.mp hq with hq | hq
    · obtain ⟨t, ht, rfl⟩ := List.mem_map.mp hq
      obtain ⟨A, hA, e', he', hc⟩ := ih t ht he1q
      exact ⟨A, mem_allocs_node.mpr (Or.inr ⟨t, ht, hA⟩), e', he', hc.trans hc1⟩
    · simp only [List.mem_singleton] at hq
      subst hq
      exact ⟨_, mem_allocs_self _, e1, he1q, hc1⟩

/-- Conversely every entry of a private queue reaches the final queue with its rank. -/
theorem utilQueue_of_priv (free : V3 F) (t : Alloc F) {A : Alloc F} (hA : A ∈ t.allocs)
    {e' : Entry F} (he' : e' ∈ privQueue ops A) : ∃ e ∈ utilQueue ops free t, e.core = e'.core := by
  induction t using Alloc.induct generalizing e' with
  | h r k a m ap s ih =>
    rw [utilQueue_node]
    have key : ∀ e1, e1 ∈ (s.map (utilQueue ops free) ++ [privQueue ops (.node r k a m ap s)]).flatten →
        ∃ e ∈ rescore ops (totalReserved ops (.node r k a m ap s)) free
          (merge ops (s.map (utilQueue ops free) ++ [privQueue ops (.node r k a m ap s)])), e.core = e1.core := by
      intro e1 h1
      have h2 := (merge_perm ops _).mem_iff.mpr h1
      obtain ⟨e, he, hc⟩ := mem_of_core (rescore_map_core ops _ _ _).symm h2
      exact ⟨e, he, hc⟩
    rcases mem_allocs_node.mp hA with rfl | ⟨t, ht, hAt⟩
    · exact key e' (List.mem_flatten.mpr ⟨_, List.mem_append_right _ List.mem_cons_self, he'⟩)
    · obtain ⟨e1, he1, hc1⟩ := ih t ht hAt he'
      obtain ⟨e, he, hc⟩ := key e1 (List.mem_flatten.mpr
        ⟨_, List.mem_append_left _ (List.mem_map.mpr ⟨t, ht, rfl⟩), he1⟩)
      exact ⟨e, he, hc.trans hc1⟩

/-- Any merge-respecting relation holds pairwise along the whole queue as soon as it holds along
    the private queue of every allocation of the tree. -/
theorem utilQueue_pairwise {R : Entry F → Entry F → Prop} (mr : MergeRel ops R) (free : V3 F)
    (t : Alloc F) (hp : ∀ A ∈ t.allocs, (privQueue ops A).Pairwise R) :
    (utilQueue ops free t).Pairwise R := by
  induction t using Alloc.induct with
  | h r k a m ap s ih =>
    rw [utilQueue_node]
    refine pairwise_of_core ops mr (rescore_map_core ops _ _ _) (merge_pairwise ops mr _ ?_ ?_)
    · intro q hq
      rcases List.mem_append.mp hq with hq | hq
      · obtain ⟨t, _, rfl⟩ := List.mem_map.mp hq
        exact utilQueue_good ops free t
      · simp only [List.mem_singleton] at hq; subst hq
        exact privQueue_good ops _
    · intro q hq
      rcases List.mem_append.mp hq with hq | hq
      · obtain ⟨t, ht, rfl⟩ := List.mem_map.mp hq
        exact ih t ht (fun A hA => hp A (mem_allocs_node.mpr (Or.inr ⟨t, ht, hA⟩)))
      · simp only [List.mem_singleton] at hq; subst hq
        exact hp _ (mem_allocs_self _)

/-- The private queue satisfies `Ord` when its ranks are sorted and priorities are not negative. -/
theorem privQueue_ord (A : Alloc F) (hr : ((privQueue ops A).map (·.rank)).Pairwise (· ≤ ·))
    (hprio : ∀ a ∈ A.apps, 0 ≤ a.prio) : (privQueue ops A).Pairwise Ord := by
  have h1 : (privQueue ops A).Pairwise (fun a b => a.rank ≤ b.rank) := List.pairwise_map.mp hr
  have h2 : (privQueue ops A).Pairwise (fun a b => appLe a.app b.app) := by
    have := sortApps_sorted A.apps
    rw [← privQueue_map_app ops A] at this
    exact List.pairwise_map.mp this
  refine List.Pairwise.imp_of_mem ?_ (h1.and h2)
  intro a b ha hb hab
  refine ⟨hab.1, fun _ h0 => ?_⟩
  have hb' : b.app ∈ A.apps := by
    have : b.app ∈ (privQueue ops A).map (·.app) := List.mem_map.mpr ⟨b, hb, rfl⟩
    rw [privQueue_map_app] at this
    exact mem_sortApps.mp this
  have := hprio _ hb'
  have hle := hab.2
  unfold appLe appLt at hle
  omega

theorem mem_allocs_apps_subset {t A : Alloc F} (hA : A ∈ t.allocs) : ∀ a ∈ A.apps, a ∈ t.allApps := by
  induction t using Alloc.induct with
  | h r k a m ap s ih =>
    intro x hx
    simp only [Alloc.allApps, allAppsL_eq, List.mem_append, List.mem_flatMap]
    rcases mem_allocs_node.mp hA with rfl | ⟨t, ht, hAt⟩
    · exact Or.inl hx
    · exact Or.inr ⟨t, ht, ih t ht hAt x hx⟩

/-- A subsequence that contains everything satisfying `p`, and only that, is the filter. -/
theorem filter_eq_of_sublist {α : Type} (p : α → Bool) {l₁ l₂ : List α} (hs : l₁.Sublist l₂)
    (hnd : l₂.Nodup) (h1 : ∀ x ∈ l₁, p x = true) (h2 : ∀ x ∈ l₂, p x = true → x ∈ l₁) :
    l₂.filter p = l₁ := by
  induction hs with
  | slnil => rfl
  | @cons l₁ l₂ a hs ih =>
    rw [List.nodup_cons] at hnd
    have hpa : p a = false := by
      cases hpa : p a with
      | false => rfl
      | true => exact absurd (hs.subset (h2 a List.mem_cons_self hpa)) hnd.1
    rw [List.filter_cons_of_neg (by simp [hpa])]
    exact ih hnd.2 h1 (fun x hx hpx => h2 x (List.mem_cons_of_mem _ hx) hpx)
  | @cons_cons l₁ l₂ a hs ih =>
    rw [List.nodup_cons] at hnd
    rw [List.filter_cons_of_pos (h1 a List.mem_cons_self)]
    congr 1
    refine ih hnd.2 (fun x hx => h1 x (List.mem_cons_of_mem _ hx)) ?_
    intro x hx hpx
    rcases List.mem_cons.mp (h2 x (List.mem_cons_of_mem _ hx) hpx) with rfl | h
    · exact absurd hx hnd.1
    · exact h

theorem nodup_of_map_nodup {α β : Type} (f : α → β) {l : List α} (h : (l.map f).Nodup) : l.Nodup := by
  induction l with
  | nil => exact List.nodup_nil
  | cons a l ih =>
    simp only [List.map_cons, List.nodup_cons] at h ⊢
    exact ⟨fun ha => h.1 (List.mem_map.mpr ⟨a, ha, rfl⟩), ih h.2⟩

theorem eq_of_map_nodup {α β : Type} (f : α → β) {l : List α} (h : (l.map f).Nodup) {a b : α}
    (ha : a ∈ l) (hb : b ∈ l) (hf : f a = f b) : a = b := by
  induction l with
  | nil => cases ha
  | cons c l ih =>
    simp only [List.map_cons, List.nodup_cons] at h
    rcases List.mem_cons.mp ha with ea | ha <;> rcases List.mem_cons.mp hb with eb | hb
    · rw [ea, eb]
    · exact absurd (List.mem_map.mpr ⟨b, hb, by rw [← hf, ea]⟩) h.1
    · exact absurd (List.mem_map.mpr ⟨a, ha, by rw [hf, eb]⟩) h.1
    · exact ih h.2 ha hb

end whole


/-! ### the private queue in detail: cumulative demand, rank, sortedness of ranks -/

section priv
variable {F : Type} (ops : ScoreOps F)

/-- State `(acc_demand, util_before)` of the scoring loop after a prefix. -/
def loopState (res avail : V3 F) : V3 F → Score F → List App → V3 F × Score F
  | acc, ub, [] => (acc, ub)
  | acc, ub, a :: l =>
    loopState res avail (scoreStep ops res avail acc ub a).1 (scoreStep ops res avail acc ub a).2.2 l

/-- Cumulative demand, added up in queue order with the model's `add`. -/
def accFrom (acc : V3 F) (l : List App) : V3 F :=
  l.foldl (fun s a => vadd ops s (vofInt ops a.demand)) acc

theorem privGo_append (rank adj : Int) (mu : Option F) (res avail : V3 F) (acc : V3 F) (ub : Score F)
    (pre post : List App) :
    privGo ops rank adj mu res avail acc ub (pre ++ post) =
      privGo ops rank adj mu res avail acc ub pre ++
      privGo ops rank adj mu res avail (loopState ops res avail acc ub pre).1
        (loopState ops res avail acc ub pre).2 post := by
  induction pre generalizing acc ub with
  | nil => rfl
  | cons a l ih => simp [privGo, loopState, ih]

theorem scoreStep_fst (res avail acc : V3 F) (ub : Score F) (a : App) :
    (scoreStep ops res avail acc ub a).1 = vadd ops acc (vofInt ops a.demand) := by
  unfold scoreStep; split <;> rfl

theorem scoreStep_nonzero (res avail acc : V3 F) (ub : Score F) (a : App) (h : a.prio ≠ 0) :
    scoreStep ops res avail acc ub a =
      (vadd ops acc (vofInt ops a.demand), ub,
       .fin (util ops (vadd ops acc (vofInt ops a.demand)) res avail)) := by
  unfold scoreStep; simp [h]

theorem scoreStep_zero (res avail acc : V3 F) (ub : Score F) (a : App) (h : a.prio = 0) :
    scoreStep ops res avail acc ub a = (vadd ops acc (vofInt ops a.demand), .top, .top) := by
  unfold scoreStep; simp [h]

theorem loopState_nonzero (res avail : V3 F) (acc : V3 F) (ub : Score F) (pre : List App)
    (hpre : ∀ b ∈ pre, b.prio ≠ 0) (hub : ub = .fin (util ops acc res avail)) :
    loopState ops res avail acc ub pre =
      (accFrom ops acc pre, .fin (util ops (accFrom ops acc pre) res avail)) := by
  induction pre generalizing acc ub with
  | nil => simp [loopState, accFrom, hub]
  | cons a l ih =>
    have ha := hpre a List.mem_cons_self
    simp only [loopState, scoreStep_nonzero ops res avail acc ub a ha, accFrom, List.foldl_cons]
    exact ih _ _ (fun b hb => hpre b (List.mem_cons_of_mem _ hb)) rfl

/-- The entry of an instance that has only non-zero priorities in front of it: both scores are
    the utilisation of the cumulative demand (before / after adding its own). -/
theorem privQueue_entry (A : Alloc F) (pre : List App) (a : App) (post : List App)
    (hs : sortApps A.apps = pre ++ a :: post) (hpre : ∀ b ∈ pre, b.prio ≠ 0) (ha : a.prio ≠ 0) :
    let res := vofInt ops A.reserved
    let avail := vadd ops res (veps ops)
    let accB := accFrom ops (vzero ops) pre
    let accA := vadd ops accB (vofInt ops a.demand)
    ∃ e ∈ privQueue ops A, e.app = a ∧ e.ub = .fin (util ops accB res avail) ∧
      e.ua = .fin (util ops accA res avail) ∧
      e.rank = privRank ops A.rank A.rankAdj A.maxUtil e.ub e.ua := by
  intro res avail accB accA
  unfold privQueue
  rw [hs, privGo_append, loopState_nonzero ops _ _ _ _ pre hpre rfl]
  simp only [privGo, scoreStep_nonzero ops _ _ _ _ a ha]
  exact ⟨_, List.mem_append_right _ List.mem_cons_self, rfl, rfl, rfl, rfl⟩

/-- The entry of a priority-0 instance. -/
theorem privQueue_entry_zero (A : Alloc F) (pre : List App) (a : App) (post : List App)
    (hs : sortApps A.apps = pre ++ a :: post) (ha : a.prio = 0) :
    ∃ e ∈ privQueue ops A, e.app = a ∧ e.ub = .top ∧ e.ua = .top ∧
      e.rank = privRank ops A.rank A.rankAdj A.maxUtil .top .top := by
  unfold privQueue
  rw [hs, privGo_append]
  simp only [privGo, scoreStep_zero ops _ _ _ _ a ha]
  exact ⟨_, List.mem_append_right _ List.mem_cons_self, rfl, rfl, rfl, rfl⟩

/-- Laws of a total preorder for Python's `<=` on the number type. -/
structure OrderLaws (ops : ScoreOps F) : Prop where
  le_refl : ∀ a, ops.le a a = true
  le_trans : ∀ a b c, ops.le a b = true → ops.le b c = true → ops.le a c = true
  le_total : ∀ a b, ops.le a b = true ∨ ops.le b a = true

/-- Adding a non-negative demand does not lower the utilisation (true in exact arithmetic, and of
    IEEE doubles because rounding is monotone). -/
def UtilMono (res avail : V3 F) : Prop :=
  ∀ (acc : V3 F) (d : V3 Int), 0 ≤ d.x → 0 ≤ d.y → 0 ≤ d.z →
    ops.le (util ops acc res avail) (util ops (vadd ops acc (vofInt ops d)) res avail) = true

theorem Score.le_top (a : Score F) : Score.le ops a .top = true := by
  cases a <;> rfl

theorem Score.le_trans' (laws : OrderLaws ops) {a b c : Score F}
    (h1 : Score.le ops a b = true) (h2 : Score.le ops b c = true) : Score.le ops a c = true := by
  cases a <;> cases b <;> cases c <;> simp_all [Score.le]
  exact laws.le_trans _ _ _ h1 h2

theorem withinCap_mono (laws : OrderLaws ops) (mu : Option F) {a b : Score F}
    (h : Score.le ops a b = true) (hb : withinCap ops mu b = true) : withinCap ops mu a = true := by
  cases mu with
  | none => rfl
  | some m =>
    cases a <;> cases b <;> simp_all [withinCap, Score.le]
    exact laws.le_trans _ _ _ h hb

theorem neg_mono (laws : OrderLaws ops) {a b : Score F}
    (h : Score.le ops a b = true) (hb : Score.neg ops b = true) : Score.neg ops a = true := by
  cases a <;> cases b <;> simp_all [Score.neg, Score.le, ScoreOps.lt]
  rename_i x y
  cases hx : ops.le ops.zero x with
  | false => rfl
  | true => have := laws.le_trans _ _ _ hx h; simp_all

/-- Lower bound on all ranks still to come, as a function of `util_before`. -/
def rankLB (rank adj : Int) (mu : Option F) (ub : Score F) : Int := privRank ops rank adj mu ub ub

theorem privRank_le_unplaced (rank adj : Int) (mu : Option F) (ub ua : Score F)
    (hadj : 0 ≤ adj) (hR : rank ≤ UNPLACED) : privRank ops rank adj mu ub ua ≤ UNPLACED := by
  unfold privRank; split
  · split <;> omega
  · exact Int.le_refl _

theorem rankLB_mono (laws : OrderLaws ops) (rank adj : Int) (mu : Option F) (hadj : 0 ≤ adj)
    (hR : rank ≤ UNPLACED) {a b : Score F} (h : Score.le ops a b = true) :
    rankLB ops rank adj mu a ≤ rankLB ops rank adj mu b := by
  unfold rankLB
  by_cases hb : withinCap ops mu b = true
  · have ha := withinCap_mono ops laws mu h hb
    by_cases hnb : Score.neg ops b = true
    · have hna := neg_mono ops laws h hnb
      simp [privRank, ha, hb, hna, hnb]
    · have hnb' : Score.neg ops b = false := by simpa using hnb
      simp only [privRank, ha, hb, hnb', Bool.false_eq_true, ↓reduceIte]
      split <;> omega
  · have : privRank ops rank adj mu b b = UNPLACED := by simp [privRank, hb]
    rw [this]; exact privRank_le_unplaced ops rank adj mu a a hadj hR

/-- The ranks of the private queue are sorted (boosted, then plain, then unplaced) whenever the
    rank adjustment is not negative, the rank is at most `_UNPLACED_RANK`, demands are not
    negative, utilisation is monotone in the cumulative demand and priority-0 instances are last. -/
theorem privGo_ranks_sorted (laws : OrderLaws ops) (rank adj : Int) (mu : Option F) (res avail : V3 F)
    (hm : UtilMono ops res avail) (hadj : 0 ≤ adj) (hR : rank ≤ UNPLACED) (l : List App) :
    ∀ (acc : V3 F) (ub : Score F),
      l.Pairwise (fun a b => a.prio = 0 → b.prio = 0) →
      (∀ a ∈ l, 0 ≤ a.demand.x ∧ 0 ≤ a.demand.y ∧ 0 ≤ a.demand.z) →
      (ub = .top → ∀ a ∈ l, a.prio = 0) →
      (ub = .top ∨ ub = .fin (util ops acc res avail)) →
      ((privGo ops rank adj mu res avail acc ub l).map (·.rank)).Pairwise (· ≤ ·) ∧
      ∀ e ∈ privGo ops rank adj mu res avail acc ub l, rankLB ops rank adj mu ub ≤ e.rank := by
  induction l with
  | nil => intro acc ub _ _ _ _; exact ⟨List.Pairwise.nil, fun e he => by cases he⟩
  | cons a l ih =>
    intro acc ub hpw hdem htop hinv
    rw [List.pairwise_cons] at hpw
    have hdem' : ∀ b ∈ l, 0 ≤ b.demand.x ∧ 0 ≤ b.demand.y ∧ 0 ≤ b.demand.z :=
      fun b hb => hdem b (List.mem_cons_of_mem _ hb)
    by_cases ha : a.prio = 0
    · -- priority 0: (inf, inf)
      have := ih (vadd ops acc (vofInt ops a.demand)) .top hpw.2 hdem'
        (fun _ b hb => hpw.1 b hb ha) (Or.inl rfl)
      obtain ⟨hs, hlb⟩ := this
      have hub : rankLB ops rank adj mu ub ≤ rankLB ops rank adj mu .top :=
        rankLB_mono ops laws rank adj mu hadj hR (Score.le_top ops ub)
      simp only [privGo, scoreStep_zero ops res avail acc ub a ha, List.map_cons, List.pairwise_cons,
        List.mem_cons, List.mem_map]
      refine ⟨⟨?_, hs⟩, ?_⟩
      · rintro r ⟨e, he, rfl⟩
        exact hlb e he
      · rintro e (rfl | he)
        · exact hub
        · exact Int.le_trans hub (hlb e he)
    · -- ordinary instance
      have hubfin : ub = .fin (util ops acc res avail) := by
        rcases hinv with h | h
        · exact absurd (htop h a List.mem_cons_self) ha
        · exact h
      have hd := hdem a List.mem_cons_self
      have hmono := hm acc a.demand hd.1 hd.2.1 hd.2.2
      have hle : Score.le ops ub (.fin (util ops (vadd ops acc (vofInt ops a.demand)) res avail)) = true := by
        rw [hubfin]; exact hmono
      have := ih (vadd ops acc (vofInt ops a.demand))
        (.fin (util ops (vadd ops acc (vofInt ops a.demand)) res avail)) hpw.2 hdem'
        (fun h => by cases h) (Or.inr rfl)
      obtain ⟨hs, hlb⟩ := this
      -- rank of this entry sits between the two bounds
      have h1 : rankLB ops rank adj mu ub ≤
          privRank ops rank adj mu ub (.fin (util ops (vadd ops acc (vofInt ops a.demand)) res avail)) := by
        unfold rankLB
        by_cases hw : withinCap ops mu (.fin (util ops (vadd ops acc (vofInt ops a.demand)) res avail)) = true
        · have hw' := withinCap_mono ops laws mu hle hw
          simp [privRank, hw, hw']
        · have : privRank ops rank adj mu ub
              (.fin (util ops (vadd ops acc (vofInt ops a.demand)) res avail)) = UNPLACED := by
            simp [privRank, hw]
          rw [this]; exact privRank_le_unplaced ops rank adj mu ub ub hadj hR
      have h2 : privRank ops rank adj mu ub (.fin (util ops (vadd ops acc (vofInt ops a.demand)) res avail)) ≤
          rankLB ops rank adj mu (.fin (util ops (vadd ops acc (vofInt ops a.demand)) res avail)) := by
        unfold rankLB
        by_cases hw : withinCap ops mu (.fin (util ops (vadd ops acc (vofInt ops a.demand)) res avail)) = true
        · by_cases hn : Score.neg ops (.fin (util ops (vadd ops acc (vofInt ops a.demand)) res avail)) = true
          · have hn' := neg_mono ops laws hle hn
            simp [privRank, hw, hn, hn']
          · have hn' : Score.neg ops (.fin (util ops (vadd ops acc (vofInt ops a.demand)) res avail)) = false := by
              simpa using hn
            simp only [privRank, hw, hn', Bool.false_eq_true, ↓reduceIte]
            split <;> omega
        · simp [privRank, hw]
      simp only [privGo, scoreStep_nonzero ops res avail acc ub a ha, List.map_cons, List.pairwise_cons,
        List.mem_cons, List.mem_map]
      refine ⟨⟨?_, hs⟩, ?_⟩
      · rintro r ⟨e, he, rfl⟩
        exact Int.le_trans h2 (hlb e he)
      · rintro e (rfl | he)
        · exact h1
        · exact Int.le_trans h1 (Int.le_trans h2 (hlb e he))

/-- Sorted by the instance key with non-negative priorities: priority 0 is last. -/
theorem sortApps_zero_last (l : List App) (hprio : ∀ a ∈ l, 0 ≤ a.prio) :
    (sortApps l).Pairwise (fun a b => a.prio = 0 → b.prio = 0) := by
  refine List.Pairwise.imp_of_mem ?_ (sortApps_sorted l)
  intro a b _ hb hab h0
  have := hprio b (mem_sortApps.mp hb)
  unfold appLe appLt at hab
  omega

theorem privQueue_ranks_sorted (laws : OrderLaws ops) (A : Alloc F)
    (hm : UtilMono ops (vofInt ops A.reserved) (vadd ops (vofInt ops A.reserved) (veps ops)))
    (hadj : 0 ≤ A.rankAdj) (hR : A.rank ≤ UNPLACED) (hprio : ∀ a ∈ A.apps, 0 ≤ a.prio)
    (hdem : ∀ a ∈ A.apps, 0 ≤ a.demand.x ∧ 0 ≤ a.demand.y ∧ 0 ≤ a.demand.z) :
    ((privQueue ops A).map (·.rank)).Pairwise (· ≤ ·) := by
  unfold privQueue
  exact (privGo_ranks_sorted ops laws _ _ _ _ _ hm hadj hR (sortApps A.apps) _ _
    (sortApps_zero_last _ hprio) (fun a ha => hdem a (mem_sortApps.mp ha))
    (fun h => by cases h) (Or.inr rfl)).1

end priv


/-! ### assignment (loader.py) -/

namespace Assign

/-- Declarative meaning of the modelled fnmatch subset. -/
inductive Matches : List Tok → List Char → Prop
  | nil : Matches [] []
  | lit {p s} (c : Char) : Matches p s → Matches (.lit c :: p) (c :: s)
  | any {p s} (d : Char) : Matches p s → Matches (.any :: p) (d :: s)
  | star {p s} (pre : List Char) : Matches p s → Matches (.star :: p) (pre ++ s)

theorem anySuffix_iff (m : List Char → Bool) (s : List Char) :
    anySuffix m s = true ↔ ∃ pre suf, s = pre ++ suf ∧ m suf = true := by
  induction s with
  | nil =>
    simp only [anySuffix]
    constructor
    · intro h; exact ⟨[], [], rfl, h⟩
    · rintro ⟨pre, suf, h, hm⟩
      have : suf = [] := by
        cases suf with
        | nil => rfl
        | cons x t => cases pre <;> cases h
      rw [this] at hm; exact hm
  | cons c s ih =>
    simp only [anySuffix, Bool.or_eq_true, ih]
    constructor
    · rintro (h | ⟨pre, suf, rfl, hm⟩)
      · exact ⟨[], c :: s, rfl, h⟩
      · exact ⟨c :: pre, suf, rfl, hm⟩
    · rintro ⟨pre, suf, h, hm⟩
      cases pre with
      | nil => left; simp only [List.nil_append] at h; rw [h]; exact hm
      | cons d pre =>
        right
        simp only [List.cons_append, List.cons.injEq] at h
        exact ⟨pre, suf, h.2, hm⟩

/-- The matcher decides exactly the declarative relation. -/
theorem globMatch_iff (p : List Tok) (s : List Char) : globMatch p s = true ↔ Matches p s := by
  induction p generalizing s with
  | nil =>
    cases s with
    | nil => simp [globMatch]; exact Matches.nil
    | cons c s => simp [globMatch]; intro h; cases h
  | cons t p ih =>
    cases t with
    | lit c =>
      cases s with
      | nil => simp [globMatch]; intro h; cases h
      | cons d s =>
        simp only [globMatch, Bool.and_eq_true, decide_eq_true_eq, ih]
        constructor
        · rintro ⟨rfl, h⟩; exact Matches.lit _ h
        · intro h; cases h with | lit _ h => exact ⟨rfl, h⟩
    | any =>
      cases s with
      | nil => simp [globMatch]; intro h; cases h
      | cons d s =>
        simp only [globMatch, ih]
        constructor
        · intro h; exact Matches.any _ h
        · intro h; cases h with | any _ h => exact h
    | star =>
      simp only [globMatch, anySuffix_iff]
      constructor
      · rintro ⟨pre, suf, rfl, hm⟩; exact Matches.star pre ((ih suf).mp hm)
      · intro h
        cases h with
        | star pre h => exact ⟨pre, _, rfl, (ih _).mpr h⟩

theorem firstMatch_first (name : List Char) (pre : List Asg) (a : Asg) (post : List Asg)
    (hpre : ∀ b ∈ pre, patMatch b.pat name = false) (ha : patMatch a.pat name = true) :
    firstMatch name (pre ++ a :: post) = some a := by
  induction pre with
  | nil => simp [firstMatch, ha]
  | cons b pre ih =>
    have hb := hpre b List.mem_cons_self
    simp only [List.cons_append, firstMatch, hb, Bool.false_eq_true, ↓reduceIte]
    exact ih (fun c hc => hpre c (List.mem_cons_of_mem _ hc))

theorem firstMatch_none (name : List Char) (l : List Asg)
    (h : ∀ b ∈ l, patMatch b.pat name = false) : firstMatch name l = none := by
  induction l with
  | nil => rfl
  | cons b l ih =>
    simp only [firstMatch, h b List.mem_cons_self, Bool.false_eq_true, ↓reduceIte]
    exact ih (fun c hc => h c (List.mem_cons_of_mem _ hc))

theorem firstMatch_some {name : List Char} {l : List Asg} {a : Asg} (h : firstMatch name l = some a) :
    ∃ pre post, l = pre ++ a :: post ∧ (∀ b ∈ pre, patMatch b.pat name = false) ∧
      patMatch a.pat name = true := by
  induction l with
  | nil => simp [firstMatch] at h
  | cons b l ih =>
    simp only [firstMatch] at h
    split at h
    · rename_i hb
      simp only [Option.some.injEq] at h
      subst h
      exact ⟨[], l, rfl, (fun _ hc => by cases hc), hb⟩
    · rename_i hb
      obtain ⟨pre, post, rfl, hpre, ha⟩ := ih h
      refine ⟨b :: pre, post, rfl, ?_, ha⟩
      intro c hc
      rcases List.mem_cons.mp hc with rfl | hc
      · simpa using hb
      · exact hpre c hc

/-- `defaultdict(list)[k].append(a)`: the list of `k` grows at the end, other keys are untouched. -/
theorem lookup_add (tbl : Table) (k : List Char) (a : Asg) (k' : List Char) :
    lookup k' (tbl.add k a) =
      if k' = k then some ((lookup k tbl).getD [] ++ [a]) else lookup k' tbl := by
  unfold Table.add
  cases hl : lookup k tbl with
  | some l =>
    simp only [Option.getD_some]
    induction tbl with
    | nil => simp [lookup] at hl
    | cons p tbl ih =>
      obtain ⟨k0, v0⟩ := p
      simp only [lookup] at hl
      by_cases h0 : k0 = k
      · subst h0
        simp only [↓reduceIte, Option.some.injEq] at hl
        subst hl
        simp only [List.map_cons, ↓reduceIte, lookup]
        by_cases hk : k' = k0
        · simp [hk]
        · have : ¬ k0 = k' := fun e => hk e.symm
          simp only [this, ↓reduceIte, hk]
          -- the rest of the table: entries with key k0 are changed but never found first
          clear ih
          induction tbl with
          | nil => rfl
          | cons q tbl ih2 =>
            obtain ⟨k1, v1⟩ := q
            simp only [List.map_cons, lookup]
            by_cases h1 : k1 = k0
            · subst h1; simp [this, ih2]
            · simp only [h1, ↓reduceIte]
              by_cases h2 : k1 = k'
              · simp [h2]
              · simp [h2, ih2]
      · simp only [h0, ↓reduceIte] at hl
        simp only [List.map_cons, h0, ↓reduceIte, lookup]
        by_cases hk : k' = k
        · subst hk
          simp only [h0, ↓reduceIte]
          have := ih hl
          simpa using this
        · by_cases h2 : k0 = k'
          · simp [h2, hk]
          · simp only [h2, ↓reduceIte, hk]
            have := ih hl
            simpa [hk] using this
  | none =>
    simp only [Option.getD_none, List.nil_append]
    induction tbl with
    | nil =>
      simp only [List.nil_append, lookup]
      by_cases hk : k = k'
      · simp [hk]
      · have : ¬ k' = k := fun e => hk e.symm
        simp [hk, this]
    | cons p tbl ih =>
      obtain ⟨k0, v0⟩ := p
      simp only [lookup] at hl
      by_cases h0 : k0 = k
      · simp [h0] at hl
      · simp only [h0, ↓reduceIte] at hl
        simp only [List.cons_append, lookup]
        by_cases h2 : k0 = k'
        · subst h2
          have : ¬ k0 = k := h0
          simp [this]
        · simp only [h2, ↓reduceIte]
          exact ih hl

end Assign

end TmVerif.Queue
