/-
  Model of the scheduling queue (C06):
    scheduler/__init__.py  Allocation.priv_utilization_queue, Allocation.utilization_queue
                           (heapq.merge of the sub-queues + re-scoring), Allocation.total_reserved,
                           utilization(), Node.size / Server.size (eps_capacity), the rank test of
                           Cell._find_placements, Cell.schedule_alloc
    scheduler/loader.py    _alloc_key, Loader.find_assignment / find_default_assignment and the
                           priority rule of Loader.load_app

  Everything numeric about utilisation is GENERIC in the number type `F`: the operations numpy
  performs are the fields of `ScoreOps F` and are applied in the order the Python code applies
  them.  The driver instantiates `F := Float` (IEEE double) so that the model reproduces the
  implementation's queue bit for bit; the theorems hold for every `F` and every `ScoreOps F`.

  Core Lean only; structural recursion or fuel only.
-/
import TmVerif.Gen.ExtQueue

namespace TmVerif.Queue

/-- `_UNPLACED_RANK` (extracted: `sys.maxsize`). -/
def UNPLACED : Int := ExtQueue.unplacedRank
/-- `DEFAULT_RANK` (extracted). -/
def DEFAULT_RANK : Int := ExtQueue.defaultRank

/-! ### vectors (DIMENSION_COUNT = 3: memory, cpu, disk) -/

structure V3 (α : Type) where
  x : α
  y : α
  z : α
  deriving DecidableEq, Repr

def V3.map {α β} (f : α → β) (v : V3 α) : V3 β := ⟨f v.x, f v.y, f v.z⟩
def V3.zip {α β γ} (f : α → β → γ) (u : V3 α) (v : V3 β) : V3 γ := ⟨f u.x v.x, f u.y v.y, f u.z v.z⟩
def V3.all {α} (p : α → Bool) (v : V3 α) : Bool := p v.x && p v.y && p v.z
def V3.rep {α} (a : α) : V3 α := ⟨a, a, a⟩

/-! ### scores -/

/-- A utilisation score: a number, or `_MAX_UTILIZATION = float('inf')`. -/
inductive Score (F : Type) where
  | fin (x : F)
  | top
  deriving DecidableEq, Repr

/-- The arithmetic the queue performs on scores, as a parameter.  `le` is Python's `<=` on the
    number type (`<` is its negation with swapped arguments, `==` is `le` both ways: true of IEEE
    doubles that are not NaN). -/
structure ScoreOps (F : Type) where
  ofInt : Int → F
  add : F → F → F
  sub : F → F → F
  div : F → F → F
  le : F → F → Bool
  /-- `np.finfo(float).eps` -/
  eps : F

section generic
variable {F : Type} (ops : ScoreOps F)

def ScoreOps.zero : F := ops.ofInt 0
def ScoreOps.one : F := ops.ofInt 1
def ScoreOps.lt (a b : F) : Bool := !ops.le b a
/-- `np.maximum` of two numbers. -/
def ScoreOps.max (a b : F) : F := if ops.le a b then b else a

def vadd (u v : V3 F) : V3 F := V3.zip ops.add u v
def vofInt (v : V3 Int) : V3 F := v.map ops.ofInt
def vzero : V3 F := V3.rep ops.zero
/-- `eps_capacity()` / the broadcast `+ np.finfo(float).eps`. -/
def veps : V3 F := V3.rep ops.eps

/-- `utilization(demand, allocated, available) = np.max(np.subtract(demand, allocated) / available)`. -/
def util (acc res avail : V3 F) : F :=
  let q := V3.zip ops.div (V3.zip ops.sub acc res) avail
  ops.max (ops.max q.x q.y) q.z

def Score.le : Score F → Score F → Bool
  | .fin a, .fin b => ops.le a b
  | .fin _, .top => true
  | .top, .fin _ => false
  | .top, .top => true

/-- Python `a < b` on scores. -/
def Score.lt (a b : Score F) : Bool := !Score.le ops b a
/-- Python `a == b` on scores. -/
def Score.eq (a b : Score F) : Bool := Score.le ops a b && Score.le ops b a

/-- `util_before < 0`. -/
def Score.neg : Score F → Bool
  | .fin a => ops.lt a ops.zero
  | .top => false

/-- `util_after <= self.max_utilization - 1`; `maxUtil = none` is the default
    `_MAX_UTILIZATION = inf` (`inf - 1 = inf`, and `x <= inf` for every score including `inf`). -/
def withinCap (maxUtil : Option F) (ua : Score F) : Bool :=
  match maxUtil, ua with
  | none, _ => true
  | some _, .top => false
  | some m, .fin a => ops.le a (ops.sub m ops.one)

end generic

/-! ### instances, allocations -/

/-- An instance as the queue sees it. `id` stands for the name (the harness uses names whose
    string order is the numeric order of `id`). -/
structure App where
  id : Nat
  prio : Int
  demand : V3 Int
  /-- `app.server` is set -/
  running : Bool
  /-- `app.global_order` -/
  order : Int
  deriving DecidableEq, Repr

/-- `0 if app.server else 1` -/
def App.pendingI (a : App) : Int := if a.running then 0 else 1

/-- `_app_key(a) < _app_key(b)`: `(-priority, pending, global_order, name)` in tuple order. -/
def appLt (a b : App) : Prop :=
  b.prio < a.prio ∨ (a.prio = b.prio ∧
    (a.pendingI < b.pendingI ∨ (a.pendingI = b.pendingI ∧
      (a.order < b.order ∨ (a.order = b.order ∧ a.id < b.id)))))

instance (a b : App) : Decidable (appLt a b) := by unfold appLt; exact inferInstance

/-- `_app_key(a) <= _app_key(b)`. -/
def appLe (a b : App) : Prop := ¬ appLt b a

/-- Insert before the first element that is not smaller (stable, like `sorted`). -/
def insertApp (a : App) : List App → List App
  | [] => [a]
  | b :: l => if appLt b a then b :: insertApp a l else a :: b :: l

/-- `sorted(apps.values(), key=_app_key)`. -/
def sortApps : List App → List App
  | [] => []
  | a :: l => insertApp a (sortApps l)

/-- An allocation: `reserved`, `rank`, `rank_adjustment`, `max_utilization` (`none` = inf),
    own apps (dict order), sub-allocations (dict order). -/
inductive Alloc (F : Type) where
  | node (reserved : V3 Int) (rank : Int) (rankAdj : Int) (maxUtil : Option F)
         (apps : List App) (subs : List (Alloc F))

namespace Alloc
variable {F : Type}
def reserved : Alloc F → V3 Int | node r _ _ _ _ _ => r
def rank : Alloc F → Int | node _ r _ _ _ _ => r
def rankAdj : Alloc F → Int | node _ _ a _ _ _ => a
def maxUtil : Alloc F → Option F | node _ _ _ m _ _ => m
def apps : Alloc F → List App | node _ _ _ _ a _ => a
def subs : Alloc F → List (Alloc F) | node _ _ _ _ _ s => s

mutual
/-- `Allocation.all_apps()`. -/
def allApps : Alloc F → List App
  | node _ _ _ _ a s => a ++ allAppsL s
def allAppsL : List (Alloc F) → List App
  | [] => []
  | t :: l => allApps t ++ allAppsL l
end

mutual
/-- The allocation and all its descendants (pre-order). -/
def allocs : Alloc F → List (Alloc F)
  | node r k a m ap s => node r k a m ap s :: allocsL s
def allocsL : List (Alloc F) → List (Alloc F)
  | [] => []
  | t :: l => allocs t ++ allocsL l
end
end Alloc

/-- One queue entry `(rank, util_before, util_after, pending, global_order, app)`. -/
structure Entry (F : Type) where
  rank : Int
  ub : Score F
  ua : Score F
  pending : Bool
  order : Int
  app : App

section generic
variable {F : Type} (ops : ScoreOps F)

/-- Python's tuple `<` on `(rank, util_before, util_after, pending, global_order)`.  When these
    five components tie Python goes on to compare the `Application` objects, which raises
    `TypeError`; the model answers `false` (see `keyTie`). -/
def keyLt (a b : Entry F) : Bool :=
  if a.rank ≠ b.rank then decide (a.rank < b.rank)
  else if !Score.eq ops a.ub b.ub then Score.lt ops a.ub b.ub
  else if !Score.eq ops a.ua b.ua then Score.lt ops a.ua b.ua
  else if a.pending ≠ b.pending then (!a.pending && b.pending)
  else decide (a.order < b.order)

/-- The five comparable components tie (Python would compare the app objects: TypeError). -/
def keyTie (a b : Entry F) : Bool :=
  a.rank == b.rank && Score.eq ops a.ub b.ub && Score.eq ops a.ua b.ua &&
  a.pending == b.pending && a.order == b.order

/-- Shared step of the two scoring loops: accumulate the demand, compute `util_after`, and apply
    the priority-0 rule (`util_before = util_after = _MAX_UTILIZATION`). Returns
    `(acc_demand', util_before, util_after)`. -/
def scoreStep (res avail acc : V3 F) (ub : Score F) (a : App) : V3 F × Score F × Score F :=
  let acc' := vadd ops acc (vofInt ops a.demand)
  if a.prio = 0 then (acc', .top, .top) else (acc', ub, .fin (util ops acc' res avail))

/-- The rank `priv_utilization_queue` gives an entry. -/
def privRank (rank rankAdj : Int) (maxUtil : Option F) (ub ua : Score F) : Int :=
  if withinCap ops maxUtil ua then
    (if Score.neg ops ub then rank - rankAdj else rank)
  else UNPLACED

/-- The loop of `priv_utilization_queue` over the priority-sorted apps. -/
def privGo (rank rankAdj : Int) (maxUtil : Option F) (res avail : V3 F) :
    V3 F → Score F → List App → List (Entry F)
  | _, _, [] => []
  | acc, ub, a :: l =>
    let s := scoreStep ops res avail acc ub a
    { rank := privRank ops rank rankAdj maxUtil s.2.1 s.2.2, ub := s.2.1, ua := s.2.2,
      pending := !a.running, order := a.order, app := a } ::
      privGo rank rankAdj maxUtil res avail s.1 s.2.2 l

/-- `Allocation.priv_utilization_queue()`. -/
def privQueue (A : Alloc F) : List (Entry F) :=
  let res := vofInt ops A.reserved
  let avail := vadd ops res (veps ops)
  privGo ops A.rank A.rankAdj A.maxUtil res avail (vzero ops)
    (.fin (util ops (vzero ops) res avail)) (sortApps A.apps)

/-- The re-scoring loop of `utilization_queue` over the merged entries (rank, pending, order
    and app are kept). -/
def rescoreGo (res avail : V3 F) : V3 F → Score F → List (Entry F) → List (Entry F)
  | _, _, [] => []
  | acc, ub, e :: l =>
    let s := scoreStep ops res avail acc ub e.app
    { e with ub := s.2.1, ua := s.2.2 } :: rescoreGo res avail s.1 s.2.2 l

/-! ### heapq.merge: repeated minimum of the heads, ties to the leftmost input -/

/-- Take the smallest head (leftmost among equals); `none` when every input is exhausted. -/
def popMin : List (List (Entry F)) → Option (Entry F × List (List (Entry F)))
  | [] => none
  | [] :: qs =>
    match popMin qs with
    | none => none
    | some (e, qs') => some (e, [] :: qs')
  | (h :: t) :: qs =>
    match popMin qs with
    | none => some (h, t :: qs)
    | some (e, qs') => if keyLt ops e h then some (e, (h :: t) :: qs') else some (h, t :: qs)

def totalLen (qs : List (List (Entry F))) : Nat := (qs.map List.length).sum

/-- `heapq.merge(*qs)` with fuel (the total number of entries suffices: `merge_perm`). -/
def mergeFuel : Nat → List (List (Entry F)) → List (Entry F)
  | 0, _ => []
  | n + 1, qs =>
    match popMin ops qs with
    | none => []
    | some (e, qs') => e :: mergeFuel n qs'

def merge (qs : List (List (Entry F))) : List (Entry F) := mergeFuel ops (totalLen qs) qs

/-- Some merge step had two heads whose comparable components tie (Python may raise TypeError). -/
def headsTie : List (Entry F) → Bool
  | [] => false
  | h :: t => t.any (keyTie ops h) || headsTie t

def mergeTies : Nat → List (List (Entry F)) → Bool
  | 0, _ => false
  | n + 1, qs =>
    headsTie ops (qs.filterMap List.head?) ||
    match popMin ops qs with
    | none => false
    | some (_, qs') => mergeTies n qs'

/-! ### total_reserved, utilization_queue -/

mutual
/-- `Allocation.total_reserved()`:
    `reduce(lambda acc, alloc: acc + alloc.total_reserved(), sub_allocations, self.reserved)`. -/
def totalReserved : Alloc F → V3 F
  | .node r _ _ _ _ s => totalReservedL (vofInt ops r) s
def totalReservedL : V3 F → List (Alloc F) → V3 F
  | acc, [] => acc
  | acc, t :: l => totalReservedL (vadd ops acc (totalReserved t)) l
end

/-- Re-scoring of a merged queue against `total_reserved` and `free_capacity`. -/
def rescore (tr free : V3 F) (q : List (Entry F)) : List (Entry F) :=
  let avail := vadd ops (vadd ops tr free) (veps ops)
  rescoreGo ops tr avail (vzero ops) (.fin (util ops (vzero ops) tr avail)) q

mutual
/-- `Allocation.utilization_queue(free_capacity)`. -/
def utilQueue (free : V3 F) : Alloc F → List (Entry F)
  | .node r k a m ap s =>
    rescore ops (totalReserved ops (.node r k a m ap s)) free
      (merge ops (utilQueues free s ++ [privQueue ops (.node r k a m ap s)]))
def utilQueues (free : V3 F) : List (Alloc F) → List (List (Entry F))
  | [] => []
  | t :: l => utilQueue free t :: utilQueues free l
end

mutual
/-- Would Python have had to compare two `Application` objects anywhere in the tree's merges? -/
def treeTies (free : V3 F) : Alloc F → Bool
  | .node r k a m ap s =>
    (let qs := utilQueues ops free s ++ [privQueue ops (.node r k a m ap s)]
     mergeTies ops (totalLen qs) qs) || treeTiesL free s
def treeTiesL (free : V3 F) : List (Alloc F) → Bool
  | [] => false
  | t :: l => treeTies free t || treeTiesL free l
end

/-- The instances `Cell._find_placements` goes on to place: it `continue`s on
    `app.final_rank == _UNPLACED_RANK` (after taking a running one off its server). -/
def considered (q : List (Entry F)) : List (Entry F) := q.filter (fun e => e.rank ≠ UNPLACED)

/-! ### Node.size(label) -/

/-- Topology as `size(label)` sees it: per node whether `label in node.labels`; a bucket's list
    holds its active children (`children_iter` skips the `None` holes, `empty()` looks at
    `children_by_name`, which has exactly the active children). -/
inductive Node where
  | server (hasLabel : Bool) (capacity : V3 Int)
  | bucket (hasLabel : Bool) (children : List Node)

/-- `np.sum([v0, v1, ...], 0)`: left to right, starting from the first row. -/
def vsum : List (V3 F) → V3 F
  | [] => vzero ops
  | v :: l => l.foldl (vadd ops) v

mutual
/-- `Node.size(label)` / `Server.size(label)`. -/
def size : Node → V3 F
  | .server hl c => if hl then vofInt ops c else veps ops
  | .bucket hl cs => if cs.isEmpty || !hl then veps ops else vsum ops (sizes cs)
def sizes : List Node → List (V3 F)
  | [] => []
  | n :: l => size n :: sizes l
end

end generic

/-! ### well-formedness (what the scheduler's data structures guarantee) -/

/-- Instances are keyed by name in `cell.apps` and sit in exactly one allocation: ids are unique
    across the tree. -/
def WFIds {F} (t : Alloc F) : Prop := (t.allApps.map (·.id)).Nodup

/-- `global_order` values are pairwise different (they are microsecond timestamps); with this,
    `heapq.merge` never has to compare two `Application` objects. -/
def WFOrder {F} (t : Alloc F) : Prop := (t.allApps.map (·.order)).Nodup

/-! ### assignment of instances to allocations (loader.py) -/

namespace Assign

/-- `str.find(c)`: index of the first occurrence, `-1` when absent. -/
def find (c : Char) : List Char → Int
  | [] => -1
  | d :: l => if d = c then 0 else
    match find c l with
    | .negSucc _ => -1
    | .ofNat n => n + 1

/-- Python slice `s[a:b]` (negative indices count from the end, then clamp). -/
def slice (s : List Char) (a b : Int) : List Char :=
  let n : Int := s.length
  let norm (i : Int) : Nat := if i < 0 then (i + n).toNat else (min i n).toNat
  let a' := norm a
  let b' := norm b
  (s.drop a').take (b' - a')

def atC : Char := Char.ofNat ExtQueue.keyAt
def dotC : Char := Char.ofNat ExtQueue.keyDot
def hashC : Char := Char.ofNat ExtQueue.assignHash
def sepC : Char := Char.ofNat ExtQueue.proidSep

/-- `loader._alloc_key(name)`. -/
def allocKey (name : List Char) : List Char :=
  if atC ∈ name then slice name (find atC name + 1) (find dotC name)
  else slice name 0 (find dotC name)

/-- One element of an fnmatch pattern, as far as modelled: a literal character, `?`, `*`. -/
inductive Tok where
  | lit (c : Char)
  | any
  | star
  deriving DecidableEq, Repr

/-- Patterns containing `[` are not modelled (`none`). -/
def parsePat : List Char → Option (List Tok)
  | [] => some []
  | c :: l =>
    if c = '[' then none else
    (parsePat l).map (fun r => (if c = '*' then Tok.star else if c = '?' then Tok.any else Tok.lit c) :: r)

/-- `m` accepts some suffix of `s` (what a leading `*` does). -/
def anySuffix (m : List Char → Bool) : List Char → Bool
  | [] => m []
  | c :: s => m (c :: s) || anySuffix m s

/-- Full match of a token list against a string (`re.match` of `fnmatch.translate`, which is
    anchored at both ends and lets `.` match every character). -/
def globMatch : List Tok → List Char → Bool
  | [], s => s.isEmpty
  | .lit c :: p, s =>
    match s with
    | [] => false
    | d :: s' => d = c && globMatch p s'
  | .any :: p, s =>
    match s with
    | [] => false
    | _ :: s' => globMatch p s'
  | .star :: p, s => anySuffix (globMatch p) s

/-- The suffix `[#]` + `[0-9]`*10 the loader appends: `#` followed by exactly 10 ASCII digits. -/
def isInstSuffix (s : List Char) : Bool :=
  match s with
  | [] => false
  | c :: ds => c = hashC && ds.length = ExtQueue.assignDigits && ds.all (fun d => '0' ≤ d && d ≤ '9')

/-- `pattern_re.match(name)` for `pattern + '[#]' + '[0-9]' * 10`: some split of `name` into a
    part matching `pattern` and an instance suffix. -/
def patMatch (p : List Tok) (name : List Char) : Bool :=
  let n := name.length
  -- the suffix has fixed length 1 + assignDigits
  let k := 1 + ExtQueue.assignDigits
  n ≥ k && isInstSuffix (name.drop (n - k)) && globMatch p (name.take (n - k))

/-- An assignment `(compiled pattern, priority, allocation)`; allocations are referred to by an
    index chosen by the harness. -/
structure Asg where
  pat : List Tok
  prio : Int
  alloc : Nat
  deriving Repr

/-- `self.assignments`: key ↦ list in load order. -/
abbrev Table := List (List Char × List Asg)

def lookup (k : List Char) : Table → Option (List Asg)
  | [] => none
  | (k', v) :: t => if k' = k then some v else lookup k t

/-- `self.assignments[key].append(...)` on a defaultdict. -/
def Table.add (tbl : Table) (k : List Char) (a : Asg) : Table :=
  match lookup k tbl with
  | some _ => tbl.map (fun p => if p.1 = k then (p.1, p.2 ++ [a]) else p)
  | none => tbl ++ [(k, [a])]

/-- Where an instance goes. -/
inductive Target where
  | assigned (alloc : Nat)
  /-- `partitions['_default'].allocation / '_default' / <proid>` -/
  | defaultTenant (proid : List Char)
  deriving DecidableEq, Repr

def firstMatch (name : List Char) : List Asg → Option Asg
  | [] => none
  | a :: l => if patMatch a.pat name then some a else firstMatch name l

/-- `proid, _rest = name.split('.', 1)`: `none` is the `ValueError` when there is no `.`. -/
def proid (name : List Char) : Option (List Char) :=
  if sepC ∈ name then some (name.takeWhile (· ≠ sepC)) else none

/-- `Loader.find_default_assignment(name)`. -/
def findDefault (name : List Char) : Option (Int × Target) :=
  (proid name).map (fun p => (ExtQueue.defaultAssignmentPriority, Target.defaultTenant p))

/-- `Loader.find_assignment(name)`; `none` = `ValueError` from the default branch. -/
def findAssignment (tbl : Table) (name : List Char) : Option (Int × Target) :=
  match lookup (allocKey name) tbl with
  | some l =>
    match firstMatch name l with
    | some a => some (a.prio, Target.assigned a.alloc)
    | none => findDefault name
  | none => findDefault name

/-- The priority rule of `Loader.load_app`: the manifest's priority wins unless it is absent or
    the sentinel (−1). -/
def loadPriority (manifest : Option Int) (assigned : Int) : Int :=
  match manifest with
  | some p => if p ≠ ExtQueue.manifestPrioritySentinel then p else assigned
  | none => assigned

end Assign

end TmVerif.Queue
