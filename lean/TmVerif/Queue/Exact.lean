/-
  The exact instance of the score arithmetic: `F := Rat` (core Lean's rationals), `eps = 2^-52`.
  Here the two arithmetic claims of C06 (boost inside the reservation, no rank beyond the cap)
  can be stated in terms of integer demands and reservations.

  Also `Frac`, unnormalised integer fractions whose operations reduce in the kernel, for the
  `decide` witnesses and non-vacuity examples (core `Rat` does not reduce under `decide`).
-/
import TmVerif.Queue.Lemmas

namespace TmVerif.Queue

/-! ### Rat -/

def ratEps : Rat := 1 / ((2 ^ ExtQueue.epsExp : Nat) : Rat)

def ratOps : ScoreOps Rat :=
  { ofInt := fun i => (i : Rat), add := (· + ·), sub := (· - ·), div := (· / ·),
    le := fun a b => decide (a ≤ b), eps := ratEps }

theorem ratEps_pos : 0 < ratEps := by
  unfold ratEps
  rw [Rat.div_def, Rat.one_mul]
  exact Rat.inv_pos.mpr (Rat.natCast_pos.mpr (Nat.two_pow_pos _))

theorem ratLaws : OrderLaws ratOps where
  le_refl a := by simp [ratOps]
  le_trans a b c h1 h2 := by
    simp only [ratOps, decide_eq_true_eq] at *
    exact Rat.le_trans h1 h2
  le_total a b := by
    simp only [ratOps, decide_eq_true_eq]
    exact Rat.le_total

theorem rat_div_le_iff {a b c : Rat} (hc : 0 < c) : a / c ≤ b ↔ a ≤ b * c := by
  rw [← Rat.not_lt, ← Rat.not_lt, Rat.lt_div_iff hc]

theorem rat_div_mono {a b c : Rat} (hc : 0 < c) (h : a ≤ b) : a / c ≤ b / c := by
  rw [rat_div_le_iff hc, Rat.div_mul_cancel (Rat.ne_of_lt hc).symm]
  exact h

theorem rat_div_neg_iff {a c : Rat} (hc : 0 < c) : a / c < 0 ↔ a < 0 := by
  rw [Rat.div_lt_iff hc, Rat.zero_mul]

theorem ratMax_le_iff (a b c : Rat) : ratOps.max a b ≤ c ↔ a ≤ c ∧ b ≤ c := by
  simp only [ScoreOps.max, ratOps, decide_eq_true_eq]
  split <;> grind

theorem ratMax_lt_iff (a b c : Rat) : ratOps.max a b < c ↔ a < c ∧ b < c := by
  simp only [ScoreOps.max, ratOps, decide_eq_true_eq]
  split <;> grind

theorem ratMax_mono {a b a' b' : Rat} (h1 : a ≤ a') (h2 : b ≤ b') : ratOps.max a b ≤ ratOps.max a' b' := by
  simp only [ScoreOps.max, ratOps, decide_eq_true_eq]
  split <;> split <;> grind

/-- Positivity of `available`. -/
def PosV (v : V3 Rat) : Prop := 0 < v.x ∧ 0 < v.y ∧ 0 < v.z

theorem rat_util_lt_zero_iff (acc res avail : V3 Rat) (hp : PosV avail) :
    util ratOps acc res avail < 0 ↔ acc.x < res.x ∧ acc.y < res.y ∧ acc.z < res.z := by
  unfold util
  simp only [V3.zip]
  rw [ratMax_lt_iff, ratMax_lt_iff]
  simp only [ratOps]
  rw [rat_div_neg_iff hp.1, rat_div_neg_iff hp.2.1, rat_div_neg_iff hp.2.2]
  grind

theorem rat_util_le_iff (acc res avail : V3 Rat) (hp : PosV avail) (c : Rat) :
    util ratOps acc res avail ≤ c ↔
      acc.x - res.x ≤ c * avail.x ∧ acc.y - res.y ≤ c * avail.y ∧ acc.z - res.z ≤ c * avail.z := by
  unfold util
  simp only [V3.zip]
  rw [ratMax_le_iff, ratMax_le_iff]
  simp only [ratOps]
  rw [rat_div_le_iff hp.1, rat_div_le_iff hp.2.1, rat_div_le_iff hp.2.2]
  grind

theorem rat_utilMono (res avail : V3 Rat) (hp : PosV avail) : UtilMono ratOps res avail := by
  intro acc d hx hy hz
  have cx : (0 : Rat) ≤ (d.x : Rat) := by
    have := (Rat.intCast_le_intCast (a := 0) (b := d.x)).mpr hx; simpa using this
  have cy : (0 : Rat) ≤ (d.y : Rat) := by
    have := (Rat.intCast_le_intCast (a := 0) (b := d.y)).mpr hy; simpa using this
  have cz : (0 : Rat) ≤ (d.z : Rat) := by
    have := (Rat.intCast_le_intCast (a := 0) (b := d.z)).mpr hz; simpa using this
  show decide (_ ≤ _) = true
  rw [decide_eq_true_eq]
  unfold util
  simp only [V3.zip, vadd, vofInt, V3.map]
  refine ratMax_mono (ratMax_mono ?_ ?_) ?_
  · exact rat_div_mono hp.1 (by simp only [ratOps]; grind)
  · exact rat_div_mono hp.2.1 (by simp only [ratOps]; grind)
  · exact rat_div_mono hp.2.2 (by simp only [ratOps]; grind)

/-- `reserved + eps` is positive when the reservation is not negative. -/
theorem rat_avail_pos (r : V3 Int) (h : 0 ≤ r.x ∧ 0 ≤ r.y ∧ 0 ≤ r.z) :
    PosV (vadd ratOps (vofInt ratOps r) (veps ratOps)) := by
  have e := ratEps_pos
  have cx : (0 : Rat) ≤ (r.x : Rat) := by
    have := (Rat.intCast_le_intCast (a := 0) (b := r.x)).mpr h.1; simpa using this
  have cy : (0 : Rat) ≤ (r.y : Rat) := by
    have := (Rat.intCast_le_intCast (a := 0) (b := r.y)).mpr h.2.1; simpa using this
  have cz : (0 : Rat) ≤ (r.z : Rat) := by
    have := (Rat.intCast_le_intCast (a := 0) (b := r.z)).mpr h.2.2; simpa using this
  simp only [PosV, vadd, vofInt, veps, V3.zip, V3.map, V3.rep, ratOps]
  refine ⟨?_, ?_, ?_⟩ <;> grind

/-- Cumulative demand of a list of instances, in integers. -/
def cumDemand (l : List App) : V3 Int :=
  l.foldl (fun s a => ⟨s.x + a.demand.x, s.y + a.demand.y, s.z + a.demand.z⟩) ⟨0, 0, 0⟩

theorem rat_accFrom (v : V3 Int) (l : List App) :
    accFrom ratOps (vofInt ratOps v) l =
      vofInt ratOps (l.foldl (fun s a => ⟨s.x + a.demand.x, s.y + a.demand.y, s.z + a.demand.z⟩) v) := by
  induction l generalizing v with
  | nil => rfl
  | cons a l ih =>
    simp only [accFrom, List.foldl_cons] at ih ⊢
    rw [← ih]
    congr 1
    simp only [vadd, vofInt, V3.zip, V3.map, ratOps, Rat.intCast_add]

theorem rat_accFrom_zero (l : List App) :
    accFrom ratOps (vzero ratOps) l = vofInt ratOps (cumDemand l) := by
  have : vzero ratOps = vofInt ratOps ⟨0, 0, 0⟩ := by
    simp [vzero, vofInt, V3.rep, V3.map, ScoreOps.zero]
  rw [this, rat_accFrom]; rfl

theorem cumDemand_append_singleton (l : List App) (a : App) :
    cumDemand (l ++ [a]) =
      ⟨(cumDemand l).x + a.demand.x, (cumDemand l).y + a.demand.y, (cumDemand l).z + a.demand.z⟩ := by
  simp [cumDemand, List.foldl_append]

/-! ### Frac: fractions that compute in the kernel -/

/-- `n / d` with `d > 0` (not normalised). Only used for concrete `decide` examples. -/
structure Frac where
  n : Int
  d : Nat
  deriving DecidableEq, Repr

namespace Frac
def add (a b : Frac) : Frac := ⟨a.n * b.d + b.n * a.d, a.d * b.d⟩
def sub (a b : Frac) : Frac := ⟨a.n * b.d - b.n * a.d, a.d * b.d⟩
/-- Division by a positive fraction (the queue only divides by `available > 0`); `0` otherwise. -/
def div (a b : Frac) : Frac := if 0 < b.n then ⟨a.n * b.d, a.d * b.n.toNat⟩ else ⟨0, 1⟩
def le (a b : Frac) : Bool := decide (a.n * b.d ≤ b.n * a.d)
end Frac

def fracOps : ScoreOps Frac :=
  { ofInt := fun i => ⟨i, 1⟩, add := Frac.add, sub := Frac.sub, div := Frac.div, le := Frac.le,
    eps := ⟨1, 2 ^ ExtQueue.epsExp⟩ }

end TmVerif.Queue
