/- Helper lemmas about the presence model (C17). -/
import TmVerif.Presence.Model

namespace TmVerif.Presence

/-! ### The `presence` dict -/

def keys (pr : Pres) : List (App × Path) := pr.map (fun e => (e.1, e.2.1))

/-- dict keys are unique -/
def PresNodup (pr : Pres) : Prop := (keys pr).Nodup

theorem presLookup_mem {pr : Pres} {app : App} {p : Path} {r : Rsrc}
    (h : presLookup pr app p = some r) : (app, p, r) ∈ pr := by
  induction pr with
  | nil => simp [presLookup] at h
  | cons e t ih =>
    obtain ⟨a, q, r'⟩ := e
    simp only [presLookup] at h
    split at h
    · rename_i hc
      obtain ⟨rfl, rfl⟩ := hc
      cases h
      exact List.mem_cons_self
    · exact List.mem_cons_of_mem _ (ih h)

theorem presLookup_of_mem {pr : Pres} (hn : PresNodup pr) {app : App} {p : Path} {r : Rsrc}
    (h : (app, p, r) ∈ pr) : presLookup pr app p = some r := by
  induction pr with
  | nil => cases h
  | cons e t ih =>
    obtain ⟨a, q, r'⟩ := e
    simp only [PresNodup, keys, List.map_cons, List.nodup_cons] at hn
    simp only [presLookup]
    rcases List.mem_cons.mp h with he | ht
    · cases he; simp
    · split
      · rename_i hc
        obtain ⟨rfl, rfl⟩ := hc
        exfalso
        apply hn.1
        exact List.mem_map.mpr ⟨(a, q, r), ht, rfl⟩
      · exact ih hn.2 ht

theorem keys_presSet (pr : Pres) (app : App) (p : Path) (r : Rsrc) :
    keys (presSet pr app p r) = if (app, p) ∈ keys pr then keys pr else keys pr ++ [(app, p)] := by
  induction pr with
  | nil => simp [presSet, keys]
  | cons e t ih =>
    obtain ⟨a, q, r'⟩ := e
    simp only [presSet]
    split
    · rename_i hc
      obtain ⟨rfl, rfl⟩ := hc
      simp [keys]
    · rename_i hc
      have hne : (app, p) ≠ (a, q) := by
        intro e; cases e; exact hc ⟨rfl, rfl⟩
      simp only [keys, List.map_cons, List.mem_cons, hne, false_or] at ih ⊢
      split
      · rename_i hm; simp only [hm, ↓reduceIte] at ih; rw [ih]
      · rename_i hm; simp only [hm, ↓reduceIte] at ih; rw [ih]; rfl

theorem presNodup_presSet {pr : Pres} (hn : PresNodup pr) (app : App) (p : Path) (r : Rsrc) :
    PresNodup (presSet pr app p r) := by
  unfold PresNodup
  rw [keys_presSet]
  split
  · exact hn
  · rename_i hm
    rw [List.nodup_append]
    refine ⟨hn, by simp, ?_⟩
    intro a ha b hb
    simp only [List.mem_singleton] at hb
    subst hb
    intro e; subst e; exact hm ha

theorem presNodup_presDel {pr : Pres} (hn : PresNodup pr) (app : App) (p : Path) :
    PresNodup (presDel pr app p) := by
  unfold PresNodup keys presDel
  exact (List.filter_sublist.map _).nodup hn

theorem presLookup_presDel_ne (pr : Pres) (app app' : App) (p q : Path) (h : ¬ (app' = app ∧ q = p)) :
    presLookup (presDel pr app p) app' q = presLookup pr app' q := by
  induction pr with
  | nil => rfl
  | cons e t ih =>
    obtain ⟨a, q', r'⟩ := e
    simp only [presDel, List.filter_cons] at ih ⊢
    by_cases hc : a = app ∧ q' = p
    · simp only [hc, and_self, decide_true, Bool.not_true, Bool.false_eq_true, ↓reduceIte, presLookup]
      obtain ⟨rfl, rfl⟩ := hc
      have : ¬ (a = app' ∧ q' = q) := by
        intro ⟨h1, h2⟩; exact h ⟨h1.symm, h2.symm⟩
      simp only [this, ↓reduceIte]
      exact ih
    · simp only [hc, decide_false, Bool.not_false, ↓reduceIte, presLookup]
      split
      · rfl
      · exact ih

theorem presLookup_presDel_self (pr : Pres) (app : App) (p : Path) :
    presLookup (presDel pr app p) app p = none := by
  induction pr with
  | nil => rfl
  | cons e t ih =>
    obtain ⟨a, q', r'⟩ := e
    simp only [presDel, List.filter_cons] at ih ⊢
    by_cases hc : a = app ∧ q' = p
    · simp only [hc, and_self, decide_true, Bool.not_true, Bool.false_eq_true, ↓reduceIte]
      exact ih
    · simp only [hc, decide_false, Bool.not_false, ↓reduceIte, presLookup]
      exact ih

theorem presLookup_presSet_self (pr : Pres) (app : App) (p : Path) (r : Rsrc) :
    presLookup (presSet pr app p r) app p = some r := by
  induction pr with
  | nil => simp [presSet, presLookup]
  | cons e t ih =>
    obtain ⟨a, q', r'⟩ := e
    simp only [presSet]
    split
    · rename_i hc; simp [presLookup, hc]
    · rename_i hc; simp only [presLookup, hc, ↓reduceIte]; exact ih

theorem presLookup_presSet_ne (pr : Pres) (app app' : App) (p q : Path) (r : Rsrc)
    (h : ¬ (app' = app ∧ q = p)) :
    presLookup (presSet pr app p r) app' q = presLookup pr app' q := by
  induction pr with
  | nil =>
    have : ¬ (app = app' ∧ p = q) := by
      intro ⟨h1, h2⟩; exact h ⟨h1.symm, h2.symm⟩
    simp [presSet, presLookup, this]
  | cons e t ih =>
    obtain ⟨a, q', r'⟩ := e
    simp only [presSet]
    split
    · rename_i hc
      obtain ⟨rfl, rfl⟩ := hc
      have : ¬ (a = app' ∧ q' = q) := by
        intro ⟨h1, h2⟩; exact h ⟨h1.symm, h2.symm⟩
      simp [presLookup, this]
    · simp only [presLookup]
      split
      · rfl
      · exact ih

/-- The work list of a delete request: no duplicates, every path registered for `r`. -/
def Scoped (pr : Pres) (r : Rsrc) (app : App) (l : List Path) : Prop :=
  l.Nodup ∧ ∀ q ∈ l, presLookup pr app q = some r

theorem toDelete_mem {pr : Pres} {app : App} {r : Rsrc} {q : Path} (h : q ∈ toDelete pr app r) :
    (app, q, r) ∈ pr := by
  unfold toDelete at h
  obtain ⟨e, he, rfl⟩ := List.mem_map.mp h
  obtain ⟨hm, hc⟩ := List.mem_filter.mp he
  obtain ⟨a, q', r'⟩ := e
  simp only [decide_eq_true_eq] at hc
  obtain ⟨rfl, rfl⟩ := hc
  exact hm

theorem toDelete_nodup {pr : Pres} (hn : PresNodup pr) (app : App) (r : Rsrc) :
    (toDelete pr app r).Nodup := by
  induction pr with
  | nil => simp [toDelete]
  | cons e t ih =>
    obtain ⟨a, q, r'⟩ := e
    simp only [PresNodup, keys, List.map_cons, List.nodup_cons] at hn
    have iht := ih hn.2
    unfold toDelete at iht ⊢
    simp only [List.filter_cons]
    split
    · rename_i hc
      simp only [decide_eq_true_eq] at hc
      obtain ⟨rfl, rfl⟩ := hc
      simp only [List.map_cons, List.nodup_cons]
      refine ⟨?_, iht⟩
      intro hm
      have := toDelete_mem (pr := t) (app := a) (r := r') (q := q) hm
      apply hn.1
      exact List.mem_map.mpr ⟨(a, q, r'), this, rfl⟩
    · exact iht

theorem toDelete_scoped {pr : Pres} (hn : PresNodup pr) (app : App) (r : Rsrc) :
    Scoped pr r app (toDelete pr app r) :=
  ⟨toDelete_nodup hn app r, fun _ hq => presLookup_of_mem hn (toDelete_mem hq)⟩

theorem scoped_tail {pr : Pres} {r : Rsrc} {app : App} {p : Path} {rest : List Path}
    (h : Scoped pr r app (p :: rest)) : Scoped (presDel pr app p) r app rest := by
  obtain ⟨hn, hl⟩ := h
  simp only [List.nodup_cons] at hn
  refine ⟨hn.2, ?_⟩
  intro q hq
  rw [presLookup_presDel_ne]
  · exact hl q (List.mem_cons_of_mem _ hq)
  · intro ⟨_, e⟩; subst e; exact hn.1 hq

/-! ### ZooKeeper map -/

theorem mkParents_cons_some {zk : ZK} {a : Path} {v : Node} (as : List Path) (h : zk a = some v) :
    zk.mkParents (a :: as) = zk.mkParents as := by
  simp only [ZK.mkParents, h]

theorem mkParents_cons_none {zk : ZK} {a : Path} (as : List Path) (h : zk a = none) :
    zk.mkParents (a :: as) = (zk.put a ⟨⟨0, 0⟩, none⟩).mkParents as := by
  simp only [ZK.mkParents, h]

theorem mkParents_some (ps : List Path) : ∀ (zk : ZK) (p : Path) (nd : Node),
    zk p = some nd → (zk.mkParents ps) p = some nd := by
  induction ps with
  | nil => intro zk p nd h; exact h
  | cons a as ih =>
    intro zk p nd h
    cases hz : zk a with
    | some v => rw [mkParents_cons_some as hz]; exact ih zk p nd h
    | none =>
      rw [mkParents_cons_none as hz]
      apply ih
      simp only [ZK.put]
      split
      · rename_i e; subst e; rw [h] at hz; cases hz
      · exact h

theorem mkParents_cases (ps : List Path) : ∀ (zk : ZK) (p : Path),
    (zk.mkParents ps) p = zk p ∨ (zk p = none ∧ (zk.mkParents ps) p = some ⟨⟨0, 0⟩, none⟩) := by
  induction ps with
  | nil => intro zk p; exact Or.inl rfl
  | cons a as ih =>
    intro zk p
    cases hz : zk a with
    | some v => rw [mkParents_cons_some as hz]; exact ih zk p
    | none =>
      rw [mkParents_cons_none as hz]
      rcases ih (zk.put a ⟨⟨0, 0⟩, none⟩) p with h | ⟨h1, h2⟩
      · by_cases e : p = a
        · subst e
          right
          refine ⟨hz, ?_⟩
          rw [h]; simp [ZK.put]
        · left; rw [h]; simp [ZK.put, e]
      · by_cases e : p = a
        · subst e; simp [ZK.put] at h1
        · right
          refine ⟨?_, h2⟩
          simpa [ZK.put, e] using h1

/-! ### Basic projections of the state combinators -/

@[simp] theorem setSvc_zk (st : St) (i : Nat) (sv : Svc) : (st.setSvc i sv).zk = st.zk := rfl
@[simp] theorem setSvc_n (st : St) (i : Nat) (sv : Svc) : (st.setSvc i sv).n = st.n := rfl
@[simp] theorem setSvc_nextSess (st : St) (i : Nat) (sv : Svc) : (st.setSvc i sv).nextSess = st.nextSess := rfl
@[simp] theorem setSvc_self (st : St) (i : Nat) (sv : Svc) : (st.setSvc i sv).svcs i = sv := by
  simp [St.setSvc]
theorem setSvc_ne (st : St) (i j : Nat) (sv : Svc) (h : j ≠ i) : (st.setSvc i sv).svcs j = st.svcs j := by
  simp [St.setSvc, h]

@[simp] theorem fire_zk (st : St) (g : Path → Bool) : (St.fire st g).zk = st.zk := rfl
@[simp] theorem fire_n (st : St) (g : Path → Bool) : (St.fire st g).n = st.n := rfl
@[simp] theorem fire_nextSess (st : St) (g : Path → Bool) : (St.fire st g).nextSess = st.nextSess := rfl
@[simp] theorem fire_svcs (st : St) (g : Path → Bool) (j : Nat) :
    (St.fire st g).svcs j = (st.svcs j).fire g := rfl
@[simp] theorem svc_fire_session (sv : Svc) (g : Path → Bool) : (sv.fire g).session = sv.session := rfl
@[simp] theorem svc_fire_pres (sv : Svc) (g : Path → Bool) : (sv.fire g).pres = sv.pres := rfl
@[simp] theorem svc_fire_pc (sv : Svc) (g : Path → Bool) : (sv.fire g).pc = sv.pc := rfl
@[simp] theorem svc_fire_res (sv : Svc) (g : Path → Bool) : (sv.fire g).res = sv.res := rfl

@[simp] theorem delNode_zk (st : St) (p : Path) : (st.delNode p).zk = st.zk.del p := rfl
@[simp] theorem delNode_n (st : St) (p : Path) : (st.delNode p).n = st.n := rfl
@[simp] theorem delNode_nextSess (st : St) (p : Path) : (st.delNode p).nextSess = st.nextSess := rfl
@[simp] theorem delNode_svcs (st : St) (p : Path) (j : Nat) :
    (st.delNode p).svcs j = (st.svcs j).fire (fun q => q = p) := rfl

/-! ### One ZooKeeper call -/

def Owned (zk : ZK) (s : Sess) (p : Path) : Prop := ∃ nd, zk p = some nd ∧ nd.owner = some s

/-- How one ZooKeeper call of client `i` can change the node table. -/
inductive ZkChange (st : St) (i : Nat) (zk' : ZK) : Prop
  | same : zk' = st.zk → ZkChange st i zk'
  | create (r app it rest) : (st.svcs i).pc = .crCreate r app it rest → st.zk it.path = none →
      zk' = (st.zk.mkParents it.parents).put it.path ⟨it.data, some (st.svcs i).session⟩ → ZkChange st i zk'
  | set (r app it rest nd) : (st.svcs i).pc = .crSet r app it rest → st.zk it.path = some nd →
      zk' = st.zk.put it.path { nd with data := it.data } → ZkChange st i zk'
  | delete (p nd) : ((∃ r app rest, (st.svcs i).pc = .dlDelete r app p rest) ∨
        (∃ h d rest, (st.svcs i).pc = .unDelete h d p rest) ∨ (st.svcs i).pc = .usDelete p) →
      st.zk p = some nd → zk' = st.zk.del p → ZkChange st i zk'

theorem stepSvc_zk_cases (st : St) (i : Nat) : ZkChange st i (stepSvc st i).zk := by
  cases hpc : (st.svcs i).pc with
  | idle => simp only [stepSvc, hpc]; exact .same rfl
  | crCreate r app it rest =>
    simp only [stepSvc, hpc, stepCrCreate]
    cases hz : st.zk it.path with
    | some v => exact .same rfl
    | none => exact .create r app it rest hpc hz rfl
  | crGet r app it rest =>
    simp only [stepSvc, hpc, stepCrGet]
    cases hz : st.zk it.path with
    | none => exact .same rfl
    | some v =>
      simp only []
      split
      · split <;> exact .same rfl
      · exact .same rfl
  | crSet r app it rest =>
    simp only [stepSvc, hpc, stepCrSet]
    cases hz : st.zk it.path with
    | none => exact .same rfl
    | some v => exact .set r app it rest v hpc hz rfl
  | crWatch r app it rest =>
    simp only [stepSvc, hpc, stepCrWatch]
    cases hz : st.zk it.path <;> exact .same rfl
  | dlGet r app p rest =>
    simp only [stepSvc, hpc, stepDlGet]
    cases hz : st.zk p with
    | none => exact .same rfl
    | some v => simp only []; split <;> exact .same rfl
  | dlChildren r app p rest =>
    simp only [stepSvc, hpc, stepDlChildren]
    cases hz : st.zk p <;> exact .same rfl
  | dlDelete r app p rest =>
    simp only [stepSvc, hpc, stepDlDelete]
    cases hz : st.zk p with
    | none => exact .same rfl
    | some v => exact .delete p v (Or.inl ⟨r, app, rest, hpc⟩) hz rfl
  | unGet h d p rest =>
    simp only [stepSvc, hpc, stepUnGet]
    cases hz : st.zk p with
    | none => exact .same rfl
    | some v => simp only []; split <;> exact .same rfl
  | unChildren h d p rest =>
    simp only [stepSvc, hpc, stepUnChildren]
    cases hz : st.zk p <;> exact .same rfl
  | unDelete h d p rest =>
    simp only [stepSvc, hpc, stepUnDelete]
    cases hz : st.zk p with
    | none => exact .same rfl
    | some v => exact .delete p v (Or.inr (Or.inl ⟨h, d, rest, hpc⟩)) hz rfl
  | usExists pl sc =>
    simp only [stepSvc, hpc, stepUsExists]
    cases hz : st.zk pl <;> exact .same rfl
  | usChildren sc =>
    simp only [stepSvc, hpc, stepUsChildren]
    cases hz : st.zk sc <;> exact .same rfl
  | usDelete sc =>
    simp only [stepSvc, hpc, stepUsDelete]
    cases hz : st.zk sc with
    | none => exact .same rfl
    | some v => exact .delete sc v (Or.inr (Or.inr hpc)) hz rfl

/-- What the program counter of a PRESENCE-SERVICE method promises about the node table. -/
def PcOk (zk : ZK) (sv : Svc) : Prop :=
  match sv.pc with
  | .idle => True
  | .crCreate _ _ _ _ => True
  | .crGet _ _ _ _ => True
  | .crWatch _ _ _ _ => True
  | .crSet _ _ it _ => Owned zk sv.session it.path
  | .dlGet r app p rest => Scoped sv.pres r app (p :: rest)
  | .dlChildren r app p rest => Owned zk sv.session p ∧ Scoped sv.pres r app (p :: rest)
  | .dlDelete r app p rest => Owned zk sv.session p ∧ Scoped sv.pres r app (p :: rest)
  | _ => False

def SvcOk (zk : ZK) (sv : Svc) : Prop := PresNodup sv.pres ∧ PcOk zk sv

/-- Nodes that exist and are not owned by session `s` are untouched. -/
def Frame (s : Sess) (zk zk' : ZK) : Prop :=
  ∀ p nd, zk p = some nd → nd.owner ≠ some s → zk' p = some nd

/-- Same session, `presence` dict and program counter (watch bookkeeping may differ). -/
def Core (sv sv' : Svc) : Prop := sv'.session = sv.session ∧ sv'.pres = sv.pres ∧ sv'.pc = sv.pc

theorem Core.refl (sv : Svc) : Core sv sv := ⟨rfl, rfl, rfl⟩
theorem core_fire (sv : Svc) (g : Path → Bool) : Core sv (sv.fire g) := ⟨rfl, rfl, rfl⟩

theorem frame_of_change {st : St} {i : Nat} {zk' : ZK} (hok : PcOk st.zk (st.svcs i))
    (hc : ZkChange st i zk') : Frame (st.svcs i).session st.zk zk' := by
  intro p nd hp hown
  cases hc with
  | same h => rw [h]; exact hp
  | create r app it rest hpc hz h =>
    rw [h]
    simp only [ZK.put]
    split
    · rename_i e; subst e; rw [hp] at hz; cases hz
    · exact mkParents_some _ _ _ _ hp
  | set r app it rest nd0 hpc hz h =>
    rw [h]
    simp only [ZK.put]
    split
    · rename_i e
      subst e
      exfalso
      simp only [PcOk, hpc] at hok
      obtain ⟨nd1, h1, h2⟩ := hok
      rw [hp] at h1; cases h1
      exact hown h2
    · exact hp
  | delete q nd0 hpc hz h =>
    rw [h]
    simp only [ZK.del]
    split
    · rename_i e
      subst e
      exfalso
      rcases hpc with ⟨r, app, rest, hpc⟩ | ⟨hh, d, rest, hpc⟩ | hpc
      · simp only [PcOk, hpc] at hok
        obtain ⟨⟨nd1, h1, h2⟩, _⟩ := hok
        rw [hp] at h1; cases h1
        exact hown h2
      · simp only [PcOk, hpc] at hok
      · simp only [PcOk, hpc] at hok
    · exact hp

theorem crAdvance_core (sv : Svc) (r : Rsrc) (app : App) (it : Item) (rest : List Item) :
    (crAdvance sv r app it rest).session = sv.session ∧
    (crAdvance sv r app it rest).pres = presSet sv.pres app it.path r := by
  cases rest <;> exact ⟨rfl, rfl⟩

theorem dlNext_core (sv : Svc) (r : Rsrc) (app : App) (p : Path) (rest : List Path) :
    (dlNext sv r app p rest).session = sv.session ∧
    (dlNext sv r app p rest).pres = presDel sv.pres app p := by
  cases rest <;> exact ⟨rfl, rfl⟩

theorem unNext_session (sv : Svc) (h : Nat) (d : Bool) (rest : List Path) :
    (unNext sv h d rest).session = sv.session := by
  cases rest <;> rfl

theorem crAdvance_ok {sv : Svc} (hn : PresNodup sv.pres) (zk' : ZK) (r : Rsrc) (app : App) (it : Item)
    (rest : List Item) : SvcOk zk' (crAdvance sv r app it rest) := by
  cases rest with
  | nil => exact ⟨presNodup_presSet hn _ _ _, trivial⟩
  | cons a b => exact ⟨presNodup_presSet hn _ _ _, trivial⟩

theorem dlNext_ok {sv : Svc} (hn : PresNodup sv.pres) (zk' : ZK) {r : Rsrc} {app : App} {p : Path}
    {rest : List Path} (hs : Scoped sv.pres r app (p :: rest)) : SvcOk zk' (dlNext sv r app p rest) := by
  cases rest with
  | nil => exact ⟨presNodup_presDel hn _ _, trivial⟩
  | cons a b => exact ⟨presNodup_presDel hn _ _, scoped_tail hs⟩

/-- One call of client `i` keeps its own promise. -/
theorem stepSvc_self (st : St) (i : Nat) (hok : SvcOk st.zk (st.svcs i)) :
    SvcOk (stepSvc st i).zk ((stepSvc st i).svcs i) := by
  obtain ⟨hn, hpcok⟩ := hok
  cases hpc : (st.svcs i).pc with
  | idle => simp only [stepSvc, hpc]; exact ⟨hn, by simp [PcOk, hpc]⟩
  | crCreate r app it rest =>
    simp only [stepSvc, hpc, stepCrCreate]
    cases hz : st.zk it.path with
    | some v => simp only [setSvc_zk, setSvc_self]; exact ⟨hn, trivial⟩
    | none => simp only [setSvc_zk, setSvc_self]; exact crAdvance_ok hn _ _ _ _ _
  | crGet r app it rest =>
    simp only [stepSvc, hpc, stepCrGet]
    cases hz : st.zk it.path with
    | none => simp only [setSvc_zk, setSvc_self]; exact ⟨hn, trivial⟩
    | some v =>
      simp only []
      split
      · rename_i hown
        split
        · simp only [setSvc_zk, setSvc_self]; exact crAdvance_ok hn _ _ _ _ _
        · simp only [setSvc_zk, setSvc_self]; exact ⟨hn, ⟨v, hz, hown⟩⟩
      · simp only [setSvc_zk, setSvc_self]; exact ⟨hn, trivial⟩
  | crSet r app it rest =>
    simp only [stepSvc, hpc, stepCrSet]
    cases hz : st.zk it.path with
    | none => simp only [setSvc_zk, setSvc_self]; exact ⟨hn, trivial⟩
    | some v => simp only [setSvc_zk, setSvc_self]; exact crAdvance_ok hn _ _ _ _ _
  | crWatch r app it rest =>
    simp only [stepSvc, hpc, stepCrWatch]
    cases hz : st.zk it.path <;> simp only [setSvc_zk, setSvc_self] <;> exact ⟨hn, trivial⟩
  | dlGet r app p rest =>
    simp only [PcOk, hpc] at hpcok
    simp only [stepSvc, hpc, stepDlGet]
    cases hz : st.zk p with
    | none => simp only [setSvc_zk, setSvc_self]; exact dlNext_ok hn _ hpcok
    | some v =>
      simp only []
      split
      · rename_i hown
        simp only [setSvc_zk, setSvc_self]; exact ⟨hn, ⟨v, hz, hown⟩, hpcok⟩
      · simp only [setSvc_zk, setSvc_self]; exact dlNext_ok hn _ hpcok
  | dlChildren r app p rest =>
    simp only [PcOk, hpc] at hpcok
    simp only [stepSvc, hpc, stepDlChildren]
    cases hz : st.zk p with
    | none => simp only [setSvc_zk, setSvc_self]; exact dlNext_ok hn _ hpcok.2
    | some v => simp only [setSvc_zk, setSvc_self]; exact ⟨hn, hpcok⟩
  | dlDelete r app p rest =>
    simp only [PcOk, hpc] at hpcok
    simp only [stepSvc, hpc, stepDlDelete]
    cases hz : st.zk p with
    | none => simp only [setSvc_zk, setSvc_self]; exact dlNext_ok hn _ hpcok.2
    | some v =>
      simp only [setSvc_zk, setSvc_self, delNode_svcs]
      exact dlNext_ok (sv := (st.svcs i).fire _) hn _ hpcok.2
  | unGet h d p rest => simp only [PcOk, hpc] at hpcok
  | unChildren h d p rest => simp only [PcOk, hpc] at hpcok
  | unDelete h d p rest => simp only [PcOk, hpc] at hpcok
  | usExists pl sc => simp only [PcOk, hpc] at hpcok
  | usChildren sc => simp only [PcOk, hpc] at hpcok
  | usDelete sc => simp only [PcOk, hpc] at hpcok

theorem core_of_eq {sv sv' : Svc} (h : sv' = sv) : Core sv sv' := by subst h; exact Core.refl _

/-- One call of client `i`: bookkeeping that does not change, and the other clients' cores. -/
theorem stepSvc_misc (st : St) (i : Nat) :
    (stepSvc st i).n = st.n ∧ (stepSvc st i).nextSess = st.nextSess ∧
    ((stepSvc st i).svcs i).session = (st.svcs i).session ∧
    ∀ j, j ≠ i → Core (st.svcs j) ((stepSvc st i).svcs j) := by
  cases hpc : (st.svcs i).pc with
  | idle =>
    have h : stepSvc st i = st := by simp only [stepSvc, hpc]
    rw [h]; exact ⟨rfl, rfl, rfl, fun j _ => Core.refl _⟩
  | crCreate r app it rest =>
    simp only [stepSvc, hpc, stepCrCreate]
    cases hz : st.zk it.path with
    | some v => exact ⟨rfl, rfl, by simp, fun j hj => core_of_eq (setSvc_ne _ _ _ _ hj)⟩
    | none => exact ⟨rfl, rfl, by simp [(crAdvance_core _ _ _ _ _).1], fun j hj => core_of_eq (setSvc_ne _ _ _ _ hj)⟩
  | crGet r app it rest =>
    simp only [stepSvc, hpc, stepCrGet]
    cases hz : st.zk it.path with
    | none => exact ⟨rfl, rfl, by simp, fun j hj => core_of_eq (setSvc_ne _ _ _ _ hj)⟩
    | some v =>
      simp only []
      split
      · split
        · exact ⟨rfl, rfl, by simp [(crAdvance_core _ _ _ _ _).1], fun j hj => core_of_eq (setSvc_ne _ _ _ _ hj)⟩
        · exact ⟨rfl, rfl, by simp, fun j hj => core_of_eq (setSvc_ne _ _ _ _ hj)⟩
      · exact ⟨rfl, rfl, by simp, fun j hj => core_of_eq (setSvc_ne _ _ _ _ hj)⟩
  | crSet r app it rest =>
    simp only [stepSvc, hpc, stepCrSet]
    cases hz : st.zk it.path with
    | none => exact ⟨rfl, rfl, by simp, fun j hj => core_of_eq (setSvc_ne _ _ _ _ hj)⟩
    | some v => exact ⟨rfl, rfl, by simp [(crAdvance_core _ _ _ _ _).1], fun j hj => core_of_eq (setSvc_ne _ _ _ _ hj)⟩
  | crWatch r app it rest =>
    simp only [stepSvc, hpc, stepCrWatch]
    cases hz : st.zk it.path <;>
      exact ⟨rfl, rfl, by simp, fun j hj => core_of_eq (setSvc_ne _ _ _ _ hj)⟩
  | dlGet r app p rest =>
    simp only [stepSvc, hpc, stepDlGet]
    cases hz : st.zk p with
    | none => exact ⟨rfl, rfl, by simp [(dlNext_core _ _ _ _ _).1], fun j hj => core_of_eq (setSvc_ne _ _ _ _ hj)⟩
    | some v =>
      simp only []
      split
      · exact ⟨rfl, rfl, by simp, fun j hj => core_of_eq (setSvc_ne _ _ _ _ hj)⟩
      · exact ⟨rfl, rfl, by simp [(dlNext_core _ _ _ _ _).1], fun j hj => core_of_eq (setSvc_ne _ _ _ _ hj)⟩
  | dlChildren r app p rest =>
    simp only [stepSvc, hpc, stepDlChildren]
    cases hz : st.zk p with
    | none => exact ⟨rfl, rfl, by simp [(dlNext_core _ _ _ _ _).1], fun j hj => core_of_eq (setSvc_ne _ _ _ _ hj)⟩
    | some v => exact ⟨rfl, rfl, by simp, fun j hj => core_of_eq (setSvc_ne _ _ _ _ hj)⟩
  | dlDelete r app p rest =>
    simp only [stepSvc, hpc, stepDlDelete]
    cases hz : st.zk p with
    | none => exact ⟨rfl, rfl, by simp [(dlNext_core _ _ _ _ _).1], fun j hj => core_of_eq (setSvc_ne _ _ _ _ hj)⟩
    | some v =>
      refine ⟨rfl, rfl, by simp [(dlNext_core _ _ _ _ _).1], fun j hj => ?_⟩
      simp only [setSvc_ne _ _ _ _ hj, delNode_svcs]
      exact core_fire _ _
  | unGet h d p rest =>
    simp only [stepSvc, hpc, stepUnGet]
    cases hz : st.zk p with
    | none => exact ⟨rfl, rfl, by simp [unNext_session], fun j hj => core_of_eq (setSvc_ne _ _ _ _ hj)⟩
    | some v =>
      simp only []
      split
      · exact ⟨rfl, rfl, by simp, fun j hj => core_of_eq (setSvc_ne _ _ _ _ hj)⟩
      · exact ⟨rfl, rfl, by simp [unNext_session], fun j hj => core_of_eq (setSvc_ne _ _ _ _ hj)⟩
  | unChildren h d p rest =>
    simp only [stepSvc, hpc, stepUnChildren]
    cases hz : st.zk p with
    | none => exact ⟨rfl, rfl, by simp [unNext_session], fun j hj => core_of_eq (setSvc_ne _ _ _ _ hj)⟩
    | some v => exact ⟨rfl, rfl, by simp, fun j hj => core_of_eq (setSvc_ne _ _ _ _ hj)⟩
  | unDelete h d p rest =>
    simp only [stepSvc, hpc, stepUnDelete]
    cases hz : st.zk p with
    | none => exact ⟨rfl, rfl, by simp [unNext_session], fun j hj => core_of_eq (setSvc_ne _ _ _ _ hj)⟩
    | some v =>
      refine ⟨rfl, rfl, by simp [unNext_session], fun j hj => ?_⟩
      simp only [setSvc_ne _ _ _ _ hj, delNode_svcs]
      exact core_fire _ _
  | usExists pl sc =>
    simp only [stepSvc, hpc, stepUsExists]
    cases hz : st.zk pl <;>
      exact ⟨rfl, rfl, by simp [finish], fun j hj => core_of_eq (setSvc_ne _ _ _ _ hj)⟩
  | usChildren sc =>
    simp only [stepSvc, hpc, stepUsChildren]
    cases hz : st.zk sc <;>
      exact ⟨rfl, rfl, by simp [finish], fun j hj => core_of_eq (setSvc_ne _ _ _ _ hj)⟩
  | usDelete sc =>
    simp only [stepSvc, hpc, stepUsDelete]
    cases hz : st.zk sc with
    | none => exact ⟨rfl, rfl, by simp [finish], fun j hj => core_of_eq (setSvc_ne _ _ _ _ hj)⟩
    | some v =>
      refine ⟨rfl, rfl, by simp [finish], fun j hj => ?_⟩
      simp only [setSvc_ne _ _ _ _ hj, delNode_svcs]
      exact core_fire _ _

/-- The operations C17 quantifies over: create/delete requests of the presence services, their
    individual ZooKeeper calls in any interleaving, session expiry (which aborts the in-flight
    method) and other clients writing persistent nodes.  Excluded: `reconnect` (expiry WITHOUT abort,
    the check-then-delete window assumption) and the `unregister_*` / `_unschedule` requests (they
    have their own theorems). -/
def Op.presence : Op → Bool
  | .start _ (.create _ _ _) => true
  | .start _ (.delete _ _) => true
  | .start _ _ => false
  | .step _ => true
  | .expire _ _ => true
  | .reconnect _ => false
  | .envPut _ _ => true
  | .envDel _ => true

structure Inv (st : St) : Prop where
  distinct : ∀ i j, i < st.n → j < st.n → i ≠ j → (st.svcs i).session ≠ (st.svcs j).session
  bound : ∀ i, i < st.n → (st.svcs i).session < st.nextSess
  ok : ∀ i, i < st.n → SvcOk st.zk (st.svcs i)

theorem svcOk_transfer {zk zk' : ZK} {sv sv' : Svc} (h : SvcOk zk sv) (hc : Core sv sv')
    (ho : ∀ p, Owned zk sv.session p → Owned zk' sv.session p) : SvcOk zk' sv' := by
  obtain ⟨hs, hp, hpc⟩ := hc
  obtain ⟨hn, hk⟩ := h
  refine ⟨by rw [hp]; exact hn, ?_⟩
  unfold PcOk at hk ⊢
  rw [hpc, hs, hp]
  cases hq : sv.pc <;> simp only [hq] at hk ⊢ <;> first
    | trivial
    | exact ho _ hk
    | exact hk
    | exact ⟨ho _ hk.1, hk.2⟩

theorem owned_of_frame {s s' : Sess} {zk zk' : ZK} (hf : Frame s zk zk') (hne : s' ≠ s) {p : Path}
    (h : Owned zk s' p) : Owned zk' s' p := by
  obtain ⟨nd, h1, h2⟩ := h
  refine ⟨nd, hf p nd h1 ?_, h2⟩
  rw [h2]; intro e; cases e; exact hne rfl

theorem inv_step {st : St} (hinv : Inv st) {i : Nat} (hi : i < st.n) : Inv (stepSvc st i) := by
  obtain ⟨hn, hns, hsi, hoth⟩ := stepSvc_misc st i
  have hsess : ∀ k, ((stepSvc st i).svcs k).session = (st.svcs k).session := by
    intro k
    by_cases hk : k = i
    · subst hk; exact hsi
    · exact (hoth k hk).1
  have hframe := frame_of_change (hinv.ok i hi).2 (stepSvc_zk_cases st i)
  refine ⟨?_, ?_, ?_⟩
  · intro a b ha hb hab
    rw [hsess a, hsess b]
    rw [hn] at ha hb
    exact hinv.distinct a b ha hb hab
  · intro a ha
    rw [hsess a, hns]
    rw [hn] at ha
    exact hinv.bound a ha
  · intro a ha
    rw [hn] at ha
    by_cases hk : a = i
    · subst hk; exact stepSvc_self st a (hinv.ok a ha)
    · exact svcOk_transfer (hinv.ok a ha) (hoth a hk)
        (fun p hp => owned_of_frame hframe (hinv.distinct a i ha hi hk) hp)

theorem startReq_ok {zk : ZK} {sv : Svc} (h : SvcOk zk sv) (q : Req) (hq : (Op.start 0 q).presence = true) :
    SvcOk zk (startReq sv q) ∧ (startReq sv q).session = sv.session := by
  obtain ⟨hn, _⟩ := h
  cases q with
  | create r app items =>
    cases items with
    | nil => exact ⟨⟨hn, trivial⟩, rfl⟩
    | cons it rest => exact ⟨⟨hn, trivial⟩, rfl⟩
  | delete r app =>
    simp only [startReq]
    have hs := toDelete_scoped hn app r
    cases htd : toDelete sv.pres app r with
    | nil => exact ⟨⟨hn, trivial⟩, rfl⟩
    | cons p rest =>
      rw [htd] at hs
      exact ⟨⟨hn, hs⟩, rfl⟩
  | unreg h d ps => simp [Op.presence] at hq
  | unsched pl sc => simp [Op.presence] at hq

theorem inv_start {st : St} (hinv : Inv st) (i : Nat) (q : Req) (hq : (Op.start i q).presence = true) :
    Inv (applyOp st (.start i q)) := by
  simp only [applyOp]
  split
  · rename_i hc
    have hq0 : (Op.start 0 q).presence = true := by cases q <;> simp [Op.presence] at hq ⊢
    obtain ⟨hok, hs⟩ := startReq_ok (hinv.ok i hc.1) q hq0
    have hsess : ∀ k, ((st.setSvc i (startReq (st.svcs i) q)).svcs k).session = (st.svcs k).session := by
      intro k
      by_cases hk : k = i
      · subst hk; simp [hs]
      · rw [setSvc_ne _ _ _ _ hk]
    refine ⟨?_, ?_, ?_⟩
    · intro a b ha hb hab
      rw [hsess a, hsess b]
      exact hinv.distinct a b ha hb hab
    · intro a ha
      rw [hsess a]; exact hinv.bound a ha
    · intro a ha
      by_cases hk : a = i
      · subst hk; simp only [setSvc_zk, setSvc_self]; exact hok
      · rw [setSvc_ne _ _ _ _ hk]; exact hinv.ok a ha
  · exact hinv

theorem owned_dropSession {zk : ZK} {s s' : Sess} (hne : s' ≠ s) {p : Path} (h : Owned zk s' p) :
    Owned (zk.dropSession s) s' p := by
  obtain ⟨nd, h1, h2⟩ := h
  refine ⟨nd, ?_, h2⟩
  simp only [ZK.dropSession, h1, h2]
  split
  · rename_i e; cases e; exact absurd rfl hne
  · rfl

theorem expireSvc_facts (sv : Svc) (zk1 : ZK) (keep : Bool) (fresh : Sess) (hn : PresNodup sv.pres) :
    (expireSvc sv zk1 keep fresh).session = fresh ∧ (expireSvc sv zk1 keep fresh).pc = .idle ∧
    PresNodup (expireSvc sv zk1 keep fresh).pres := by
  cases keep
  · exact ⟨rfl, rfl, by simp [expireSvc, PresNodup, keys]⟩
  · exact ⟨rfl, rfl, hn⟩

theorem inv_expire {st : St} (hinv : Inv st) (i : Nat) (keep : Bool) :
    Inv (applyOp st (.expire i keep)) := by
  simp only [applyOp]
  split
  · rename_i hi
    have hself : ((st.expire i keep).svcs i) =
        expireSvc ((st.svcs i).fire (ownedBy st.zk (st.svcs i).session))
          (st.zk.dropSession (st.svcs i).session) keep st.nextSess := by
      simp [St.expire, St.dropSession]
    have hoth : ∀ a, a ≠ i → ((st.expire i keep).svcs a) = (st.svcs a).fire (ownedBy st.zk (st.svcs i).session) := by
      intro a ha; simp [St.expire, St.dropSession, ha]
    have hf := expireSvc_facts ((st.svcs i).fire (ownedBy st.zk (st.svcs i).session))
      (st.zk.dropSession (st.svcs i).session) keep st.nextSess (hinv.ok i hi).1
    have hn : (st.expire i keep).n = st.n := rfl
    have hns : (st.expire i keep).nextSess = st.nextSess + 1 := rfl
    have hzk : (st.expire i keep).zk = st.zk.dropSession (st.svcs i).session := rfl
    refine ⟨?_, ?_, ?_⟩
    · intro a b ha hb hab
      rw [hn] at ha hb
      by_cases hai : a = i
      · subst hai
        have hbi : b ≠ a := fun e => hab e.symm
        rw [hself, hoth b hbi, hf.1, svc_fire_session]
        exact Nat.ne_of_gt (hinv.bound b hb)
      · by_cases hbi : b = i
        · subst hbi
          rw [hself, hoth a hai, hf.1, svc_fire_session]
          exact Nat.ne_of_lt (hinv.bound a ha)
        · rw [hoth a hai, hoth b hbi, svc_fire_session, svc_fire_session]
          exact hinv.distinct a b ha hb hab
    · intro a ha
      rw [hn] at ha
      rw [hns]
      by_cases hai : a = i
      · subst hai; rw [hself, hf.1]; exact Nat.lt_succ_self _
      · rw [hoth a hai, svc_fire_session]
        exact Nat.lt_succ_of_lt (hinv.bound a ha)
    · intro a ha
      rw [hn] at ha
      rw [hzk]
      by_cases hai : a = i
      · subst hai
        rw [hself]
        refine ⟨hf.2.2, ?_⟩
        unfold PcOk; rw [hf.2.1]; trivial
      · rw [hoth a hai]
        refine svcOk_transfer (hinv.ok a ha) (core_fire _ _) ?_
        intro p hp
        exact owned_dropSession (hinv.distinct a i ha hi hai) hp
  · exact hinv

theorem inv_envPut {st : St} (hinv : Inv st) (p : Path) (d : Data) : Inv (applyOp st (.envPut p d)) := by
  simp only [applyOp]
  split
  · rename_i hg
    refine ⟨hinv.distinct, hinv.bound, ?_⟩
    intro a ha
    refine svcOk_transfer (hinv.ok a ha) (Core.refl _) ?_
    intro q hq
    obtain ⟨nd, h1, h2⟩ := hq
    refine ⟨nd, ?_, h2⟩
    simp only [ZK.put]
    split
    · rename_i e
      subst e
      simp only [isPersistentOrAbsent, h1, h2] at hg
      cases hg
    · exact h1
  · exact hinv

theorem inv_envDel {st : St} (hinv : Inv st) (p : Path) : Inv (applyOp st (.envDel p)) := by
  simp only [applyOp]
  cases hz : st.zk p with
  | none => exact hinv
  | some nd0 =>
    simp only []
    split
    · rename_i hg
      refine ⟨?_, ?_, ?_⟩
      · intro a b ha hb hab
        simp only [delNode_svcs, svc_fire_session]
        exact hinv.distinct a b ha hb hab
      · intro a ha
        simp only [delNode_svcs, svc_fire_session, delNode_nextSess]
        exact hinv.bound a ha
      · intro a ha
        simp only [delNode_svcs, delNode_zk]
        refine svcOk_transfer (hinv.ok a ha) (core_fire _ _) ?_
        intro q hq
        obtain ⟨nd, h1, h2⟩ := hq
        refine ⟨nd, ?_, h2⟩
        simp only [ZK.del]
        split
        · rename_i e
          subst e
          rw [hz] at h1; cases h1
          rw [h2] at hg; cases hg
        · exact h1
    · exact hinv

theorem inv_applyOp {st : St} (hinv : Inv st) (op : Op) (hop : op.presence = true) : Inv (applyOp st op) := by
  cases op with
  | start i q => exact inv_start hinv i q hop
  | step i =>
    simp only [applyOp]
    split
    · rename_i hi; exact inv_step hinv hi
    · exact hinv
  | expire i keep => exact inv_expire hinv i keep
  | reconnect i => simp [Op.presence] at hop
  | envPut p d => exact inv_envPut hinv p d
  | envDel p => exact inv_envDel hinv p

theorem inv_run (ops : List Op) : ∀ {st : St}, Inv st → (∀ o ∈ ops, o.presence = true) → Inv (run st ops) := by
  induction ops with
  | nil => intro st h _; exact h
  | cons op ops ih =>
    intro st h hall
    simp only [run, List.foldl_cons]
    exact ih (inv_applyOp h op (hall op List.mem_cons_self)) (fun o ho => hall o (List.mem_cons_of_mem _ ho))

theorem inv_init (n : Nat) (zk : ZK) : Inv (St.init n zk) := by
  refine ⟨?_, ?_, ?_⟩
  · intro a b _ _ hab; simp only [St.init]; exact fun e => hab (Nat.succ.inj e)
  · intro a ha; simp only [St.init] at ha ⊢; exact Nat.succ_lt_succ ha
  · intro a _; exact ⟨by simp [St.init, PresNodup, keys], trivial⟩

theorem mkParents_mem (ps : List Path) : ∀ (zk : ZK) (p : Path) (nd : Node),
    zk p = none → (zk.mkParents ps) p = some nd → p ∈ ps := by
  induction ps with
  | nil => intro zk p nd h h'; simp only [ZK.mkParents] at h'; rw [h] at h'; cases h'
  | cons a as ih =>
    intro zk p nd h h'
    by_cases e : p = a
    · subst e; exact List.mem_cons_self
    · apply List.mem_cons_of_mem
      cases hz : zk a with
      | some v => rw [mkParents_cons_some as hz] at h'; exact ih zk p nd h h'
      | none =>
        rw [mkParents_cons_none as hz] at h'
        exact ih _ p nd (by simp [ZK.put, e, h]) h'

/-- The create request (id, app, current item) a program counter belongs to. -/
def Pc.creating : Pc → Option (Rsrc × App × Item)
  | .crCreate r app it _ => some (r, app, it)
  | .crGet r app it _ => some (r, app, it)
  | .crSet r app it _ => some (r, app, it)
  | .crWatch r app it _ => some (r, app, it)
  | _ => none

/-- The delete request (id, app, current path) a program counter belongs to. -/
def Pc.deleting : Pc → Option (Rsrc × App × Path)
  | .dlGet r app p _ => some (r, app, p)
  | .dlChildren r app p _ => some (r, app, p)
  | .dlDelete r app p _ => some (r, app, p)
  | _ => none

/-- How one ZooKeeper call of client `i` can change its `presence` dict. -/
inductive PresChange (st : St) (i : Nat) (pr' : Pres) : Prop
  | same : pr' = (st.svcs i).pres → PresChange st i pr'
  | set (r app it) : (st.svcs i).pc.creating = some (r, app, it) →
      pr' = presSet (st.svcs i).pres app it.path r → PresChange st i pr'
  | del (r app p) : (st.svcs i).pc.deleting = some (r, app, p) →
      pr' = presDel (st.svcs i).pres app p → PresChange st i pr'

theorem unNext_pres (sv : Svc) (h : Nat) (d : Bool) (rest : List Path) :
    (unNext sv h d rest).pres = sv.pres := by
  cases rest <;> rfl

theorem stepSvc_pres_cases (st : St) (i : Nat) : PresChange st i ((stepSvc st i).svcs i).pres := by
  cases hpc : (st.svcs i).pc with
  | idle =>
    have h : stepSvc st i = st := by simp only [stepSvc, hpc]
    rw [h]; exact .same rfl
  | crCreate r app it rest =>
    simp only [stepSvc, hpc, stepCrCreate]
    cases hz : st.zk it.path with
    | some v => simp only [setSvc_self]; exact .same rfl
    | none =>
      simp only [setSvc_self]
      exact .set r app it (by simp [hpc, Pc.creating]) (crAdvance_core _ _ _ _ _).2
  | crGet r app it rest =>
    simp only [stepSvc, hpc, stepCrGet]
    cases hz : st.zk it.path with
    | none => simp only [setSvc_self]; exact .same rfl
    | some v =>
      simp only []
      split
      · split
        · simp only [setSvc_self]
          exact .set r app it (by simp [hpc, Pc.creating]) (crAdvance_core _ _ _ _ _).2
        · simp only [setSvc_self]; exact .same rfl
      · simp only [setSvc_self]; exact .same rfl
  | crSet r app it rest =>
    simp only [stepSvc, hpc, stepCrSet]
    cases hz : st.zk it.path with
    | none => simp only [setSvc_self]; exact .same rfl
    | some v =>
      simp only [setSvc_self]
      exact .set r app it (by simp [hpc, Pc.creating]) (crAdvance_core _ _ _ _ _).2
  | crWatch r app it rest =>
    simp only [stepSvc, hpc, stepCrWatch]
    cases hz : st.zk it.path <;> simp only [setSvc_self] <;> exact .same rfl
  | dlGet r app p rest =>
    simp only [stepSvc, hpc, stepDlGet]
    cases hz : st.zk p with
    | none =>
      simp only [setSvc_self]
      exact .del r app p (by simp [hpc, Pc.deleting]) (dlNext_core _ _ _ _ _).2
    | some v =>
      simp only []
      split
      · simp only [setSvc_self]; exact .same rfl
      · simp only [setSvc_self]
        exact .del r app p (by simp [hpc, Pc.deleting]) (dlNext_core _ _ _ _ _).2
  | dlChildren r app p rest =>
    simp only [stepSvc, hpc, stepDlChildren]
    cases hz : st.zk p with
    | none =>
      simp only [setSvc_self]
      exact .del r app p (by simp [hpc, Pc.deleting]) (dlNext_core _ _ _ _ _).2
    | some v => simp only [setSvc_self]; exact .same rfl
  | dlDelete r app p rest =>
    simp only [stepSvc, hpc, stepDlDelete]
    cases hz : st.zk p with
    | none =>
      simp only [setSvc_self]
      exact .del r app p (by simp [hpc, Pc.deleting]) (dlNext_core _ _ _ _ _).2
    | some v =>
      simp only [setSvc_self, delNode_svcs]
      exact .del r app p (by simp [hpc, Pc.deleting]) (dlNext_core _ _ _ _ _).2
  | unGet h d p rest =>
    simp only [stepSvc, hpc, stepUnGet]
    cases hz : st.zk p with
    | none => simp only [setSvc_self]; exact .same (unNext_pres _ _ _ _)
    | some v =>
      simp only []
      split
      · simp only [setSvc_self]; exact .same rfl
      · simp only [setSvc_self]; exact .same (unNext_pres _ _ _ _)
  | unChildren h d p rest =>
    simp only [stepSvc, hpc, stepUnChildren]
    cases hz : st.zk p with
    | none => simp only [setSvc_self]; exact .same (unNext_pres _ _ _ _)
    | some v => simp only [setSvc_self]; exact .same rfl
  | unDelete h d p rest =>
    simp only [stepSvc, hpc, stepUnDelete]
    cases hz : st.zk p with
    | none => simp only [setSvc_self]; exact .same (unNext_pres _ _ _ _)
    | some v => simp only [setSvc_self, delNode_svcs]; exact .same (unNext_pres _ _ _ _)
  | usExists pl sc =>
    simp only [stepSvc, hpc, stepUsExists]
    cases hz : st.zk pl <;> simp only [setSvc_self] <;> exact .same rfl
  | usChildren sc =>
    simp only [stepSvc, hpc, stepUsChildren]
    cases hz : st.zk sc <;> simp only [setSvc_self] <;> exact .same rfl
  | usDelete sc =>
    simp only [stepSvc, hpc, stepUsDelete]
    cases hz : st.zk sc with
    | none => simp only [setSvc_self]; exact .same rfl
    | some v => simp only [setSvc_self, delNode_svcs]; exact .same rfl

theorem unNext_pc (sv : Svc) (h : Nat) (d : Bool) (rest : List Path) :
    (unNext sv h d rest).pc = .idle ∨ ∃ p' rest', (unNext sv h d rest).pc = .unGet h d p' rest' := by
  cases rest with
  | nil => exact Or.inl rfl
  | cons a b => exact Or.inr ⟨a, b, rfl⟩

/-! ### Paths used by one app only (hypothesis of `C17_delete_exclusive_partial`) -/

/-- The create requests of a history register each path for the app `appOf` assigns to it. -/
def Op.respects (appOf : Path → App) : Op → Prop
  | .start _ (.create _ app items) => ∀ it ∈ items, appOf it.path = app
  | _ => True

def PcApp (appOf : Path → App) (pc : Pc) : Prop :=
  match pc with
  | .crCreate _ app it rest => ∀ x ∈ it :: rest, appOf x.path = app
  | .crGet _ app it rest => ∀ x ∈ it :: rest, appOf x.path = app
  | .crSet _ app it rest => ∀ x ∈ it :: rest, appOf x.path = app
  | .crWatch _ app it rest => ∀ x ∈ it :: rest, appOf x.path = app
  | _ => True

def PresApp (appOf : Path → App) (pr : Pres) : Prop :=
  ∀ app p r, presLookup pr app p = some r → appOf p = app

def SvcApp (appOf : Path → App) (sv : Svc) : Prop := PcApp appOf sv.pc ∧ PresApp appOf sv.pres

def AppInv (appOf : Path → App) (st : St) : Prop := ∀ i, i < st.n → SvcApp appOf (st.svcs i)

theorem presApp_presSet {appOf : Path → App} {pr : Pres} (h : PresApp appOf pr) {app : App} {p : Path}
    (hp : appOf p = app) (r : Rsrc) : PresApp appOf (presSet pr app p r) := by
  intro a q r' hl
  by_cases e : a = app ∧ q = p
  · obtain ⟨rfl, rfl⟩ := e; exact hp
  · rw [presLookup_presSet_ne _ _ _ _ _ _ e] at hl; exact h a q r' hl

theorem presApp_presDel {appOf : Path → App} {pr : Pres} (h : PresApp appOf pr) (app : App) (p : Path) :
    PresApp appOf (presDel pr app p) := by
  intro a q r' hl
  by_cases e : a = app ∧ q = p
  · obtain ⟨rfl, rfl⟩ := e; rw [presLookup_presDel_self] at hl; cases hl
  · rw [presLookup_presDel_ne _ _ _ _ _ e] at hl; exact h a q r' hl

theorem crAdvance_app {appOf : Path → App} {sv : Svc} (hpr : PresApp appOf sv.pres) {r : Rsrc} {app : App}
    {it : Item} {rest : List Item} (hall : ∀ x ∈ it :: rest, appOf x.path = app) :
    SvcApp appOf (crAdvance sv r app it rest) := by
  have hit := hall it List.mem_cons_self
  cases rest with
  | nil => exact ⟨trivial, presApp_presSet hpr hit r⟩
  | cons a b =>
    refine ⟨?_, presApp_presSet hpr hit r⟩
    intro x hx
    exact hall x (List.mem_cons_of_mem _ hx)

theorem dlNext_app {appOf : Path → App} {sv : Svc} (hpr : PresApp appOf sv.pres) (r : Rsrc) (app : App)
    (p : Path) (rest : List Path) : SvcApp appOf (dlNext sv r app p rest) := by
  cases rest with
  | nil => exact ⟨trivial, presApp_presDel hpr _ _⟩
  | cons a b => exact ⟨trivial, presApp_presDel hpr _ _⟩

theorem stepSvc_app (appOf : Path → App) (st : St) (i : Nat) (h : SvcApp appOf (st.svcs i))
    (hok : PcOk st.zk (st.svcs i)) : SvcApp appOf ((stepSvc st i).svcs i) := by
  obtain ⟨hpc0, hpr⟩ := h
  cases hpc : (st.svcs i).pc with
  | idle =>
    have h : stepSvc st i = st := by simp only [stepSvc, hpc]
    rw [h]; exact ⟨hpc0, hpr⟩
  | crCreate r app it rest =>
    simp only [PcApp, hpc] at hpc0
    simp only [stepSvc, hpc, stepCrCreate]
    cases hz : st.zk it.path with
    | some v => simp only [setSvc_self]; exact ⟨hpc0, hpr⟩
    | none => simp only [setSvc_self]; exact crAdvance_app hpr hpc0
  | crGet r app it rest =>
    simp only [PcApp, hpc] at hpc0
    simp only [stepSvc, hpc, stepCrGet]
    cases hz : st.zk it.path with
    | none => simp only [setSvc_self]; exact ⟨trivial, hpr⟩
    | some v =>
      simp only []
      split
      · split
        · simp only [setSvc_self]; exact crAdvance_app hpr hpc0
        · simp only [setSvc_self]; exact ⟨hpc0, hpr⟩
      · simp only [setSvc_self]; exact ⟨hpc0, hpr⟩
  | crSet r app it rest =>
    simp only [PcApp, hpc] at hpc0
    simp only [stepSvc, hpc, stepCrSet]
    cases hz : st.zk it.path with
    | none => simp only [setSvc_self]; exact ⟨trivial, hpr⟩
    | some v => simp only [setSvc_self]; exact crAdvance_app hpr hpc0
  | crWatch r app it rest =>
    simp only [stepSvc, hpc, stepCrWatch]
    cases hz : st.zk it.path <;> simp only [setSvc_self] <;> exact ⟨trivial, hpr⟩
  | dlGet r app p rest =>
    simp only [stepSvc, hpc, stepDlGet]
    cases hz : st.zk p with
    | none => simp only [setSvc_self]; exact dlNext_app hpr _ _ _ _
    | some v =>
      simp only []
      split
      · simp only [setSvc_self]; exact ⟨trivial, hpr⟩
      · simp only [setSvc_self]; exact dlNext_app hpr _ _ _ _
  | dlChildren r app p rest =>
    simp only [stepSvc, hpc, stepDlChildren]
    cases hz : st.zk p with
    | none => simp only [setSvc_self]; exact dlNext_app hpr _ _ _ _
    | some v => simp only [setSvc_self]; exact ⟨trivial, hpr⟩
  | dlDelete r app p rest =>
    simp only [stepSvc, hpc, stepDlDelete]
    cases hz : st.zk p with
    | none => simp only [setSvc_self]; exact dlNext_app hpr _ _ _ _
    | some v =>
      simp only [setSvc_self, delNode_svcs]
      exact dlNext_app (sv := (st.svcs i).fire _) hpr _ _ _ _
  | unGet h d p rest => simp only [PcOk, hpc] at hok
  | unChildren h d p rest => simp only [PcOk, hpc] at hok
  | unDelete h d p rest => simp only [PcOk, hpc] at hok
  | usExists pl sc => simp only [PcOk, hpc] at hok
  | usChildren sc => simp only [PcOk, hpc] at hok
  | usDelete sc => simp only [PcOk, hpc] at hok

theorem svcApp_core {appOf : Path → App} {sv sv' : Svc} (h : SvcApp appOf sv) (hc : Core sv sv') :
    SvcApp appOf sv' := by
  obtain ⟨_, hp, hpc⟩ := hc
  unfold SvcApp; rw [hp, hpc]; exact h

theorem appInv_applyOp {appOf : Path → App} {st : St} (hinv : Inv st) (ha : AppInv appOf st) (op : Op)
    (hop : op.presence = true) (hr : op.respects appOf) : AppInv appOf (applyOp st op) := by
  cases op with
  | start i q =>
    simp only [applyOp]
    split
    · rename_i hc
      intro a hlt
      by_cases hk : a = i
      · subst hk
        simp only [setSvc_self]
        obtain ⟨_, hpr⟩ := ha a hc.1
        cases q with
        | create r app items =>
          cases items with
          | nil => exact ⟨trivial, hpr⟩
          | cons it rest => exact ⟨hr, hpr⟩
        | delete r app =>
          simp only [startReq]
          cases htd : toDelete (st.svcs a).pres app r with
          | nil => exact ⟨trivial, hpr⟩
          | cons p rest => exact ⟨trivial, hpr⟩
        | unreg h d ps => simp [Op.presence] at hop
        | unsched pl sc => simp [Op.presence] at hop
      · rw [setSvc_ne _ _ _ _ hk]; exact ha a hlt
    · exact ha
  | step i =>
    simp only [applyOp]
    split
    · rename_i hi
      obtain ⟨hn, _, _, hoth⟩ := stepSvc_misc st i
      intro a hlt
      rw [hn] at hlt
      by_cases hk : a = i
      · subst hk; exact stepSvc_app appOf st a (ha a hlt) (hinv.ok a hlt).2
      · exact svcApp_core (ha a hlt) (hoth a hk)
    · exact ha
  | expire i keep =>
    simp only [applyOp]
    split
    · rename_i hi
      intro a hlt
      have hlt' : a < st.n := hlt
      by_cases hk : a = i
      · subst hk
        have : ((st.expire a keep).svcs a) =
            expireSvc ((st.svcs a).fire (ownedBy st.zk (st.svcs a).session))
              (st.zk.dropSession (st.svcs a).session) keep st.nextSess := by
          simp [St.expire, St.dropSession]
        rw [this]
        obtain ⟨_, hpr⟩ := ha a hlt'
        cases keep
        · refine ⟨trivial, ?_⟩
          intro app p r hl; simp [expireSvc, presLookup] at hl
        · exact ⟨trivial, hpr⟩
      · have : ((st.expire i keep).svcs a) = (st.svcs a).fire (ownedBy st.zk (st.svcs i).session) := by
          simp [St.expire, St.dropSession, hk]
        rw [this]
        exact svcApp_core (ha a hlt') (core_fire _ _)
    · exact ha
  | reconnect i => simp [Op.presence] at hop
  | envPut p d =>
    simp only [applyOp]
    split
    · exact ha
    · exact ha
  | envDel p =>
    simp only [applyOp]
    cases hz : st.zk p with
    | none => exact ha
    | some nd0 =>
      simp only []
      split
      · intro a hlt
        simp only [delNode_svcs]
        exact svcApp_core (ha a hlt) (core_fire _ _)
      · exact ha

theorem appInv_run {appOf : Path → App} (ops : List Op) : ∀ {st : St}, Inv st → AppInv appOf st →
    (∀ o ∈ ops, o.presence = true) → (∀ o ∈ ops, o.respects appOf) → AppInv appOf (run st ops) := by
  induction ops with
  | nil => intro st _ h _ _; exact h
  | cons op ops ih =>
    intro st hinv ha hall hresp
    simp only [run, List.foldl_cons]
    exact ih (inv_applyOp hinv op (hall op List.mem_cons_self))
      (appInv_applyOp hinv ha op (hall op List.mem_cons_self) (hresp op List.mem_cons_self))
      (fun o ho => hall o (List.mem_cons_of_mem _ ho)) (fun o ho => hresp o (List.mem_cons_of_mem _ ho))

theorem appInv_init (appOf : Path → App) (n : Nat) (zk : ZK) : AppInv appOf (St.init n zk) := by
  intro i _
  refine ⟨trivial, ?_⟩
  intro app p r hl; simp [St.init, presLookup] at hl

end TmVerif.Presence
