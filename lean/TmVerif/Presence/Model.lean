/-
  Model of the presence code paths anchored by C17, at the granularity of ONE ZOOKEEPER CALL:

    treadmill/services/presence_service.py   PresenceResourceService.on_create_request,
                                             on_delete_request, _safe_create, _safe_delete, _watch
    treadmill/presence.py                    EndpointPresence.unregister_running/_endpoints/_identity
    treadmill/trace/app/zk.py                _unschedule
    treadmill/zkutils.py                     create (makepath), get_with_metadata, update, ensure_deleted

  ZooKeeper is a map path ↦ (data, ephemeralOwner).  There are `n` clients ("services"); each has
  a ZooKeeper session, the in-memory `presence` dict of the service, its live DataWatches, the
  retries it asked for, and a *program counter* `pc` that says which ZooKeeper call its in-flight
  method performs next.  `Op.step i` lets client `i` perform exactly that call *and* the local
  Python code up to (not including) its next ZooKeeper call.  An interleaving is any list of `Op`s.

  Identifiers (paths, sessions, request ids, app names, host names) are `Nat`s interned by the
  harness.  Node data is `(host, extra)`: running = (host, 0); endpoint = (host, real_port);
  identity = (host, app); `host = 0` encodes "empty / not a host name".
-/
namespace TmVerif.Presence

abbrev Path := Nat
abbrev Sess := Nat
abbrev Rsrc := Nat
abbrev App := Nat

structure Data where
  host  : Nat
  extra : Nat
  deriving DecidableEq, Repr

structure Node where
  data  : Data
  owner : Option Sess          -- `ephemeralOwner` (none = persistent node)
  deriving DecidableEq, Repr

abbrev ZK := Path → Option Node

def ZK.put (zk : ZK) (p : Path) (n : Node) : ZK := fun q => if q = p then some n else zk q
def ZK.del (zk : ZK) (p : Path) : ZK := fun q => if q = p then none else zk q

/-- `makepath=True`: missing ancestors are created as persistent empty nodes. -/
def ZK.mkParents (zk : ZK) : List Path → ZK
  | [] => zk
  | a :: as =>
    match zk a with
    | some _ => ZK.mkParents zk as
    | none => ZK.mkParents (zk.put a ⟨⟨0, 0⟩, none⟩) as

/-- One node the create request registers: `path`, its ancestors (outermost first), payload. -/
structure Item where
  path    : Path
  parents : List Path
  data    : Data
  deriving DecidableEq, Repr

/-- Result of a finished method as the caller sees it. -/
inductive Res
  | ok        -- on_create_request returned {}, on_delete_request returned True, unregister/unschedule returned
  | waiting   -- on_create_request returned None ("Waiting to expire")
  | error     -- NoNodeError escaped (zkutils.update on a vanished node)
  | aborted   -- the session expired while the method was in flight
  deriving DecidableEq, Repr

/-- Which ZooKeeper call the in-flight method performs next. -/
inductive Pc
  | idle
  -- on_create_request r / _safe_create for the item `it`, then `rest`
  | crCreate (r : Rsrc) (app : App) (it : Item) (rest : List Item)   -- zkutils.create(ephemeral)
  | crGet    (r : Rsrc) (app : App) (it : Item) (rest : List Item)   -- NodeExists: get_with_metadata
  | crSet    (r : Rsrc) (app : App) (it : Item) (rest : List Item)   -- own node, other content: update
  | crWatch  (r : Rsrc) (app : App) (it : Item) (rest : List Item)   -- foreign node: DataWatch(path)
  -- on_delete_request r / _safe_delete for `p`, then `rest`
  | dlGet      (r : Rsrc) (app : App) (p : Path) (rest : List Path)  -- get_with_metadata
  | dlChildren (r : Rsrc) (app : App) (p : Path) (rest : List Path)  -- ensure_deleted: get_children
  | dlDelete   (r : Rsrc) (app : App) (p : Path) (rest : List Path)  -- ensure_deleted: delete
  -- EndpointPresence.unregister_* for host name `host`; `deep` = uses ensure_deleted (identity)
  | unGet      (host : Nat) (deep : Bool) (p : Path) (rest : List Path)
  | unChildren (host : Nat) (deep : Bool) (p : Path) (rest : List Path)
  | unDelete   (host : Nat) (deep : Bool) (p : Path) (rest : List Path)
  -- trace.app.zk._unschedule
  | usExists   (placement scheduled : Path)
  | usChildren (scheduled : Path)
  | usDelete   (scheduled : Path)
  deriving DecidableEq, Repr

inductive Req
  | create  (r : Rsrc) (app : App) (items : List Item)
  | delete  (r : Rsrc) (app : App)
  | unreg   (host : Nat) (deep : Bool) (paths : List Path)
  | unsched (placement scheduled : Path)
  deriving DecidableEq, Repr

/-- `self.presence`, flattened: entries `(app, path, rsrc_id)` in dict insertion order. -/
abbrev Pres := List (App × Path × Rsrc)

def presLookup (pr : Pres) (app : App) (p : Path) : Option Rsrc :=
  match pr with
  | [] => none
  | (a, q, r) :: t => if a = app ∧ q = p then some r else presLookup t app p

/-- `self.presence[app][p] = r` (existing key keeps its position). -/
def presSet (pr : Pres) (app : App) (p : Path) (r : Rsrc) : Pres :=
  match pr with
  | [] => [(app, p, r)]
  | (a, q, r') :: t => if a = app ∧ q = p then (a, q, r) :: t else (a, q, r') :: presSet t app p r

/-- `del self.presence[app][p]`. -/
def presDel (pr : Pres) (app : App) (p : Path) : Pres :=
  pr.filter (fun e => !(e.1 = app ∧ e.2.1 = p))

/-- `[path for path in self.presence[app] if self.presence[app][path] == r]`. -/
def toDelete (pr : Pres) (app : App) (r : Rsrc) : List Path :=
  (pr.filter (fun e => e.1 = app ∧ e.2.2 = r)).map (fun e => e.2.1)

structure Svc where
  session : Sess
  pres    : Pres
  watches : List (Path × Rsrc)     -- live DataWatches of `_watch`, registration order
  retries : List Rsrc              -- `retry_request` calls so far
  pc      : Pc
  res     : Option Res             -- result of the last finished method
  deriving Repr

structure St where
  zk       : ZK
  svcs     : Nat → Svc
  n        : Nat                   -- clients are 0 .. n-1
  nextSess : Sess                  -- next fresh session id

def St.setSvc (st : St) (i : Nat) (sv : Svc) : St :=
  { st with svcs := fun j => if j = i then sv else st.svcs j }

/-- Delivery of the DELETED event to the DataWatches of one client: `_retry_request` calls
    `retry_request(rsrc_id)` and returns False (the watch ends). -/
def Svc.fire (sv : Svc) (gone : Path → Bool) : Svc :=
  { sv with retries := sv.retries ++ (sv.watches.filter (fun w => gone w.1)).map (·.2),
            watches := sv.watches.filter (fun w => !gone w.1) }

def St.fire (st : St) (gone : Path → Bool) : St :=
  { st with svcs := fun j => (st.svcs j).fire gone }

/-- Delete node `p` and deliver the watch events. -/
def St.delNode (st : St) (p : Path) : St :=
  St.fire { st with zk := st.zk.del p } (fun q => q = p)

/-! ### on_create_request / _safe_create -/

/-- `_safe_create` returned True: `self.presence[app][path] = rsrc_id`, next item or `return {}`. -/
def crAdvance (sv : Svc) (r : Rsrc) (app : App) (it : Item) (rest : List Item) : Svc :=
  match rest with
  | [] => { sv with pres := presSet sv.pres app it.path r, pc := .idle, res := some .ok }
  | it' :: rest' => { sv with pres := presSet sv.pres app it.path r, pc := .crCreate r app it' rest' }

def stepCrCreate (st : St) (i : Nat) (sv : Svc) (r : Rsrc) (app : App) (it : Item) (rest : List Item) : St :=
  match st.zk it.path with
  | some _ => st.setSvc i { sv with pc := .crGet r app it rest }          -- NodeExistsError
  | none =>
    St.setSvc { st with zk := (st.zk.mkParents it.parents).put it.path ⟨it.data, some sv.session⟩ } i
      (crAdvance sv r app it rest)

def stepCrGet (st : St) (i : Nat) (sv : Svc) (r : Rsrc) (app : App) (it : Item) (rest : List Item) : St :=
  match st.zk it.path with
  | none =>   -- "existed when we tried to create, but now it is gone": retry_request, return None
    st.setSvc i { sv with retries := sv.retries ++ [r], pc := .idle, res := some .waiting }
  | some nd =>
    if nd.owner = some sv.session then
      if nd.data = it.data then st.setSvc i (crAdvance sv r app it rest)
      else st.setSvc i { sv with pc := .crSet r app it rest }
    else st.setSvc i { sv with pc := .crWatch r app it rest }

def stepCrSet (st : St) (i : Nat) (sv : Svc) (r : Rsrc) (app : App) (it : Item) (rest : List Item) : St :=
  match st.zk it.path with
  | none => st.setSvc i { sv with pc := .idle, res := some .error }      -- NoNodeError escapes
  | some nd =>
    St.setSvc { st with zk := st.zk.put it.path { nd with data := it.data } } i (crAdvance sv r app it rest)

/-- `_watch`: the DataWatch's first read.  Node still there: the watch stays; node gone:
    `retry_request` at once.  Either way `_safe_create` returns False, the request returns None. -/
def stepCrWatch (st : St) (i : Nat) (sv : Svc) (r : Rsrc) (it : Item) : St :=
  match st.zk it.path with
  | none => st.setSvc i { sv with retries := sv.retries ++ [r], pc := .idle, res := some .waiting }
  | some _ => st.setSvc i { sv with watches := sv.watches ++ [(it.path, r)], pc := .idle, res := some .waiting }

/-! ### on_delete_request / _safe_delete -/

/-- `del self.presence[app][path]`, next path or `return True`. -/
def dlNext (sv : Svc) (r : Rsrc) (app : App) (p : Path) (rest : List Path) : Svc :=
  match rest with
  | [] => { sv with pres := presDel sv.pres app p, pc := .idle, res := some .ok }
  | p' :: rest' => { sv with pres := presDel sv.pres app p, pc := .dlGet r app p' rest' }

def stepDlGet (st : St) (i : Nat) (sv : Svc) (r : Rsrc) (app : App) (p : Path) (rest : List Path) : St :=
  match st.zk p with
  | none => st.setSvc i (dlNext sv r app p rest)                          -- NoNodeError: "does not exist"
  | some nd =>
    if nd.owner = some sv.session then st.setSvc i { sv with pc := .dlChildren r app p rest }
    else st.setSvc i (dlNext sv r app p rest)                             -- "owned by other"

def stepDlChildren (st : St) (i : Nat) (sv : Svc) (r : Rsrc) (app : App) (p : Path) (rest : List Path) : St :=
  match st.zk p with
  | none => st.setSvc i (dlNext sv r app p rest)
  | some _ => st.setSvc i { sv with pc := .dlDelete r app p rest }

def stepDlDelete (st : St) (i : Nat) (r : Rsrc) (app : App) (p : Path) (rest : List Path) : St :=
  match st.zk p with
  | none => st.setSvc i (dlNext (st.svcs i) r app p rest)
  | some _ =>
    let st' := st.delNode p
    st'.setSvc i (dlNext (st'.svcs i) r app p rest)

/-! ### EndpointPresence.unregister_* -/

def unNext (sv : Svc) (host : Nat) (deep : Bool) (rest : List Path) : Svc :=
  match rest with
  | [] => { sv with pc := .idle, res := some .ok }
  | p' :: rest' => { sv with pc := .unGet host deep p' rest' }

def stepUnGet (st : St) (i : Nat) (sv : Svc) (host : Nat) (deep : Bool) (p : Path) (rest : List Path) : St :=
  match st.zk p with
  | none => st.setSvc i (unNext sv host deep rest)
  | some nd =>
    if nd.data.host = host then
      st.setSvc i { sv with pc := if deep then .unChildren host deep p rest else .unDelete host deep p rest }
    else st.setSvc i (unNext sv host deep rest)

def stepUnChildren (st : St) (i : Nat) (sv : Svc) (host : Nat) (deep : Bool) (p : Path) (rest : List Path) : St :=
  match st.zk p with
  | none => st.setSvc i (unNext sv host deep rest)
  | some _ => st.setSvc i { sv with pc := .unDelete host deep p rest }

def stepUnDelete (st : St) (i : Nat) (host : Nat) (deep : Bool) (p : Path) (rest : List Path) : St :=
  match st.zk p with
  | none => st.setSvc i (unNext (st.svcs i) host deep rest)
  | some _ =>
    let st' := st.delNode p
    st'.setSvc i (unNext (st'.svcs i) host deep rest)

/-! ### trace.app.zk._unschedule -/

def finish (sv : Svc) : Svc := { sv with pc := .idle, res := some .ok }

def stepUsExists (st : St) (i : Nat) (sv : Svc) (pl sc : Path) : St :=
  match st.zk pl with
  | none => st.setSvc i (finish sv)                                       -- "Stale event"
  | some _ => st.setSvc i { sv with pc := .usChildren sc }

def stepUsChildren (st : St) (i : Nat) (sv : Svc) (sc : Path) : St :=
  match st.zk sc with
  | none => st.setSvc i (finish sv)
  | some _ => st.setSvc i { sv with pc := .usDelete sc }

def stepUsDelete (st : St) (i : Nat) (sc : Path) : St :=
  match st.zk sc with
  | none => st.setSvc i (finish (st.svcs i))
  | some _ =>
    let st' := st.delNode sc
    st'.setSvc i (finish (st'.svcs i))

/-- Client `i` performs its next ZooKeeper call. -/
def stepSvc (st : St) (i : Nat) : St :=
  let sv := st.svcs i
  match sv.pc with
  | .idle => st
  | .crCreate r app it rest => stepCrCreate st i sv r app it rest
  | .crGet r app it rest => stepCrGet st i sv r app it rest
  | .crSet r app it rest => stepCrSet st i sv r app it rest
  | .crWatch r _ it _ => stepCrWatch st i sv r it
  | .dlGet r app p rest => stepDlGet st i sv r app p rest
  | .dlChildren r app p rest => stepDlChildren st i sv r app p rest
  | .dlDelete r app p rest => stepDlDelete st i r app p rest
  | .unGet h d p rest => stepUnGet st i sv h d p rest
  | .unChildren h d p rest => stepUnChildren st i sv h d p rest
  | .unDelete h d p rest => stepUnDelete st i h d p rest
  | .usExists pl sc => stepUsExists st i sv pl sc
  | .usChildren sc => stepUsChildren st i sv sc
  | .usDelete sc => stepUsDelete st i sc

/-- The local code a method runs before its first ZooKeeper call. -/
def startReq (sv : Svc) : Req → Svc
  | .create _ _ [] => { sv with pc := .idle, res := some .ok }
  | .create r app (it :: rest) => { sv with pc := .crCreate r app it rest, res := none }
  | .delete r app =>
    match toDelete sv.pres app r with
    | [] => { sv with pc := .idle, res := some .ok }
    | p :: rest => { sv with pc := .dlGet r app p rest, res := none }
  | .unreg _ _ [] => { sv with pc := .idle, res := some .ok }
  | .unreg h d (p :: rest) => { sv with pc := .unGet h d p rest, res := none }
  | .unsched pl sc => { sv with pc := .usExists pl sc, res := none }

def ownedBy (zk : ZK) (s : Sess) (p : Path) : Bool :=
  match zk p with
  | some nd => nd.owner = some s
  | none => false

/-- The ZooKeeper side of a session expiry: every ephemeral node of `s` disappears, watches fire. -/
def ZK.dropSession (zk : ZK) (s : Sess) : ZK := fun p =>
  match zk p with
  | some nd => if nd.owner = some s then none else some nd
  | none => none

def St.dropSession (st : St) (s : Sess) : St :=
  St.fire { st with zk := st.zk.dropSession s } (ownedBy st.zk s)

/-- What kazoo's DataWatch session watcher does after re-connection: re-read; a node that is gone
    means `retry_request` and the end of that watch. -/
def Svc.rewatch (sv : Svc) (zk : ZK) : Svc :=
  { sv with retries := sv.retries ++ (sv.watches.filter (fun w => (zk w.1).isNone)).map (·.2),
            watches := sv.watches.filter (fun w => (zk w.1).isSome) }

inductive Op
  | start (i : Nat) (q : Req)
  | step (i : Nat)
  /-- Session expiry of client `i`.  The in-flight method is ABORTED (the presence service runs with
      `zkutils.exit_on_lost`; its next ZooKeeper call raises SessionExpiredError).  `keep = false`:
      the process restarted (empty `presence`, no watches); `keep = true`: the same process goes on
      with a new session. -/
  | expire (i : Nat) (keep : Bool)
  /-- Session expiry with silent re-connection WITHOUT aborting the in-flight method.  Excluded by
      the trusted-base assumption of C17 (see `Op.presence`); kept in the model to show the
      assumption is necessary (`C17_window_witness`). -/
  | reconnect (i : Nat)
  /-- Another (non-presence) client creates / overwrites / deletes a PERSISTENT node. -/
  | envPut (p : Path) (d : Data)
  | envDel (p : Path)
  deriving Repr

/-- Client `i` after its session expired and the in-flight method was aborted. -/
def expireSvc (sv : Svc) (zk1 : ZK) (keep : Bool) (fresh : Sess) : Svc :=
  if keep then
    { (sv.rewatch zk1) with session := fresh, pc := .idle,
                            res := if sv.pc = .idle then sv.res else some .aborted }
  else
    { session := fresh, pres := [], watches := [], retries := [], pc := .idle,
      res := if sv.pc = .idle then none else some .aborted }

def St.expire (st : St) (i : Nat) (keep : Bool) : St :=
  let st1 := st.dropSession (st.svcs i).session
  { zk := st1.zk, n := st.n, nextSess := st.nextSess + 1,
    svcs := fun j => if j = i then expireSvc (st1.svcs i) st1.zk keep st.nextSess else st1.svcs j }

def St.reconnect (st : St) (i : Nat) : St :=
  let st1 := st.dropSession (st.svcs i).session
  { zk := st1.zk, n := st.n, nextSess := st.nextSess + 1,
    svcs := fun j => if j = i then { ((st1.svcs i).rewatch st1.zk) with session := st.nextSess } else st1.svcs j }

def isPersistentOrAbsent (zk : ZK) (p : Path) : Bool :=
  match zk p with
  | none => true
  | some nd => nd.owner.isNone

def applyOp (st : St) : Op → St
  | .start i q =>
    if i < st.n ∧ (st.svcs i).pc = .idle then st.setSvc i (startReq (st.svcs i) q) else st
  | .step i => if i < st.n then stepSvc st i else st
  | .expire i keep => if i < st.n then st.expire i keep else st
  | .reconnect i => if i < st.n then st.reconnect i else st
  | .envPut p d =>
    if isPersistentOrAbsent st.zk p then { st with zk := st.zk.put p ⟨d, none⟩ } else st
  | .envDel p =>
    match st.zk p with
    | some nd => if nd.owner.isNone then st.delNode p else st
    | none => st

def run (st : St) (ops : List Op) : St := ops.foldl applyOp st

/-- `n` clients with sessions `1..n`, everything else empty. -/
def St.init (n : Nat) (zk : ZK) : St :=
  { zk, n, nextSess := n + 1,
    svcs := fun i => { session := i + 1, pres := [], watches := [], retries := [], pc := .idle, res := none } }

end TmVerif.Presence
