/-
  C15 — object ids as LDAP distinguished names (`treadmill/admin/_ldap.py`):
    * `CellAllocation.dn([cell, 'ten:ant/alloc'])` / `_dn2cellalloc_id(dn)`
    * `Partition.dn([partition, cell])` / `_dn2partition_id(dn)`
  A dn is `','.join(parts + [root_ou])`; `root_ou` itself is a comma-separated list of parts.
  Decoding splits on `,` and takes `part.split('=')[1]`.

  Theorems: decoding inverts encoding (hence the encoding is injective) for components that contain
  neither `,` nor `=` (Treadmill names never do), whatever the nesting depth of the tenant.
-/
import TmVerif.Codec.Str

namespace TmVerif.Codec

/-- `'%s=%s' % (attr, value)` -/
def rdn (attr value : Str) : Str := attr ++ '=' :: value

/-- `part.split('=')[1]` (`none`: IndexError). -/
def rdnValue (p : Str) : Option Str :=
  match splitOn '=' p with
  | _ :: v :: _ => some v
  | _ => none

def sCell : Str := "cell".toList
def sAllocation : Str := "allocation".toList
def sTenant : Str := "tenant".toList
def sOu : Str := "ou".toList
def sAllocations : Str := "allocations".toList
def sCells : Str := "cells".toList
def sPartition : Str := "partition".toList
def sTenantEq : Str := "tenant=".toList
def sCellEq : Str := "cell=".toList

/-- `_allocation_dn_parts('t1:t2/alloc')` -/
def allocationDnParts (tenants : List Str) (alloc : Str) : List Str :=
  rdn sAllocation alloc :: (tenants.reverse.map (rdn sTenant) ++ [rdn sOu sAllocations])

/-- `CellAllocation.dn([cell, 't1:t2/alloc'])` with `root_ou = ','.join(root)`. -/
def cellAllocDn (root : List Str) (cell alloc : Str) (tenants : List Str) : Str :=
  join ',' (rdn sCell cell :: allocationDnParts tenants alloc ++ root)

/-- `_dn2cellalloc_id(dn)`: `(tenants, allocation, cell)`; `none` = returns None or raises. -/
def cellAllocOfDn (dn : Str) : Option (List Str × Str × Str) :=
  if !sCellEq.isPrefixOf dn then none
  else match splitOn ',' dn with
    | p0 :: p1 :: rest =>
      match rdnValue p0, rdnValue p1 with
      | some cell, some alloc =>
        match (rest.filter (fun p => sTenantEq.isPrefixOf p)).mapM rdnValue with
        | some ts => some (ts.reverse, alloc, cell)
        | none => none
      | _, _ => none
    | _ => none

/-- `Partition.dn([partition, cell])` -/
def partitionDn (root : List Str) (partition cell : Str) : Str :=
  join ',' (rdn sPartition partition :: rdn sCell cell :: rdn sOu sCells :: root)

/-- `_dn2partition_id(dn)`: `(cell, partition)` -/
def partitionOfDn (dn : Str) : Option (Str × Str) :=
  match splitOn ',' dn with
  | p0 :: p1 :: _ =>
    match rdnValue p0, rdnValue p1 with
    | some partition, some cell => some (cell, partition)
    | _, _ => none
  | _ => none

/-! ### lemmas -/

/-- A component of an id: no `,`, no `=`. -/
def Plain (s : Str) : Prop := ',' ∉ s ∧ '=' ∉ s

instance (s : Str) : Decidable (Plain s) := by unfold Plain; infer_instance

theorem rdnValue_rdn (attr value : Str) (ha : '=' ∉ attr) (hv : '=' ∉ value) :
    rdnValue (rdn attr value) = some value := by
  unfold rdnValue rdn
  rw [splitOn_append '=' attr value ha, splitOn_nosep '=' value hv]

theorem comma_not_mem_rdn (attr value : Str) (ha : ',' ∉ attr) (hv : ',' ∉ value) : ',' ∉ rdn attr value := by
  unfold rdn
  simp only [List.mem_append, List.mem_cons, not_or]
  exact ⟨ha, by decide, hv⟩

theorem isPrefixOf_rdn (attr value : Str) : (attr ++ ['=']).isPrefixOf (rdn attr value) = true := by
  unfold rdn
  have : attr ++ '=' :: value = (attr ++ ['=']) ++ value := by simp
  rw [this, List.isPrefixOf_iff_prefix]
  exact List.prefix_append _ _

theorem sTenantEq_eq : sTenantEq = sTenant ++ ['='] := by decide
theorem sCellEq_eq : sCellEq = sCell ++ ['='] := by decide

/-- Root parts as the admin connection has them: none is a `tenant=` component. -/
def RootOk (root : List Str) : Prop := ∀ p ∈ root, ',' ∉ p ∧ sTenantEq.isPrefixOf p = false

theorem filter_tenant_parts (tenants : List Str) :
    (tenants.map (rdn sTenant)).filter (fun p => sTenantEq.isPrefixOf p) = tenants.map (rdn sTenant) := by
  apply List.filter_eq_self.mpr
  intro p hp
  obtain ⟨t, _, rfl⟩ := List.mem_map.mp hp
  rw [sTenantEq_eq]; exact isPrefixOf_rdn sTenant t

theorem mapM_rdnValue_tenants (tenants : List Str) (h : ∀ t ∈ tenants, '=' ∉ t) :
    (tenants.map (rdn sTenant)).mapM rdnValue = some tenants := by
  induction tenants with
  | nil => rfl
  | cons t ts ih =>
    have ht : '=' ∉ t := h t (by simp)
    have := ih (fun x hx => h x (by simp [hx]))
    simp only [List.map_cons, List.mapM_cons, rdnValue_rdn sTenant t (by decide) ht, this]
    rfl

theorem filter_root (root : List Str) (h : RootOk root) :
    root.filter (fun p => sTenantEq.isPrefixOf p) = [] := by
  apply List.filter_eq_nil_iff.mpr
  intro p hp
  rw [(h p hp).2]; simp

/-- **C15 (cell-allocation dn).** Decoding the dn of a cell allocation returns its tenant path (in
    order, any depth), allocation name and cell. -/
theorem cellAllocOfDn_dn (root : List Str) (cell alloc : Str) (tenants : List Str)
    (hroot : RootOk root) (hc : Plain cell) (ha : Plain alloc) (ht : ∀ t ∈ tenants, Plain t) :
    cellAllocOfDn (cellAllocDn root cell alloc tenants) = some (tenants, alloc, cell) := by
  unfold cellAllocOfDn
  -- the dn starts with `cell=`
  have hparts : ∀ p ∈ rdn sCell cell :: allocationDnParts tenants alloc ++ root, ',' ∉ p := by
    intro p hp
    rcases List.mem_cons.mp hp with rfl | hp
    · exact comma_not_mem_rdn _ _ (by decide) hc.1
    rcases List.mem_append.mp hp with hp | hp
    · unfold allocationDnParts at hp
      rcases List.mem_cons.mp hp with rfl | hp
      · exact comma_not_mem_rdn _ _ (by decide) ha.1
      rcases List.mem_append.mp hp with hp | hp
      · obtain ⟨t, htm, rfl⟩ := List.mem_map.mp hp
        exact comma_not_mem_rdn _ _ (by decide) (ht t (List.mem_reverse.mp htm)).1
      · rw [List.mem_singleton] at hp
        subst hp
        exact comma_not_mem_rdn _ _ (by decide) (by decide)
    · exact (hroot p hp).1
  have hsplit : splitOn ',' (cellAllocDn root cell alloc tenants) =
      rdn sCell cell :: allocationDnParts tenants alloc ++ root := by
    unfold cellAllocDn
    exact splitOn_join ',' _ (by simp) hparts
  have hpre : sCellEq.isPrefixOf (cellAllocDn root cell alloc tenants) = true := by
    unfold cellAllocDn allocationDnParts
    rw [sCellEq_eq, List.isPrefixOf_iff_prefix]
    simp only [List.cons_append, join]
    have : rdn sCell cell ++ ',' :: join ',' (rdn sAllocation alloc ::
        (List.map (rdn sTenant) tenants.reverse ++ [rdn sOu sAllocations] ++ root)) =
        (sCell ++ ['=']) ++ (cell ++ ',' :: join ',' (rdn sAllocation alloc ::
        (List.map (rdn sTenant) tenants.reverse ++ [rdn sOu sAllocations] ++ root))) := by
      simp [rdn]
    rw [this]; exact List.prefix_append _ _
  rw [hpre, hsplit]
  simp only [Bool.not_true, Bool.false_eq_true, ↓reduceIte, allocationDnParts, List.cons_append]
  rw [rdnValue_rdn sCell cell (by decide) hc.2, rdnValue_rdn sAllocation alloc (by decide) ha.2]
  simp only
  have hfilter : (List.map (rdn sTenant) tenants.reverse ++ [rdn sOu sAllocations] ++ root).filter
      (fun p => sTenantEq.isPrefixOf p) = List.map (rdn sTenant) tenants.reverse := by
    rw [List.filter_append, List.filter_append, filter_tenant_parts, filter_root root hroot]
    have : ([rdn sOu sAllocations] : List Str).filter (fun p => sTenantEq.isPrefixOf p) = [] := by decide
    rw [this]; simp
  rw [hfilter, mapM_rdnValue_tenants tenants.reverse (fun t htm => (ht t (List.mem_reverse.mp htm)).2)]
  simp

/-- **C15 (cell-allocation dn, injective).** -/
theorem cellAllocDn_injective (root : List Str) (c1 a1 : Str) (t1 : List Str) (c2 a2 : Str) (t2 : List Str)
    (hroot : RootOk root) (hc1 : Plain c1) (ha1 : Plain a1) (ht1 : ∀ t ∈ t1, Plain t)
    (hc2 : Plain c2) (ha2 : Plain a2) (ht2 : ∀ t ∈ t2, Plain t)
    (h : cellAllocDn root c1 a1 t1 = cellAllocDn root c2 a2 t2) : c1 = c2 ∧ a1 = a2 ∧ t1 = t2 := by
  have e1 := cellAllocOfDn_dn root c1 a1 t1 hroot hc1 ha1 ht1
  have e2 := cellAllocOfDn_dn root c2 a2 t2 hroot hc2 ha2 ht2
  rw [h, e2] at e1
  simp only [Option.some.injEq, Prod.mk.injEq] at e1
  exact ⟨e1.2.2.symm, e1.2.1.symm, e1.1.symm⟩

/-- **C15 (partition dn).** -/
theorem partitionOfDn_dn (root : List Str) (partition cell : Str)
    (hroot : ∀ p ∈ root, ',' ∉ p) (hp : Plain partition) (hc : Plain cell) :
    partitionOfDn (partitionDn root partition cell) = some (cell, partition) := by
  unfold partitionOfDn partitionDn
  have hparts : ∀ p ∈ rdn sPartition partition :: rdn sCell cell :: rdn sOu sCells :: root, ',' ∉ p := by
    intro p hpm
    simp only [List.mem_cons] at hpm
    rcases hpm with rfl | rfl | rfl | hpm
    · exact comma_not_mem_rdn _ _ (by decide) hp.1
    · exact comma_not_mem_rdn _ _ (by decide) hc.1
    · exact comma_not_mem_rdn _ _ (by decide) (by decide)
    · exact hroot p hpm
  rw [splitOn_join ',' _ (by simp) hparts]
  simp only [rdnValue_rdn sPartition partition (by decide) hp.2, rdnValue_rdn sCell cell (by decide) hc.2]

theorem partitionDn_injective (root : List Str) (p1 c1 p2 c2 : Str) (hroot : ∀ p ∈ root, ',' ∉ p)
    (hp1 : Plain p1) (hc1 : Plain c1) (hp2 : Plain p2) (hc2 : Plain c2)
    (h : partitionDn root p1 c1 = partitionDn root p2 c2) : p1 = p2 ∧ c1 = c2 := by
  have e1 := partitionOfDn_dn root p1 c1 hroot hp1 hc1
  have e2 := partitionOfDn_dn root p2 c2 hroot hp2 hc2
  rw [h, e2] at e1
  simp only [Option.some.injEq, Prod.mk.injEq] at e1
  exact ⟨e1.2.symm, e1.1.symm⟩

/-! Non-vacuity: a two-level tenant. -/
example : cellAllocOfDn (cellAllocDn ["ou=treadmill".toList, "dc=x".toList] "c1".toList "prod".toList
    ["foo".toList, "bar".toList]) = some (["foo".toList, "bar".toList], "prod".toList, "c1".toList) := by decide

example : String.ofList (cellAllocDn ["ou=treadmill".toList, "dc=x".toList] "c1".toList "prod".toList
    ["foo".toList, "bar".toList]) = "cell=c1,allocation=prod,tenant=bar,tenant=foo,ou=allocations,ou=treadmill,dc=x" := by
  decide

end TmVerif.Codec
