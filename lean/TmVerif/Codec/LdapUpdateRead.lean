/-
  Reading an updated entry back (`_entry_2_dict` after `Admin.update`), flat attributes:
  helper lemmas for `C15_update_then_read_partial` (`Props/C15Update.lean`).
-/
import TmVerif.Codec.LdapUpdateLemmas

namespace TmVerif.Codec

/-- the names of the entry are in lower case (as the ldap names of the `_schema` tables are) -/
def LowerNames (e : Entry) : Prop := ∀ p ∈ e, lowerAscii p.1 = p.1

instance (e : Entry) : Decidable (LowerNames e) := by unfold LowerNames; infer_instance

/-- what the directory holds after the update when nothing is merely permuted: the attributes of
    the new entry that have values, then the stored attributes the new entry does not have -/
def overlay (ea eb : Entry) : Entry :=
  removeEmpty eb ++ ea.filter (fun p => (lookup p.1 eb).isNone)

/-! ### names after a modify request -/

theorem names_delAttr (a : Str) (e : Entry) : ∀ p ∈ delAttr a e, p ∈ e := by
  intro p hp; unfold delAttr at hp; exact (List.mem_filter.1 hp).1

theorem names_putAttr (a : Str) (vals : List EVal) (e : Entry) :
    ∀ p ∈ putAttr a vals e, p.1 = a ∨ ∃ q ∈ e, q.1 = p.1 := by
  induction e with
  | nil => intro p hp; simp [putAttr] at hp; left; rw [hp]
  | cons q r ih =>
    intro p hp
    unfold putAttr at hp
    by_cases h : attrEq q.1 a = true
    · simp only [h, if_true, List.mem_cons] at hp
      cases hp with
      | inl e => right; exact ⟨q, List.mem_cons_self .., by rw [e]⟩
      | inr e => right; exact ⟨p, List.mem_cons_of_mem _ e, rfl⟩
    · have hf : attrEq q.1 a = false := by simpa using h
      simp only [hf, Bool.false_eq_true, if_false, List.mem_cons] at hp
      cases hp with
      | inl e => right; exact ⟨q, List.mem_cons_self .., by rw [e]⟩
      | inr e =>
        cases ih p e with
        | inl h => left; exact h
        | inr h => obtain ⟨q', hq', e'⟩ := h; right; exact ⟨q', List.mem_cons_of_mem _ hq', e'⟩

theorem names_applyMod (a : Str) (m : Mod) (e : Entry) :
    ∀ p ∈ applyMod e a m, p.1 = a ∨ ∃ q ∈ e, q.1 = p.1 := by
  intro p hp
  have hset : ∀ vals, p ∈ setAttr a vals e → p.1 = a ∨ ∃ q ∈ e, q.1 = p.1 := by
    intro vals h
    unfold setAttr at h
    by_cases hv : vals.isEmpty = true
    · simp only [hv, if_true] at h; right; exact ⟨p, names_delAttr a e p h, rfl⟩
    · simp only [hv, Bool.false_eq_true, if_false] at h; exact names_putAttr a vals e p h
  unfold applyMod at hp
  cases hm : m.1 with
  | add => simp only [hm] at hp; exact hset _ hp
  | delete =>
    simp only [hm] at hp
    by_cases hv : m.2.isEmpty = true
    · simp only [hv, if_true] at hp; right; exact ⟨p, names_delAttr a e p hp, rfl⟩
    · simp only [hv, Bool.false_eq_true, if_false] at hp; exact hset _ hp
  | replace => simp only [hm] at hp; exact hset _ hp

theorem lowerNames_applyMods (ms : Mods) (e : Entry) (he : LowerNames e)
    (hm : ∀ m ∈ ms, lowerAscii m.1 = m.1) : LowerNames (applyMods e ms) := by
  unfold applyMods
  induction ms generalizing e with
  | nil => exact he
  | cons m r ih =>
    simp only [List.foldl_cons]
    apply ih
    · have hk := hm m (List.mem_cons_self ..)
      generalize m.2 = ops
      induction ops generalizing e with
      | nil => exact he
      | cons x xs ihx =>
        simp only [List.foldl_cons]
        apply ihx
        intro p hp
        cases names_applyMod m.1 x e p hp with
        | inl h => rw [h]; exact hk
        | inr h => obtain ⟨q, hq, e'⟩ := h; rw [← e']; exact he q hq
    · intro m' hm'; exact hm m' (List.mem_cons_of_mem _ hm')

theorem lowerNames_adminUpdate (ea eb : Entry) (hda : CIDistinct ea) (hdb : CIDistinct eb)
    (hla : LowerNames ea) (hlb : LowerNames eb) : LowerNames (adminUpdate ea eb) := by
  unfold adminUpdate
  apply lowerNames_applyMods _ _ hla
  rw [adminUpdateMods_eq_spec ea eb hda hdb]
  intro m hm
  unfold diffSpec at hm
  rw [List.mem_append] at hm
  cases hm with
  | inl h =>
    rw [List.mem_flatMap] at h
    obtain ⟨q, hq, hmq⟩ := h
    unfold specRow at hmq
    rw [List.mem_map] at hmq
    obtain ⟨x, _, hx⟩ := hmq
    rw [← hx]; exact hlb q hq
  | inr h =>
    rw [List.mem_map] at h
    obtain ⟨q, hq, hx⟩ := h
    rw [← hx]
    exact hla q ((mem_fetch q eb ea).1 (List.mem_filter.1 hq).1).1

/-! ### exact lookup = directory lookup on lower-case names -/

theorem lookup_eq_valuesOf (k : Str) (hk : lowerAscii k = k) (e : Entry) (he : LowerNames e) :
    lookup k e = valuesOf k e := by
  induction e with
  | nil => rfl
  | cons p r ih =>
    obtain ⟨pk, pv⟩ := p
    have hp : lowerAscii pk = pk := he (pk, pv) (List.mem_cons_self ..)
    have ih' := ih (fun q hq => he q (List.mem_cons_of_mem _ hq))
    unfold valuesOf findAttr at ih' ⊢
    by_cases h : pk = k
    · subst h
      simp [lookup, List.find?, attrEq_refl]
    · have : attrEq pk k = false := by
        apply Bool.eq_false_iff.2; intro e
        have := (attrEq_iff _ _).1 e
        rw [hp, hk] at this
        exact h this
      simp only [lookup, h, if_false, List.find?, this]
      exact ih'

theorem entry2dictRaw_congr (sch : Schema) (e₁ e₂ : Entry)
    (h : ∀ row ∈ sch, lookup row.1 e₁ = lookup row.1 e₂) : entry2dictRaw sch e₁ = entry2dictRaw sch e₂ := by
  induction sch with
  | nil => rfl
  | cons row rest ih =>
    obtain ⟨lf, of, ft⟩ := row
    unfold entry2dictRaw
    rw [ih (fun r hr => h r (List.mem_cons_of_mem _ hr))]
    have := h (lf, of, ft) (List.mem_cons_self ..)
    simp only at this
    rw [this]

theorem plainName_flat (k : Str) (h : ';' ∉ k) : plainName k = k := by
  unfold plainName
  induction k with
  | nil => rfl
  | cons c r ih =>
    have hc : c ≠ ';' := fun e => h (e ▸ List.mem_cons_self ..)
    simp only [List.takeWhile_cons, ne_eq, hc, not_false_eq_true, decide_true, if_true]
    rw [ih (fun hr => h (List.mem_cons_of_mem _ hr))]

/-- on flat entries: `Admin.update` reads `a` exactly when the new entry has it -/
theorem named_flat (new : Entry) (hf : ∀ p ∈ new, ';' ∉ p.1) (a : Str) (ha : ';' ∉ a) :
    Named new a = new.any (fun p => attrEq p.1 a) := by
  unfold Named
  rw [plainName_flat a ha]
  apply Bool.eq_iff_iff.2
  rw [List.any_eq_true, List.any_eq_true]
  constructor
  · rintro ⟨x, hx, hxa⟩
    obtain ⟨p, hp, e⟩ := (mem_entryPlainKeys x new).1 hx
    rw [plainName_flat p.1 (hf p hp)] at e
    exact ⟨p, hp, by rw [e]; exact hxa⟩
  · rintro ⟨p, hp, hpa⟩
    exact ⟨p.1, (mem_entryPlainKeys _ _).2 ⟨p, hp, plainName_flat p.1 (hf p hp)⟩, hpa⟩

/-! ### the overlay, attribute by attribute -/

theorem valuesOf_append (a : Str) (e₁ e₂ : Entry) :
    valuesOf a (e₁ ++ e₂) = (valuesOf a e₁).or (valuesOf a e₂) := by
  unfold valuesOf findAttr
  rw [List.find?_append]
  cases List.find? (fun p => attrEq p.1 a) e₁ <;> rfl

theorem valuesOf_removeEmpty_mem (eb : Entry) (hd : CIDistinct eb) (p : Str × List EVal) (hp : p ∈ eb) :
    valuesOf p.1 (removeEmpty eb) = if p.2.isEmpty then none else some p.2 := by
  unfold valuesOf findAttr removeEmpty
  rw [find?_filter_and]
  by_cases he : p.2.isEmpty = true
  · simp only [he, if_true]
    rw [Option.map_eq_none_iff, List.find?_eq_none]
    intro q hq hc
    simp only [Bool.and_eq_true, Bool.not_eq_true'] at hc
    have h1 := find?_of_mem_ciDistinct eb p hd hp
    have h2 := find?_of_mem_ciDistinct eb q hd hq
    have : (fun r : Str × List EVal => attrEq r.1 q.1) = (fun r => attrEq r.1 p.1) := by
      funext r; exact attrEq_congr_right hc.2 r.1
    rw [this, h1] at h2
    have := Option.some.inj h2
    rw [this, hc.1] at he
    cases he
  · have he' : p.2.isEmpty = false := by simpa using he
    simp only [he', Bool.false_eq_true, if_false]
    have h1 := find?_of_mem_ciDistinct eb p hd hp
    have : eb.find? (fun x => !x.2.isEmpty && attrEq x.1 p.1) = some p := by
      clear h1
      induction eb with
      | nil => cases hp
      | cons q r ih =>
        have hd' : (lowerAscii q.1 :: r.map (fun p => lowerAscii p.1)).Nodup := hd
        rw [List.nodup_cons] at hd'
        rw [List.mem_cons] at hp
        cases hp with
        | inl e => subst e; simp [List.find?, attrEq_refl, he']
        | inr hr =>
          have : attrEq q.1 p.1 = false := by
            apply Bool.eq_false_iff.2
            intro e
            apply hd'.1
            rw [(attrEq_iff _ _).1 e]
            exact List.mem_map_of_mem (f := fun p : Str × List EVal => lowerAscii p.1) hr
          simp only [List.find?, this, Bool.and_false]
          exact ih hd'.2 hr
    rw [this]; rfl

theorem find?_congr_mem {α} (p q : α → Bool) (l : List α) (h : ∀ x ∈ l, p x = q x) : l.find? p = l.find? q := by
  induction l with
  | nil => rfl
  | cons x r ih =>
    simp only [List.find?_cons, h x (List.mem_cons_self ..)]
    rw [ih (fun y hy => h y (List.mem_cons_of_mem _ hy))]

theorem eq_of_attrEq_lower {a b : Str} (ha : lowerAscii a = a) (hb : lowerAscii b = b) (h : attrEq a b = true) :
    a = b := by
  have := (attrEq_iff _ _).1 h
  rw [ha, hb] at this
  exact this

/-- flat, lower-case names: after `Admin.update` every attribute reads as in the overlay of the
    stored entry with the new one - provided no attribute is merely permuted (`hperm`) -/
theorem valuesOf_update_overlay (ea eb : Entry) (hda : CIDistinct ea) (hdb : CIDistinct eb)
    (hea : ∀ p ∈ ea, p.2 ≠ []) (hla : LowerNames ea) (hlb : LowerNames eb)
    (hfb : ∀ p ∈ eb, ';' ∉ p.1)
    (hperm : ∀ k vs os, (k, vs) ∈ eb → valuesOf k ea = some os → os.length = vs.length →
      (∀ v, v ∈ os ↔ v ∈ vs) → os = vs)
    (lf : Str) (hlf : lowerAscii lf = lf) (hsemi : ';' ∉ lf) :
    valuesOf lf (adminUpdate ea eb) = valuesOf lf (overlay ea eb) := by
  unfold overlay
  rw [valuesOf_append]
  cases hfind : eb.find? (fun p => attrEq p.1 lf) with
  | some p =>
    have hp : p ∈ eb := List.mem_of_find?_eq_some hfind
    have hpa : attrEq p.1 lf = true := List.find?_some (p := fun p : Str × List EVal => attrEq p.1 lf) hfind
    have hpl : p.1 = lf := eq_of_attrEq_lower (hlb p hp) hlf hpa
    subst hpl
    rw [valuesOf_adminUpdate_mem ea eb hda hdb p hp, valuesOf_removeEmpty_mem eb hdb p hp]
    have hc : valuesOf p.1 ea ≠ some [] := by
      intro h
      obtain ⟨q, hq, _, hq2⟩ := valuesOf_some_mem p.1 ea [] h
      exact hea q hq hq2
    by_cases he : p.2 = []
    · rw [(attrMods_effect (valuesOf p.1 ea) hc p.2).1 he]
      have : p.2.isEmpty = true := by rw [he]; rfl
      simp only [this, if_true, Option.none_or]
      symm
      apply valuesOf_none_of_no_match
      intro q hq
      apply Bool.eq_false_iff.2
      intro hqa
      rw [List.mem_filter] at hq
      have hql : q.1 = p.1 := eq_of_attrEq_lower (hla q hq.1) (hlb p hp) hqa
      have h1 : lookup q.1 eb = some p.2 := by
        rw [hql, lookup_eq_valuesOf p.1 (hlb p hp) eb hlb]
        unfold valuesOf findAttr
        rw [find?_of_mem_ciDistinct eb p hdb hp]
        rfl
      rw [h1] at hq
      exact absurd hq.2 (by simp)
    · obtain ⟨got, hg, hor⟩ := (attrMods_effect (valuesOf p.1 ea) hc p.2).2 he
      have hne : p.2.isEmpty = false := by
        cases h : p.2 with
        | nil => exact absurd h he
        | cons _ _ => rfl
      rw [hg]
      simp only [hne, Bool.false_eq_true, if_false, Option.some_or]
      cases hor with
      | inl h => rw [h]
      | inr h =>
        obtain ⟨hl, h1, h2⟩ := (diffAttributeValues_false_iff got p.2).1 h.2
        rw [hperm p.1 p.2 got hp h.1 hl (fun v => ⟨h1 v, h2 v⟩)]
  | none =>
    have hno : ∀ p ∈ eb, attrEq p.1 lf = false := by
      intro p hp
      have := List.find?_eq_none.1 hfind p hp
      simpa using this
    have hnamed : Named eb lf = false := by
      rw [named_flat eb hfb lf hsemi]
      apply Bool.eq_false_iff.2
      intro h
      rw [List.any_eq_true] at h
      obtain ⟨p, hp, hpa⟩ := h
      rw [hno p hp] at hpa
      cases hpa
    rw [valuesOf_adminUpdate_unnamed ea eb hda hdb lf hnamed]
    have h1 : valuesOf lf (removeEmpty eb) = none := by
      apply valuesOf_none_of_no_match
      intro p hp
      unfold removeEmpty at hp
      exact hno p (List.mem_filter.1 hp).1
    rw [h1, Option.none_or]
    unfold valuesOf findAttr
    rw [find?_filter_and]
    congr 1
    apply find?_congr_mem
    intro x hx
    by_cases hxa : attrEq x.1 lf = true
    · have hxl : x.1 = lf := eq_of_attrEq_lower (hla x hx) hlf hxa
      have : lookup x.1 eb = none := by
        rw [hxl, lookup_eq_valuesOf lf hlf eb hlb]
        exact valuesOf_none_of_no_match lf eb hno
      rw [this, hxa]; rfl
    · have hxa' : attrEq x.1 lf = false := by simpa using hxa
      rw [hxa']; simp

end TmVerif.Codec
