/-
  Lemmas for the schema-driven LDAP codec, level 1: one flat schema
  (`_dict_2_entry` → `_remove_empty` → `_entry_2_dict`).
-/
import TmVerif.Codec.Ldap
import TmVerif.Codec.JsonProof

namespace TmVerif.Codec
open TmVerif
open TmVerif.ExtCodec (FT)

/-- ldap names pairwise distinct, object names pairwise distinct, no ';' in an ldap name -/
def SchemaWF (sch : Schema) : Prop :=
  (sch.map (·.1)).Nodup ∧ (sch.map (·.2.1)).Nodup ∧ ∀ r ∈ sch, ';' ∉ r.1

instance (sch : Schema) : Decidable (SchemaWF sch) := by unfold SchemaWF; infer_instance

def isStrOrNull : JVal → Bool
  | .str _ => true
  | .null => true
  | _ => false

def isIntOrNull : JVal → Bool
  | .int _ => true
  | .null => true
  | _ => false

/-- the JSON library round-trips this dictionary and its top-level keys are already sorted
    (what `json.loads(json.dumps(OrderedDict(sorted(d.items()))))` gives back is `d`) -/
def DictOK (kvs : KVs) : Prop := jsonLoads (dumpVal (.obj (sortTop kvs))) = some (.obj kvs)

/-- value well-typed for its schema row (`None` always is) -/
def valOK : FT → JVal → Prop
  | _, .null => True
  | .str, .str _ => True
  | .str, .float _ => True          -- `six.text_type(float)`: CellAllocation.max_utilization
  | .int, .int _ => True
  | .bool, .bool _ => True
  | .dict, .obj kvs => DictOK kvs
  | .listStr, .arr l => l.all isStrOrNull = true
  | .listInt, .arr l => l.all isIntOrNull = true
  | _, _ => False

def ObjWF (sch : Schema) (obj : KVs) : Prop :=
  ∀ r ∈ sch, ∀ v, lookup r.2.1 obj = some v → valOK r.2.2 v

def nonNulls (l : List JVal) : List JVal := l.filter (fun x => !x.isNull)

/-- what a well-typed value reads back as -/
def normField : FT → JVal → JVal
  | .listStr, .arr l => .arr (nonNulls l)
  | .listInt, .arr l => .arr (nonNulls l)
  | .str, .float r => .str r
  | _, v => v

/-- what `from_entry(to_entry(obj))` is for one flat schema: list fields always present
    (`[]` by default, `None` elements dropped), other fields present iff not `None` -/
def normRow (obj : KVs) (r : Str × Str × FT) : Option (Str × JVal) :=
  match lookup r.2.1 obj with
  | none => if ftIsList r.2.2 then some (r.2.1, .arr []) else none
  | some v => if v.isNull then (if ftIsList r.2.2 then some (r.2.1, .arr []) else none)
              else some (r.2.1, normField r.2.2 v)

def normalise (sch : Schema) (obj : KVs) : KVs := sch.filterMap (normRow obj)

theorem normalise_cons (row : Str × Str × FT) (rest : Schema) (obj : KVs) :
    normalise (row :: rest) obj = (match normRow obj row with
      | some p => p :: normalise rest obj
      | none => normalise rest obj) := by
  simp only [normalise, List.filterMap_cons]
  cases normRow obj row <;> rfl

theorem dropNulls_cons (k : Str) (v : JVal) (r : KVs) :
    dropNulls ((k, v) :: r) = if v.isNull then dropNulls r else (k, v) :: dropNulls r := by
  simp only [dropNulls, List.filter_cons]
  cases v.isNull <;> rfl

/-! ### lists of strings / ints -/

theorem listTexts_strs (l : List JVal) (h : l.all isStrOrNull = true) :
    ∃ vals, listTexts l = some vals ∧ vals.map evalJ = nonNulls l := by
  induction l with
  | nil => exact ⟨[], rfl, rfl⟩
  | cons x r ih =>
    simp only [List.all_cons, Bool.and_eq_true] at h
    obtain ⟨vals, hv, hm⟩ := ih h.2
    cases x with
    | null => exact ⟨vals, by simp [listTexts, JVal.isNull, hv], by simpa [nonNulls, JVal.isNull] using hm⟩
    | str s =>
      refine ⟨.str s :: vals, by simp [listTexts, JVal.isNull, textOf, hv], ?_⟩
      have e : nonNulls (JVal.str s :: r) = JVal.str s :: nonNulls r := by simp [nonNulls, JVal.isNull]
      rw [e, ← hm]; rfl
    | _ => simp [isStrOrNull] at h

theorem listTexts_ints (l : List JVal) (h : l.all isIntOrNull = true) :
    ∃ vals, listTexts l = some vals ∧ intsOfE vals = some (nonNulls l) := by
  induction l with
  | nil => exact ⟨[], rfl, rfl⟩
  | cons x r ih =>
    simp only [List.all_cons, Bool.and_eq_true] at h
    obtain ⟨vals, hv, hm⟩ := ih h.2
    cases x with
    | null => exact ⟨vals, by simp [listTexts, JVal.isNull, hv], by simpa [nonNulls, JVal.isNull] using hm⟩
    | int i =>
      refine ⟨.str (intToDec i) :: vals, by simp [listTexts, JVal.isNull, textOf, hv], ?_⟩
      have e : nonNulls (JVal.int i :: r) = JVal.int i :: nonNulls r := by simp [nonNulls, JVal.isNull]
      simp only [intsOfE, intOfE, decToInt_intToDec, hm, e]
    | _ => simp [isIntOrNull] at h

theorem listTexts_nil_iff (l : List JVal) (vals : List EVal) (h : listTexts l = some vals) :
    vals = [] ↔ nonNulls l = [] := by
  induction l generalizing vals with
  | nil => simp [listTexts] at h; subst h; simp [nonNulls]
  | cons x r ih =>
    simp only [listTexts] at h
    by_cases hx : x.isNull = true
    · simp only [hx, ↓reduceIte] at h
      simpa [nonNulls, hx] using ih vals h
    · simp only [hx] at h
      cases ht : textOf x with
      | none => simp [ht] at h
      | some t =>
        cases hr : listTexts r with
        | none => simp [ht, hr] at h
        | some ts =>
          simp only [ht, hr, Bool.false_eq_true, ↓reduceIte, Option.some.injEq] at h
          subst h
          simp [nonNulls, hx]

/-! ### one row -/

/-- The encoded form of a present, non-`None`, well-typed value decodes to its normal form; the
    only values that leave no (non-empty) attribute are lists without a non-`None` element. -/
theorem field_roundtrip (ft : FT) (v : JVal) (hv : valOK ft v) (hn : v.isNull = false) :
    ∃ w, encodeField ft v = some w ∧ (normField ft v).isNull = false ∧
      (∀ vals, w = some vals → vals ≠ [] → decodeField ft vals = some (normField ft v)) ∧
      ((w = none ∨ w = some []) → ftIsList ft = true ∧ normField ft v = .arr []) := by
  cases ft <;> cases v <;> simp only [valOK] at hv <;> try (simp [JVal.isNull] at hn; done)
  -- str / str
  · rename_i s
    exact ⟨some [.str s], by simp [encodeField, JVal.isNull, textOf], rfl,
      by intro vals e _; cases e; rfl, by intro h; rcases h with h | h <;> cases h⟩
  -- str / float
  · rename_i r
    exact ⟨some [.str r], by simp [encodeField, JVal.isNull, textOf], rfl,
      by intro vals e _; cases e; rfl, by intro h; rcases h with h | h <;> cases h⟩
  -- int
  · rename_i i
    exact ⟨some [.str (intToDec i)], by simp [encodeField, JVal.isNull, textOf], rfl,
      by intro vals e _; cases e; simp [decodeField, intOfE, decToInt_intToDec, normField],
      by intro h; rcases h with h | h <;> cases h⟩
  -- bool
  · rename_i b
    exact ⟨some [.bool b], by simp [encodeField, JVal.isNull, toBoolJ], rfl,
      by intro vals e _; cases e; rfl, by intro h; rcases h with h | h <;> cases h⟩
  -- dict
  · rename_i kvs
    refine ⟨some [.str (dumpVal (.obj (sortTop kvs)))], by simp [encodeField, JVal.isNull], rfl, ?_, ?_⟩
    · intro vals e _; cases e
      simpa [decodeField, normField, DictOK] using hv
    · intro h; rcases h with h | h <;> cases h
  -- listStr
  · rename_i l
    obtain ⟨vals, hvals, hm⟩ := listTexts_strs l hv
    cases l with
    | nil => exact ⟨none, by simp [encodeField, JVal.isNull], rfl, (by intro _ e; cases e), fun _ => ⟨rfl, rfl⟩⟩
    | cons x r =>
      refine ⟨some vals, by simp [encodeField, JVal.isNull, hvals], rfl, ?_, ?_⟩
      · intro vals' e _; cases e
        simp [decodeField, normField, hm]
      · intro h
        rcases h with h | h
        · cases h
        · cases h
          refine ⟨rfl, ?_⟩
          simp only [normField]
          rw [(listTexts_nil_iff _ _ hvals).mp rfl]
  -- listInt
  · rename_i l
    obtain ⟨vals, hvals, hm⟩ := listTexts_ints l hv
    cases l with
    | nil => exact ⟨none, by simp [encodeField, JVal.isNull], rfl, (by intro _ e; cases e), fun _ => ⟨rfl, rfl⟩⟩
    | cons x r =>
      refine ⟨some vals, by simp [encodeField, JVal.isNull, hvals], rfl, ?_, ?_⟩
      · intro vals' e _; cases e
        simp [decodeField, normField, hm]
      · intro h
        rcases h with h | h
        · cases h
        · cases h
          refine ⟨rfl, ?_⟩
          simp only [normField]
          rw [(listTexts_nil_iff _ _ hvals).mp rfl]

/-! ### one schema -/

theorem lookup_eq_none_of_not_mem {α} (k : Str) (l : List (Str × α)) (h : ∀ p ∈ l, p.1 ≠ k) :
    lookup k l = none := by
  induction l with
  | nil => rfl
  | cons p r ih =>
    obtain ⟨k', v⟩ := p
    have : k' ≠ k := h (k', v) (by simp)
    simp only [lookup, this, ↓reduceIte]
    exact ih (fun q hq => h q (List.mem_cons_of_mem _ hq))

theorem lookup_append {α} (k : Str) (l₁ l₂ : List (Str × α)) :
    lookup k (l₁ ++ l₂) = (lookup k l₁).orElse (fun _ => lookup k l₂) := by
  induction l₁ with
  | nil => simp [lookup]
  | cons p r ih =>
    obtain ⟨k', v⟩ := p
    simp only [List.cons_append, lookup]
    split
    · simp
    · exact ih

theorem removeEmpty_append (a b : Entry) : removeEmpty (a ++ b) = removeEmpty a ++ removeEmpty b := by
  simp [removeEmpty]

theorem mem_removeEmpty {e : Entry} {p : Str × List EVal} (h : p ∈ removeEmpty e) : p ∈ e :=
  (List.mem_filter.mp h).1

/-- every attribute written is the (option-suffixed) ldap name of a row -/
theorem dict2entry_keys (sch : Schema) (opt : Option (Str × Nat)) (obj : KVs) :
    ∀ e, dict2entry sch opt obj = some e → ∀ p ∈ e, ∃ r ∈ sch, p.1 = optKey opt r.1 := by
  induction sch with
  | nil => intro e h; simp [dict2entry] at h; subst h; simp
  | cons row rest ih =>
    obtain ⟨lf, of, ft⟩ := row
    intro e h p hp
    simp only [dict2entry] at h
    cases ht : dict2entry rest opt obj with
    | none => simp [ht] at h
    | some tail =>
      simp only [ht] at h
      have htail : ∀ q ∈ tail, ∃ r ∈ (lf, of, ft) :: rest, q.1 = optKey opt r.1 := by
        intro q hq
        obtain ⟨r, hr, e⟩ := ih tail ht q hq
        exact ⟨r, List.mem_cons_of_mem _ hr, e⟩
      cases hl : lookup of obj with
      | none => simp only [hl, Option.some.injEq] at h; subst h; exact htail p hp
      | some v =>
        simp only [hl] at h
        cases hf : encodeField ft v with
        | none => simp [hf] at h
        | some w =>
          cases w with
          | none => simp only [hf, Option.some.injEq] at h; subst h; exact htail p hp
          | some vals =>
            simp only [hf, Option.some.injEq] at h
            subst h
            rcases List.mem_cons.mp hp with rfl | hp
            · exact ⟨(lf, of, ft), by simp, rfl⟩
            · exact htail p hp

/-- what one present value leaves in the STORED entry (after `_remove_empty`) -/
def stored (ft : FT) (v : JVal) : Option (List EVal) :=
  match encodeField ft v with
  | some (some vals) => if vals.isEmpty then none else some vals
  | _ => none

theorem lookup_removeEmpty_cons_ne (k lf : Str) (vals : List EVal) (tail : Entry) (h : lf ≠ k) :
    lookup k (removeEmpty ((lf, vals) :: tail)) = lookup k (removeEmpty tail) := by
  simp only [removeEmpty, List.filter_cons]
  split
  · simp [lookup, h]
  · rfl

/-- the stored entry, attribute by attribute -/
theorem lookup_stored (sch : Schema) (hnd : (sch.map (·.1)).Nodup) (obj : KVs) :
    ∀ e, dict2entry sch none obj = some e →
      ∀ r ∈ sch, lookup r.1 (removeEmpty e) = (lookup r.2.1 obj).bind (stored r.2.2) := by
  induction sch with
  | nil => intro e _ r hr; cases hr
  | cons row rest ih =>
    obtain ⟨lf, of, ft⟩ := row
    intro e h r hr
    have hnd2 : (lf :: rest.map (·.1)).Nodup := hnd
    have hnd' := List.nodup_cons.mp hnd2
    simp only [dict2entry] at h
    cases ht : dict2entry rest none obj with
    | none => simp [ht] at h
    | some tail =>
      simp only [ht] at h
      have hkeys := dict2entry_keys rest none obj tail ht
      have hfresh : lookup lf (removeEmpty tail) = none := by
        apply lookup_eq_none_of_not_mem
        intro p hp e
        obtain ⟨r', hr', e'⟩ := hkeys p (mem_removeEmpty hp)
        apply hnd'.1
        simp only [optKey] at e'
        exact List.mem_map.mpr ⟨r', hr', e'.symm.trans e⟩
      have hrest : ∀ r' ∈ rest, r'.1 ≠ lf := by
        intro r' hr' e
        exact hnd'.1 (List.mem_map.mpr ⟨r', hr', e⟩)
      rcases List.mem_cons.mp hr with rfl | hr
      · -- the head row
        cases hl : lookup of obj with
        | none => simp only [hl, Option.some.injEq] at h; subst h; simpa using hfresh
        | some v =>
          simp only [hl] at h
          cases hf : encodeField ft v with
          | none => simp [hf] at h
          | some w =>
            cases w with
            | none =>
              simp only [hf, Option.some.injEq] at h; subst h
              simpa [stored, hf] using hfresh
            | some vals =>
              simp only [hf, Option.some.injEq] at h; subst h
              simp only [Option.bind_some, stored, hf, removeEmpty, List.filter_cons]
              by_cases hv : vals.isEmpty = true
              · simp only [hv, Bool.not_true, Bool.false_eq_true, ↓reduceIte]
                exact hfresh
              · simp [hv, lookup, optKey]
      · -- a later row: the head attribute has another name
        have hne := hrest r hr
        have key : lookup r.1 (removeEmpty e) = lookup r.1 (removeEmpty tail) := by
          cases hl : lookup of obj with
          | none => simp only [hl, Option.some.injEq] at h; subst h; rfl
          | some v =>
            simp only [hl] at h
            cases hf : encodeField ft v with
            | none => simp [hf] at h
            | some w =>
              cases w with
              | none => simp only [hf, Option.some.injEq] at h; subst h; rfl
              | some vals =>
                simp only [hf, Option.some.injEq] at h; subst h
                exact lookup_removeEmpty_cons_ne _ _ _ _ (Ne.symm hne)
        rw [key]
        exact ih hnd'.2 tail ht r hr

/-- encoding a well-typed object never raises -/
theorem dict2entry_some (sch : Schema) (opt : Option (Str × Nat)) (obj : KVs) (ho : ObjWF sch obj) :
    ∃ e, dict2entry sch opt obj = some e := by
  induction sch with
  | nil => exact ⟨[], rfl⟩
  | cons row rest ih =>
    obtain ⟨lf, of, ft⟩ := row
    obtain ⟨tail, ht⟩ := ih (fun r hr => ho r (List.mem_cons_of_mem _ hr))
    simp only [dict2entry, ht]
    cases hl : lookup of obj with
    | none => exact ⟨tail, rfl⟩
    | some v =>
      have hv := ho (lf, of, ft) (by simp) v hl
      by_cases hn : v.isNull = true
      · exact ⟨(optKey opt lf, []) :: tail, by simp [encodeField, hn]⟩
      · obtain ⟨w, hw, _⟩ := field_roundtrip ft v hv (by simpa using hn)
        simp only [hw]
        cases w with
        | none => exact ⟨tail, rfl⟩
        | some vals => exact ⟨_, rfl⟩

/-- decoding an entry in which every attribute of the schema is as stored -/
theorem entry2dict_of_lookup (sch : Schema) (E : Entry) (obj : KVs) (ho : ObjWF sch obj)
    (hl : ∀ r ∈ sch, lookup r.1 E = (lookup r.2.1 obj).bind (stored r.2.2)) :
    entry2dict sch E = some (normalise sch obj) := by
  suffices h : ∃ raw, entry2dictRaw sch E = some raw ∧ dropNulls raw = normalise sch obj by
    obtain ⟨raw, h1, h2⟩ := h
    simp [entry2dict, h1, h2]
  induction sch with
  | nil => exact ⟨[], rfl, rfl⟩
  | cons row rest ih =>
    obtain ⟨lf, of, ft⟩ := row
    obtain ⟨raw, hraw, hdrop⟩ := ih (fun r hr => ho r (List.mem_cons_of_mem _ hr))
      (fun r hr => hl r (List.mem_cons_of_mem _ hr))
    have hhead := hl (lf, of, ft) (by simp)
    simp only at hhead
    simp only [entry2dictRaw, hraw]
    -- the attribute is absent from the stored entry
    have absent : lookup lf E = none →
        normRow obj (lf, of, ft) = (if ftIsList ft then some (of, JVal.arr []) else none) →
        ∃ raw', (match lookup lf E with
            | none => some ((of, if ftIsList ft then JVal.arr [] else JVal.null) :: raw)
            | some vals => match decodeField ft vals with
              | some v => some ((of, v) :: raw)
              | none => none) = some raw' ∧
          dropNulls raw' = normalise ((lf, of, ft) :: rest) obj := by
      intro hnone hnorm
      refine ⟨(of, if ftIsList ft then JVal.arr [] else JVal.null) :: raw, by simp only [hnone], ?_⟩
      rw [normalise_cons, hnorm, dropNulls_cons, hdrop]
      cases ftIsList ft <;> rfl
    cases hlo : lookup of obj with
    | none =>
      rw [hlo] at hhead
      exact absent hhead (by simp [normRow, hlo])
    | some v =>
      rw [hlo] at hhead
      simp only [Option.bind_some] at hhead
      have hv := ho (lf, of, ft) (by simp) v hlo
      by_cases hn : v.isNull = true
      · have : stored ft v = none := by simp [stored, encodeField, hn]
        rw [this] at hhead
        exact absent hhead (by simp [normRow, hlo, hn])
      · have hn' : v.isNull = false := by simpa using hn
        obtain ⟨w, hw, hnn, hdec, hemp⟩ := field_roundtrip ft v hv hn'
        cases hs : stored ft v with
        | none =>
          rw [hs] at hhead
          have hw' : w = none ∨ w = some [] := by
            simp only [stored, hw] at hs
            cases w with
            | none => exact Or.inl rfl
            | some vals =>
              simp only at hs
              split at hs
              · rename_i hv'; right; simpa using hv'
              · cases hs
          obtain ⟨hlist, hnf⟩ := hemp hw'
          exact absent hhead (by simp [normRow, hlo, hn', hlist, hnf])
        | some vals =>
          rw [hs] at hhead
          have hw' : w = some vals ∧ vals ≠ [] := by
            simp only [stored, hw] at hs
            cases w with
            | none => cases hs
            | some vals' =>
              simp only at hs
              split at hs
              · cases hs
              · rename_i hv'
                cases hs
                exact ⟨rfl, by simpa using hv'⟩
          have hd := hdec vals hw'.1 hw'.2
          refine ⟨(of, normField ft v) :: raw, by simp only [hhead, hd], ?_⟩
          have hnr : normRow obj (lf, of, ft) = some (of, normField ft v) := by
            simp [normRow, hlo, hn']
          rw [normalise_cons, hnr, dropNulls_cons, hnn, hdrop]
          rfl

/-- **Flat schema round trip**: `_entry_2_dict(_remove_empty(_dict_2_entry(obj)))` is the normal
    form of `obj`, for every schema with distinct ldap names and every well-typed object. -/
theorem flat_roundtrip (sch : Schema) (hwf : SchemaWF sch) (obj : KVs) (ho : ObjWF sch obj) :
    ∃ e, dict2entry sch none obj = some e ∧ entry2dict sch (removeEmpty e) = some (normalise sch obj) := by
  obtain ⟨e, he⟩ := dict2entry_some sch none obj ho
  exact ⟨e, he, entry2dict_of_lookup sch _ obj ho (lookup_stored sch hwf.1 obj e he)⟩

/-- the option suffix only renames the attributes -/
theorem dict2entry_opt (sch : Schema) (opt : Option (Str × Nat)) (obj : KVs) :
    dict2entry sch opt obj = (dict2entry sch none obj).map (List.map (fun p => (optKey opt p.1, p.2))) := by
  induction sch with
  | nil => rfl
  | cons row rest ih =>
    obtain ⟨lf, of, ft⟩ := row
    simp only [dict2entry, ih]
    cases dict2entry rest none obj with
    | none => rfl
    | some tail =>
      simp only [Option.map_some]
      cases lookup of obj with
      | none => rfl
      | some v =>
        simp only
        cases encodeField ft v with
        | none => rfl
        | some w => cases w <;> simp [optKey]

/-- every attribute written comes from a row whose object field is present -/
theorem dict2entry_keys_present (sch : Schema) (opt : Option (Str × Nat)) (obj : KVs) :
    ∀ e, dict2entry sch opt obj = some e →
      ∀ p ∈ e, ∃ r ∈ sch, p.1 = optKey opt r.1 ∧ (lookup r.2.1 obj).isSome = true := by
  induction sch with
  | nil => intro e h; simp [dict2entry] at h; subst h; simp
  | cons row rest ih =>
    obtain ⟨lf, of, ft⟩ := row
    intro e h p hp
    simp only [dict2entry] at h
    cases ht : dict2entry rest opt obj with
    | none => simp [ht] at h
    | some tail =>
      simp only [ht] at h
      have htail : ∀ q ∈ tail, ∃ r ∈ (lf, of, ft) :: rest, q.1 = optKey opt r.1 ∧ (lookup r.2.1 obj).isSome = true := by
        intro q hq
        obtain ⟨r, hr, e⟩ := ih tail ht q hq
        exact ⟨r, List.mem_cons_of_mem _ hr, e⟩
      cases hl : lookup of obj with
      | none => simp only [hl, Option.some.injEq] at h; subst h; exact htail p hp
      | some v =>
        simp only [hl] at h
        cases hf : encodeField ft v with
        | none => simp [hf] at h
        | some w =>
          cases w with
          | none => simp only [hf, Option.some.injEq] at h; subst h; exact htail p hp
          | some vals =>
            simp only [hf, Option.some.injEq] at h
            subst h
            rcases List.mem_cons.mp hp with rfl | hp
            · exact ⟨(lf, of, ft), by simp, rfl, by simp [hl]⟩
            · exact htail p hp

/-! ### the `dict` field: `DictOK` holds for every canonical dictionary (proved JSON round trip) -/

theorem sortTop_id (kvs : List (Str × JVal)) (prevs : List Str) (hc : canonM prevs kvs = true) :
    sortTop kvs = kvs := by
  induction kvs generalizing prevs with
  | nil => rfl
  | cons p r ih =>
    obtain ⟨k, v⟩ := p
    have hc' := hc
    simp only [canonM, Bool.and_eq_true] at hc
    simp only [sortTop, ih _ hc.2]
    cases r with
    | nil => rfl
    | cons q qs =>
      obtain ⟨k', v'⟩ := q
      exact insertKV_head k v k' v' qs (canonM_next prevs k k' v v' qs hc')


/-- a dictionary without floats whose keys are strictly increasing at every depth satisfies `DictOK`
    (so for such values the round trip of a `dict`-typed field needs no hypothesis) -/
theorem dictOK_of_canon (kvs : KVs) (hc : canonB (.obj kvs) = true) : DictOK kvs := by
  simp only [canonB] at hc
  simp only [DictOK, sortTop_id kvs [] hc]
  exact dumpVal_roundtrip (.obj kvs) (by simpa [canonB] using hc)

/-! ### decidable checkers for the well-formedness predicates (sound; `dict` fields: canonical, no floats) -/

def valOKb : FT → JVal → Bool
  | _, .null => true
  | .str, .str _ => true
  | .str, .float _ => true
  | .int, .int _ => true
  | .bool, .bool _ => true
  | .listStr, .arr l => l.all isStrOrNull
  | .listInt, .arr l => l.all isIntOrNull
  | .dict, .obj kvs => canonB (.obj kvs)
  | _, _ => false

theorem valOKb_sound (ft : FT) (v : JVal) (h : valOKb ft v = true) : valOK ft v := by
  cases ft <;> cases v <;> simp_all [valOKb, valOK]
  exact dictOK_of_canon _ h

def objWFb (sch : Schema) (obj : KVs) : Bool :=
  sch.all (fun r => match lookup r.2.1 obj with
    | none => true
    | some v => valOKb r.2.2 v)

theorem objWFb_sound (sch : Schema) (obj : KVs) (h : objWFb sch obj = true) : ObjWF sch obj := by
  intro r hr v hv
  have := List.all_eq_true.mp h r hr
  simp only [hv] at this
  exact valOKb_sound _ _ this

/-! ### `_empty_list_entry` -/

theorem setKey_mem {α} (k : Str) (v : α) (l : List (Str × α)) (p : Str × α) (h : p ∈ setKey k v l) :
    p = (k, v) ∨ p ∈ l := by
  induction l with
  | nil => simp [setKey] at h; exact Or.inl h
  | cons q r ih =>
    obtain ⟨k', v'⟩ := q
    simp only [setKey] at h
    split at h
    · rcases List.mem_cons.mp h with h | h
      · exact Or.inl h
      · exact Or.inr (List.mem_cons_of_mem _ h)
    · rcases List.mem_cons.mp h with h | h
      · exact Or.inr (by simp [h])
      · rcases ih h with h | h
        · exact Or.inl h
        · exact Or.inr (List.mem_cons_of_mem _ h)

theorem emptyListEntry_mem (sch : Schema) : ∀ p ∈ emptyListEntry sch, p.2 = [] ∧ ∃ r ∈ sch, p.1 = r.1 := by
  suffices h : ∀ (l : Schema) (acc : Entry), (∀ p ∈ acc, p.2 = [] ∧ ∃ r ∈ sch, p.1 = r.1) → (∀ r ∈ l, r ∈ sch) →
      ∀ p ∈ l.foldl (fun acc r => setKey r.1 [] acc) acc, p.2 = [] ∧ ∃ r ∈ sch, p.1 = r.1 from
    h sch [] (by intro p hp; cases hp) (fun r hr => hr)
  intro l
  induction l with
  | nil => intro acc hacc _ p hp; exact hacc p hp
  | cons row rest ih =>
    intro acc hacc hsub p hp
    simp only [List.foldl_cons] at hp
    refine ih (setKey row.1 [] acc) ?_ (fun r hr => hsub r (List.mem_cons_of_mem _ hr)) p hp
    intro q hq
    rcases setKey_mem _ _ _ _ hq with rfl | hq
    · exact ⟨rfl, row, hsub row (by simp), rfl⟩
    · exact hacc q hq

theorem removeEmpty_emptyListEntry (sch : Schema) : removeEmpty (emptyListEntry sch) = [] := by
  simp only [removeEmpty, List.filter_eq_nil_iff]
  intro p hp
  simp [(emptyListEntry_mem sch p hp).1]

end TmVerif.Codec
