/-
  Container unique names (`appcfg/__init__.py` ~49-151):
    gen_uniqueid, _fmt_unique_name, app_name, app_unique_id, eventfile_unique_name.
  All constants come from the extractor (`TmVerif.ExtCodec`).
-/
import TmVerif.Gen.ExtCodec
import TmVerif.Codec.BaseN

namespace TmVerif.Codec
open TmVerif

/-- `gen_uniqueid`'s seed.  `ctimeUs = int(st_ctime * 10**6)` (a float product, recorded by the
    harness), `ino = int(st_ino)`, `inst = int(<digits after '#'>)`. -/
def genSeed (ctimeUs ino inst : Nat) : Nat :=
  ((ctimeUs <<< ExtCodec.uidTimeShift) +
    ((ino ^^^ (inst <<< ExtCodec.uidInstShift)) &&& ExtCodec.uidDataMask)) &&& ExtCodec.uidSeedMask

/-- `'{identifier:>013s}'.format(identifier=to_base_n(seed, base=len(numerals), alphabet=numerals))`. -/
def uniqueIdOfSeed (seed : Nat) : Except BErr Str :=
  match toBaseN ExtCodec.uidAlphabet ExtCodec.uidAlphabet.length seed with
  | .ok s => .ok (rjust ExtCodec.uidWidth ExtCodec.uidFill s)
  | .error e => .error e

def genUniqueId (ctimeUs ino inst : Nat) : Except BErr Str := uniqueIdOfSeed (genSeed ctimeUs ino inst)

/-- `_fmt_unique_name(appname, app_uniqueid)`. -/
def fmtUniqueName (appname uid : Str) : Str :=
  replaceChar ExtCodec.nameReplFrom ExtCodec.nameReplTo appname ++
    ExtCodec.nameSep :: rjust ExtCodec.nameIdWidth ExtCodec.nameIdFill uid

/-- `app_name(uniquename)`: `'#'.join(uniquename.rsplit('-', 1)[0].rsplit('-', 1))`. -/
def appName (u : Str) : Str :=
  match rsplit1 '-' (rsplit1 '-' u).1 with
  | (h, some t) => h ++ '#' :: t
  | (h, none) => h

/-- `app_unique_id(uniquename)`: `uniquename.rsplit('-', 1)[1]` (`none` = IndexError). -/
def appUniqueId (u : Str) : Option Str := (rsplit1 '-' u).2

/-- `eventfile_unique_name`: name = basename of the event file. -/
def eventfileUniqueName (name : Str) (ctimeUs ino inst : Nat) : Except BErr Str :=
  match genUniqueId ctimeUs ino inst with
  | .ok uid => .ok (fmtUniqueName name uid)
  | .error e => .error e

/-! ### facts about the extracted constants (re-checked whenever the source changes) -/

theorem uidAlphabet_nodup : ExtCodec.uidAlphabet.Nodup := by decide +kernel
theorem baseAlphabet_nodup : ExtCodec.baseAlphabet.Nodup := by decide +kernel
theorem uidAlphabet_len : 2 ≤ ExtCodec.uidAlphabet.length := by decide
theorem baseAlphabet_len : 2 ≤ ExtCodec.baseAlphabet.length := by decide
/-- 2^77 ≤ 62^13: every masked seed fits the width. -/
theorem uidSeedMask_lt : ExtCodec.uidSeedMask < ExtCodec.uidAlphabet.length ^ ExtCodec.uidWidth := by decide
theorem uidWidth_pos : 1 ≤ ExtCodec.uidWidth := by decide
/-- the fill character is the zero digit of the alphabet -/
theorem uidFill_zero : indexOf? ExtCodec.uidFill ExtCodec.uidAlphabet = some 0 := by decide
theorem sep_not_in_uidAlphabet : '-' ∉ ExtCodec.uidAlphabet := by decide +kernel
theorem hash_not_in_uidAlphabet : '#' ∉ ExtCodec.uidAlphabet := by decide +kernel
theorem name_consts : ExtCodec.nameReplFrom = '#' ∧ ExtCodec.nameReplTo = '-' ∧ ExtCodec.nameSep = '-' ∧
    ExtCodec.nameIdFill ≠ '-' ∧ ExtCodec.nameIdWidth = ExtCodec.uidWidth := by decide
/-- The seed mask is `2^k - 1` for the `k` that makes `&&&` a truncation. -/
theorem uidSeedMask_pow : ExtCodec.uidSeedMask = 2 ^ 77 - 1 := by decide

/-! ### lemmas -/

theorem genSeed_le (c i n : Nat) : genSeed c i n ≤ ExtCodec.uidSeedMask := by
  unfold genSeed; exact Nat.and_le_right

theorem uniqueIdOfSeed_spec (seed : Nat) (h : seed ≤ ExtCodec.uidSeedMask) :
    ∃ s, toBaseN ExtCodec.uidAlphabet ExtCodec.uidAlphabet.length seed = .ok s ∧
      s.length ≤ ExtCodec.uidWidth ∧ (∀ c ∈ s, c ∈ ExtCodec.uidAlphabet) ∧
      uniqueIdOfSeed seed = .ok (rjust ExtCodec.uidWidth ExtCodec.uidFill s) ∧
      fromBaseN ExtCodec.uidAlphabet ExtCodec.uidAlphabet.length s = .ok seed := by
  obtain ⟨s, hs, hfrom⟩ := basen_roundtrip ExtCodec.uidAlphabet _ uidAlphabet_len (Nat.le_refl _)
    uidAlphabet_nodup seed
  refine ⟨s, hs, ?_, ?_, ?_, hfrom⟩
  · exact toBaseN_length _ _ seed _ uidAlphabet_len (Nat.le_refl _) uidWidth_pos
      (Nat.lt_of_le_of_lt h uidSeedMask_lt) s hs
  · exact toBaseN_mem _ _ seed uidAlphabet_len (Nat.le_refl _) s hs
  · simp [uniqueIdOfSeed, hs]

/-- Decoding the PADDED id with `from_base_n` still gives the seed. -/
theorem fromBaseN_uniqueId (seed : Nat) (h : seed ≤ ExtCodec.uidSeedMask) (u : Str)
    (hu : uniqueIdOfSeed seed = .ok u) :
    fromBaseN ExtCodec.uidAlphabet ExtCodec.uidAlphabet.length u = .ok seed := by
  obtain ⟨s, _, _, _, hu', hfrom⟩ := uniqueIdOfSeed_spec seed h
  rw [hu] at hu'; cases hu'
  unfold fromBaseN at hfrom ⊢
  simp only [Nat.lt_irrefl, gt_iff_lt, ↓reduceIte] at hfrom ⊢
  rw [rjust, fromAux_replicate_zero _ _ _ uidFill_zero]
  exact hfrom

theorem fmtUniqueName_eq (app num uid : Str) (ha : '#' ∉ app) (hn : '#' ∉ num) :
    fmtUniqueName (app ++ '#' :: num) uid =
      (app ++ '-' :: num) ++ '-' :: rjust ExtCodec.uidWidth ExtCodec.nameIdFill uid := by
  obtain ⟨h1, h2, h3, _, h5⟩ := name_consts
  simp only [fmtUniqueName, h1, h2, h3, h5, replaceChar, List.map_append, List.map_cons, ↓reduceIte]
  have e1 := replaceChar_nomem '#' '-' app ha
  have e2 := replaceChar_nomem '#' '-' num hn
  simp only [replaceChar] at e1 e2
  rw [e1, e2]

end TmVerif.Codec
