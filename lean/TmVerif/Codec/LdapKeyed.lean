/-
  Lemmas for the schema-driven LDAP codec, level 2: keyed lists
  (`_to_obj_list` → `_remove_empty` → `_group_entry_by_opt` → `_grouped_to_list_of_dict`).
-/
import TmVerif.Codec.LdapFlat

namespace TmVerif.Codec
open TmVerif
open TmVerif.ExtCodec (FT)

/-! ### hexadecimal indices are injective and contain no ';' -/

def unhex (s : Str) : Nat := s.foldl (fun acc c => acc * 16 + (hexVal? c).getD 0) 0

theorem hexVal_hexDigitChar : ∀ k, k < 16 → hexVal? (hexDigitChar k) = some k := by decide

theorem hexDigitChar_ne_semi : ∀ k, k < 16 → hexDigitChar k ≠ ';' := by decide

theorem unhex_hexDigits : ∀ fuel n, n < fuel → unhex (hexDigits fuel n) = n := by
  intro fuel
  induction fuel with
  | zero => intro n h; omega
  | succ f ih =>
    intro n h
    simp only [hexDigits]
    split
    · rename_i hlt
      simp [unhex, hexVal_hexDigitChar n hlt]
    · rename_i hge
      have h1 : n / 16 < f := by omega
      have := ih (n / 16) h1
      simp only [unhex, List.foldl_append, List.foldl_cons, List.foldl_nil] at this ⊢
      rw [this, hexVal_hexDigitChar (n % 16) (Nat.mod_lt _ (by decide))]
      simp only [Option.getD_some]
      omega

theorem hexOfNat_inj (i j : Nat) (h : hexOfNat i = hexOfNat j) : i = j := by
  have hi := unhex_hexDigits (i + 1) i (by omega)
  have hj := unhex_hexDigits (j + 1) j (by omega)
  simp only [hexOfNat] at h
  rw [h] at hi
  omega

theorem hexDigits_no_semi : ∀ fuel n, ';' ∉ hexDigits fuel n := by
  intro fuel
  induction fuel with
  | zero => intro n; simp [hexDigits]
  | succ f ih =>
    intro n
    simp only [hexDigits]
    split
    · rename_i hlt
      simp only [List.mem_singleton]
      exact fun e => hexDigitChar_ne_semi n hlt e.symm
    · simp only [List.mem_append, List.mem_singleton, not_or]
      exact ⟨ih _, fun e => hexDigitChar_ne_semi (n % 16) (Nat.mod_lt _ (by decide)) e.symm⟩

/-- the option string of row `i` of a keyed list -/
def optStr (pfx : Str) (i : Nat) : Str := pfx ++ '-' :: hexOfNat i

theorem optStr_inj (pfx : Str) (i j : Nat) (h : optStr pfx i = optStr pfx j) : i = j := by
  simp only [optStr, List.append_cancel_left_eq, List.cons.injEq, true_and] at h
  exact hexOfNat_inj i j h

theorem optStr_no_semi (pfx : Str) (i : Nat) (hp : ';' ∉ pfx) : ';' ∉ optStr pfx i := by
  simp only [optStr, List.mem_append, List.mem_cons, not_or]
  exact ⟨hp, by decide, hexDigits_no_semi _ _⟩

theorem optStr_prefix (pfx : Str) (i : Nat) : (pfxOf pfx).isPrefixOf (optStr pfx i) = true := by
  simp only [pfxOf, optStr, List.isPrefixOf_iff_prefix]
  exact ⟨hexOfNat i, by simp⟩

/-! ### blocks of option-suffixed attributes -/

/-- `'{attribute};{option}'` -/
def suffixKey (o f : Str) : Str := f ++ ';' :: o

def renderBlock (o : Str) (e : Entry) : Entry := e.map (fun p => (suffixKey o p.1, p.2))

def render : List (Str × Entry) → Entry
  | [] => []
  | b :: r => renderBlock b.1 b.2 ++ render r

/-- attribute names without ';' -/
def PlainOK (e : Entry) : Prop := ∀ p ∈ e, ';' ∉ p.1

theorem fieldOpt_suffixKey (o f : Str) (hf : ';' ∉ f) (ho : ';' ∉ o) : fieldOpt (suffixKey o f) = some (f, o) := by
  simp only [fieldOpt, suffixKey, splitOn_append ';' f o hf, splitOn_nosep ';' o ho]

theorem fieldOpt_plain (k : Str) (h : ';' ∉ k) : fieldOpt k = none := by
  simp only [fieldOpt, splitOn_nosep ';' k h]

/-- no attribute of `A` carries an option starting with `pfx` -/
def NoPfx (pfx : Str) (A : Entry) : Prop :=
  ∀ p ∈ A, ∀ f o, fieldOpt p.1 = some (f, o) → pfx.isPrefixOf o = false

theorem NoPfx_of_plain (pfx : Str) (A : Entry) (h : PlainOK A) : NoPfx pfx A := by
  intro p hp f o e
  rw [fieldOpt_plain _ (h p hp)] at e
  cases e

theorem NoPfx_append {pfx : Str} {A B : Entry} (ha : NoPfx pfx A) (hb : NoPfx pfx B) : NoPfx pfx (A ++ B) := by
  intro p hp
  rcases List.mem_append.mp hp with h | h
  · exact ha p h
  · exact hb p h

theorem NoPfx_removeEmpty {pfx : Str} {A : Entry} (ha : NoPfx pfx A) : NoPfx pfx (removeEmpty A) :=
  fun p hp => ha p (mem_removeEmpty hp)

theorem groupOf_append (o : Str) (a b : Entry) : groupOf o (a ++ b) = groupOf o a ++ groupOf o b := by
  induction a with
  | nil => rfl
  | cons p r ih =>
    obtain ⟨k, v⟩ := p
    simp only [List.cons_append, groupOf]
    split
    · split
      · simp [ih]
      · exact ih
    · exact ih

theorem groupOf_renderBlock_same (o : Str) (e : Entry) (he : PlainOK e) (ho : ';' ∉ o) :
    groupOf o (renderBlock o e) = e := by
  induction e with
  | nil => rfl
  | cons p r ih =>
    obtain ⟨k, v⟩ := p
    have hk : ';' ∉ k := he (k, v) (by simp)
    simp only [renderBlock, List.map_cons, groupOf, fieldOpt_suffixKey o k hk ho, ↓reduceIte]
    congr 1
    exact ih (fun q hq => he q (List.mem_cons_of_mem _ hq))

theorem groupOf_renderBlock_other (o o' : Str) (e : Entry) (he : PlainOK e) (ho : ';' ∉ o) (hne : o ≠ o') :
    groupOf o' (renderBlock o e) = [] := by
  induction e with
  | nil => rfl
  | cons p r ih =>
    obtain ⟨k, v⟩ := p
    have hk : ';' ∉ k := he (k, v) (by simp)
    simp only [renderBlock, List.map_cons, groupOf, fieldOpt_suffixKey o k hk ho, hne, ↓reduceIte]
    exact ih (fun q hq => he q (List.mem_cons_of_mem _ hq))

theorem groupOf_noPfx (pfx o : Str) (A : Entry) (hA : NoPfx pfx A) (ho : pfx.isPrefixOf o = true) :
    groupOf o A = [] := by
  induction A with
  | nil => rfl
  | cons p r ih =>
    obtain ⟨k, v⟩ := p
    have hr := ih (fun q hq => hA q (List.mem_cons_of_mem _ hq))
    simp only [groupOf]
    split
    · rename_i f o' heq
      split
      · rename_i e
        subst e
        have := hA (k, v) (by simp) f o' heq
        rw [ho] at this; cases this
      · exact hr
    · exact hr

theorem optionsOf_noPfx (pfx : Str) (A R : Entry) (hA : NoPfx pfx A) :
    optionsOf pfx (A ++ R) = optionsOf pfx R := by
  induction A with
  | nil => rfl
  | cons p r ih =>
    obtain ⟨k, v⟩ := p
    have hr := ih (fun q hq => hA q (List.mem_cons_of_mem _ hq))
    simp only [List.cons_append, optionsOf]
    split
    · rename_i f o heq
      have := hA (k, v) (by simp) f o heq
      simp only [this, Bool.false_eq_true, ↓reduceIte]
      exact hr
    · exact hr

theorem optionsOf_nil_of_noPfx (pfx : Str) (A : Entry) (hA : NoPfx pfx A) : optionsOf pfx A = [] := by
  have := optionsOf_noPfx pfx A [] hA
  simpa [optionsOf] using this

theorem optionsOf_renderBlock (pfx o : Str) (e R : Entry) (he : PlainOK e) (hne : e ≠ []) (ho : ';' ∉ o)
    (hp : pfx.isPrefixOf o = true) (hfresh : o ∉ optionsOf pfx R) :
    optionsOf pfx (renderBlock o e ++ R) = o :: optionsOf pfx R := by
  induction e with
  | nil => exact absurd rfl hne
  | cons p r ih =>
    obtain ⟨k, v⟩ := p
    have hk : ';' ∉ k := he (k, v) (by simp)
    simp only [renderBlock, List.map_cons, List.cons_append, optionsOf, fieldOpt_suffixKey o k hk ho, hp, ↓reduceIte]
    congr 1
    cases r with
    | nil =>
      simp only [List.map_nil, List.nil_append]
      exact List.filter_eq_self.mpr (fun x hx => by
        have hxo : x ≠ o := fun e => hfresh (e ▸ hx)
        simpa using hxo)
    | cons q r' =>
      have := ih (fun q' hq => he q' (List.mem_cons_of_mem _ hq)) (by simp)
      simp only [renderBlock] at this
      rw [this]
      simp only [List.filter_cons, ne_eq, not_true_eq_false, decide_false, Bool.false_eq_true, ↓reduceIte]
      exact List.filter_eq_self.mpr (fun x hx => by
        have hxo : x ≠ o := fun e => hfresh (e ▸ hx)
        simpa using hxo)

/-- a list of blocks is clean when the options are pairwise distinct, ';'-free, carry the prefix,
    and every block is a non-empty set of ';'-free attribute names -/
structure BlocksOK (pfx : Str) (blocks : List (Str × Entry)) : Prop where
  nodup : (blocks.map (·.1)).Nodup
  opt : ∀ b ∈ blocks, ';' ∉ b.1 ∧ pfx.isPrefixOf b.1 = true
  plain : ∀ b ∈ blocks, PlainOK b.2 ∧ b.2 ≠ []

theorem BlocksOK.tail {pfx : Str} {b : Str × Entry} {r : List (Str × Entry)} (h : BlocksOK pfx (b :: r)) :
    BlocksOK pfx r :=
  ⟨(List.nodup_cons.mp h.nodup).2, fun x hx => h.opt x (List.mem_cons_of_mem _ hx),
   fun x hx => h.plain x (List.mem_cons_of_mem _ hx)⟩

theorem optionsOf_render (pfx : Str) (blocks : List (Str × Entry)) (C : Entry) (hb : BlocksOK pfx blocks)
    (hC : NoPfx pfx C) : optionsOf pfx (render blocks ++ C) = blocks.map (·.1) := by
  induction blocks with
  | nil => simpa [render] using optionsOf_nil_of_noPfx pfx C hC
  | cons b r ih =>
    have ihr := ih hb.tail
    obtain ⟨ho, hp⟩ := hb.opt b (by simp)
    obtain ⟨hpl, hne⟩ := hb.plain b (by simp)
    simp only [render, List.append_assoc, List.map_cons]
    rw [optionsOf_renderBlock pfx b.1 b.2 _ hpl hne ho hp (by rw [ihr]; exact (List.nodup_cons.mp hb.nodup).1), ihr]

theorem groupOf_render_absent (o : Str) (blocks : List (Str × Entry))
    (hpl : ∀ b ∈ blocks, PlainOK b.2 ∧ ';' ∉ b.1) (hne : ∀ b ∈ blocks, b.1 ≠ o) :
    groupOf o (render blocks) = [] := by
  induction blocks with
  | nil => rfl
  | cons d r ih =>
    obtain ⟨hdpl, hdo⟩ := hpl d (by simp)
    simp only [render, groupOf_append, groupOf_renderBlock_other _ _ _ hdpl hdo (hne d (by simp)), List.nil_append]
    exact ih (fun x hx => hpl x (List.mem_cons_of_mem _ hx)) (fun x hx => hne x (List.mem_cons_of_mem _ hx))

theorem groupOf_render (pfx : Str) (blocks : List (Str × Entry)) (hb : BlocksOK pfx blocks) :
    ∀ b ∈ blocks, groupOf b.1 (render blocks) = b.2 := by
  induction blocks with
  | nil => intro b hb'; cases hb'
  | cons c r ih =>
    intro b hmem
    obtain ⟨hco, _⟩ := hb.opt c (by simp)
    obtain ⟨hcpl, _⟩ := hb.plain c (by simp)
    have hnd := List.nodup_cons.mp hb.nodup
    simp only [render, groupOf_append]
    rcases List.mem_cons.mp hmem with rfl | hmem
    · rw [groupOf_renderBlock_same _ _ hcpl hco]
      have : groupOf b.1 (render r) = [] :=
        groupOf_render_absent b.1 r
          (fun x hx => ⟨(hb.plain x (List.mem_cons_of_mem _ hx)).1, (hb.opt x (List.mem_cons_of_mem _ hx)).1⟩)
          (fun x hx e => hnd.1 (List.mem_map.mpr ⟨x, hx, e⟩))
      simp [this]
    · have hne : c.1 ≠ b.1 := fun e => hnd.1 (List.mem_map.mpr ⟨b, hmem, e.symm⟩)
      rw [groupOf_renderBlock_other _ _ _ hcpl hco hne]
      simpa using ih hb.tail b hmem

/-! ### `_to_obj_list` produces clean blocks -/

/-- the stored attributes of the rows `i, i+1, …` under their option strings -/
def blocksOf (sch : Schema) (pfx : Str) : Nat → List KVs → List (Str × Entry)
  | _, [] => []
  | i, row :: r => (optStr pfx i, removeEmpty ((dict2entry sch none row).getD [])) :: blocksOf sch pfx (i + 1) r

theorem removeEmpty_map (f : Str → Str) (e : Entry) :
    removeEmpty (e.map (fun p => (f p.1, p.2))) = (removeEmpty e).map (fun p => (f p.1, p.2)) := by
  induction e with
  | nil => rfl
  | cons p r ih =>
    simp only [List.map_cons, removeEmpty, List.filter_cons]
    simp only [removeEmpty] at ih
    split <;> simp [ih]

theorem encodeRows_render (sch : Schema) (pfx : Str) (rows : List KVs) (hr : ∀ row ∈ rows, ObjWF sch row) :
    ∀ i, ∃ E, encodeRows sch pfx i rows = some E ∧ removeEmpty E = render (blocksOf sch pfx i rows) := by
  induction rows with
  | nil => intro i; exact ⟨[], rfl, rfl⟩
  | cons row r ih =>
    intro i
    obtain ⟨T, hT, hTr⟩ := ih (fun x hx => hr x (List.mem_cons_of_mem _ hx)) (i + 1)
    obtain ⟨plain, hplain⟩ := dict2entry_some sch none row (hr row (by simp))
    have hopt := dict2entry_opt sch (some (pfx, i)) row
    rw [hplain] at hopt
    simp only [Option.map_some] at hopt
    refine ⟨plain.map (fun p => (optKey (some (pfx, i)) p.1, p.2)) ++ T, by simp only [encodeRows, hopt, hT], ?_⟩
    rw [removeEmpty_append, hTr]
    simp only [blocksOf, render, hplain, Option.getD_some, renderBlock]
    congr 1
    exact removeEmpty_map (optKey (some (pfx, i))) plain

theorem blocksOf_opts (sch : Schema) (pfx : Str) (rows : List KVs) :
    ∀ i, ∀ b ∈ blocksOf sch pfx i rows, ∃ j, i ≤ j ∧ b.1 = optStr pfx j := by
  induction rows with
  | nil => intro i b hb; cases hb
  | cons row r ih =>
    intro i b hb
    simp only [blocksOf, List.mem_cons] at hb
    rcases hb with rfl | hb
    · exact ⟨i, Nat.le_refl _, rfl⟩
    · obtain ⟨j, hj, e⟩ := ih (i + 1) b hb
      exact ⟨j, by omega, e⟩

/-- the key field is a `str` row of the schema -/
def KeyRow (sch : Schema) (key : Str) : Prop := ∃ lf, (lf, key, FT.str) ∈ sch

/-- a row of a keyed list: well-typed and carrying its (string) key -/
def RowOK (sch : Schema) (key : Str) (row : KVs) : Prop :=
  ObjWF sch row ∧ ∃ s, lookup key row = some (.str s)

def isStrJ : JVal → Bool
  | .str _ => true
  | _ => false

def rowOKb (sch : Schema) (key : Str) (row : KVs) : Bool :=
  objWFb sch row && (match lookup key row with
    | some v => isStrJ v
    | none => false)

theorem rowOKb_sound (sch : Schema) (key : Str) (row : KVs) (h : rowOKb sch key row = true) : RowOK sch key row := by
  simp only [rowOKb, Bool.and_eq_true] at h
  refine ⟨objWFb_sound sch row h.1, ?_⟩
  cases hl : lookup key row with
  | none => simp [hl] at h
  | some v =>
    cases v <;> simp [hl, isStrJ] at h
    exact ⟨_, rfl⟩

theorem plain_block_ok (sch : Schema) (hwf : SchemaWF sch) (key : Str) (hk : KeyRow sch key) (row : KVs)
    (hrow : RowOK sch key row) :
    PlainOK (removeEmpty ((dict2entry sch none row).getD [])) ∧
      removeEmpty ((dict2entry sch none row).getD []) ≠ [] := by
  obtain ⟨plain, hplain⟩ := dict2entry_some sch none row hrow.1
  simp only [hplain, Option.getD_some]
  constructor
  · intro p hp
    obtain ⟨r, hr, e⟩ := dict2entry_keys sch none row plain hplain p (mem_removeEmpty hp)
    simp only [optKey] at e
    rw [e]
    exact hwf.2.2 r hr
  · obtain ⟨lf, hlf⟩ := hk
    obtain ⟨s, hs⟩ := hrow.2
    have := lookup_stored sch hwf.1 row plain hplain (lf, key, FT.str) hlf
    simp only [hs, Option.bind_some, stored, encodeField, JVal.isNull, Bool.false_eq_true, ↓reduceIte,
      textOf, Option.map_some, List.isEmpty_cons] at this
    intro e
    rw [e] at this
    simp [lookup] at this

theorem blocksOf_ok (sch : Schema) (hwf : SchemaWF sch) (key pfx : Str) (hk : KeyRow sch key) (hp : ';' ∉ pfx)
    (rows : List KVs) (hr : ∀ row ∈ rows, RowOK sch key row) :
    ∀ i, BlocksOK (pfxOf pfx) (blocksOf sch pfx i rows) := by
  induction rows with
  | nil =>
    intro i
    exact ⟨by simp [blocksOf], fun b hb => absurd hb (by simp [blocksOf]),
      fun b hb => absurd hb (by simp [blocksOf])⟩
  | cons row r ih =>
    intro i
    have ihr := ih (fun x hx => hr x (List.mem_cons_of_mem _ hx)) (i + 1)
    refine ⟨?_, ?_, ?_⟩
    · simp only [blocksOf, List.map_cons, List.nodup_cons]
      refine ⟨?_, ihr.nodup⟩
      intro hmem
      obtain ⟨b, hb, e⟩ := List.mem_map.mp hmem
      obtain ⟨j, hj, e'⟩ := blocksOf_opts sch pfx r (i + 1) b hb
      have := optStr_inj pfx j i (by rw [← e', e])
      omega
    · intro b hb
      simp only [blocksOf, List.mem_cons] at hb
      rcases hb with rfl | hb
      · exact ⟨optStr_no_semi pfx i hp, optStr_prefix pfx i⟩
      · exact ihr.opt b hb
    · intro b hb
      simp only [blocksOf, List.mem_cons] at hb
      rcases hb with rfl | hb
      · exact plain_block_ok sch hwf key hk row (hr row (by simp))
      · exact ihr.plain b hb

theorem decodeGroups_blocks (sch : Schema) (hwf : SchemaWF sch) (pfx : Str) (entry : Entry) (rows : List KVs)
    (hr : ∀ row ∈ rows, ObjWF sch row) :
    ∀ i, (∀ b ∈ blocksOf sch pfx i rows, groupOf b.1 entry = b.2) →
      decodeGroups sch entry ((blocksOf sch pfx i rows).map (·.1)) = some (rows.map (normalise sch)) := by
  induction rows with
  | nil => intro i _; rfl
  | cons row r ih =>
    intro i hg
    have hhead := hg (optStr pfx i, removeEmpty ((dict2entry sch none row).getD [])) (by simp [blocksOf])
    simp only at hhead
    obtain ⟨plain, hplain, hrt⟩ := flat_roundtrip sch hwf row (hr row (by simp))
    simp only [hplain, Option.getD_some] at hhead
    have ihr := ih (fun x hx => hr x (List.mem_cons_of_mem _ hx)) (i + 1)
      (fun b hb => hg b (by simp [blocksOf, hb]))
    simp only [blocksOf, List.map_cons, decodeGroups, hhead, hrt, ihr]

/-- **Keyed list round trip.**  A keyed list written by `_to_obj_list` into an entry that also
    holds other attributes (`A`, `C`: none of them with an option of this prefix), stored
    (`_remove_empty`) and read by `_grouped_to_list_of_dict`, is the list of the rows' normal forms,
    in the final sorted-by-items order. -/
theorem keyed_roundtrip (sch : Schema) (hwf : SchemaWF sch) (key pfx : Str) (hk : KeyRow sch key)
    (hp : ';' ∉ pfx) (objs : List JVal) (rows : List KVs) (hs : sortByKey key objs = some rows)
    (hr : ∀ row ∈ rows, RowOK sch key row)
    (A C : Entry) (hA : NoPfx (pfxOf pfx) A) (hC : NoPfx (pfxOf pfx) C)
    (hAok : optKeysOk (pfxOf pfx) A = true) (hCok : optKeysOk (pfxOf pfx) C = true) :
    ∃ E, toObjList objs key pfx sch = some E ∧
      groupedToList sch (pfxOf pfx) (removeEmpty A ++ removeEmpty E ++ removeEmpty C)
        = some (sortRows (rows.map (normalise sch))) ∧
      NoPfx (pfxOf pfx) (emptyListEntry sch) := by
  have hempty : NoPfx (pfxOf pfx) (emptyListEntry sch) := by
    apply NoPfx_of_plain
    intro p hp'
    obtain ⟨_, r, hr', e⟩ := emptyListEntry_mem sch p hp'
    rw [e]
    exact hwf.2.2 r hr'
  have hok_sub : ∀ X : Entry, optKeysOk (pfxOf pfx) X = true → optKeysOk (pfxOf pfx) (removeEmpty X) = true := by
    intro X hX
    simp only [optKeysOk, List.all_eq_true] at hX ⊢
    exact fun p hp' => hX p (mem_removeEmpty hp')
  have hok_app : ∀ X Y : Entry, optKeysOk (pfxOf pfx) X = true → optKeysOk (pfxOf pfx) Y = true →
      optKeysOk (pfxOf pfx) (X ++ Y) = true := by
    intro X Y hX hY
    simp only [optKeysOk, List.all_append, Bool.and_eq_true]
    exact ⟨hX, hY⟩
  cases rows with
  | nil =>
    refine ⟨emptyListEntry sch, by simp [toObjList, hs], ?_, hempty⟩
    have hE : removeEmpty (emptyListEntry sch) = [] := removeEmpty_emptyListEntry sch
    have hall : NoPfx (pfxOf pfx) (removeEmpty A ++ [] ++ removeEmpty C) :=
      NoPfx_append (NoPfx_append (NoPfx_removeEmpty hA) (by intro p hp'; cases hp')) (NoPfx_removeEmpty hC)
    simp only [hE, groupedToList, optionsOf_nil_of_noPfx _ _ hall, decodeGroups, List.map_nil]
    have : optKeysOk (pfxOf pfx) (removeEmpty A ++ [] ++ removeEmpty C) = true :=
      hok_app _ _ (hok_app _ _ (hok_sub A hAok) (by simp [optKeysOk])) (hok_sub C hCok)
    simp only [this, ↓reduceIte, Option.map_some, sortRows, isort]
  | cons row r =>
    obtain ⟨E, hE, hEr⟩ := encodeRows_render sch pfx (row :: r) (fun x hx => (hr x hx).1) 0
    have hb := blocksOf_ok sch hwf key pfx hk hp (row :: r) hr 0
    refine ⟨E, by simp [toObjList, hs, hE], ?_, hempty⟩
    rw [hEr]
    have hopts : optionsOf (pfxOf pfx) (removeEmpty A ++ render (blocksOf sch pfx 0 (row :: r)) ++ removeEmpty C)
        = (blocksOf sch pfx 0 (row :: r)).map (·.1) := by
      rw [List.append_assoc, optionsOf_noPfx _ _ _ (NoPfx_removeEmpty hA)]
      exact optionsOf_render _ _ _ hb (NoPfx_removeEmpty hC)
    have hgroups : ∀ b ∈ blocksOf sch pfx 0 (row :: r),
        groupOf b.1 (removeEmpty A ++ render (blocksOf sch pfx 0 (row :: r)) ++ removeEmpty C) = b.2 := by
      intro b hb'
      have hpre := (hb.opt b hb').2
      simp only [groupOf_append, groupOf_noPfx _ _ _ (NoPfx_removeEmpty hA) hpre,
        groupOf_noPfx _ _ _ (NoPfx_removeEmpty hC) hpre, groupOf_render _ _ hb b hb', List.nil_append,
        List.append_nil]
    have hok : optKeysOk (pfxOf pfx) (removeEmpty A ++ render (blocksOf sch pfx 0 (row :: r)) ++ removeEmpty C) = true := by
      refine hok_app _ _ (hok_app _ _ (hok_sub A hAok) ?_) (hok_sub C hCok)
      -- every rendered key has exactly one ';'
      simp only [optKeysOk, List.all_eq_true]
      intro p hp'
      have : ∃ f o, ';' ∉ f ∧ ';' ∉ o ∧ p.1 = suffixKey o f := by
        clear hopts hgroups
        generalize blocksOf sch pfx 0 (row :: r) = bl at hb hp'
        induction bl with
        | nil => cases hp'
        | cons c t iht =>
          simp only [render, List.mem_append] at hp'
          rcases hp' with h | h
          · obtain ⟨q, hq, e⟩ := List.mem_map.mp h
            exact ⟨q.1, c.1, (hb.plain c (by simp)).1 q hq, (hb.opt c (by simp)).1, by rw [← e]⟩
          · exact iht hb.tail h
      obtain ⟨f, o, hf, ho, e⟩ := this
      rw [e]
      simp only [suffixKey, splitOn_append ';' f o hf, splitOn_nosep ';' o ho]
    simp only [groupedToList, hok, ↓reduceIte, hopts,
      decodeGroups_blocks sch hwf pfx _ (row :: r) (fun x hx => (hr x hx).1) 0 hgroups, Option.map_some]

end TmVerif.Codec
