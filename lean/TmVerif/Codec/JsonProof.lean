/-
  `jsonLoads (jsonDumps v) = some v` for the executable JSON printer/parser of TmVerif.Codec.Json,
  for every value without floats whose dictionaries have strictly increasing keys (`JCanon`).
  (This is a statement about the MODEL of the JSON text format; Python's `json` is compared with
  this model by the correspondence run.)
-/
import TmVerif.Codec.Json

namespace TmVerif.Codec

/-! ### strings -/

theorem hexVal_hexDigitChar' : ∀ k, k < 16 → hexVal? (hexDigitChar k) = some k := by decide

theorem char_range (c : Char) : c.toNat < 55296 ∨ (57343 < c.toNat ∧ c.toNat < 1114112) := c.valid

/-- the UTF-16 code units the printer writes for one character -/
def unitsOf (c : Char) : List Nat :=
  if c.toNat < 65536 then [c.toNat] else [55296 + (c.toNat - 65536) / 1024, 56320 + (c.toNat - 65536) % 1024]

theorem parse_u4 (n : Nat) (h : n < 65536) (r : Str) (acc : List Nat) :
    psu .norm (u4 n ++ r) acc = psu .norm r (n :: acc) := by
  have h1 := hexVal_hexDigitChar' (n / 4096 % 16) (Nat.mod_lt _ (by decide))
  have h2 := hexVal_hexDigitChar' (n / 256 % 16) (Nat.mod_lt _ (by decide))
  have h3 := hexVal_hexDigitChar' (n / 16 % 16) (Nat.mod_lt _ (by decide))
  have h4 := hexVal_hexDigitChar' (n % 16) (Nat.mod_lt _ (by decide))
  have e : ((n / 4096 % 16 * 16 + n / 256 % 16) * 16 + n / 16 % 16) * 16 + n % 16 = n := by omega
  simp only [u4, List.cons_append, List.nil_append, psu, h1, h2, h3, h4]
  simp
  rw [e]

theorem parse_escChar (c : Char) (r : Str) (acc : List Nat) :
    psu .norm (escChar c ++ r) acc = psu .norm r ((unitsOf c).reverse ++ acc) := by
  have hr := char_range c
  unfold escChar
  split
  · rename_i h; subst h; simp [psu, unitsOf]
  split
  · rename_i h; subst h; simp [psu, unitsOf]
  split
  · rename_i h; subst h; simp [psu, unitsOf]
  split
  · rename_i h; subst h; simp [psu, unitsOf]
  split
  · rename_i h; subst h; simp [psu, unitsOf]
  split
  · rename_i h; subst h; simp [psu, unitsOf]
  split
  · rename_i h; subst h; simp [psu, unitsOf]
  split
  · rename_i h1 h2 h3 h4 h5 h6 h7 h8
    have hlt : c.toNat < 65536 := by omega
    have hnc : ¬ c.toNat < 32 := by omega
    simp [psu, unitsOf, h1, h2, hlt, hnc]
  split
  · rename_i hlt
    rw [parse_u4 _ hlt]
    simp [unitsOf, hlt]
  · rename_i hge
    have h1 : 55296 + (c.toNat - 65536) / 1024 < 65536 := by omega
    have h2 : 56320 + (c.toNat - 65536) % 1024 < 65536 := by omega
    simp only [List.append_assoc]
    rw [parse_u4 _ h1, parse_u4 _ h2]
    simp [unitsOf, hge]

theorem parse_body (s : Str) (rest : Str) (acc : List Nat) :
    psu .norm (s.flatMap escChar ++ '"' :: rest) acc = some (acc.reverse ++ s.flatMap unitsOf, rest) := by
  induction s generalizing acc with
  | nil => simp [psu]
  | cons c r ih =>
    simp only [List.flatMap_cons, List.append_assoc]
    rw [parse_escChar, ih]
    simp

theorem unitsToChars_units (s : Str) : unitsToChars (s.flatMap unitsOf) = s := by
  induction s with
  | nil => rfl
  | cons c r ih =>
    have hr := char_range c
    simp only [List.flatMap_cons, unitsOf]
    split
    · rename_i hlt
      simp only [List.cons_append, List.nil_append]
      cases hq : r.flatMap unitsOf with
      | nil =>
        rw [hq] at ih
        simp [unitsToChars, Char.ofNat_toNat, ← ih]
      | cons lo t =>
        rw [hq] at ih
        have : ¬ (55296 ≤ c.toNat ∧ c.toNat < 56320 ∧ 56320 ≤ lo ∧ lo < 57344) := by omega
        simp only [unitsToChars, this, ↓reduceIte, Char.ofNat_toNat, ih]
    · rename_i hge
      simp only [List.cons_append, List.nil_append]
      have hc : 55296 ≤ 55296 + (c.toNat - 65536) / 1024 ∧ 55296 + (c.toNat - 65536) / 1024 < 56320 ∧
          56320 ≤ 56320 + (c.toNat - 65536) % 1024 ∧ 56320 + (c.toNat - 65536) % 1024 < 57344 := by omega
      have he : 65536 + (55296 + (c.toNat - 65536) / 1024 - 55296) * 1024 + (56320 + (c.toNat - 65536) % 1024 - 56320)
          = c.toNat := by omega
      simp only [unitsToChars, hc, and_self, ↓reduceIte, he, Char.ofNat_toNat, ih]

/-- a printed string literal (after its opening quote) parses back -/
theorem parseStrLit_dump (s rest : Str) :
    parseStrLit (s.flatMap escChar ++ '"' :: rest) = some (s, rest) := by
  simp [parseStrLit, parseStrUnits, parse_body, unitsToChars_units]

/-! ### numbers -/

/-- what may follow a number: nothing, or a character that cannot continue it -/
def NumEnd : Str → Prop
  | [] => True
  | c :: _ => c.isDigit = false ∧ c ≠ '.' ∧ c ≠ 'e' ∧ c ≠ 'E'

theorem takeDigits_append (d rest : Str) (hd : ∀ c ∈ d, c.isDigit = true) (hr : NumEnd rest) :
    takeDigits (d ++ rest) = (d, rest) := by
  induction d with
  | nil =>
    cases rest with
    | nil => rfl
    | cons c r => simp [takeDigits, hr.1]
  | cons c r ih =>
    have hc := hd c (by simp)
    simp only [List.cons_append, takeDigits, hc, ↓reduceIte, ih (fun x hx => hd x (List.mem_cons_of_mem _ hx))]

theorem digitsAux_head (base : Nat) (hb : 2 ≤ base) :
    ∀ fuel n acc, n ≤ fuel → n ≠ 0 → ∃ d ds, digitsAux base fuel n acc = d :: ds ∧ d ≠ 0 := by
  intro fuel
  induction fuel with
  | zero => intro n acc h hn; omega
  | succ f ih =>
    intro n acc h hn
    simp only [digitsAux, hn, ↓reduceIte]
    by_cases hq : n / base = 0
    · have hlt : n < base := by
        rcases Nat.div_eq_zero_iff.mp hq with h0 | h0
        · omega
        · exact h0
      rw [hq]
      refine ⟨n % base, acc, ?_, ?_⟩
      · cases f <;> simp [digitsAux]
      · rw [Nat.mod_eq_of_lt hlt]; exact hn
    · have hlt : n / base < n := Nat.div_lt_self (by omega) (by omega)
      exact ih (n / base) ((n % base) :: acc) (by omega) hq

/-- no leading zero: a decimal of more than one digit does not start with '0' -/
theorem natToDec_head (n : Nat) : (natToDec n).length > 1 → (natToDec n).head? ≠ some '0' := by
  intro hlen
  obtain ⟨s, hs, hcase⟩ := toBaseN_ok decAlphabet 10 n (by decide) (by decide)
  have hs' : natToDec n = s := by rw [(natToDec_spec n).1] at hs; exact (Except.ok.inj hs)
  rw [hs'] at hlen ⊢
  rcases hcase with ⟨_, rfl⟩ | ⟨hn, hl⟩
  · simp at hlen
  · obtain ⟨d, ds, hd, hd0⟩ := digitsAux_head 10 (by decide) n n [] (Nat.le_refl _) hn
    have hlt : ∀ x ∈ digits 10 n, x < 10 := by
      intro x hx
      exact digitsAux_lt 10 (by decide) n n [] (by simp) x hx
    simp only [digits] at hl hlt
    rw [hd] at hl hlt
    have hdlt : d < 10 := hlt d (by simp)
    simp only [lookupAll] at hl
    split at hl
    · rename_i c r hc _
      cases hl
      simp only [List.head?_cons, ne_eq, Option.some.injEq]
      have : ∀ k, k < 10 → k ≠ 0 → decAlphabet[k]? ≠ some '0' := by decide
      intro e
      exact this d hdlt hd0 (by rw [hc, e])
    · cases hl

theorem parseFrac_end (rest : Str) (h : NumEnd rest) : parseFrac rest = ([], rest) := by
  cases rest with
  | nil => rfl
  | cons c r =>
    have : c ≠ '.' := h.2.1
    unfold parseFrac
    split
    · rename_i heq; simp at heq; exact absurd heq.1 this
    · rfl

theorem parseExp_end (rest : Str) (h : NumEnd rest) : parseExp rest = ([], rest) := by
  cases rest with
  | nil => rfl
  | cons c r =>
    have h1 : c ≠ 'e' := h.2.2.1
    have h2 : c ≠ 'E' := h.2.2.2
    simp [parseExp, h1, h2]

theorem parseNumBody_nat (neg : Bool) (n : Nat) (rest : Str) (h : NumEnd rest) :
    parseNumBody neg (natToDec n ++ rest) = some (.int (if neg then -(n : Int) else n), rest) := by
  have htd := takeDigits_append (natToDec n) rest (natToDec_isDigit n) h
  have hne : (natToDec n).isEmpty = false := by
    cases hq : natToDec n with
    | nil => exact absurd hq (natToDec_ne_nil n)
    | cons a b => rfl
  have hlead : ¬ ((natToDec n).length > 1 ∧ (natToDec n).head? = some '0') := fun hh => natToDec_head n hh.1 hh.2
  simp only [parseNumBody, htd, hne, Bool.false_eq_true, ↓reduceIte, hlead, parseFrac_end rest h,
    parseExp_end rest h, List.isEmpty_nil, and_self, (natToDec_spec n).2]

theorem natToDec_head_ne_minus (n : Nat) (rest : Str) : ∀ r, natToDec n ++ rest ≠ '-' :: r := by
  intro r e
  cases hq : natToDec n with
  | nil => exact absurd hq (natToDec_ne_nil n)
  | cons a b =>
    rw [hq] at e
    simp only [List.cons_append, List.cons.injEq] at e
    have := natToDec_isDigit n a (by rw [hq]; simp)
    rw [e.1] at this
    revert this; decide

theorem parseNumber_int (i : Int) (rest : Str) (h : NumEnd rest) :
    parseNumber (intToDec i ++ rest) = some (.int i, rest) := by
  cases i with
  | ofNat n =>
    simp only [intToDec]
    unfold parseNumber
    split
    · rename_i r heq; exact absurd heq (natToDec_head_ne_minus n rest r)
    · simpa using parseNumBody_nat false n rest h
  | negSucc n =>
    simp only [intToDec, List.cons_append, parseNumber]
    rw [parseNumBody_nat true (n + 1) rest h]
    simp only [↓reduceIte]
    congr 2

/-! ### values -/

mutual
  /-- no floats; dictionary keys strictly increasing (each key greater than ALL earlier ones) -/
  def canonB : JVal → Bool
    | .float _ => false
    | .arr l => canonL l
    | .obj kvs => canonM [] kvs
    | _ => true
  def canonL : List JVal → Bool
    | [] => true
    | v :: r => canonB v && canonL r
  def canonM : List Str → List (Str × JVal) → Bool
    | _, [] => true
    | prevs, (k, v) :: r => prevs.all (fun p => strLt p k) && canonB v && canonM (prevs ++ [k]) r
end

mutual
  def sz : JVal → Nat
    | .arr l => 1 + szL l
    | .obj kvs => 1 + szM kvs
    | _ => 1
  def szL : List JVal → Nat
    | [] => 0
    | v :: r => 1 + sz v + szL r
  def szM : List (Str × JVal) → Nat
    | [] => 0
    | (_, v) :: r => 1 + sz v + szM r
end

theorem skipWs_good (c : Char) (r : Str) (h : isWs c = false) : skipWs (c :: r) = c :: r := by
  simp [skipWs, h]

theorem skipWs_space (s : Str) : skipWs (' ' :: s) = skipWs s := by
  simp [skipWs, isWs]

theorem stripPrefix_append (p rest : Str) : stripPrefix p (p ++ rest) = some rest := by
  have : p.isPrefixOf (p ++ rest) = true := by
    simp only [List.isPrefixOf_iff_prefix]; exact List.prefix_append p rest
  simp [stripPrefix, this]

/-- the first character of a printed value is not blank and is neither ']' nor '}' -/
def GoodHead (s : Str) : Prop := ∃ c r, s = c :: r ∧ isWs c = false ∧ c ≠ ']' ∧ c ≠ '}'

theorem natToDec_goodHead (n : Nat) : ∃ c r, natToDec n = c :: r ∧ c.isDigit = true := by
  cases hq : natToDec n with
  | nil => exact absurd hq (natToDec_ne_nil n)
  | cons a b => exact ⟨a, b, rfl, natToDec_isDigit n a (by rw [hq]; simp)⟩

theorem digit_good (c : Char) (h : c.isDigit = true) :
    isWs c = false ∧ c ≠ ']' ∧ c ≠ '}' ∧ c ≠ '"' ∧ c ≠ '[' ∧ c ≠ '{' ∧ c ≠ 'n' ∧ c ≠ 't' ∧ c ≠ 'f' ∧ c ≠ '-' := by
  refine ⟨?_, ?_, ?_, ?_, ?_, ?_, ?_, ?_, ?_, ?_⟩
  · simp only [isWs, Bool.or_eq_false_iff, decide_eq_false_iff_not]
    refine ⟨⟨⟨?_, ?_⟩, ?_⟩, ?_⟩ <;> (intro e; subst e; revert h; decide)
  all_goals (intro e; subst e; revert h; decide)

theorem intToDec_head (i : Int) :
    ∃ c r, intToDec i = c :: r ∧ isWs c = false ∧ c ≠ ']' ∧ c ≠ '}' ∧ c ≠ '"' ∧ c ≠ '[' ∧ c ≠ '{' ∧
      c ≠ 'n' ∧ c ≠ 't' ∧ c ≠ 'f' := by
  cases i with
  | ofNat n =>
    obtain ⟨c, r, e, hd⟩ := natToDec_goodHead n
    obtain ⟨h1, h2, h3, h4, h5, h6, h7, h8, h9, _⟩ := digit_good c hd
    exact ⟨c, r, by simp [intToDec, e], h1, h2, h3, h4, h5, h6, h7, h8, h9⟩
  | negSucc n =>
    exact ⟨'-', natToDec (n + 1), rfl, by decide, by decide, by decide, by decide, by decide, by decide,
      by decide, by decide, by decide⟩

theorem dumpVal_goodHead (v : JVal) (hc : canonB v = true) : GoodHead (dumpVal v) := by
  cases v with
  | null => exact ⟨'n', "ull".toList, by simp [dumpVal], by decide, by decide, by decide⟩
  | bool b => cases b
              · exact ⟨'f', "alse".toList, by simp [dumpVal], by decide, by decide, by decide⟩
              · exact ⟨'t', "rue".toList, by simp [dumpVal], by decide, by decide, by decide⟩
  | int i =>
    obtain ⟨c, r, e, h1, h2, h3, _⟩ := intToDec_head i
    exact ⟨c, r, by simp [dumpVal, e], h1, h2, h3⟩
  | float r => simp [canonB] at hc
  | str s => exact ⟨'"', s.flatMap escChar ++ ['"'], rfl, by decide, by decide, by decide⟩
  | arr l => exact ⟨'[', dumpElems l ++ [']'], rfl, by decide, by decide, by decide⟩
  | obj kvs => exact ⟨'{', dumpMembers kvs ++ ['}'], rfl, by decide, by decide, by decide⟩

theorem skipWs_goodHead (s x : Str) (h : GoodHead s) : skipWs (s ++ x) = s ++ x := by
  obtain ⟨c, r, rfl, hw, _⟩ := h
  simp [skipWs, hw]

theorem strLt_irrefl (a : Str) : strLt a a = false := by
  induction a with
  | nil => rfl
  | cons c r ih => simp [strLt, ih]

theorem strLt_asymm (a b : Str) (h : strLt a b = true) : strLt b a = false := by
  induction a generalizing b with
  | nil => cases b <;> simp [strLt] at h ⊢
  | cons x xs ih =>
    cases b with
    | nil => simp [strLt] at h
    | cons y ys =>
      simp only [strLt] at h ⊢
      by_cases h1 : x.toNat < y.toNat
      · have : ¬ y.toNat < x.toNat := by omega
        have h2 : y.toNat > x.toNat := h1
        simp [this, h2]
      · by_cases h2 : x.toNat > y.toNat
        · simp [h1, h2] at h
        · simp only [h1, h2, ↓reduceIte] at h
          have h3 : ¬ y.toNat < x.toNat := by omega
          have h4 : ¬ y.toNat > x.toNat := by omega
          simp only [h3, h4, ↓reduceIte]
          exact ih ys h

theorem insertKV_append (k : Str) (v : JVal) (acc : List (Str × JVal))
    (h : ∀ p ∈ acc, strLt p.1 k = true) : insertKV k v acc = acc ++ [(k, v)] := by
  induction acc with
  | nil => rfl
  | cons p r ih =>
    obtain ⟨k', v'⟩ := p
    have hlt : strLt k' k = true := h (k', v') (by simp)
    have hne : k ≠ k' := by
      intro e; subst e; rw [strLt_irrefl] at hlt; cases hlt
    have hnl : strLt k k' = false := strLt_asymm k' k hlt
    simp only [insertKV, hne, ↓reduceIte, hnl, Bool.false_eq_true, List.cons_append]
    rw [ih (fun q hq => h q (List.mem_cons_of_mem _ hq))]

theorem dumpStr_eq (k : Str) (x : Str) : dumpStr k ++ x = '"' :: (k.flatMap escChar ++ '"' :: x) := by
  simp [dumpStr]

theorem numEnd_sep (c : Char) (r : Str) (h : c = ',' ∨ c = ']' ∨ c = '}') : NumEnd (c :: r) := by
  rcases h with rfl | rfl | rfl <;> exact ⟨by decide, by decide, by decide, by decide⟩

mutual
  theorem parseVal_dump (v : JVal) (hc : canonB v = true) :
      ∀ fuel rest, sz v ≤ fuel → NumEnd rest → parseVal fuel (dumpVal v ++ rest) = some (v, rest) := by
    intro fuel rest hf hr
    cases fuel with
    | zero => cases v <;> simp [sz] at hf
    | succ f =>
      cases v with
      | null =>
        show parseVal (f + 1) ('n' :: ("ull".toList ++ rest)) = _
        simp only [parseVal, show ¬ ('n' = '"') by decide, show ¬ ('n' = '[') by decide,
          show ¬ ('n' = '{') by decide, ↓reduceIte]
        show (stripPrefix "null".toList ("null".toList ++ rest)).map _ = _
        rw [stripPrefix_append]; rfl
      | bool b =>
        cases b
        · show parseVal (f + 1) ('f' :: ("alse".toList ++ rest)) = _
          simp only [parseVal, show ¬ ('f' = '"') by decide, show ¬ ('f' = '[') by decide,
            show ¬ ('f' = '{') by decide, show ¬ ('f' = 'n') by decide, show ¬ ('f' = 't') by decide, ↓reduceIte]
          show (stripPrefix "false".toList ("false".toList ++ rest)).map _ = _
          rw [stripPrefix_append]; rfl
        · show parseVal (f + 1) ('t' :: ("rue".toList ++ rest)) = _
          simp only [parseVal, show ¬ ('t' = '"') by decide, show ¬ ('t' = '[') by decide,
            show ¬ ('t' = '{') by decide, show ¬ ('t' = 'n') by decide, ↓reduceIte]
          show (stripPrefix "true".toList ("true".toList ++ rest)).map _ = _
          rw [stripPrefix_append]; rfl
      | int i =>
        obtain ⟨c, r, e, _, _, _, h4, h5, h6, h7, h8, h9⟩ := intToDec_head i
        have hnum := parseNumber_int i rest hr
        simp only [dumpVal]
        rw [e] at hnum ⊢
        simp only [List.cons_append, parseVal, h4, h5, h6, h7, h8, h9, ↓reduceIte]
        exact hnum
      | float r => simp [canonB] at hc
      | str s =>
        simp only [dumpVal, dumpStr_eq, parseVal, ↓reduceIte, parseStrLit_dump]
      | arr l =>
        cases l with
        | nil => simp [dumpVal, dumpElems, parseVal, skipWs, isWs]
        | cons x xs =>
          simp only [canonB] at hc
          have hx : canonB x = true := by simp only [canonL, Bool.and_eq_true] at hc; exact hc.1
          have hgh : GoodHead (dumpElems (x :: xs)) := by
            obtain ⟨c, r, e, h1, h2, h3⟩ := dumpVal_goodHead x hx
            cases xs with
            | nil => exact ⟨c, r, by simp [dumpElems, e], h1, h2, h3⟩
            | cons y ys => exact ⟨c, r ++ ',' :: ' ' :: dumpElems (y :: ys), by simp [dumpElems, e], h1, h2, h3⟩
          have hpe := parseElems_dump (x :: xs) (by simp) hc f rest (by simp only [sz] at hf; omega)
          obtain ⟨c, r, e, h1, h2, _⟩ := hgh
          simp only [dumpVal, List.cons_append, List.append_assoc, parseVal,
            show ¬ ('[' = '"') by decide, ↓reduceIte]
          rw [e] at hpe ⊢
          simp only [List.cons_append, List.nil_append, skipWs_good c _ h1, h2, ↓reduceIte]
          simp only [List.cons_append] at hpe
          rw [hpe]
      | obj kvs =>
        cases kvs with
        | nil => simp [dumpVal, dumpMembers, parseVal, skipWs, isWs]
        | cons p ps =>
          simp only [canonB] at hc
          have hpm := parseMembers_dump (p :: ps) (by simp) [] [] hc rfl f rest (by simp only [sz] at hf; omega)
          obtain ⟨k, v⟩ := p
          have hhead : ∃ r, dumpMembers ((k, v) :: ps) = '"' :: r := by
            cases ps with
            | nil => exact ⟨k.flatMap escChar ++ '"' :: (':' :: ' ' :: dumpVal v), by simp [dumpMembers, dumpStr_eq]⟩
            | cons q qs =>
              obtain ⟨k2, v2⟩ := q
              exact ⟨k.flatMap escChar ++ '"' :: (':' :: ' ' :: (dumpVal v ++ ',' :: ' ' :: dumpMembers ((k2, v2) :: qs))),
                by simp [dumpMembers, dumpStr_eq]⟩
          obtain ⟨r, e⟩ := hhead
          simp only [dumpVal, List.cons_append, List.append_assoc, parseVal,
            show ¬ ('{' = '"') by decide, show ¬ ('{' = '[') by decide, ↓reduceIte]
          rw [e] at hpm ⊢
          simp only [List.cons_append, List.nil_append, skipWs_good '"' _ (by decide), show ¬ ('"' = '}') by decide,
            ↓reduceIte]
          simp only [List.cons_append, List.nil_append] at hpm
          rw [hpm]

  theorem parseElems_dump (l : List JVal) (hne : l ≠ []) (hc : canonL l = true) :
      ∀ fuel rest, szL l ≤ fuel → parseElems fuel (dumpElems l ++ ']' :: rest) = some (l, rest) := by
    intro fuel rest hf
    cases l with
    | nil => exact absurd rfl hne
    | cons v r =>
      simp only [canonL, Bool.and_eq_true] at hc
      cases fuel with
      | zero => simp [szL] at hf
      | succ f =>
        cases r with
        | nil =>
          have hv := parseVal_dump v hc.1 f (']' :: rest) (by simp only [szL] at hf; omega)
            (numEnd_sep _ _ (Or.inr (Or.inl rfl)))
          simp only [dumpElems, parseElems, hv, skipWs_good ']' rest (by decide), show ¬ (']' = ',') by decide,
            ↓reduceIte]
        | cons w ws =>
          have hv := parseVal_dump v hc.1 f (',' :: ' ' :: (dumpElems (w :: ws) ++ ']' :: rest))
            (by simp only [szL] at hf; omega) (numEnd_sep _ _ (Or.inl rfl))
          have hrest := parseElems_dump (w :: ws) (by simp) hc.2 f rest (by simp only [szL] at hf ⊢; omega)
          have hw : canonB w = true := by
            have := hc.2; simp only [canonL, Bool.and_eq_true] at this; exact this.1
          have hgh : GoodHead (dumpElems (w :: ws)) := by
            obtain ⟨c, r, e, h1, h2, h3⟩ := dumpVal_goodHead w hw
            cases ws with
            | nil => exact ⟨c, r, by simp [dumpElems, e], h1, h2, h3⟩
            | cons y ys => exact ⟨c, r ++ ',' :: ' ' :: dumpElems (y :: ys), by simp [dumpElems, e], h1, h2, h3⟩
          simp only [dumpElems, List.append_assoc, List.cons_append, parseElems, hv,
            skipWs_good ',' _ (by decide), ↓reduceIte, skipWs_space, skipWs_goodHead _ _ hgh, hrest]

  theorem parseMembers_dump (kvs : List (Str × JVal)) (hne : kvs ≠ []) (prevs : List Str)
      (acc : List (Str × JVal)) (hc : canonM prevs kvs = true) (hacc : acc.map (·.1) = prevs) :
      ∀ fuel rest, szM kvs ≤ fuel →
        parseMembers fuel (dumpMembers kvs ++ '}' :: rest) acc = some (acc ++ kvs, rest) := by
    intro fuel rest hf
    cases kvs with
    | nil => exact absurd rfl hne
    | cons p r =>
      obtain ⟨k, v⟩ := p
      simp only [canonM, Bool.and_eq_true] at hc
      obtain ⟨⟨hprev, hv⟩, hrest⟩ := hc
      have hins : insertKV k v acc = acc ++ [(k, v)] := by
        apply insertKV_append
        intro q hq
        have : q.1 ∈ prevs := by rw [← hacc]; exact List.mem_map_of_mem hq
        exact List.all_eq_true.mp hprev q.1 this
      have hgv := dumpVal_goodHead v hv
      cases fuel with
      | zero => simp [szM] at hf
      | succ f =>
        cases r with
        | nil =>
          have hpv := parseVal_dump v hv f ('}' :: rest) (by simp only [szM] at hf; omega)
            (numEnd_sep _ _ (Or.inr (Or.inr rfl)))
          simp only [dumpMembers, List.append_assoc, dumpStr_eq, List.cons_append, parseMembers, ↓reduceIte,
            parseStrLit_dump, skipWs_good ':' _ (by decide), skipWs_space, skipWs_goodHead _ _ hgv, hpv,
            skipWs_good '}' rest (by decide), show ¬ ('}' = ',') by decide, hins]
        | cons q qs =>
          obtain ⟨k2, v2⟩ := q
          have hpv := parseVal_dump v hv f (',' :: ' ' :: (dumpMembers ((k2, v2) :: qs) ++ '}' :: rest))
            (by simp only [szM] at hf; omega) (numEnd_sep _ _ (Or.inl rfl))
          have hnext := parseMembers_dump ((k2, v2) :: qs) (by simp) (prevs ++ [k]) (acc ++ [(k, v)]) hrest
            (by simp [hacc]) f rest (by simp only [szM] at hf ⊢; omega)
          have hhead : ∃ r, dumpMembers ((k2, v2) :: qs) = '"' :: r := by
            cases qs with
            | nil => exact ⟨k2.flatMap escChar ++ '"' :: (':' :: ' ' :: dumpVal v2), by simp [dumpMembers, dumpStr_eq]⟩
            | cons q' qs' =>
              obtain ⟨k3, v3⟩ := q'
              exact ⟨k2.flatMap escChar ++ '"' :: (':' :: ' ' :: (dumpVal v2 ++ ',' :: ' ' :: dumpMembers ((k3, v3) :: qs'))),
                by simp [dumpMembers, dumpStr_eq]⟩
          obtain ⟨r', e'⟩ := hhead
          have hsk : skipWs (dumpMembers ((k2, v2) :: qs) ++ '}' :: rest) = dumpMembers ((k2, v2) :: qs) ++ '}' :: rest := by
            rw [e']; exact skipWs_good '"' _ (by decide)
          simp only [dumpMembers, List.append_assoc, dumpStr_eq, List.cons_append, parseMembers, ↓reduceIte,
            parseStrLit_dump, skipWs_good ':' _ (by decide), skipWs_space, skipWs_goodHead _ _ hgv, hpv,
            skipWs_good ',' _ (by decide), hins]
          simp only [List.append_assoc, List.cons_append] at hsk hnext
          rw [hsk, hnext]
          simp
end

/-! ### fuel, canonical form, the theorem -/

theorem intToDec_length (i : Int) : 1 ≤ (intToDec i).length := by
  cases hq : intToDec i with
  | nil => exact absurd hq (intToDec_ne_nil i)
  | cons a b => simp

mutual
  theorem sz_le_len (v : JVal) (hc : canonB v = true) : sz v ≤ (dumpVal v).length := by
    cases v with
    | null => decide
    | bool b => cases b <;> decide
    | int i => simpa [sz, dumpVal] using intToDec_length i
    | float r => simp [canonB] at hc
    | str s => simp [sz, dumpVal, dumpStr]
    | arr l =>
      simp only [canonB] at hc
      have := szL_le_len l hc
      simp only [sz, dumpVal, List.length_cons, List.length_append, List.length_nil]
      omega
    | obj kvs =>
      simp only [canonB] at hc
      have := szM_le_len kvs [] hc
      simp only [sz, dumpVal, List.length_cons, List.length_append, List.length_nil]
      omega
  theorem szL_le_len (l : List JVal) (hc : canonL l = true) : szL l ≤ (dumpElems l).length + 1 := by
    cases l with
    | nil => simp [szL]
    | cons v r =>
      simp only [canonL, Bool.and_eq_true] at hc
      have hv := sz_le_len v hc.1
      cases r with
      | nil => simp only [szL, dumpElems]; omega
      | cons w ws =>
        have hr := szL_le_len (w :: ws) hc.2
        simp only [szL, dumpElems, List.length_append, List.length_cons] at hr ⊢
        omega
  theorem szM_le_len (kvs : List (Str × JVal)) (prevs : List Str) (hc : canonM prevs kvs = true) :
      szM kvs ≤ (dumpMembers kvs).length + 1 := by
    cases kvs with
    | nil => simp [szM]
    | cons p r =>
      obtain ⟨k, v⟩ := p
      simp only [canonM, Bool.and_eq_true] at hc
      have hv := sz_le_len v hc.1.2
      cases r with
      | nil => simp only [szM, dumpMembers, List.length_append, List.length_cons]; omega
      | cons q qs =>
        obtain ⟨k2, v2⟩ := q
        have hr := szM_le_len ((k2, v2) :: qs) _ hc.2
        simp only [szM, dumpMembers, List.length_append, List.length_cons] at hr ⊢
        omega
end

theorem insertKV_head (k : Str) (v : JVal) (k' : Str) (v' : JVal) (r : List (Str × JVal))
    (h : strLt k k' = true) : insertKV k v ((k', v') :: r) = (k, v) :: (k', v') :: r := by
  have hne : k ≠ k' := by intro e; subst e; rw [strLt_irrefl] at h; cases h
  simp [insertKV, hne, h]

theorem canonM_next (prevs : List Str) (k k' : Str) (v v' : JVal) (r : List (Str × JVal))
    (hc : canonM prevs ((k, v) :: (k', v') :: r) = true) : strLt k k' = true := by
  simp only [canonM, Bool.and_eq_true, List.all_append, List.all_cons, List.all_nil, Bool.and_true] at hc
  exact hc.2.1.1.2

mutual
  theorem canon_id (v : JVal) (hc : canonB v = true) : canon v = v := by
    cases v with
    | arr l => simp only [canonB] at hc; simp only [canon, canonList_id l hc]
    | obj kvs => simp only [canonB] at hc; simp only [canon, canonKVs_id kvs [] hc]
    | null => rfl
    | bool b => rfl
    | int i => rfl
    | float r => rfl
    | str s => rfl
  theorem canonList_id (l : List JVal) (hc : canonL l = true) : canonList l = l := by
    cases l with
    | nil => rfl
    | cons v r =>
      simp only [canonL, Bool.and_eq_true] at hc
      simp only [canonList, canon_id v hc.1, canonList_id r hc.2]
  theorem canonKVs_id (kvs : List (Str × JVal)) (prevs : List Str) (hc : canonM prevs kvs = true) :
      canonKVs kvs = kvs := by
    cases kvs with
    | nil => rfl
    | cons p r =>
      obtain ⟨k, v⟩ := p
      have hc' := hc
      simp only [canonM, Bool.and_eq_true] at hc
      simp only [canonKVs, canon_id v hc.1.2, canonKVs_id r _ hc.2]
      cases r with
      | nil => rfl
      | cons q qs =>
        obtain ⟨k', v'⟩ := q
        exact insertKV_head k v k' v' qs (canonM_next prevs k k' v v' qs hc')
end

/-- a printed canonical value parses back -/
theorem dumpVal_roundtrip (v : JVal) (hc : canonB v = true) : jsonLoads (dumpVal v) = some v := by
  have hgh := dumpVal_goodHead v hc
  have hsk : skipWs (dumpVal v) = dumpVal v := by simpa using skipWs_goodHead (dumpVal v) [] hgh
  have hp := parseVal_dump v hc ((dumpVal v).length + 1) [] (by have := sz_le_len v hc; omega) trivial
  simp only [List.append_nil] at hp
  simp [jsonLoads, hsk, hp, skipWs]

/-- **JSON round trip** of the model printer/parser: `loads(dumps(v, sort_keys=True)) = v` for every
    value without floats whose dictionaries have strictly increasing keys, at every depth. -/
theorem json_roundtrip (v : JVal) (hc : canonB v = true) : jsonLoads (jsonDumps v) = some v := by
  rw [jsonDumps, canon_id v hc]
  exact dumpVal_roundtrip v hc

end TmVerif.Codec
