/-
  String primitives used by the codec models (C15), over `List Char`.
  Each function mirrors one Python `str` method for a ONE-character separator.
  Core Lean only (no Mathlib); structural recursion only.
-/
namespace TmVerif.Codec

abbrev Str := List Char

instance {ε α} [DecidableEq ε] [DecidableEq α] : DecidableEq (Except ε α)
  | .ok a, .ok b => if h : a = b then isTrue (by rw [h]) else isFalse (fun e => h (by cases e; rfl))
  | .error a, .error b => if h : a = b then isTrue (by rw [h]) else isFalse (fun e => h (by cases e; rfl))
  | .ok _, .error _ => isFalse (fun e => by cases e)
  | .error _, .ok _ => isFalse (fun e => by cases e)

/-- Python `sep.join(parts)`. -/
def join (sep : Char) : List Str → Str
  | [] => []
  | [p] => p
  | p :: q :: r => p ++ sep :: join sep (q :: r)

/-- Python `s.split(sep)`: never the empty list. -/
def splitOn (sep : Char) : Str → List Str
  | [] => [[]]
  | c :: cs =>
    if c = sep then [] :: splitOn sep cs
    else match splitOn sep cs with
      | [] => [[c]]
      | p :: ps => (c :: p) :: ps

/-- Python `s.split(sep, 1)`: `(s, none)` when `sep` does not occur, else the text before and
    after the FIRST occurrence. -/
def split1 (sep : Char) : Str → Str × Option Str
  | [] => ([], none)
  | c :: cs =>
    if c = sep then ([], some cs)
    else match split1 sep cs with
      | (h, t) => (c :: h, t)

/-- Python `s.rsplit(sep, 1)`: `(s, none)` when `sep` does not occur, else the text before and
    after the LAST occurrence. -/
def rsplit1 (sep : Char) : Str → Str × Option Str
  | [] => ([], none)
  | c :: cs =>
    match rsplit1 sep cs with
    | (h, some t) => (c :: h, some t)
    | (h, none) => if c = sep then ([], some h) else (c :: h, none)

/-- Python `s.replace(a, b)` for single characters. -/
def replaceChar (a b : Char) (s : Str) : Str := s.map (fun c => if c = a then b else c)

/-- Python `'{:>0Ns}'.format(s)` / `s.rjust(n, fill)`. -/
def rjust (n : Nat) (fill : Char) (s : Str) : Str := List.replicate (n - s.length) fill ++ s

/-! ### lemmas -/

theorem splitOn_ne_nil (sep : Char) (s : Str) : splitOn sep s ≠ [] := by
  induction s with
  | nil => simp [splitOn]
  | cons c cs ih =>
    simp only [splitOn]
    split
    · simp
    · split <;> simp

theorem splitOn_nosep (sep : Char) (s : Str) (h : sep ∉ s) : splitOn sep s = [s] := by
  induction s with
  | nil => rfl
  | cons c cs ih =>
    have hc : c ≠ sep := fun e => h (by simp [e])
    have hcs : sep ∉ cs := fun e => h (by simp [e])
    simp only [splitOn, hc, ↓reduceIte, ih hcs]

theorem splitOn_append (sep : Char) (p rest : Str) (h : sep ∉ p) :
    splitOn sep (p ++ sep :: rest) = p :: splitOn sep rest := by
  induction p with
  | nil => simp [splitOn]
  | cons c cs ih =>
    have hc : c ≠ sep := fun e => h (by simp [e])
    have hcs : sep ∉ cs := fun e => h (by simp [e])
    simp only [List.cons_append, splitOn, hc, ↓reduceIte, ih hcs]

/-- `split` undoes `join` when no part contains the separator. -/
theorem splitOn_join (sep : Char) (parts : List Str) (hne : parts ≠ [])
    (h : ∀ p ∈ parts, sep ∉ p) : splitOn sep (join sep parts) = parts := by
  induction parts with
  | nil => exact absurd rfl hne
  | cons p ps ih =>
    cases ps with
    | nil => simpa [join] using splitOn_nosep sep p (h p (by simp))
    | cons q r =>
      simp only [join]
      rw [splitOn_append sep p _ (h p (by simp))]
      rw [ih (by simp) (fun x hx => h x (List.mem_cons_of_mem _ hx))]

/-- `join` undoes `split` (for every string): the parse is unambiguous. -/
theorem join_splitOn (sep : Char) (s : Str) : join sep (splitOn sep s) = s := by
  induction s with
  | nil => rfl
  | cons c cs ih =>
    simp only [splitOn]
    split
    · rename_i h
      have hne := splitOn_ne_nil sep cs
      generalize splitOn sep cs = l at ih hne
      cases l with
      | nil => exact absurd rfl hne
      | cons a b => simp [join, ih, h]
    · have hne := splitOn_ne_nil sep cs
      generalize splitOn sep cs = l at ih hne
      cases l with
      | nil => exact absurd rfl hne
      | cons a b =>
        cases b with
        | nil => simpa [join] using ih
        | cons b1 b2 =>
          simp only [join] at ih ⊢
          simp [← ih]

theorem splitOn_parts_nosep (sep : Char) (s : Str) : ∀ p ∈ splitOn sep s, sep ∉ p := by
  induction s with
  | nil => simp [splitOn]
  | cons c cs ih =>
    simp only [splitOn]
    split
    · intro p hp
      rcases List.mem_cons.mp hp with rfl | hp
      · simp
      · exact ih p hp
    · rename_i hc
      have hne := splitOn_ne_nil sep cs
      generalize splitOn sep cs = l at ih hne
      cases l with
      | nil => exact absurd rfl hne
      | cons a b =>
        intro p hp
        rcases List.mem_cons.mp hp with rfl | hp
        · intro hm
          rcases List.mem_cons.mp hm with e | hm
          · exact hc e.symm
          · exact ih a (by simp) hm
        · exact ih p (List.mem_cons_of_mem _ hp)

theorem split1_nosep (sep : Char) (s : Str) (h : sep ∉ s) : split1 sep s = (s, none) := by
  induction s with
  | nil => rfl
  | cons c cs ih =>
    have hc : c ≠ sep := fun e => h (by simp [e])
    have hcs : sep ∉ cs := fun e => h (by simp [e])
    simp only [split1, hc, ↓reduceIte, ih hcs]

theorem split1_append (sep : Char) (p rest : Str) (h : sep ∉ p) :
    split1 sep (p ++ sep :: rest) = (p, some rest) := by
  induction p with
  | nil => simp [split1]
  | cons c cs ih =>
    have hc : c ≠ sep := fun e => h (by simp [e])
    have hcs : sep ∉ cs := fun e => h (by simp [e])
    simp only [List.cons_append, split1, hc, ↓reduceIte, ih hcs]

theorem rsplit1_nosep (sep : Char) (s : Str) (h : sep ∉ s) : rsplit1 sep s = (s, none) := by
  induction s with
  | nil => rfl
  | cons c cs ih =>
    have hc : c ≠ sep := fun e => h (by simp [e])
    have hcs : sep ∉ cs := fun e => h (by simp [e])
    simp only [rsplit1, ih hcs, hc, ↓reduceIte]

theorem rsplit1_append (sep : Char) (p t : Str) (h : sep ∉ t) :
    rsplit1 sep (p ++ sep :: t) = (p, some t) := by
  induction p with
  | nil => simp [rsplit1, rsplit1_nosep sep t h]
  | cons c cs ih => simp only [List.cons_append, rsplit1, ih]

theorem replaceChar_nomem (a b : Char) (s : Str) (h : a ∉ s) : replaceChar a b s = s := by
  induction s with
  | nil => rfl
  | cons c cs ih =>
    have hc : c ≠ a := fun e => h (by simp [e])
    have hcs : a ∉ cs := fun e => h (by simp [e])
    have := ih hcs
    simp only [replaceChar] at this ⊢
    simp [hc, this]

theorem rjust_length (n : Nat) (fill : Char) (s : Str) (h : s.length ≤ n) :
    (rjust n fill s).length = n := by
  simp only [rjust, List.length_append, List.length_replicate]; omega

theorem rjust_of_length_ge (n : Nat) (fill : Char) (s : Str) (h : n ≤ s.length) :
    rjust n fill s = s := by
  simp [rjust, Nat.sub_eq_zero_of_le h]

theorem not_mem_rjust (n : Nat) (fill c : Char) (s : Str) (hf : c ≠ fill) (hs : c ∉ s) :
    c ∉ rjust n fill s := by
  simp only [rjust, List.mem_append, List.mem_replicate, not_or]
  exact ⟨fun h => hf h.2, hs⟩

/-- `split` distributes over a separator occurrence. -/
theorem splitOn_append_sep (sep : Char) (s t : Str) :
    splitOn sep (s ++ sep :: t) = splitOn sep s ++ splitOn sep t := by
  induction s with
  | nil => simp [splitOn]
  | cons c cs ih =>
    simp only [List.cons_append, splitOn]
    split
    · simp [ih]
    · rw [ih]
      have hne := splitOn_ne_nil sep cs
      generalize splitOn sep cs = l at hne
      cases l with
      | nil => exact absurd rfl hne
      | cons a b => simp

/-- Python `l.pop()` twice: `(rest, second-to-last, last)`; `none` = IndexError. -/
def popLast2 {α} (l : List α) : Option (List α × α × α) :=
  match l.reverse with
  | b :: a :: r => some (r.reverse, a, b)
  | _ => none

theorem popLast2_append {α} (l : List α) (a b : α) : popLast2 (l ++ [a, b]) = some (l, a, b) := by
  simp [popLast2]

theorem not_mem_join (sep x : Char) (hne : x ≠ sep) (parts : List Str) (h : ∀ p ∈ parts, x ∉ p) :
    x ∉ join sep parts := by
  induction parts with
  | nil => simp [join]
  | cons p ps ih =>
    cases ps with
    | nil => simpa [join] using h p (by simp)
    | cons q r =>
      simp only [join, List.mem_append, List.mem_cons, not_or]
      exact ⟨h p (by simp), hne, ih (fun y hy => h y (List.mem_cons_of_mem _ hy))⟩

end TmVerif.Codec
