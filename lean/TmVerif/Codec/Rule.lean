/-
  Firewall rules as rule-file names (`rulefile.py`): `RuleMgr._filenameify` (encoder) and
  `RuleMgr.get_rule` (decoder = three anchored regexes tried in order DNAT, SNAT, PASSTHROUGH).

  The decoder is a hand-written parser mirroring the regexes; the regex sources and the format
  patterns it mirrors are pinned against the extracted strings (`*_pinned` theorems below), so
  any change of a pattern in the source breaks the build of this file.

  Modelling decisions (see also props_registry.d/C15.json):
  * `Option Str` for the optional addresses: `none` is THE OBJECT `firewall.ANY_IP`
    (`_filenameify` tests `rule.src_ip is firewall.ANY_IP`, an identity test); `some s` is any
    other string object with text `s`.
  * ports are `Nat` (the rule constructors apply `int()`; negative ports are not generated).
  * `\w`, `\d` are the ASCII classes (Python's are the Unicode ones; inputs are ASCII).
  * `$` also matches before one trailing '\n' (`withDollar`).
-/
import TmVerif.Gen.ExtCodec
import TmVerif.Codec.Dec

namespace TmVerif.Codec
open TmVerif

/-! ### the rule objects -/

structure NatRule where
  proto : Str
  srcIp : Option Str
  srcPort : Nat
  dstIp : Option Str
  dstPort : Nat
  newIp : Str
  newPort : Nat
  deriving DecidableEq, Repr

inductive Rule
  | dnat (r : NatRule)
  | snat (r : NatRule)
  | passthrough (srcIp dstIp : Str)
  deriving DecidableEq, Repr

def kDnat : Str := "dnat".toList
def kSnat : Str := "snat".toList
def kPass : Str := "passthrough".toList

/-! ### encoder: `_filenameify` -/

/-- `_ANY if ip is firewall.ANY_IP else ip` -/
def showIp : Option Str → Str
  | none => ExtCodec.ruleAny
  | some s => s

/-- `port or _ANY` (0 is falsy) -/
def showPort (p : Nat) : Str := if p = 0 then ExtCodec.ruleAny else natToDec p

/-- `'{chain}:<kind>:{proto}:{src_ip}:{src_port}:{dst_ip}:{dst_port}-{new_ip}:{new_port}'` -/
def encodeNat (kind chain : Str) (r : NatRule) : Str :=
  join ':' [chain, kind, r.proto, showIp r.srcIp, showPort r.srcPort, showIp r.dstIp,
            join '-' [showPort r.dstPort, r.newIp], natToDec r.newPort]

/-- `'{chain}:passthrough:{src_ip}-{dst_ip}'` -/
def encodePass (chain src dst : Str) : Str :=
  join ':' [chain, kPass, join '-' [src, dst]]

def filenameify (chain : Str) : Rule → Str
  | .dnat r => encodeNat kDnat chain r
  | .snat r => encodeNat kSnat chain r
  | .passthrough s d => encodePass chain s d

/-! ### decoder: `get_rule` -/

/-- ASCII `\w` -/
def isWordChar (c : Char) : Bool := c.isAlphanum || c == '_'

/-- `\w{2,32}` -/
def isChain (s : Str) : Bool := decide (2 ≤ s.length) && decide (s.length ≤ 32) && s.all isWordChar

/-- `(?:\d{1,3}\.){3}\d{1,3}` -/
def isQuad (s : Str) : Bool :=
  match splitOn '.' s with
  | [a, b, c, d] => isDigits 1 3 a && isDigits 1 3 b && isDigits 1 3 c && isDigits 1 3 d
  | _ => false

/-- `(?:tcp|udp)` -/
def isProto (s : Str) : Bool := s == "tcp".toList || s == "udp".toList

/-- `(?:(?:\d{1,3}\.){3}\d{1,3}|[*])` -/
def isIpOrAny (s : Str) : Bool := isQuad s || s == ExtCodec.ruleAny

/-- `(?:\d{1,5}|[*])` -/
def isPortOrAny (s : Str) : Bool := isDigits 1 5 s || s == ExtCodec.ruleAny

/-- `data['src_ip'] if data['src_ip'] != _ANY else None`, then the constructor maps `None`
    to the object `ANY_IP`. -/
def ipOf (s : Str) : Option Str := if s = ExtCodec.ruleAny then none else some s

/-- `data['src_port'] if … != _ANY else None` → `ANY_PORT` → `int(...)`. -/
def portOf (s : Str) : Option Nat := if s = ExtCodec.ruleAny then some ExtCodec.fwAnyPort else decToNat s

/-- `_DNAT_FILE_RE` / `_SNAT_FILE_RE` with `$` = end of string. -/
def parseNat (kind : Str) (s : Str) : Option (Str × NatRule) :=
  match splitOn ':' s with
  | [chain, k, proto, sip, sport, dip, dpn, nport] =>
    match splitOn '-' dpn with
    | [dport, nip] =>
      if k = kind ∧ isChain chain ∧ isProto proto ∧ isIpOrAny sip ∧ isPortOrAny sport ∧
          isIpOrAny dip ∧ isPortOrAny dport ∧ isQuad nip ∧ isDigits 1 5 nport then
        match portOf sport, portOf dport, decToNat nport with
        | some sp, some dp, some np => some (chain, ⟨proto, ipOf sip, sp, ipOf dip, dp, nip, np⟩)
        | _, _, _ => none
      else none
    | _ => none
  | _ => none

/-- `_PASSTHROUGH_FILE_RE` with `$` = end of string. -/
def parsePass (s : Str) : Option (Str × Str × Str) :=
  match splitOn ':' s with
  | [chain, k, sd] =>
    match splitOn '-' sd with
    | [src, dst] => if k = kPass ∧ isChain chain ∧ isQuad src ∧ isQuad dst then some (chain, src, dst) else none
    | _ => none
  | _ => none

/-- Python's `$`: end of string, or just before a newline that ends the string. -/
def withDollar {α} (p : Str → Option α) (s : Str) : Option α :=
  match p s with
  | some r => some r
  | none => if s.getLast? = some '\n' then p s.dropLast else none

/-- `RuleMgr.get_rule` -/
def getRule (name : Str) : Option (Str × Rule) :=
  match withDollar (parseNat kDnat) name with
  | some (c, r) => some (c, .dnat r)
  | none =>
    match withDollar (parseNat kSnat) name with
    | some (c, r) => some (c, .snat r)
    | none =>
      match withDollar parsePass name with
      | some (c, s, d) => some (c, .passthrough s d)
      | none => none

/-! ### well-formedness (decidable) -/

def ipOptWF : Option Str → Bool
  | none => true
  | some s => isQuad s

def NatRule.wf (r : NatRule) : Bool :=
  isProto r.proto && ipOptWF r.srcIp && decide (r.srcPort < 100000) && ipOptWF r.dstIp &&
    decide (r.dstPort < 100000) && isQuad r.newIp && decide (r.newPort < 100000)

def Rule.wf : Rule → Bool
  | .dnat r => r.wf
  | .snat r => r.wf
  | .passthrough s d => isQuad s && isQuad d

/-! ### pinned source strings (tie to the extractor) -/

theorem dnatRe_pinned : ExtCodec.dnatRe =
    "^(?P<chain>(?:\\w{2,32})):dnat:(?P<proto>(?:tcp|udp)):(?P<src_ip>(?:(?:\\d{1,3}\\.){3}\\d{1,3}|[*])):(?P<src_port>(?:\\d{1,5}|[*])):(?P<dst_ip>(?:(?:\\d{1,3}\\.){3}\\d{1,3}|[*])):(?P<dst_port>(?:\\d{1,5}|[*]))-(?P<new_ip>(?:\\d{1,3}\\.){3}\\d{1,3}):(?P<new_port>\\d{1,5})$".toList := by
  decide +kernel
theorem snatRe_pinned : ExtCodec.snatRe =
    "^(?P<chain>(?:\\w{2,32})):snat:(?P<proto>(?:tcp|udp)):(?P<src_ip>(?:(?:\\d{1,3}\\.){3}\\d{1,3}|[*])):(?P<src_port>(?:\\d{1,5}|[*])):(?P<dst_ip>(?:(?:\\d{1,3}\\.){3}\\d{1,3}|[*])):(?P<dst_port>(?:\\d{1,5}|[*]))-(?P<new_ip>(?:\\d{1,3}\\.){3}\\d{1,3}):(?P<new_port>\\d{1,5})$".toList := by
  decide +kernel
theorem passthroughRe_pinned : ExtCodec.passthroughRe =
    "^(?P<chain>(?:\\w{2,32})):passthrough:(?P<src_ip>(?:\\d{1,3}\\.){3}\\d{1,3})-(?P<dst_ip>(?:\\d{1,3}\\.){3}\\d{1,3})$".toList := by
  decide +kernel
theorem ruleReFlags_pinned : ExtCodec.ruleReFlags = [32, 32, 32] := by decide
theorem dnatPattern_pinned : ExtCodec.dnatPattern =
    "{chain}:dnat:{proto}:{src_ip}:{src_port}:{dst_ip}:{dst_port}-{new_ip}:{new_port}".toList := by decide +kernel
theorem snatPattern_pinned : ExtCodec.snatPattern =
    "{chain}:snat:{proto}:{src_ip}:{src_port}:{dst_ip}:{dst_port}-{new_ip}:{new_port}".toList := by decide +kernel
theorem passthroughPattern_pinned : ExtCodec.passthroughPattern =
    "{chain}:passthrough:{src_ip}-{dst_ip}".toList := by decide +kernel
theorem ruleAny_eq : ExtCodec.ruleAny = ['*'] := by decide
theorem fwAnyPort_eq : ExtCodec.fwAnyPort = 0 := by decide
/-- every chain Treadmill files rules under is a `\w{2,32}` name -/
theorem ruleChains_wf : ExtCodec.ruleChains.all isChain = true := by decide +kernel

/-! ### lemmas -/

theorem isQuad_chars (s : Str) (h : isQuad s = true) : ∀ c ∈ s, c.isDigit = true ∨ c = '.' := by
  unfold isQuad at h
  have hj := join_splitOn '.' s
  generalize splitOn '.' s = l at h hj
  match l, h with
  | [a, b, c, d], h =>
    simp only [Bool.and_eq_true, isDigits, List.all_eq_true] at h
    obtain ⟨⟨⟨⟨_, ha⟩, ⟨_, hb⟩⟩, ⟨_, hc⟩⟩, ⟨_, hd⟩⟩ := h
    intro x hx
    rw [← hj] at hx
    simp only [join, List.mem_append, List.mem_cons] at hx
    rcases hx with hx | rfl | hx | rfl | hx | rfl | hx
    · exact Or.inl (ha x hx)
    · exact Or.inr rfl
    · exact Or.inl (hb x hx)
    · exact Or.inr rfl
    · exact Or.inl (hc x hx)
    · exact Or.inr rfl
    · exact Or.inl (hd x hx)

theorem isQuad_not_mem (s : Str) (x : Char) (hx : x.isDigit = false) (hd : x ≠ '.') (h : isQuad s = true) :
    x ∉ s := by
  intro hm
  rcases isQuad_chars s h x hm with h1 | h1
  · rw [h1] at hx; cases hx
  · exact hd h1

theorem isQuad_ne_any (s : Str) (h : isQuad s = true) : s ≠ ExtCodec.ruleAny := by
  intro e
  rw [e] at h
  revert h
  decide

theorem isChain_not_mem (s : Str) (x : Char) (hx : isWordChar x = false) (h : isChain s = true) : x ∉ s := by
  simp only [isChain, Bool.and_eq_true, List.all_eq_true] at h
  intro hm
  have := h.2 x hm
  rw [this] at hx; cases hx

theorem isProto_nocolon (s : Str) (h : isProto s = true) : ':' ∉ s := by
  simp only [isProto, Bool.or_eq_true, beq_iff_eq] at h
  rcases h with rfl | rfl <;> decide

/-- characters that can never occur inside a field: not a word character, not '.', not '*' -/
def Sep (x : Char) : Prop := isWordChar x = false ∧ x ≠ '.' ∧ x ≠ '*'

instance (x : Char) : Decidable (Sep x) := by unfold Sep; infer_instance

theorem Sep.notDigit {x : Char} (h : Sep x) : x.isDigit = false := by
  have := h.1
  simp only [isWordChar, Char.isAlphanum, Bool.or_eq_false_iff] at this
  exact this.1.2

theorem not_mem_of_all_word (s : Str) (x : Char) (h : s.all isWordChar = true) (hx : isWordChar x = false) :
    x ∉ s := by
  intro hm
  have := List.all_eq_true.mp h x hm
  rw [this] at hx; cases hx

theorem showIp_free (x : Char) (hx : Sep x) (ip : Option Str) (h : ipOptWF ip = true) : x ∉ showIp ip := by
  cases ip with
  | none =>
    simp only [showIp, ruleAny_eq, List.mem_singleton]
    exact hx.2.2
  | some s => exact isQuad_not_mem s x hx.notDigit hx.2.1 h

theorem showIp_props (ip : Option Str) (h : ipOptWF ip = true) :
    isIpOrAny (showIp ip) = true ∧ ipOf (showIp ip) = ip := by
  cases ip with
  | none => simp only [showIp]; decide
  | some s =>
    simp only [ipOptWF] at h
    exact ⟨by simp [showIp, isIpOrAny, h], by simp [showIp, ipOf, isQuad_ne_any s h]⟩

theorem showPort_free (x : Char) (hx : Sep x) (p : Nat) (h : p < 100000) : x ∉ showPort p := by
  by_cases h0 : p = 0
  · subst h0
    simp only [showPort, ↓reduceIte, ruleAny_eq, List.mem_singleton]
    exact hx.2.2
  · have hd := isDigits_natToDec p 5 (by decide) (by simpa using h)
    simpa [showPort, h0] using isDigits_not_mem 1 5 _ x hx.notDigit hd

theorem showPort_props (p : Nat) (h : p < 100000) :
    isPortOrAny (showPort p) = true ∧ portOf (showPort p) = some p := by
  by_cases h0 : p = 0
  · subst h0; simp only [showPort, ↓reduceIte]; decide
  · have hd := isDigits_natToDec p 5 (by decide) (by simpa using h)
    have hne : natToDec p ≠ ExtCodec.ruleAny := by
      intro e
      have := isDigits_not_mem 1 5 _ '*' (by decide) hd
      rw [e] at this
      exact this (by decide)
    exact ⟨by simp [showPort, h0, isPortOrAny, hd], by simp [showPort, h0, portOf, hne, (natToDec_spec p).2]⟩

theorem kinds_word : kDnat.all isWordChar = true ∧ kSnat.all isWordChar = true ∧ kPass.all isWordChar = true := by decide
theorem kinds_ne : kDnat ≠ kSnat ∧ kDnat ≠ kPass ∧ kSnat ≠ kPass := by decide

/-- the eight ':'-separated fields of an encoded NAT rule -/
def natFields (kind chain : Str) (r : NatRule) : List Str :=
  [chain, kind, r.proto, showIp r.srcIp, showPort r.srcPort, showIp r.dstIp,
   join '-' [showPort r.dstPort, r.newIp], natToDec r.newPort]

theorem natFields_free (x : Char) (hx : Sep x) (hd : x ≠ '-') (kind chain : Str) (r : NatRule)
    (hk : kind.all isWordChar = true) (hc : isChain chain = true) (hr : r.wf = true) :
    ∀ p ∈ natFields kind chain r, x ∉ p := by
  obtain ⟨proto, sip, sport, dip, dport, nip, nport⟩ := r
  simp only [NatRule.wf, Bool.and_eq_true, decide_eq_true_eq] at hr
  obtain ⟨⟨⟨⟨⟨⟨hproto, hsip⟩, hsport⟩, hdip⟩, hdport⟩, hnip⟩, hnport⟩ := hr
  have hnd := isDigits_natToDec nport 5 (by decide) (by simpa using hnport)
  intro p hp
  simp only [natFields, List.mem_cons, List.not_mem_nil, or_false] at hp
  rcases hp with rfl | rfl | rfl | rfl | rfl | rfl | rfl | rfl
  · exact isChain_not_mem _ x hx.1 hc
  · exact not_mem_of_all_word _ x hk hx.1
  · simp only [isProto, Bool.or_eq_true, beq_iff_eq] at hproto
    rcases hproto with rfl | rfl <;> exact not_mem_of_all_word _ x (by decide) hx.1
  · exact showIp_free x hx sip hsip
  · exact showPort_free x hx sport hsport
  · exact showIp_free x hx dip hdip
  · exact not_mem_join '-' x hd _ (by
      intro q hq
      simp only [List.mem_cons, List.not_mem_nil, or_false] at hq
      rcases hq with rfl | rfl
      · exact showPort_free x hx dport hdport
      · exact isQuad_not_mem _ x hx.notDigit hx.2.1 hnip)
  · exact isDigits_not_mem 1 5 _ x hx.notDigit hnd

theorem splitOn_encodeNat (kind chain : Str) (r : NatRule) (hk : kind.all isWordChar = true)
    (hc : isChain chain = true) (hr : r.wf = true) :
    splitOn ':' (encodeNat kind chain r) = natFields kind chain r :=
  splitOn_join _ _ (by simp)
    (natFields_free ':' (by decide) (by decide) kind chain r hk hc hr)

/-- An encoded NAT rule contains no newline (so `$` can only match at its very end). -/
theorem encodeNat_no_newline (kind chain : Str) (r : NatRule) (hk : kind.all isWordChar = true)
    (hc : isChain chain = true) (hr : r.wf = true) : '\n' ∉ encodeNat kind chain r :=
  not_mem_join ':' '\n' (by decide) _ (natFields_free '\n' (by decide) (by decide) kind chain r hk hc hr)

/-- Round trip of the DNAT/SNAT pattern with `$` = end of string. -/
theorem parseNat_encodeNat (kind chain : Str) (r : NatRule) (hk : kind.all isWordChar = true)
    (hc : isChain chain = true) (hr : r.wf = true) :
    parseNat kind (encodeNat kind chain r) = some (chain, r) := by
  have hsplit := splitOn_encodeNat kind chain r hk hc hr
  obtain ⟨proto, sip, sport, dip, dport, nip, nport⟩ := r
  simp only [NatRule.wf, Bool.and_eq_true, decide_eq_true_eq] at hr
  obtain ⟨⟨⟨⟨⟨⟨hproto, hsip⟩, hsport⟩, hdip⟩, hdport⟩, hnip⟩, hnport⟩ := hr
  obtain ⟨s3, s4⟩ := showIp_props sip hsip
  obtain ⟨d3, d4⟩ := showIp_props dip hdip
  obtain ⟨p3, p4⟩ := showPort_props sport hsport
  obtain ⟨q3, q4⟩ := showPort_props dport hdport
  have hnd := isDigits_natToDec nport 5 (by decide) (by simpa using hnport)
  have hsplit2 : splitOn '-' (join '-' [showPort dport, nip]) = [showPort dport, nip] := by
    apply splitOn_join _ _ (by simp)
    intro p hp
    simp only [List.mem_cons, List.not_mem_nil, or_false] at hp
    rcases hp with rfl | rfl
    · exact showPort_free '-' (by decide) dport hdport
    · exact isQuad_not_mem _ '-' (by decide) (by decide) hnip
  simp only [natFields] at hsplit
  simp only [parseNat, hsplit, hsplit2, hc, hproto, s3, p3, d3, q3, hnip, hnd, and_self, ↓reduceIte,
    p4, q4, (natToDec_spec nport).2, s4, d4]

/-- A name produced for one NAT kind is not matched by the pattern of another kind. -/
theorem parseNat_encodeNat_other (kind kind' chain : Str) (r : NatRule) (hne : kind ≠ kind')
    (hk : kind.all isWordChar = true) (hc : isChain chain = true) (hr : r.wf = true) :
    parseNat kind' (encodeNat kind chain r) = none := by
  have hsplit := splitOn_encodeNat kind chain r hk hc hr
  simp only [natFields] at hsplit
  simp only [parseNat, hsplit]
  split
  · split
    · rename_i hcond; exact absurd hcond.1 hne
    · rfl
  · rfl

theorem parsePass_encodeNat (kind chain : Str) (r : NatRule)
    (hk : kind.all isWordChar = true) (hc : isChain chain = true) (hr : r.wf = true) :
    parsePass (encodeNat kind chain r) = none := by
  have hsplit := splitOn_encodeNat kind chain r hk hc hr
  simp only [natFields] at hsplit
  simp only [parsePass, hsplit]

theorem withDollar_of_some {α} (p : Str → Option α) (s : Str) (r : α) (h : p s = some r) :
    withDollar p s = some r := by simp [withDollar, h]

theorem withDollar_of_none {α} (p : Str → Option α) (s : Str) (h : p s = none) (hn : '\n' ∉ s) :
    withDollar p s = none := by
  simp only [withDollar, h]
  split
  · rename_i hl; exact absurd (List.mem_of_getLast? hl) hn
  · rfl

theorem passFields_free (x : Char) (hx : Sep x) (hd : x ≠ '-') (chain src dst : Str)
    (hc : isChain chain = true) (hs : isQuad src = true) (hdst : isQuad dst = true) :
    ∀ p ∈ [chain, kPass, join '-' [src, dst]], x ∉ p := by
  intro p hp
  simp only [List.mem_cons, List.not_mem_nil, or_false] at hp
  rcases hp with rfl | rfl | rfl
  · exact isChain_not_mem _ x hx.1 hc
  · exact not_mem_of_all_word _ x kinds_word.2.2 hx.1
  · exact not_mem_join '-' x hd _ (by
      intro q hq
      simp only [List.mem_cons, List.not_mem_nil, or_false] at hq
      rcases hq with rfl | rfl
      · exact isQuad_not_mem _ x hx.notDigit hx.2.1 hs
      · exact isQuad_not_mem _ x hx.notDigit hx.2.1 hdst)

theorem splitOn_encodePass (chain src dst : Str) (hc : isChain chain = true)
    (hs : isQuad src = true) (hd : isQuad dst = true) :
    splitOn ':' (encodePass chain src dst) = [chain, kPass, join '-' [src, dst]] :=
  splitOn_join _ _ (by simp) (passFields_free ':' (by decide) (by decide) chain src dst hc hs hd)

theorem encodePass_no_newline (chain src dst : Str) (hc : isChain chain = true)
    (hs : isQuad src = true) (hd : isQuad dst = true) : '\n' ∉ encodePass chain src dst :=
  not_mem_join ':' '\n' (by decide) _ (passFields_free '\n' (by decide) (by decide) chain src dst hc hs hd)

/-- Round trip of the PASSTHROUGH pattern with `$` = end of string. -/
theorem parsePass_encodePass (chain src dst : Str) (hc : isChain chain = true)
    (hs : isQuad src = true) (hd : isQuad dst = true) :
    parsePass (encodePass chain src dst) = some (chain, src, dst) := by
  have hsplit := splitOn_encodePass chain src dst hc hs hd
  have hsplit2 : splitOn '-' (join '-' [src, dst]) = [src, dst] := by
    apply splitOn_join _ _ (by simp)
    intro p hp
    simp only [List.mem_cons, List.not_mem_nil, or_false] at hp
    rcases hp with rfl | rfl
    · exact isQuad_not_mem _ '-' (by decide) (by decide) hs
    · exact isQuad_not_mem _ '-' (by decide) (by decide) hd
  simp only [parsePass, hsplit, hsplit2, hc, hs, hd, and_self, ↓reduceIte]

theorem parseNat_encodePass (kind chain src dst : Str) (hc : isChain chain = true)
    (hs : isQuad src = true) (hd : isQuad dst = true) :
    parseNat kind (encodePass chain src dst) = none := by
  simp only [parseNat, splitOn_encodePass chain src dst hc hs hd]

/-- A name matched by one NAT pattern carries that pattern's kind word in second position. -/
theorem parseNat_kind (kind s : Str) (c : Str) (r : NatRule) (h : parseNat kind s = some (c, r)) :
    ∃ l, splitOn ':' s = l ∧ l.length = 8 ∧ l[1]? = some kind := by
  unfold parseNat at h
  split at h
  · rename_i chain k proto sip sport dip dpn nport heq
    split at h
    · split at h
      · rename_i hcond
        exact ⟨_, heq, rfl, by simp [hcond.1]⟩
      · cases h
    · cases h
  · cases h

theorem parsePass_kind (s : Str) (r : Str × Str × Str) (h : parsePass s = some r) :
    (splitOn ':' s).length = 3 := by
  unfold parsePass at h
  split at h
  · rename_i heq; rw [heq]; rfl
  · cases h

end TmVerif.Codec
