/-
  Helper lemmas for the update path (`Codec/LdapUpdate.lean`); the property theorems are in
  `Props/C15Update.lean`.
-/
import TmVerif.Codec.LdapUpdate

namespace TmVerif.Codec

/-! ### `_diff_attribute_values` -/

theorem diffAttributeValues_false_iff (o n : List EVal) :
    diffAttributeValues o n = false ↔ (o.length = n.length ∧ (∀ v ∈ o, v ∈ n) ∧ (∀ v ∈ n, v ∈ o)) := by
  unfold diffAttributeValues
  by_cases hl : o.length = n.length
  · by_cases h1 : o.any (fun v => !n.contains v) = true
    · simp only [hl, bne_self_eq_false, Bool.false_eq_true, if_false, h1, if_true]
      constructor
      · intro h; cases h
      · rintro ⟨_, h, _⟩
        rw [List.any_eq_true] at h1
        obtain ⟨v, hv, hc⟩ := h1
        have := h v hv
        simp [this] at hc
    · have h1' : ∀ v ∈ o, v ∈ n := by
        intro v hv
        apply Classical.byContradiction
        intro hn
        apply h1
        rw [List.any_eq_true]
        exact ⟨v, hv, by simp [hn]⟩
      simp only [hl, bne_self_eq_false, Bool.false_eq_true, if_false, h1]
      constructor
      · intro h
        refine ⟨trivial, h1', ?_⟩
        intro v hv
        apply Classical.byContradiction
        intro hn
        have : n.any (fun v => !o.contains v) = true := by
          rw [List.any_eq_true]
          exact ⟨v, hv, by simp [hn]⟩
        rw [h] at this
        cases this
      · rintro ⟨_, _, h⟩
        rw [Bool.eq_false_iff]
        intro hc
        rw [List.any_eq_true] at hc
        obtain ⟨v, hv, hc⟩ := hc
        have := h v hv
        simp [this] at hc
  · have : (o.length != n.length) = true := by simp [hl]
    simp only [this, if_true]
    constructor
    · intro h; cases h
    · rintro ⟨h, _⟩; exact absurd h hl

/-! ### attribute names: matching without regard to case -/

theorem attrEq_iff (a b : Str) : attrEq a b = true ↔ lowerAscii a = lowerAscii b := by
  unfold attrEq; exact beq_iff_eq

theorem attrEq_refl (a : Str) : attrEq a a = true := (attrEq_iff a a).2 rfl

theorem attrEq_congr_right {a b : Str} (h : attrEq a b = true) (x : Str) : attrEq x a = attrEq x b := by
  have := (attrEq_iff a b).1 h
  unfold attrEq; rw [this]

theorem attrEq_comm (a b : Str) : attrEq a b = attrEq b a := by
  unfold attrEq; exact BEq.comm

def lowerC (c : Char) : Char := if 'A' ≤ c ∧ c ≤ 'Z' then Char.ofNat (c.toNat + 32) else c

theorem ofNat_ne_semi : ∀ n, n < 123 → 97 ≤ n → Char.ofNat n ≠ ';' := by decide +kernel

theorem lowerC_ne_semi (c : Char) : (lowerC c = ';') ↔ (c = ';') := by
  unfold lowerC
  by_cases h : 'A' ≤ c ∧ c ≤ 'Z'
  · simp only [h, and_self, if_true]
    have h1 : 65 ≤ c.val.toNat := by
      have := h.1; rw [Char.le_def, UInt32.le_iff_toNat_le] at this; exact this
    have h2 : c.val.toNat ≤ 90 := by
      have := h.2; rw [Char.le_def, UInt32.le_iff_toNat_le] at this; exact this
    have hc : c ≠ ';' := by
      intro e; rw [e] at h1; revert h1; decide
    have hl : Char.ofNat (c.toNat + 32) ≠ ';' := by
      apply ofNat_ne_semi
      · show c.val.toNat + 32 < 123; omega
      · show 97 ≤ c.val.toNat + 32; omega
    constructor
    · intro e; exact absurd e hl
    · intro e; exact absurd e hc
  · simp only [h, if_false]

theorem lowerAscii_plainName (k : Str) : lowerAscii (plainName k) = plainName (lowerAscii k) := by
  unfold plainName lowerAscii
  induction k with
  | nil => rfl
  | cons c r ih =>
    have hs := lowerC_ne_semi c
    unfold lowerC at hs
    by_cases hc : c = ';'
    · subst hc
      simp [List.takeWhile]
    · have hc' : ¬ (if 'A' ≤ c ∧ c ≤ 'Z' then Char.ofNat (c.toNat + 32) else c) = ';' := fun e => hc (hs.1 e)
      simp only [List.map_cons, List.takeWhile_cons, ne_eq, hc, hc', not_false_eq_true, decide_true, if_true]
      rw [← ih]

/-! ### the directory operations seen through `valuesOf` -/

theorem valuesOf_congr {a b : Str} (h : attrEq a b = true) (e : Entry) : valuesOf a e = valuesOf b e := by
  unfold valuesOf findAttr
  have : (fun p : Str × List EVal => attrEq p.1 a) = (fun p => attrEq p.1 b) := by
    funext p; exact attrEq_congr_right h p.1
  rw [this]

theorem find?_filter_and {α} (p q : α → Bool) (l : List α) :
    (l.filter p).find? q = l.find? (fun x => p x && q x) := by
  induction l with
  | nil => rfl
  | cons x r ih =>
    by_cases hp : p x = true
    · simp only [List.filter_cons, hp, if_true, List.find?_cons, Bool.true_and]
      cases q x <;> simp [ih]
    · have hp' : p x = false := by simpa using hp
      simp only [List.filter_cons, hp', Bool.false_eq_true, if_false, List.find?_cons, Bool.false_and]
      exact ih

theorem valuesOf_delAttr (a b : Str) (e : Entry) :
    valuesOf a (delAttr b e) = if attrEq b a then none else valuesOf a e := by
  unfold valuesOf findAttr delAttr
  rw [find?_filter_and]
  by_cases h : attrEq b a = true
  · have : (fun p : Str × List EVal => !attrEq p.1 b && attrEq p.1 a) = (fun _ => false) := by
      funext p
      rw [attrEq_congr_right h p.1]
      cases attrEq p.1 a <;> rfl
    rw [this]
    simp [h]
  · have hf : attrEq b a = false := by simpa using h
    have : (fun p : Str × List EVal => !attrEq p.1 b && attrEq p.1 a) = (fun p => attrEq p.1 a) := by
      funext p
      by_cases h2 : attrEq p.1 a = true
      · have : attrEq p.1 b = false := by
          apply Bool.eq_false_iff.2
          intro h3
          have e1 := (attrEq_iff _ _).1 h2
          have e2 := (attrEq_iff _ _).1 h3
          exact h ((attrEq_iff _ _).2 (e2.symm.trans e1))
        simp [h2, this]
      · have h2' : attrEq p.1 a = false := by simpa using h2
        simp [h2']
    rw [this]
    simp [hf]

theorem valuesOf_putAttr (a b : Str) (vals : List EVal) (e : Entry) :
    valuesOf a (putAttr b vals e) = if attrEq b a then some vals else valuesOf a e := by
  induction e with
  | nil =>
    unfold putAttr valuesOf findAttr
    by_cases h : attrEq b a = true <;> simp [List.find?, h]
  | cons p r ih =>
    unfold putAttr
    by_cases hpb : attrEq p.1 b = true
    · simp only [hpb, if_true]
      by_cases h : attrEq b a = true
      · have hpa : attrEq p.1 a = true := by rw [← attrEq_congr_right h p.1]; exact hpb
        simp [valuesOf, findAttr, List.find?, hpa, h]
      · have hf : attrEq b a = false := by simpa using h
        have hpa : attrEq p.1 a = false := by
          apply Bool.eq_false_iff.2
          intro h3
          have e1 := (attrEq_iff _ _).1 hpb
          have e2 := (attrEq_iff _ _).1 h3
          exact h ((attrEq_iff _ _).2 (e1.symm.trans e2))
        simp [valuesOf, findAttr, List.find?, hpa, hf]
    · have hpb' : attrEq p.1 b = false := by simpa using hpb
      simp only [hpb', Bool.false_eq_true, if_false]
      by_cases hpa : attrEq p.1 a = true
      · have hba : attrEq b a = false := by
          apply Bool.eq_false_iff.2
          intro h3
          have e1 := (attrEq_iff _ _).1 hpa
          have e2 := (attrEq_iff _ _).1 h3
          exact hpb ((attrEq_iff _ _).2 (e1.trans e2.symm))
        simp [valuesOf, findAttr, List.find?, hpa, hba]
      · have hpa' : attrEq p.1 a = false := by simpa using hpa
        have : valuesOf a (p :: putAttr b vals r) = valuesOf a (putAttr b vals r) := by
          simp [valuesOf, findAttr, List.find?, hpa']
        rw [this, ih]
        simp [valuesOf, findAttr, List.find?, hpa']

/-- no values = no attribute -/
def normVals (vals : List EVal) : Option (List EVal) := if vals.isEmpty then none else some vals

theorem valuesOf_setAttr (a b : Str) (vals : List EVal) (e : Entry) :
    valuesOf a (setAttr b vals e) = if attrEq b a then normVals vals else valuesOf a e := by
  unfold setAttr normVals
  by_cases hv : vals.isEmpty = true
  · simp only [hv, if_true]; exact valuesOf_delAttr a b e
  · simp only [hv, Bool.false_eq_true, if_false]; exact valuesOf_putAttr a b vals e

/-- what one modification does to the values of the attribute it names -/
def effect (cur : Option (List EVal)) (m : Mod) : Option (List EVal) :=
  match m.1 with
  | .add => normVals (cur.getD [] ++ m.2)
  | .delete => if m.2.isEmpty then none else normVals ((cur.getD []).filter (fun v => !m.2.contains v))
  | .replace => normVals m.2

theorem valuesOf_applyMod (a b : Str) (m : Mod) (e : Entry) :
    valuesOf a (applyMod e b m) = if attrEq b a then effect (valuesOf a e) m else valuesOf a e := by
  unfold applyMod effect
  by_cases h : attrEq b a = true
  · rw [valuesOf_congr h e]
    simp only [h, if_true]
    cases m.1 with
    | add => simp only [valuesOf_setAttr, h, if_true]
    | delete =>
      by_cases hv : m.2.isEmpty = true
      · simp only [hv, if_true, valuesOf_delAttr, h]
      · simp only [hv, Bool.false_eq_true, if_false, valuesOf_setAttr, h, if_true]
    | replace => simp only [valuesOf_setAttr, h, if_true]
  · have hf : attrEq b a = false := by simpa using h
    simp only [hf, Bool.false_eq_true, if_false]
    cases m.1 with
    | add => simp only [valuesOf_setAttr, hf, Bool.false_eq_true, if_false]
    | delete =>
      by_cases hv : m.2.isEmpty = true
      · simp only [hv, if_true, valuesOf_delAttr, hf, Bool.false_eq_true, if_false]
      · simp only [hv, Bool.false_eq_true, if_false, valuesOf_setAttr, hf]
    | replace => simp only [valuesOf_setAttr, hf, Bool.false_eq_true, if_false]

/-- the values of attribute `a` after a whole request, computed from its values before -/
def effects (a : Str) (cur : Option (List EVal)) (ms : Mods) : Option (List EVal) :=
  ms.foldl (fun cur p => if attrEq p.1 a then p.2.foldl effect cur else cur) cur

theorem valuesOf_applyOps (a b : Str) (ops : List Mod) (e : Entry) :
    valuesOf a (ops.foldl (fun e m => applyMod e b m) e)
      = if attrEq b a then ops.foldl effect (valuesOf a e) else valuesOf a e := by
  induction ops generalizing e with
  | nil => simp
  | cons m r ih =>
    simp only [List.foldl_cons]
    rw [ih, valuesOf_applyMod]
    by_cases h : attrEq b a = true
    · simp only [h, if_true]
    · have hf : attrEq b a = false := by simpa using h
      simp only [hf, Bool.false_eq_true, if_false]

theorem valuesOf_applyMods (a : Str) (ms : Mods) (e : Entry) :
    valuesOf a (applyMods e ms) = effects a (valuesOf a e) ms := by
  unfold applyMods effects
  induction ms generalizing e with
  | nil => rfl
  | cons p r ih =>
    simp only [List.foldl_cons]
    rw [ih, valuesOf_applyOps]

theorem effects_append (a : Str) (cur : Option (List EVal)) (m₁ m₂ : Mods) :
    effects a cur (m₁ ++ m₂) = effects a (effects a cur m₁) m₂ := by
  unfold effects; rw [List.foldl_append]

theorem effects_no_match (a : Str) (cur : Option (List EVal)) (ms : Mods)
    (h : ∀ p ∈ ms, attrEq p.1 a = false) : effects a cur ms = cur := by
  unfold effects
  induction ms generalizing cur with
  | nil => rfl
  | cons p r ih =>
    simp only [List.foldl_cons]
    rw [h p (List.mem_cons_self ..)]
    simp only [Bool.false_eq_true, if_false]
    exact ih cur (fun q hq => h q (List.mem_cons_of_mem _ hq))

/-! ### `_diff_entries` on entries whose names are distinct without regard to case -/

/-- the names of an entry are pairwise distinct without regard to case (decidable) -/
def CIDistinct (e : Entry) : Prop := (e.map (fun p => lowerAscii p.1)).Nodup

instance (e : Entry) : Decidable (CIDistinct e) := by unfold CIDistinct; infer_instance

def lmapOf (old : Entry) : LMap := old.map (fun p => (lowerAscii p.1, p.1))

theorem setKey_absent {α} (k : Str) (v : α) (l : List (Str × α)) (h : ∀ q ∈ l, q.1 ≠ k) :
    setKey k v l = l ++ [(k, v)] := by
  induction l with
  | nil => rfl
  | cons q r ih =>
    obtain ⟨k', v'⟩ := q
    have hne : k' ≠ k := h (k', v') (List.mem_cons_self ..)
    simp only [setKey, hne, if_false, List.cons_append]
    rw [ih (fun q hq => h q (List.mem_cons_of_mem _ hq))]

theorem lowerMap_aux (old : Entry) (acc : LMap) (hd : CIDistinct old)
    (ha : ∀ q ∈ acc, ∀ p ∈ old, q.1 ≠ lowerAscii p.1) :
    old.foldl (fun m p => setKey (lowerAscii p.1) p.1 m) acc = acc ++ lmapOf old := by
  induction old generalizing acc with
  | nil => simp [lmapOf]
  | cons p r ih =>
    simp only [List.foldl_cons]
    rw [setKey_absent _ _ acc (fun q hq => ha q hq p (List.mem_cons_self ..))]
    have hd' : (lowerAscii p.1 :: r.map (fun p => lowerAscii p.1)).Nodup := hd
    rw [List.nodup_cons] at hd'
    rw [ih _ hd'.2]
    · simp [lmapOf]
    · intro q hq p' hp'
      rw [List.mem_append] at hq
      cases hq with
      | inl hq => exact ha q hq p' (List.mem_cons_of_mem _ hp')
      | inr hq =>
        rw [List.mem_singleton] at hq
        subst hq
        intro e
        apply hd'.1
        show lowerAscii p.1 ∈ r.map (fun p => lowerAscii p.1)
        have e' : lowerAscii p.1 = lowerAscii p'.1 := e
        rw [e']
        exact List.mem_map_of_mem (f := fun p : Str × List EVal => lowerAscii p.1) hp'

theorem lowerMap_eq (old : Entry) (hd : CIDistinct old) : lowerMap old = lmapOf old := by
  unfold lowerMap
  rw [lowerMap_aux old [] hd (fun q hq => by cases hq)]
  rfl

theorem lookup_lmapOf (k : Str) (old : Entry) :
    lookup (lowerAscii k) (lmapOf old) = (findAttr k old).map (·.1) := by
  induction old with
  | nil => rfl
  | cons p r ih =>
    by_cases h : lowerAscii p.1 = lowerAscii k
    · have : attrEq p.1 k = true := (attrEq_iff _ _).2 h
      simp [lmapOf, lookup, findAttr, List.find?, h, this]
    · have : attrEq p.1 k = false := by
        apply Bool.eq_false_iff.2; intro e; exact h ((attrEq_iff _ _).1 e)
      have ih' := ih
      simp only [lmapOf, findAttr] at ih'
      simp only [lmapOf, List.map_cons, lookup, h, if_false, findAttr, List.find?, this]
      exact ih'

theorem lookup_of_findAttr (k : Str) (old : Entry) (p : Str × List EVal) (h : findAttr k old = some p) :
    lookup p.1 old = some p.2 := by
  induction old with
  | nil => cases h
  | cons q r ih =>
    obtain ⟨qk, qv⟩ := q
    unfold findAttr at h
    by_cases hq : attrEq qk k = true
    · simp only [List.find?, hq] at h
      cases h
      simp [lookup]
    · have hq' : attrEq qk k = false := by simpa using hq
      simp only [List.find?, hq'] at h
      have hp : attrEq p.1 k = true := by
        have := List.find?_some h
        exact this
      have hne : qk ≠ p.1 := by
        intro e; rw [e] at hq; exact hq hp
      simp only [lookup, hne, if_false]
      exact ih h

theorem oldValues_lmapOf (k : Str) (old : Entry) :
    oldValues old (lmapOf old) (lowerAscii k) = (valuesOf k old).getD [] := by
  unfold oldValues valuesOf
  rw [lookup_lmapOf]
  cases h : findAttr k old with
  | none => rfl
  | some p =>
    simp only [Option.map_some]
    rw [lookup_of_findAttr k old p h]

theorem lookup_delKey_ne {α} (k k' : Str) (m : List (Str × α)) (h : k ≠ k') :
    lookup k' (delKey k m) = lookup k' m := by
  induction m with
  | nil => rfl
  | cons q r ih =>
    obtain ⟨qk, qv⟩ := q
    unfold delKey at ih ⊢
    by_cases hq : qk = k
    · subst hq
      simp only [List.filter_cons, ne_eq, not_true_eq_false, decide_false, Bool.false_eq_true, if_false, lookup, h]
      exact ih
    · simp only [List.filter_cons, ne_eq, hq, not_false_eq_true, decide_true, if_true, lookup]
      rw [ih]

/-- the modifications `_diff_entries` makes for one attribute of the new entry -/
def specRow (old : Entry) (p : Str × List EVal) : Mods :=
  (attrMods ((valuesOf p.1 old).getD []) p.2).map (fun x => (p.1, [x]))

theorem diffNew_eq (old : Entry) (new : Entry) (m : LMap) (hd : CIDistinct new)
    (hm : ∀ p ∈ new, lookup (lowerAscii p.1) m = lookup (lowerAscii p.1) (lmapOf old)) :
    diffNew old m new = new.flatMap (specRow old) := by
  induction new generalizing m with
  | nil => rfl
  | cons p r ih =>
    obtain ⟨k, nv⟩ := p
    have hd' : (lowerAscii k :: r.map (fun p => lowerAscii p.1)).Nodup := hd
    rw [List.nodup_cons] at hd'
    simp only [diffNew, List.flatMap_cons]
    have h1 : oldValues old m (lowerAscii k) = (valuesOf k old).getD [] := by
      rw [← oldValues_lmapOf]
      unfold oldValues
      rw [hm (k, nv) (List.mem_cons_self ..)]
    rw [h1]
    rw [ih (delKey (lowerAscii k) m) hd'.2]
    · rfl
    · intro p hp
      have hne : lowerAscii k ≠ lowerAscii p.1 := by
        intro e; apply hd'.1; rw [e]; exact List.mem_map_of_mem (f := fun p : Str × List EVal => lowerAscii p.1) hp
      rw [lookup_delKey_ne _ _ _ hne]
      exact hm p (List.mem_cons_of_mem _ hp)

/-- `_diff_entries` as a specification: one row per attribute of the new entry, then a delete for
    every old attribute the new entry does not have -/
def diffSpec (old new : Entry) : Mods :=
  new.flatMap (specRow old)
    ++ (old.filter (fun p => !new.any (fun q => attrEq q.1 p.1))).map (fun p => (p.1, [(ModOp.delete, [])]))

theorem restMap_eq (old new : Entry) :
    (restMap (lmapOf old) new).map (fun p => (p.2, [(ModOp.delete, ([] : List EVal))]))
      = (old.filter (fun p => !new.any (fun q => attrEq q.1 p.1))).map (fun p => (p.1, [(ModOp.delete, [])])) := by
  unfold restMap lmapOf
  induction old with
  | nil => rfl
  | cons p r ih =>
    simp only [List.map_cons, List.filter_cons]
    have : (new.any fun q => lowerAscii q.1 == lowerAscii p.1) = new.any (fun q => attrEq q.1 p.1) := rfl
    rw [this]
    cases new.any (fun q => attrEq q.1 p.1)
    · simp only [Bool.not_false, if_true, List.map_cons]
      rw [ih]
    · simp only [Bool.not_true, Bool.false_eq_true, if_false]
      exact ih

theorem diffEntries_eq_spec (old new : Entry) (ho : CIDistinct old) (hn : CIDistinct new) :
    diffEntries old new = diffSpec old new := by
  unfold diffEntries diffSpec
  rw [lowerMap_eq old ho, diffNew_eq old new (lmapOf old) hn (fun _ _ => rfl), restMap_eq]

/-! ### the values of one attribute after the request of `diffSpec` -/

theorem effects_single (a k : Str) (cur : Option (List EVal)) (l : List Mod) :
    effects a cur (l.map (fun x => (k, [x]))) = if attrEq k a then l.foldl effect cur else cur := by
  unfold effects
  induction l generalizing cur with
  | nil => simp
  | cons x r ih =>
    simp only [List.map_cons, List.foldl_cons]
    rw [ih]
    by_cases h : attrEq k a = true
    · simp [h]
    · have hf : attrEq k a = false := by simpa using h
      simp [hf]

theorem effects_rows (a : Str) (cur : Option (List EVal)) (old new : Entry) (hd : CIDistinct new) :
    effects a cur (new.flatMap (specRow old))
      = match new.find? (fun p => attrEq p.1 a) with
        | none => cur
        | some p => (attrMods ((valuesOf p.1 old).getD []) p.2).foldl effect cur := by
  induction new generalizing cur with
  | nil => rfl
  | cons p r ih =>
    have hd' : (lowerAscii p.1 :: r.map (fun p => lowerAscii p.1)).Nodup := hd
    rw [List.nodup_cons] at hd'
    simp only [List.flatMap_cons]
    rw [effects_append]
    unfold specRow
    rw [effects_single]
    by_cases h : attrEq p.1 a = true
    · simp only [h, if_true, List.find?]
      apply effects_no_match
      intro q hq
      rw [List.mem_flatMap] at hq
      obtain ⟨p', hp', hq⟩ := hq
      rw [List.mem_map] at hq
      obtain ⟨x, _, hx⟩ := hq
      subst hx
      apply Bool.eq_false_iff.2
      intro e
      apply hd'.1
      have e1 := (attrEq_iff _ _).1 h
      have e2 : lowerAscii p'.1 = lowerAscii a := (attrEq_iff _ _).1 e
      rw [e1, ← e2]
      exact List.mem_map_of_mem (f := fun p : Str × List EVal => lowerAscii p.1) hp'
    · have hf : attrEq p.1 a = false := by simpa using h
      simp only [hf, Bool.false_eq_true, if_false, List.find?]
      have := ih cur hd'.2
      unfold specRow at this
      exact this

theorem effect_delete_all (cur : Option (List EVal)) : effect cur (ModOp.delete, []) = none := rfl

theorem effects_deletes (a : Str) (cur : Option (List EVal)) (L : Entry) :
    effects a cur (L.map (fun p => (p.1, [(ModOp.delete, ([] : List EVal))])))
      = if L.any (fun p => attrEq p.1 a) then none else cur := by
  induction L generalizing cur with
  | nil => rfl
  | cons p r ih =>
    have : effects a cur (((p :: r) : Entry).map (fun p => (p.1, [(ModOp.delete, ([] : List EVal))])))
        = effects a (if attrEq p.1 a then none else cur) (r.map (fun p => (p.1, [(ModOp.delete, ([] : List EVal))]))) := by
      unfold effects
      simp only [List.map_cons, List.foldl_cons, List.foldl_nil, effect_delete_all]
    rw [this, ih]
    by_cases h : attrEq p.1 a = true
    · simp [h]
    · have hf : attrEq p.1 a = false := by simpa using h
      show (if (r.any fun p => attrEq p.1 a) = true then none else (if attrEq p.1 a = true then none else cur))
        = if ((p :: r).any fun p => attrEq p.1 a) = true then none else cur
      rw [List.any_cons, hf]
      simp only [Bool.false_or, Bool.false_eq_true, if_false]

/-! ### `_entry_plain_keys`, the search of `Admin.update` -/

theorem mem_insertBy {α} (lt : α → α → Bool) (x y : α) (l : List α) : y ∈ insertBy lt x l ↔ y = x ∨ y ∈ l := by
  induction l with
  | nil => simp [insertBy]
  | cons z r ih =>
    unfold insertBy
    by_cases h : lt z x = true
    · simp only [h, if_true, List.mem_cons, ih]
      constructor
      · rintro (h | h | h) <;> simp [h]
      · rintro (h | h | h) <;> simp [h]
    · have hf : lt z x = false := by simpa using h
      simp only [hf, Bool.false_eq_true, if_false, List.mem_cons]

theorem mem_isort {α} (lt : α → α → Bool) (y : α) (l : List α) : y ∈ isort lt l ↔ y ∈ l := by
  induction l with
  | nil => simp [isort]
  | cons x r ih => simp only [isort, mem_insertBy, ih, List.mem_cons]

theorem mem_dedupStr (y : Str) (l : List Str) : y ∈ dedupStr l ↔ y ∈ l := by
  induction l with
  | nil => simp [dedupStr]
  | cons x r ih =>
    unfold dedupStr
    by_cases h : r.contains x = true
    · simp only [h, if_true, ih, List.mem_cons]
      constructor
      · intro h'; exact Or.inr h'
      · rintro (h' | h')
        · subst h'; simpa using h
        · exact h'
    · have hf : r.contains x = false := by simpa using h
      simp only [hf, Bool.false_eq_true, if_false, List.mem_cons, ih]

theorem mem_entryPlainKeys (x : Str) (e : Entry) : x ∈ entryPlainKeys e ↔ ∃ p ∈ e, plainName p.1 = x := by
  unfold entryPlainKeys
  rw [mem_isort, mem_dedupStr, List.mem_map]

/-- `Admin.update` reads attribute `a`: the new entry names it, by its plain name (decidable) -/
def Named (new : Entry) (a : Str) : Bool := (entryPlainKeys new).any (fun x => attrEq x (plainName a))

theorem attrEq_plainName {a b : Str} (h : attrEq a b = true) : attrEq (plainName a) (plainName b) = true := by
  rw [attrEq_iff] at h ⊢
  rw [lowerAscii_plainName, lowerAscii_plainName, h]

theorem named_congr (new : Entry) {a b : Str} (h : attrEq a b = true) : Named new a = Named new b := by
  unfold Named
  have : (fun x => attrEq x (plainName a)) = (fun x => attrEq x (plainName b)) := by
    funext x; exact attrEq_congr_right (attrEq_plainName h) x
  rw [this]

theorem named_of_mem (new : Entry) (p : Str × List EVal) (h : p ∈ new) : Named new p.1 = true := by
  unfold Named
  rw [List.any_eq_true]
  exact ⟨plainName p.1, (mem_entryPlainKeys _ _).2 ⟨p, h, rfl⟩, attrEq_refl _⟩

theorem valuesOf_fetch (a : Str) (attrs : List Str) (e : Entry) :
    valuesOf a (fetch attrs e)
      = if attrs.any (fun y => attrEq y (plainName a)) then valuesOf a e else none := by
  unfold valuesOf findAttr fetch
  rw [find?_filter_and]
  by_cases h : attrs.any (fun y => attrEq y (plainName a)) = true
  · have : (fun x : Str × List EVal => (attrs.any fun y => attrEq y (plainName x.1)) && attrEq x.1 a)
        = (fun x => attrEq x.1 a) := by
      funext x
      by_cases hx : attrEq x.1 a = true
      · have : (fun y => attrEq y (plainName x.1)) = (fun y => attrEq y (plainName a)) := by
          funext y; exact attrEq_congr_right (attrEq_plainName hx) y
        rw [this, h, hx]; rfl
      · have hx' : attrEq x.1 a = false := by simpa using hx
        rw [hx']; simp
    rw [this]; simp [h]
  · have hf : attrs.any (fun y => attrEq y (plainName a)) = false := by simpa using h
    have : (fun x : Str × List EVal => (attrs.any fun y => attrEq y (plainName x.1)) && attrEq x.1 a)
        = (fun _ => false) := by
      funext x
      by_cases hx : attrEq x.1 a = true
      · have : (fun y => attrEq y (plainName x.1)) = (fun y => attrEq y (plainName a)) := by
          funext y; exact attrEq_congr_right (attrEq_plainName hx) y
        rw [this, hf]; rfl
      · have hx' : attrEq x.1 a = false := by simpa using hx
        rw [hx']; simp
    rw [this]; simp [hf]

theorem mem_fetch (p : Str × List EVal) (new e : Entry) :
    p ∈ fetch (entryPlainKeys new) e ↔ p ∈ e ∧ Named new p.1 = true := by
  unfold fetch Named
  rw [List.mem_filter]

theorem ciDistinct_fetch (attrs : List Str) (e : Entry) (h : CIDistinct e) : CIDistinct (fetch attrs e) := by
  unfold CIDistinct fetch at *
  exact List.Nodup.sublist (List.Sublist.map _ List.filter_sublist) h

theorem find?_of_mem_ciDistinct (new : Entry) (p : Str × List EVal) (hd : CIDistinct new) (hp : p ∈ new) :
    new.find? (fun q => attrEq q.1 p.1) = some p := by
  induction new with
  | nil => cases hp
  | cons q r ih =>
    have hd' : (lowerAscii q.1 :: r.map (fun p => lowerAscii p.1)).Nodup := hd
    rw [List.nodup_cons] at hd'
    rw [List.mem_cons] at hp
    cases hp with
    | inl e => subst e; simp [List.find?, attrEq_refl]
    | inr hr =>
      have : attrEq q.1 p.1 = false := by
        apply Bool.eq_false_iff.2
        intro e
        apply hd'.1
        rw [(attrEq_iff _ _).1 e]
        exact List.mem_map_of_mem (f := fun p : Str × List EVal => lowerAscii p.1) hr
      simp only [List.find?, this]
      exact ih hd'.2 hr

theorem valuesOf_some_mem (a : Str) (e : Entry) (vs : List EVal) (h : valuesOf a e = some vs) :
    ∃ p ∈ e, attrEq p.1 a = true ∧ p.2 = vs := by
  unfold valuesOf findAttr at h
  cases hf : e.find? (fun p => attrEq p.1 a) with
  | none => rw [hf] at h; cases h
  | some p =>
    rw [hf] at h
    have h2 : attrEq p.1 a = true := List.find?_some (p := fun p : Str × List EVal => attrEq p.1 a) hf
    exact ⟨p, List.mem_of_find?_eq_some hf, h2, by simpa using h⟩

theorem valuesOf_none_of_no_match (a : Str) (e : Entry) (h : ∀ p ∈ e, attrEq p.1 a = false) :
    valuesOf a e = none := by
  unfold valuesOf findAttr
  rw [List.find?_eq_none.2]
  · rfl
  · intro p hp; rw [h p hp]; simp

/-- the values of every attribute after `Admin.update`, in closed form -/
theorem valuesOf_adminUpdate (stored new : Entry) (hs : CIDistinct stored) (hn : CIDistinct new) (a : Str) :
    valuesOf a (adminUpdate stored new) =
      if ((fetch (entryPlainKeys new) stored).filter (fun p => !new.any (fun q => attrEq q.1 p.1))).any
          (fun p => attrEq p.1 a) then none
      else match new.find? (fun p => attrEq p.1 a) with
        | none => valuesOf a stored
        | some p => (attrMods ((valuesOf p.1 (fetch (entryPlainKeys new) stored)).getD []) p.2).foldl effect
                      (valuesOf a stored) := by
  unfold adminUpdate adminUpdateMods
  rw [valuesOf_applyMods, diffEntries_eq_spec _ _ (ciDistinct_fetch _ _ hs) hn]
  unfold diffSpec
  rw [effects_append, effects_deletes, effects_rows _ _ _ _ hn]

/-- what the modifications of one attribute do to its values (`cur`: a stored attribute has values) -/
theorem attrMods_effect (c : Option (List EVal)) (hc : c ≠ some []) (nv : List EVal) :
    (nv = [] → (attrMods (c.getD []) nv).foldl effect c = none) ∧
    (nv ≠ [] → ∃ got, (attrMods (c.getD []) nv).foldl effect c = some got ∧
        (got = nv ∨ (c = some got ∧ diffAttributeValues got nv = false))) := by
  unfold attrMods
  cases c with
  | none =>
    constructor
    · intro h; subst h; rfl
    · intro h
      have : nv.isEmpty = false := by cases nv <;> simp_all
      refine ⟨nv, ?_, Or.inl rfl⟩
      simp [this, effect, normVals]
  | some ov =>
    have hov : ov.isEmpty = false := by
      cases ov with
      | nil => exact absurd rfl hc
      | cons _ _ => rfl
    constructor
    · intro h; subst h
      simp [hov, effect]
    · intro h
      have hnv : nv.isEmpty = false := by cases nv <;> simp_all
      by_cases hd : diffAttributeValues ov nv = true
      · refine ⟨nv, ?_, Or.inl rfl⟩
        simp [hov, hnv, hd, effect, normVals]
      · have hd' : diffAttributeValues ov nv = false := by simpa using hd
        refine ⟨ov, ?_, Or.inr ⟨rfl, hd'⟩⟩
        simp [hov, hnv, hd']

/-! ### the three kinds of attribute under `Admin.update` -/

theorem deletes_no_match_of_mem (stored new : Entry) (p : Str × List EVal) (hp : p ∈ new) :
    ((fetch (entryPlainKeys new) stored).filter (fun p => !new.any (fun q => attrEq q.1 p.1))).any
      (fun q => attrEq q.1 p.1) = false := by
  apply Bool.eq_false_iff.2
  intro h
  rw [List.any_eq_true] at h
  obtain ⟨q, hq, hqa⟩ := h
  rw [List.mem_filter] at hq
  obtain ⟨_, hq2⟩ := hq
  have : new.any (fun x => attrEq x.1 q.1) = true :=
    List.any_eq_true.2 ⟨p, hp, by rw [attrEq_comm]; exact hqa⟩
  rw [this] at hq2
  cases hq2

/-- an attribute of the new entry -/
theorem valuesOf_adminUpdate_mem (stored new : Entry) (hs : CIDistinct stored) (hn : CIDistinct new)
    (p : Str × List EVal) (hp : p ∈ new) :
    valuesOf p.1 (adminUpdate stored new)
      = (attrMods ((valuesOf p.1 stored).getD []) p.2).foldl effect (valuesOf p.1 stored) := by
  rw [valuesOf_adminUpdate _ _ hs hn, find?_of_mem_ciDistinct new p hn hp, deletes_no_match_of_mem stored new p hp]
  simp only [Bool.false_eq_true, if_false]
  rw [valuesOf_fetch]
  have := named_of_mem new p hp
  unfold Named at this
  rw [this]
  simp only [if_true]

/-- an attribute the new entry does not name -/
theorem valuesOf_adminUpdate_unnamed (stored new : Entry) (hs : CIDistinct stored) (hn : CIDistinct new)
    (a : Str) (ha : Named new a = false) :
    valuesOf a (adminUpdate stored new) = valuesOf a stored := by
  rw [valuesOf_adminUpdate _ _ hs hn]
  have h1 : ((fetch (entryPlainKeys new) stored).filter (fun p => !new.any (fun q => attrEq q.1 p.1))).any
      (fun p => attrEq p.1 a) = false := by
    apply Bool.eq_false_iff.2
    intro h
    rw [List.any_eq_true] at h
    obtain ⟨q, hq, hqa⟩ := h
    rw [List.mem_filter] at hq
    have := ((mem_fetch q new stored).1 hq.1).2
    rw [named_congr new hqa, ha] at this
    cases this
  have h2 : new.find? (fun p => attrEq p.1 a) = none := by
    rw [List.find?_eq_none]
    intro p hp hpa
    have := named_of_mem new p hp
    rw [named_congr new hpa, ha] at this
    cases this
  rw [h1, h2]
  simp only [Bool.false_eq_true, if_false]

/-- an attribute the new entry names (by its plain name) but does not contain: a row of a keyed list
    that is no longer there -/
theorem valuesOf_adminUpdate_dropped (stored new : Entry) (hs : CIDistinct stored) (hn : CIDistinct new)
    (a : Str) (ha : Named new a = true) (hno : ∀ p ∈ new, attrEq p.1 a = false) :
    valuesOf a (adminUpdate stored new) = none := by
  rw [valuesOf_adminUpdate _ _ hs hn]
  have h2 : new.find? (fun p => attrEq p.1 a) = none := by
    rw [List.find?_eq_none]
    intro p hp hpa
    rw [hno p hp] at hpa
    cases hpa
  rw [h2]
  cases hv : valuesOf a stored with
  | none => simp
  | some vs =>
    obtain ⟨p, hp, hpa, _⟩ := valuesOf_some_mem a stored vs hv
    have h1 : ((fetch (entryPlainKeys new) stored).filter (fun p => !new.any (fun q => attrEq q.1 p.1))).any
        (fun p => attrEq p.1 a) = true := by
      rw [List.any_eq_true]
      refine ⟨p, ?_, hpa⟩
      rw [List.mem_filter]
      refine ⟨(mem_fetch p new stored).2 ⟨hp, by rw [named_congr new hpa]; exact ha⟩, ?_⟩
      have : new.any (fun q => attrEq q.1 p.1) = false := by
        apply Bool.eq_false_iff.2
        intro h
        rw [List.any_eq_true] at h
        obtain ⟨q, hq, hqp⟩ := h
        have := hno q hq
        rw [← attrEq_congr_right hpa q.1, hqp] at this
        cases this
      rw [this]; rfl
    rw [h1]
    simp only [if_true]

/-- the request `Admin.update` sends, as a specification -/
theorem adminUpdateMods_eq_spec (stored new : Entry) (hs : CIDistinct stored) (hn : CIDistinct new) :
    adminUpdateMods stored new = diffSpec (fetch (entryPlainKeys new) stored) new := by
  unfold adminUpdateMods
  exact diffEntries_eq_spec _ _ (ciDistinct_fetch _ _ hs) hn

theorem valuesOf_fetch_mem (stored new : Entry) (p : Str × List EVal) (hp : p ∈ new) :
    valuesOf p.1 (fetch (entryPlainKeys new) stored) = valuesOf p.1 stored := by
  rw [valuesOf_fetch]
  have := named_of_mem new p hp
  unfold Named at this
  rw [this]
  simp only [if_true]

end TmVerif.Codec
