/-
  Helper lemmas for the update path (`Codec/LdapUpdate.lean`); the property theorems are in
  `Props/C15Update.lean`.
-/
import TmVerif.Codec.LdapUpdate

namespace TmVerif.Codec

/-! ### `_diff_attribute_values` -/

theorem diffAttributeValues_false_iff (o n : List EVal) :
    diffAttributeValues o n = false ↔ (o.length = n.length ∧ (∀ v ∈ o, v ∈ n) ∧ (∀ v ∈ n, v ∈ o)) := by
  unfold diffAttributeValues
  by_cases hl : o.length = n.length
  · by_cases h1 : o.any (fun v => !n.contains v) = true
    · simp only [hl, bne_self_eq_false, Bool.false_eq_true, if_false, h1, if_true]
      constructor
      · intro h; cases h
      · rintro ⟨_, h, _⟩
        rw [List.any_eq_true] at h1
        obtain ⟨v, hv, hc⟩ := h1
        have := h v hv
        simp [this] at hc
    · have h1' : ∀ v ∈ o, v ∈ n := by
        intro v hv
        apply Classical.byContradiction
        intro hn
        apply h1
        rw [List.any_eq_true]
        exact ⟨v, hv, by simp [hn]⟩
      simp only [hl, bne_self_eq_false, Bool.false_eq_true, if_false, h1]
      constructor
      · intro h
        refine ⟨trivial, h1', ?_⟩
        intro v hv
        apply Classical.byContradiction
        intro hn
        have : n.any (fun v => !o.contains v) = true := by
          rw [List.any_eq_true]
          exact ⟨v, hv, by simp [hn]⟩
        rw [h] at this
        cases this
      · rintro ⟨_, _, h⟩
        rw [Bool.eq_false_iff]
        intro hc
        rw [List.any_eq_true] at hc
        obtain ⟨v, hv, hc⟩ := hc
        have := h v hv
        simp [this] at hc
  · have : (o.length != n.length) = true := by simp [hl]
    simp only [this, if_true]
    constructor
    · intro h; cases h
    · rintro ⟨h, _⟩; exact absurd h hl

/-! ### attribute names: matching without regard to case -/

theorem attrEq_iff (a b : Str) : attrEq a b = true ↔ lowerAscii a = lowerAscii b := by
  unfold attrEq; exact beq_iff_eq

theorem attrEq_refl (a : Str) : attrEq a a = true := (attrEq_iff a a).2 rfl

theorem attrEq_congr_right {a b : Str} (h : attrEq a b = true) (x : Str) : attrEq x a = attrEq x b := by
  have := (attrEq_iff a b).1 h
  unfold attrEq; rw [this]

theorem attrEq_comm (a b : Str) : attrEq a b = attrEq b a := by
  unfold attrEq; exact BEq.comm

def lowerC (c : Char) : Char := if 'A' ≤ c ∧ c ≤ 'Z' then Char.ofNat (c.toNat + 32) else c

theorem ofNat_ne_semi : ∀ n, n < 123 → 97 ≤ n → Char.ofNat n ≠ ';' := by decide +kernel

theorem lowerC_ne_semi (c : Char) : (lowerC c = ';') ↔ (c = ';') := by
  unfold lowerC
  by_cases h : 'A' ≤ c ∧ c ≤ 'Z'
  · simp only [h, and_self, if_true]
    have h1 : 65 ≤ c.val.toNat := by
      have := h.1; rw [Char.le_def, UInt32.le_iff_toNat_le] at this; exact this
    have h2 : c.val.toNat ≤ 90 := by
      have := h.2; rw [Char.le_def, UInt32.le_iff_toNat_le] at this; exact this
    have hc : c ≠ ';' := by
      intro e; rw [e] at h1; revert h1; decide
    have hl : Char.ofNat (c.toNat + 32) ≠ ';' := by
      apply ofNat_ne_semi
      · show c.val.toNat + 32 < 123; omega
      · show 97 ≤ c.val.toNat + 32; omega
    constructor
    · intro e; exact absurd e hl
    · intro e; exact absurd e hc
  · simp only [h, if_false]

theorem lowerAscii_plainName (k : Str) : lowerAscii (plainName k) = plainName (lowerAscii k) := by
  unfold plainName lowerAscii
  induction k with
  | nil => rfl
  | cons c r ih =>
    have hs := lowerC_ne_semi c
    unfold lowerC at hs
    by_cases hc : c = ';'
    · subst hc
      simp [List.takeWhile]
    · have hc' : ¬ (if 'A' ≤ c ∧ c ≤ 'Z' then Char.ofNat (c.toNat + 32) else c) = ';' := fun e => hc (hs.1 e)
      simp only [List.map_cons, List.takeWhile_cons, ne_eq, hc, hc', not_false_eq_true, decide_true, if_true]
      rw [← ih]

end TmVerif.Codec
