/-
  Admin objects as LDAP entries (`admin/_ldap.py`):
    `_dict_2_entry`, `_entry_2_dict`, `_empty_list_entry`, `_to_obj_list`, `_remove_empty`,
    `_group_entry_by_opt`, `_grouped_to_list_of_dict`, and `to_entry` / `from_entry` of
    `Application`, `CellAllocation`, `Partition` — all driven by the EXTRACTED `_schema` tables.

  Python values are `JVal` (a dict is an association list with unique string keys; `null` = None).
  An LDAP entry is an association list  attribute name → list of values  (`EVal`: str or bool).
  `none` results = the Python code raises (IndexError on `[][0]`, KeyError, ValueError from
  `int()`/`json.loads`) or the input is outside the modelled types (e.g. a list where a string is
  expected) — the harness never generates the latter.

  Modelling decisions (also listed in props_registry.d/C15.json):
  * `entry[ldap_field] = …` / `obj[obj_field] = …` over one schema is modelled as appending in
    schema order: the ldap names (resp. object names) of every schema are pairwise distinct
    (`SchemaWF`, decided on the extracted tables).  `dict.update` of sub-entries is `++`
    (their keys are distinct, see `Ldap*Lemmas`).
  * `_group_entry_by_opt` (sort by (option, field) + `itertools.groupby`) followed by the dict
    comprehension of `_to_dict` is modelled as: the distinct options in first-appearance order,
    each with the attributes carrying that option.  The order of the groups is not observable:
    `_grouped_to_list_of_dict` sorts its result by the rows' sorted items.
  * `from_entry(entry, dn=None)`: the dn-derived keys (`_id`, `partition`, `cell`) and the
    operational timestamps are outside the model.
  * `float(text)` (CellAllocation max_utilization): only integer literals and canonical
    `<digits>.<digits>` reprs (`pyFloat`).
-/
import TmVerif.Gen.ExtCodec
import TmVerif.Codec.Json

namespace TmVerif.Codec
open TmVerif
open TmVerif.ExtCodec (FT)

abbrev KVs := List (Str × JVal)
abbrev Schema := List (Str × Str × FT)

/-- a value of an LDAP attribute as `_dict_2_entry` writes it -/
inductive EVal
  | str (s : Str)
  | bool (b : Bool)
  deriving DecidableEq, Repr

abbrev Entry := List (Str × List EVal)

/-- `d.get(k)` / `k in d` -/
def lookup {α} (k : Str) : List (Str × α) → Option α
  | [] => none
  | (k', v) :: r => if k' = k then some v else lookup k r

/-- `d[k] = v` -/
def setKey {α} (k : Str) (v : α) : List (Str × α) → List (Str × α)
  | [] => [(k, v)]
  | (k', v') :: r => if k' = k then (k, v) :: r else (k', v') :: setKey k v r

/-- `del d[k]` (if present) -/
def delKey {α} (k : Str) (l : List (Str × α)) : List (Str × α) := l.filter (fun p => p.1 ≠ k)

def JVal.isNull : JVal → Bool
  | .null => true
  | _ => false

def ftIsList : FT → Bool
  | .listStr | .listInt => true
  | _ => false

/-! ### `_dict_2_entry` -/

def kTrue : Str := "True".toList
def kFalse : Str := "False".toList

/-- `six.text_type(v)` for scalars -/
def textOf : JVal → Option Str
  | .str s => some s
  | .int i => some (intToDec i)
  | .bool true => some kTrue
  | .bool false => some kFalse
  | .float r => some r
  | _ => none

def lowerAscii (s : Str) : Str := s.map (fun c => if 'A' ≤ c ∧ c ≤ 'Z' then Char.ofNat (c.toNat + 32) else c)

/-- `_to_bool(value)` on an object value -/
def toBoolJ : JVal → Option Bool
  | .bool b => some b
  | .int i => some (decide (i ≠ 0))
  | .str s => some (!(lowerAscii s == "0".toList || lowerAscii s == "false".toList))
  | _ => none

/-- `[six.text_type(v) for v in value if v is not None]` -/
def listTexts : List JVal → Option (List EVal)
  | [] => some []
  | v :: r =>
    if v.isNull then listTexts r
    else match textOf v, listTexts r with
      | some t, some ts => some (.str t :: ts)
      | _, _ => none

/-- sort the TOP-LEVEL keys only: `OrderedDict(sorted(value.items(), key=lambda t: t[0]))` -/
def sortTop : KVs → KVs
  | [] => []
  | (k, v) :: r => insertKV k v (sortTop r)

/-- what one schema row writes for a present value: `none` = raises / unmodelled,
    `some none` = nothing written, `some (some vals)` = `entry[field] = vals` -/
def encodeField (ft : FT) (v : JVal) : Option (Option (List EVal)) :=
  if v.isNull then some (some [])
  else match ft with
    | .listStr | .listInt =>
      match v with
      | .arr [] => some none
      | .arr l => (listTexts l).map some
      | _ => none
    | .bool => (toBoolJ v).map (fun b => some [.bool b])
    | .dict =>
      match v with
      | .obj kvs => some (some [.str (dumpVal (.obj (sortTop kvs)))])
      | _ => none
    | .str | .int => (textOf v).map (fun t => some [.str t])

def hexDigits : Nat → Nat → List Char
  | 0, _ => []
  | fuel + 1, n => if n < 16 then [hexDigitChar n] else hexDigits fuel (n / 16) ++ [hexDigitChar (n % 16)]

/-- `'{:x}'.format(n)` -/
def hexOfNat (n : Nat) : Str := hexDigits (n + 1) n

/-- `'{attribute};{option_prefix}-{option_idx:x}'` -/
def optKey (opt : Option (Str × Nat)) (lf : Str) : Str :=
  match opt with
  | none => lf
  | some (p, i) => lf ++ ';' :: (p ++ '-' :: hexOfNat i)

/-- `_dict_2_entry(obj, schema, option, option_idx)` -/
def dict2entry (sch : Schema) (opt : Option (Str × Nat)) (obj : KVs) : Option Entry :=
  match sch with
  | [] => some []
  | (lf, of, ft) :: rest =>
    match dict2entry rest opt obj with
    | none => none
    | some tail =>
      match lookup of obj with
      | none => some tail
      | some v =>
        match encodeField ft v with
        | none => none
        | some none => some tail
        | some (some vals) => some ((optKey opt lf, vals) :: tail)

/-- `_empty_list_entry(schema)`: a dict, so a repeated ldap name is kept once -/
def emptyListEntry (sch : Schema) : Entry := sch.foldl (fun acc r => setKey r.1 [] acc) []

/-- `_remove_empty(entry)` -/
def removeEmpty (e : Entry) : Entry := e.filter (fun p => !p.2.isEmpty)

/-! ### `_entry_2_dict` -/

def evalJ : EVal → JVal
  | .str s => .str s
  | .bool b => .bool b

/-- `_to_bool(value[0])` on an entry value -/
def toBoolE : EVal → Bool
  | .bool b => b
  | .str s => !(lowerAscii s == "0".toList || lowerAscii s == "false".toList)

/-- `int(v)` for an entry value -/
def intOfE : EVal → Option Int
  | .str s => decToInt s
  | .bool b => some (if b then 1 else 0)

def intsOfE : List EVal → Option (List JVal)
  | [] => some []
  | v :: r => match intOfE v, intsOfE r with
    | some i, some t => some (.int i :: t)
    | _, _ => none

/-- one schema row on a present attribute (`value = entry[ldap_field]`) -/
def decodeField (ft : FT) (vals : List EVal) : Option JVal :=
  match ft with
  | .listStr => some (.arr (vals.map evalJ))
  | .listInt => (intsOfE vals).map .arr
  | .bool => match vals with
    | v :: _ => some (.bool (toBoolE v))
    | [] => none
  | .dict => match vals with
    | .str s :: _ => jsonLoads s
    | _ => none
  | .str => match vals with
    | v :: _ => some (evalJ v)
    | [] => none
  | .int => match vals with
    | v :: _ => (intOfE v).map .int
    | [] => none

/-- `_entry_2_dict(entry, schema)` before the final `if v is not None` filter: one pair per row -/
def entry2dictRaw (sch : Schema) (entry : Entry) : Option KVs :=
  match sch with
  | [] => some []
  | (lf, of, ft) :: rest =>
    match entry2dictRaw rest entry with
    | none => none
    | some tail =>
      match lookup lf entry with
      | none => some ((of, if ftIsList ft then .arr [] else .null) :: tail)
      | some vals =>
        match decodeField ft vals with
        | some v => some ((of, v) :: tail)
        | none => none

def dropNulls (o : KVs) : KVs := o.filter (fun p => !p.2.isNull)

/-- `_entry_2_dict(entry, schema)` -/
def entry2dict (sch : Schema) (entry : Entry) : Option KVs := (entry2dictRaw sch entry).map dropNulls

/-! ### keyed lists: `_to_obj_list`, `_group_entry_by_opt`, `_grouped_to_list_of_dict` -/

/-- stable insertion sort for a strict "less than" -/
def insertBy {α} (lt : α → α → Bool) (x : α) : List α → List α
  | [] => [x]
  | y :: r => if lt y x then y :: insertBy lt x r else x :: y :: r

def isort {α} (lt : α → α → Bool) : List α → List α
  | [] => []
  | x :: r => insertBy lt x (isort lt r)

/-- `obj[key]` as a string (the keys of every keyed list are `str` fields) -/
def keyStr (key : Str) : JVal → Option Str
  | .obj kvs => match lookup key kvs with
    | some (.str s) => some s
    | _ => none
  | _ => none

def withKeys (key : Str) : List JVal → Option (List (Str × KVs))
  | [] => some []
  | o :: r => match o, keyStr key o, withKeys key r with
    | .obj kvs, some k, some t => some ((k, kvs) :: t)
    | _, _, _ => none

/-- `sorted(obj_list, key=lambda obj: obj[key])`.  A single element is never compared, so its key
    only has to exist (KeyError otherwise); two or more keys must all be strings (TypeError). -/
def sortByKey (key : Str) (objs : List JVal) : Option (List KVs) :=
  match objs with
  | [.obj kvs] => if (lookup key kvs).isSome then some [kvs] else none
  | _ => (withKeys key objs).map (fun l => (isort (fun a b => strLt a.1 b.1) l).map (·.2))

/-- the body of the `for idx, obj in enumerate(obj_iter)` loop, `entry.update(...)` as `++` -/
def encodeRows (sch : Schema) (pfx : Str) : Nat → List KVs → Option Entry
  | _, [] => some []
  | i, o :: r =>
    match dict2entry sch (some (pfx, i)) o, encodeRows sch pfx (i + 1) r with
    | some e, some t => some (e ++ t)
    | _, _ => none

/-- `_to_obj_list(obj_list, key, prefix, schema)` -/
def toObjList (objs : List JVal) (key pfx : Str) (sch : Schema) : Option Entry :=
  match sortByKey key objs with
  | none => none
  | some [] => some (emptyListEntry sch)
  | some rows => encodeRows sch pfx 0 rows

/-- `k.split(';')` for a key with exactly one ';' → (field, option) -/
def fieldOpt (k : Str) : Option (Str × Str) :=
  match splitOn ';' k with
  | [f, o] => some (f, o)
  | _ => none

def hasSemi (k : Str) : Bool := k.contains ';'

/-- distinct options (first-appearance order) that start with `pfx` -/
def optionsOf (pfx : Str) : Entry → List Str
  | [] => []
  | (k, _) :: r =>
    let rest := optionsOf pfx r
    match fieldOpt k with
    | some (_, o) => if pfx.isPrefixOf o then o :: rest.filter (· ≠ o) else rest
    | none => rest

/-- the attributes carrying option `o`, under their plain field names -/
def groupOf (o : Str) : Entry → Entry
  | [] => []
  | (k, v) :: r =>
    match fieldOpt k with
    | some (f, o') => if o' = o then (f, v) :: groupOf o r else groupOf o r
    | none => groupOf o r

/-- a key with two or more ';' whose second component has the wanted prefix makes
    `for k, _, v in values` raise (tuple of the wrong size); elsewhere it is ignored -/
def optKeysOk (pfx : Str) (e : Entry) : Bool :=
  e.all (fun p => match splitOn ';' p.1 with
    | _ :: o :: _ :: _ => !(pfx.isPrefixOf o)
    | _ => true)

/-! Python's `<` on the values that occur in keyed rows (str, int/bool, lists of them);
    other pairs never meet in a comparison (same key ⇒ same schema type). -/
mutual
  def cmpJ : JVal → JVal → Ordering
    | .str a, .str b => if strLt a b then .lt else if strLt b a then .gt else .eq
    | .int a, .int b => if a < b then .lt else if b < a then .gt else .eq
    | .bool a, .bool b => if !a && b then .lt else if a && !b then .gt else .eq
    | .arr a, .arr b => cmpList a b
    | _, _ => .eq
  def cmpList : List JVal → List JVal → Ordering
    | [], [] => .eq
    | [], _ :: _ => .lt
    | _ :: _, [] => .gt
    | a :: as, b :: bs =>
      match cmpJ a b with
      | .lt => .lt
      | .gt => .gt
      | .eq => cmpList as bs
end

def ltJ (a b : JVal) : Bool := cmpJ a b == .lt

/-- tuple comparison `(k1, v1) < (k2, v2)` then list comparison of `sorted(x.items())` -/
def ltItems : KVs → KVs → Bool
  | [], [] => false
  | [], _ :: _ => true
  | _ :: _, [] => false
  | (k, v) :: r, (k', v') :: r' =>
    if strLt k k' then true else if strLt k' k then false
    else if ltJ v v' then true else if ltJ v' v then false
    else ltItems r r'

def sortedItems (o : KVs) : KVs := isort (fun a b => strLt a.1 b.1) o

/-- `sorted(values_list, key=lambda x: sorted(list(x.items())))` -/
def sortRows (rows : List KVs) : List KVs :=
  isort (fun a b => ltItems (sortedItems a) (sortedItems b)) rows

def decodeGroups (sch : Schema) (entry : Entry) : List Str → Option (List KVs)
  | [] => some []
  | o :: r => match entry2dict sch (groupOf o entry), decodeGroups sch entry r with
    | some d, some t => some (d :: t)
    | _, _ => none

/-- `_grouped_to_list_of_dict(_group_entry_by_opt(entry), prefix, schema)` -/
def groupedToList (sch : Schema) (pfx : Str) (entry : Entry) : Option (List KVs) :=
  if optKeysOk pfx entry then (decodeGroups sch entry (optionsOf pfx entry)).map sortRows else none

def rowsJ (rows : List KVs) : JVal := .arr (rows.map .obj)

/-! ### constants -/

def S (s : String) : Str := s.toList

def pfxOf (p : Str) : Str := p ++ ['-']

/-! ### CellAllocation -/

def kAssignments := S "assignments"
def pAssign := S "tm-alloc-assignment"

/-- `float(text)` rendered as `repr`: integer literals and canonical decimals only -/
def pyFloat (s : Str) : Option Str :=
  let body := match s with
    | '-' :: r => r
    | _ => s
  match splitOn '.' body with
  | [ip] => if isDigits1 ip && (ip.length == 1 || ip.head? != some '0') && ip.length ≤ 15 then some (s ++ S ".0") else none
  | [ip, fp] =>
    if isDigits1 ip && isDigits1 fp && (ip.length == 1 || ip.head? != some '0') && ip.length ≤ 15 &&
        (fp.length == 1 || fp.getLast? != some '0') then some s else none
  | _ => none

/-- `float(obj['max_utilization'])` -/
def floatOf : JVal → Option JVal
  | .str s => (pyFloat s).map .float
  | .float r => some (.float r)
  | .int i => (pyFloat (intToDec i)).map .float
  | .bool b => some (.float (if b then S "1.0" else S "0.0"))
  | _ => none

def getList (k : Str) (o : KVs) : Option (List JVal) :=
  match lookup k o with
  | none => some []
  | some (.arr l) => some l
  | some _ => none

/-- `CellAllocation.to_entry(obj)` -/
def cellAllocToEntry (obj : KVs) : Option Entry :=
  match dict2entry ExtCodec.cellAllocSchema none obj, getList kAssignments obj with
  | some e, some l =>
    (toObjList l (S "pattern") pAssign ExtCodec.cellAllocAssignSchema).map (e ++ ·)
  | _, _ => none

def setDefault (k : Str) (v : JVal) (o : KVs) : KVs :=
  match lookup k o with
  | some _ => o
  | none => setKey k v o

/-- `CellAllocation.from_entry(entry)` (dn = None) -/
def cellAllocFromEntry (entry : Entry) : Option KVs :=
  match entry2dict ExtCodec.cellAllocSchema entry,
        groupedToList ExtCodec.cellAllocAssignSchema (pfxOf pAssign) entry with
  | some o, some rows =>
    let o := setKey kAssignments (rowsJ rows) o
    let o := setDefault (S "cpu") (.str (S "0%")) o
    let o := setDefault (S "memory") (.str (S "0G")) o
    let o := setDefault (S "disk") (.str (S "0G")) o
    let o := setDefault (S "partition") (.str ExtCodec.defaultPartition) o
    match lookup (S "max_utilization") o with
    | some v => (floatOf v).map (fun f => setKey (S "max_utilization") f o)
    | none => some o
  | _, _ => none

/-! ### Partition -/

def kLimits := S "limits"
def pLimit := S "tm-alloc-limit"

/-- `Partition.to_entry(obj)` -/
def partitionToEntry (obj : KVs) : Option Entry :=
  match dict2entry ExtCodec.partitionSchema none obj, getList kLimits obj with
  | some e, some l => (toObjList l (S "trait") pLimit ExtCodec.partitionLimitSchema).map (e ++ ·)
  | _, _ => none

/-- `Partition.from_entry(entry)` (dn = None) -/
def partitionFromEntry (entry : Entry) : Option KVs :=
  match entry2dict ExtCodec.partitionSchema entry,
        groupedToList ExtCodec.partitionLimitSchema (pfxOf pLimit) entry with
  | some o, some rows =>
    let o := setDefault (S "cpu") (.str (S "0%")) o
    let o := setDefault (S "memory") (.str (S "0G")) o
    let o := setDefault (S "disk") (.str (S "0G")) o
    some (setKey kLimits (rowsJ rows) o)
  | _, _ => none

/-! ### Application -/

def pService := S "tm-service"
def pEndpoint := S "tm-endpoint"
def pEnvvar := S "tm-envvar"
def pAffinity := S "tm-affinity"
def pVringRule := S "tm-vring-rule"

/-- `obj['ephemeral_ports'].get(k, 0)` -/
def getOr0 (k : Str) : JVal → Option JVal
  | .obj kvs => some ((lookup k kvs).getD (.int 0))
  | _ => none

/-- `self._default_svc_restart.copy(); .update(service.get('restart', {}))` -/
def restartOf (svc : KVs) : Option KVs :=
  let dflt : KVs := [(S "limit", .int ExtCodec.appDefaultRestart.1), (S "interval", .int ExtCodec.appDefaultRestart.2)]
  match lookup (S "restart") svc with
  | none => some dflt
  | some (.obj r) => some (r.foldl (fun acc p => setKey p.1 p.2 acc) dflt)
  | some _ => none

/-- the `for idx, service in enumerate(services_iter)` loop -/
def encodeServices : Nat → List KVs → Option Entry
  | _, [] => some []
  | i, s :: r =>
    match dict2entry ExtCodec.appSvcSchema (some (pService, i)) s, restartOf s, encodeServices (i + 1) r with
    | some e, some rs, some t =>
      match dict2entry ExtCodec.appSvcRestartSchema (some (pService, i)) rs with
      | some re =>
        -- service_entry.update(restart entry) as `++`: the ldap names of the two schemas differ except
        -- 'service-name', which the restart dict never carries (it has no 'name')
        some (e ++ re ++ t)
      | none => none
    | _, _, _ => none

def affinityRows : JVal → Option (List JVal)
  | .obj kvs => some (kvs.map (fun p => .obj [(S "level", .str p.1), (S "limit", p.2)]))
  | _ => none

/-- `obj['ephemeral_ports_tcp'] = obj['ephemeral_ports'].get('tcp', 0)` (and udp), then the flat schema -/
def appWithPorts (obj : KVs) : Option KVs :=
  match lookup (S "ephemeral_ports") obj with
  | some ep =>
    match getOr0 (S "tcp") ep, getOr0 (S "udp") ep with
    | some t, some u => some (setKey (S "ephemeral_ports_udp") u (setKey (S "ephemeral_ports_tcp") t obj))
    | _, _ => none
  | none => some obj

def appMainEntry (obj : KVs) : Option Entry := (appWithPorts obj).bind (dict2entry ExtCodec.appSchema none)

/-- the services block: empty-list markers of both schemas, or one option group per service -/
def appSvcEntry (obj : KVs) : Option Entry :=
  match (getList (S "services") obj).bind (sortByKey (S "name")) with
  | none => none
  | some [] => some (emptyListEntry (ExtCodec.appSvcSchema ++ ExtCodec.appSvcRestartSchema))
  | some rows => encodeServices 0 rows

def appEndpointEntry (obj : KVs) : Option Entry :=
  (getList (S "endpoints") obj).bind (fun l => toObjList l (S "name") pEndpoint ExtCodec.appEndpointSchema)

def appEnvEntry (obj : KVs) : Option Entry :=
  (getList (S "environ") obj).bind (fun l => toObjList l (S "name") pEnvvar ExtCodec.appEnvironSchema)

def appAffRows (obj : KVs) : Option (List JVal) :=
  match lookup (S "affinity_limits") obj with
  | none => some []
  | some a => affinityRows a

def appAffEntry (obj : KVs) : Option Entry :=
  (appAffRows obj).bind (fun l => toObjList l (S "level") pAffinity ExtCodec.appAffinitySchema)

/-- `vring = obj.get('vring'); if vring: …` -/
def appVringEntry (obj : KVs) : Option Entry :=
  match lookup (S "vring") obj with
  | none => some []
  | some .null => some []
  | some (.obj []) => some []
  | some (.obj vr) =>
    match dict2entry ExtCodec.appVringSchema none vr,
          (getList (S "rules") vr).bind (fun l => toObjList l (S "pattern") pVringRule ExtCodec.appVringRuleSchema) with
    | some c, some r => some (c ++ r)
    | _, _ => none
  | some _ => none

/-- `Application.to_entry(obj)`: `entry.update(...)` in this order, as `++` (the key sets are
    pairwise disjoint) -/
def appToEntry (obj : KVs) : Option Entry :=
  match appMainEntry obj, appSvcEntry obj, appEndpointEntry obj, appEnvEntry obj, appAffEntry obj, appVringEntry obj with
  | some main, some svcE, some epE, some envE, some affE, some vrE => some (main ++ svcE ++ epE ++ envE ++ affE ++ vrE)
  | _, _, _, _, _, _ => none

/-- merge `restart` into the services (`for service in services: for service_restart in …`) -/
def mergeRestart (restarts : List KVs) (svc : KVs) : Option KVs :=
  restarts.foldlM (fun s r =>
    match lookup (S "name") r, lookup (S "name") s with
    | some rn, some sn =>
      if dumpVal rn = dumpVal sn then
        match lookup (S "limit") r, lookup (S "interval") r with
        | some l, some i => some (setKey (S "restart") (.obj [(S "limit", l), (S "interval", i)]) s)
        | _, _ => none
      else some s
    | _, _ => none) svc

def moveKey (src dst : Str) (o : KVs) : KVs :=
  match lookup src o with
  | some v =>
    let ep : KVs := match lookup (S "ephemeral_ports") o with
      | some (.obj e) => e
      | _ => []
    delKey src (setKey (S "ephemeral_ports") (.obj (setKey dst v ep)) o)
  | none => o

def affinityDict (rows : List KVs) : Option KVs :=
  rows.foldlM (fun acc r =>
    match lookup (S "level") r, lookup (S "limit") r with
    | some (JVal.str lv), some lim => some (setKey lv lim acc)
    | _, _ => none) []

def JVal.truthyList : JVal → Bool
  | .arr (_ :: _) => true
  | _ => false

/-- everything `Application.from_entry` does after the eight decoding calls -/
def appFinish (o : KVs) (services restarts endpoints environ affinity vrules : List KVs) (vring : KVs) :
    Option KVs :=
  let o := setKey (S "ephemeral_ports") (.obj []) o
  let o := moveKey (S "ephemeral_ports_tcp") (S "tcp") o
  let o := moveKey (S "ephemeral_ports_udp") (S "udp") o
  match services.mapM (mergeRestart restarts), affinityDict affinity with
  | some services, some aff =>
    let vring := setKey (S "rules") (rowsJ vrules) vring
    let o := setKey (S "services") (rowsJ services) o
    let o := setKey (S "endpoints") (rowsJ endpoints) o
    let o := setKey (S "environ") (rowsJ environ) o
    let o := setKey (S "affinity_limits") (.obj aff) o
    let cellsTruthy := match lookup (S "cells") vring with
      | some c => c.truthyList
      | none => false
    some (if cellsTruthy || !vrules.isEmpty then setKey (S "vring") (.obj vring) o else o)
  | _, _ => none

/-- `Application.from_entry(entry)` (dn = None, no operational attributes) -/
def appFromEntry (entry : Entry) : Option KVs :=
  match entry2dict ExtCodec.appSchema entry,
        groupedToList ExtCodec.appSvcSchema (pfxOf pService) entry,
        groupedToList ExtCodec.appSvcRestartSchema (pfxOf pService) entry,
        groupedToList ExtCodec.appEndpointSchema (pfxOf pEndpoint) entry,
        groupedToList ExtCodec.appEnvironSchema (pfxOf pEnvvar) entry,
        groupedToList ExtCodec.appAffinitySchema (pfxOf pAffinity) entry,
        groupedToList ExtCodec.appVringRuleSchema (pfxOf pVringRule) entry,
        entry2dict ExtCodec.appVringSchema entry with
  | some o, some services, some restarts, some endpoints, some environ, some affinity, some vrules, some vring =>
    appFinish o services restarts endpoints environ affinity vrules vring
  | _, _, _, _, _, _, _, _ => none

end TmVerif.Codec
