/-
  Decimal integers as Python prints and parses them: `str(int)` / `'{}'.format(int)` and `int(str)`
  restricted to `-?\d+` (Python's `int()` also accepts surrounding blanks, '+', '_' and non-ASCII
  digits; none of these is produced by an encoder and the harness does not generate them).
-/
import TmVerif.Codec.BaseN

namespace TmVerif.Codec

/-! ### decimal integers: `str(int)` / `'{}'.format(int)` and `int(str)` on `\d+` -/

def decAlphabet : Str := "0123456789".toList

/-- `'{}'.format(n)` for a non-negative int. -/
def natToDec (n : Nat) : Str :=
  match toBaseN decAlphabet 10 n with
  | .ok s => s
  | .error _ => []      -- unreachable (`natToDec_spec`)

/-- `int(s)` for `s` matching `\d*` (Python accepts leading zeros). -/
def decToNat (s : Str) : Option Nat :=
  match fromBaseN decAlphabet 10 s with
  | .ok n => some n
  | .error _ => none

/-- `\d{lo,hi}` -/
def isDigits (lo hi : Nat) (s : Str) : Bool :=
  decide (lo ≤ s.length) && decide (s.length ≤ hi) && s.all Char.isDigit

theorem natToDec_spec (n : Nat) :
    toBaseN decAlphabet 10 n = .ok (natToDec n) ∧ decToNat (natToDec n) = some n := by
  obtain ⟨s, hs, hf⟩ := basen_roundtrip decAlphabet 10 (by decide) (by decide) (by decide) n
  have : natToDec n = s := by simp [natToDec, hs]
  rw [this]
  exact ⟨hs, by simp [decToNat, hf]⟩

theorem natToDec_isDigit (n : Nat) : ∀ c ∈ natToDec n, c.isDigit = true := by
  intro c hc
  have hm := toBaseN_mem decAlphabet 10 n (by decide) (by decide) _ (natToDec_spec n).1 c hc
  revert hm
  have : ∀ c ∈ decAlphabet, c.isDigit = true := by decide
  exact this c

theorem natToDec_length_le (n k : Nat) (hk : 1 ≤ k) (h : n < 10 ^ k) : (natToDec n).length ≤ k :=
  toBaseN_length decAlphabet 10 n k (by decide) (by decide) hk h _ (natToDec_spec n).1

theorem natToDec_ne_nil (n : Nat) : natToDec n ≠ [] := by
  intro h
  obtain ⟨s, hs, hcase⟩ := toBaseN_ok decAlphabet 10 n (by decide) (by decide)
  rw [(natToDec_spec n).1, h] at hs
  cases hs
  rcases hcase with ⟨_, h2⟩ | ⟨hn, hl⟩
  · cases h2
  · have := (natToDec_spec n).2
    rw [h] at this
    have h0 : decToNat [] = some 0 := by decide
    rw [h0] at this
    exact hn (Option.some.inj this).symm

theorem isDigits_natToDec (n k : Nat) (hk : 1 ≤ k) (h : n < 10 ^ k) : isDigits 1 k (natToDec n) = true := by
  have h1 := natToDec_length_le n k hk h
  have h2 := natToDec_ne_nil n
  have h3 : 1 ≤ (natToDec n).length := by
    cases hq : natToDec n with
    | nil => exact absurd hq h2
    | cons a b => simp
  simp only [isDigits, Bool.and_eq_true, decide_eq_true_eq, List.all_eq_true]
  exact ⟨⟨h3, h1⟩, natToDec_isDigit n⟩

theorem digit_ne (c x : Char) (hx : x.isDigit = false) (h : c.isDigit = true) : c ≠ x := by
  intro e; subst e; rw [h] at hx; cases hx

theorem isDigits_not_mem (lo hi : Nat) (s : Str) (x : Char) (hx : x.isDigit = false)
    (h : isDigits lo hi s = true) : x ∉ s := by
  simp only [isDigits, Bool.and_eq_true, List.all_eq_true] at h
  intro hm
  have := h.2 x hm
  rw [this] at hx; cases hx

/-! ### signed -/

/-- `'{}'.format(i)` -/
def intToDec : Int → Str
  | .ofNat n => natToDec n
  | .negSucc n => '-' :: natToDec (n + 1)

/-- `\d+` -/
def isDigits1 (s : Str) : Bool := !s.isEmpty && s.all Char.isDigit

/-- `int(s)` for `s` matching `-?\d+` (else `none` = ValueError) -/
def decToInt (s : Str) : Option Int :=
  match s with
  | '-' :: r => if isDigits1 r then (decToNat r).map (fun n => -(n : Int)) else none
  | _ => if isDigits1 s then (decToNat s).map Int.ofNat else none

theorem isDigits1_natToDec (n : Nat) : isDigits1 (natToDec n) = true := by
  have h2 := natToDec_ne_nil n
  simp only [isDigits1, Bool.and_eq_true, Bool.not_eq_true', List.all_eq_true]
  refine ⟨?_, natToDec_isDigit n⟩
  cases hq : natToDec n with
  | nil => exact absurd hq h2
  | cons a b => rfl

theorem natToDec_head_ne (n : Nat) (x : Char) (hx : x.isDigit = false) : ∀ r, natToDec n ≠ x :: r := by
  intro r e
  have := natToDec_isDigit n x (by rw [e]; simp)
  rw [this] at hx; cases hx

theorem decToInt_intToDec (i : Int) : decToInt (intToDec i) = some i := by
  cases i with
  | ofNat n =>
    simp only [intToDec, decToInt]
    split
    · rename_i r heq; exact absurd heq (natToDec_head_ne n '-' (by decide) r)
    · simp [isDigits1_natToDec, (natToDec_spec n).2]
  | negSucc n =>
    simp only [intToDec, decToInt, isDigits1_natToDec, ↓reduceIte, (natToDec_spec (n + 1)).2]
    congr 1

theorem intToDec_not_mem (i : Int) (x : Char) (hx : x.isDigit = false) (hm : x ≠ '-') : x ∉ intToDec i := by
  cases i with
  | ofNat n =>
    intro h
    have := natToDec_isDigit n x h
    rw [this] at hx; cases hx
  | negSucc n =>
    simp only [intToDec, List.mem_cons, not_or]
    refine ⟨hm, ?_⟩
    intro h
    have := natToDec_isDigit _ x h
    rw [this] at hx; cases hx

theorem intToDec_ne_nil (i : Int) : intToDec i ≠ [] := by
  cases i with
  | ofNat n => exact natToDec_ne_nil n
  | negSucc n => simp [intToDec]

end TmVerif.Codec
