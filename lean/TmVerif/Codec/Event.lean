/-
  Trace events (`trace/app/events.py`, `trace/server/events.py`) and the event-node name
  `<object>,<timestamp>,<source>,<type>,<data>` (`trace/app/zk.py:publish`, `zknamespace._path_trace_shard`;
  decoded by `trace/_zk.py:TraceLoop._process_events` and `trace/app/zk.py:prune_*`).

  One `Body` constructor per event class (10 app classes + 3 server classes).  A body carries the
  class-specific fields; `Body.data` is `to_data()[4]` (the `event_data` property, `None → ''`);
  `Kind.fromData` is the class's `from_data` as called through `AppTraceEvent.from_data` /
  `ServerTraceEvent.from_data` (which turns every exception into `None`).

  The timestamp travels as the text `str(time.time())` that `publish` receives (`when`); turning it
  back into a float is Python's `float(str(x)) = x` and is not modelled.
-/
import TmVerif.Gen.ExtCodec
import TmVerif.Codec.Dec

namespace TmVerif.Codec
open TmVerif

inductive Kind
  | aborted | configured | deleted | finished | killed | pending | pendingDelete | scheduled
  | serviceExited | serviceRunning
  | serverState | serverBlackout | serverBlackoutCleared
  deriving DecidableEq, Repr

def Kind.all : List Kind :=
  [.aborted, .configured, .deleted, .finished, .killed, .pending, .pendingDelete, .scheduled,
   .serviceExited, .serviceRunning, .serverState, .serverBlackout, .serverBlackoutCleared]

/-- app event (`AppTraceEventTypes`) or server event (`ServerTraceEventTypes`) -/
def Kind.isApp : Kind → Bool
  | .serverState | .serverBlackout | .serverBlackoutCleared => false
  | _ => true

/-- enum member name = `event_type` -/
def Kind.typeName : Kind → Str
  | .aborted => "aborted".toList
  | .configured => "configured".toList
  | .deleted => "deleted".toList
  | .finished => "finished".toList
  | .killed => "killed".toList
  | .pending => "pending".toList
  | .pendingDelete => "pending_delete".toList
  | .scheduled => "scheduled".toList
  | .serviceExited => "service_exited".toList
  | .serviceRunning => "service_running".toList
  | .serverState => "server_state".toList
  | .serverBlackout => "server_blackout".toList
  | .serverBlackoutCleared => "server_blackout_cleared".toList

def Kind.className : Kind → Str
  | .aborted => "AbortedTraceEvent".toList
  | .configured => "ConfiguredTraceEvent".toList
  | .deleted => "DeletedTraceEvent".toList
  | .finished => "FinishedTraceEvent".toList
  | .killed => "KilledTraceEvent".toList
  | .pending => "PendingTraceEvent".toList
  | .pendingDelete => "PendingDeleteTraceEvent".toList
  | .scheduled => "ScheduledTraceEvent".toList
  | .serviceExited => "ServiceExitedTraceEvent".toList
  | .serviceRunning => "ServiceRunningTraceEvent".toList
  | .serverState => "ServerStateTraceEvent".toList
  | .serverBlackout => "ServerBlackoutTraceEvent".toList
  | .serverBlackoutCleared => "ServerBlackoutClearedTraceEvent".toList

/-- the class's own `__slots__` (the fields the model's constructor carries) -/
def Kind.slots : Kind → List Str
  | .aborted | .pending | .pendingDelete => ["why".toList]
  | .configured => ["uniqueid".toList]
  | .deleted | .serverBlackout | .serverBlackoutCleared => []
  | .finished => ["rc".toList, "signal".toList]
  | .killed => ["is_oom".toList]
  | .scheduled => ["where".toList, "why".toList]
  | .serviceExited => ["uniqueid".toList, "service".toList, "rc".toList, "signal".toList]
  | .serviceRunning => ["uniqueid".toList, "service".toList]
  | .serverState => ["state".toList]

/-- Class-specific fields.  `Option Str` where Python passes `None` through unchanged. -/
inductive Body
  | aborted (why : Option Str)
  | configured (uniqueid : Option Str)
  | deleted
  | finished (rc signal : Int)
  | killed (isOom : Bool)
  | pending (why : Option Str)
  | pendingDelete (why : Option Str)
  | scheduled (where_ : Str) (why : Option Str)
  | serviceExited (uniqueid service : Str) (rc signal : Int)
  | serviceRunning (uniqueid service : Str)
  | serverState (state : Option Str)
  | serverBlackout
  | serverBlackoutCleared
  deriving DecidableEq, Repr

def Body.kind : Body → Kind
  | .aborted _ => .aborted
  | .configured _ => .configured
  | .deleted => .deleted
  | .finished _ _ => .finished
  | .killed _ => .killed
  | .pending _ => .pending
  | .pendingDelete _ => .pendingDelete
  | .scheduled _ _ => .scheduled
  | .serviceExited _ _ _ _ => .serviceExited
  | .serviceRunning _ _ => .serviceRunning
  | .serverState _ => .serverState
  | .serverBlackout => .serverBlackout
  | .serverBlackoutCleared => .serverBlackoutCleared

/-- `to_data`: `if event_data is None: event_data = ''` -/
def optData : Option Str → Str
  | none => []
  | some s => s

def kOom : Str := "oom".toList

/-- `to_data()[4]` -/
def Body.data : Body → Str
  | .aborted w => optData w
  | .configured u => optData u
  | .deleted => []
  | .finished rc sg => intToDec rc ++ '.' :: intToDec sg
  | .killed o => if o then kOom else []
  | .pending w => optData w
  | .pendingDelete w => optData w
  | .scheduled wh none => wh
  | .scheduled wh (some y) => wh ++ ':' :: y
  | .serviceExited u s rc sg => u ++ '.' :: (s ++ '.' :: (intToDec rc ++ '.' :: intToDec sg))
  | .serviceRunning u s => u ++ '.' :: s
  | .serverState st => optData st
  | .serverBlackout => []
  | .serverBlackoutCleared => []

/-- `<class>.from_data(event_data=d)`; `none` = an exception (→ `None` in the caller). -/
def Kind.fromData (k : Kind) (d : Str) : Option Body :=
  match k with
  | .aborted => some (.aborted (some d))
  | .configured => some (.configured (some d))
  | .deleted => some .deleted
  | .finished =>
    -- rc, signal = event_data.split('.', 2)
    match splitOn '.' d with
    | [a, b] =>
      match decToInt a, decToInt b with
      | some x, some y => some (.finished x y)
      | _, _ => none
    | _ => none
  | .killed => some (.killed (d == kOom))
  | .pending => some (.pending (some d))
  | .pendingDelete => some (.pendingDelete (some d))
  | .scheduled =>
    -- if ':' in event_data: where, why = event_data.split(':', 1) else: where, why = event_data, None
    match split1 ':' d with
    | (w, y) => some (.scheduled w y)
  | .serviceExited =>
    -- parts = split('.'); uniqueid = parts.pop(0); signal = parts.pop(); rc = parts.pop(); service = '.'.join(parts)
    match splitOn '.' d with
    | u :: rest =>
      match popLast2 rest with
      | some (mid, rc, sg) =>
        match decToInt rc, decToInt sg with
        | some x, some y => some (.serviceExited u (join '.' mid) x y)
        | _, _ => none
      | none => none
    | [] => none
  | .serviceRunning =>
    match splitOn '.' d with
    | u :: rest => some (.serviceRunning u (join '.' rest))
    | [] => none
  | .serverState => some (.serverState (some d))
  | .serverBlackout => some .serverBlackout
  | .serverBlackoutCleared => some .serverBlackoutCleared

/-- `getattr(<Enum>, event_type, None)` over the member names. -/
def kindOfType (app : Bool) (t : Str) : Option Kind :=
  Kind.all.find? (fun k => k.isApp == app && k.typeName == t)

/-- `AppTraceEvent.from_data` / `ServerTraceEvent.from_data`: unknown type → `None`. -/
def fromData (app : Bool) (t d : Str) : Option Body :=
  match kindOfType app t with
  | some k => k.fromData d
  | none => none

/-! ### event node names -/

structure Node where
  /-- instance id (app events) or server name (server events) -/
  obj : Str
  /-- `str(time.time())` at publication -/
  when_ : Str
  /-- publishing host -/
  source : Str
  body : Body
  deriving DecidableEq, Repr

/-- `'%s,%s' % (object_name, '%s,%s,%s,%s' % (when, _HOSTNAME, event_type, event_data))` -/
def encodeNode (n : Node) : Str :=
  join ',' [n.obj, n.when_, n.source, n.body.kind.typeName, n.body.data]

inductive Decoded
  | event (n : Node)
  /-- `from_data` returned `None`: unknown type or unparsable data; the reader skips the node -/
  | skipped
  /-- `a, b, c, d, e = name.split(',')` raised ValueError -/
  | unpackError
  deriving DecidableEq, Repr

def decodeNode (app : Bool) (s : Str) : Decoded :=
  match splitOn ',' s with
  | [o, w, src, t, d] =>
    match fromData app t d with
    | some b => .event ⟨o, w, src, b⟩
    | none => .skipped
  | _ => .unpackError

/-! ### well-formedness -/

/-- class-specific constraints: string fields are strings (not `None`) except `scheduled.why`;
    `where` has no ':'; `uniqueid` of the service events has no '.'. -/
def Body.wf : Body → Bool
  | .aborted w | .configured w | .pending w | .pendingDelete w | .serverState w => w.isSome
  | .scheduled wh _ => decide (':' ∉ wh)
  | .serviceExited u _ _ _ | .serviceRunning u _ => decide ('.' ∉ u)
  | _ => true

def optFree (x : Char) : Option Str → Bool
  | none => true
  | some s => decide (x ∉ s)

/-- no string field contains `x` -/
def Body.free (x : Char) : Body → Bool
  | .aborted w | .configured w | .pending w | .pendingDelete w | .serverState w => optFree x w
  | .scheduled wh y => decide (x ∉ wh) && optFree x y
  | .serviceExited u s _ _ | .serviceRunning u s => decide (x ∉ u) && decide (x ∉ s)
  | _ => true

def Node.wf (n : Node) : Bool :=
  decide (',' ∉ n.obj) && decide (',' ∉ n.when_) && decide (',' ∉ n.source) && n.body.wf && n.body.free ','

/-! ### tie to the extracted enum tables -/

theorem appEventTypes_rows : ExtCodec.appEventTypes.length = 10 ∧
    ∀ k ∈ Kind.all, k.isApp = true → (k.typeName, k.className, k.slots) ∈ ExtCodec.appEventTypes := by
  decide +kernel

theorem serverEventTypes_rows : ExtCodec.serverEventTypes.length = 3 ∧
    ∀ k ∈ Kind.all, k.isApp = false → (k.typeName, k.className, k.slots) ∈ ExtCodec.serverEventTypes := by
  decide +kernel

/-! ### lemmas -/

theorem kindOfType_typeName (k : Kind) : kindOfType k.isApp k.typeName = some k := by
  cases k <;> decide +kernel

theorem typeName_nocomma (k : Kind) : ',' ∉ k.typeName := by
  cases k <;> decide +kernel

theorem fromData_data (b : Body) (h : b.wf = true) : b.kind.fromData b.data = some b := by
  cases b with
  | aborted w => cases w <;> simp_all [Body.wf, Body.kind, Kind.fromData, Body.data, optData]
  | configured w => cases w <;> simp_all [Body.wf, Body.kind, Kind.fromData, Body.data, optData]
  | pending w => cases w <;> simp_all [Body.wf, Body.kind, Kind.fromData, Body.data, optData]
  | pendingDelete w => cases w <;> simp_all [Body.wf, Body.kind, Kind.fromData, Body.data, optData]
  | serverState w => cases w <;> simp_all [Body.wf, Body.kind, Kind.fromData, Body.data, optData]
  | deleted => rfl
  | serverBlackout => rfl
  | serverBlackoutCleared => rfl
  | killed o => cases o <;> decide
  | finished rc sg =>
    have h1 : splitOn '.' (intToDec rc ++ '.' :: intToDec sg) = [intToDec rc, intToDec sg] := by
      rw [splitOn_append_sep, splitOn_nosep _ _ (intToDec_not_mem rc '.' (by decide) (by decide)),
        splitOn_nosep _ _ (intToDec_not_mem sg '.' (by decide) (by decide))]
      rfl
    simp only [Body.kind, Kind.fromData, Body.data, h1, decToInt_intToDec]
  | scheduled wh y =>
    simp only [Body.wf, decide_eq_true_eq] at h
    cases y with
    | none => simp only [Body.kind, Kind.fromData, Body.data, split1_nosep ':' wh h]
    | some y => simp only [Body.kind, Kind.fromData, Body.data, split1_append ':' wh y h]
  | serviceRunning u s =>
    simp only [Body.wf, decide_eq_true_eq] at h
    simp only [Body.kind, Kind.fromData, Body.data, splitOn_append '.' u s h, join_splitOn]
  | serviceExited u s rc sg =>
    simp only [Body.wf, decide_eq_true_eq] at h
    have h1 : splitOn '.' (u ++ '.' :: (s ++ '.' :: (intToDec rc ++ '.' :: intToDec sg)))
        = u :: (splitOn '.' s ++ [intToDec rc, intToDec sg]) := by
      rw [splitOn_append '.' u _ h, splitOn_append_sep, splitOn_append_sep,
        splitOn_nosep _ _ (intToDec_not_mem rc '.' (by decide) (by decide)),
        splitOn_nosep _ _ (intToDec_not_mem sg '.' (by decide) (by decide))]
      rfl
    simp only [Body.kind, Kind.fromData, Body.data, h1, popLast2_append, decToInt_intToDec, join_splitOn]

theorem optFree_data (x : Char) (w : Option Str) (h : optFree x w = true) : x ∉ optData w := by
  cases w with
  | none => simp [optData]
  | some s => simpa [optFree, optData] using h

/-- a character that is in no string field, and is not one the encoder itself writes, is not in
    the event data -/
theorem data_free (x : Char) (hd : x.isDigit = false) (h1 : x ≠ '-') (h2 : x ≠ '.') (h3 : x ≠ ':')
    (h4 : x ∉ kOom) (b : Body) (h : b.free x = true) : x ∉ b.data := by
  cases b with
  | aborted w => exact optFree_data x w h
  | configured w => exact optFree_data x w h
  | pending w => exact optFree_data x w h
  | pendingDelete w => exact optFree_data x w h
  | serverState w => exact optFree_data x w h
  | deleted => simp [Body.data]
  | serverBlackout => simp [Body.data]
  | serverBlackoutCleared => simp [Body.data]
  | killed o => cases o <;> simp [Body.data, h4]
  | finished rc sg =>
    simp only [Body.data, List.mem_append, List.mem_cons, not_or]
    exact ⟨intToDec_not_mem rc x hd h1, h2, intToDec_not_mem sg x hd h1⟩
  | scheduled wh y =>
    simp only [Body.free, Bool.and_eq_true, decide_eq_true_eq] at h
    cases y with
    | none => simpa [Body.data] using h.1
    | some y =>
      simp only [Body.data, List.mem_append, List.mem_cons, not_or]
      exact ⟨h.1, h3, by simpa [optFree] using h.2⟩
  | serviceRunning u s =>
    simp only [Body.free, Bool.and_eq_true, decide_eq_true_eq] at h
    simp only [Body.data, List.mem_append, List.mem_cons, not_or]
    exact ⟨h.1, h2, h.2⟩
  | serviceExited u s rc sg =>
    simp only [Body.free, Bool.and_eq_true, decide_eq_true_eq] at h
    simp only [Body.data, List.mem_append, List.mem_cons, not_or]
    exact ⟨h.1, h2, h.2, h2, intToDec_not_mem rc x hd h1, h2, intToDec_not_mem sg x hd h1⟩

theorem fromData_typeName (b : Body) (h : b.wf = true) :
    fromData b.kind.isApp b.kind.typeName b.data = some b := by
  simp only [fromData, kindOfType_typeName, fromData_data b h]

theorem decodeNode_encodeNode (n : Node) (h : n.wf = true) :
    decodeNode n.body.kind.isApp (encodeNode n) = .event n := by
  obtain ⟨o, w, src, b⟩ := n
  simp only [Node.wf, Bool.and_eq_true, decide_eq_true_eq] at h
  obtain ⟨⟨⟨⟨ho, hw⟩, hs⟩, hb⟩, hf⟩ := h
  have hsplit : splitOn ',' (encodeNode ⟨o, w, src, b⟩) = [o, w, src, b.kind.typeName, b.data] := by
    apply splitOn_join _ _ (by simp)
    intro p hp
    simp only [List.mem_cons, List.not_mem_nil, or_false] at hp
    rcases hp with rfl | rfl | rfl | rfl | rfl
    · exact ho
    · exact hw
    · exact hs
    · exact typeName_nocomma _
    · exact data_free ',' (by decide) (by decide) (by decide) (by decide) (by decide) b hf
  simp only [decodeNode, hsplit, fromData_typeName b hb]

end TmVerif.Codec
