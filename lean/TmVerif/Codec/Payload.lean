/-
  ZooKeeper payloads: `zkutils._payload` (zkutils.py ~375) and `zkutils.get_with_metadata` (~461).

  Only Treadmill's own dispatch is modelled; Python's `json`, UTF-8 codec and YAML loader are
  PARAMETERS (`Libs`) with the stated round-trip laws as hypotheses of the theorems:

      _payload(data):   None → b'' ;  bytes → as is ;  str → data.encode() ;
                        anything else → json.dumps(data, sort_keys=True).encode()
      get_with_metadata: data is None → None ;
                        try json.loads(data.decode())            (ValueError incl. UnicodeDecodeError)
                        except: try yaml.load(data)              (YAMLError)
                                except: raise if strict else the raw bytes
-/
import TmVerif.Codec.Json

namespace TmVerif.Codec

abbrev Bytes := List UInt8

/-- The libraries Treadmill calls.  `Y` = whatever `yaml.load` returns (opaque). -/
structure Libs (Y : Type) where
  /-- `json.dumps(v, sort_keys=True)` -/
  dumps : JVal → Str
  /-- `json.loads(text)`; `none` = ValueError -/
  loads : Str → Option JVal
  /-- `str.encode()` -/
  utf8enc : Str → Bytes
  /-- `bytes.decode()`; `none` = UnicodeDecodeError (a ValueError) -/
  utf8dec : Bytes → Option Str
  /-- `yaml.load(bytes)`; `none` = YAMLError -/
  yaml : Bytes → Option Y

/-- what a caller hands to `zkutils.put/create/update` -/
inductive PyData
  | bytes (b : Bytes)
  /-- any other Python value; `JVal.null` is `None`, `JVal.str` a `str` -/
  | val (v : JVal)

/-- `zkutils._payload` -/
def payload {Y} (L : Libs Y) : PyData → Bytes
  | .bytes b => b
  | .val .null => []
  | .val (.str s) => L.utf8enc s
  | .val v => L.utf8enc (L.dumps v)

inductive Got (Y : Type)
  /-- `None` (node data is `None`) -/
  | none
  /-- result of `json.loads` -/
  | json (v : JVal)
  /-- result of the YAML fallback -/
  | yaml (y : Y)
  /-- `strict=False`: the raw bytes -/
  | raw (b : Bytes)
  /-- `strict=True`: the YAMLError propagates -/
  | error

/-- `zkutils.get_with_metadata(...)[0]` given the node data -/
def getResult {Y} (L : Libs Y) (strict : Bool) : Option Bytes → Got Y
  | .none => .none
  | .some data =>
    match (L.utf8dec data).bind L.loads with
    | some v => .json v
    | none =>
      match L.yaml data with
      | some y => .yaml y
      | none => if strict then .error else .raw data

/-- dictionaries and lists: the "resource objects" -/
def JVal.isContainer : JVal → Bool
  | .arr _ => true
  | .obj _ => true
  | _ => false

theorem payload_container {Y} (L : Libs Y) (v : JVal) (h : v.isContainer = true) :
    payload L (.val v) = L.utf8enc (L.dumps v) := by
  cases v <;> simp_all [JVal.isContainer, payload]

end TmVerif.Codec
