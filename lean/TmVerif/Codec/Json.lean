/-
  JSON values and an executable printer/parser that mirror Python's
  `json.dumps(v, sort_keys=True)` (default separators `', '`/`': '`, `ensure_ascii=True`) and
  `json.loads` on the value domain the harness generates:
    null, booleans, integers, floats as their canonical `repr` text, strings (BMP and beyond),
    lists, dictionaries with STRING keys.
  Not covered (never generated): `NaN`/`Infinity`, lone surrogates, non-string keys.

  These two functions instantiate the `Libs.dumps/loads` parameters of TmVerif.Codec.Payload in the
  driver, and model `json.dumps/json.loads` of the Partition `data` field in TmVerif.Codec.Ldap; the
  correspondence run checks them against Python's `json` on every generated value and on a malformed
  stream.  TmVerif.Codec.JsonProof proves their round trip `loads (dumps v) = some v` for every value
  without floats whose dictionary keys are strictly increasing (`canonB`).
-/
import TmVerif.Codec.Dec

namespace TmVerif.Codec

inductive JVal
  | null
  | bool (b : Bool)
  | int (i : Int)
  /-- a float, as the text Python's `repr` prints for it -/
  | float (repr : Str)
  | str (s : Str)
  | arr (l : List JVal)
  /-- a dict as an association list; canonical = keys strictly increasing (code-point order) -/
  | obj (kvs : List (Str × JVal))
  deriving Repr

/-- code-point lexicographic order: Python's `str.__lt__` -/
def strLt : Str → Str → Bool
  | [], [] => false
  | [], _ :: _ => true
  | _ :: _, [] => false
  | a :: as, b :: bs => if a.toNat < b.toNat then true else if a.toNat > b.toNat then false else strLt as bs

/-- `d[k] = v` on a key-sorted association list (replace or insert in order) -/
def insertKV (k : Str) (v : JVal) : List (Str × JVal) → List (Str × JVal)
  | [] => [(k, v)]
  | (k', v') :: rest =>
    if k = k' then (k, v) :: rest
    else if strLt k k' then (k, v) :: (k', v') :: rest
    else (k', v') :: insertKV k v rest

/-! ### printer -/

def hexDigitChar (n : Nat) : Char :=
  if n < 10 then Char.ofNat (48 + n) else Char.ofNat (87 + n)

/-- `\uXXXX` (lower-case hex) -/
def u4 (n : Nat) : Str :=
  ['\\', 'u', hexDigitChar (n / 4096 % 16), hexDigitChar (n / 256 % 16), hexDigitChar (n / 16 % 16),
   hexDigitChar (n % 16)]

/-- `json.encoder.py_encode_basestring_ascii` for one character -/
def escChar (c : Char) : Str :=
  if c = '"' then ['\\', '"']
  else if c = '\\' then ['\\', '\\']
  else if c = '\n' then ['\\', 'n']
  else if c = '\r' then ['\\', 'r']
  else if c = '\t' then ['\\', 't']
  else if c = '\x08' then ['\\', 'b']
  else if c = '\x0c' then ['\\', 'f']
  else if 32 ≤ c.toNat ∧ c.toNat ≤ 126 then [c]
  else if c.toNat < 65536 then u4 c.toNat
  else
    let n := c.toNat - 65536
    u4 (55296 + n / 1024) ++ u4 (56320 + n % 1024)

def dumpStr (s : Str) : Str := '"' :: (s.flatMap escChar ++ ['"'])

mutual
  def dumpVal : JVal → Str
    | .null => "null".toList
    | .bool true => "true".toList
    | .bool false => "false".toList
    | .int i => intToDec i
    | .float r => r
    | .str s => dumpStr s
    | .arr l => '[' :: (dumpElems l ++ [']'])
    | .obj kvs => '{' :: (dumpMembers kvs ++ ['}'])
  def dumpElems : List JVal → Str
    | [] => []
    | [v] => dumpVal v
    | v :: w :: r => dumpVal v ++ ',' :: ' ' :: dumpElems (w :: r)
  def dumpMembers : List (Str × JVal) → Str
    | [] => []
    | [(k, v)] => dumpStr k ++ ':' :: ' ' :: dumpVal v
    | (k, v) :: p :: r => dumpStr k ++ ':' :: ' ' :: dumpVal v ++ ',' :: ' ' :: dumpMembers (p :: r)
end

/-- `sort_keys=True`: the printer is applied to the key-sorted value -/
def sortKVs (f : JVal → JVal) : List (Str × JVal) → List (Str × JVal)
  | [] => []
  | (k, v) :: r => insertKV k (f v) (sortKVs f r)

mutual
  def canon : JVal → JVal
    | .arr l => .arr (canonList l)
    | .obj kvs => .obj (canonKVs kvs)
    | v => v
  def canonList : List JVal → List JVal
    | [] => []
    | v :: r => canon v :: canonList r
  def canonKVs : List (Str × JVal) → List (Str × JVal)
    | [] => []
    | (k, v) :: r => insertKV k (canon v) (canonKVs r)
end

/-- `json.dumps(v, sort_keys=True)` -/
def jsonDumps (v : JVal) : Str := dumpVal (canon v)

/-! ### parser -/

def isWs (c : Char) : Bool := c = ' ' || c = '\t' || c = '\n' || c = '\r'

def skipWs : Str → Str
  | [] => []
  | c :: r => if isWs c then skipWs r else c :: r

def hexVal? (c : Char) : Option Nat :=
  if '0' ≤ c ∧ c ≤ '9' then some (c.toNat - 48)
  else if 'a' ≤ c ∧ c ≤ 'f' then some (c.toNat - 87)
  else if 'A' ≤ c ∧ c ≤ 'F' then some (c.toNat - 55)
  else none

def hex4? (a b c d : Char) : Option Nat :=
  match hexVal? a, hexVal? b, hexVal? c, hexVal? d with
  | some x, some y, some z, some w => some (x * 4096 + y * 256 + z * 16 + w)
  | _, _, _, _ => none

/-- scanner state inside a string literal -/
inductive SMode
  | norm
  /-- just after a backslash -/
  | esc
  /-- inside `\\uXXXX`: `k` hex digits read so far, with value `v` -/
  | hex (k v : Nat)

/-- body of a string literal after the opening quote, one character per step, as UTF-16 code
    units (escapes) or code points (literal characters); returns the units and the rest after the
    closing quote.  Control characters are rejected (`strict=True`). -/
def psu : SMode → Str → List Nat → Option (List Nat × Str)
  | _, [], _ => none
  | .norm, c :: r, acc =>
    if c = '"' then some (acc.reverse, r)
    else if c = '\\' then psu .esc r acc
    else if c.toNat < 32 then none
    else psu .norm r (c.toNat :: acc)
  | .esc, e :: r, acc =>
    if e = 'u' then psu (.hex 0 0) r acc
    else if e = '"' then psu .norm r (34 :: acc)
    else if e = '\\' then psu .norm r (92 :: acc)
    else if e = '/' then psu .norm r (47 :: acc)
    else if e = 'b' then psu .norm r (8 :: acc)
    else if e = 'f' then psu .norm r (12 :: acc)
    else if e = 'n' then psu .norm r (10 :: acc)
    else if e = 'r' then psu .norm r (13 :: acc)
    else if e = 't' then psu .norm r (9 :: acc)
    else none
  | .hex k v, c :: r, acc =>
    match hexVal? c with
    | some d => if k = 3 then psu .norm r ((v * 16 + d) :: acc) else psu (.hex (k + 1) (v * 16 + d)) r acc
    | none => none

def parseStrUnits (s : Str) (acc : List Nat) : Option (List Nat × Str) := psu .norm s acc

/-- combine surrogate pairs produced by `\uD8xx\uDCxx` escapes -/
def unitsToChars : List Nat → Str
  | [] => []
  | [u] => [Char.ofNat u]
  | hi :: lo :: r =>
    if 55296 ≤ hi ∧ hi < 56320 ∧ 56320 ≤ lo ∧ lo < 57344 then
      Char.ofNat (65536 + (hi - 55296) * 1024 + (lo - 56320)) :: unitsToChars r
    else Char.ofNat hi :: unitsToChars (lo :: r)

def parseStrLit (s : Str) : Option (Str × Str) :=
  match parseStrUnits s [] with
  | some (u, r) => some (unitsToChars u, r)
  | none => none

def takeDigits : Str → Str × Str
  | [] => ([], [])
  | c :: r => if c.isDigit then
      match takeDigits r with
      | (d, rest) => (c :: d, rest)
    else ([], c :: r)

/-- `(\.\d+)?`: the matched text and the rest -/
def parseFrac (s : Str) : Str × Str :=
  match s with
  | '.' :: r =>
    let p := takeDigits r
    if p.1.isEmpty then ([], s) else ('.' :: p.1, p.2)
  | _ => ([], s)

/-- `([eE][+-]?\d+)?`: the matched text and the rest -/
def parseExp (s : Str) : Str × Str :=
  match s with
  | e :: r =>
    if e = 'e' ∨ e = 'E' then
      let sg : Str × Str := match r with
        | '+' :: q => (['+'], q)
        | '-' :: q => (['-'], q)
        | _ => ([], r)
      let p := takeDigits sg.2
      if p.1.isEmpty then ([], s) else (e :: (sg.1 ++ p.1), p.2)
    else ([], s)
  | [] => ([], s)

/-- `(0|[1-9]\d*)(\.\d+)?([eE][+-]?\d+)?` after the optional sign -/
def parseNumBody (neg : Bool) (s : Str) : Option (JVal × Str) :=
  let ip := takeDigits s
  if ip.1.isEmpty then none
  else if ip.1.length > 1 ∧ ip.1.head? = some '0' then
    -- Python's scanner matches only the leading "0"; what follows makes the document invalid
    none
  else
    let fr := parseFrac ip.2
    let ex := parseExp fr.2
    if fr.1.isEmpty ∧ ex.1.isEmpty then
      match decToNat ip.1 with
      | some n => some (.int (if neg then -(n : Int) else n), ex.2)
      | none => none
    else some (.float ((if neg then ['-'] else []) ++ ip.1 ++ fr.1 ++ ex.1), ex.2)

/-- `-?(0|[1-9]\d*)(\.\d+)?([eE][+-]?\d+)?` -/
def parseNumber (s : Str) : Option (JVal × Str) :=
  match s with
  | '-' :: r => parseNumBody true r
  | _ => parseNumBody false s

def stripPrefix (p : Str) (s : Str) : Option Str :=
  if p.isPrefixOf s then some (s.drop p.length) else none

mutual
  /-- one JSON value, leading whitespace NOT skipped -/
  def parseVal : Nat → Str → Option (JVal × Str)
    | 0, _ => none
    | _ + 1, [] => none
    | fuel + 1, c :: r =>
      if c = '"' then
        match parseStrLit r with
        | some (t, rest) => some (.str t, rest)
        | none => none
      else if c = '[' then
        match skipWs r with
        | [] => none
        | d :: r' =>
          if d = ']' then some (.arr [], r')
          else match parseElems fuel (d :: r') with
            | some (l, rest) => some (.arr l, rest)
            | none => none
      else if c = '{' then
        match skipWs r with
        | [] => none
        | d :: r' =>
          if d = '}' then some (.obj [], r')
          else match parseMembers fuel (d :: r') [] with
            | some (kvs, rest) => some (.obj kvs, rest)
            | none => none
      else if c = 'n' then (stripPrefix "null".toList (c :: r)).map (fun x => (.null, x))
      else if c = 't' then (stripPrefix "true".toList (c :: r)).map (fun x => (.bool true, x))
      else if c = 'f' then (stripPrefix "false".toList (c :: r)).map (fun x => (.bool false, x))
      else parseNumber (c :: r)
  /-- `value (ws , ws value)* ws ]`, input positioned at the first value -/
  def parseElems : Nat → Str → Option (List JVal × Str)
    | 0, _ => none
    | fuel + 1, s =>
      match parseVal fuel s with
      | some (v, r) =>
        match skipWs r with
        | [] => none
        | d :: r' =>
          if d = ',' then
            match parseElems fuel (skipWs r') with
            | some (l, rest) => some (v :: l, rest)
            | none => none
          else if d = ']' then some ([v], r')
          else none
      | none => none
  /-- `"key" ws : ws value (ws , ws "key" …)* ws }`, input positioned at the first key -/
  def parseMembers : Nat → Str → List (Str × JVal) → Option (List (Str × JVal) × Str)
    | 0, _, _ => none
    | _ + 1, [], _ => none
    | fuel + 1, q :: r, acc =>
      if q = '"' then
        match parseStrLit r with
        | some (k, r1) =>
          match skipWs r1 with
          | [] => none
          | c :: r2 =>
            if c = ':' then
              match parseVal fuel (skipWs r2) with
              | some (v, r3) =>
                match skipWs r3 with
                | [] => none
                | d :: r4 =>
                  if d = ',' then parseMembers fuel (skipWs r4) (insertKV k v acc)
                  else if d = '}' then some (insertKV k v acc, r4)
                  else none
              | none => none
            else none
        | none => none
      else none
end

/-- `json.loads(text)`: `none` = ValueError.  Fuel = length + 1 is never exhausted (every
    recursive call consumes at least one character). -/
def jsonLoads (s : Str) : Option JVal :=
  match parseVal (s.length + 1) (skipWs s) with
  | some (v, rest) => if (skipWs rest).isEmpty then some v else none
  | none => none

end TmVerif.Codec
