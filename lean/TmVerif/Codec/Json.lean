/-
  JSON values and an executable printer/parser that mirror Python's
  `json.dumps(v, sort_keys=True)` (default separators `', '`/`': '`, `ensure_ascii=True`) and
  `json.loads` on the value domain the harness generates:
    null, booleans, integers, floats as their canonical `repr` text, strings (BMP and beyond),
    lists, dictionaries with STRING keys.
  Not covered (never generated): `NaN`/`Infinity`, lone surrogates, non-string keys.

  These two functions instantiate the `Libs.dumps/loads` parameters of TmVerif.Codec.Payload in the
  driver, and model `json.dumps/json.loads` of the Partition `data` field in TmVerif.Codec.Ldap; the
  correspondence run checks them against Python's `json` on every generated value and on a malformed
  stream.  Their round trip `loads (dumps v) = some v` is NOT proved here: the payload theorems take
  it as the hypothesis about the library, the LDAP theorems as `DictOK` for the one dict-typed field.
-/
import TmVerif.Codec.Dec

namespace TmVerif.Codec

inductive JVal
  | null
  | bool (b : Bool)
  | int (i : Int)
  /-- a float, as the text Python's `repr` prints for it -/
  | float (repr : Str)
  | str (s : Str)
  | arr (l : List JVal)
  /-- a dict as an association list; canonical = keys strictly increasing (code-point order) -/
  | obj (kvs : List (Str × JVal))
  deriving Repr

/-- code-point lexicographic order: Python's `str.__lt__` -/
def strLt : Str → Str → Bool
  | [], [] => false
  | [], _ :: _ => true
  | _ :: _, [] => false
  | a :: as, b :: bs => if a.toNat < b.toNat then true else if a.toNat > b.toNat then false else strLt as bs

/-- `d[k] = v` on a key-sorted association list (replace or insert in order) -/
def insertKV (k : Str) (v : JVal) : List (Str × JVal) → List (Str × JVal)
  | [] => [(k, v)]
  | (k', v') :: rest =>
    if k = k' then (k, v) :: rest
    else if strLt k k' then (k, v) :: (k', v') :: rest
    else (k', v') :: insertKV k v rest

/-! ### printer -/

def hexDigitChar (n : Nat) : Char :=
  if n < 10 then Char.ofNat (48 + n) else Char.ofNat (87 + n)

/-- `\uXXXX` (lower-case hex) -/
def u4 (n : Nat) : Str :=
  ['\\', 'u', hexDigitChar (n / 4096 % 16), hexDigitChar (n / 256 % 16), hexDigitChar (n / 16 % 16),
   hexDigitChar (n % 16)]

/-- `json.encoder.py_encode_basestring_ascii` for one character -/
def escChar (c : Char) : Str :=
  if c = '"' then ['\\', '"']
  else if c = '\\' then ['\\', '\\']
  else if c = '\n' then ['\\', 'n']
  else if c = '\r' then ['\\', 'r']
  else if c = '\t' then ['\\', 't']
  else if c = '\x08' then ['\\', 'b']
  else if c = '\x0c' then ['\\', 'f']
  else if 32 ≤ c.toNat ∧ c.toNat ≤ 126 then [c]
  else if c.toNat < 65536 then u4 c.toNat
  else
    let n := c.toNat - 65536
    u4 (55296 + n / 1024) ++ u4 (56320 + n % 1024)

def dumpStr (s : Str) : Str := '"' :: (s.flatMap escChar ++ ['"'])

mutual
  def dumpVal : JVal → Str
    | .null => "null".toList
    | .bool true => "true".toList
    | .bool false => "false".toList
    | .int i => intToDec i
    | .float r => r
    | .str s => dumpStr s
    | .arr l => '[' :: (dumpElems l ++ [']'])
    | .obj kvs => '{' :: (dumpMembers kvs ++ ['}'])
  def dumpElems : List JVal → Str
    | [] => []
    | [v] => dumpVal v
    | v :: w :: r => dumpVal v ++ ',' :: ' ' :: dumpElems (w :: r)
  def dumpMembers : List (Str × JVal) → Str
    | [] => []
    | [(k, v)] => dumpStr k ++ ':' :: ' ' :: dumpVal v
    | (k, v) :: p :: r => dumpStr k ++ ':' :: ' ' :: dumpVal v ++ ',' :: ' ' :: dumpMembers (p :: r)
end

/-- `sort_keys=True`: the printer is applied to the key-sorted value -/
def sortKVs (f : JVal → JVal) : List (Str × JVal) → List (Str × JVal)
  | [] => []
  | (k, v) :: r => insertKV k (f v) (sortKVs f r)

mutual
  def canon : JVal → JVal
    | .arr l => .arr (canonList l)
    | .obj kvs => .obj (canonKVs kvs)
    | v => v
  def canonList : List JVal → List JVal
    | [] => []
    | v :: r => canon v :: canonList r
  def canonKVs : List (Str × JVal) → List (Str × JVal)
    | [] => []
    | (k, v) :: r => insertKV k (canon v) (canonKVs r)
end

/-- `json.dumps(v, sort_keys=True)` -/
def jsonDumps (v : JVal) : Str := dumpVal (canon v)

/-! ### parser -/

def isWs (c : Char) : Bool := c = ' ' || c = '\t' || c = '\n' || c = '\r'

def skipWs : Str → Str
  | [] => []
  | c :: r => if isWs c then skipWs r else c :: r

def hexVal? (c : Char) : Option Nat :=
  if '0' ≤ c ∧ c ≤ '9' then some (c.toNat - 48)
  else if 'a' ≤ c ∧ c ≤ 'f' then some (c.toNat - 87)
  else if 'A' ≤ c ∧ c ≤ 'F' then some (c.toNat - 55)
  else none

def hex4? (a b c d : Char) : Option Nat :=
  match hexVal? a, hexVal? b, hexVal? c, hexVal? d with
  | some x, some y, some z, some w => some (x * 4096 + y * 256 + z * 16 + w)
  | _, _, _, _ => none

/-- body of a string literal after the opening quote, as UTF-16 code units (escapes) or code
    points (literal characters); returns the units (reversed accumulator) and the rest after the
    closing quote.  Control characters are rejected (`strict=True`). -/
def parseStrUnits : Str → List Nat → Option (List Nat × Str)
  | [], _ => none
  | '"' :: r, acc => some (acc.reverse, r)
  | '\\' :: 'u' :: a :: b :: c :: d :: r, acc =>
    match hex4? a b c d with
    | some n => parseStrUnits r (n :: acc)
    | none => none
  | '\\' :: e :: r, acc =>
    if e = '"' then parseStrUnits r (34 :: acc)
    else if e = '\\' then parseStrUnits r (92 :: acc)
    else if e = '/' then parseStrUnits r (47 :: acc)
    else if e = 'b' then parseStrUnits r (8 :: acc)
    else if e = 'f' then parseStrUnits r (12 :: acc)
    else if e = 'n' then parseStrUnits r (10 :: acc)
    else if e = 'r' then parseStrUnits r (13 :: acc)
    else if e = 't' then parseStrUnits r (9 :: acc)
    else none
  | ['\\'], _ => none
  | c :: r, acc => if c.toNat < 32 then none else parseStrUnits r (c.toNat :: acc)

/-- combine surrogate pairs produced by `\uD8xx\uDCxx` escapes -/
def unitsToChars : List Nat → Str
  | [] => []
  | [u] => [Char.ofNat u]
  | hi :: lo :: r =>
    if 55296 ≤ hi ∧ hi < 56320 ∧ 56320 ≤ lo ∧ lo < 57344 then
      Char.ofNat (65536 + (hi - 55296) * 1024 + (lo - 56320)) :: unitsToChars r
    else Char.ofNat hi :: unitsToChars (lo :: r)

def parseStrLit (s : Str) : Option (Str × Str) :=
  match parseStrUnits s [] with
  | some (u, r) => some (unitsToChars u, r)
  | none => none

def takeDigits : Str → Str × Str
  | [] => ([], [])
  | c :: r => if c.isDigit then
      match takeDigits r with
      | (d, rest) => (c :: d, rest)
    else ([], c :: r)

/-- `-?(0|[1-9]\d*)(\.\d+)?([eE][+-]?\d+)?` -/
def parseNumber (s : Str) : Option (JVal × Str) :=
  let (neg, s1) := match s with
    | '-' :: r => (true, r)
    | _ => (false, s)
  let (ip, s2) := takeDigits s1
  if ip.isEmpty then none
  else if ip.length > 1 ∧ ip.head? = some '0' then
    -- Python's scanner matches only the leading "0"; what follows makes the document invalid
    none
  else
    let (frac, s3) := match s2 with
      | '.' :: r =>
        let (fp, r') := takeDigits r
        if fp.isEmpty then ([], s2) else ('.' :: fp, r')
      | _ => ([], s2)
    let (ex, s4) := match s3 with
      | e :: r =>
        if e = 'e' ∨ e = 'E' then
          let (sg, r1) := match r with
            | '+' :: q => (['+'], q)
            | '-' :: q => (['-'], q)
            | _ => ([], r)
          let (ep, r2) := takeDigits r1
          if ep.isEmpty then ([], s3) else (e :: (sg ++ ep), r2)
        else ([], s3)
      | [] => ([], s3)
    if frac.isEmpty ∧ ex.isEmpty then
      match decToNat ip with
      | some n => some (.int (if neg then -(n : Int) else n), s4)
      | none => none
    else some (.float ((if neg then ['-'] else []) ++ ip ++ frac ++ ex), s4)

def stripPrefix (p : Str) (s : Str) : Option Str :=
  if p.isPrefixOf s then some (s.drop p.length) else none

mutual
  /-- one JSON value, leading whitespace NOT skipped -/
  def parseVal : Nat → Str → Option (JVal × Str)
    | 0, _ => none
    | fuel + 1, s =>
      match s with
      | '"' :: r =>
        match parseStrLit r with
        | some (t, rest) => some (.str t, rest)
        | none => none
      | '[' :: r =>
        match skipWs r with
        | ']' :: rest => some (.arr [], rest)
        | r' =>
          match parseElems fuel r' with
          | some (l, rest) => some (.arr l, rest)
          | none => none
      | '{' :: r =>
        match skipWs r with
        | '}' :: rest => some (.obj [], rest)
        | r' =>
          match parseMembers fuel r' [] with
          | some (kvs, rest) => some (.obj kvs, rest)
          | none => none
      | 'n' :: _ => (stripPrefix "null".toList s).map (fun r => (.null, r))
      | 't' :: _ => (stripPrefix "true".toList s).map (fun r => (.bool true, r))
      | 'f' :: _ => (stripPrefix "false".toList s).map (fun r => (.bool false, r))
      | _ => parseNumber s
  /-- `value (ws , ws value)* ws ]`, input positioned at the first value -/
  def parseElems : Nat → Str → Option (List JVal × Str)
    | 0, _ => none
    | fuel + 1, s =>
      match parseVal fuel s with
      | some (v, r) =>
        match skipWs r with
        | ',' :: r' =>
          match parseElems fuel (skipWs r') with
          | some (l, rest) => some (v :: l, rest)
          | none => none
        | ']' :: rest => some ([v], rest)
        | _ => none
      | none => none
  /-- `"key" ws : ws value (ws , ws "key" …)* ws }`, input positioned at the first key -/
  def parseMembers : Nat → Str → List (Str × JVal) → Option (List (Str × JVal) × Str)
    | 0, _, _ => none
    | fuel + 1, s, acc =>
      match s with
      | '"' :: r =>
        match parseStrLit r with
        | some (k, r1) =>
          match skipWs r1 with
          | ':' :: r2 =>
            match parseVal fuel (skipWs r2) with
            | some (v, r3) =>
              match skipWs r3 with
              | ',' :: r4 => parseMembers fuel (skipWs r4) (insertKV k v acc)
              | '}' :: rest => some (insertKV k v acc, rest)
              | _ => none
            | none => none
          | _ => none
        | none => none
      | _ => none
end

/-- `json.loads(text)`: `none` = ValueError.  Fuel = length + 1 is never exhausted (every
    recursive call consumes at least one character). -/
def jsonLoads (s : Str) : Option JVal :=
  match parseVal (s.length + 1) (skipWs s) with
  | some (v, rest) => if (skipWs rest).isEmpty then some v else none
  | none => none

end TmVerif.Codec
