/-
  Lemmas for the schema-driven LDAP codec, level 3: whole objects
  (`CellAllocation` and `Partition`: one flat schema plus one keyed list).
-/
import TmVerif.Codec.LdapKeyed

namespace TmVerif.Codec
open TmVerif
open TmVerif.ExtCodec (FT)

theorem optKeysOk_plain (pfx : Str) (e : Entry) (h : PlainOK e) : optKeysOk pfx e = true := by
  simp only [optKeysOk, List.all_eq_true]
  intro p hp
  simp only [splitOn_nosep ';' p.1 (h p hp)]

theorem dict2entry_plain (sch : Schema) (hwf : SchemaWF sch) (obj : KVs) (e : Entry)
    (h : dict2entry sch none obj = some e) : PlainOK e := by
  intro p hp
  obtain ⟨r, hr, eq⟩ := dict2entry_keys sch none obj e h p hp
  simp only [optKey] at eq
  rw [eq]
  exact hwf.2.2 r hr

theorem mem_render_semi (blocks : List (Str × Entry)) : ∀ p ∈ render blocks, ';' ∈ p.1 := by
  induction blocks with
  | nil => intro p hp; cases hp
  | cons b r ih =>
    intro p hp
    simp only [render, List.mem_append] at hp
    rcases hp with h | h
    · obtain ⟨q, _, e⟩ := List.mem_map.mp h
      rw [← e]
      simp [suffixKey]
    · exact ih p h

/-- every stored attribute of a keyed list carries an option -/
theorem toObjList_stored_keys (sch : Schema) (key pfx : Str) (objs : List JVal) (rows : List KVs)
    (hs : sortByKey key objs = some rows) (hr : ∀ row ∈ rows, ObjWF sch row) (E : Entry)
    (hE : toObjList objs key pfx sch = some E) : ∀ p ∈ removeEmpty E, ';' ∈ p.1 := by
  cases rows with
  | nil =>
    simp only [toObjList, hs, Option.some.injEq] at hE
    subst hE
    rw [removeEmpty_emptyListEntry sch]
    intro p hp; cases hp
  | cons row r =>
    obtain ⟨E', hE', hEr⟩ := encodeRows_render sch pfx (row :: r) hr 0
    simp only [toObjList, hs, hE'] at hE
    cases hE
    rw [hEr]
    exact mem_render_semi _

theorem lookup_none_of_semi (k : Str) (hk : ';' ∉ k) (X : Entry) (hX : ∀ p ∈ X, ';' ∈ p.1) :
    lookup k X = none :=
  lookup_eq_none_of_not_mem k X (fun p hp e => hk (e ▸ hX p hp))

/-- **One flat schema plus one keyed list**: the shape of `CellAllocation` and `Partition`. -/
theorem main_plus_keyed (S KS : Schema) (hS : SchemaWF S) (hKS : SchemaWF KS) (key pfx : Str)
    (hk : KeyRow KS key) (hp : ';' ∉ pfx) (obj : KVs) (ho : ObjWF S obj)
    (objs : List JVal) (rows : List KVs) (hs : sortByKey key objs = some rows)
    (hr : ∀ row ∈ rows, RowOK KS key row) :
    ∃ e E, dict2entry S none obj = some e ∧ toObjList objs key pfx KS = some E ∧
      entry2dict S (removeEmpty (e ++ E)) = some (normalise S obj) ∧
      groupedToList KS (pfxOf pfx) (removeEmpty (e ++ E)) = some (sortRows (rows.map (normalise KS))) := by
  obtain ⟨e, he⟩ := dict2entry_some S none obj ho
  have hpl := dict2entry_plain S hS obj e he
  obtain ⟨E, hE, hg, _⟩ := keyed_roundtrip KS hKS key pfx hk hp objs rows hs hr e []
    (NoPfx_of_plain _ _ hpl) (by intro p hp'; cases hp') (optKeysOk_plain _ _ hpl) (by simp [optKeysOk])
  refine ⟨e, E, he, hE, ?_, ?_⟩
  · apply entry2dict_of_lookup S _ obj ho
    intro r hr'
    rw [removeEmpty_append, lookup_append, lookup_stored S hS.1 obj e he r hr']
    have hX := toObjList_stored_keys KS key pfx objs rows hs (fun x hx => (hr x hx).1) E hE
    rw [lookup_none_of_semi r.1 (hS.2.2 r hr') _ hX]
    cases (lookup r.2.1 obj).bind (stored r.2.2) <;> rfl
  · have : removeEmpty ([] : Entry) = [] := rfl
    rw [this, List.append_nil] at hg
    rw [removeEmpty_append]
    exact hg

/-! ### the extracted schemas are well-formed -/

theorem cellAllocSchema_wf : SchemaWF ExtCodec.cellAllocSchema := by decide +kernel
theorem cellAllocAssignSchema_wf : SchemaWF ExtCodec.cellAllocAssignSchema := by decide +kernel
theorem partitionSchema_wf : SchemaWF ExtCodec.partitionSchema := by decide +kernel
theorem partitionLimitSchema_wf : SchemaWF ExtCodec.partitionLimitSchema := by decide +kernel
theorem appSchema_wf : SchemaWF ExtCodec.appSchema := by decide +kernel
theorem appSvcSchema_wf : SchemaWF ExtCodec.appSvcSchema := by decide +kernel
theorem appSvcRestartSchema_wf : SchemaWF ExtCodec.appSvcRestartSchema := by decide +kernel
theorem appEndpointSchema_wf : SchemaWF ExtCodec.appEndpointSchema := by decide +kernel
theorem appEnvironSchema_wf : SchemaWF ExtCodec.appEnvironSchema := by decide +kernel
theorem appAffinitySchema_wf : SchemaWF ExtCodec.appAffinitySchema := by decide +kernel
theorem appVringSchema_wf : SchemaWF ExtCodec.appVringSchema := by decide +kernel
theorem appVringRuleSchema_wf : SchemaWF ExtCodec.appVringRuleSchema := by decide +kernel

theorem assign_keyrow : KeyRow ExtCodec.cellAllocAssignSchema (S "pattern") := ⟨S "pattern", by decide +kernel⟩
theorem limit_keyrow : KeyRow ExtCodec.partitionLimitSchema (S "trait") :=
  ⟨S "allocation-limit-trait", by decide +kernel⟩

/-! ### CellAllocation -/

/-- the keyed list an object carries under `k` (absent = empty) -/
def keyedRows (k key : Str) (obj : KVs) : Option (List KVs) := (getList k obj).bind (sortByKey key)

/-- `CellAllocation.from_entry`'s post-processing of the decoded parts -/
def cellAllocFinish (o : KVs) (rows : List KVs) : Option KVs :=
  let o := setKey kAssignments (rowsJ rows) o
  let o := setDefault (S "cpu") (.str (S "0%")) o
  let o := setDefault (S "memory") (.str (S "0G")) o
  let o := setDefault (S "disk") (.str (S "0G")) o
  let o := setDefault (S "partition") (.str ExtCodec.defaultPartition) o
  match lookup (S "max_utilization") o with
  | some v => (floatOf v).map (fun f => setKey (S "max_utilization") f o)
  | none => some o

/-- normal form of a cell allocation: flat fields normalised, assignments normalised and sorted,
    defaults filled, `max_utilization` a float -/
def normaliseCellAlloc (obj : KVs) (rows : List KVs) : Option KVs :=
  cellAllocFinish (normalise ExtCodec.cellAllocSchema obj)
    (sortRows (rows.map (normalise ExtCodec.cellAllocAssignSchema)))

theorem cellAlloc_roundtrip (obj : KVs) (ho : ObjWF ExtCodec.cellAllocSchema obj)
    (objs : List JVal) (hl : getList kAssignments obj = some objs)
    (rows : List KVs) (hs : sortByKey (S "pattern") objs = some rows)
    (hr : ∀ row ∈ rows, RowOK ExtCodec.cellAllocAssignSchema (S "pattern") row) :
    ∃ E, cellAllocToEntry obj = some E ∧
      cellAllocFromEntry (removeEmpty E) = normaliseCellAlloc obj rows := by
  obtain ⟨e, E, he, hE, h1, h2⟩ := main_plus_keyed ExtCodec.cellAllocSchema ExtCodec.cellAllocAssignSchema
    cellAllocSchema_wf cellAllocAssignSchema_wf (S "pattern") pAssign assign_keyrow (by decide) obj ho objs rows hs hr
  refine ⟨e ++ E, by simp [cellAllocToEntry, he, hl, hE], ?_⟩
  simp only [cellAllocFromEntry, h1, h2]
  rfl

/-! ### Partition -/

def partitionFinish (o : KVs) (rows : List KVs) : KVs :=
  let o := setDefault (S "cpu") (.str (S "0%")) o
  let o := setDefault (S "memory") (.str (S "0G")) o
  let o := setDefault (S "disk") (.str (S "0G")) o
  setKey kLimits (rowsJ rows) o

def normalisePartition (obj : KVs) (rows : List KVs) : KVs :=
  partitionFinish (normalise ExtCodec.partitionSchema obj)
    (sortRows (rows.map (normalise ExtCodec.partitionLimitSchema)))

theorem partition_roundtrip (obj : KVs) (ho : ObjWF ExtCodec.partitionSchema obj)
    (objs : List JVal) (hl : getList kLimits obj = some objs)
    (rows : List KVs) (hs : sortByKey (S "trait") objs = some rows)
    (hr : ∀ row ∈ rows, RowOK ExtCodec.partitionLimitSchema (S "trait") row) :
    ∃ E, partitionToEntry obj = some E ∧
      partitionFromEntry (removeEmpty E) = some (normalisePartition obj rows) := by
  obtain ⟨e, E, he, hE, h1, h2⟩ := main_plus_keyed ExtCodec.partitionSchema ExtCodec.partitionLimitSchema
    partitionSchema_wf partitionLimitSchema_wf (S "trait") pLimit limit_keyrow (by decide) obj ho objs rows hs hr
  refine ⟨e ++ E, by simp [partitionToEntry, he, hl, hE], ?_⟩
  simp only [partitionFromEntry, h1, h2]
  rfl

end TmVerif.Codec
