/-
  Lemmas for the schema-driven LDAP codec, level 3b: `Application`
  (one flat schema, five keyed lists under five prefixes — the services carrying two schemas —
  and the nested `vring`).
-/
import TmVerif.Base.ListX
import TmVerif.Codec.LdapObjects

namespace TmVerif.Codec
open TmVerif
open TmVerif.ExtCodec (FT)

/-! ### generic: several keyed lists in one entry -/

def decodeBlocks (KS : Schema) : List (Str × Entry) → Option (List KVs)
  | [] => some []
  | b :: r => match entry2dict KS b.2, decodeBlocks KS r with
    | some d, some t => some (d :: t)
    | _, _ => none

theorem decodeGroups_of_groups (KS : Schema) (entry : Entry) (blocks : List (Str × Entry))
    (hg : ∀ b ∈ blocks, groupOf b.1 entry = b.2) :
    decodeGroups KS entry (blocks.map (·.1)) = decodeBlocks KS blocks := by
  induction blocks with
  | nil => rfl
  | cons b r ih =>
    simp only [List.map_cons, decodeGroups, decodeBlocks]
    rw [hg b (by simp), ih (fun x hx => hg x (List.mem_cons_of_mem _ hx))]
    cases entry2dict KS b.2 <;> cases decodeBlocks KS r <;> rfl

/-- `X` neither carries an option of this prefix nor breaks the tuple unpacking for it -/
def Quiet (pfx : Str) (X : Entry) : Prop := NoPfx pfx X ∧ optKeysOk pfx X = true

theorem Quiet.nil (pfx : Str) : Quiet pfx [] := ⟨(by intro p hp; cases hp), rfl⟩

theorem Quiet.append {pfx : Str} {X Y : Entry} (hx : Quiet pfx X) (hy : Quiet pfx Y) : Quiet pfx (X ++ Y) :=
  ⟨NoPfx_append hx.1 hy.1, by
    have h1 := hx.2
    have h2 := hy.2
    simp only [optKeysOk, List.all_append, Bool.and_eq_true] at h1 h2 ⊢
    exact ⟨h1, h2⟩⟩

theorem Quiet.plain (pfx : Str) (X : Entry) (h : PlainOK X) : Quiet pfx X :=
  ⟨NoPfx_of_plain pfx X h, optKeysOk_plain pfx X h⟩

theorem optKeysOk_render (pfx : Str) (blocks : List (Str × Entry))
    (hpl : ∀ b ∈ blocks, PlainOK b.2 ∧ ';' ∉ b.1) : optKeysOk pfx (render blocks) = true := by
  simp only [optKeysOk, List.all_eq_true]
  intro p hp
  have : ∃ f o, ';' ∉ f ∧ ';' ∉ o ∧ p.1 = suffixKey o f := by
    induction blocks with
    | nil => cases hp
    | cons c t iht =>
      simp only [render, List.mem_append] at hp
      rcases hp with h | h
      · obtain ⟨q, hq, e⟩ := List.mem_map.mp h
        exact ⟨q.1, c.1, (hpl c (by simp)).1 q hq, (hpl c (by simp)).2, by rw [← e]⟩
      · exact iht (fun x hx => hpl x (List.mem_cons_of_mem _ hx)) h
  obtain ⟨f, o, hf, ho, e⟩ := this
  rw [e]
  simp only [suffixKey, splitOn_append ';' f o hf, splitOn_nosep ';' o ho]

theorem isPrefixOf_append_false (a b t : Str) (h1 : a.isPrefixOf b = false) (h2 : b.isPrefixOf a = false) :
    a.isPrefixOf (b ++ t) = false := by
  induction a generalizing b with
  | nil => simp at h1
  | cons x xs ih =>
    cases b with
    | nil => simp at h2
    | cons y ys =>
      simp only [List.cons_append, List.isPrefixOf_cons_cons, Bool.and_eq_false_iff] at h1 h2 ⊢
      by_cases e : x = y
      · subst e
        right
        apply ih ys
        · rcases h1 with h | h
          · simp at h
          · exact h
        · rcases h2 with h | h
          · simp at h
          · exact h
      · left; simpa using e

/-- a rendered keyed list of ANOTHER prefix is quiet -/
theorem Quiet.render_other (p p' : Str) (blocks : List (Str × Entry))
    (hpl : ∀ b ∈ blocks, PlainOK b.2 ∧ ';' ∉ b.1) (hopt : ∀ b ∈ blocks, ∃ i, b.1 = optStr p' i)
    (h1 : (pfxOf p).isPrefixOf (pfxOf p') = false) (h2 : (pfxOf p').isPrefixOf (pfxOf p) = false) :
    Quiet (pfxOf p) (render blocks) := by
  refine ⟨?_, optKeysOk_render _ _ hpl⟩
  intro q hq f o e
  induction blocks with
  | nil => cases hq
  | cons c t iht =>
    simp only [render, List.mem_append] at hq
    rcases hq with h | h
    · obtain ⟨r, hr, er⟩ := List.mem_map.mp h
      obtain ⟨hcp, hco⟩ := hpl c (by simp)
      rw [← er] at e
      rw [fieldOpt_suffixKey c.1 r.1 (hcp r hr) hco] at e
      cases e
      obtain ⟨i, hi⟩ := hopt c (by simp)
      rw [hi]
      have : optStr p' i = pfxOf p' ++ hexOfNat i := by simp [optStr, pfxOf]
      rw [this]
      exact isPrefixOf_append_false _ _ _ h1 h2
    · exact iht (fun x hx => hpl x (List.mem_cons_of_mem _ hx)) (fun x hx => hopt x (List.mem_cons_of_mem _ hx)) h

/-- **Reading one keyed list out of an entry with arbitrary quiet neighbours.** -/
theorem grouped_of_blocks (KS : Schema) (pfx : Str) (blocks : List (Str × Entry))
    (hb : BlocksOK (pfxOf pfx) blocks) (A C : Entry) (hA : Quiet (pfxOf pfx) A) (hC : Quiet (pfxOf pfx) C) :
    groupedToList KS (pfxOf pfx) (A ++ (render blocks ++ C)) = (decodeBlocks KS blocks).map sortRows := by
  have hopts : optionsOf (pfxOf pfx) (A ++ (render blocks ++ C)) = blocks.map (·.1) := by
    rw [optionsOf_noPfx _ _ _ hA.1]
    exact optionsOf_render _ _ _ hb hC.1
  have hgroups : ∀ b ∈ blocks, groupOf b.1 (A ++ (render blocks ++ C)) = b.2 := by
    intro b hb'
    have hpre := (hb.opt b hb').2
    simp only [groupOf_append, groupOf_noPfx _ _ _ hA.1 hpre, groupOf_noPfx _ _ _ hC.1 hpre,
      groupOf_render _ _ hb b hb', List.nil_append, List.append_nil]
  have hok : optKeysOk (pfxOf pfx) (A ++ (render blocks ++ C)) = true := by
    have h1 := hA.2
    have h2 := hC.2
    have h3 := optKeysOk_render (pfxOf pfx) blocks (fun b hb' => ⟨(hb.plain b hb').1, (hb.opt b hb').1⟩)
    simp only [optKeysOk, List.all_append, Bool.and_eq_true] at h1 h2 h3 ⊢
    exact ⟨h1, h3, h2⟩
  simp only [groupedToList, hok, ↓reduceIte, hopts, decodeGroups_of_groups KS _ blocks hgroups]

/-! ### blocks from a list of plain stored entries -/

def mkBlocks (pfx : Str) : Nat → List Entry → List (Str × Entry)
  | _, [] => []
  | i, e :: r => (optStr pfx i, e) :: mkBlocks pfx (i + 1) r

theorem mkBlocks_opts (pfx : Str) (es : List Entry) :
    ∀ i, ∀ b ∈ mkBlocks pfx i es, ∃ j, i ≤ j ∧ b.1 = optStr pfx j := by
  induction es with
  | nil => intro i b hb; cases hb
  | cons e r ih =>
    intro i b hb
    simp only [mkBlocks, List.mem_cons] at hb
    rcases hb with rfl | hb
    · exact ⟨i, Nat.le_refl _, rfl⟩
    · obtain ⟨j, hj, e'⟩ := ih (i + 1) b hb
      exact ⟨j, by omega, e'⟩

theorem mkBlocks_ok (pfx : Str) (hp : ';' ∉ pfx) (es : List Entry) (hes : ∀ e ∈ es, PlainOK e ∧ e ≠ []) :
    ∀ i, BlocksOK (pfxOf pfx) (mkBlocks pfx i es) := by
  induction es with
  | nil =>
    intro i
    exact ⟨by simp [mkBlocks], fun b hb => absurd hb (by simp [mkBlocks]), fun b hb => absurd hb (by simp [mkBlocks])⟩
  | cons e r ih =>
    intro i
    have ihr := ih (fun x hx => hes x (List.mem_cons_of_mem _ hx)) (i + 1)
    refine ⟨?_, ?_, ?_⟩
    · simp only [mkBlocks, List.map_cons, List.nodup_cons]
      refine ⟨?_, ihr.nodup⟩
      intro hmem
      obtain ⟨b, hb, eq⟩ := List.mem_map.mp hmem
      obtain ⟨j, hj, e'⟩ := mkBlocks_opts pfx r (i + 1) b hb
      have := optStr_inj pfx j i (by rw [← e', eq])
      omega
    · intro b hb
      simp only [mkBlocks, List.mem_cons] at hb
      rcases hb with rfl | hb
      · exact ⟨optStr_no_semi pfx i hp, optStr_prefix pfx i⟩
      · exact ihr.opt b hb
    · intro b hb
      simp only [mkBlocks, List.mem_cons] at hb
      rcases hb with rfl | hb
      · exact hes e (by simp)
      · exact ihr.plain b hb

/-- what one keyed row leaves in the stored entry, under plain names -/
def storedPlain (sch : Schema) (row : KVs) : Entry := removeEmpty ((dict2entry sch none row).getD [])

theorem blocksOf_eq_mkBlocks (sch : Schema) (pfx : Str) (rows : List KVs) :
    ∀ i, blocksOf sch pfx i rows = mkBlocks pfx i (rows.map (storedPlain sch)) := by
  induction rows with
  | nil => intro i; rfl
  | cons row r ih => intro i; simp only [blocksOf, List.map_cons, mkBlocks, ih, storedPlain]

theorem decodeBlocks_mkBlocks (KS : Schema) (pfx : Str) (es : List Entry) (ds : List KVs)
    (h : Forall2 (fun e d => entry2dict KS e = some d) es ds) :
    ∀ i, decodeBlocks KS (mkBlocks pfx i es) = some ds := by
  induction h with
  | nil => intro i; rfl
  | cons hd _ ih => intro i; simp only [mkBlocks, decodeBlocks, hd, ih]

/-- the stored form of a `_to_obj_list` is the rendering of its blocks (for the empty list: nothing) -/
theorem toObjList_stored (sch : Schema) (key pfx : Str) (objs : List JVal) (rows : List KVs)
    (hs : sortByKey key objs = some rows) (hr : ∀ row ∈ rows, ObjWF sch row) :
    ∃ E, toObjList objs key pfx sch = some E ∧
      removeEmpty E = render (mkBlocks pfx 0 (rows.map (storedPlain sch))) := by
  cases rows with
  | nil => exact ⟨emptyListEntry sch, by simp [toObjList, hs], by simp [removeEmpty_emptyListEntry, mkBlocks, render]⟩
  | cons row r =>
    obtain ⟨E, hE, hEr⟩ := encodeRows_render sch pfx (row :: r) hr 0
    exact ⟨E, by simp [toObjList, hs, hE], by rw [hEr, blocksOf_eq_mkBlocks]⟩

theorem storedPlain_ok (sch : Schema) (hwf : SchemaWF sch) (key : Str) (hk : KeyRow sch key) (rows : List KVs)
    (hr : ∀ row ∈ rows, RowOK sch key row) :
    ∀ e ∈ rows.map (storedPlain sch), PlainOK e ∧ e ≠ [] := by
  intro e he
  obtain ⟨row, hrow, rfl⟩ := List.mem_map.mp he
  exact plain_block_ok sch hwf key hk row (hr row hrow)

theorem storedPlain_decode (sch : Schema) (hwf : SchemaWF sch) (rows : List KVs) (hr : ∀ row ∈ rows, ObjWF sch row) :
    Forall2 (fun e d => entry2dict sch e = some d) (rows.map (storedPlain sch)) (rows.map (normalise sch)) := by
  induction rows with
  | nil => exact .nil
  | cons row r ih =>
    obtain ⟨plain, hplain, hrt⟩ := flat_roundtrip sch hwf row (hr row (by simp))
    refine .cons ?_ (ih (fun x hx => hr x (List.mem_cons_of_mem _ hx)))
    simp only [storedPlain, hplain, Option.getD_some, hrt]

/-! ### services: two schemas over the same option groups -/

abbrev svcS := ExtCodec.appSvcSchema
abbrev rstS := ExtCodec.appSvcRestartSchema

/-- a service: well-typed, named, with well-typed effective restart settings (defaults merged)
    that do not themselves carry a `name` -/
def SvcOK (s : KVs) : Prop :=
  RowOK svcS (S "name") s ∧ ∃ rs, restartOf s = some rs ∧ ObjWF rstS rs ∧ lookup (S "name") rs = none

def svcRestart (s : KVs) : KVs := (restartOf s).getD []

/-- what one service leaves in the stored entry, under plain names -/
def svcPlain (s : KVs) : Entry := storedPlain svcS s ++ storedPlain rstS (svcRestart s)

def svcOKb (s : KVs) : Bool :=
  rowOKb svcS (S "name") s && (match restartOf s with
    | some rs => objWFb rstS rs && (lookup (S "name") rs).isNone
    | none => false)

theorem svcOKb_sound (s : KVs) (h : svcOKb s = true) : SvcOK s := by
  simp only [svcOKb, Bool.and_eq_true] at h
  refine ⟨rowOKb_sound _ _ _ h.1, ?_⟩
  cases hr : restartOf s with
  | none => simp [hr] at h
  | some rs =>
    simp only [hr, Bool.and_eq_true, Option.isNone_iff_eq_none] at h
    exact ⟨rs, rfl, objWFb_sound _ _ h.2.1, h.2.2⟩

theorem svc_tables :
    (∀ r ∈ svcS, ∀ r' ∈ rstS, r.1 = r'.1 → r'.2.1 = S "name") ∧
    (∀ r' ∈ rstS, r'.2.1 = S "name" → r'.1 = S "service-name" ∧ r'.2.2 = FT.str) ∧
    (S "service-name", S "name", FT.str) ∈ svcS := by decide +kernel

theorem svc_keyrow : KeyRow svcS (S "name") := ⟨S "service-name", svc_tables.2.2⟩

theorem renderBlock_append (o : Str) (a b : Entry) : renderBlock o (a ++ b) = renderBlock o a ++ renderBlock o b := by
  simp [renderBlock]

theorem encodeServices_render (rows : List KVs) (hr : ∀ s ∈ rows, SvcOK s) :
    ∀ i, ∃ E, encodeServices i rows = some E ∧ removeEmpty E = render (mkBlocks pService i (rows.map svcPlain)) := by
  induction rows with
  | nil => intro i; exact ⟨[], rfl, rfl⟩
  | cons s r ih =>
    intro i
    obtain ⟨T, hT, hTr⟩ := ih (fun x hx => hr x (List.mem_cons_of_mem _ hx)) (i + 1)
    obtain ⟨hrow, rs, hrs, hrsok, _⟩ := hr s (by simp)
    obtain ⟨plainS, hplainS⟩ := dict2entry_some svcS none s hrow.1
    obtain ⟨plainR, hplainR⟩ := dict2entry_some rstS none rs hrsok
    have hoS := dict2entry_opt svcS (some (pService, i)) s
    have hoR := dict2entry_opt rstS (some (pService, i)) rs
    rw [hplainS] at hoS
    rw [hplainR] at hoR
    simp only [Option.map_some] at hoS hoR
    refine ⟨plainS.map (fun p => (optKey (some (pService, i)) p.1, p.2)) ++
        plainR.map (fun p => (optKey (some (pService, i)) p.1, p.2)) ++ T, by
      simp only [encodeServices, hoS, hrs, hT, hoR], ?_⟩
    rw [removeEmpty_append, removeEmpty_append, hTr]
    simp only [List.map_cons, mkBlocks, render, svcPlain, storedPlain, svcRestart, hrs, hplainS, hplainR,
      Option.getD_some, renderBlock_append, List.append_assoc]
    congr 1
    · exact removeEmpty_map (optKey (some (pService, i))) plainS
    · congr 1
      exact removeEmpty_map (optKey (some (pService, i))) plainR

theorem storedPlain_keys (sch : Schema) (row : KVs) (ho : ObjWF sch row) :
    ∀ p ∈ storedPlain sch row, ∃ r ∈ sch, p.1 = r.1 ∧ (lookup r.2.1 row).isSome = true := by
  obtain ⟨plain, hplain⟩ := dict2entry_some sch none row ho
  intro p hp
  simp only [storedPlain, hplain, Option.getD_some] at hp
  obtain ⟨r, hr, e, hs⟩ := dict2entry_keys_present sch none row plain hplain p (mem_removeEmpty hp)
  exact ⟨r, hr, by simpa [optKey] using e, hs⟩

theorem storedPlain_lookup (sch : Schema) (hwf : SchemaWF sch) (row : KVs) (ho : ObjWF sch row) :
    ∀ r ∈ sch, lookup r.1 (storedPlain sch row) = (lookup r.2.1 row).bind (stored r.2.2) := by
  obtain ⟨plain, hplain⟩ := dict2entry_some sch none row ho
  intro r hr
  simp only [storedPlain, hplain, Option.getD_some]
  exact lookup_stored sch hwf.1 row plain hplain r hr

theorem svcPlain_ok (s : KVs) (hs : SvcOK s) : PlainOK (svcPlain s) ∧ svcPlain s ≠ [] := by
  obtain ⟨hrow, rs, hrs, hrsok, _⟩ := hs
  have h1 := plain_block_ok svcS appSvcSchema_wf (S "name") svc_keyrow s hrow
  constructor
  · intro p hp
    simp only [svcPlain, List.mem_append] at hp
    rcases hp with h | h
    · exact h1.1 p h
    · simp only [svcRestart, hrs, Option.getD_some] at h
      obtain ⟨r, hr, e, _⟩ := storedPlain_keys rstS rs hrsok p h
      rw [e]
      exact appSvcRestartSchema_wf.2.2 r hr
  · intro e
    simp only [svcPlain, List.append_eq_nil_iff] at e
    exact h1.2 e.1

/-- the restart row a service reads back as: its name with the effective limit/interval -/
def svcRestartObj (s : KVs) : KVs :=
  match lookup (S "name") s with
  | some n => (S "name", n) :: svcRestart s
  | none => svcRestart s

theorem svcPlain_decode_svc (s : KVs) (hs : SvcOK s) :
    entry2dict svcS (svcPlain s) = some (normalise svcS s) := by
  obtain ⟨hrow, rs, hrs, hrsok, hnoname⟩ := hs
  apply entry2dict_of_lookup svcS _ s hrow.1
  intro r hr
  rw [svcPlain, lookup_append, storedPlain_lookup svcS appSvcSchema_wf s hrow.1 r hr]
  have hB : lookup r.1 (storedPlain rstS (svcRestart s)) = none := by
    apply lookup_eq_none_of_not_mem
    intro p hp e
    simp only [svcRestart, hrs, Option.getD_some] at hp
    obtain ⟨r', hr', e', hpres⟩ := storedPlain_keys rstS rs hrsok p hp
    have := svc_tables.1 r hr r' hr' (by rw [← e, e'])
    rw [this, hnoname] at hpres
    cases hpres
  rw [hB]
  cases (lookup r.2.1 s).bind (stored r.2.2) <;> rfl

theorem svcPlain_decode_rst (s : KVs) (hs : SvcOK s) :
    entry2dict rstS (svcPlain s) = some (normalise rstS (svcRestartObj s)) := by
  obtain ⟨hrow, rs, hrs, hrsok, hnoname⟩ := hs
  obtain ⟨n, hn⟩ := hrow.2
  have hc : svcRestartObj s = (S "name", JVal.str n) :: rs := by
    simp [svcRestartObj, hn, svcRestart, hrs]
  rw [hc]
  have hcwf : ObjWF rstS ((S "name", JVal.str n) :: rs) := by
    intro r' hr' v hv
    simp only [lookup] at hv
    split at hv
    · rename_i hname
      cases hv
      rw [(svc_tables.2.1 r' hr' hname.symm).2]
      trivial
    · exact hrsok r' hr' v hv
  apply entry2dict_of_lookup rstS _ _ hcwf
  intro r' hr'
  rw [svcPlain, lookup_append]
  by_cases hname : r'.2.1 = S "name"
  · obtain ⟨hlf, hft⟩ := svc_tables.2.1 r' hr' hname
    have := storedPlain_lookup svcS appSvcSchema_wf s hrow.1 _ svc_tables.2.2
    simp only [hn, Option.bind_some] at this
    rw [hlf, this, hname, hft]
    simp [lookup, stored, encodeField, JVal.isNull, textOf]
  · have hA : lookup r'.1 (storedPlain svcS s) = none := by
      apply lookup_eq_none_of_not_mem
      intro p hp e
      obtain ⟨r, hr, e', _⟩ := storedPlain_keys svcS s hrow.1 p hp
      exact hname (svc_tables.1 r hr r' hr' (by rw [← e', e]))
    rw [hA]
    simp only [svcRestart, hrs, Option.getD_some, Option.orElse_none]
    rw [storedPlain_lookup rstS appSvcRestartSchema_wf rs hrsok r' hr']
    simp only [lookup, show ¬ (S "name" = r'.2.1) from fun e => hname e.symm, ↓reduceIte]

theorem svcPlain_decode_all (rows : List KVs) (hr : ∀ s ∈ rows, SvcOK s) :
    Forall2 (fun e d => entry2dict svcS e = some d) (rows.map svcPlain) (rows.map (normalise svcS)) ∧
    Forall2 (fun e d => entry2dict rstS e = some d) (rows.map svcPlain)
      (rows.map (fun s => normalise rstS (svcRestartObj s))) := by
  induction rows with
  | nil => exact ⟨.nil, .nil⟩
  | cons s r ih =>
    obtain ⟨i1, i2⟩ := ih (fun x hx => hr x (List.mem_cons_of_mem _ hx))
    exact ⟨.cons (svcPlain_decode_svc s (hr s (by simp))) i1, .cons (svcPlain_decode_rst s (hr s (by simp))) i2⟩

/-! ### the whole Application entry -/

abbrev epS := ExtCodec.appEndpointSchema
abbrev envS := ExtCodec.appEnvironSchema
abbrev affS := ExtCodec.appAffinitySchema
abbrev vrS := ExtCodec.appVringSchema
abbrev ruleS := ExtCodec.appVringRuleSchema

theorem ep_keyrow : KeyRow epS (S "name") := ⟨S "endpoint-name", by decide +kernel⟩
theorem env_keyrow : KeyRow envS (S "name") := ⟨S "envvar-name", by decide +kernel⟩
theorem aff_keyrow : KeyRow affS (S "level") := ⟨S "affinity-level", by decide +kernel⟩
theorem rule_keyrow : KeyRow ruleS (S "pattern") := ⟨S "vring-rule-pattern", by decide +kernel⟩

/-- the five option prefixes are pairwise incomparable -/
theorem app_prefixes :
    ∀ p ∈ [pService, pEndpoint, pEnvvar, pAffinity, pVringRule],
    ∀ p' ∈ [pService, pEndpoint, pEnvvar, pAffinity, pVringRule],
      p ≠ p' → (pfxOf p).isPrefixOf (pfxOf p') = false := by decide +kernel

theorem app_prefix_semi : ∀ p ∈ [pService, pEndpoint, pEnvvar, pAffinity, pVringRule], ';' ∉ p := by decide +kernel

/-- the flat names of the main schema and of the vring schema do not meet -/
theorem app_vring_names : (∀ r ∈ ExtCodec.appSchema, ∀ r' ∈ vrS, r.1 ≠ r'.1) := by decide +kernel

/-- the vring dictionary `to_entry` acts on: the object's `vring` when it is truthy, else nothing -/
inductive VringIs (obj : KVs) : KVs → Prop
  | absent : lookup (S "vring") obj = none → VringIs obj []
  | null : lookup (S "vring") obj = some .null → VringIs obj []
  | empty : lookup (S "vring") obj = some (.obj []) → VringIs obj []
  | dict (p : Str × JVal) (rest : KVs) : lookup (S "vring") obj = some (.obj (p :: rest)) → VringIs obj (p :: rest)

theorem dict2entry_nil (sch : Schema) (opt : Option (Str × Nat)) : dict2entry sch opt [] = some [] := by
  induction sch with
  | nil => rfl
  | cons row rest ih =>
    obtain ⟨lf, of, ft⟩ := row
    simp [dict2entry, ih, lookup]

theorem storedPlain_nil (sch : Schema) : storedPlain sch [] = [] := by
  simp [storedPlain, dict2entry_nil, removeEmpty]

/-- a rendered keyed list of prefix `p'` is quiet for every other app prefix `p` -/
theorem quiet_other (p p' : Str) (hp : p ∈ [pService, pEndpoint, pEnvvar, pAffinity, pVringRule])
    (hp' : p' ∈ [pService, pEndpoint, pEnvvar, pAffinity, pVringRule]) (hne : p ≠ p')
    (es : List Entry) (hes : ∀ e ∈ es, PlainOK e ∧ e ≠ []) :
    Quiet (pfxOf p) (render (mkBlocks p' 0 es)) := by
  have hb := mkBlocks_ok p' (app_prefix_semi p' hp') es hes 0
  apply Quiet.render_other p p' _ (fun b hb' => ⟨(hb.plain b hb').1, (hb.opt b hb').1⟩)
  · intro b hb'
    obtain ⟨j, _, e⟩ := mkBlocks_opts p' es 0 b hb'
    exact ⟨j, e⟩
  · exact app_prefixes p hp p' hp' hne
  · exact app_prefixes p' hp' p hp (Ne.symm hne)

theorem storedPlain_plain (sch : Schema) (hwf : SchemaWF sch) (row : KVs) (ho : ObjWF sch row) :
    PlainOK (storedPlain sch row) := by
  intro p hp
  obtain ⟨r, hr, e, _⟩ := storedPlain_keys sch row ho p hp
  rw [e]; exact hwf.2.2 r hr

/-- everything the theorem needs to know about an application object -/
structure AppOK (obj obj1 : KVs) (svRows epRows enRows afRows : List KVs) (vr : KVs) (vrRows : List KVs) : Prop where
  ports : appWithPorts obj = some obj1
  main : ObjWF ExtCodec.appSchema obj1
  sv : (getList (S "services") obj).bind (sortByKey (S "name")) = some svRows
  svok : ∀ s ∈ svRows, SvcOK s
  ep : (getList (S "endpoints") obj).bind (sortByKey (S "name")) = some epRows
  epok : ∀ r ∈ epRows, RowOK epS (S "name") r
  en : (getList (S "environ") obj).bind (sortByKey (S "name")) = some enRows
  enok : ∀ r ∈ enRows, RowOK envS (S "name") r
  af : (appAffRows obj).bind (sortByKey (S "level")) = some afRows
  afok : ∀ r ∈ afRows, RowOK affS (S "level") r
  vring : VringIs obj vr
  vrok : ObjWF vrS vr
  vrr : (getList (S "rules") vr).bind (sortByKey (S "pattern")) = some vrRows
  vrrok : ∀ r ∈ vrRows, RowOK ruleS (S "pattern") r

/-- the stored Application entry, part by part -/
def appStored (obj1 : KVs) (svRows epRows enRows afRows : List KVs) (vr : KVs) (vrRows : List KVs) : Entry :=
  storedPlain ExtCodec.appSchema obj1 ++
    (render (mkBlocks pService 0 (svRows.map svcPlain)) ++
      (render (mkBlocks pEndpoint 0 (epRows.map (storedPlain epS))) ++
        (render (mkBlocks pEnvvar 0 (enRows.map (storedPlain envS))) ++
          (render (mkBlocks pAffinity 0 (afRows.map (storedPlain affS))) ++
            (storedPlain vrS vr ++ render (mkBlocks pVringRule 0 (vrRows.map (storedPlain ruleS))))))))

theorem bind_toObjList_stored (sch : Schema) (key pfx : Str) (l : Option (List JVal)) (rows : List KVs)
    (hs : l.bind (sortByKey key) = some rows) (hr : ∀ row ∈ rows, ObjWF sch row) :
    ∃ E, l.bind (fun x => toObjList x key pfx sch) = some E ∧
      removeEmpty E = render (mkBlocks pfx 0 (rows.map (storedPlain sch))) := by
  cases l with
  | none => simp at hs
  | some objs =>
    simp only [Option.bind_some] at hs ⊢
    exact toObjList_stored sch key pfx objs rows hs hr

theorem appToEntry_stored {obj obj1 : KVs} {svRows epRows enRows afRows : List KVs} {vr : KVs} {vrRows : List KVs}
    (h : AppOK obj obj1 svRows epRows enRows afRows vr vrRows) :
    ∃ E, appToEntry obj = some E ∧ removeEmpty E = appStored obj1 svRows epRows enRows afRows vr vrRows := by
  -- main
  obtain ⟨main, hmain⟩ := dict2entry_some ExtCodec.appSchema none obj1 h.main
  have hM : appMainEntry obj = some main := by simp [appMainEntry, h.ports, hmain]
  have hMs : removeEmpty main = storedPlain ExtCodec.appSchema obj1 := by simp [storedPlain, hmain]
  -- services
  obtain ⟨svE, hsvE, hsvS⟩ : ∃ E, appSvcEntry obj = some E ∧
      removeEmpty E = render (mkBlocks pService 0 (svRows.map svcPlain)) := by
    cases hrows : svRows with
    | nil =>
      refine ⟨emptyListEntry (ExtCodec.appSvcSchema ++ ExtCodec.appSvcRestartSchema),
        by simp only [appSvcEntry, h.sv, hrows], ?_⟩
      simp [removeEmpty_emptyListEntry, mkBlocks, render]
    | cons s r =>
      obtain ⟨E, hE, hEr⟩ := encodeServices_render svRows h.svok 0
      rw [hrows] at hE hEr
      exact ⟨E, by simp only [appSvcEntry, h.sv, hrows, hE], hEr⟩
  -- the three plain keyed lists
  obtain ⟨epE, hepE, hepS⟩ := bind_toObjList_stored epS (S "name") pEndpoint _ epRows h.ep (fun r hr => (h.epok r hr).1)
  obtain ⟨enE, henE, henS⟩ := bind_toObjList_stored envS (S "name") pEnvvar _ enRows h.en (fun r hr => (h.enok r hr).1)
  obtain ⟨afE, hafE, hafS⟩ := bind_toObjList_stored affS (S "level") pAffinity _ afRows h.af (fun r hr => (h.afok r hr).1)
  -- vring
  obtain ⟨vrE, hvrE, hvrS⟩ : ∃ E, appVringEntry obj = some E ∧
      removeEmpty E = storedPlain vrS vr ++ render (mkBlocks pVringRule 0 (vrRows.map (storedPlain ruleS))) := by
    have hnil : vr = [] → vrRows = [] := by
      intro e
      have := h.vrr
      rw [e] at this
      simp [getList, lookup, sortByKey, withKeys, isort] at this
      exact this
    cases h.vring with
    | absent hl => exact ⟨[], by simp [appVringEntry, hl], by simp [hnil rfl, storedPlain_nil, mkBlocks, render, removeEmpty]⟩
    | null hl => exact ⟨[], by simp [appVringEntry, hl], by simp [hnil rfl, storedPlain_nil, mkBlocks, render, removeEmpty]⟩
    | empty hl => exact ⟨[], by simp [appVringEntry, hl], by simp [hnil rfl, storedPlain_nil, mkBlocks, render, removeEmpty]⟩
    | dict p rest hl =>
      obtain ⟨c, hc⟩ := dict2entry_some vrS none (p :: rest) h.vrok
      obtain ⟨rE, hrE, hrS⟩ := bind_toObjList_stored ruleS (S "pattern") pVringRule _ vrRows h.vrr (fun r hr => (h.vrrok r hr).1)
      refine ⟨c ++ rE, by simp only [appVringEntry, hl, hc, hrE], ?_⟩
      rw [removeEmpty_append, hrS]
      simp [storedPlain, hc]
  refine ⟨main ++ svE ++ epE ++ enE ++ afE ++ vrE, by
    simp only [appToEntry, hM, hsvE, appEndpointEntry, hepE, appEnvEntry, henE, appAffEntry, hafE, hvrE], ?_⟩
  simp only [removeEmpty_append, hMs, hsvS, hepS, henS, hafS, hvrS, appStored, List.append_assoc]

theorem lookup_render_none (k : Str) (hk : ';' ∉ k) (blocks : List (Str × Entry)) : lookup k (render blocks) = none :=
  lookup_none_of_semi k hk _ (mem_render_semi blocks)

theorem orElse_none_right {α} (o : Option α) : (o.orElse fun _ => none) = o := by cases o <;> rfl

/-- the normal-form parts of an application, as the decoder's eight calls return them -/
theorem appStored_decode {obj obj1 : KVs} {svRows epRows enRows afRows : List KVs} {vr : KVs} {vrRows : List KVs}
    (h : AppOK obj obj1 svRows epRows enRows afRows vr vrRows) :
    entry2dict ExtCodec.appSchema (appStored obj1 svRows epRows enRows afRows vr vrRows)
      = some (normalise ExtCodec.appSchema obj1) ∧
    groupedToList svcS (pfxOf pService) (appStored obj1 svRows epRows enRows afRows vr vrRows)
      = some (sortRows (svRows.map (normalise svcS))) ∧
    groupedToList rstS (pfxOf pService) (appStored obj1 svRows epRows enRows afRows vr vrRows)
      = some (sortRows (svRows.map (fun s => normalise rstS (svcRestartObj s)))) ∧
    groupedToList epS (pfxOf pEndpoint) (appStored obj1 svRows epRows enRows afRows vr vrRows)
      = some (sortRows (epRows.map (normalise epS))) ∧
    groupedToList envS (pfxOf pEnvvar) (appStored obj1 svRows epRows enRows afRows vr vrRows)
      = some (sortRows (enRows.map (normalise envS))) ∧
    groupedToList affS (pfxOf pAffinity) (appStored obj1 svRows epRows enRows afRows vr vrRows)
      = some (sortRows (afRows.map (normalise affS))) ∧
    groupedToList ruleS (pfxOf pVringRule) (appStored obj1 svRows epRows enRows afRows vr vrRows)
      = some (sortRows (vrRows.map (normalise ruleS))) ∧
    entry2dict vrS (appStored obj1 svRows epRows enRows afRows vr vrRows) = some (normalise vrS vr) := by
  -- the parts
  have hesv : ∀ e ∈ svRows.map svcPlain, PlainOK e ∧ e ≠ [] := by
    intro e he
    obtain ⟨s, hs, rfl⟩ := List.mem_map.mp he
    exact svcPlain_ok s (h.svok s hs)
  have heep := storedPlain_ok epS appEndpointSchema_wf (S "name") ep_keyrow epRows h.epok
  have heen := storedPlain_ok envS appEnvironSchema_wf (S "name") env_keyrow enRows h.enok
  have heaf := storedPlain_ok affS appAffinitySchema_wf (S "level") aff_keyrow afRows h.afok
  have hevr := storedPlain_ok ruleS appVringRuleSchema_wf (S "pattern") rule_keyrow vrRows h.vrrok
  have hMpl := storedPlain_plain ExtCodec.appSchema appSchema_wf obj1 h.main
  have hVpl := storedPlain_plain vrS appVringSchema_wf vr h.vrok
  have mem : ∀ p, p ∈ [pService, pEndpoint, pEnvvar, pAffinity, pVringRule] ↔
      p = pService ∨ p = pEndpoint ∨ p = pEnvvar ∨ p = pAffinity ∨ p = pVringRule := by
    intro p; simp
  have ne : pService ≠ pEndpoint ∧ pService ≠ pEnvvar ∧ pService ≠ pAffinity ∧ pService ≠ pVringRule ∧
      pEndpoint ≠ pEnvvar ∧ pEndpoint ≠ pAffinity ∧ pEndpoint ≠ pVringRule ∧ pEnvvar ≠ pAffinity ∧
      pEnvvar ≠ pVringRule ∧ pAffinity ≠ pVringRule := by decide +kernel
  obtain ⟨n1, n2, n3, n4, n5, n6, n7, n8, n9, n10⟩ := ne
  have qM : ∀ p, Quiet (pfxOf p) (storedPlain ExtCodec.appSchema obj1) := fun p => Quiet.plain _ _ hMpl
  have qV : ∀ p, Quiet (pfxOf p) (storedPlain vrS vr) := fun p => Quiet.plain _ _ hVpl
  have q := fun (p p' : Str) (hp : p ∈ [pService, pEndpoint, pEnvvar, pAffinity, pVringRule])
      (hp' : p' ∈ [pService, pEndpoint, pEnvvar, pAffinity, pVringRule]) (hne : p ≠ p') (es : List Entry)
      (hes : ∀ e ∈ es, PlainOK e ∧ e ≠ []) => quiet_other p p' hp hp' hne es hes
  have iS : pService ∈ [pService, pEndpoint, pEnvvar, pAffinity, pVringRule] := by simp
  have iE : pEndpoint ∈ [pService, pEndpoint, pEnvvar, pAffinity, pVringRule] := by simp
  have iN : pEnvvar ∈ [pService, pEndpoint, pEnvvar, pAffinity, pVringRule] := by simp
  have iA : pAffinity ∈ [pService, pEndpoint, pEnvvar, pAffinity, pVringRule] := by simp
  have iR : pVringRule ∈ [pService, pEndpoint, pEnvvar, pAffinity, pVringRule] := by simp
  have bS := mkBlocks_ok pService (app_prefix_semi _ iS) _ hesv 0
  have bE := mkBlocks_ok pEndpoint (app_prefix_semi _ iE) _ heep 0
  have bN := mkBlocks_ok pEnvvar (app_prefix_semi _ iN) _ heen 0
  have bA := mkBlocks_ok pAffinity (app_prefix_semi _ iA) _ heaf 0
  have bR := mkBlocks_ok pVringRule (app_prefix_semi _ iR) _ hevr 0
  obtain ⟨dS, dR⟩ := svcPlain_decode_all svRows h.svok
  refine ⟨?_, ?_, ?_, ?_, ?_, ?_, ?_, ?_⟩
  · -- main schema
    apply entry2dict_of_lookup ExtCodec.appSchema _ obj1 h.main
    intro r hr
    have hk : ';' ∉ r.1 := appSchema_wf.2.2 r hr
    simp only [appStored, lookup_append, lookup_render_none r.1 hk,
      storedPlain_lookup ExtCodec.appSchema appSchema_wf obj1 h.main r hr]
    have : lookup r.1 (storedPlain vrS vr) = none := by
      apply lookup_eq_none_of_not_mem
      intro p hp e
      obtain ⟨r', hr', e', _⟩ := storedPlain_keys vrS vr h.vrok p hp
      exact app_vring_names r hr r' hr' (by rw [← e, e'])
    rw [this]
    cases (lookup r.2.1 obj1).bind (stored r.2.2) <;> rfl
  · -- services
    have := grouped_of_blocks svcS pService _ bS (storedPlain ExtCodec.appSchema obj1)
      (render (mkBlocks pEndpoint 0 (epRows.map (storedPlain epS))) ++
        (render (mkBlocks pEnvvar 0 (enRows.map (storedPlain envS))) ++
          (render (mkBlocks pAffinity 0 (afRows.map (storedPlain affS))) ++
            (storedPlain vrS vr ++ render (mkBlocks pVringRule 0 (vrRows.map (storedPlain ruleS)))))))
      (qM _) ((q _ _ iS iE n1 _ heep).append ((q _ _ iS iN n2 _ heen).append ((q _ _ iS iA n3 _ heaf).append
        ((qV _).append (q _ _ iS iR n4 _ hevr)))))
    rw [decodeBlocks_mkBlocks svcS pService _ _ dS 0] at this
    simpa only [appStored, Option.map_some] using this
  · -- service restarts (same option groups, other schema)
    have := grouped_of_blocks rstS pService _ bS (storedPlain ExtCodec.appSchema obj1)
      (render (mkBlocks pEndpoint 0 (epRows.map (storedPlain epS))) ++
        (render (mkBlocks pEnvvar 0 (enRows.map (storedPlain envS))) ++
          (render (mkBlocks pAffinity 0 (afRows.map (storedPlain affS))) ++
            (storedPlain vrS vr ++ render (mkBlocks pVringRule 0 (vrRows.map (storedPlain ruleS)))))))
      (qM _) ((q _ _ iS iE n1 _ heep).append ((q _ _ iS iN n2 _ heen).append ((q _ _ iS iA n3 _ heaf).append
        ((qV _).append (q _ _ iS iR n4 _ hevr)))))
    rw [decodeBlocks_mkBlocks rstS pService _ _ dR 0] at this
    simpa only [appStored, Option.map_some] using this
  · -- endpoints
    have := grouped_of_blocks epS pEndpoint _ bE
      (storedPlain ExtCodec.appSchema obj1 ++ render (mkBlocks pService 0 (svRows.map svcPlain)))
      (render (mkBlocks pEnvvar 0 (enRows.map (storedPlain envS))) ++
        (render (mkBlocks pAffinity 0 (afRows.map (storedPlain affS))) ++
          (storedPlain vrS vr ++ render (mkBlocks pVringRule 0 (vrRows.map (storedPlain ruleS))))))
      ((qM _).append (q _ _ iE iS (Ne.symm n1) _ hesv))
      ((q _ _ iE iN n5 _ heen).append ((q _ _ iE iA n6 _ heaf).append ((qV _).append (q _ _ iE iR n7 _ hevr))))
    rw [decodeBlocks_mkBlocks epS pEndpoint _ _ (storedPlain_decode epS appEndpointSchema_wf epRows
      (fun r hr => (h.epok r hr).1)) 0] at this
    simpa only [appStored, List.append_assoc, Option.map_some] using this
  · -- environ
    have := grouped_of_blocks envS pEnvvar _ bN
      (storedPlain ExtCodec.appSchema obj1 ++ (render (mkBlocks pService 0 (svRows.map svcPlain)) ++
        render (mkBlocks pEndpoint 0 (epRows.map (storedPlain epS)))))
      (render (mkBlocks pAffinity 0 (afRows.map (storedPlain affS))) ++
        (storedPlain vrS vr ++ render (mkBlocks pVringRule 0 (vrRows.map (storedPlain ruleS)))))
      ((qM _).append ((q _ _ iN iS (Ne.symm n2) _ hesv).append (q _ _ iN iE (Ne.symm n5) _ heep)))
      ((q _ _ iN iA n8 _ heaf).append ((qV _).append (q _ _ iN iR n9 _ hevr)))
    rw [decodeBlocks_mkBlocks envS pEnvvar _ _ (storedPlain_decode envS appEnvironSchema_wf enRows
      (fun r hr => (h.enok r hr).1)) 0] at this
    simpa only [appStored, List.append_assoc, Option.map_some] using this
  · -- affinity
    have := grouped_of_blocks affS pAffinity _ bA
      (storedPlain ExtCodec.appSchema obj1 ++ (render (mkBlocks pService 0 (svRows.map svcPlain)) ++
        (render (mkBlocks pEndpoint 0 (epRows.map (storedPlain epS))) ++
          render (mkBlocks pEnvvar 0 (enRows.map (storedPlain envS))))))
      (storedPlain vrS vr ++ render (mkBlocks pVringRule 0 (vrRows.map (storedPlain ruleS))))
      ((qM _).append ((q _ _ iA iS (Ne.symm n3) _ hesv).append ((q _ _ iA iE (Ne.symm n6) _ heep).append
        (q _ _ iA iN (Ne.symm n8) _ heen))))
      ((qV _).append (q _ _ iA iR n10 _ hevr))
    rw [decodeBlocks_mkBlocks affS pAffinity _ _ (storedPlain_decode affS appAffinitySchema_wf afRows
      (fun r hr => (h.afok r hr).1)) 0] at this
    simpa only [appStored, List.append_assoc, Option.map_some] using this
  · -- vring rules
    have := grouped_of_blocks ruleS pVringRule _ bR
      (storedPlain ExtCodec.appSchema obj1 ++ (render (mkBlocks pService 0 (svRows.map svcPlain)) ++
        (render (mkBlocks pEndpoint 0 (epRows.map (storedPlain epS))) ++
          (render (mkBlocks pEnvvar 0 (enRows.map (storedPlain envS))) ++
            (render (mkBlocks pAffinity 0 (afRows.map (storedPlain affS))) ++ storedPlain vrS vr)))))
      []
      ((qM _).append ((q _ _ iR iS (Ne.symm n4) _ hesv).append ((q _ _ iR iE (Ne.symm n7) _ heep).append
        ((q _ _ iR iN (Ne.symm n9) _ heen).append ((q _ _ iR iA (Ne.symm n10) _ heaf).append (qV _))))))
      (Quiet.nil _)
    rw [decodeBlocks_mkBlocks ruleS pVringRule _ _ (storedPlain_decode ruleS appVringRuleSchema_wf vrRows
      (fun r hr => (h.vrrok r hr).1)) 0] at this
    simpa only [appStored, List.append_assoc, List.append_nil, Option.map_some] using this
  · -- vring cells
    apply entry2dict_of_lookup vrS _ vr h.vrok
    intro r' hr'
    have hk : ';' ∉ r'.1 := appVringSchema_wf.2.2 r' hr'
    have : lookup r'.1 (storedPlain ExtCodec.appSchema obj1) = none := by
      apply lookup_eq_none_of_not_mem
      intro p hp e
      obtain ⟨r, hr, e', _⟩ := storedPlain_keys ExtCodec.appSchema obj1 h.main p hp
      exact app_vring_names r hr r' hr' (by rw [← e', e])
    simp only [appStored, lookup_append, lookup_render_none r'.1 hk, this,
      storedPlain_lookup vrS appVringSchema_wf vr h.vrok r' hr']
    cases (lookup r'.2.1 vr).bind (stored r'.2.2) <;> rfl

/-- normal form of an application: the decoder's own post-processing (`appFinish`: ephemeral_ports
    regrouping, merge of the restart rows into the services, affinity rows → dict, vring assembly)
    applied to the normal forms of the eight parts -/
def normaliseApp (obj1 : KVs) (svRows epRows enRows afRows : List KVs) (vr : KVs) (vrRows : List KVs) : Option KVs :=
  appFinish (normalise ExtCodec.appSchema obj1)
    (sortRows (svRows.map (normalise svcS)))
    (sortRows (svRows.map (fun s => normalise rstS (svcRestartObj s))))
    (sortRows (epRows.map (normalise epS)))
    (sortRows (enRows.map (normalise envS)))
    (sortRows (afRows.map (normalise affS)))
    (sortRows (vrRows.map (normalise ruleS)))
    (normalise vrS vr)

theorem app_roundtrip {obj obj1 : KVs} {svRows epRows enRows afRows : List KVs} {vr : KVs} {vrRows : List KVs}
    (h : AppOK obj obj1 svRows epRows enRows afRows vr vrRows) :
    ∃ E, appToEntry obj = some E ∧
      appFromEntry (removeEmpty E) = normaliseApp obj1 svRows epRows enRows afRows vr vrRows := by
  obtain ⟨E, hE, hS⟩ := appToEntry_stored h
  obtain ⟨d1, d2, d3, d4, d5, d6, d7, d8⟩ := appStored_decode h
  refine ⟨E, hE, ?_⟩
  rw [hS]
  unfold appFromEntry normaliseApp
  rw [d1, d2, d3, d4, d5, d6, d7, d8]

end TmVerif.Codec
