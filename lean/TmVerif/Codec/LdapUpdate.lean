/-
  The UPDATE path of the admin objects (`admin/_ldap.py`):

    `LdapObject.update(ident, attrs)` = `admin.update(dn, self.to_entry(attrs))`
    `Admin.update(dn, new_entry)`     = `old = self.get(dn, '(objectClass=*)', _entry_plain_keys(new_entry))`
                                        `self.modify(dn, _diff_entries(old, new_entry))`
    `_entry_plain_keys`, `_diff_entries`, `_diff_attribute_values`.

  Entries are the `Entry` of `Codec/Ldap.lean`: association lists attribute name ↦ list of values
  (`EVal`: str or bool, what `_dict_2_entry` writes), in the insertion order of the Python dict.
  A modify request (`Mods`) is what `_diff_entries` returns: attribute name ↦ list of
  (operation, values), in dict insertion order.

  What is code and what is assumption:
  * `diffAttributeValues`, `diffEntries`, `entryPlainKeys` model the Python line by line.
  * `applyMods` (what the directory does with a modify request) and `fetch` (what the directory
    returns for a list of requested attribute names) are NOT Treadmill code: they are the ASSUMED
    directory behaviour, part of the trusted base, written as the simplest possible specification
    (RFC 4511 §4.6, RFC 4512 §2.5: attribute descriptions are matched without regard to letter case,
    requesting `attr` returns its option subtypes `attr;opt`, an attribute has at least one value).
    The engine's in-memory directory implements the same specification and is compared with it on
    every request (`ldapapply` / `ldapfetch` driver lines).

  Modelling decisions (also in props_registry.d/C15.json):
  * `diff.setdefault(attrtype, []).append(x)` is modelled as appending a fresh pair
    `(attrtype, [x])`: on dict inputs the key is always new - the first loop runs over the distinct
    keys of `new_entry`, the second over the names left in `attrtype_lower_map`, whose lower-case
    forms are pairwise distinct and distinct from the lower-case form of every key of `new_entry`.
  * `str.lower()` is `lowerAscii` (attribute descriptions are ASCII).
  * `value is not None` filters: an `EVal` is never `None` (`_dict_2_entry` drops `None` list
    elements, `listTexts`); the filters are the identity.
  * `Admin.modify` sends nothing when the diff is empty (`if changes:`): `applyMods e [] = e`.
-/
import TmVerif.Codec.Ldap

namespace TmVerif.Codec

/-! ### `_diff_attribute_values` -/

/-- `_diff_attribute_values(old_value, new_value)`: lengths differ, or a value of one list is not a
    key of `dict.fromkeys` of the other (both directions). -/
def diffAttributeValues (old new : List EVal) : Bool :=
  if old.length != new.length then true
  else if old.any (fun v => !new.contains v) then true
  else new.any (fun v => !old.contains v)

/-! ### `_diff_entries` -/

inductive ModOp
  | add | delete | replace
  deriving DecidableEq, Repr

abbrev Mod := ModOp × List EVal
abbrev Mods := List (Str × List Mod)

/-- `attrtype_lower_map`: lower-case name ↦ name as stored -/
abbrev LMap := List (Str × Str)

/-- `for attr in old_entry.keys(): attrtype_lower_map[attr.lower()] = attr` -/
def lowerMap (old : Entry) : LMap := old.foldl (fun m p => setKey (lowerAscii p.1) p.1 m) []

/-- the `if / elif / elif` on (old_values, new_values) of one attribute of `new_entry` -/
def attrMods (oldVals newVals : List EVal) : List Mod :=
  if oldVals.isEmpty then
    (if newVals.isEmpty then [] else [(.add, newVals)])
  else if newVals.isEmpty then [(.delete, [])]
  else if diffAttributeValues oldVals newVals then [(.replace, newVals)]
  else []

/-- `old_entry.get(attrtype_lower_map[attrtype_lower], [])`, or `[]` when the name is not mapped -/
def oldValues (old : Entry) (m : LMap) (lo : Str) : List EVal :=
  match lookup lo m with
  | some name => (lookup name old).getD []
  | none => []

/-- the first loop (`for attrtype in new_entry.keys()`), the map threaded through
    (`del attrtype_lower_map[attrtype_lower]`) -/
def diffNew (old : Entry) : LMap → Entry → Mods
  | _, [] => []
  | m, (k, nv) :: r =>
    (attrMods (oldValues old m (lowerAscii k)) nv).map (fun x => (k, [x]))
      ++ diffNew old (delKey (lowerAscii k) m) r

/-- what is left of the map after the first loop -/
def restMap (m : LMap) (new : Entry) : LMap :=
  m.filter (fun p => !(new.any (fun q => lowerAscii q.1 == p.1)))

/-- `_diff_entries(old_entry, new_entry)` -/
def diffEntries (old new : Entry) : Mods :=
  diffNew old (lowerMap old) new
    ++ (restMap (lowerMap old) new).map (fun p => (p.2, [(ModOp.delete, [])]))

/-! ### `_entry_plain_keys` -/

/-- `k.split(';', 1)[0]` -/
def plainName (k : Str) : Str := k.takeWhile (· ≠ ';')

def dedupStr : List Str → List Str
  | [] => []
  | x :: r => if r.contains x then dedupStr r else x :: dedupStr r

/-- `_entry_plain_keys(entry)` = `sorted({k.split(';', 1)[0] for k in entry.keys()})` -/
def entryPlainKeys (e : Entry) : List Str := isort strLt (dedupStr (e.map (fun p => plainName p.1)))

/-! ### the directory (ASSUMED behaviour, trusted base) -/

/-- attribute descriptions match without regard to case -/
def attrEq (a b : Str) : Bool := lowerAscii a == lowerAscii b

/-- the stored attribute with this name, if any -/
def findAttr (a : Str) (e : Entry) : Option (Str × List EVal) := e.find? (fun p => attrEq p.1 a)

/-- its values -/
def valuesOf (a : Str) (e : Entry) : Option (List EVal) := (findAttr a e).map (·.2)

/-- remove the attribute -/
def delAttr (a : Str) (e : Entry) : Entry := e.filter (fun p => !attrEq p.1 a)

/-- give the attribute these values, under the stored name if there is one, else as a new attribute -/
def putAttr (a : Str) (vals : List EVal) : Entry → Entry
  | [] => [(a, vals)]
  | p :: r => if attrEq p.1 a then (p.1, vals) :: r else p :: putAttr a vals r

/-- an attribute has at least one value: no values = no attribute -/
def setAttr (a : Str) (vals : List EVal) (e : Entry) : Entry :=
  if vals.isEmpty then delAttr a e else putAttr a vals e

/-- one modification: ADD appends the values, DELETE without values removes the attribute, DELETE
    with values removes those values, REPLACE sets the values (no values: removes the attribute).
    Server-side errors (adding a value that is there, deleting what is not there) are not part of
    the specification (it is total): `Admin.update` sends ADD only for an attribute that is not stored,
    DELETE / REPLACE only for one that is (`C15_update_request_valid`). -/
def applyMod (e : Entry) (a : Str) (m : Mod) : Entry :=
  let cur := (valuesOf a e).getD []
  match m.1 with
  | .add => setAttr a (cur ++ m.2) e
  | .delete => if m.2.isEmpty then delAttr a e else setAttr a (cur.filter (fun v => !m.2.contains v)) e
  | .replace => setAttr a m.2 e

/-- the modify request, in order -/
def applyMods (e : Entry) (ms : Mods) : Entry :=
  ms.foldl (fun e p => p.2.foldl (fun e m => applyMod e p.1 m) e) e

/-- a search for the attributes `attrs`: every stored attribute whose plain name is requested -/
def fetch (attrs : List Str) (e : Entry) : Entry :=
  e.filter (fun p => attrs.any (fun a => attrEq a (plainName p.1)))

/-! ### `Admin.update` -/

/-- `_diff_entries` applied to the entry it was computed from -/
def update (old new : Entry) : Entry := applyMods old (diffEntries old new)

/-- the request `Admin.update(dn, new_entry)` sends for a stored entry -/
def adminUpdateMods (stored new : Entry) : Mods := diffEntries (fetch (entryPlainKeys new) stored) new

/-- `Admin.update(dn, new_entry)` on a stored entry: read the named attributes, diff, modify -/
def adminUpdate (stored new : Entry) : Entry := applyMods stored (adminUpdateMods stored new)

/-- `Admin.remove(dn, entry)`: delete every attribute the entry names -/
def adminRemoveMods (entry : Entry) : Mods := entry.map (fun p => (p.1, [(ModOp.delete, [])]))

end TmVerif.Codec
