/-
  `treadmill.utils.to_base_n` / `from_base_n` (utils.py ~414-463) over `List Char`.

  Python raises where the model returns `.error`:
    `ValueError`          base > len(alphabet), or a character not in the alphabet (`str.index`)
    `ZeroDivisionError`   base = 0 and num ≠ 0
    `IndexError`          alphabet[0] with an empty alphabet
  base = 1 with num ≠ 0 does not terminate in Python (`num // 1 = num`); the model says
  `.diverge` and the harness never executes that case.
-/
import TmVerif.Codec.Str

namespace TmVerif.Codec

inductive BErr | value | zeroDiv | index | diverge
  deriving DecidableEq, Repr

/-- The `while num:` loop of `to_base_n`: most significant digit first (`arr.reverse()`).
    `fuel` bounds the iterations; `digitsAux_eval` shows `fuel = num` is never exhausted. -/
def digitsAux (base : Nat) : Nat → Nat → List Nat → List Nat
  | 0, _, acc => acc
  | fuel + 1, n, acc => if n = 0 then acc else digitsAux base fuel (n / base) ((n % base) :: acc)

def digits (base n : Nat) : List Nat := digitsAux base n n []

/-- `alphabet[d]` for every digit. -/
def lookupAll (alphabet : Str) : List Nat → Option Str
  | [] => some []
  | d :: ds =>
    match alphabet[d]?, lookupAll alphabet ds with
    | some c, some r => some (c :: r)
    | _, _ => none

def toBaseN (alphabet : Str) (base num : Nat) : Except BErr Str :=
  if base > alphabet.length then .error .value
  else if num = 0 then
    match alphabet[0]? with
    | some c => .ok [c]
    | none => .error .index
  else if base = 0 then .error .zeroDiv
  else if base = 1 then .error .diverge
  else match lookupAll alphabet (digits base num) with
    | some s => .ok s
    | none => .error .index

/-- `alphabet.index(c)`. -/
def indexOf? (c : Char) : Str → Option Nat
  | [] => none
  | a :: as => if a = c then some 0 else (indexOf? c as).map (· + 1)

/-- `num += alphabet.index(char) * base ** (strlen - (idx + 1))` summed over the string. -/
def fromAux (alphabet : Str) (base : Nat) : Str → Option Nat
  | [] => some 0
  | c :: cs =>
    match indexOf? c alphabet, fromAux alphabet base cs with
    | some i, some r => some (i * base ^ cs.length + r)
    | _, _ => none

def fromBaseN (alphabet : Str) (base : Nat) (s : Str) : Except BErr Nat :=
  if base > alphabet.length then .error .value
  else match fromAux alphabet base s with
    | some n => .ok n
    | none => .error .value

/-! ### lemmas -/

/-- value of a most-significant-first digit list -/
def evalDigits (base : Nat) : List Nat → Nat
  | [] => 0
  | d :: ds => d * base ^ ds.length + evalDigits base ds

theorem div_mod_pow (n b B : Nat) : (n / b) * (b * B) + (n % b) * B = n * B := by
  have h := Nat.div_add_mod n b
  calc (n / b) * (b * B) + (n % b) * B = (b * (n / b) + n % b) * B := by grind
    _ = n * B := by rw [h]

theorem digitsAux_eval (base : Nat) (hb : 2 ≤ base) :
    ∀ fuel n acc, n ≤ fuel →
      evalDigits base (digitsAux base fuel n acc) = n * base ^ acc.length + evalDigits base acc := by
  intro fuel
  induction fuel with
  | zero => intro n acc h; have : n = 0 := by omega
            subst this; simp [digitsAux]
  | succ f ih =>
    intro n acc h
    simp only [digitsAux]
    split
    · rename_i h0; subst h0; simp
    · rename_i h0
      have hlt : n / base < n := Nat.div_lt_self (by omega) (by omega)
      rw [ih (n / base) ((n % base) :: acc) (by omega)]
      simp only [List.length_cons, evalDigits, Nat.pow_succ]
      have := div_mod_pow n base (base ^ acc.length)
      rw [Nat.mul_comm (base ^ acc.length) base]
      omega

theorem digitsAux_lt (base : Nat) (hb : 1 ≤ base) :
    ∀ fuel n acc, (∀ d ∈ acc, d < base) → ∀ d ∈ digitsAux base fuel n acc, d < base := by
  intro fuel
  induction fuel with
  | zero => intro n acc h; simpa [digitsAux] using h
  | succ f ih =>
    intro n acc h
    simp only [digitsAux]
    split
    · exact h
    · apply ih
      intro d hd
      rcases List.mem_cons.mp hd with rfl | hd
      · exact Nat.mod_lt _ (by omega)
      · exact h d hd

/-- `n < base^k` needs at most `k` more digits. -/
theorem digitsAux_length (base : Nat) (hb : 2 ≤ base) :
    ∀ fuel n acc k, n < base ^ k → (digitsAux base fuel n acc).length ≤ k + acc.length := by
  intro fuel
  induction fuel with
  | zero => intro n acc k _; simp [digitsAux]
  | succ f ih =>
    intro n acc k hk
    simp only [digitsAux]
    split
    · omega
    · rename_i h0
      cases k with
      | zero => simp at hk; omega
      | succ k =>
        have : n / base < base ^ k := by
          rw [Nat.div_lt_iff_lt_mul (by omega)]
          rw [Nat.pow_succ] at hk; exact hk
        have := ih (n / base) ((n % base) :: acc) k this
        simp only [List.length_cons] at this
        omega

theorem lookupAll_some (alphabet : Str) (ds : List Nat) (h : ∀ d ∈ ds, d < alphabet.length) :
    ∃ s, lookupAll alphabet ds = some s ∧ s.length = ds.length ∧
      ∀ i (hi : i < ds.length), s[i]? = alphabet[ds[i]]? := by
  induction ds with
  | nil => exact ⟨[], rfl, rfl, by intro i hi; simp at hi⟩
  | cons d ds ih =>
    obtain ⟨r, hr, hl, hget⟩ := ih (fun x hx => h x (List.mem_cons_of_mem _ hx))
    have hd : d < alphabet.length := h d (by simp)
    refine ⟨alphabet[d] :: r, ?_, by simp [hl], ?_⟩
    · simp [lookupAll, hr, List.getElem?_eq_getElem hd]
    · intro i hi
      cases i with
      | zero => simp [List.getElem?_eq_getElem hd]
      | succ j =>
        simp only [List.length_cons] at hi
        simpa using hget j (by omega)

theorem lookupAll_mem (alphabet : Str) : ∀ (ds : List Nat) (s : Str),
    lookupAll alphabet ds = some s → ∀ c ∈ s, c ∈ alphabet := by
  intro ds
  induction ds with
  | nil => intro s h; simp [lookupAll] at h; subst h; simp
  | cons d ds ih =>
    intro s h
    simp only [lookupAll] at h
    split at h
    · rename_i c r hc hr
      cases h
      intro x hx
      rcases List.mem_cons.mp hx with rfl | hx
      · exact List.mem_of_getElem? hc
      · exact ih r hr x hx
    · cases h

theorem indexOf?_getElem (l : Str) (hnd : l.Nodup) : ∀ i (h : i < l.length), indexOf? l[i] l = some i := by
  induction l with
  | nil => intro i h; simp at h
  | cons a as ih =>
    intro i h
    have hnd' := List.nodup_cons.mp hnd
    cases i with
    | zero => simp [indexOf?]
    | succ j =>
      simp only [List.length_cons] at h
      have hj : j < as.length := by omega
      have hne : a ≠ as[j] := fun e => hnd'.1 (e ▸ List.getElem_mem hj)
      simp [indexOf?, hne, ih hnd'.2 j hj]

theorem indexOf?_mem (c : Char) (l : Str) (i : Nat) (h : indexOf? c l = some i) : c ∈ l := by
  induction l generalizing i with
  | nil => simp [indexOf?] at h
  | cons a as ih =>
    simp only [indexOf?] at h
    split at h
    · rename_i e; simp [e]
    · cases hq : indexOf? c as with
      | none => simp [hq] at h
      | some j => exact List.mem_cons_of_mem _ (ih j hq)

theorem fromAux_lookupAll (alphabet : Str) (base : Nat) (hnd : alphabet.Nodup) :
    ∀ (ds : List Nat) (s : Str), (∀ d ∈ ds, d < alphabet.length) → lookupAll alphabet ds = some s →
      fromAux alphabet base s = some (evalDigits base ds) := by
  intro ds
  induction ds with
  | nil => intro s _ h; simp [lookupAll] at h; subst h; rfl
  | cons d ds ih =>
    intro s hlt h
    have hd : d < alphabet.length := hlt d (by simp)
    simp only [lookupAll, List.getElem?_eq_getElem hd] at h
    cases hr : lookupAll alphabet ds with
    | none => simp [hr] at h
    | some r =>
      simp only [hr, Option.some.injEq] at h
      subst h
      have hlen : r.length = ds.length := by
        obtain ⟨r', hr', hl, _⟩ := lookupAll_some alphabet ds (fun x hx => hlt x (List.mem_cons_of_mem _ hx))
        rw [hr] at hr'; cases hr'; exact hl
      simp only [fromAux, indexOf?_getElem alphabet hnd d hd,
        ih r (fun x hx => hlt x (List.mem_cons_of_mem _ hx)) hr, evalDigits, hlen]

/-- Leading fill characters that are the zero digit do not change the decoded value. -/
theorem fromAux_replicate_zero (alphabet : Str) (base : Nat) (z : Char)
    (hz : indexOf? z alphabet = some 0) (k : Nat) (s : Str) :
    fromAux alphabet base (List.replicate k z ++ s) = fromAux alphabet base s := by
  induction k with
  | zero => rfl
  | succ k ih =>
    simp only [List.replicate_succ, List.cons_append, fromAux, hz, ih]
    cases fromAux alphabet base s <;> simp

/-- What `to_base_n` returns for an admissible base: the alphabet images of the digits. -/
theorem toBaseN_ok (alphabet : Str) (base n : Nat) (h2 : 2 ≤ base) (hb : base ≤ alphabet.length) :
    ∃ s, toBaseN alphabet base n = .ok s ∧
      ((n = 0 ∧ s = [alphabet[0]'(by omega)]) ∨
       (n ≠ 0 ∧ lookupAll alphabet (digits base n) = some s)) := by
  unfold toBaseN
  have h0 : 0 < alphabet.length := by omega
  simp only [show ¬ base > alphabet.length by omega, ↓reduceIte]
  by_cases hn : n = 0
  · simp [hn, List.getElem?_eq_getElem h0]
  · have hlt : ∀ d ∈ digits base n, d < alphabet.length := by
      intro d hd
      have := digitsAux_lt base (by omega) n n [] (by simp) d hd
      omega
    obtain ⟨s, hs, _, _⟩ := lookupAll_some alphabet (digits base n) hlt
    refine ⟨s, ?_, Or.inr ⟨hn, hs⟩⟩
    simp [hn, show base ≠ 0 by omega, show base ≠ 1 by omega, hs]

/-- **Round trip of base-N** for every admissible base (`2 ≤ base ≤ len(alphabet)`), every
    duplicate-free alphabet and every number. -/
theorem basen_roundtrip (alphabet : Str) (base : Nat) (h2 : 2 ≤ base) (hb : base ≤ alphabet.length)
    (hnd : alphabet.Nodup) (n : Nat) :
    ∃ s, toBaseN alphabet base n = .ok s ∧ fromBaseN alphabet base s = .ok n := by
  obtain ⟨s, hs, hcase⟩ := toBaseN_ok alphabet base n h2 hb
  refine ⟨s, hs, ?_⟩
  unfold fromBaseN
  simp only [show ¬ base > alphabet.length by omega, ↓reduceIte]
  rcases hcase with ⟨hn, rfl⟩ | ⟨hn, hl⟩
  · have := indexOf?_getElem alphabet hnd 0 (by omega)
    simp [fromAux, this, hn]
  · have hlt : ∀ d ∈ digits base n, d < alphabet.length := by
      intro d hd
      have := digitsAux_lt base (by omega) n n [] (by simp) d hd
      omega
    rw [fromAux_lookupAll alphabet base hnd _ s hlt hl]
    have := digitsAux_eval base h2 n n [] (Nat.le_refl _)
    simp only [List.length_nil, Nat.pow_zero, Nat.mul_one, evalDigits, Nat.add_zero] at this
    simp only [digits, this]

/-- Length bound: numbers below `base^k` encode in at most `k` characters (`k ≥ 1`). -/
theorem toBaseN_length (alphabet : Str) (base n k : Nat) (h2 : 2 ≤ base) (hb : base ≤ alphabet.length)
    (hk : 1 ≤ k) (hn : n < base ^ k) (s : Str) (hs : toBaseN alphabet base n = .ok s) :
    s.length ≤ k := by
  obtain ⟨s', hs', hcase⟩ := toBaseN_ok alphabet base n h2 hb
  rw [hs] at hs'; cases hs'
  rcases hcase with ⟨_, rfl⟩ | ⟨_, hl⟩
  · simpa using hk
  · have hlt : ∀ d ∈ digits base n, d < alphabet.length := by
      intro d hd
      have := digitsAux_lt base (by omega) n n [] (by simp) d hd
      omega
    obtain ⟨s', hs', hlen, _⟩ := lookupAll_some alphabet (digits base n) hlt
    rw [hl] at hs'; cases hs'
    rw [hlen]
    simpa [digits] using digitsAux_length base h2 n n [] k hn

/-- Every output character is from the alphabet. -/
theorem toBaseN_mem (alphabet : Str) (base n : Nat) (h2 : 2 ≤ base) (hb : base ≤ alphabet.length)
    (s : Str) (hs : toBaseN alphabet base n = .ok s) : ∀ c ∈ s, c ∈ alphabet := by
  obtain ⟨s', hs', hcase⟩ := toBaseN_ok alphabet base n h2 hb
  rw [hs] at hs'; cases hs'
  rcases hcase with ⟨_, rfl⟩ | ⟨_, hl⟩
  · intro c hc; simp at hc; subst hc; exact List.getElem_mem _
  · exact lookupAll_mem alphabet _ _ hl

end TmVerif.Codec
