/-
  Model of what a container start registers on the host and what finishing removes (C16).

  Anchors (all under /repo/lib/python/treadmill):
    runtime/linux/_run.py      `_unshare_network`      ↦ `startRegs`, `unshareNetwork`, `start`
    runtime/linux/_finish.py   `_cleanup_network`, `_cleanup_ephemeral_ports`, the guard in `_cleanup`
                                                       ↦ `finishOps`, `cleanupNetwork`, `finish`
    rulefile.py                `RuleMgr.create_rule / unlink_rule`         ↦ `createRule`, `unlinkFirst`
    endpoints.py               `EndpointsMgr.create_spec / unlink_all`     ↦ `createSpec`, `unlinkAll`
    iptables.py                `add_ip_set / rm_ip_set` (`ipset -exist`)   ↦ `setAdd`, `setDel`
    runtime/__init__.py        `_allocate_sockets`, `_allocate_network_ports_proto`,
                               `allocate_network_ports`                    ↦ `allocLoop`, `allocProto`, `allocatePorts`

  Names (container unique names, instance names, endpoint names) are `Nat` ids of ONE intern table
  (the driver keeps the strings), so `a = b` on ids is string equality in the code.  IPv4 addresses
  are their 32-bit value.  A directory is the list of its entries (file name ↦ link target basename)
  in creation order; the file system guarantees that names are unique (`Host.WF`).
-/
import TmVerif.Gen.ExtNet

namespace TmVerif.Net

inductive Proto | tcp | udp
  deriving DecidableEq, Repr

/-- The three chains `_unshare_network` writes to: `iptables.PREROUTING_DNAT`, `POSTROUTING_SNAT`,
    `PREROUTING_PASSTHROUGH` (names extracted, rendered by the driver). -/
inductive Chain | dnat | snat | passthrough
  deriving DecidableEq, Repr

/-- `firewall.DNATRule` / `SNATRule` / `PassThroughRule` with the fields the anchored code sets
    (the others are the wildcards `ANY_IP` / `ANY_PORT`). -/
inductive Rule
  | dnat (proto : Proto) (dstIp dstPort newIp newPort : Nat)
  | snat (proto : Proto) (srcIp srcPort newIp newPort : Nat)
  | pass (srcIp dstIp : Nat)
  deriving DecidableEq, Repr

/-- A file name in the rules directory (`RuleMgr._filenameify chain rule`). -/
structure RuleKey where
  chain : Chain
  rule  : Rule
  deriving DecidableEq, Repr

/-- A file name in the endpoints directory (`endpoints._namify`). -/
structure SpecKey where
  app      : Nat
  proto    : Proto
  name     : Nat
  realPort : Nat
  pid      : Nat
  port     : Nat
  deriving DecidableEq, Repr

/-- An entry `'{ip},{proto}:{port}'` of the IP set `SET_INFRA_SVC`. -/
structure Svc where
  ip    : Nat
  proto : Proto
  port  : Nat
  deriving DecidableEq, Repr

/-- Host-side registrations: rules directory, endpoints directory (entry ↦ owner = basename of the
    link target), and the two IP sets (set semantics: `ipset -exist add/del`). -/
structure Host where
  rules : List (RuleKey × Nat)
  specs : List (SpecKey × Nat)
  vring : List Nat           -- SET_VRING_CONTAINERS
  infra : List Svc           -- SET_INFRA_SVC
  deriving DecidableEq, Repr

def Host.empty : Host := { rules := [], specs := [], vring := [], infra := [] }

structure Endpoint where
  name     : Nat
  proto    : Proto
  port     : Nat
  realPort : Nat
  infra    : Bool            -- `getattr(endpoint, 'type', None) == 'infra'`
  deriving DecidableEq, Repr

/-- The part of the application manifest (`state.json`) the anchored code reads. -/
structure Manifest where
  owner       : Nat                  -- `appcfg.app_unique_name(app)`
  app         : Nat                  -- `app.name` (instance name)
  pid         : Nat                  -- `os.getpid()` of the process that runs `_unshare_network`
  vip         : Nat                  -- `app.network.vip`
  ext         : Nat                  -- `app.network.external_ip`
  shared      : Bool                 -- `app.shared_network`
  vring       : Bool                 -- truthiness of `app.vring`
  endpoints   : List Endpoint
  ephTcp      : List Nat             -- `app.ephemeral_ports.tcp`
  ephUdp      : List Nat             -- `app.ephemeral_ports.udp`
  passthrough : Option (List Nat)    -- `none`: no attribute; `some ips`: the resolved set, in the
                                     -- order the implementation iterated it (recorded)
  deriving DecidableEq, Repr

/-! ### Directory and IP-set primitives -/

def lookup {κ} [DecidableEq κ] (k : κ) : List (κ × Nat) → Option Nat
  | [] => none
  | (k', o) :: t => if k' = k then some o else lookup k t

/-- `RuleMgr.create_rule`: `os.symlink`; on EEXIST the call succeeds silently iff the existing link
    points to the same owner, otherwise the `OSError` propagates (`none`). -/
def createRule (k : RuleKey) (owner : Nat) (l : List (RuleKey × Nat)) : Option (List (RuleKey × Nat)) :=
  match lookup k l with
  | none => some (l ++ [(k, owner)])
  | some o' => if o' = owner then some l else none

/-- `EndpointsMgr.create_spec` (owner given): `os.symlink`; on EEXIST the basename of the existing
    target is compared with **`appname`** (not with the owner); unequal re-raises. -/
def createSpec (k : SpecKey) (owner : Nat) (l : List (SpecKey × Nat)) : Option (List (SpecKey × Nat)) :=
  match lookup k l with
  | none => some (l ++ [(k, owner)])
  | some o' => if o' = k.app then some l else none

/-- `RuleMgr.unlink_rule`: `readlink` the name; unlink it iff the owner matches (ENOENT ignored). -/
def unlinkFirst {κ} [DecidableEq κ] (k : κ) (owner : Nat) : List (κ × Nat) → List (κ × Nat)
  | [] => []
  | (k', o') :: t =>
    if k' = k then (if o' = owner then t else (k', o') :: t)
    else (k', o') :: unlinkFirst k owner t

/-- `EndpointsMgr.unlink_all(appname, owner=owner)`: every spec of `appname` (glob
    `appname~*~*~*~*~*`) whose link target basename is `owner`. -/
def unlinkAll (app owner : Nat) (l : List (SpecKey × Nat)) : List (SpecKey × Nat) :=
  l.filter (fun e => !(e.1.app = app && e.2 = owner))

/-- `ipset -exist add`. -/
def setAdd {α} [DecidableEq α] (x : α) (l : List α) : List α := if x ∈ l then l else l ++ [x]
/-- `ipset -exist del`. -/
def setDel {α} [DecidableEq α] (x : α) (l : List α) : List α := l.filter (fun y => y ≠ x)

/-! ### What a start registers, what a finish removes -/

inductive Reg
  | rule  (k : RuleKey) (owner : Nat)
  | spec  (k : SpecKey) (owner : Nat)
  | vring (ip : Nat)
  | infra (s : Svc)
  deriving DecidableEq, Repr

inductive Unreg
  | rule    (k : RuleKey) (owner : Nat)
  | specsOf (app owner : Nat)
  | vring   (ip : Nat)
  | infra   (s : Svc)
  deriving DecidableEq, Repr

def dnatKey (proto : Proto) (ext realPort vip port : Nat) : RuleKey :=
  ⟨.dnat, .dnat proto ext realPort vip port⟩
def snatKey (proto : Proto) (vip port ext realPort : Nat) : RuleKey :=
  ⟨.snat, .snat proto vip port ext realPort⟩
def passKey (src vip : Nat) : RuleKey := ⟨.passthrough, .pass src vip⟩

/-- Body of `for endpoint in app.endpoints` in `_unshare_network` (in call order; note the VRing
    set is touched only from inside this loop). -/
def epRegs (m : Manifest) (e : Endpoint) : List Reg :=
  [ .rule (dnatKey e.proto m.ext e.realPort m.vip e.port) m.owner,
    .rule (snatKey e.proto m.vip e.port m.ext e.realPort) m.owner,
    .spec ⟨m.app, e.proto, e.name, e.realPort, m.pid, e.port⟩ m.owner ]
  ++ (if m.vring then [.vring m.vip] else [])
  ++ (if e.infra then [.infra ⟨m.vip, e.proto, e.port⟩] else [])

/-- Body of the two ephemeral-port loops. -/
def ephRegs (m : Manifest) (proto : Proto) (port : Nat) : List Reg :=
  [ .rule (dnatKey proto m.ext port m.vip port) m.owner, .infra ⟨m.vip, proto, port⟩ ]

/-- `if getattr(app, 'passthrough', None)`: one rule per resolved address. -/
def ptRegs (m : Manifest) : List Reg :=
  match m.passthrough with
  | none => []
  | some ips => ips.map (fun ip => .rule (passKey ip m.vip) m.owner)

/-- Everything `_unshare_network` registers, in call order. -/
def startRegs (m : Manifest) : List Reg :=
  m.endpoints.flatMap (epRegs m) ++ m.ephTcp.flatMap (ephRegs m .tcp) ++
    m.ephUdp.flatMap (ephRegs m .udp) ++ ptRegs m

/-- `_cleanup_network` body after the network resource `(vip, ext)` was fetched, in call order. -/
def finishOps (vip ext : Nat) (m : Manifest) : List Unreg :=
  (match m.passthrough with
   | none => []
   | some ips => ips.map (fun ip => .rule (passKey ip vip) m.owner))
  ++ (if m.vring then [.vring vip] else [])
  ++ [.specsOf m.app m.owner]
  ++ m.endpoints.flatMap (fun e =>
        [ .rule (dnatKey e.proto ext e.realPort vip e.port) m.owner,
          .rule (snatKey e.proto vip e.port ext e.realPort) m.owner ]
        ++ (if e.infra then [.infra ⟨vip, e.proto, e.port⟩] else []))
  ++ m.ephTcp.flatMap (fun p => [ .infra ⟨vip, .tcp, p⟩, .rule (dnatKey .tcp ext p vip p) m.owner ])
  ++ m.ephUdp.flatMap (fun p => [ .infra ⟨vip, .udp, p⟩, .rule (dnatKey .udp ext p vip p) m.owner ])

/-- One registration; `none` = the call raised (EEXIST with a foreign owner). -/
def applyReg (h : Host) : Reg → Option Host
  | .rule k o => (createRule k o h.rules).map (fun r => { h with rules := r })
  | .spec k o => (createSpec k o h.specs).map (fun s => { h with specs := s })
  | .vring ip => some { h with vring := setAdd ip h.vring }
  | .infra s  => some { h with infra := setAdd s h.infra }

/-- Registrations in order; stops at the first call that raises and keeps what was done so far
    (second component `false`). -/
def applyRegs : Host → List Reg → Host × Bool
  | h, [] => (h, true)
  | h, r :: rs =>
    match applyReg h r with
    | some h' => applyRegs h' rs
    | none => (h, false)

def applyUnreg (h : Host) : Unreg → Host
  | .rule k o      => { h with rules := unlinkFirst k o h.rules }
  | .specsOf a o   => { h with specs := unlinkAll a o h.specs }
  | .vring ip      => { h with vring := setDel ip h.vring }
  | .infra s       => { h with infra := setDel s h.infra }

def applyUnregs (h : Host) (us : List Unreg) : Host := us.foldl applyUnreg h

/-- `_unshare_network`. -/
def unshareNetwork (m : Manifest) (h : Host) : Host × Bool := applyRegs h (startRegs m)

/-- `_cleanup_network`; `an` is what `network_client.get(unique_name)` returned
    (`none`: already freed / never allocated → return at once). -/
def cleanupNetwork (an : Option (Nat × Nat)) (m : Manifest) (h : Host) : Host :=
  match an with
  | none => h
  | some (vip, ext) => applyUnregs h (finishOps vip ext m)

/-- Container start as far as host registrations go: `run` calls `_unshare_network` only
    `if not app.shared_network`. -/
def start (m : Manifest) (h : Host) : Host × Bool :=
  if m.shared then (h, true) else unshareNetwork m h

/-- Container finish: `_cleanup` calls `_cleanup_network` only for a private network; the network
    service returns the allocation made at start. -/
def finish (m : Manifest) (h : Host) : Host :=
  if m.shared then h else cleanupNetwork (some (m.vip, m.ext)) m h

/-! ### Several containers: the network allocations bracket start and finish -/

/-- Host plus the containers that currently hold a network allocation (`network_client.put` in `run`
    … `network_client.delete` at the end of `_cleanup_network`), with the manifest saved by `run`. -/
structure Sys where
  host : Host
  live : List Manifest
  deriving Repr

def findLive (owner : Nat) : List Manifest → Option Manifest
  | [] => none
  | c :: t => if c.owner = owner then some c else findLive owner t

inductive Op
  | start    (m : Manifest)      -- `run`: allocate network, `_unshare_network`
  | finish   (m : Manifest)      -- `finish`: `_cleanup_network` incl. `network_client.delete`
  | refinish (m : Manifest)      -- `_cleanup_network` interrupted before `network_client.delete`
  | cutfinish (m : Manifest) (k : Nat)   -- `_cleanup_network` interrupted by a fault at its `(k+1)`-th removal
  deriving Repr

def Op.man : Op → Manifest
  | .start m => m
  | .finish m => m
  | .refinish m => m
  | .cutfinish m _ => m

def sysStart (m : Manifest) (s : Sys) : Sys × Bool :=
  if m.shared then (s, true)
  else
    let r := unshareNetwork m s.host
    -- `network_client.put`: a repeated request of a live container keeps its allocation
    ({ host := r.1, live := if (findLive m.owner s.live).isSome then s.live else s.live ++ [m] }, r.2)

/-- What `network_client.get(unique_name)` returns. -/
def netGet (owner : Nat) (live : List Manifest) : Option (Nat × Nat) :=
  (findLive owner live).map (fun c => (c.vip, c.ext))

def sysCleanup (release : Bool) (m : Manifest) (s : Sys) : Sys :=
  if m.shared then s
  else
    match netGet m.owner s.live with
    | none => s
    | some an =>
      { host := cleanupNetwork (some an) m s.host,
        live := if release then s.live.filter (fun c => c.owner ≠ m.owner) else s.live }

/-- `_cleanup_network` stopped by an exception raised by its `(k+1)`-th removal call (`unlink_rule`,
    `rm_ip_set`, `unlink_all`): the first `k` removals are done, the allocation is kept. -/
def sysCleanupCut (k : Nat) (m : Manifest) (s : Sys) : Sys :=
  if m.shared then s
  else
    match netGet m.owner s.live with
    | none => s
    | some an => { s with host := applyUnregs s.host ((finishOps an.1 an.2 m).take k) }

def sysStep (s : Sys) : Op → Sys
  | .start m => (sysStart m s).1
  | .finish m => sysCleanup true m s
  | .refinish m => sysCleanup false m s
  | .cutfinish m k => sysCleanupCut k m s

def sysRun (s : Sys) (ops : List Op) : Sys := ops.foldl sysStep s

/-! ### Port allocation (`runtime.allocate_network_ports`) -/

def prodLow : Nat := ExtNet.prodLow
def prodHigh : Nat := ExtNet.prodHigh
def nonprodLow : Nat := ExtNet.nonprodLow
def nonprodHigh : Nat := ExtNet.nonprodHigh
def portSpan : Nat := ExtNet.portSpan

/-- `six.moves.range(LOW, HIGH + 1)` of the pool `_allocate_sockets` samples from. -/
def poolLow (prod : Bool) : Nat := if prod then prodLow else nonprodLow
def poolHigh (prod : Bool) : Nat := if prod then prodHigh else nonprodHigh

def inPool (prod : Bool) (p : Nat) : Bool := decide (poolLow prod ≤ p) && decide (p ≤ poolHigh prod)

/-- The `for real_port in port_pool: … else: raise` loop of `_allocate_sockets`.  `bound` = ports
    of this socket type some socket on the host is bound to (the kernel refuses those with
    EADDRINUSE → `continue`); `acc` = sockets bound so far by this call.  `none` = the `else:` of
    the `for` (pool exhausted without reaching the `break`) → `ContainerSetupError`. -/
def allocLoop (bound : List Nat) (count : Nat) : List Nat → List Nat → Option (List Nat)
  | [], _ => none
  | p :: ps, acc =>
    if acc.length = count then some acc
    else if p ∈ bound ∨ p ∈ acc then allocLoop bound count ps acc
    else allocLoop bound count ps (acc ++ [p])

/-- An endpoint as `allocate_network_ports` sees it (before `real_port` exists). -/
structure EpReq where
  name  : Nat
  proto : Proto
  port  : Nat              -- 0 = "same as the real port"
  infra : Bool
  deriving DecidableEq, Repr

/-- `for idx, endpoint in enumerate(endpoints): endpoint['real_port'] = sockets[idx] …` for the
    endpoints of one protocol; returns the remaining sockets (the ephemeral ports).  Endpoints of
    the other protocol are untouched.  (`socks` always has enough elements: see `allocProto`.) -/
def assignEps (proto : Proto) : List (EpReq × Option Nat) → List Nat → List (EpReq × Option Nat) × List Nat
  | [], socks => ([], socks)
  | (e, rp) :: es, socks =>
    if e.proto = proto then
      match socks with
      | [] => let r := assignEps proto es []; ((e, rp) :: r.1, r.2)     -- IndexError in the code; unreachable
      | s :: ss =>
        let e' := if e.port = 0 then { e with port := s } else e
        let r := assignEps proto es ss
        ((e', some s) :: r.1, r.2)
    else
      let r := assignEps proto es socks
      ((e, rp) :: r.1, r.2)

/-- `_allocate_network_ports_proto`: `count = #endpoints of proto + ephemeral_count` sockets from the
    pool; first the endpoints in manifest order, the rest are the ephemeral ports. -/
def allocProto (proto : Proto) (bound : List Nat) (pool : List Nat)
    (eps : List (EpReq × Option Nat)) (ephCount : Nat) :
    Option (List (EpReq × Option Nat) × List Nat × List Nat) :=
  let n := (eps.filter (fun e => e.1.proto = proto)).length
  match allocLoop bound (n + ephCount) pool [] with
  | none => none
  | some socks =>
    let r := assignEps proto eps socks
    some (r.1, r.2, bound ++ socks)

/-- Ports bound on the host, per socket type. -/
structure Bound where
  tcp : List Nat
  udp : List Nat
  deriving DecidableEq, Repr

structure Alloc where
  eps    : List (EpReq × Option Nat)
  ephTcp : List Nat
  ephUdp : List Nat
  bound  : Bound
  deriving Repr

/-- `allocate_network_ports`: tcp first, then udp, each from its own freshly sampled pool
    (`random.sample` of the environment's range: see `PoolOk` in the lemmas). -/
def allocatePorts (b : Bound) (poolTcp poolUdp : List Nat) (eps : List EpReq)
    (nTcp nUdp : Nat) : Option Alloc :=
  match allocProto .tcp b.tcp poolTcp (eps.map (fun e => (e, none))) nTcp with
  | none => none
  | some (eps1, ephT, bt) =>
    match allocProto .udp b.udp poolUdp eps1 nUdp with
    | none => none
    | some (eps2, ephU, bu) => some { eps := eps2, ephTcp := ephT, ephUdp := ephU, bound := ⟨bt, bu⟩ }

end TmVerif.Net
