/- Helper lemmas about the container-network registration model (C16). -/
import TmVerif.Net.Model

namespace TmVerif.Net

/-! ### Directory primitives -/

theorem lookup_eq_none_iff {κ} [DecidableEq κ] (k : κ) (l : List (κ × Nat)) :
    lookup k l = none ↔ k ∉ l.map (·.1) := by
  induction l with
  | nil => simp [lookup]
  | cons a t ih =>
    obtain ⟨k', o⟩ := a
    by_cases hk : k' = k
    · simp [lookup, hk]
    · simp only [lookup, hk, ↓reduceIte, ih, List.map_cons, List.mem_cons]
      constructor
      · intro h h'; rcases h' with h' | h'
        · exact hk h'.symm
        · exact h h'
      · intro h h'; exact h (Or.inr h')

theorem lookup_some_mem {κ} [DecidableEq κ] (k : κ) (o : Nat) (l : List (κ × Nat))
    (h : lookup k l = some o) : (k, o) ∈ l := by
  induction l with
  | nil => simp [lookup] at h
  | cons a t ih =>
    obtain ⟨k', o'⟩ := a
    by_cases hk : k' = k
    · simp only [lookup, hk, ↓reduceIte, Option.some.injEq] at h
      subst hk; subst h; exact List.mem_cons_self
    · simp only [lookup, hk, ↓reduceIte] at h
      exact List.mem_cons_of_mem _ (ih h)

/-- On a directory (names unique) `unlink_rule` removes exactly the entry `(k, owner)`. -/
theorem unlinkFirst_eq_filter {κ} [DecidableEq κ] (k : κ) (o : Nat) (l : List (κ × Nat))
    (hnd : (l.map (·.1)).Nodup) :
    unlinkFirst k o l = l.filter (fun e => !(decide (e.1 = k) && decide (e.2 = o))) := by
  induction l with
  | nil => rfl
  | cons a t ih =>
    obtain ⟨k', o'⟩ := a
    simp only [List.map_cons, List.nodup_cons] at hnd
    obtain ⟨hk't, hndt⟩ := hnd
    by_cases hk : k' = k
    · subst hk
      have htail : t.filter (fun e => !(decide (e.1 = k') && decide (e.2 = o))) = t := by
        apply List.filter_eq_self.mpr
        intro e he
        have : e.1 ≠ k' := by
          intro heq; apply hk't; rw [← heq]; exact List.mem_map_of_mem he
        simp [this]
      by_cases ho : o' = o
      · simp only [unlinkFirst, ↓reduceIte, ho, List.filter_cons, decide_true, Bool.and_self,
          Bool.not_true, Bool.false_eq_true]
        exact htail.symm
      · simp only [unlinkFirst, ↓reduceIte, ho, List.filter_cons, decide_true, decide_false,
          Bool.and_false, Bool.not_false]
        rw [htail]
    · simp only [unlinkFirst, hk, ↓reduceIte, List.filter_cons, decide_false, Bool.false_and,
        Bool.not_false]
      rw [ih hndt]

theorem unlinkFirst_sublist {κ} [DecidableEq κ] (k : κ) (o : Nat) (l : List (κ × Nat)) :
    (unlinkFirst k o l).Sublist l := by
  induction l with
  | nil => exact List.Sublist.refl _
  | cons a t ih =>
    obtain ⟨k', o'⟩ := a
    simp only [unlinkFirst]
    split
    · split
      · exact List.sublist_cons_self _ _
      · exact List.Sublist.refl _
    · exact ih.cons_cons _

/-- `unlink_rule` never touches an entry of another owner (no assumption on the directory). -/
theorem unlinkFirst_frame {κ} [DecidableEq κ] (k : κ) (o : Nat) (l : List (κ × Nat)) (p : Nat → Bool)
    (hp : p o = false) :
    (unlinkFirst k o l).filter (fun e => p e.2) = l.filter (fun e => p e.2) := by
  induction l with
  | nil => rfl
  | cons a t ih =>
    obtain ⟨k', o'⟩ := a
    simp only [unlinkFirst]
    split
    · split
      · rename_i ho; subst ho; simp [hp]
      · rfl
    · simp only [List.filter_cons, ih]

/-! ### Well-formed hosts: file names in the rules directory are unique -/

/-- The file-system guarantee the model relies on: one entry per file name in the rules directory. -/
def Host.WF (h : Host) : Prop := (h.rules.map (·.1)).Nodup

theorem createRule_wf (k : RuleKey) (o : Nat) (l l' : List (RuleKey × Nat))
    (hnd : (l.map (·.1)).Nodup) (h : createRule k o l = some l') : (l'.map (·.1)).Nodup := by
  unfold createRule at h
  split at h
  · rename_i hl
    simp only [Option.some.injEq] at h
    subst h
    rw [List.map_append, List.nodup_append]
    refine ⟨hnd, by simp, ?_⟩
    intro a ha b hb
    simp only [List.map_cons, List.map_nil, List.mem_singleton] at hb
    subst hb
    intro heq; subst heq
    exact (lookup_eq_none_iff _ l).mp hl ha
  · split at h
    · simp only [Option.some.injEq] at h; subst h; exact hnd
    · cases h

/-! ### `applyRegs` only appends, and only what it was asked to register -/

/-- `h'` extends `h` by entries that all satisfy `P` (as registrations). -/
structure Ext (P : Reg → Prop) (h h' : Host) : Prop where
  rules : ∃ n, h'.rules = h.rules ++ n ∧ ∀ e ∈ n, P (.rule e.1 e.2)
  specs : ∃ n, h'.specs = h.specs ++ n ∧ ∀ e ∈ n, P (.spec e.1 e.2)
  vring : ∃ n, h'.vring = h.vring ++ n ∧ ∀ e ∈ n, P (.vring e)
  infra : ∃ n, h'.infra = h.infra ++ n ∧ ∀ e ∈ n, P (.infra e)

theorem Ext.refl (P : Reg → Prop) (h : Host) : Ext P h h :=
  ⟨⟨[], by simp⟩, ⟨[], by simp⟩, ⟨[], by simp⟩, ⟨[], by simp⟩⟩

theorem Ext.trans {P : Reg → Prop} {a b c : Host} (h1 : Ext P a b) (h2 : Ext P b c) : Ext P a c := by
  obtain ⟨⟨r1, e1, p1⟩, ⟨s1, f1, q1⟩, ⟨v1, g1, t1⟩, ⟨i1, k1, u1⟩⟩ := h1
  obtain ⟨⟨r2, e2, p2⟩, ⟨s2, f2, q2⟩, ⟨v2, g2, t2⟩, ⟨i2, k2, u2⟩⟩ := h2
  refine ⟨⟨r1 ++ r2, by rw [e2, e1, List.append_assoc], ?_⟩, ⟨s1 ++ s2, by rw [f2, f1, List.append_assoc], ?_⟩,
    ⟨v1 ++ v2, by rw [g2, g1, List.append_assoc], ?_⟩, ⟨i1 ++ i2, by rw [k2, k1, List.append_assoc], ?_⟩⟩
  · intro e he; rcases List.mem_append.mp he with he | he
    · exact p1 e he
    · exact p2 e he
  · intro e he; rcases List.mem_append.mp he with he | he
    · exact q1 e he
    · exact q2 e he
  · intro e he; rcases List.mem_append.mp he with he | he
    · exact t1 e he
    · exact t2 e he
  · intro e he; rcases List.mem_append.mp he with he | he
    · exact u1 e he
    · exact u2 e he

theorem Ext.mono {P Q : Reg → Prop} {a b : Host} (h : Ext P a b) (hpq : ∀ r, P r → Q r) : Ext Q a b := by
  obtain ⟨⟨r1, e1, p1⟩, ⟨s1, f1, q1⟩, ⟨v1, g1, t1⟩, ⟨i1, k1, u1⟩⟩ := h
  exact ⟨⟨r1, e1, fun e he => hpq _ (p1 e he)⟩, ⟨s1, f1, fun e he => hpq _ (q1 e he)⟩,
    ⟨v1, g1, fun e he => hpq _ (t1 e he)⟩, ⟨i1, k1, fun e he => hpq _ (u1 e he)⟩⟩

theorem setAdd_ext {α} [DecidableEq α] (x : α) (l : List α) :
    ∃ n, setAdd x l = l ++ n ∧ ∀ e ∈ n, e = x := by
  unfold setAdd
  split
  · exact ⟨[], by simp⟩
  · exact ⟨[x], rfl, by simp⟩

theorem applyReg_ext (h h' : Host) (r : Reg) (hr : applyReg h r = some h') : Ext (· = r) h h' := by
  cases r with
  | rule k o =>
    simp only [applyReg, Option.map_eq_some_iff] at hr
    obtain ⟨l', hc, rfl⟩ := hr
    refine ⟨?_, ⟨[], by simp⟩, ⟨[], by simp⟩, ⟨[], by simp⟩⟩
    unfold createRule at hc
    split at hc
    · simp only [Option.some.injEq] at hc; subst hc
      exact ⟨[(k, o)], rfl, by simp⟩
    · split at hc
      · simp only [Option.some.injEq] at hc; subst hc; exact ⟨[], by simp⟩
      · cases hc
  | spec k o =>
    simp only [applyReg, Option.map_eq_some_iff] at hr
    obtain ⟨l', hc, rfl⟩ := hr
    refine ⟨⟨[], by simp⟩, ?_, ⟨[], by simp⟩, ⟨[], by simp⟩⟩
    unfold createSpec at hc
    split at hc
    · simp only [Option.some.injEq] at hc; subst hc
      exact ⟨[(k, o)], rfl, by simp⟩
    · split at hc
      · simp only [Option.some.injEq] at hc; subst hc; exact ⟨[], by simp⟩
      · cases hc
  | vring ip =>
    simp only [applyReg, Option.some.injEq] at hr
    subst hr
    obtain ⟨n, hn, hp⟩ := setAdd_ext ip h.vring
    exact ⟨⟨[], by simp⟩, ⟨[], by simp⟩, ⟨n, hn, fun e he => by rw [hp e he]⟩, ⟨[], by simp⟩⟩
  | infra s =>
    simp only [applyReg, Option.some.injEq] at hr
    subst hr
    obtain ⟨n, hn, hp⟩ := setAdd_ext s h.infra
    exact ⟨⟨[], by simp⟩, ⟨[], by simp⟩, ⟨[], by simp⟩, ⟨n, hn, fun e he => by rw [hp e he]⟩⟩

theorem applyReg_wf (h h' : Host) (r : Reg) (hwf : h.WF) (hr : applyReg h r = some h') : h'.WF := by
  cases r with
  | rule k o =>
    simp only [applyReg, Option.map_eq_some_iff] at hr
    obtain ⟨l', hc, rfl⟩ := hr
    exact createRule_wf k o h.rules l' hwf hc
  | spec k o =>
    simp only [applyReg, Option.map_eq_some_iff] at hr
    obtain ⟨l', _, rfl⟩ := hr
    exact hwf
  | vring ip => simp only [applyReg, Option.some.injEq] at hr; subst hr; exact hwf
  | infra s => simp only [applyReg, Option.some.injEq] at hr; subst hr; exact hwf

/-- Whatever `applyRegs` does (complete or aborted), the result extends the host by entries taken
    from the list, and stays well formed. -/
theorem applyRegs_ext (rs : List Reg) : ∀ h : Host, Ext (· ∈ rs) h (applyRegs h rs).1 := by
  induction rs with
  | nil => intro h; exact Ext.refl _ h
  | cons r rs ih =>
    intro h
    simp only [applyRegs]
    cases hr : applyReg h r with
    | none => exact Ext.refl _ h
    | some h' =>
      simp only
      have h1 : Ext (· ∈ r :: rs) h h' := (applyReg_ext h h' r hr).mono (fun x hx => by rw [hx]; exact List.mem_cons_self)
      have h2 : Ext (· ∈ r :: rs) h' (applyRegs h' rs).1 := (ih h').mono (fun x hx => List.mem_cons_of_mem _ hx)
      exact h1.trans h2

theorem applyRegs_wf (rs : List Reg) : ∀ h : Host, h.WF → (applyRegs h rs).1.WF := by
  induction rs with
  | nil => intro h hwf; exact hwf
  | cons r rs ih =>
    intro h hwf
    simp only [applyRegs]
    cases hr : applyReg h r with
    | none => exact hwf
    | some h' => exact ih h' (applyReg_wf h h' r hwf hr)

/-! ### `applyUnregs` in filter form -/

theorem filter_true' {α} (l : List α) : l.filter (fun _ => true) = l := by
  induction l with
  | nil => rfl
  | cons a t ih => simp [ih]


theorem applyUnreg_wf (h : Host) (u : Unreg) (hwf : h.WF) : (applyUnreg h u).WF := by
  cases u with
  | rule k o => exact ((unlinkFirst_sublist k o h.rules).map _).nodup hwf
  | specsOf a o => exact hwf
  | vring ip => exact hwf
  | infra s => exact hwf

theorem applyUnregs_wf (us : List Unreg) : ∀ h : Host, h.WF → (applyUnregs h us).WF := by
  induction us with
  | nil => intro h hwf; exact hwf
  | cons u us ih => intro h hwf; exact ih _ (applyUnreg_wf h u hwf)

theorem applyUnregs_cons (h : Host) (u : Unreg) (us : List Unreg) :
    applyUnregs h (u :: us) = applyUnregs (applyUnreg h u) us := rfl

/-- Rules directory after a sequence of removals: exactly the entries `(k, o)` for which an
    `unlink_rule k o` was issued are gone (needs unique file names). -/
theorem applyUnregs_rules (us : List Unreg) : ∀ h : Host, h.WF →
    (applyUnregs h us).rules = h.rules.filter (fun e => decide (Unreg.rule e.1 e.2 ∉ us)) := by
  induction us with
  | nil => intro h _; simp only [applyUnregs, List.foldl_nil, List.not_mem_nil, not_false_eq_true, decide_true]; exact (filter_true' _).symm
  | cons u us ih =>
    intro h hwf
    rw [applyUnregs_cons, ih _ (applyUnreg_wf h u hwf)]
    cases u with
    | rule k o =>
      simp only [applyUnreg]
      rw [unlinkFirst_eq_filter k o h.rules hwf, List.filter_filter]
      apply List.filter_congr
      intro e _
      obtain ⟨k', o'⟩ := e
      by_cases hk : k' = k <;> by_cases ho : o' = o <;> simp [hk, ho]
    | specsOf a o => simp [applyUnreg]
    | vring ip => simp [applyUnreg]
    | infra s => simp [applyUnreg]

theorem applyUnregs_specs (us : List Unreg) : ∀ h : Host,
    (applyUnregs h us).specs = h.specs.filter (fun e => decide (Unreg.specsOf e.1.app e.2 ∉ us)) := by
  induction us with
  | nil => intro h; simp only [applyUnregs, List.foldl_nil, List.not_mem_nil, not_false_eq_true, decide_true]; exact (filter_true' _).symm
  | cons u us ih =>
    intro h
    rw [applyUnregs_cons, ih]
    cases u with
    | rule k o => simp [applyUnreg]
    | specsOf a o =>
      simp only [applyUnreg, unlinkAll]
      rw [List.filter_filter]
      apply List.filter_congr
      intro e _
      by_cases hk : e.1.app = a <;> by_cases ho : e.2 = o <;> simp [hk, ho]
    | vring ip => simp [applyUnreg]
    | infra s => simp [applyUnreg]

theorem applyUnregs_vring (us : List Unreg) : ∀ h : Host,
    (applyUnregs h us).vring = h.vring.filter (fun x => decide (Unreg.vring x ∉ us)) := by
  induction us with
  | nil => intro h; simp only [applyUnregs, List.foldl_nil, List.not_mem_nil, not_false_eq_true, decide_true]; exact (filter_true' _).symm
  | cons u us ih =>
    intro h
    rw [applyUnregs_cons, ih]
    cases u with
    | rule k o => simp [applyUnreg]
    | specsOf a o => simp [applyUnreg]
    | vring ip =>
      simp only [applyUnreg, setDel]
      rw [List.filter_filter]
      apply List.filter_congr
      intro e _
      by_cases hk : e = ip <;> simp [hk]
    | infra s => simp [applyUnreg]

theorem applyUnregs_infra (us : List Unreg) : ∀ h : Host,
    (applyUnregs h us).infra = h.infra.filter (fun x => decide (Unreg.infra x ∉ us)) := by
  induction us with
  | nil => intro h; simp only [applyUnregs, List.foldl_nil, List.not_mem_nil, not_false_eq_true, decide_true]; exact (filter_true' _).symm
  | cons u us ih =>
    intro h
    rw [applyUnregs_cons, ih]
    cases u with
    | rule k o => simp [applyUnreg]
    | specsOf a o => simp [applyUnreg]
    | vring ip => simp [applyUnreg]
    | infra s =>
      simp only [applyUnreg, setDel]
      rw [List.filter_filter]
      apply List.filter_congr
      intro e _
      by_cases hk : e = s <;> simp [hk]

/-! ### What `finishOps` contains -/

theorem finishOps_rule_owner (v x : Nat) (m : Manifest) (k : RuleKey) (o : Nat)
    (h : Unreg.rule k o ∈ finishOps v x m) : o = m.owner := by
  unfold finishOps at h
  cases hp : m.passthrough <;> simp [hp] at h <;> grind

theorem finishOps_specs (v x : Nat) (m : Manifest) (a o : Nat) :
    Unreg.specsOf a o ∈ finishOps v x m ↔ a = m.app ∧ o = m.owner := by
  unfold finishOps
  cases m.passthrough <;> simp <;> grind

theorem finishOps_vring (v x : Nat) (m : Manifest) (ip : Nat) :
    Unreg.vring ip ∈ finishOps v x m ↔ m.vring = true ∧ ip = v := by
  unfold finishOps
  cases m.passthrough <;> simp <;> grind

theorem finishOps_infra_ip (v x : Nat) (m : Manifest) (s : Svc)
    (h : Unreg.infra s ∈ finishOps v x m) : s.ip = v := by
  unfold finishOps at h
  cases hp : m.passthrough <;> simp [hp] at h <;> grind

/-! ### Coverage: everything `_unshare_network` registers is on `_cleanup_network`'s list -/

theorem cover_rule (m : Manifest) (k : RuleKey) (o : Nat) (h : Reg.rule k o ∈ startRegs m) :
    Unreg.rule k o ∈ finishOps m.vip m.ext m := by
  unfold startRegs epRegs ephRegs ptRegs at h
  unfold finishOps
  cases hp : m.passthrough <;> simp [hp] at h ⊢ <;> grind

theorem cover_spec (m : Manifest) (k : SpecKey) (o : Nat) (h : Reg.spec k o ∈ startRegs m) :
    k.app = m.app ∧ o = m.owner := by
  unfold startRegs epRegs ephRegs ptRegs at h
  cases hp : m.passthrough <;> simp [hp] at h <;> grind

theorem cover_vring (m : Manifest) (ip : Nat) (h : Reg.vring ip ∈ startRegs m) :
    m.vring = true ∧ ip = m.vip := by
  unfold startRegs epRegs ephRegs ptRegs at h
  cases hp : m.passthrough <;> simp [hp] at h <;> grind

theorem cover_infra (m : Manifest) (s : Svc) (h : Reg.infra s ∈ startRegs m) :
    Unreg.infra s ∈ finishOps m.vip m.ext m := by
  unfold startRegs epRegs ephRegs ptRegs at h
  unfold finishOps
  cases hp : m.passthrough <;> simp [hp] at h ⊢ <;> grind

/-! ### Frame: removals only touch what belongs to the container -/

/-- A removal that belongs to the container with unique name `o` and address `v`. -/
def OwnU (o v : Nat) : Unreg → Prop
  | .rule _ o' => o' = o
  | .specsOf _ o' => o' = o
  | .vring ip => ip = v
  | .infra s => s.ip = v

theorem finishOps_own (v x : Nat) (m : Manifest) : ∀ u ∈ finishOps v x m, OwnU m.owner v u := by
  intro u hu
  cases u with
  | rule k o => exact finishOps_rule_owner v x m k o hu
  | specsOf a o => exact ((finishOps_specs v x m a o).mp hu).2
  | vring ip => exact ((finishOps_vring v x m ip).mp hu).2
  | infra s => exact finishOps_infra_ip v x m s hu

/-- Entries selected by a predicate on the owner (resp. address) that rejects the container's own
    name (resp. address) are untouched by its removals — no assumption on the host. -/
theorem applyUnregs_frame (o v : Nat) (p q : Nat → Bool) (hp : p o = false) (hq : q v = false)
    (us : List Unreg) : ∀ h : Host, (∀ u ∈ us, OwnU o v u) →
    (applyUnregs h us).rules.filter (fun e => p e.2) = h.rules.filter (fun e => p e.2) ∧
    (applyUnregs h us).specs.filter (fun e => p e.2) = h.specs.filter (fun e => p e.2) ∧
    (applyUnregs h us).vring.filter q = h.vring.filter q ∧
    (applyUnregs h us).infra.filter (fun s => q s.ip) = h.infra.filter (fun s => q s.ip) := by
  induction us with
  | nil => intro h _; exact ⟨rfl, rfl, rfl, rfl⟩
  | cons u us ih =>
    intro h hown
    rw [applyUnregs_cons]
    obtain ⟨i1, i2, i3, i4⟩ := ih (applyUnreg h u) (fun u' hu' => hown u' (List.mem_cons_of_mem _ hu'))
    rw [i1, i2, i3, i4]
    have hu := hown u List.mem_cons_self
    cases u with
    | rule k o' =>
      have : o' = o := hu
      subst this
      exact ⟨unlinkFirst_frame k o' h.rules p hp, rfl, rfl, rfl⟩
    | specsOf a o' =>
      have : o' = o := hu
      subst this
      refine ⟨rfl, ?_, rfl, rfl⟩
      simp only [applyUnreg, unlinkAll, List.filter_filter]
      apply List.filter_congr
      intro e _
      by_cases ho : e.2 = o'
      · rw [ho, hp]; rfl
      · simp [ho]
    | vring ip =>
      have : ip = v := hu
      subst this
      refine ⟨rfl, rfl, ?_, rfl⟩
      simp only [applyUnreg, setDel, List.filter_filter]
      apply List.filter_congr
      intro e _
      by_cases he : e = ip
      · rw [he, hq]; rfl
      · simp [he]
    | infra s =>
      have : s.ip = v := hu
      subst this
      refine ⟨rfl, rfl, rfl, ?_⟩
      simp only [applyUnreg, setDel, List.filter_filter]
      apply List.filter_congr
      intro e _
      by_cases he : e = s
      · rw [he, hq]; rfl
      · simp [he]

/-- A registration that belongs to the container with unique name `o` and address `v`. -/
def RegOwn (o v : Nat) : Reg → Prop
  | .rule _ o' => o' = o
  | .spec _ o' => o' = o
  | .vring ip => ip = v
  | .infra s => s.ip = v

/-- Same for registrations: an extension by entries of owner `o` / address `v`. -/
theorem Ext.frame {o v : Nat} {h h' : Host}
    (hx : Ext (RegOwn o v) h h')
    (p q : Nat → Bool) (hp : p o = false) (hq : q v = false) :
    h'.rules.filter (fun e => p e.2) = h.rules.filter (fun e => p e.2) ∧
    h'.specs.filter (fun e => p e.2) = h.specs.filter (fun e => p e.2) ∧
    h'.vring.filter q = h.vring.filter q ∧
    h'.infra.filter (fun s => q s.ip) = h.infra.filter (fun s => q s.ip) := by
  obtain ⟨⟨r, er, pr⟩, ⟨s, es, ps⟩, ⟨w, ev, pv⟩, ⟨i, ei, pi⟩⟩ := hx
  refine ⟨?_, ?_, ?_, ?_⟩
  · rw [er, List.filter_append]
    have : r.filter (fun e => p e.2) = [] := by
      apply List.filter_eq_nil_iff.mpr
      intro e he; rw [show e.2 = o from pr e he, hp]; simp
    rw [this, List.append_nil]
  · rw [es, List.filter_append]
    have : s.filter (fun e => p e.2) = [] := by
      apply List.filter_eq_nil_iff.mpr
      intro e he; rw [show e.2 = o from ps e he, hp]; simp
    rw [this, List.append_nil]
  · rw [ev, List.filter_append]
    have : w.filter q = [] := by
      apply List.filter_eq_nil_iff.mpr
      intro e he; rw [show e = v from pv e he, hq]; simp
    rw [this, List.append_nil]
  · rw [ei, List.filter_append]
    have : i.filter (fun s => q s.ip) = [] := by
      apply List.filter_eq_nil_iff.mpr
      intro e he; rw [show e.ip = v from pi e he, hq]; simp
    rw [this, List.append_nil]

/-- What `startRegs m` registers belongs to `m`. -/
theorem startRegs_own (m : Manifest) (r : Reg) (hr : r ∈ startRegs m) : RegOwn m.owner m.vip r := by
  cases r with
  | rule k o => exact finishOps_rule_owner _ _ m k o (cover_rule m k o hr)
  | spec k o => exact (cover_spec m k o hr).2
  | vring ip => exact (cover_vring m ip hr).2
  | infra s => exact finishOps_infra_ip _ _ m s (cover_infra m s hr)

theorem Host.ext' {a b : Host} (h1 : a.rules = b.rules) (h2 : a.specs = b.specs)
    (h3 : a.vring = b.vring) (h4 : a.infra = b.infra) : a = b := by
  cases a; cases b; simp_all

/-! ### Interleavings: a per-component invariant

  One component of the host is a list `l` of entries; `tag e` says whom an entry is attributed to
  (link-target owner, or the address in an IP-set entry), `tg c` is the corresponding attribute of
  container `c`, `rm c e` says that `finish c` removes `e`.  `l0` is the component before any of the
  containers under consideration started. -/

section Generic
variable {α : Type} (tag : α → Nat) (rm : Manifest → α → Bool) (tg : Manifest → Nat)

/-- (1) what is not attributed to a live container is exactly the initial content, in order;
    (2) what is attributed to a live container is on that container's removal list. -/
def CInv (l0 l : List α) (live : List Manifest) : Prop :=
  l.filter (fun e => decide (tag e ∉ live.map tg)) = l0 ∧
  ∀ e ∈ l, ∀ c ∈ live, tag e = tg c → rm c e = true

theorem CInv.init (l0 : List α) : CInv tag rm tg l0 l0 [] := by
  refine ⟨?_, ?_⟩
  · simp only [List.map_nil, List.not_mem_nil, not_false_eq_true, decide_true]
    exact filter_true' l0
  · intro e _ c hc; cases hc

theorem CInv.done {l0 l : List α} (h : CInv tag rm tg l0 l []) : l = l0 := by
  have := h.1
  simp only [List.map_nil, List.not_mem_nil, not_false_eq_true, decide_true] at this
  rw [filter_true'] at this; exact this

theorem CInv.start {l0 l new : List α} {live : List Manifest} {m : Manifest}
    (hinv : CInv tag rm tg l0 l live) (hm : tg m ∉ live.map tg)
    (hfresh : ∀ e ∈ l0, tag e ≠ tg m)
    (hnew : ∀ e ∈ new, tag e = tg m ∧ rm m e = true) :
    CInv tag rm tg l0 (l ++ new) (live ++ [m]) := by
  obtain ⟨h1, h2⟩ := hinv
  -- an old entry is never attributed to the newcomer
  have hold : ∀ e ∈ l, tag e ≠ tg m := by
    intro e he heq
    by_cases hl : tag e ∈ live.map tg
    · rw [heq] at hl; exact hm hl
    · have : e ∈ l.filter (fun e => decide (tag e ∉ live.map tg)) :=
        List.mem_filter.mpr ⟨he, by simpa using hl⟩
      rw [h1] at this
      exact hfresh e this heq
  refine ⟨?_, ?_⟩
  · rw [List.filter_append]
    have hn : new.filter (fun e => decide (tag e ∉ (live ++ [m]).map tg)) = [] := by
      apply List.filter_eq_nil_iff.mpr
      intro e he
      simp [(hnew e he).1]
    rw [hn, List.append_nil, ← h1]
    apply List.filter_congr
    intro e he
    have := hold e he
    simp [this]
  · intro e he c hc heq
    rcases List.mem_append.mp he with he | he
    · rcases List.mem_append.mp hc with hc | hc
      · exact h2 e he c hc heq
      · simp only [List.mem_singleton] at hc; subst hc
        exact absurd heq (hold e he)
    · rcases List.mem_append.mp hc with hc | hc
      · exfalso; apply hm
        rw [← (hnew e he).1, heq]; exact List.mem_map_of_mem hc
      · simp only [List.mem_singleton] at hc; subst hc
        exact (hnew e he).2

theorem CInv.finish {l0 l : List α} {live live' : List Manifest} {m : Manifest}
    (hinv : CInv tag rm tg l0 l live) (hmem : m ∈ live)
    (huniq : ∀ c ∈ live, tg c = tg m → c = m)
    (hrm : ∀ e, rm m e = true → tag e = tg m)
    (hl' : ∀ c, c ∈ live' ↔ c ∈ live ∧ c ≠ m) :
    CInv tag rm tg l0 (l.filter (fun e => !rm m e)) live' := by
  obtain ⟨h1, h2⟩ := hinv
  refine ⟨?_, ?_⟩
  · rw [List.filter_filter, ← h1]
    apply List.filter_congr
    intro e he
    by_cases hl : tag e ∈ live.map tg
    · -- attributed to a live container c
      obtain ⟨c, hc, hce⟩ := List.mem_map.mp hl
      by_cases hcm : c = m
      · subst hcm
        have := h2 e he c hc hce.symm
        simp [this, hl]
      · have : tag e ∈ live'.map tg := List.mem_map.mpr ⟨c, (hl' c).mpr ⟨hc, hcm⟩, hce⟩
        simp [this, hl]
    · have h3 : tag e ∉ live'.map tg := by
        intro hm'
        obtain ⟨c, hc, hce⟩ := List.mem_map.mp hm'
        exact hl (List.mem_map.mpr ⟨c, ((hl' c).mp hc).1, hce⟩)
      have h4 : rm m e = false := by
        cases hr : rm m e with
        | false => rfl
        | true =>
          exfalso; apply hl
          rw [hrm e hr]; exact List.mem_map_of_mem hmem
      simp [h3, h4, hl]
  · intro e he c hc heq
    exact h2 e (List.mem_filter.mp he).1 c ((hl' c).mp hc).1 heq

theorem CInv.refinish {l0 l : List α} {live : List Manifest} {m : Manifest}
    (hinv : CInv tag rm tg l0 l live) (hmem : m ∈ live)
    (hrm : ∀ e, rm m e = true → tag e = tg m) :
    CInv tag rm tg l0 (l.filter (fun e => !rm m e)) live := by
  obtain ⟨h1, h2⟩ := hinv
  refine ⟨?_, ?_⟩
  · rw [List.filter_filter, ← h1]
    apply List.filter_congr
    intro e _
    by_cases hl : tag e ∈ live.map tg
    · simp [hl]
    · have h4 : rm m e = false := by
        cases hr : rm m e with
        | false => rfl
        | true =>
          exfalso; apply hl
          rw [hrm e hr]; exact List.mem_map_of_mem hmem
      simp [hl, h4]
  · intro e he c hc heq
    exact h2 e (List.mem_filter.mp he).1 c hc heq

/-- Removing any entries attributed to a live container keeps the invariant. -/
theorem CInv.partial {l0 l : List α} {live : List Manifest} {m : Manifest} {r : α → Bool}
    (hinv : CInv tag rm tg l0 l live) (hmem : m ∈ live)
    (hr : ∀ e, r e = true → tag e = tg m) :
    CInv tag rm tg l0 (l.filter (fun e => !r e)) live := by
  obtain ⟨h1, h2⟩ := hinv
  refine ⟨?_, ?_⟩
  · rw [List.filter_filter, ← h1]
    apply List.filter_congr
    intro e _
    by_cases hl : tag e ∈ live.map tg
    · simp [hl]
    · have h4 : r e = false := by
        cases hre : r e with
        | false => rfl
        | true =>
          exfalso; apply hl
          rw [hr e hre]; exact List.mem_map_of_mem hmem
      simp [hl, h4]
  · intro e he c hc heq
    exact h2 e (List.mem_filter.mp he).1 c hc heq

end Generic

/-! ### Interleavings of several containers -/

/-- Nothing on the host is attributed to `m`'s container yet: no rule file or endpoint spec links to
    its unique name, and its address is in neither IP set.  (Unique names are never reused and
    the network service hands a VIP to one container at a time.) -/
def OwnedFresh (h : Host) (m : Manifest) : Prop :=
  (∀ e ∈ h.rules, e.2 ≠ m.owner) ∧ (∀ e ∈ h.specs, e.2 ≠ m.owner) ∧
  m.vip ∉ h.vring ∧ (∀ s ∈ h.infra, s.ip ≠ m.vip)

instance (h : Host) (m : Manifest) : Decidable (OwnedFresh h m) := by
  unfold OwnedFresh; infer_instance

/-- What the environment guarantees for one step of an interleaving:
    * `start m` of a private-network container: its unique name is not in use and the network
      service grants an address that no live container holds (VIP exclusivity is C14's theorem);
    * `finish m` / `refinish m`: the manifest loaded from `state.json` is the one `run` saved. -/
def OpOk (s : Sys) : Op → Prop
  | .start m => m.shared = false → ∀ c ∈ s.live, c.owner ≠ m.owner ∧ c.vip ≠ m.vip
  | .finish m => ∀ c ∈ s.live, c.owner = m.owner → c = m
  | .refinish m => ∀ c ∈ s.live, c.owner = m.owner → c = m
  | .cutfinish m _ => ∀ c ∈ s.live, c.owner = m.owner → c = m

def Valid (s : Sys) : List Op → Prop
  | [] => True
  | op :: ops => OpOk s op ∧ Valid (sysStep s op) ops

def rmRule (c : Manifest) (e : RuleKey × Nat) : Bool := decide (Unreg.rule e.1 e.2 ∈ finishOps c.vip c.ext c)
def rmSpec (c : Manifest) (e : SpecKey × Nat) : Bool := decide (Unreg.specsOf e.1.app e.2 ∈ finishOps c.vip c.ext c)
def rmVring (c : Manifest) (x : Nat) : Bool := decide (Unreg.vring x ∈ finishOps c.vip c.ext c)
def rmInfra (c : Manifest) (x : Svc) : Bool := decide (Unreg.infra x ∈ finishOps c.vip c.ext c)

/-- The invariant of every valid interleaving that begins on host `h0` with no live container. -/
structure SInv (h0 : Host) (s : Sys) : Prop where
  wf    : s.host.WF
  priv  : ∀ c ∈ s.live, c.shared = false
  vips  : ∀ a ∈ s.live, ∀ b ∈ s.live, a.vip = b.vip → a = b
  rules : CInv (fun e : RuleKey × Nat => e.2) rmRule (·.owner) h0.rules s.host.rules s.live
  specs : CInv (fun e : SpecKey × Nat => e.2) rmSpec (·.owner) h0.specs s.host.specs s.live
  vring : CInv (fun x : Nat => x) rmVring (·.vip) h0.vring s.host.vring s.live
  infra : CInv (fun x : Svc => x.ip) rmInfra (·.vip) h0.infra s.host.infra s.live

theorem SInv.init (h0 : Host) (hwf : h0.WF) : SInv h0 ⟨h0, []⟩ :=
  ⟨hwf, (by intro c hc; cases hc), (by intro a ha; cases ha),
    CInv.init _ _ _ _, CInv.init _ _ _ _, CInv.init _ _ _ _, CInv.init _ _ _ _⟩

theorem findLive_none (o : Nat) (live : List Manifest) (h : ∀ c ∈ live, c.owner ≠ o) :
    findLive o live = none := by
  induction live with
  | nil => rfl
  | cons c t ih =>
    have hc := h c List.mem_cons_self
    simp only [findLive, hc, ↓reduceIte]
    exact ih (fun c' hc' => h c' (List.mem_cons_of_mem _ hc'))

theorem findLive_some (o : Nat) (live : List Manifest) (c : Manifest) (h : findLive o live = some c) :
    c ∈ live ∧ c.owner = o := by
  induction live with
  | nil => simp [findLive] at h
  | cons a t ih =>
    simp only [findLive] at h
    split at h
    · rename_i ho; simp only [Option.some.injEq] at h; subst h; exact ⟨List.mem_cons_self, ho⟩
    · obtain ⟨h1, h2⟩ := ih h; exact ⟨List.mem_cons_of_mem _ h1, h2⟩

theorem findLive_eq_none (o : Nat) (live : List Manifest) (h : findLive o live = none) :
    ∀ c ∈ live, c.owner ≠ o := by
  induction live with
  | nil => intro c hc; cases hc
  | cons a t ih =>
    simp only [findLive] at h
    split at h
    · cases h
    · rename_i ho
      intro c hc
      rcases List.mem_cons.mp hc with rfl | hc
      · exact ho
      · exact ih h c hc

theorem SInv.start {h0 : Host} {s : Sys} {m : Manifest} (hinv : SInv h0 s)
    (hok : OpOk s (.start m)) (hfresh : OwnedFresh h0 m) : SInv h0 (sysStart m s).1 := by
  unfold sysStart
  by_cases hs : m.shared = true
  · simp only [hs, ↓reduceIte]; exact hinv
  · have hs' : m.shared = false := by simpa using hs
    simp only [hs, Bool.false_eq_true, ↓reduceIte, unshareNetwork]
    have hok' := hok hs'
    have hnone : findLive m.owner s.live = none := findLive_none _ _ (fun c hc => (hok' c hc).1)
    simp only [hnone, Option.isSome_none, Bool.false_eq_true, ↓reduceIte]
    have hx := applyRegs_ext (startRegs m) s.host
    have hwf' := applyRegs_wf (startRegs m) s.host hinv.wf
    generalize (applyRegs s.host (startRegs m)).1 = h' at hx hwf'
    obtain ⟨⟨r, er, pr⟩, ⟨sp, es, ps⟩, ⟨w, ev, pv⟩, ⟨i, ei, pi⟩⟩ := hx
    obtain ⟨f1, f2, f3, f4⟩ := hfresh
    have hown : m.owner ∉ s.live.map (·.owner) := by
      intro hm; obtain ⟨c, hc, hce⟩ := List.mem_map.mp hm; exact (hok' c hc).1 hce
    have hvip : m.vip ∉ s.live.map (·.vip) := by
      intro hm; obtain ⟨c, hc, hce⟩ := List.mem_map.mp hm; exact (hok' c hc).2 hce
    refine ⟨hwf', ?_, ?_, ?_, ?_, ?_, ?_⟩
    · intro c hc
      rcases List.mem_append.mp hc with hc | hc
      · exact hinv.priv c hc
      · simp only [List.mem_singleton] at hc; subst hc; exact hs'
    · intro a ha b hb hab
      have ha' : a ∈ s.live ∨ a ∈ [m] := List.mem_append.mp ha
      have hb' : b ∈ s.live ∨ b ∈ [m] := List.mem_append.mp hb
      rcases ha' with h1 | h1 <;> rcases hb' with h2 | h2
      · exact hinv.vips a h1 b h2 hab
      · have : b = m := List.mem_singleton.mp h2
        rw [this] at hab; exact absurd hab (hok' a h1).2
      · have : a = m := List.mem_singleton.mp h1
        rw [this] at hab; exact absurd hab.symm (hok' b h2).2
      · rw [List.mem_singleton.mp h1, List.mem_singleton.mp h2]
    · show CInv _ _ _ _ h'.rules _
      rw [er]
      refine CInv.start _ _ _ hinv.rules hown (fun e he => f1 e he) ?_
      intro e he
      exact ⟨startRegs_own m _ (pr e he), by simpa [rmRule] using cover_rule m _ _ (pr e he)⟩
    · show CInv _ _ _ _ h'.specs _
      rw [es]
      refine CInv.start _ _ _ hinv.specs hown (fun e he => f2 e he) ?_
      intro e he
      exact ⟨startRegs_own m _ (ps e he),
        by simpa [rmSpec] using (finishOps_specs _ _ m _ _).mpr (cover_spec m _ _ (ps e he))⟩
    · show CInv _ _ _ _ h'.vring _
      rw [ev]
      refine CInv.start _ _ _ hinv.vring hvip (fun e he heq => f3 (heq ▸ he)) ?_
      intro e he
      exact ⟨startRegs_own m _ (pv e he),
        by simpa [rmVring] using (finishOps_vring _ _ m _).mpr (cover_vring m _ (pv e he))⟩
    · show CInv _ _ _ _ h'.infra _
      rw [ei]
      refine CInv.start _ _ _ hinv.infra hvip (fun e he => f4 e he) ?_
      intro e he
      exact ⟨startRegs_own m _ (pi e he), by simpa [rmInfra] using cover_infra m _ (pi e he)⟩

theorem SInv.cleanup {h0 : Host} {s : Sys} {m : Manifest} (release : Bool) (hinv : SInv h0 s)
    (hok : ∀ c ∈ s.live, c.owner = m.owner → c = m) : SInv h0 (sysCleanup release m s) := by
  unfold sysCleanup
  by_cases hs : m.shared = true
  · simp only [hs, ↓reduceIte]; exact hinv
  · simp only [hs, Bool.false_eq_true, ↓reduceIte, netGet]
    cases hf : findLive m.owner s.live with
    | none => exact hinv
    | some c =>
      obtain ⟨hc, hco⟩ := findLive_some _ _ _ hf
      have hcm : c = m := hok c hc hco
      subst hcm
      simp only [Option.map_some, cleanupNetwork]
      have hwf' := applyUnregs_wf (finishOps c.vip c.ext c) s.host hinv.wf
      have e1 : (applyUnregs s.host (finishOps c.vip c.ext c)).rules = s.host.rules.filter (fun e => !rmRule c e) := by
        rw [applyUnregs_rules _ _ hinv.wf]; apply List.filter_congr; intro e _; simp [rmRule]
      have e2 : (applyUnregs s.host (finishOps c.vip c.ext c)).specs = s.host.specs.filter (fun e => !rmSpec c e) := by
        rw [applyUnregs_specs]; apply List.filter_congr; intro e _; simp [rmSpec]
      have e3 : (applyUnregs s.host (finishOps c.vip c.ext c)).vring = s.host.vring.filter (fun e => !rmVring c e) := by
        rw [applyUnregs_vring]; apply List.filter_congr; intro e _; simp [rmVring]
      have e4 : (applyUnregs s.host (finishOps c.vip c.ext c)).infra = s.host.infra.filter (fun e => !rmInfra c e) := by
        rw [applyUnregs_infra]; apply List.filter_congr; intro e _; simp [rmInfra]
      have r1 : ∀ e, rmRule c e = true → e.2 = c.owner := by
        intro e he; exact finishOps_rule_owner _ _ c _ _ (by simpa [rmRule] using he)
      have r2 : ∀ e, rmSpec c e = true → e.2 = c.owner := by
        intro e he; exact ((finishOps_specs _ _ c _ _).mp (by simpa [rmSpec] using he)).2
      have r3 : ∀ e, rmVring c e = true → e = c.vip := by
        intro e he; exact ((finishOps_vring _ _ c _).mp (by simpa [rmVring] using he)).2
      have r4 : ∀ e, rmInfra c e = true → e.ip = c.vip := by
        intro e he; exact finishOps_infra_ip _ _ c _ (by simpa [rmInfra] using he)
      cases release with
      | false =>
        simp only [Bool.false_eq_true, ↓reduceIte]
        refine ⟨hwf', hinv.priv, hinv.vips, ?_, ?_, ?_, ?_⟩
        · show CInv _ _ _ _ (applyUnregs _ _).rules _
          rw [e1]; exact CInv.refinish _ _ _ hinv.rules hc r1
        · show CInv _ _ _ _ (applyUnregs _ _).specs _
          rw [e2]; exact CInv.refinish _ _ _ hinv.specs hc r2
        · show CInv _ _ _ _ (applyUnregs _ _).vring _
          rw [e3]; exact CInv.refinish _ _ _ hinv.vring hc r3
        · show CInv _ _ _ _ (applyUnregs _ _).infra _
          rw [e4]; exact CInv.refinish _ _ _ hinv.infra hc r4
      | true =>
        simp only [↓reduceIte]
        have hl' : ∀ c', c' ∈ s.live.filter (fun c' => decide (c'.owner ≠ c.owner)) ↔ c' ∈ s.live ∧ c' ≠ c := by
          intro c'
          simp only [List.mem_filter, decide_eq_true_eq]
          constructor
          · rintro ⟨h1, h2⟩; exact ⟨h1, fun heq => h2 (by rw [heq])⟩
          · rintro ⟨h1, h2⟩; exact ⟨h1, fun heq => h2 (hok c' h1 heq)⟩
        have uo : ∀ c' ∈ s.live, c'.owner = c.owner → c' = c := hok
        have uv : ∀ c' ∈ s.live, c'.vip = c.vip → c' = c := fun c' hc' h => hinv.vips c' hc' c hc h
        refine ⟨hwf', ?_, ?_, ?_, ?_, ?_, ?_⟩
        · intro c' hc'; exact hinv.priv c' ((hl' c').mp hc').1
        · intro a ha b hb; exact hinv.vips a ((hl' a).mp ha).1 b ((hl' b).mp hb).1
        · show CInv _ _ _ _ (applyUnregs _ _).rules _
          rw [e1]; exact CInv.finish _ _ _ hinv.rules hc uo r1 hl'
        · show CInv _ _ _ _ (applyUnregs _ _).specs _
          rw [e2]; exact CInv.finish _ _ _ hinv.specs hc uo r2 hl'
        · show CInv _ _ _ _ (applyUnregs _ _).vring _
          rw [e3]; exact CInv.finish _ _ _ hinv.vring hc uv r3 hl'
        · show CInv _ _ _ _ (applyUnregs _ _).infra _
          rw [e4]; exact CInv.finish _ _ _ hinv.infra hc uv r4 hl'

theorem SInv.cleanupCut {h0 : Host} {s : Sys} {m : Manifest} (k : Nat) (hinv : SInv h0 s)
    (hok : ∀ c ∈ s.live, c.owner = m.owner → c = m) : SInv h0 (sysCleanupCut k m s) := by
  unfold sysCleanupCut
  by_cases hs : m.shared = true
  · simp only [hs, ↓reduceIte]; exact hinv
  · simp only [hs, Bool.false_eq_true, ↓reduceIte, netGet]
    cases hf : findLive m.owner s.live with
    | none => exact hinv
    | some c =>
      obtain ⟨hc, hco⟩ := findLive_some _ _ _ hf
      have hcm : c = m := hok c hc hco
      subst hcm
      simp only [Option.map_some]
      have hsub : ∀ u, u ∈ (finishOps c.vip c.ext c).take k → u ∈ finishOps c.vip c.ext c :=
        fun u hu => List.mem_of_mem_take hu
      have hwf' := applyUnregs_wf ((finishOps c.vip c.ext c).take k) s.host hinv.wf
      have e1 : (applyUnregs s.host ((finishOps c.vip c.ext c).take k)).rules =
          s.host.rules.filter (fun e => !decide (Unreg.rule e.1 e.2 ∈ (finishOps c.vip c.ext c).take k)) := by
        rw [applyUnregs_rules _ _ hinv.wf]; apply List.filter_congr; intro e _; simp
      have e2 : (applyUnregs s.host ((finishOps c.vip c.ext c).take k)).specs =
          s.host.specs.filter (fun e => !decide (Unreg.specsOf e.1.app e.2 ∈ (finishOps c.vip c.ext c).take k)) := by
        rw [applyUnregs_specs]; apply List.filter_congr; intro e _; simp
      have e3 : (applyUnregs s.host ((finishOps c.vip c.ext c).take k)).vring =
          s.host.vring.filter (fun e => !decide (Unreg.vring e ∈ (finishOps c.vip c.ext c).take k)) := by
        rw [applyUnregs_vring]; apply List.filter_congr; intro e _; simp
      have e4 : (applyUnregs s.host ((finishOps c.vip c.ext c).take k)).infra =
          s.host.infra.filter (fun e => !decide (Unreg.infra e ∈ (finishOps c.vip c.ext c).take k)) := by
        rw [applyUnregs_infra]; apply List.filter_congr; intro e _; simp
      refine ⟨hwf', hinv.priv, hinv.vips, ?_, ?_, ?_, ?_⟩
      · show CInv _ _ _ _ (applyUnregs _ _).rules _
        rw [e1]
        refine CInv.partial _ _ _ hinv.rules hc ?_
        intro e he
        exact finishOps_rule_owner _ _ c _ _ (hsub _ (by simpa using he))
      · show CInv _ _ _ _ (applyUnregs _ _).specs _
        rw [e2]
        refine CInv.partial _ _ _ hinv.specs hc ?_
        intro e he
        exact ((finishOps_specs _ _ c _ _).mp (hsub _ (by simpa using he))).2
      · show CInv _ _ _ _ (applyUnregs _ _).vring _
        rw [e3]
        refine CInv.partial _ _ _ hinv.vring hc ?_
        intro e he
        exact ((finishOps_vring _ _ c _).mp (hsub _ (by simpa using he))).2
      · show CInv _ _ _ _ (applyUnregs _ _).infra _
        rw [e4]
        refine CInv.partial _ _ _ hinv.infra hc ?_
        intro e he
        exact finishOps_infra_ip _ _ c _ (hsub _ (by simpa using he))

theorem SInv.step {h0 : Host} {s : Sys} {op : Op} (hinv : SInv h0 s) (hok : OpOk s op)
    (hfresh : OwnedFresh h0 op.man) : SInv h0 (sysStep s op) := by
  cases op with
  | start m => exact SInv.start hinv hok hfresh
  | finish m => exact SInv.cleanup true hinv hok
  | refinish m => exact SInv.cleanup false hinv hok
  | cutfinish m k => exact SInv.cleanupCut k hinv hok

theorem SInv.run {h0 : Host} (ops : List Op) : ∀ s : Sys, SInv h0 s → Valid s ops →
    (∀ op ∈ ops, OwnedFresh h0 op.man) → SInv h0 (sysRun s ops) := by
  induction ops with
  | nil => intro s h _ _; exact h
  | cons op ops ih =>
    intro s hinv hv hf
    exact ih (sysStep s op) (SInv.step hinv hv.1 (hf op List.mem_cons_self)) hv.2
      (fun op' h' => hf op' (List.mem_cons_of_mem _ h'))

/-! ### Frame for one step of an interleaving -/

theorem startRegs_ext_own (m : Manifest) (h : Host) :
    Ext (RegOwn m.owner m.vip) h (applyRegs h (startRegs m)).1 :=
  (applyRegs_ext (startRegs m) h).mono (fun r hr => startRegs_own m r hr)

/-- One step by a container whose unique name is rejected by `p` and — if the step is admissible
    (`OpOk`) — whose address is rejected by `q`, leaves the selected entries alone. -/
theorem sysStep_frame (s : Sys) (op : Op) (p q : Nat → Bool) (hp : p op.man.owner = false) :
    ((sysStep s op).host.rules.filter (fun e => p e.2) = s.host.rules.filter (fun e => p e.2) ∧
     (sysStep s op).host.specs.filter (fun e => p e.2) = s.host.specs.filter (fun e => p e.2)) ∧
    (OpOk s op → q op.man.vip = false →
     (sysStep s op).host.vring.filter q = s.host.vring.filter q ∧
     (sysStep s op).host.infra.filter (fun x => q x.ip) = s.host.infra.filter (fun x => q x.ip)) := by
  cases op with
  | start m =>
    simp only [sysStep, sysStart, Op.man] at hp ⊢
    by_cases hs : m.shared = true
    · simp [hs]
    · simp only [hs, Bool.false_eq_true, ↓reduceIte, unshareNetwork]
      refine ⟨?_, ?_⟩
      · have := (startRegs_ext_own m s.host).frame p (fun _ => false) hp rfl
        exact ⟨this.1, this.2.1⟩
      · intro _ hq
        have := (startRegs_ext_own m s.host).frame p q hp hq
        exact ⟨this.2.2.1, this.2.2.2⟩
  | finish m =>
    simp only [sysStep, sysCleanup, Op.man] at hp ⊢
    by_cases hs : m.shared = true
    · simp [hs]
    · simp only [hs, Bool.false_eq_true, ↓reduceIte, netGet]
      cases hf : findLive m.owner s.live with
      | none => simp
      | some c =>
        simp only [Option.map_some, cleanupNetwork]
        refine ⟨?_, ?_⟩
        · have := applyUnregs_frame m.owner c.vip p (fun _ => false) hp rfl (finishOps c.vip c.ext m) s.host (finishOps_own _ _ m)
          exact ⟨this.1, this.2.1⟩
        · intro hok hq
          obtain ⟨hc, hco⟩ := findLive_some _ _ _ hf
          have hcm : c = m := hok c hc hco
          subst hcm
          have := applyUnregs_frame c.owner c.vip p q hp hq (finishOps c.vip c.ext c) s.host (finishOps_own _ _ c)
          exact ⟨this.2.2.1, this.2.2.2⟩
  | refinish m =>
    simp only [sysStep, sysCleanup, Op.man] at hp ⊢
    by_cases hs : m.shared = true
    · simp [hs]
    · simp only [hs, Bool.false_eq_true, ↓reduceIte, netGet]
      cases hf : findLive m.owner s.live with
      | none => simp
      | some c =>
        simp only [Option.map_some, cleanupNetwork]
        refine ⟨?_, ?_⟩
        · have := applyUnregs_frame m.owner c.vip p (fun _ => false) hp rfl (finishOps c.vip c.ext m) s.host (finishOps_own _ _ m)
          exact ⟨this.1, this.2.1⟩
        · intro hok hq
          obtain ⟨hc, hco⟩ := findLive_some _ _ _ hf
          have hcm : c = m := hok c hc hco
          subst hcm
          have := applyUnregs_frame c.owner c.vip p q hp hq (finishOps c.vip c.ext c) s.host (finishOps_own _ _ c)
          exact ⟨this.2.2.1, this.2.2.2⟩

  | cutfinish m k =>
    simp only [sysStep, sysCleanupCut, Op.man] at hp ⊢
    by_cases hs : m.shared = true
    · simp [hs]
    · simp only [hs, Bool.false_eq_true, ↓reduceIte, netGet]
      cases hf : findLive m.owner s.live with
      | none => simp
      | some c =>
        simp only [Option.map_some]
        have hown : ∀ v x (m' : Manifest), ∀ u ∈ (finishOps v x m').take k, OwnU m'.owner v u :=
          fun v x m' u hu => finishOps_own v x m' u (List.mem_of_mem_take hu)
        refine ⟨?_, ?_⟩
        · have := applyUnregs_frame m.owner c.vip p (fun _ => false) hp rfl ((finishOps c.vip c.ext m).take k) s.host (hown _ _ m)
          exact ⟨this.1, this.2.1⟩
        · intro hok hq
          obtain ⟨hc, hco⟩ := findLive_some _ _ _ hf
          have hcm : c = m := hok c hc hco
          subst hcm
          have := applyUnregs_frame c.owner c.vip p q hp hq ((finishOps c.vip c.ext c).take k) s.host (hown _ _ c)
          exact ⟨this.2.2.1, this.2.2.2⟩

/-! ### Port allocation -/

/-- What `random.sample(range(LOW, HIGH + 1), PORT_SPAN)` returns: distinct ports of the
    environment's range. -/
def PoolOk (prod : Bool) (pool : List Nat) : Prop :=
  pool.Nodup ∧ ∀ p ∈ pool, poolLow prod ≤ p ∧ p ≤ poolHigh prod

theorem allocLoop_spec (bound : List Nat) (count : Nat) : ∀ (pool acc res : List Nat),
    acc.Nodup → (∀ p ∈ acc, p ∉ bound) → acc.length ≤ count →
    allocLoop bound count pool acc = some res →
    res.Nodup ∧ (∀ p ∈ res, p ∉ bound) ∧ res.length = count ∧ (∀ p ∈ res, p ∈ acc ∨ p ∈ pool) := by
  intro pool
  induction pool with
  | nil => intro acc res _ _ _ h; simp [allocLoop] at h
  | cons p ps ih =>
    intro acc res hnd hnb hlen h
    simp only [allocLoop] at h
    split at h
    · rename_i hc
      simp only [Option.some.injEq] at h; subst h
      exact ⟨hnd, hnb, hc, fun q hq => Or.inl hq⟩
    · rename_i hc
      split at h
      · obtain ⟨a, b, c, d⟩ := ih acc res hnd hnb hlen h
        exact ⟨a, b, c, fun q hq => (d q hq).imp id (List.mem_cons_of_mem _)⟩
      · rename_i hfree
        have hpb : p ∉ bound := fun hb => hfree (Or.inl hb)
        have hpa : p ∉ acc := fun ha => hfree (Or.inr ha)
        have hnd' : (acc ++ [p]).Nodup := by
          rw [List.nodup_append]
          refine ⟨hnd, by simp, ?_⟩
          intro a ha b hb
          simp only [List.mem_singleton] at hb; subst hb
          intro heq; subst heq; exact hpa ha
        have hnb' : ∀ q ∈ acc ++ [p], q ∉ bound := by
          intro q hq
          rcases List.mem_append.mp hq with hq | hq
          · exact hnb q hq
          · simp only [List.mem_singleton] at hq; subst hq; exact hpb
        have hlen' : (acc ++ [p]).length ≤ count := by
          simp only [List.length_append, List.length_singleton]; omega
        obtain ⟨a, b, c, d⟩ := ih (acc ++ [p]) res hnd' hnb' hlen' h
        refine ⟨a, b, c, ?_⟩
        intro q hq
        rcases d q hq with hq' | hq'
        · rcases List.mem_append.mp hq' with hq' | hq'
          · exact Or.inl hq'
          · simp only [List.mem_singleton] at hq'; subst hq'; exact Or.inr List.mem_cons_self
        · exact Or.inr (List.mem_cons_of_mem _ hq')

/-- The host ports (`real_port`) the endpoints of one protocol were given, in manifest order. -/
def realPorts (proto : Proto) : List (EpReq × Option Nat) → List Nat
  | [] => []
  | (e, rp) :: t =>
    if e.proto = proto then
      match rp with
      | some p => p :: realPorts proto t
      | none => realPorts proto t
    else realPorts proto t

theorem assignEps_spec (proto : Proto) : ∀ (eps : List (EpReq × Option Nat)) (socks : List Nat),
    (eps.filter (fun e => e.1.proto = proto)).length ≤ socks.length →
    realPorts proto (assignEps proto eps socks).1 ++ (assignEps proto eps socks).2 = socks ∧
    (∀ q, q ≠ proto → realPorts q (assignEps proto eps socks).1 = realPorts q eps) ∧
    (assignEps proto eps socks).1.length = eps.length ∧
    (assignEps proto eps socks).2.length + (eps.filter (fun e => e.1.proto = proto)).length = socks.length := by
  intro eps
  induction eps with
  | nil => intro socks _; simp [assignEps, realPorts]
  | cons a t ih =>
    intro socks hlen
    obtain ⟨e, rp⟩ := a
    by_cases hp : e.proto = proto
    · subst hp
      simp only [List.filter_cons, decide_true, ↓reduceIte, List.length_cons] at hlen
      cases socks with
      | nil => simp at hlen
      | cons s ss =>
        simp only [List.length_cons, Nat.add_le_add_iff_right] at hlen
        obtain ⟨i1, i2, i3, i4⟩ := ih ss hlen
        have hp' : (if e.port = 0 then { e with port := s } else e).proto = e.proto := by
          split <;> rfl
        refine ⟨?_, ?_, ?_, ?_⟩
        · simp only [assignEps, ↓reduceIte, realPorts, hp', List.cons_append, i1]
        · intro q hq
          have h2 : ¬ e.proto = q := fun h => hq h.symm
          simp only [assignEps, ↓reduceIte, realPorts, hp', h2, i2 q hq]
        · simp only [assignEps, ↓reduceIte, List.length_cons, i3]
        · simp only [assignEps, ↓reduceIte, List.filter_cons, decide_true, List.length_cons]
          omega
    · have hlen' : (t.filter (fun e => e.1.proto = proto)).length ≤ socks.length := by
        simpa [List.filter_cons, hp] using hlen
      obtain ⟨i1, i2, i3, i4⟩ := ih socks hlen'
      refine ⟨?_, ?_, ?_, ?_⟩
      · simp only [assignEps, hp, ↓reduceIte, realPorts, i1]
      · intro q hq
        simp only [assignEps, hp, ↓reduceIte, realPorts, i2 q hq]
      · simp only [assignEps, hp, ↓reduceIte, List.length_cons, i3]
      · simpa [assignEps, hp, List.filter_cons] using i4

/-- `_allocate_network_ports_proto`: the endpoints of the protocol (in order) followed by the
    ephemeral ports are exactly the sockets `_allocate_sockets` returned: pairwise distinct, none
    bound before, all from the sampled pool, and there are exactly `ephCount` ephemeral ports. -/
theorem allocProto_spec (proto : Proto) (bound pool : List Nat) (eps : List (EpReq × Option Nat)) (ephCount : Nat)
    (eps' : List (EpReq × Option Nat)) (eph bound' : List Nat)
    (h : allocProto proto bound pool eps ephCount = some (eps', eph, bound')) :
    (realPorts proto eps' ++ eph).Nodup ∧
    (∀ p ∈ realPorts proto eps' ++ eph, p ∉ bound ∧ p ∈ pool) ∧
    bound' = bound ++ (realPorts proto eps' ++ eph) ∧
    (realPorts proto eps' ++ eph).length = (eps.filter (fun e => e.1.proto = proto)).length + ephCount ∧
    (∀ q, q ≠ proto → realPorts q eps' = realPorts q eps) ∧ eps'.length = eps.length ∧
    eph.length = ephCount := by
  unfold allocProto at h
  simp only at h
  cases ha : allocLoop bound ((eps.filter (fun e => e.1.proto = proto)).length + ephCount) pool [] with
  | none => simp [ha] at h
  | some socks =>
    simp only [ha, Option.some.injEq, Prod.mk.injEq] at h
    obtain ⟨rfl, rfl, rfl⟩ := h
    obtain ⟨a, b, c, d⟩ := allocLoop_spec bound _ pool [] socks List.nodup_nil (by simp) (Nat.zero_le _) ha
    obtain ⟨i1, i2, i3, i4⟩ := assignEps_spec proto eps socks (by omega)
    rw [i1]
    refine ⟨a, ?_, rfl, c, i2, i3, by omega⟩
    intro p hp
    refine ⟨b p hp, ?_⟩
    rcases d p hp with h' | h'
    · cases h'
    · exact h'

/-! ### Decidability of the hypotheses (for the non-vacuity examples) -/

instance (h : Host) : Decidable h.WF := by unfold Host.WF; infer_instance

instance (s : Sys) (op : Op) : Decidable (OpOk s op) := by
  cases op <;> unfold OpOk <;> infer_instance

def Valid.dec : (s : Sys) → (ops : List Op) → Decidable (Valid s ops)
  | _, [] => isTrue trivial
  | s, op :: ops =>
    have := Valid.dec (sysStep s op) ops
    (inferInstance : Decidable (OpOk s op ∧ Valid (sysStep s op) ops))

instance (s : Sys) (ops : List Op) : Decidable (Valid s ops) := Valid.dec s ops

/-! ### `finish` depends on the removal list only as a set -/

theorem finish_congr (m m' : Manifest) (h : Host) (hwf : h.WF) (hs : m'.shared = m.shared)
    (hu : ∀ u, u ∈ finishOps m'.vip m'.ext m' ↔ u ∈ finishOps m.vip m.ext m) :
    finish m' h = finish m h := by
  unfold finish
  rw [hs]
  by_cases hsh : m.shared = true
  · simp [hsh]
  · simp only [hsh, Bool.false_eq_true, ↓reduceIte, cleanupNetwork]
    apply Host.ext'
    · rw [applyUnregs_rules _ _ hwf, applyUnregs_rules _ _ hwf]
      apply List.filter_congr; intro e _; simp [hu]
    · rw [applyUnregs_specs, applyUnregs_specs]
      apply List.filter_congr; intro e _; simp [hu]
    · rw [applyUnregs_vring, applyUnregs_vring]
      apply List.filter_congr; intro e _; simp [hu]
    · rw [applyUnregs_infra, applyUnregs_infra]
      apply List.filter_congr; intro e _; simp [hu]

theorem finishOps_passthrough_perm (m : Manifest) (p p' : List Nat) (hp : m.passthrough = some p)
    (hmem : ∀ ip, ip ∈ p' ↔ ip ∈ p) (u : Unreg) :
    u ∈ finishOps m.vip m.ext { m with passthrough := some p' } ↔ u ∈ finishOps m.vip m.ext m := by
  unfold finishOps
  simp only [hp, List.mem_append, List.mem_map, hmem]

/-- `_cleanup_network` with the same network allocation twice = once (any allocation, any host). -/
theorem cleanupNetwork_idem (an : Option (Nat × Nat)) (m : Manifest) (h : Host) (hwf : h.WF) :
    cleanupNetwork an m (cleanupNetwork an m h) = cleanupNetwork an m h := by
  cases an with
  | none => rfl
  | some a =>
    obtain ⟨v, x⟩ := a
    simp only [cleanupNetwork]
    have hwf' := applyUnregs_wf (finishOps v x m) h hwf
    apply Host.ext'
    · rw [applyUnregs_rules _ _ hwf', applyUnregs_rules _ _ hwf, List.filter_filter]
      apply List.filter_congr; intro e _; simp
    · rw [applyUnregs_specs, applyUnregs_specs, List.filter_filter]
      apply List.filter_congr; intro e _; simp
    · rw [applyUnregs_vring, applyUnregs_vring, List.filter_filter]
      apply List.filter_congr; intro e _; simp
    · rw [applyUnregs_infra, applyUnregs_infra, List.filter_filter]
      apply List.filter_congr; intro e _; simp

end TmVerif.Net
