/-
  The firewall watcher (`sproc/firewall.py`, `_watcher`): the process that turns passthrough rule FILES
  (written by `_run._unshare_network`, removed by `_finish._cleanup_network`) into entries of the IP set
  `tm:passthroughs`.  Several containers may name the same passthrough host, so the watcher keeps a
  reference count per source address (`passthrough = {}`) and touches the set only when a count goes
  0 → 1 or 1 → 0.  It (re)starts by priming the counts from the rule files it finds.

  Model: the dictionary of counts is a multiset of addresses (`refs`, one entry per reference), the IP
  set a duplicate-free list.  Hand-written from `_watcher` (its `on_created`, `on_deleted` and the priming
  loop); tied by the `wprime` / `wcreated` / `wdeleted` lines of the Net driver.
-/
namespace TmVerif.Fw

structure W where
  refs : List Nat := []      -- `passthrough`: src ip ↦ count, as a multiset
  set  : List Nat := []      -- ipset tm:passthroughs
  deriving Repr, DecidableEq

def setAdd (ip : Nat) (s : List Nat) : List Nat := if s.contains ip then s else ip :: s

/-- `on_created` of a passthrough rule file with source `ip`: count + 1, `add_ip_set` (idempotent). -/
def onCreated (w : W) (ip : Nat) : W := { refs := ip :: w.refs, set := setAdd ip w.set }

/-- `on_deleted`: `passthrough[ip] == 1` → pop, `rm_ip_set`; else count − 1.  An address the dictionary
    does not know raises `KeyError` (the watcher dies and is restarted): `none`. -/
def onDeleted (w : W) (ip : Nat) : Option W :=
  if w.refs.count ip = 0 then none
  else if w.refs.count ip = 1 then some { refs := w.refs.erase ip, set := w.set.erase ip }
  else some { refs := w.refs.erase ip, set := w.set }

/-- (Re)start: the counts and the set are primed from the passthrough rule files in the directory
    (one `files` entry per file: its source address). -/
def prime (files : List Nat) : W := files.foldl onCreated {}

/-! ### Histories -/

/-- What happens to the rule directory and to the watcher. -/
inductive Ev
  | created (ip : Nat)      -- a passthrough rule file with this source appears and the watcher is told
  | deleted (ip : Nat)      -- one disappears and the watcher is told
  | restart                 -- the watcher process restarts and primes itself from the directory

/-- Directory (one entry per passthrough rule file) and watcher after an event; a deletion event for a
    source the watcher does not count kills it (`KeyError`): it restarts from the directory. -/
def step (p : List Nat × W) : Ev → List Nat × W
  | .created ip => (ip :: p.1, onCreated p.2 ip)
  | .deleted ip =>
    let files := p.1.erase ip
    match onDeleted p.2 ip with
    | some w' => (files, w')
    | none => (files, prime files)
  | .restart => (p.1, prime p.1)

def run (p : List Nat × W) (evs : List Ev) : List Nat × W := evs.foldl step p

end TmVerif.Fw
