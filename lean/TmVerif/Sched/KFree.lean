/-
  C02 for instances of an identity group: an identity that is offered when the loop starts is still
  offered at the probe's turn, provided no instance ahead of the probe ends up holding it.

  `KOk c g k y`: identity `k` of group `g` is offered, or it is held by `y` (the instance whose turn
  it is).  Every primitive of `y`'s turn keeps this; at the end of the turn either `k` is offered
  again or `y` holds it — which a quiescent cycle excludes for an identity nobody held before.
-/
import TmVerif.Sched.Settled3
import TmVerif.Sched.Displace

namespace TmVerif.Sched

def KFree (c : Cell) (g k : Nat) : Prop := ∃ grp, c.grp? g = some grp ∧ k ∈ grp.avail

def KHeld (c : Cell) (g k y : Nat) : Prop := ∃ a, c.app? y = some a ∧ a.group = some g ∧ a.identity = some k

def KOk (c : Cell) (g k y : Nat) : Prop := KFree c g k ∨ KHeld c g k y

theorem lprim_groups_keep {c c' : Cell} {lab : Lab} (hk : KeepsId lab) (hp : LPrim lab c c') :
    c'.groups = c.groups := by
  cases hp with
  | put h =>
    rcases serverPut_shape h with ⟨_, rfl⟩ | ⟨_, a, s, anc, _, _, _, _, _, _, _, _, hgrps, _, _⟩
    · rfl
    · exact hgrps
  | remove h =>
    obtain ⟨a, s, _, _, _, _, _, hgrps, _, _⟩ := serverRemove_shape h
    exact hgrps
  | release _ => simp only [KeepsId] at hk
  | acquire _ => simp only [KeepsId] at hk
  | appMeta _ _ _ _ _ _ _ _ _ _ _ _ _ _ _ _ _ _ => rfl
  | setRenew _ => rfl
  | ghost _ => rfl
  | dropDangling _ _ _ => rfl
  | forgetIdentity _ _ _ _ _ => simp only [KeepsId] at hk
  | tree _ _ => rfl
  | clearEv => rfl

theorem grp?_of_groups {c c' : Cell} (h : c'.groups = c.groups) (g : Nat) : c'.grp? g = c.grp? g := by
  unfold Cell.grp?; rw [h]

theorem grp?_setApp (c : Cell) (a : App) (g : Nat) : (c.setApp a).grp? g = c.grp? g := rfl

theorem kfree_keeps {c c' : Cell} {lab : Lab} {g k : Nat} (hk : KeepsId lab) (hp : LPrim lab c c')
    (h : KFree c g k) : KFree c' g k := by
  obtain ⟨grp, hg, hm⟩ := h
  exact ⟨grp, by rw [grp?_of_groups (lprim_groups_keep hk hp)]; exact hg, hm⟩

theorem kheld_keeps {c c' : Cell} {lab : Lab} {g k y : Nat} (hk : KeepsId lab) (hp : LPrim lab c c')
    (h : KHeld c g k y) : KHeld c' g k y := by
  obtain ⟨a, ha, hg, hi⟩ := h
  obtain ⟨a', ha', est⟩ := app?_stat_to (sameStatic_lprim hp) ha
  obtain ⟨a2, ha2, e⟩ := lprim_keepsId hk hp y a' ha'
  rw [ha] at ha2; cases ha2
  have eg : a'.group = a.group := congrArg AppStat.group est
  exact ⟨a', ha', by rw [eg]; exact hg, by rw [e]; exact hi⟩

/-- `release_identity` of any instance never withdraws an offered identity. -/
theorem release_kfree {c c' : Cell} {aid g k : Nat} (hr : releaseIdentity c aid = .ok c') (h : KFree c g k) :
    KFree c' g k := by
  simp only [releaseIdentity, bind_ok, orAbort_ok] at hr
  obtain ⟨a, ha, hr⟩ := hr
  split at hr
  · rename_i g' k' hg' hk'
    simp only [bind_ok, orAbort_ok, pure_ok] at hr
    obtain ⟨grp, hgrp, rfl⟩ := hr
    have hgid : grp.id = g' := grp?_id hgrp
    obtain ⟨grp0, hg0, hm0⟩ := h
    have hsame : grp0.id = grp.id → grp0 = grp := by
      intro e
      have e1 : g = g' := by rw [← grp?_id hg0, e, hgid]
      subst e1
      rw [hg0] at hgrp; exact Option.some.inj hgrp
    by_cases hkc : k' < grp.count
    · simp only [hkc, ↓reduceIte]
      refine ⟨_, by rw [grp?_setApp, grp?_setGrp, hg0]; rfl, ?_⟩
      by_cases e : grp0.id = grp.id
      · have := hsame e
        subst this
        simp only [↓reduceIte]; exact mem_listAdd.mpr (Or.inl hm0)
      · simp only [e, ↓reduceIte]; exact hm0
    · simp only [hkc, ↓reduceIte]
      refine ⟨_, by rw [grp?_setApp, grp?_setGrp, hg0]; rfl, ?_⟩
      by_cases e : grp0.id = grp.id
      · have := hsame e
        subst this
        simp only [↓reduceIte]; exact hm0
      · simp only [e, ↓reduceIte]; exact hm0
  · simp only [pure_ok] at hr; subst hr; exact h

/-- One primitive of `a0`'s turn keeps "`k` is offered or held by `a0`". -/
theorem kok_lprim {a0 : App} {unpl : Bool} {after : List Nat} {c c' : Cell} {lab : Lab} {g k : Nat}
    (hp : LPrim lab c c') (hok : PlaceOk a0 unpl after c lab)
    (hlt : ∀ grp, c.grp? g = some grp → k < grp.count)
    (h : KOk c g k a0.id) : KOk c' g k a0.id := by
  by_cases hk : KeepsId lab
  · rcases h with h | h
    · exact Or.inl (kfree_keeps hk hp h)
    · exact Or.inr (kheld_keeps hk hp h)
  · cases hp with
    | put _ => exact absurd trivial hk
    | remove _ => exact absurd trivial hk
    | appMeta _ _ _ _ _ _ _ _ _ _ _ _ _ _ _ _ _ _ => exact absurd trivial hk
    | setRenew _ => exact absurd trivial hk
    | ghost _ => exact absurd trivial hk
    | dropDangling _ _ _ => exact absurd trivial hk
    | tree _ _ => exact absurd trivial hk
    | clearEv => exact absurd trivial hk
    | forgetIdentity _ _ _ _ _ => simp only [PlaceOk] at hok
    | @release _ _ aid hr =>
      simp only [PlaceOk] at hok
      obtain ⟨hid, _, _⟩ := hok
      subst hid
      simp only [releaseIdentity, bind_ok, orAbort_ok] at hr
      obtain ⟨a, ha, hr⟩ := hr
      split at hr
      · rename_i g' k' hg' hk'
        simp only [bind_ok, orAbort_ok, pure_ok] at hr
        obtain ⟨grp, hgrp, rfl⟩ := hr
        have hgid : grp.id = g' := grp?_id hgrp
        -- the group record of `g` after the release
        have hlook : ∀ x, ((c.setGrp (if k' < grp.count then { grp with avail := listAdd grp.avail k' } else grp)).setApp
            { a with identity := none }).grp? x =
            (c.grp? x).map (fun y => if y.id = grp.id then
              (if k' < grp.count then { grp with avail := listAdd grp.avail k' } else grp) else y) := by
          intro x
          rw [grp?_setApp, grp?_setGrp]
          congr 1
          funext y
          by_cases hkc : k' < grp.count <;> simp [hkc]
        rcases h with ⟨grp0, hg0, hm0⟩ | ⟨a1, ha1, hg1, hi1⟩
        · left
          refine ⟨_, by rw [hlook, hg0]; rfl, ?_⟩
          by_cases e : grp0.id = grp.id
          · have : grp0 = grp := by
              have e1 : g = g' := by rw [← grp?_id hg0, e, hgid]
              subst e1
              rw [hg0] at hgrp; exact Option.some.inj hgrp
            subst this
            simp only [↓reduceIte]
            by_cases hkc : k' < grp0.count
            · simp only [hkc, ↓reduceIte]; exact mem_listAdd.mpr (Or.inl hm0)
            · simp only [hkc, ↓reduceIte]; exact hm0
          · simp only [e, ↓reduceIte]; exact hm0
        · rw [ha] at ha1; cases ha1
          rw [hg'] at hg1; cases hg1
          rw [hk'] at hi1; cases hi1
          left
          have hkc : k < grp.count := hlt grp hgrp
          refine ⟨_, by rw [hlook, hgrp]; rfl, ?_⟩
          simp only [↓reduceIte, hkc]
          exact mem_listAdd.mpr (Or.inr rfl)
      · simp only [pure_ok] at hr; subst hr; exact h
    | @acquire _ _ aid ch b ch' hacq =>
      simp only [PlaceOk] at hok
      obtain ⟨hid, _, _⟩ := hok
      subst hid
      simp only [acquireIdentity, bind_ok, orAbort_ok] at hacq
      obtain ⟨a, ha, hacq⟩ := hacq
      split at hacq
      · simp only [pure_ok, Prod.mk.injEq] at hacq
        obtain ⟨rfl, _, _⟩ := hacq; exact h
      · rename_i g' hg'
        split at hacq
        · simp only [pure_ok, Prod.mk.injEq] at hacq
          obtain ⟨rfl, _, _⟩ := hacq; exact h
        · rename_i hnone
          simp only [bind_ok, orAbort_ok] at hacq
          obtain ⟨grp, hgrp, hacq⟩ := hacq
          split at hacq
          · simp only [pure_ok, Prod.mk.injEq] at hacq
            obtain ⟨rfl, _, _⟩ := hacq; exact h
          · split at hacq
            · simp only [throw_ne_ok] at hacq
            · rename_i k' rest
              split at hacq
              · simp only [throw_bind, throw_ne_ok] at hacq
              · simp only [pure_ok, Prod.mk.injEq] at hacq
                obtain ⟨rfl, _, _⟩ := hacq
                have hgid : grp.id = g' := grp?_id hgrp
                have hself : ((c.setGrp { grp with avail := grp.avail.filter (· ≠ k') }).setApp
                    { a with identity := some k' }).app? a0.id = some { a with identity := some k' } := by
                  generalize hr : ({ a with identity := some k' } : App) = r
                  have hid' : r.id = a0.id := by rw [← hr]; exact (app?_id ha : a.id = a0.id)
                  have := app?_setApp_self (c := c.setGrp { grp with avail := grp.avail.filter (· ≠ k') })
                    (a := a) (a' := r) (by rw [hid']; exact ha)
                  rw [hid'] at this; exact this
                rcases h with ⟨grp0, hg0, hm0⟩ | ⟨a1, ha1, hg1, hi1⟩
                · by_cases e : g = g'
                  · subst e
                    have egrp : grp = grp0 := by rw [hg0] at hgrp; exact (Option.some.inj hgrp).symm
                    subst egrp
                    by_cases ek : k = k'
                    · subst ek
                      exact Or.inr ⟨_, hself, hg', rfl⟩
                    · left
                      refine ⟨{ grp with avail := grp.avail.filter (· ≠ k') }, ?_, ?_⟩
                      · rw [grp?_setApp, grp?_setGrp, hg0]; simp
                      · simp only [List.mem_filter, ne_eq, decide_not, Bool.not_eq_eq_eq_not, Bool.not_true,
                          decide_eq_false_iff_not]
                        exact ⟨hm0, ek⟩
                  · left
                    refine ⟨grp0, ?_, hm0⟩
                    rw [grp?_setApp, grp?_setGrp, hg0]
                    have : grp0.id ≠ grp.id := by
                      rw [grp?_id hg0, hgid]; exact e
                    simp [this]
                · rw [ha] at ha1; cases ha1
                  rw [hi1] at hnone; simp at hnone

/-- `KOk` along a whole turn. -/
theorem kok_lreach {a0 : App} {unpl : Bool} {after : List Nat} {c c' : Cell} {g k : Nat}
    (h : LReach (PlaceOk a0 unpl after) c c')
    (hlt : ∀ grp, c.grp? g = some grp → k < grp.count)
    (hk : KOk c g k a0.id) : KOk c' g k a0.id := by
  induction h with
  | refl => exact hk
  | @step c1 c2 lab r p hp ih =>
    refine kok_lprim p hp ?_ ih
    intro grp hgrp
    have hs := (sameStatic_lreach r).grp g
    rw [hgrp] at hs
    cases hc : c.grp? g with
    | none => rw [hc] at hs; cases hs
    | some grp0 =>
      rw [hc] at hs
      simp only [Option.map_some, Option.some.injEq] at hs
      rw [hs]; exact hlt grp0 hc

/-- Primitives of the pre-passes never withdraw an offered identity. -/
theorem kfree_preOk {c c' : Cell} {lab : Lab} {g k : Nat} (hp : LPrim lab c c') (hok : PreOk c lab)
    (h : KFree c g k) : KFree c' g k := by
  by_cases hk : KeepsId lab
  · exact kfree_keeps hk hp h
  · cases hp with
    | put _ => exact absurd trivial hk
    | remove _ => exact absurd trivial hk
    | appMeta _ _ _ _ _ _ _ _ _ _ _ _ _ _ _ _ _ _ => exact absurd trivial hk
    | setRenew _ => exact absurd trivial hk
    | ghost _ => exact absurd trivial hk
    | dropDangling _ _ _ => exact absurd trivial hk
    | tree _ _ => exact absurd trivial hk
    | clearEv => exact absurd trivial hk
    | acquire _ => simp only [PreOk] at hok
    | forgetIdentity _ _ _ _ _ =>
      obtain ⟨grp, hg, hm⟩ := h
      exact ⟨grp, hg, hm⟩
    | release hr => exact release_kfree hr h

theorem kfree_preOk_lreach {c c' : Cell} {g k : Nat} (h : LReach PreOk c c') (hk : KFree c g k) : KFree c' g k := by
  induction h with
  | refl => exact hk
  | step _ p hp ih => exact kfree_preOk p hp ih

theorem kfree_clearGhost {c : Cell} {g k : Nat} (h : KFree c g k) : KFree (clearGhost c) g k := h

end TmVerif.Sched
