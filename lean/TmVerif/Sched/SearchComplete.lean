/-
  C02 — `Bucket.put` finds a server whenever one fits: the aggregates of the buckets on the way never
  hide it, and the walk over the children visits every child.
-/
import TmVerif.Sched.AggOps
import TmVerif.Sched.WalkLemmas
import TmVerif.Sched.SearchLemmas

namespace TmVerif.Sched

/-! ### what the aggregates guarantee about a server below a bucket -/

theorem okL_mem {V : Type} (leafView : List Srv → Nat → V) (nodeView : Bkt → V) (good : Bkt → V → Prop)
    (inv : Bkt → Prop) (srvs : List Srv) : ∀ (cs : List (Option Tree)) (t : Tree), some t ∈ cs →
    Agg.OkL leafView nodeView good inv srvs cs → Agg.Ok leafView nodeView good inv srvs t
  | [], _, h, _ => by cases h
  | none :: r, t, h, hc => by
    simp only [Agg.OkL] at hc
    rcases List.mem_cons.mp h with e | h'
    · cases e
    · exact okL_mem leafView nodeView good inv srvs r t h' hc
  | some t0 :: r, t, h, hc => by
    simp only [Agg.OkL] at hc
    rcases List.mem_cons.mp h with e | h'
    · simp only [Option.some.injEq] at e; subst e; exact hc.1
    · exact okL_mem leafView nodeView good inv srvs r t h' hc.2

/-- The child of a list that contains a given leaf. -/
theorem leavesL_child : ∀ (cs : List (Option Tree)) (sid : Nat), sid ∈ Tree.leavesL cs →
    ∃ (k : Nat) (tk : Tree), cs[k]? = some (some tk) ∧ sid ∈ tk.leaves
  | [], _, h => by simp [Tree.leavesL] at h
  | none :: r, sid, h => by
    simp only [Tree.leavesL] at h
    obtain ⟨k, tk, h1, h2⟩ := leavesL_child r sid h
    exact ⟨k + 1, tk, by rw [List.getElem?_cons_succ]; exact h1, h2⟩
  | some t :: r, sid, h => by
    simp only [Tree.leavesL, List.mem_append] at h
    rcases h with h | h
    · exact ⟨0, t, by rw [List.getElem?_cons_zero], h⟩
    · obtain ⟨k, tk, h1, h2⟩ := leavesL_child r sid h
      exact ⟨k + 1, tk, by rw [List.getElem?_cons_succ]; exact h1, h2⟩

structure Covered (s : Srv) (b : Bkt) : Prop where
  lab : s.label ∈ b.labels
  tr  : s.traits ||| b.traits = b.traits
  cap : s.state = .up → s.free.le b.free

theorem bits_sub_trans {a b c : Nat} (h1 : a ||| b = b) (h2 : b ||| c = c) : a ||| c = c := by
  have := bits_sub_or a b c h1
  rw [h2] at this
  exact this

theorem bits_zero_sub (b : Nat) : 0 ||| b = b := by simp

/-- **Aggregates never hide a server**: every bucket above a server carries its label, its traits
    and (while the server is up) at least its free capacity. -/
theorem cover_root (srvs : List Srv) (sid : Nat) (s : Srv) (hs : srvs.find? (fun x => x.id = sid) = some s) :
    ∀ (t : Tree) (b : Bkt) (cs : List (Option Tree)), t = .node b cs → sid ∈ t.leaves →
    CapOk srvs t → LabOk srvs t → TrOk srvs t → Covered s b := by
  intro t
  induction t using WellFounded.induction (measure (fun t : Tree => sizeOf t)).wf with
  | _ t ih =>
    intro b cs ht hleaf hcap hlab htr
    subst ht
    simp only [Tree.leaves] at hleaf
    obtain ⟨k, tk, hk, hin⟩ := leavesL_child cs sid hleaf
    have hmem : some tk ∈ cs := List.mem_of_getElem? hk
    have hlt : sizeOf tk < sizeOf (Tree.node b cs) := sizeOf_child_lt b cs k tk hk
    simp only [CapOk, LabOk, TrOk, Agg.Ok] at hcap hlab htr
    have gc := hcap.2.1 tk hmem
    have gl := hlab.2.1 tk hmem
    have gt := htr.2.1 tk hmem
    cases tk with
    | leaf l =>
      simp only [Tree.leaves, List.mem_singleton] at hin
      subst hin
      refine ⟨?_, ?_, ?_⟩
      · apply gl
        simp only [Agg.view, labLeaf, hs, List.mem_singleton]
      · simp only [Agg.view, trLeaf, hs, trGood] at gt
        rcases gt with h0 | h1
        · rw [h0]; exact bits_zero_sub _
        · exact entry_sub_traits b.childTraits b.selfTraits (sid, s.traits) h1
      · intro hup
        have : (Agg.view capLeaf capNode srvs (.leaf sid)).1 = true := by
          simp only [Agg.view, capLeaf, childView, hs, hup, decide_true]
        have := gc this
        simpa only [Agg.view, capLeaf, childView, hs] using this
    | node b' cs' =>
      have hc' := okL_mem capLeaf capNode capGood capInv srvs cs _ hmem hcap.2.2
      have hl' := okL_mem labLeaf labNode labGood (fun _ => True) srvs cs _ hmem hlab.2.2
      have ht' := okL_mem trLeaf trNode trGood (fun _ => True) srvs cs _ hmem htr.2.2
      obtain ⟨c1, c2, c3⟩ := ih _ hlt b' cs' rfl hin hc' hl' ht'
      refine ⟨?_, ?_, ?_⟩
      · exact gl _ c1
      · simp only [Agg.view, trNode, trGood] at gt
        rcases gt with h0 | h1
        · have : s.traits ||| b'.traits = b'.traits := c2
          rw [h0] at this
          have hz : s.traits = 0 := by
            apply Nat.eq_of_testBit_eq; intro i
            have := congrArg (fun n => n.testBit i) this
            simp only [Nat.testBit_or, Nat.zero_testBit, Bool.or_false] at this
            simp [this]
          rw [hz]; exact bits_zero_sub _
        · exact bits_sub_trans c2 (entry_sub_traits b.childTraits b.selfTraits (b'.id, b'.traits) h1)
      · intro hup
        have : (Agg.view capLeaf capNode srvs (.node b' cs')).1 = true := rfl
        exact Vec.le_trans' (c3 hup) (gc this)

/-! ### the path to a leaf goes through the child that contains it -/

theorem path_none_of_not_mem (t : Tree) (target : Nat) (h : target ∉ t.names) : t.path target = none := by
  cases hp : t.path target with
  | none => rfl
  | some p => exact absurd (path_mem t target p hp) h

theorem pathL_at : ∀ (cs : List (Option Tree)) (k : Nat) (tk : Tree) (sid : Nat), (Tree.namesL cs).Nodup →
    cs[k]? = some (some tk) → sid ∈ tk.names → Tree.pathL cs sid = tk.path sid
  | [], k, _, _, _, h, _ => by simp at h
  | none :: r, k, tk, sid, hnd, h, hin => by
    simp only [Tree.namesL] at hnd
    simp only [Tree.pathL]
    cases k with
    | zero => simp at h
    | succ j =>
      rw [List.getElem?_cons_succ] at h
      exact pathL_at r j tk sid hnd h hin
  | some t :: r, k, tk, sid, hnd, h, hin => by
    simp only [Tree.namesL] at hnd
    have hnd' := List.nodup_append.mp hnd
    simp only [Tree.pathL]
    cases k with
    | zero =>
      rw [List.getElem?_cons_zero] at h
      simp only [Option.some.injEq] at h
      subst h
      cases hp : t.path sid with
      | some p => rfl
      | none =>
        simp only
        -- not below t: then nowhere in the rest either
        have : sid ∉ Tree.namesL r := fun hr => hnd'.2.2 _ hin _ hr rfl
        cases hq : Tree.pathL r sid with
        | none => rfl
        | some q => exact absurd (pathL_mem r sid q hq) this
    | succ j =>
      rw [List.getElem?_cons_succ] at h
      have hmem : some tk ∈ r := List.mem_of_getElem? h
      have hinr : sid ∈ Tree.namesL r := by
        have : ∀ (l : List (Option Tree)) (tt : Tree), some tt ∈ l → ∀ x ∈ tt.names, x ∈ Tree.namesL l := by
          intro l
          induction l with
          | nil => intro tt h; cases h
          | cons c l' ihl =>
            intro tt htt x hx
            rcases List.mem_cons.mp htt with e | htt'
            · subst e; simp only [Tree.namesL, List.mem_append]; exact Or.inl hx
            · cases c with
              | none => simp only [Tree.namesL]; exact ihl tt htt' x hx
              | some t0 => simp only [Tree.namesL, List.mem_append]; exact Or.inr (ihl tt htt' x hx)
        exact this r tk hmem sid hin
      have hnt : sid ∉ t.names := fun ht => hnd'.2.2 _ ht _ hinr rfl
      rw [path_none_of_not_mem t sid hnt]
      exact pathL_at r j tk sid hnd'.2.1 h hin

theorem searchL_at (ctx : PutCtx) (anc : List Bkt) : ∀ (cs : List (Option Tree)) (i : Nat) (t : Tree),
    cs[i]? = some (some t) → (searchL ctx anc cs)[i]? = some (some (search ctx anc t))
  | [], i, _, h => by simp at h
  | none :: r, i, t, h => by
    simp only [searchL]
    cases i with
    | zero => simp at h
    | succ j =>
      rw [List.getElem?_cons_succ] at h ⊢
      exact searchL_at ctx anc r j t h
  | some t0 :: r, i, t, h => by
    simp only [searchL]
    cases i with
    | zero =>
      rw [List.getElem?_cons_zero] at h ⊢
      simp only [Option.some.injEq] at h; subst h; rfl
    | succ j =>
      rw [List.getElem?_cons_succ] at h ⊢
      exact searchL_at ctx anc r j t h

/-! ### completeness of the search -/

/-- **`Bucket.put` finds a server whenever one fits.**  If some server below `t` is up and passes
    the checks of `Server.put` (with the affinity limits of all buckets above it), the search returns
    a server. -/
theorem search_complete (ctx : PutCtx) : ∀ (t : Tree) (anc : List Bkt) (sid : Nat) (s : Srv) (p : List Bkt),
    CapOk ctx.srvs t → LabOk ctx.srvs t → TrOk ctx.srvs t → CurOk t → t.names.Nodup →
    sid ∈ t.leaves → t.path sid = some p → ctx.srvs.find? (fun x => x.id = sid) = some s → s.state = .up →
    srvCheck ctx s (anc ++ p) = true → (search ctx anc t).2 ≠ none := by
  intro t
  induction t using WellFounded.induction (measure (fun t : Tree => sizeOf t)).wf with
  | _ t ih =>
    intro anc sid s p hcap hlab htr hcur hnd hleaf hpath hs hup hchk
    cases t with
    | leaf l =>
      simp only [Tree.leaves, List.mem_singleton] at hleaf
      subst hleaf
      simp only [Tree.path, ↓reduceIte, Option.some.injEq] at hpath
      subst hpath
      simp only [List.append_nil] at hchk
      simp only [search, hs, hup, hchk, Bool.and_self, ↓reduceIte, decide_true]
      simp
    | node b cs =>
      have hnd0 := hnd
      simp only [Tree.names, List.nodup_cons] at hnd
      simp only [Tree.leaves] at hleaf
      have hbne : b.id ≠ sid := fun e => hnd.1 (e ▸ leavesL_sub_namesL cs sid hleaf)
      -- the child on the way
      obtain ⟨k, tk, hk, hin⟩ := leavesL_child cs sid hleaf
      have hmem : some tk ∈ cs := List.mem_of_getElem? hk
      have hpl : Tree.pathL cs sid = tk.path sid := pathL_at cs k tk sid hnd.2 hk (leaves_sub_names tk sid hin)
      simp only [Tree.path, hbne, ↓reduceIte, hpl] at hpath
      cases hpk : tk.path sid with
      | none => rw [hpk] at hpath; cases hpath
      | some p' =>
        rw [hpk] at hpath
        simp only [Option.some.injEq] at hpath
        subst hpath
        -- the bucket's own checks pass
        obtain ⟨cl, ct, cc⟩ := cover_root ctx.srvs sid s hs (.node b cs) b cs rfl (by simpa [Tree.leaves] using hleaf) hcap hlab htr
        simp only [srvCheck, Bool.and_eq_true, decide_eq_true_eq, List.all_eq_true, Bool.not_eq_true'] at hchk
        obtain ⟨⟨⟨⟨⟨_, hlabel⟩, htraits⟩, _⟩, hfree⟩, hanc⟩ := hchk
        have hbk : bktCheck ctx b = true := by
          simp only [bktCheck, Bool.and_eq_true, Bool.not_eq_true', List.contains_eq_mem, decide_eq_true_eq]
          refine ⟨⟨⟨?_, ?_⟩, ?_⟩, ?_⟩
          · rw [← hlabel]; exact cl
          · exact hasTraits_mono ct htraits
          · exact hanc b (by simp)
          · have h1 := Vec.not_anyGt hfree
            have h2 := cc hup
            unfold Vec.le at h2
            simp only [Vec.anyGt, Bool.or_eq_false_iff, decide_eq_false_iff_not]
            omega
        simp only [search, hbk, Bool.not_true, Bool.false_eq_true, ↓reduceIte]
        -- the first suggestion exists
        simp only [CurOk] at hcur
        have hknh : NH cs k := ⟨tk, hk⟩
        have hklt := nh_lt hknh
        have hidx0 : getCursor b ctx.app.aff ≤ cs.length := getCursor_le hcur.1 _
        obtain ⟨f, hf, hfnh, _⟩ := suggest_next cs cs.length (getCursor b ctx.app.aff) k hidx0 hknh
          (cd_lt _ _ _ hklt hidx0)
        rw [hf]
        simp only
        -- the child's own search finds a server (induction), so the walk does
        have hlt := sizeOf_child_lt b cs k tk hk
        simp only [CapOk, LabOk, TrOk, Agg.Ok] at hcap hlab htr
        have hck := okL_mem capLeaf capNode capGood capInv ctx.srvs cs _ hmem hcap.2.2
        have hlk := okL_mem labLeaf labNode labGood (fun _ => True) ctx.srvs cs _ hmem hlab.2.2
        have htk := okL_mem trLeaf trNode trGood (fun _ => True) ctx.srvs cs _ hmem htr.2.2
        have hndk : tk.names.Nodup := by
          have : ∀ (l : List (Option Tree)) (tt : Tree), some tt ∈ l → (Tree.namesL l).Nodup → tt.names.Nodup := by
            intro l
            induction l with
            | nil => intro tt h; cases h
            | cons c l' ihl =>
              intro tt htt hn
              cases c with
              | none =>
                simp only [Tree.namesL] at hn
                rcases List.mem_cons.mp htt with e | htt'
                · cases e
                · exact ihl tt htt' hn
              | some t0 =>
                simp only [Tree.namesL] at hn
                have hn' := List.nodup_append.mp hn
                rcases List.mem_cons.mp htt with e | htt'
                · simp only [Option.some.injEq] at e; subst e; exact hn'.1
                · exact ihl tt htt' hn'.2.1
          exact this cs tk hmem hnd.2
        have hfound := ih tk hlt (anc ++ [b]) sid s p' hck hlk htk (curOkL_mem cs tk hmem hcur.2) hndk hin hpk hs hup
          (by
            simp only [srvCheck, Bool.and_eq_true, decide_eq_true_eq, List.all_eq_true, Bool.not_eq_true']
            refine ⟨⟨⟨⟨⟨by assumption, hlabel⟩, htraits⟩, by assumption⟩, hfree⟩, ?_⟩
            intro x hx
            exact hanc x (by simpa [List.append_assoc] using hx))
        have hres : ∃ t' sid', (searchL ctx (anc ++ [b]) cs)[k]? = some (some (t', some sid')) := by
          rw [searchL_at ctx (anc ++ [b]) cs k tk hk]
          cases hr : (search ctx (anc ++ [b]) tk).2 with
          | none => exact absurd hr hfound
          | some sid' => exact ⟨(search ctx (anc ++ [b]) tk).1, sid', by rw [← hr]⟩
        have hflt := nh_lt hfnh
        exact walk_complete _ f cs k hres hknh hflt (cs.length + 1) cs (f + 1) f true rfl (fun _ => Iff.rfl) hfnh rfl
          (fun _ => rfl) (fun e => by cases e) (by unfold cd; simp) (by
            have := cd_lt cs.length f k hklt (by omega)
            unfold cd at this ⊢
            simp only [Nat.le_refl, ↓reduceIte, Nat.sub_self]
            omega)

end TmVerif.Sched
