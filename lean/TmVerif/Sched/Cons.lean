/-
  C03: after a cycle every placed app is on an existing server of its partition that has its
  traits; a fresh assignment goes to a server that is up and outlives the lease.
-/
import TmVerif.Sched.Expire

namespace TmVerif.Sched

/-- `y`, if placed, is on an existing server with its allocation's label and its traits. -/
def ConsOk (c : Cell) (y : Nat) : Prop :=
  ∀ a sid, c.app? y = some a → a.server = some sid →
    ∃ s, c.srv? sid = some s ∧ s.label = (c.allocInfo a.alloc).label ∧
      (c.appTraits a = 0 ∨ hasTraits s.traits (c.appTraits a) = true)

theorem appTraits_same {c c' : Cell} (hs : SameStatic c c') {a a' : App} (hst : a'.stat = a.stat) :
    c'.appTraits a' = c.appTraits a ∧ c'.allocInfo a'.alloc = c.allocInfo a.alloc := by
  have e_tr : a'.traits = a.traits := congrArg AppStat.traits hst
  have e_al : a'.alloc = a.alloc := congrArg AppStat.alloc hst
  have e_ai : c'.allocInfo a'.alloc = c.allocInfo a.alloc := by rw [e_al]; exact allocInfo_same hs.allocs _
  exact ⟨by unfold Cell.appTraits; rw [e_tr, e_ai], e_ai⟩

/-- `ConsOk` survives every primitive: a `put` checks label and traits, nothing else places. -/
theorem consOk_lprim {c c' : Cell} {lab : Lab} {y : Nat} (hq : ConsOk c y) (hp : LPrim lab c c') : ConsOk c' y := by
  intro a' sid ha' hsv
  have hs := sameStatic_lprim hp
  obtain ⟨a, ha, hcase⟩ := lprim_server hp y a' ha'
  obtain ⟨a2, ha2, hst⟩ := app?_stat_of hs ha'
  rw [ha] at ha2; cases ha2
  obtain ⟨e_at, e_ai⟩ := appTraits_same hs hst
  rcases hcase with e | e | ⟨sid', l0, hl, hnone, hnew⟩
  · obtain ⟨s, hs0, hlab, htr⟩ := hq a sid ha (by rw [← e]; exact hsv)
    obtain ⟨s', hs', est⟩ := srv?_stat_to hs hs0
    have e1 : s'.label = s.label := congrArg SrvStat.label est
    have e2 : s'.traits = s.traits := congrArg SrvStat.traits est
    exact ⟨s', hs', by rw [e1, e_ai]; exact hlab, by rw [e_at, e2]; exact htr⟩
  · rw [e] at hsv; cases hsv
  · subst hl
    rw [hnew] at hsv
    have : sid' = sid := Option.some.inj hsv
    subst this
    cases hp with
    | put h =>
      rcases serverPut_shape h with ⟨hb, _⟩ | ⟨_, a1, s1, anc, ha1, hs1, _, _, _, hchk, _, _⟩
      · cases hb
      · rw [ha] at ha1; cases ha1
        obtain ⟨s', hs', est⟩ := srv?_stat_to hs hs1
        have e1 : s'.label = s1.label := congrArg SrvStat.label est
        have e2 : s'.traits = s1.traits := congrArg SrvStat.traits est
        unfold srvCheck at hchk
        simp only [Bool.and_eq_true, decide_eq_true_eq] at hchk
        obtain ⟨⟨⟨⟨⟨_, hlab⟩, htr⟩, _⟩, _⟩, _⟩ := hchk
        have hctx_l : (c.putCtx (putApp a l0)).label = (c.allocInfo a.alloc).label := by
          cases l0 <;> rfl
        have hctx_t : (c.putCtx (putApp a l0)).traits = c.appTraits a := by
          cases l0 <;> rfl
        refine ⟨s', hs', by rw [e1, e_ai, hlab, hctx_l], ?_⟩
        rw [e_at, e2]
        rw [hctx_t] at htr
        unfold hasTraits at htr ⊢
        simp only [Bool.or_eq_true, beq_iff_eq] at htr ⊢
        rcases htr with h0 | h1
        · exact Or.inl h0
        · exact Or.inr (Or.inr h1)

/-- `_fix_invalid_placements` establishes `ConsOk` for the app it looks at. -/
theorem fixInvalidPlacement_est {c c' : Cell} {y : Nat} (h : fixInvalidPlacement c y = .ok c') : ConsOk c' y := by
  have hr := fixInvalidPlacement_lreach h
  simp only [fixInvalidPlacement, bind_ok, orAbort_ok] at h
  obtain ⟨a, ha, h⟩ := h
  -- in every branch but the last the app ends unplaced
  have unplaced : (∀ a', c'.app? y = some a' → a'.server = none) → ConsOk c' y := by
    intro hn a' sid ha' hsv; rw [hn a' ha'] at hsv; cases hsv
  split at h
  · rename_i hsv
    simp only [pure_ok] at h; subst h
    exact unplaced (fun a' ha' => by rw [ha] at ha'; cases ha'; exact hsv)
  · rename_i sid hsv
    split at h
    · rename_i hnone
      apply unplaced
      intro a' ha'
      obtain ⟨b, hb, hcase⟩ := lprim_server (.release h) y a' ha'
      rw [app?_setApp, ha] at hb
      simp at hb
      subst hb
      rcases hcase with e | e | ⟨_, _, hl, _, _⟩
      · rw [e]
      · exact e
      · cases hl
    · rename_i s hs
      split at h
      · simp only [bind_ok] at h
        obtain ⟨c1, h1, h2⟩ := h
        apply unplaced
        intro a' ha'
        obtain ⟨a0, _, ha0⟩ := serverRemove_app_self h1
        obtain ⟨b, hb, hcase⟩ := lprim_server (.release h2) y a' ha'
        rw [ha0] at hb; cases hb
        rcases hcase with e | e | ⟨_, _, hl, _, _⟩
        · rw [e]; rfl
        · exact e
        · cases hl
      · rename_i hcond
        simp only [pure_ok] at h; subst h
        intro a' sid' ha' hsv'
        rw [ha] at ha'; cases ha'
        rw [hsv] at hsv'
        have : sid = sid' := Option.some.inj hsv'
        subst this
        simp only [Bool.or_eq_true, decide_eq_true_eq, Bool.and_eq_true, bne_iff_ne, ne_eq,
          Bool.not_eq_true', not_or, not_and, Decidable.not_not] at hcond
        refine ⟨s, hs, hcond.1, ?_⟩
        by_cases h0 : c.appTraits a = 0
        · exact Or.inl h0
        · right
          have := hcond.2 h0
          simpa using this

/-- After a cycle every placed app sits on an existing server of its partition with its traits. -/
theorem consOk_schedule {c c' : Cell} {qs ch} (hc : InvCap c) (h : schedule c qs ch = .ok c') :
    ∀ y, ConsOk c' y := by
  obtain ⟨c1, hpre, hcy⟩ := schedule_parts h
  have hall := hpre
  simp only [prePasses, bind_ok] at hpre
  obtain ⟨ca, h1, cb, h2, cc, h3, h4⟩ := hpre
  have est : ∀ y ∈ c.apps.map (·.id), ConsOk ca y :=
    foldlM_establish (Q := ConsOk) (P := PreOk) fixInvalidPlacement (fun _ _ _ hx => fixInvalidPlacement_lreach hx)
      (fun _ _ _ _ hq _ lp => consOk_lprim hq lp) (fun _ _ _ hx => fixInvalidPlacement_est hx) _ _ _ h1
  have r1 : LReach PreOk c ca := foldlM_lreach _ _ (fun _ _ _ _ hx => fixInvalidPlacement_lreach hx) _ _ h1
  have hca := invCap_lreach hc r1
  have r2 : LReach PreOk ca cb := handleInactive_fold_lreach _ ca cb hca h2
  have r3 : LReach PreOk cb cc := foldlM_lreach _ _ (fun _ _ _ _ hx => handleBlacklisted_lreach hx) _ _ h3
  have r4 : LReach PreOk cc c1 := foldlM_lreach _ _ (fun _ _ _ _ hx => fixInvalidIdentity_lreach hx) _ _ h4
  have rest : Reach ca c' := ((r2.trans r3).trans r4).toReach.trans hcy.toReach
  intro y
  by_cases hy : y ∈ c.apps.map (·.id)
  · exact rest.induct (P := fun ci => ConsOk ci y)
      (fun _ _ hq hp => by obtain ⟨lab, hp⟩ := hp; exact consOk_lprim hq hp) (est y hy)
  · -- not an app at all
    intro a sid ha _
    exfalso
    have ids : c'.apps.map (·.id) = c.apps.map (·.id) := reach_ids (schedule_reach h)
    apply hy
    rw [← ids]
    have := List.mem_map_of_mem (f := (·.id)) (app?_mem ha)
    rw [app?_id ha] at this; exact this

end TmVerif.Sched
