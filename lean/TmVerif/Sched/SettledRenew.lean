/-
  C05, end-of-cycle clauses with a lease renewal pending: an instance whose renewal fails is taken
  off its server for the placement attempt; if nothing else is found it is put back — and the
  put-back succeeds (`restore_ok`: placements only shrank in between), so it ends placed with the
  identity it held.
-/
import TmVerif.Sched.Settled3
import TmVerif.Sched.Displace
import TmVerif.Sched.Cons

namespace TmVerif.Sched

theorem hasTraits_zero (x : Nat) : hasTraits x 0 = true := by simp [hasTraits]

/-- `tryPlace` with a saved placement `(sid, e)` (renewal failed): the instance ends placed.
    `cE` is the state at the start of its turn, in which it sat on `sid`. -/
theorem tryPlace_restore_placed {revq : List Nat} {st st' : PState} {cE : Cell} {aE : App} {aid sid : Nat}
    {e : Option Int} {sE : Srv}
    (hallE : AffAll cE) (hreachE : Reach cE st.cell)
    (haE : cE.app? aid = some aE) (hsvE : aE.server = some sid) (hblE : aE.blacklisted = false)
    (hsE : cE.srv? sid = some sE) (hlab : sE.label = (cE.allocInfo aE.alloc).label)
    (htr : hasTraits sE.traits (cE.appTraits aE) = true)
    (hclean : Clean cE st.cell)
    (hnone : ∀ a, st.cell.app? aid = some a → a.server = none)
    (h : tryPlace revq st aid (some (sid, e)) = .ok st') :
    ∃ a', st'.cell.app? aid = some a' ∧ a'.server.isSome = true ∧
      ∃ a, st.cell.app? aid = some a ∧ a'.identity = a.identity ∧ a'.group = a.group := by
  have hidE : aE.id = aid := app?_id haE
  simp only [tryPlace, bind_ok, orAbort_ok] at h
  obtain ⟨a2, ha2, ⟨c3, placed⟩, hput, c4, hev, a4, ha4, h⟩ := h
  have r1 := cellPut_lreach2 (after := revq.takeWhile (· ≠ aid)) hidE hblE hput
  have r2 : LReach (fun c lab => PlaceOk aE false (revq.takeWhile (· ≠ aid)) c lab ∧ NoIdLab lab) c3 c4 := by
    split at hev
    · simp only [pure_ok] at hev; subst hev; exact .refl
    · exact evictLoop_lreach2 hidE hblE _ _ _ hev
  have r12 := r1.trans r2
  obtain ⟨ab, hab, e1, e2⟩ := keepsId_chain (fun _ _ h => noIdLab_keeps h.2) r12 aid a4 ha4
  rw [ha2] at hab; cases hab
  split at h
  · rename_i hs
    simp only [pure_ok] at h; subst h
    exact ⟨a4, ha4, hs, a2, ha2, e1, e2⟩
  · rename_i hns
    have hn4 : a4.server = none := by
      cases hsv : a4.server with
      | none => rfl
      | some x => simp [hsv] at hns
    simp only [bind_ok, orAbort_ok, pure_ok] at h
    obtain ⟨⟨c5, rc⟩, hr, a5, ha5, rfl⟩ := h
    -- the state before the put-back is clean w.r.t. the start of the turn
    have r12' : LReach (PlaceOk aE false (revq.takeWhile (· ≠ aid))) st.cell c4 := r12.mono (fun _ _ h => h.1)
    have hreach4 : Reach cE c4 := hreachE.trans r12'.toReach
    have hclean4 : Clean cE c4 := by
      intro y d0 d1 hd0 hd1
      by_cases hy : y = aid
      · subst hy
        rw [ha4] at hd1; cases hd1
        exact Or.inr hn4
      · obtain ⟨d, hd, hcase⟩ := entry_servers_ne r12' (by rw [hidE]; exact hy) d1 hd1
        rcases hcase with e' | e'
        · rcases hclean y d0 d hd0 hd with e'' | e''
          · exact Or.inl (e'.trans e'')
          · exact Or.inr (e'.trans e'')
        · exact Or.inr e'
    -- unfold `Server.restore`
    simp only [serverRestore, bind_ok, orAbort_ok, pure_ok] at hr
    obtain ⟨ar', _, ⟨c6, rc6⟩, hput6, a6, ha6, hr⟩ := hr
    simp only [Prod.mk.injEq] at hr
    obtain ⟨rfl, rfl⟩ := hr
    have hrc : rc6 = true := restore_ok hallE hreach4 haE hsE hsvE hlab htr hclean4 ha4 hn4 hput6
    subst hrc
    rcases serverPut_shape hput6 with ⟨hb, _⟩ | ⟨_, ap, sp, anc, hap, _, _, _, _, _, happs, _⟩
    · cases hb
    · rw [ha4] at hap; cases hap
      have hid4 : a4.id = aid := app?_id ha4
      have h6 : c6.app? aid = some (putRec c4 a4 sid true) := by
        rw [app?_of_apps happs, ha4]
        simp [putRec, hid4]
      rw [h6] at ha6; cases ha6
      have h5 := ha5
      rw [app?_setApp, h6] at h5
      simp only [Option.map_some, Option.some.injEq] at h5
      have hsv5 : a5.server = some sid := by rw [← h5]; split <;> simp [putRec]
      have hi5 : a5.identity = a4.identity := by rw [← h5]; split <;> simp [putRec]
      have hg5 : a5.group = a4.group := by rw [← h5]; split <;> simp [putRec]
      refine ⟨{ a5 with renew := true }, ?_, by simp [hsv5], a2, ha2, by simp only; rw [hi5, e1], by simp only; rw [hg5, e2]⟩
      rw [app?_setApp, ha5]
      simp only [Option.map_some, ↓reduceIte]

/-- What `renewStep` does to the instance's record: identity and group stay; without a saved
    placement the server stays, with one the instance was taken off its server (and held an identity
    if it needs one — the real code asserts it). -/
theorem renewStep_post {c c1 : Cell} {a : App} {r} (ha : c.app? a.id = some a)
    (h : renewStep c a = .ok (c1, r)) :
    ∃ a1, c1.app? a.id = some a1 ∧ a1.identity = a.identity ∧ a1.group = a.group ∧
      (r = none → a1.server = a.server) ∧
      (∀ sid e, r = some (sid, e) → a1.server = none ∧ a.hasIdentity = true ∧ a.server = some sid) := by
  simp only [renewStep] at h
  split at h
  · simp only [bind_ok, orAbort_ok] at h
    obtain ⟨sid, hsid, h⟩ := h
    split at h
    · simp only [throw_ne_ok] at h
    · rename_i hhas
      have hhas' : a.hasIdentity = true := by simpa using hhas
      split at h
      · simp only [throw_ne_ok] at h
      · simp only [bind_ok] at h
        obtain ⟨⟨c', ok⟩, hr, h⟩ := h
        split at h
        · rename_i hok
          subst hok
          simp only [pure_ok, Prod.mk.injEq] at h
          obtain ⟨rfl, rfl⟩ := h
          simp only [serverRenew, bind_ok, orAbort_ok] at hr
          obtain ⟨a', ha', s, hs, hr⟩ := hr
          rw [ha] at ha'; cases ha'
          split at hr
          · simp only [pure_ok, Prod.mk.injEq] at hr
            obtain ⟨rfl, _⟩ := hr
            refine ⟨{ a with expiry := some (c.now + a.lease) }, ?_, rfl, rfl, (fun _ => rfl), (fun _ _ e => by cases e)⟩
            exact app?_setApp_self (a := a) (a' := { a with expiry := some (c.now + a.lease) }) ha
          · simp only [pure_ok, Prod.mk.injEq] at hr
            obtain ⟨_, hb⟩ := hr; cases hb
        · rename_i hok
          have hok' : ok = false := by simpa using hok
          subst hok'
          simp only [bind_ok, pure_ok, Prod.mk.injEq] at h
          obtain ⟨c2, h2, rfl, rfl⟩ := h
          obtain ⟨rfl, _⟩ := serverRenew_fail hr
          obtain ⟨a1, s1, ha1, _, _, happs, _⟩ := serverRemove_shape h2
          rw [ha] at ha1; cases ha1
          refine ⟨removeRec a, ?_, rfl, rfl, (fun e => by cases e), ?_⟩
          · rw [app?_of_apps happs, ha]; simp [removeRec]
          · intro sid' e' he
            simp only [Option.some.injEq, Prod.mk.injEq] at he
            exact ⟨rfl, hhas', by rw [← he.1]; exact hsid⟩
  · simp only [pure_ok, Prod.mk.injEq] at h
    obtain ⟨rfl, rfl⟩ := h
    exact ⟨a, ha, rfl, rfl, (fun _ => rfl), (fun _ _ e => by cases e)⟩

/-- After its turn the app of a queue entry is settled — also when a lease renewal is pending. -/
theorem placeOne_settled2 {revq : List Nat} {st st' : PState} {q : Nat × Bool} {a0 : App}
    (ha0 : st.cell.app? q.1 = some a0)
    (hblset : a0.blacklisted = true → SettledRec a0)
    (hall : AffAll st.cell) (hcons : ConsOk st.cell q.1)
    (h : placeOne revq st q = .ok st') : Settled st'.cell q.1 := by
  by_cases hnr : a0.renew = false
  · exact placeOne_settled ha0 hnr hblset h
  have hrn : a0.renew = true := by simpa using hnr
  have hh := h
  simp only [placeOne, bind_ok, orAbort_ok] at h
  obtain ⟨a, ha, h⟩ := h
  rw [ha0] at ha; cases ha
  have hid := app?_id ha0
  split at h
  · rename_i hbl
    simp only [pure_ok] at h; subst h
    intro a' ha'; rw [ha0] at ha'; cases ha'; exact hblset hbl
  · rename_i hbl
    have hbl' : a0.blacklisted = false := by simpa using hbl
    split at h
    · simp only [bind_ok, pure_ok] at h
      obtain ⟨c2, h2, rfl⟩ := h
      have := unplacedBranch_settled (by rw [hid]; exact ha0) h2
      rw [hid] at this; exact this
    · simp only [bind_ok, orAbort_ok] at h
      obtain ⟨⟨c1, restore⟩, hrs, a1, ha1, h⟩ := h
      have ha0' : st.cell.app? a0.id = some a0 := by rw [hid]; exact ha0
      obtain ⟨a1', ha1', ei1, eg1, hsvnone, hsvsome⟩ := renewStep_post ha0' hrs
      rw [hid, ha1] at ha1'; cases ha1'
      obtain ⟨r1, hres⟩ := renewStep_lreach (after := revq.takeWhile (· ≠ q.1)) ha0' hbl' hrs
      have hid1 : a1.id = q.1 := app?_id ha1
      have r2 : LReach (PlaceOk a0 false (revq.takeWhile (· ≠ q.1))) st.cell (c1.setApp { a1 with renew := false }) :=
        r1.step (setRenew_lprim ha1 false) ⟨hid.symm, hbl', rfl, by intro e; cases e⟩
      have hself : (c1.setApp { a1 with renew := false }).app? q.1 = some { a1 with renew := false } := by
        have e1 : ({ a1 with renew := false } : App).id = q.1 := hid1
        rw [← e1]; exact app?_setApp_self (a := a1) (by rw [e1]; exact ha1)
      split at h
      · rename_i sid hsv
        split at h
        · simp only [throw_ne_ok] at h
        · split at h
          · simp only [throw_ne_ok] at h
          · rename_i hhas
            simp only [pure_ok] at h; subst h
            intro a' ha'
            rw [hself] at ha'; cases ha'
            refine ⟨fun _ => ?_, fun hn => ?_⟩
            · have : a1.hasIdentity = true := by simpa using hhas
              exact this
            · have : a1.server = none := hn
              rw [hsv] at this; cases this
      · rename_i hsvn
        -- the renewal failed: the instance was taken off `sid`
        have hrest : ∃ sid e, restore = some (sid, e) := by
          cases hr' : restore with
          | none =>
            have := hsvnone hr'
            rw [hsvn] at this
            -- `renew = true` requires a server
            exfalso
            simp only [renewStep, hrn, ↓reduceIte, bind_ok, orAbort_ok] at hrs
            obtain ⟨sid, hsid, _⟩ := hrs
            rw [← this] at hsid; cases hsid
          | some p => exact ⟨p.1, p.2, rfl⟩
        obtain ⟨sid, e, hrest⟩ := hrest
        obtain ⟨_, hhas0, hsv0⟩ := hsvsome sid e hrest
        have hhas1 : a1.hasIdentity = true := by rw [hasIdentity_congr eg1 ei1]; exact hhas0
        simp only [bind_ok] at h
        obtain ⟨⟨c2, got, ch⟩, hacq, h⟩ := h
        have hr1has : ({ a1 with renew := false } : App).hasIdentity = true := hhas1
        obtain ⟨rfl, rfl⟩ := acquire_has hself hr1has hacq
        simp only [Bool.not_true, Bool.false_eq_true, ↓reduceIte] at h
        have r3 : LReach (PlaceOk a0 false (revq.takeWhile (· ≠ q.1))) st.cell (c1.setApp { a1 with renew := false }) :=
          r2
        simp only [afterAcquire, bind_ok] at h
        obtain ⟨⟨c3, done⟩, hre, h⟩ := h
        have hre_post := restoreEvicted_post hre
        have hhas3 : ∀ a, c3.app? q.1 = some a → a.hasIdentity = true := by
          intro a ha
          obtain ⟨b, hb, e1, e2, _⟩ := hre_post a ha
          rw [hself] at hb; cases hb
          rw [hasIdentity_congr e2 e1]; exact hr1has
        have r4 : LReach (PlaceOk a0 false (revq.takeWhile (· ≠ q.1))) st.cell c3 :=
          r3.trans (restoreEvicted_lreach hid hbl' hre)
        split at h
        · rename_i hdone
          simp only [pure_ok] at h; subst h
          intro a' ha'
          obtain ⟨b, hb, _, _, hsome⟩ := hre_post a' ha'
          have hs := hsome hdone
          exact ⟨fun _ => hhas3 a' ha', fun hn => by rw [hn] at hs; cases hs⟩
        · rename_i hdone
          have hdone' : done = false := by simpa using hdone
          subst hdone'
          have hnone3 : ∀ a, c3.app? q.1 = some a → a.server = none := by
            intro a ha
            obtain ⟨b, hb, e'⟩ := restoreEvicted_false_server hre a ha
            rw [hself] at hb; cases hb
            rw [e']; exact hsvn
          simp only [bind_ok, orAbort_ok] at h
          obtain ⟨a2, ha2, h⟩ := h
          split at h
          · simp only [bind_ok, pure_ok] at h
            obtain ⟨c4, hrel, rfl⟩ := h
            exact settled_of_release hrel hnone3
          · split at h
            · simp only [bind_ok, pure_ok] at h
              obtain ⟨c4, hrel, rfl⟩ := h
              exact settled_of_release hrel hnone3
            · -- `tryPlace` with the saved placement: placed elsewhere, or put back
              rw [hrest] at h
              obtain ⟨sE, hsE, hlab, htrE⟩ := hcons a0 sid ha0 hsv0
              have htr : hasTraits sE.traits (st.cell.appTraits a0) = true := by
                rcases htrE with e0 | e0
                · rw [e0]; exact hasTraits_zero _
                · exact e0
              have hclean : Clean st.cell c3 := by
                intro y d0 d1 hd0 hd1
                by_cases hy : y = q.1
                · subst hy; exact Or.inr (hnone3 d1 hd1)
                · obtain ⟨d, hd, hcase⟩ := entry_servers_ne r4 (by rw [hid]; exact hy) d1 hd1
                  rw [hd0] at hd; cases hd
                  exact hcase
              obtain ⟨a', ha', hsome', ab, hab, ei, eg⟩ :=
                tryPlace_restore_placed (st := { st with cell := c3, choices := _ }) hall r4.toReach ha0 hsv0 hbl'
                  hsE hlab htr hclean hnone3 h
              intro a'' ha''
              rw [ha'] at ha''; cases ha''
              refine ⟨fun _ => ?_, fun hn => by rw [hn] at hsome'; cases hsome'⟩
              rw [hasIdentity_congr eg ei]; exact hhas3 ab hab

/-- A blacklisted, unplaced instance without identity is not touched by any step of any entry's turn. -/
theorem blQuiet_step {ct c c' : Cell} {q : Nat × Bool} {a0 : App} {after : List Nat} {lab : Lab} {y : Nat}
    (ha0 : ct.app? q.1 = some a0) (hs : SameStatic ct c) (hw : BlQuiet c y)
    (hok : PlaceOk a0 q.2 after c lab) (hp : LPrim lab c c') : BlQuiet c' y := by
  intro a' ha' hbl'
  have hs' := sameStatic_lprim hp
  obtain ⟨a, ha, hst⟩ := app?_stat_of hs' ha'
  have e_bl : a'.blacklisted = a.blacklisted := congrArg AppStat.blacklisted hst
  have e_grp : a'.group = a.group := congrArg AppStat.group hst
  have hblk := hw a ha
  have ha0id := app?_id ha0
  have hbl : a.blacklisted = true := by rw [← e_bl]; exact hbl'
  obtain ⟨hsv, hidn⟩ := hblk hbl
  -- a blacklisted, unplaced app is not touched by any label
  have hnt : lab.target ≠ some y := by
    intro ht
    rcases placeOk_target hok y ht with e | hafter
    · -- y would be the app of the current entry, which is not blacklisted
      obtain ⟨at_, hat, hst2⟩ := app?_stat_of hs ha
      rw [e, ha0id, ha0] at hat; cases hat
      have eb : a.blacklisted = a0.blacklisted := congrArg AppStat.blacklisted hst2
      have h0 : a0.blacklisted = false := by
        cases lab with
        | put a1 sid l0 ok => exact hok.2.1
        | remove sid a1 =>
          rcases hok with h | h
          · exact h.2.1
          · exact h.2.2.1
        | release a1 => exact hok.2.1
        | acquire a1 ok => exact hok.2.1
        | appMeta a1 => exact hok.2.1
        | setRenew a1 b => exact hok.2.1
        | ghost a1 v => exact hok.2.2.1
        | dropDangling a1 => simp only [PlaceOk] at hok
        | forgetIdentity a1 => simp only [PlaceOk] at hok
        | tree => simp [Lab.target] at ht
        | clearEv => simp [Lab.target] at ht
      rw [eb, h0] at hbl; cases hbl
    · -- y would be a victim: but victims are placed
      cases lab with
      | put a1 sid l0 ok =>
        simp only [Lab.target, Option.some.injEq] at ht; subst ht
        -- own-turn label: y = a0.id
        obtain ⟨at_, hat, hst2⟩ := app?_stat_of hs ha
        have hy : a1 = a0.id := hok.1
        rw [hy, ha0id, ha0] at hat; cases hat
        have eb : a.blacklisted = a0.blacklisted := congrArg AppStat.blacklisted hst2
        rw [eb, hok.2.1] at hbl; cases hbl
      | remove sid a1 =>
        simp only [Lab.target, Option.some.injEq] at ht; subst ht
        rcases hok with h | ⟨_, _, _, _, x0, s0, hx0, _, hsvx, _⟩
        · obtain ⟨at_, hat, hst2⟩ := app?_stat_of hs ha
          rw [h.1, ha0id, ha0] at hat; cases hat
          have eb : a.blacklisted = a0.blacklisted := congrArg AppStat.blacklisted hst2
          rw [eb, h.2.1] at hbl; cases hbl
        · rw [ha] at hx0; cases hx0; rw [hsv] at hsvx; cases hsvx
      | release a1 =>
        simp only [Lab.target, Option.some.injEq] at ht; subst ht
        obtain ⟨at_, hat, hst2⟩ := app?_stat_of hs ha
        rw [hok.1, ha0id, ha0] at hat; cases hat
        have eb : a.blacklisted = a0.blacklisted := congrArg AppStat.blacklisted hst2
        rw [eb, hok.2.1] at hbl; cases hbl
      | acquire a1 ok =>
        simp only [Lab.target, Option.some.injEq] at ht; subst ht
        obtain ⟨at_, hat, hst2⟩ := app?_stat_of hs ha
        rw [hok.1, ha0id, ha0] at hat; cases hat
        have eb : a.blacklisted = a0.blacklisted := congrArg AppStat.blacklisted hst2
        rw [eb, hok.2.1] at hbl; cases hbl
      | appMeta a1 =>
        simp only [Lab.target, Option.some.injEq] at ht; subst ht
        obtain ⟨at_, hat, hst2⟩ := app?_stat_of hs ha
        rw [hok.1, ha0id, ha0] at hat; cases hat
        have eb : a.blacklisted = a0.blacklisted := congrArg AppStat.blacklisted hst2
        rw [eb, hok.2.1] at hbl; cases hbl
      | setRenew a1 b =>
        simp only [Lab.target, Option.some.injEq] at ht; subst ht
        obtain ⟨at_, hat, hst2⟩ := app?_stat_of hs ha
        rw [hok.1, ha0id, ha0] at hat; cases hat
        have eb : a.blacklisted = a0.blacklisted := congrArg AppStat.blacklisted hst2
        rw [eb, hok.2.1] at hbl; cases hbl
      | ghost a1 v =>
        simp only [Lab.target, Option.some.injEq] at ht; subst ht
        obtain ⟨_, _, _, _, x0, sidx, sx, hx0, hsvx, _⟩ := hok
        rw [ha] at hx0; cases hx0; rw [hsv] at hsvx; cases hsvx
      | dropDangling a1 => simp only [PlaceOk] at hok
      | forgetIdentity a1 => simp only [PlaceOk] at hok
      | tree => simp [Lab.target] at ht
      | clearEv => simp [Lab.target] at ht
  obtain ⟨b, hb, e1, e2, _⟩ := lprim_untargeted hp hnt a' ha'
  rw [ha] at hb; cases hb
  exact ⟨by rw [e1]; exact hsv, fun hg => by rw [e2]; exact hidn (by rw [← e_grp]; exact hg)⟩


theorem clear_blQuiet {c : Cell} {y : Nat} (h : BlQuiet c y) : BlQuiet (clearGhost c) y := by
  intro a' ha' hbl'
  obtain ⟨a, ha, e1, e2, _, _, _⟩ := lprim_untargeted (.clearEv (c := c)) (by simp [Lab.target]) a' ha'
  obtain ⟨a2, ha2, hst⟩ := app?_stat_of (sameStatic_lprim (.clearEv (c := c))) ha'
  rw [ha] at ha2; cases ha2
  have e_bl : a'.blacklisted = a.blacklisted := congrArg AppStat.blacklisted hst
  have e_grp : a'.group = a.group := congrArg AppStat.group hst
  obtain ⟨h3, h4⟩ := h a ha (by rw [← e_bl]; exact hbl')
  exact ⟨by rw [e1]; exact h3, fun hg => by rw [e2]; exact h4 (by rw [← e_grp]; exact hg)⟩

theorem settledRec_of_blQuiet {c : Cell} {y : Nat} {a : App} (h : BlQuiet c y) (ha : c.app? y = some a)
    (hbl : a.blacklisted = true) : SettledRec a := by
  obtain ⟨h1, h2⟩ := h a ha hbl
  exact ⟨fun hs => (by rw [h1] at hs; cases hs), fun _ hg => h2 hg⟩

/-- The loop over one queue settles every app of the queue and disturbs no settled app outside —
    with lease renewals pending or not. -/
theorem loop_settled2 {revq : List Nat} {qs : List (Nat × Bool)} {c c' : Cell} (hl : Loop revq qs c c') :
    AfterOk revq qs → (qs.map (·.1)).Nodup → AffAll c → (∀ y, ConsOk c y) →
    ∀ (P : Nat → Prop), (∀ y, P y → y ∉ qs.map (·.1)) → (∀ y, P y → Settled c y) → (∀ y, BlQuiet c y) →
    (∀ y, (P y ∨ y ∈ qs.map (·.1)) → Settled c' y) ∧ (∀ y, BlQuiet c' y) := by
  induction hl with
  | nil =>
    intro _ _ _ _ P _ hS hW
    refine ⟨fun y hy => ?_, hW⟩
    rcases hy with h | h
    · exact hS y h
    · cases h
  | @cons q rest c c1 c2 a0 ha0 hchain _ hplace ih =>
    intro hok hnd hall hcons P hP hS hW
    have hnd' : q.1 ∉ rest.map (·.1) ∧ (rest.map (·.1)).Nodup := by
      rw [List.map_cons] at hnd; exact List.nodup_cons.mp hnd
    have hW1 : ∀ y, BlQuiet c1 y := by
      have := lreach_inv (I := fun ci => ∀ y, BlQuiet ci y)
        (fun ci ci' lab hs hi hp lp y => blQuiet_step ha0 hs (hi y) hp lp) hchain hW
      exact this
    have hall1 : AffAll c1 := affAll_reach hall hchain.toReach
    have hcons1 : ∀ y, ConsOk c1 y := by
      intro y
      exact hchain.toReach.induct (P := fun ci => ConsOk ci y)
        (fun _ _ hq hp => by obtain ⟨lab, hp⟩ := hp; exact consOk_lprim hq hp) (hcons y)
    have hS1 : ∀ y, P y → Settled c1 y := by
      intro y hy
      have hyq : y ≠ q.1 := by intro e; exact hP y hy (by rw [e]; simp)
      have hya : y ∉ revq.takeWhile (· ≠ q.1) := by
        intro hin; exact hP y hy (List.mem_cons_of_mem _ (hok.1 y hin))
      refine hchain.induct (I := fun ci => Settled ci y) ?_ (hS y hy)
      intro ci ci' lab hs hp lp
      refine settled_untargeted hs lp ?_
      intro ht
      rcases placeOk_target hp y ht with e | e
      · exact hyq (by rw [e, app?_id ha0])
      · exact hya e
    have hSq : Settled c1 q.1 := by
      obtain ⟨st, st', e1, e2, hpl⟩ := hplace
      have ha0' : st.cell.app? q.1 = some a0 := by rw [e1]; exact ha0
      have := placeOne_settled2 ha0' (settledRec_of_blQuiet (hW q.1) ha0) (by rw [e1]; exact hall)
        (by rw [e1]; exact hcons q.1) hpl
      rw [e2] at this; exact this
    have := ih hok.2 hnd'.2 hall1 hcons1 (fun y => P y ∨ y = q.1)
      (by
        intro y hy
        rcases hy with h | h
        · intro hin; exact hP y h (List.mem_cons_of_mem _ hin)
        · rw [h]; exact hnd'.1)
      (by
        intro y hy
        rcases hy with h | h
        · exact hS1 y h
        · rw [h]; exact hSq)
      hW1
    refine ⟨?_, this.2⟩
    intro y hy
    rcases hy with h | h
    · exact this.1 y (Or.inl (Or.inl h))
    · rw [List.map_cons] at h
      rcases List.mem_cons.mp h with e | e
      · exact this.1 y (Or.inl (Or.inr e))
      · exact this.1 y (Or.inr e)

/-- All partitions' queues. -/
theorem cycle_settled2 {qss : List (List (Nat × Bool))} {c c' : Cell} (hcy : Cycle qss c c') :
    (qss.flatten.map (·.1)).Nodup → AffAll c → (∀ y, ConsOk c y) →
    ∀ (P : Nat → Prop), (∀ y, P y → y ∉ qss.flatten.map (·.1)) → (∀ y, P y → Settled c y) → (∀ y, BlQuiet c y) →
    (∀ y, (P y ∨ y ∈ qss.flatten.map (·.1)) → Settled c' y) ∧ (∀ y, BlQuiet c' y) := by
  induction hcy with
  | nil =>
    intro _ _ _ P _ hS hW
    refine ⟨fun y hy => ?_, hW⟩
    rcases hy with h | h
    · exact hS y h
    · simp at h
  | @cons q qss' c c1 c2 hl _ ih =>
    intro hnd hall hcons P hP hS hW
    simp only [List.flatten_cons, List.map_append] at hnd hP
    have hnd2 := List.nodup_append.mp hnd
    have hclr : Reach c (clearGhost c) := Reach.single ⟨_, LPrim.clearEv⟩
    have hallc : AffAll (clearGhost c) := affAll_reach hall hclr
    have hconsc : ∀ y, ConsOk (clearGhost c) y := fun y => consOk_lprim (hcons y) (.clearEv (c := c))
    have hloop := loop_settled2 hl (afterOk_of_nodup q hnd2.1 [] q rfl) hnd2.1 hallc hconsc P
      (fun y hy hin => hP y hy (List.mem_append_left _ hin))
      (fun y hy => clear_settled (hS y hy)) (fun y => clear_blQuiet (hW y))
    have hr1 : Reach c c1 := hclr.trans hl.toReach
    have hall1 : AffAll c1 := affAll_reach hall hr1
    have hcons1 : ∀ y, ConsOk c1 y := by
      intro y
      exact hr1.induct (P := fun ci => ConsOk ci y)
        (fun _ _ hq hp => by obtain ⟨lab, hp⟩ := hp; exact consOk_lprim hq hp) (hcons y)
    have := ih hnd2.2.1 hall1 hcons1 (fun y => P y ∨ y ∈ q.map (·.1))
      (by
        intro y hy hin
        rcases hy with h | h
        · exact hP y h (List.mem_append_right _ hin)
        · exact hnd2.2.2 y h y hin rfl)
      (fun y hy => hloop.1 y hy) hloop.2
    refine ⟨?_, this.2⟩
    intro y hy
    simp only [List.flatten_cons, List.map_append, List.mem_append] at hy
    rcases hy with h | h | h
    · exact this.1 y (Or.inl (Or.inl h))
    · exact this.1 y (Or.inl (Or.inr h))
    · exact this.1 y (Or.inr h)

/-- After the pre-passes every blacklisted instance is unplaced and holds no identity. -/
theorem prePasses_blQuiet {c c1 : Cell} (hc : InvCap c) (h : prePasses c = .ok c1) : ∀ y, BlQuiet c1 y := by
  have hall := h
  simp only [prePasses, bind_ok] at h
  obtain ⟨ca, h1, cb, h2, cc, h3, h4⟩ := h
  have est : ∀ x ∈ c.apps.map (·.id), BlQuiet cc x :=
    foldlM_establish (Q := BlQuiet) (P := PreOk) handleBlacklisted (fun _ _ _ hx => handleBlacklisted_lreach hx)
      (fun _ _ _ _ hq hp lp => blQuiet_preOk hq hp lp) (fun _ _ _ hx => handleBlacklisted_quiet hx) _ _ _ h3
  have r4 : LReach PreOk cc c1 := foldlM_lreach _ _ (fun _ _ _ _ hx => fixInvalidIdentity_lreach hx) _ _ h4
  have ids : c1.apps.map (·.id) = c.apps.map (·.id) := reach_ids (prePasses_reach hall)
  intro y a' ha'
  have hmem : y ∈ c.apps.map (·.id) := by
    rw [← ids]
    have := List.mem_map_of_mem (f := (·.id)) (app?_mem ha')
    rw [app?_id ha'] at this; exact this
  have hq : BlQuiet c1 y := r4.induct (fun _ _ _ hq hp lp => blQuiet_preOk hq hp lp) (est y hmem)
  exact hq a' ha'

/-- After the pre-passes every placed instance sits on an existing server of its partition with its traits. -/
theorem consOk_prePasses {c c1 : Cell} (hc : InvCap c) (hpre : prePasses c = .ok c1) : ∀ y, ConsOk c1 y := by
  have hall := hpre
  simp only [prePasses, bind_ok] at hpre
  obtain ⟨ca, h1, cb, h2, cc, h3, h4⟩ := hpre
  have est : ∀ y ∈ c.apps.map (·.id), ConsOk ca y :=
    foldlM_establish (Q := ConsOk) (P := PreOk) fixInvalidPlacement (fun _ _ _ hx => fixInvalidPlacement_lreach hx)
      (fun _ _ _ _ hq _ lp => consOk_lprim hq lp) (fun _ _ _ hx => fixInvalidPlacement_est hx) _ _ _ h1
  have r1 : LReach PreOk c ca := foldlM_lreach _ _ (fun _ _ _ _ hx => fixInvalidPlacement_lreach hx) _ _ h1
  have hca := invCap_lreach hc r1
  have r2 : LReach PreOk ca cb := handleInactive_fold_lreach _ ca cb hca h2
  have r3 : LReach PreOk cb cc := foldlM_lreach _ _ (fun _ _ _ _ hx => handleBlacklisted_lreach hx) _ _ h3
  have r4 : LReach PreOk cc c1 := foldlM_lreach _ _ (fun _ _ _ _ hx => fixInvalidIdentity_lreach hx) _ _ h4
  have rest : Reach ca c1 := ((r2.trans r3).trans r4).toReach
  have ids : c1.apps.map (·.id) = c.apps.map (·.id) := reach_ids (prePasses_reach hall)
  intro y
  by_cases hy : y ∈ c.apps.map (·.id)
  · exact rest.induct (P := fun ci => ConsOk ci y)
      (fun _ _ hq hp => by obtain ⟨lab, hp⟩ := hp; exact consOk_lprim hq hp) (est y hy)
  · intro a sid ha _
    exfalso; apply hy
    rw [← ids]
    have := List.mem_map_of_mem (f := (·.id)) (app?_mem ha)
    rw [app?_id ha] at this; exact this

/-- **End-of-cycle identity clauses, renewals included.**  If the queues list every app exactly once,
    then after the cycle every app is settled: a placed app of a group holds an identity, and an
    unplaced app holds none. -/
theorem settled_schedule2 {c c' : Cell} {qs ch} (hall : AffAll c)
    (hnd : (qs.flatten.map (·.1)).Nodup) (hcover : ∀ a ∈ c.apps, a.id ∈ qs.flatten.map (·.1))
    (h : schedule c qs ch = .ok c') : ∀ a ∈ c'.apps, SettledRec a := by
  have hc := hall.cap
  obtain ⟨c1, hpre, hcy⟩ := schedule_parts h
  have hW := prePasses_blQuiet hc hpre
  have hcons := consOk_prePasses hc hpre
  have hall1 : AffAll c1 := affAll_reach hall (prePasses_reach hpre)
  have hres := cycle_settled2 hcy hnd hall1 hcons (fun _ => False) (fun _ h => h.elim) (fun _ h => h.elim) hW
  have hc' : InvCap c' := invCap_reach hc (schedule_reach h)
  have ids : c'.apps.map (·.id) = c.apps.map (·.id) := reach_ids (schedule_reach h)
  intro a ha
  have hlook : c'.app? a.id = some a := by
    unfold Cell.app?; exact find?_key_unique (·.id) c'.apps hc'.appIds a ha
  have hin : a.id ∈ c.apps.map (·.id) := by rw [← ids]; exact List.mem_map_of_mem ha
  obtain ⟨a0, ha0, hid0⟩ := List.mem_map.mp hin
  have := hcover a0 ha0
  rw [hid0] at this
  exact hres.1 a.id (Or.inr this) a hlook

end TmVerif.Sched
