/-
  "Shape" lemmas: what exactly a successful `Server.put` / `Server.remove` changes.
-/
import TmVerif.Sched.InvCapOps

namespace TmVerif.Sched

/-- The app record after a successful `Server.put`. -/
def putRec (c : Cell) (a : App) (sid : Nat) (l0 : Bool) : App :=
  { a with server := some sid,
           expiry := match a.expiry with
             | some e => some e
             | none => some (c.now + (putApp a l0).lease) }

def putSrv (s : Srv) (a : App) : Srv :=
  { s with free := s.free - a.demand, apps := s.apps ++ [a.id], aff := cadd s.aff a.aff 1 }

theorem serverPut_shape {c c' : Cell} {aid sid : Nat} {l0 b : Bool}
    (h : serverPut c aid sid l0 = .ok (c', b)) :
    (b = false ∧ c' = c) ∨
    (b = true ∧ ∃ a s anc, c.app? aid = some a ∧ c.srv? sid = some s ∧ a.server = none ∧
      aid ∉ s.apps ∧ c.tree.path sid = some anc ∧ srvCheck (c.putCtx (putApp a l0)) s anc = true ∧
      c'.apps = updApp c.apps (putRec c a sid l0) ∧ c'.srvs = updSrv c.srvs (putSrv s a) ∧
      c'.groups = c.groups ∧ c'.allocs = c.allocs ∧ c'.now = c.now) := by
  simp only [serverPut, bind_ok, orAbort_ok] at h
  obtain ⟨a, ha, s, hs, h⟩ := h
  split at h
  · simp only [throw_bind, throw_ne_ok] at h
  · rename_i hnotin
    split at h
    · simp only [throw_bind, throw_ne_ok] at h
    · rename_i hnot
      simp only [bind_ok, orAbort_ok] at h
      obtain ⟨anc, hanc, h⟩ := h
      split at h
      · simp only [pure_ok, Prod.mk.injEq] at h
        obtain ⟨rfl, rfl⟩ := h; exact Or.inl ⟨rfl, rfl⟩
      · rename_i hchk
        simp only [bind_ok, pure_ok, orAbort_ok, Prod.mk.injEq] at h
        obtain ⟨t1, _, t2, _, rfl, rfl⟩ := h
        right
        have hnone : a.server = none := by
          cases hsv : a.server with
          | none => rfl
          | some x => simp [hsv] at hnot
        have hid := app?_id ha
        subst hid
        exact ⟨rfl, a, s, anc, ha, hs, hnone, by simpa using hnotin, hanc, by simpa using hchk, rfl, rfl, rfl, rfl, rfl⟩

/-- The app record after `Server.remove`. -/
def removeRec (a : App) : App :=
  { a with server := none, evicted := true, unschedule := false, expiry := none }

def removeSrv (s : Srv) (a : App) : Srv :=
  { s with free := s.free + a.demand, apps := s.apps.filter (· ≠ a.id), aff := cadd s.aff a.aff (-1) }

theorem serverRemove_shape {c c' : Cell} {sid aid : Nat} (h : serverRemove c sid aid = .ok c') :
    ∃ a s, c.app? aid = some a ∧ c.srv? sid = some s ∧ aid ∈ s.apps ∧
      c'.apps = updApp c.apps (removeRec a) ∧ c'.srvs = updSrv c.srvs (removeSrv s a) ∧
      c'.groups = c.groups ∧ c'.allocs = c.allocs ∧ c'.now = c.now := by
  simp only [serverRemove, bind_ok, orAbort_ok] at h
  obtain ⟨s, hs, h⟩ := h
  split at h
  · simp only [throw_bind, throw_ne_ok] at h
  · rename_i hin
    simp only [bind_ok, pure_ok, orAbort_ok] at h
    obtain ⟨a, ha, t1, _, t2, _, rfl⟩ := h
    have hid := app?_id ha
    subst hid
    exact ⟨a, s, ha, hs, by simpa using hin, rfl, rfl, rfl, rfl, rfl⟩

end TmVerif.Sched
