/-
  "Shape" lemmas: what exactly a successful `Server.put` / `Server.remove` changes.
-/
import TmVerif.Sched.Reach

namespace TmVerif.Sched

/-- The app record after a successful `Server.put`. -/
def putRec (c : Cell) (a : App) (sid : Nat) (l0 : Bool) : App :=
  { a with server := some sid,
           expiry := match a.expiry with
             | some e => some e
             | none => some (c.now + (putApp a l0).lease) }

def putSrv (s : Srv) (a : App) : Srv :=
  { s with free := s.free - a.demand, apps := s.apps ++ [a.id], aff := cadd s.aff a.aff 1 }

theorem serverPut_shape {c c' : Cell} {aid sid : Nat} {l0 b : Bool}
    (h : serverPut c aid sid l0 = .ok (c', b)) :
    (b = false ∧ c' = c) ∨
    (b = true ∧ ∃ a s anc, c.app? aid = some a ∧ c.srv? sid = some s ∧ a.server = none ∧
      aid ∉ s.apps ∧ c.tree.path sid = some anc ∧ srvCheck (c.putCtx (putApp a l0)) s anc = true ∧
      c'.apps = updApp c.apps (putRec c a sid l0) ∧ c'.srvs = updSrv c.srvs (putSrv s a) ∧
      c'.groups = c.groups ∧ c'.allocs = c.allocs ∧ c'.now = c.now) := by
  simp only [serverPut, bind_ok, orAbort_ok] at h
  obtain ⟨a, ha, s, hs, h⟩ := h
  split at h
  · simp only [throw_bind, throw_ne_ok] at h
  · rename_i hnotin
    split at h
    · simp only [throw_bind, throw_ne_ok] at h
    · rename_i hnot
      simp only [bind_ok, orAbort_ok] at h
      obtain ⟨anc, hanc, h⟩ := h
      split at h
      · simp only [pure_ok, Prod.mk.injEq] at h
        obtain ⟨rfl, rfl⟩ := h; exact Or.inl ⟨rfl, rfl⟩
      · rename_i hchk
        simp only [bind_ok, pure_ok, orAbort_ok, Prod.mk.injEq] at h
        obtain ⟨t1, _, t2, _, rfl, rfl⟩ := h
        right
        have hnone : a.server = none := by
          cases hsv : a.server with
          | none => rfl
          | some x => simp [hsv] at hnot
        have hid := app?_id ha
        subst hid
        exact ⟨rfl, a, s, anc, ha, hs, hnone, by simpa using hnotin, hanc, by simpa using hchk, rfl, rfl, rfl, rfl, rfl⟩

/-- The app record after `Server.remove`. -/
def removeRec (a : App) : App :=
  { a with server := none, evicted := true, unschedule := false, expiry := none }

def removeSrv (s : Srv) (a : App) : Srv :=
  { s with free := s.free + a.demand, apps := s.apps.filter (· ≠ a.id), aff := cadd s.aff a.aff (-1) }

theorem serverRemove_shape {c c' : Cell} {sid aid : Nat} (h : serverRemove c sid aid = .ok c') :
    ∃ a s, c.app? aid = some a ∧ c.srv? sid = some s ∧ aid ∈ s.apps ∧
      c'.apps = updApp c.apps (removeRec a) ∧ c'.srvs = updSrv c.srvs (removeSrv s a) ∧
      c'.groups = c.groups ∧ c'.allocs = c.allocs ∧ c'.now = c.now := by
  simp only [serverRemove, bind_ok, orAbort_ok] at h
  obtain ⟨s, hs, h⟩ := h
  split at h
  · simp only [throw_bind, throw_ne_ok] at h
  · rename_i hin
    simp only [bind_ok, pure_ok, orAbort_ok] at h
    obtain ⟨a, ha, t1, _, t2, _, rfl⟩ := h
    have hid := app?_id ha
    subst hid
    exact ⟨a, s, ha, hs, by simpa using hin, rfl, rfl, rfl, rfl, rfl⟩


/-! ### lookups after put / remove -/

theorem app?_of_apps {c c' : Cell} {a' : App} (h : c'.apps = updApp c.apps a') (k : Nat) :
    c'.app? k = (c.app? k).map (fun y => if y.id = a'.id then a' else y) := by
  unfold Cell.app?; rw [h]; exact find?_map_upd (·.id) c.apps a' k

theorem srv?_of_srvs {c c' : Cell} {s' : Srv} (h : c'.srvs = updSrv c.srvs s') (k : Nat) :
    c'.srv? k = (c.srv? k).map (fun y => if y.id = s'.id then s' else y) := by
  unfold Cell.srv?; rw [h]; exact find?_map_upd (·.id) c.srvs s' k

theorem app?_upd_ne {c c' : Cell} {a' : App} (h : c'.apps = updApp c.apps a') {k : Nat} (hk : k ≠ a'.id) :
    c'.app? k = c.app? k := by
  rw [app?_of_apps h]
  cases hx : c.app? k with
  | none => rfl
  | some y => simp [app?_id hx, hk]

theorem app?_upd_self {c c' : Cell} {a a' : App} (h : c'.apps = updApp c.apps a') (ha : c.app? a'.id = some a) :
    c'.app? a'.id = some a' := by
  rw [app?_of_apps h, ha]; simp [app?_id ha]

theorem serverRemove_app_self {c c' : Cell} {sid aid : Nat} (h : serverRemove c sid aid = .ok c') :
    ∃ a, c.app? aid = some a ∧ c'.app? aid = some (removeRec a) := by
  obtain ⟨a, s, ha, _, _, happs, _⟩ := serverRemove_shape h
  refine ⟨a, ha, ?_⟩
  have hid := app?_id ha
  have : (removeRec a).id = aid := hid
  rw [← this]; exact app?_upd_self happs (by rw [this]; exact ha)

theorem serverRemove_app_ne {c c' : Cell} {sid aid x : Nat} (h : serverRemove c sid aid = .ok c') (hx : x ≠ aid) :
    c'.app? x = c.app? x := by
  obtain ⟨a, s, ha, _, _, happs, _⟩ := serverRemove_shape h
  exact app?_upd_ne happs (by show x ≠ a.id; rw [app?_id ha]; exact hx)

/-- `Server.remove` keeps every server's static data, state and `since`. -/
theorem serverRemove_srv {c c' : Cell} {sid aid k : Nat} (h : serverRemove c sid aid = .ok c') :
    ∀ s', c'.srv? k = some s' → ∃ s0, c.srv? k = some s0 ∧ s'.id = s0.id ∧ s'.label = s0.label ∧
      s'.traits = s0.traits ∧ s'.state = s0.state ∧ s'.since = s0.since ∧ s'.validUntil = s0.validUntil ∧
      s'.init = s0.init := by
  obtain ⟨a, s, _, hs, _, _, hsrvs, _⟩ := serverRemove_shape h
  intro s' hs'
  rw [srv?_of_srvs hsrvs] at hs'
  cases hk : c.srv? k with
  | none => rw [hk] at hs'; cases hs'
  | some s0 =>
    rw [hk] at hs'
    simp only [Option.map_some, Option.some.injEq] at hs'
    refine ⟨s0, rfl, ?_⟩
    by_cases e : s0.id = (removeSrv s a).id
    · rw [if_pos e] at hs'; subst hs'
      have : s0 = s := by
        have h1 := srv?_id hk
        have h2 := srv?_id hs
        have e' : s0.id = s.id := e
        have hkk : k = sid := by rw [← h1, e', h2]
        subst hkk; rw [hk] at hs; exact Option.some.inj hs
      subst this
      exact ⟨rfl, rfl, rfl, rfl, rfl, rfl, rfl⟩
    · rw [if_neg e] at hs'; subst hs'
      exact ⟨rfl, rfl, rfl, rfl, rfl, rfl, rfl⟩

theorem serverPut_app_ne {c c' : Cell} {aid sid x : Nat} {l0 b : Bool} (h : serverPut c aid sid l0 = .ok (c', b))
    (hx : x ≠ aid) : c'.app? x = c.app? x := by
  rcases serverPut_shape h with ⟨_, rfl⟩ | ⟨_, a, s, anc, ha, _, _, _, _, _, happs, _⟩
  · rfl
  · exact app?_upd_ne happs (by show x ≠ a.id; rw [app?_id ha]; exact hx)

theorem serverPut_srv {c c' : Cell} {aid sid k : Nat} {l0 b : Bool} (h : serverPut c aid sid l0 = .ok (c', b)) :
    ∀ s', c'.srv? k = some s' → ∃ s0, c.srv? k = some s0 ∧ s'.id = s0.id ∧ s'.label = s0.label ∧
      s'.traits = s0.traits ∧ s'.state = s0.state ∧ s'.since = s0.since ∧ s'.validUntil = s0.validUntil ∧
      s'.init = s0.init := by
  rcases serverPut_shape h with ⟨_, rfl⟩ | ⟨_, a, s, anc, _, hs, _, _, _, _, _, hsrvs, _⟩
  · intro s' hs'; exact ⟨s', hs', rfl, rfl, rfl, rfl, rfl, rfl, rfl⟩
  · intro s' hs'
    rw [srv?_of_srvs hsrvs] at hs'
    cases hk : c.srv? k with
    | none => rw [hk] at hs'; cases hs'
    | some s0 =>
      rw [hk] at hs'
      simp only [Option.map_some, Option.some.injEq] at hs'
      refine ⟨s0, rfl, ?_⟩
      by_cases e : s0.id = (putSrv s a).id
      · rw [if_pos e] at hs'; subst hs'
        have : s0 = s := by
          have h1 := srv?_id hk
          have h2 := srv?_id hs
          have e' : s0.id = s.id := e
          have hkk : k = sid := by rw [← h1, e', h2]
          subst hkk; rw [hk] at hs; exact Option.some.inj hs
        subst this
        exact ⟨rfl, rfl, rfl, rfl, rfl, rfl, rfl⟩
      · rw [if_neg e] at hs'; subst hs'
        exact ⟨rfl, rfl, rfl, rfl, rfl, rfl, rfl⟩

end TmVerif.Sched
