/-
  Scheduler model — topology tree operations: upward propagation of capacity / affinity /
  traits / labels along the parent chain, add_node / remove_node, and the `Bucket.put` search.
-/
import TmVerif.Sched.Types

namespace TmVerif.Sched

/-! ### generic upward propagation ("bubble") -/

namespace Tree

def id : Tree → Nat
  | leaf s => s
  | node b _ => b.id

mutual
/-- Leaf server ids in DFS order (the key order of `Cell.members()`). -/
def leaves : Tree → List Nat
  | leaf s => [s]
  | node _ cs => leavesL cs
def leavesL : List (Option Tree) → List Nat
  | [] => []
  | none :: r => leavesL r
  | some t :: r => leaves t ++ leavesL r
end

mutual
/-- All bucket records in DFS (pre-order). -/
def buckets : Tree → List Bkt
  | leaf _ => []
  | node b cs => b :: bucketsL cs
def bucketsL : List (Option Tree) → List Bkt
  | [] => []
  | none :: r => bucketsL r
  | some t :: r => buckets t ++ bucketsL r
end

mutual
/-- Apply `step` bottom-up at every strict ancestor of the node named `target` (and at the
    target bucket itself when `incl`); `m` is the message entering at the bottom, the result
    carries the message leaving the root.  `none` if `target` is not in the tree. -/
def bubble {μ} (step : Bkt → List (Option Tree) → μ → Bkt × μ) (incl : Bool) :
    Tree → Nat → μ → Option (Tree × μ)
  | leaf s, target, m => if s = target then some (leaf s, m) else none
  | node b cs, target, m =>
    if b.id = target then
      if incl then
        let r := step b cs m
        some (node r.1 cs, r.2)
      else some (node b cs, m)
    else
      match bubbleL step incl cs target m with
      | none => none
      | some (cs', m') =>
        let r := step b cs' m'
        some (node r.1 cs', r.2)
def bubbleL {μ} (step : Bkt → List (Option Tree) → μ → Bkt × μ) (incl : Bool) :
    List (Option Tree) → Nat → μ → Option (List (Option Tree) × μ)
  | [], _, _ => none
  | none :: r, target, m =>
    match bubbleL step incl r target m with
    | none => none
    | some (r', m') => some (none :: r', m')
  | some t :: r, target, m =>
    match bubble step incl t target m with
    | some (t', m') => some (some t' :: r, m')
    | none =>
      match bubbleL step incl r target m with
      | none => none
      | some (r', m') => some (some t :: r', m')
end

mutual
/-- Bucket records of the strict ancestors of `target`, top first. -/
def path : Tree → Nat → Option (List Bkt)
  | leaf s, target => if s = target then some [] else none
  | node b cs, target =>
    if b.id = target then some []
    else match pathL cs target with
      | none => none
      | some p => some (b :: p)
def pathL : List (Option Tree) → Nat → Option (List Bkt)
  | [], _ => none
  | none :: r, target => pathL r target
  | some t :: r, target =>
    match path t target with
    | some p => some p
    | none => pathL r target
end

mutual
/-- `parent.children.append(child)` at the bucket named `pid`. -/
def attach (child : Tree) : Tree → Nat → Option Tree
  | leaf _, _ => none
  | node b cs, pid =>
    if b.id = pid then some (node b (cs ++ [some child]))
    else match attachL child cs pid with
      | none => none
      | some cs' => some (node b cs')
def attachL (child : Tree) : List (Option Tree) → Nat → Option (List (Option Tree))
  | [], _ => none
  | none :: r, pid => (attachL child r pid).map (fun r' => none :: r')
  | some t :: r, pid =>
    match attach child t pid with
    | some t' => some (some t' :: r)
    | none => (attachL child r pid).map (fun r' => some t :: r')
end

mutual
/-- `children[idx] = None` for the child named `cid`; returns the new tree, the parent's id and
    the removed subtree. -/
def detach : Tree → Nat → Option (Tree × Nat × Tree)
  | leaf _, _ => none
  | node b cs, cid =>
    match detachHere cs cid with
    | some (cs', sub) => some (node b cs', b.id, sub)
    | none =>
      match detachL cs cid with
      | none => none
      | some (cs', pid, sub) => some (node b cs', pid, sub)
def detachL : List (Option Tree) → Nat → Option (List (Option Tree) × Nat × Tree)
  | [], _ => none
  | none :: r, cid =>
    match detachL r cid with
    | none => none
    | some (r', pid, sub) => some (none :: r', pid, sub)
  | some t :: r, cid =>
    match detach t cid with
    | some (t', pid, sub) => some (some t' :: r, pid, sub)
    | none =>
      match detachL r cid with
      | none => none
      | some (r', pid, sub) => some (some t :: r', pid, sub)
/-- direct children only -/
def detachHere : List (Option Tree) → Nat → Option (List (Option Tree) × Tree)
  | [], _ => none
  | none :: r, cid =>
    match detachHere r cid with
    | none => none
    | some (r', sub) => some (none :: r', sub)
  | some t :: r, cid =>
    if t.id = cid then some (none :: r, t)
    else match detachHere r cid with
      | none => none
      | some (r', sub) => some (some t :: r', sub)
end

end Tree

/-! ### messages -/

/-- Child view used by `adjust_capacity_down`: (state is up, free capacity). -/
def childView (srvs : List Srv) : Tree → Bool × Vec
  | .leaf sid =>
    match srvs.find? (fun s => s.id = sid) with
    | some s => (decide (s.state = .up), s.free)
    | none => (false, Vec.zero)
  | .node b _ => (true, b.free)

/-- max free capacity over up children (`zero_capacity()` base). -/
def maxUpFree (srvs : List Srv) (cs : List (Option Tree)) : Vec :=
  cs.foldl (fun acc c => match c with
    | none => acc
    | some t => let v := childView srvs t; if v.1 then acc.vmax v.2 else acc) Vec.zero

def bucketEmpty (cs : List (Option Tree)) : Bool := cs.all (fun c => c.isNone)

inductive CapMsg
  | stop
  | up (v : Vec)
  | down (prev : Option Vec)
  deriving Repr, DecidableEq

/-- `Bucket.adjust_capacity_up` / `adjust_capacity_down` at one bucket. -/
def capStep (srvs : List Srv) (b : Bkt) (cs : List (Option Tree)) : CapMsg → Bkt × CapMsg
  | .stop => (b, .stop)
  | .up v => let f := b.free.vmax v; ({ b with free := f }, .up f)
  | .down prev =>
    if bucketEmpty cs then ({ b with free := Vec.zero }, .down none)
    else
      let skip := match prev with
        | some p => p.allLt b.free
        | none => false
      if skip then (b, .stop)
      else
        let fc := maxUpFree srvs cs
        if fc.anyLt b.free then ({ b with free := fc }, .down (some b.free))
        else (b, .stop)

/-- `increment_affinity` / `decrement_affinity` with a counter delta. -/
def affStep (delta : Counter) (sign : Int) (b : Bkt) (_cs : List (Option Tree)) (u : Unit) : Bkt × Unit :=
  ({ b with aff := caddAll b.aff delta sign }, u)

inductive TraitMsg
  | set (child : Nat) (traits : Nat)
  | erase (child : Nat)
  deriving Repr, DecidableEq

def setChildTraits (l : List (Nat × Nat)) (k v : Nat) : List (Nat × Nat) :=
  l.filter (fun p => p.1 ≠ k) ++ [(k, v)]

/-- `add_child_traits` / `remove_child_traits` at one bucket; always propagates the new union up. -/
def traitStep (b : Bkt) (_cs : List (Option Tree)) : TraitMsg → Bkt × TraitMsg
  | .set k v => let b' := { b with childTraits := setChildTraits b.childTraits k v }; (b', .set b'.id b'.traits)
  | .erase k => let b' := { b with childTraits := b.childTraits.filter (fun p => p.1 ≠ k) }; (b', .set b'.id b'.traits)

def labelUnion (a b : List Nat) : List Nat := b.foldl (fun acc x => if acc.contains x then acc else acc ++ [x]) a

/-- `add_labels` at one bucket. -/
def labelStep (b : Bkt) (_cs : List (Option Tree)) (ls : List Nat) : Bkt × List Nat :=
  let l := labelUnion b.labels ls
  ({ b with labels := l }, l)

/-! ### whole-tree wrappers (none = node not found, which the callers turn into an abort) -/

def treeCap (srvs : List Srv) (t : Tree) (target : Nat) (incl : Bool) (m : CapMsg) : Option Tree :=
  (t.bubble (capStep srvs) incl target m).map (·.1)
def treeAff (t : Tree) (target : Nat) (incl : Bool) (delta : Counter) (sign : Int) : Option Tree :=
  (t.bubble (affStep delta sign) incl target ()).map (·.1)
def treeTraits (t : Tree) (target : Nat) (incl : Bool) (m : TraitMsg) : Option Tree :=
  (t.bubble traitStep incl target m).map (·.1)
def treeLabels (t : Tree) (target : Nat) (incl : Bool) (ls : List Nat) : Option Tree :=
  (t.bubble labelStep incl target ls).map (·.1)

/-! ### `Bucket.put` search -/

/-- Read-only context of one placement attempt. -/
structure PutCtx where
  srvs   : List Srv
  app    : App
  traits : Nat       -- app.traits (own | allocation)
  label  : Nat       -- app.allocation.label
  now    : Int

def hasTraits (have_ want : Nat) : Bool := want == 0 || (have_ &&& want) == want

/-- `Node.check_app_constraints` on a bucket. -/
def bktCheck (ctx : PutCtx) (b : Bkt) : Bool :=
  b.labels.contains ctx.label && hasTraits b.traits ctx.traits &&
  ctx.app.underLimit b.level (cget b.aff ctx.app.aff) && !(ctx.app.demand.anyGt b.free)

/-- `Server.check_app_lifetime`. -/
def lifetimeOk (ctx : PutCtx) (s : Srv) : Bool :=
  ctx.app.lease == 0 || decide (ctx.now + ctx.app.lease < s.validUntil)

/-- The checks of `Server.put`: lifetime, `check_app_constraints` on the server, and the affinity
    limit on every ancestor `anc` (top first). -/
def srvCheck (ctx : PutCtx) (s : Srv) (anc : List Bkt) : Bool :=
  lifetimeOk ctx s &&
  decide (s.label = ctx.label) && hasTraits s.traits ctx.traits &&
  ctx.app.underLimit SERVER_LEVEL (cget s.aff ctx.app.aff) && !(ctx.app.demand.anyGt s.free) &&
  anc.all (fun b => ctx.app.underLimit b.level (cget b.aff ctx.app.aff))

/-- `SpreadStrategy.suggested_node`: returns (index of the suggested child, new current_idx). -/
def suggest (cs : List (Option Tree)) (idx : Nat) : Nat → Option Nat × Nat
  | 0 => (none, idx)
  | fuel + 1 =>
    let i := if idx = cs.length then 0 else idx
    match cs[i]? with
    | some (some _) => (some i, i + 1)
    | _ => suggest cs (i + 1) fuel

def getCursor (b : Bkt) (aff : Nat) : Nat := ((b.cursors.find? (fun p => p.1 = aff)).map (·.2)).getD 0
def setCursor (b : Bkt) (aff idx : Nat) : Bkt :=
  if b.cursors.any (fun p => p.1 = aff)
  then { b with cursors := b.cursors.map (fun p => if p.1 = aff then (aff, idx) else p) }
  else { b with cursors := b.cursors ++ [(aff, idx)] }

/-- The `while True` loop of `Bucket.put` over precomputed per-child results.
    `res[i] = (child after its own search, found server)`; children never visited stay as they
    are.  `first` is the index of the first suggested node. -/
def walk (res : List (Option (Tree × Option Nat))) (first : Nat) :
    Nat → List (Option Tree) → Nat → Nat → Bool → List (Option Tree) × Nat × Option Nat
  | 0, cs, idx, _, _ => (cs, idx, none)
  | fuel + 1, cs, idx, cur, isFirst =>
    if !isFirst && cur = first then (cs, idx, none)
    else
      match res[cur]? with
      | some (some (t', some sid)) => (cs.set cur (some t'), idx, some sid)
      | some (some (t', none)) =>
        let cs' := cs.set cur (some t')
        match suggest cs' idx cs'.length with
        | (some nx, idx') => walk res first fuel cs' idx' nx false
        | (none, idx') => (cs', idx', none)
      | _ =>
        match suggest cs idx cs.length with
        | (some nx, idx') => walk res first fuel cs idx' nx false
        | (none, idx') => (cs, idx', none)

mutual
/-- `Bucket.put` without the final commit: returns the tree with advanced spread cursors and the
    server the app would be put on. -/
def search (ctx : PutCtx) (anc : List Bkt) : Tree → Tree × Option Nat
  | .leaf sid =>
    match ctx.srvs.find? (fun s => s.id = sid) with
    | some s => (.leaf sid, if s.state = .up && srvCheck ctx s anc then some sid else none)
    | none => (.leaf sid, none)
  | .node b cs =>
    if !bktCheck ctx b then (.node b cs, none)
    else
      let res := searchL ctx (anc ++ [b]) cs
      let idx0 := getCursor b ctx.app.aff
      match suggest cs idx0 cs.length with
      | (none, idx) => (.node (setCursor b ctx.app.aff idx) cs, none)
      | (some f, idx) =>
        let r := walk res f (cs.length + 1) cs idx f true
        (.node (setCursor b ctx.app.aff r.2.1) r.1, r.2.2)
def searchL (ctx : PutCtx) (anc : List Bkt) : List (Option Tree) → List (Option (Tree × Option Nat))
  | [] => []
  | none :: r => none :: searchL ctx anc r
  | some t :: r => some (search ctx anc t) :: searchL ctx anc r
end

end TmVerif.Sched
