/-
  Generic induction principle over the structure of a cycle, and the ghost invariant
  ("an `evicted` entry names a server that is up").
-/
import TmVerif.Sched.Keep

namespace TmVerif.Sched

/-- Invariants through the placement phase.  `Ipre` holds between `_find_placements` calls, `I`
    inside one (after the `evicted` dict was reset).  The step obligation may use the invariant at
    the start of the current entry's turn (`ct`, where `a0` is the entry's app record) and that
    static data did not change since. -/
theorem loop_inv {I : Cell → Prop}
    (hstep : ∀ (ct : Cell) (q : Nat × Bool) (a0 : App) (after : List Nat) (c c' : Cell) (lab : Lab),
      ct.app? q.1 = some a0 → I ct → SameStatic ct c → I c → PlaceOk a0 q.2 after c lab →
      LPrim lab c c' → I c')
    {revq : List Nat} {qs : List (Nat × Bool)} {c c' : Cell} (h : Loop revq qs c c') (h0 : I c) : I c' := by
  induction h with
  | nil => exact h0
  | @cons e es ca cb cc a0 ha0 hchain _ _ ih2 =>
    apply ih2
    exact lreach_inv (I := I) (fun ci ci' lab hs hi hp lp => hstep ca e a0 _ ci ci' lab ha0 h0 hs hi hp lp)
      hchain h0

theorem cycle_inv {Ipre I : Cell → Prop}
    (hclear : ∀ c, Ipre c → I (clearGhost c))
    (hweak : ∀ c, I c → Ipre c)
    (hstep : ∀ (ct : Cell) (q : Nat × Bool) (a0 : App) (after : List Nat) (c c' : Cell) (lab : Lab),
      ct.app? q.1 = some a0 → I ct → SameStatic ct c → I c → PlaceOk a0 q.2 after c lab →
      LPrim lab c c' → I c')
    {qs : List (List (Nat × Bool))} {c c' : Cell} (h : Cycle qs c c') (h0 : Ipre c) : Ipre c' := by
  induction h with
  | nil => exact h0
  | @cons q qs' c c1 c2 hl _ ih =>
    exact ih (hweak _ (loop_inv hstep hl (hclear c h0)))

/-- How any primitive changes the ghost field of any app. -/
theorem lprim_evFrom {c c' : Cell} {lab : Lab} (hp : LPrim lab c c') (y : Nat) :
    ∀ a', c'.app? y = some a' → ∃ a, c.app? y = some a ∧
      (a'.evFrom = a.evFrom ∨ a'.evFrom = none ∨ ∃ v, lab = .ghost y v ∧ a'.evFrom = v) := by
  intro a' ha'
  obtain ⟨a, ha, _⟩ := app?_stat_of (sameStatic_lprim hp) ha'
  refine ⟨a, ha, ?_⟩
  cases hp with
  | @put _ _ aid sid l0 b h =>
    rcases serverPut_shape h with ⟨_, e⟩ | ⟨_, a1, s1, anc, ha1, _, _, _, _, _, happs, _⟩
    · subst e; rw [ha] at ha'; cases ha'; exact Or.inl rfl
    · rw [app?_of_apps happs, ha] at ha'
      simp only [Option.map_some, Option.some.injEq] at ha'
      rw [← ha']
      split
      · rename_i e
        have : y = aid := by rw [← app?_id ha, e]; exact (app?_id ha1 : a1.id = aid)
        subst this; rw [ha] at ha1; cases ha1; exact Or.inl rfl
      · exact Or.inl rfl
  | @remove _ _ sid aid h =>
    obtain ⟨a1, s1, ha1, _, _, happs, _⟩ := serverRemove_shape h
    rw [app?_of_apps happs, ha] at ha'
    simp only [Option.map_some, Option.some.injEq] at ha'
    rw [← ha']
    split
    · rename_i e
      have : y = aid := by rw [← app?_id ha, e]; exact (app?_id ha1 : a1.id = aid)
      subst this; rw [ha] at ha1; cases ha1; exact Or.inl rfl
    · exact Or.inl rfl
  | @release _ _ aid h =>
    simp only [releaseIdentity, bind_ok, orAbort_ok] at h
    obtain ⟨a1, ha1, h⟩ := h
    split at h
    · simp only [bind_ok, orAbort_ok, pure_ok] at h
      obtain ⟨grp, _, rfl⟩ := h
      rcases setApp_cases' (c := c) rfl ha ha' with e | e
      · have hy : y = aid := by
          have h1 := app?_id ha'; rw [e] at h1; exact h1.symm.trans (app?_id ha1 : a1.id = aid)
        subst hy; rw [ha] at ha1; cases ha1; rw [e]; exact Or.inl rfl
      · rw [e]; exact Or.inl rfl
    · simp only [pure_ok] at h; subst h; rw [ha] at ha'; cases ha'; exact Or.inl rfl
  | @acquire _ _ aid ch b ch' h =>
    simp only [acquireIdentity, bind_ok, orAbort_ok] at h
    obtain ⟨a1, ha1, h⟩ := h
    split at h
    · simp only [pure_ok, Prod.mk.injEq] at h
      obtain ⟨rfl, _⟩ := h; rw [ha] at ha'; cases ha'; exact Or.inl rfl
    · split at h
      · simp only [pure_ok, Prod.mk.injEq] at h
        obtain ⟨rfl, _⟩ := h; rw [ha] at ha'; cases ha'; exact Or.inl rfl
      · simp only [bind_ok, orAbort_ok] at h
        obtain ⟨grp, _, h⟩ := h
        split at h
        · simp only [pure_ok, Prod.mk.injEq] at h
          obtain ⟨rfl, _⟩ := h; rw [ha] at ha'; cases ha'; exact Or.inl rfl
        · split at h
          · simp only [throw_ne_ok] at h
          · rename_i k rest
            split at h
            · simp only [throw_bind, throw_ne_ok] at h
            · simp only [pure_ok, Prod.mk.injEq] at h
              obtain ⟨rfl, _⟩ := h
              rcases setApp_cases' (c := c) rfl ha ha' with e | e
              · have hy : y = aid := by
                  have h1 := app?_id ha'; rw [e] at h1; exact h1.symm.trans (app?_id ha1 : a1.id = aid)
                subst hy; rw [ha] at ha1; cases ha1; rw [e]; exact Or.inl rfl
              · rw [e]; exact Or.inl rfl
  | @appMeta _ a1 a1' ha1 hid _ _ _ _ _ _ _ _ _ _ _ _ _ _ _ hev =>
    rcases setApp_cases ha ha' with e | e
    · have hy : y = a1.id := by
        have h1 := app?_id ha'; rw [e, hid] at h1; exact h1.symm
      subst hy; rw [ha] at ha1; cases ha1; rw [e]
      rcases hev with h | h
      · exact Or.inl h
      · exact Or.inr (Or.inl h)
    · rw [e]; exact Or.inl rfl
  | @setRenew _ a1 b ha1 =>
    rcases setApp_cases ha ha' with e | e
    · have hy : y = a1.id := by
        have h1 := app?_id ha'; rw [e] at h1; exact h1.symm
      subst hy; rw [ha] at ha1; cases ha1; rw [e]; exact Or.inl rfl
    · rw [e]; exact Or.inl rfl
  | @ghost _ a1 v ha1 =>
    rcases setApp_cases ha ha' with e | e
    · have hy : y = a1.id := by
        have h1 := app?_id ha'; rw [e] at h1; exact h1.symm
      subst hy; rw [e]; exact Or.inr (Or.inr ⟨v, rfl, rfl⟩)
    · rw [e]; exact Or.inl rfl
  | @dropDangling _ a1 sid ha1 =>
    rcases setApp_cases ha ha' with e | e
    · have hy : y = a1.id := by
        have h1 := app?_id ha'; rw [e] at h1; exact h1.symm
      subst hy; rw [ha] at ha1; cases ha1; rw [e]; exact Or.inl rfl
    · rw [e]; exact Or.inl rfl
  | @forgetIdentity _ a1 k g grp ha1 =>
    rcases setApp_cases ha ha' with e | e
    · have hy : y = a1.id := by
        have h1 := app?_id ha'; rw [e] at h1; exact h1.symm
      subst hy; rw [ha] at ha1; cases ha1; rw [e]; exact Or.inl rfl
    · rw [e]; exact Or.inl rfl
  | tree =>
    have h2 : c.app? y = some a' := ha'
    rw [ha] at h2; cases h2; exact Or.inl rfl
  | clearEv =>
    have : ({ c with apps := c.apps.map (fun a => { a with evFrom := none }) } : Cell).app? y =
        (c.app? y).map (fun a => { a with evFrom := none }) := by
      unfold Cell.app?; exact find?_map_id c.apps (fun a : App => { a with evFrom := none }) (fun _ => rfl) y
    rw [this, ha] at ha'
    simp only [Option.map_some, Option.some.injEq] at ha'
    rw [← ha']; exact Or.inr (Or.inl rfl)

/-- Every `evicted` entry names a server that is up. -/
def GhostOk (c : Cell) : Prop :=
  ∀ y ai sid e, c.app? y = some ai → ai.evFrom = some (sid, e) → ∃ s, c.srv? sid = some s ∧ s.state = .up

theorem ghostOk_clear (c : Cell) : GhostOk (clearGhost c) := by
  intro y ai sid e hai hev
  have : (clearGhost c).app? y = (c.app? y).map (fun a => { a with evFrom := none }) := by
    unfold Cell.app? clearGhost
    exact find?_map_id c.apps (fun a : App => { a with evFrom := none }) (fun _ => rfl) y
  rw [this] at hai
  cases h : c.app? y with
  | none => rw [h] at hai; cases hai
  | some a =>
    rw [h] at hai
    simp only [Option.map_some, Option.some.injEq] at hai
    rw [← hai] at hev; cases hev

theorem ghostOk_step {a0 : App} {unpl : Bool} {after : List Nat} {c c' : Cell} {lab : Lab}
    (hg : GhostOk c) (hok : PlaceOk a0 unpl after c lab) (hp : LPrim lab c c') : GhostOk c' := by
  intro y ai sid e hai hev
  have hs := sameStatic_lprim hp
  obtain ⟨a, ha, hcase⟩ := lprim_evFrom hp y ai hai
  have up_of : (∃ s, c.srv? sid = some s ∧ s.state = .up) → ∃ s, c'.srv? sid = some s ∧ s.state = .up := by
    rintro ⟨s, hs0, hup⟩
    obtain ⟨s', hs', est⟩ := srv?_stat_to hs hs0
    have e2 : s'.state = s.state := congrArg SrvStat.state est
    exact ⟨s', hs', by rw [e2]; exact hup⟩
  rcases hcase with e1 | e1 | ⟨v, hl, e1⟩
  · exact up_of (hg y a sid e ha (by rw [← e1]; exact hev))
  · rw [e1] at hev; cases hev
  · subst hl
    simp only [PlaceOk] at hok
    obtain ⟨_, _, _, _, x0, sidx, sx, hx0, hsvx, hsx, hupx, hv⟩ := hok
    rw [e1, hv] at hev
    simp only [Option.some.injEq, Prod.mk.injEq] at hev
    have e3 : sidx = sid := hev.1
    subst e3
    exact up_of ⟨sx, hsx, hupx⟩

end TmVerif.Sched
