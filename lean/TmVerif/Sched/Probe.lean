/-
  C02 — the probe instance in a cycle in which nothing ahead of it moves: the state at its turn offers
  at least the room of the start state, so a server that fitted at the start still fits.
-/
import TmVerif.Sched.Displace
import TmVerif.Sched.SearchComplete
import TmVerif.Sched.CurInv
import TmVerif.Sched.KFree

namespace TmVerif.Sched

theorem underLimit_mono {a : App} {lvl : Nat} {c c' : Int} (h : a.underLimit lvl c = true) (hle : c' ≤ c) :
    a.underLimit lvl c' = true := by
  unfold App.underLimit at h ⊢
  cases hl : a.limitAt lvl with
  | none => rfl
  | some l =>
    rw [hl] at h
    simp only [decide_eq_true_eq] at h ⊢
    omega

theorem underLimit_congr {a b : App} (h : a.limits = b.limits) (lvl : Nat) (c : Int) :
    a.underLimit lvl c = b.underLimit lvl c := by
  unfold App.underLimit App.limitAt; rw [h]

/-- **A server that fits an instance keeps fitting it while placements only shrink.** -/
theorem fits_mono {c0 c : Cell} {y S : Nat} {a0 a : App} {s0 s : Srv} {anc0 anc : List Bkt}
    (h0 : AffAll c0) (hreach : Reach c0 c) (hclean : Clean c0 c)
    (ha0 : c0.app? y = some a0) (ha : c.app? y = some a)
    (hs0 : c0.srv? S = some s0) (hs : c.srv? S = some s)
    (hanc0 : c0.tree.path S = some anc0) (hanc : c.tree.path S = some anc)
    (hfit : srvCheck (c0.putCtx a0) s0 anc0 = true) : srvCheck (c.putCtx a) s anc = true := by
  have hall := affAll_reach h0 hreach
  have hstat := sameStatic_reach hreach
  have hsh := clean_shrunk h0.cap hreach hclean
  obtain ⟨a0', ha0', esta⟩ := app?_stat_of hstat ha
  rw [ha0] at ha0'; cases ha0'
  obtain ⟨s0', hs0', ests⟩ := srv?_stat_of hstat hs
  rw [hs0] at hs0'; cases hs0'
  have eaff : a.aff = a0.aff := congrArg AppStat.aff esta
  have edem : a.demand = a0.demand := congrArg AppStat.demand esta
  have elim : a.limits = a0.limits := congrArg AppStat.limits esta
  have ealloc : a.alloc = a0.alloc := congrArg AppStat.alloc esta
  have etr : a.traits = a0.traits := congrArg AppStat.traits esta
  have elease : a.lease = a0.lease := congrArg AppStat.lease esta
  have esid : s.id = S := srv?_id hs
  have es0id : s0.id = S := srv?_id hs0
  have hsm0 : s0 ∈ c0.srvs := srv?_mem hs0
  have hsm : s ∈ c.srvs := srv?_mem hs
  simp only [srvCheck, Bool.and_eq_true, decide_eq_true_eq, List.all_eq_true, Bool.not_eq_true'] at hfit ⊢
  obtain ⟨⟨⟨⟨⟨f1, f2⟩, f3⟩, f4⟩, f5⟩, f6⟩ := hfit
  have eapp0 : (c0.putCtx a0).app = a0 := rfl
  have eapp : (c.putCtx a).app = a := rfl
  rw [eapp0] at f4 f5 f6
  rw [eapp]
  refine ⟨⟨⟨⟨⟨?_, ?_⟩, ?_⟩, ?_⟩, ?_⟩, ?_⟩
  · -- lifetime
    have e1 : s.validUntil = s0.validUntil := congrArg SrvStat.validUntil ests
    simp only [lifetimeOk, Bool.or_eq_true, beq_iff_eq, decide_eq_true_eq] at f1 ⊢
    have enow : (c.putCtx a).now = (c0.putCtx a0).now := hstat.now
    rw [eapp, enow, e1, elease]
    exact f1
  · have e1 : s.label = s0.label := congrArg SrvStat.label ests
    show s.label = (c.allocInfo a.alloc).label
    have : (c0.putCtx a0).label = (c0.allocInfo a0.alloc).label := rfl
    rw [this] at f2
    rw [e1, f2, ealloc]; unfold Cell.allocInfo; rw [hstat.allocs]
  · have e1 : s.traits = s0.traits := congrArg SrvStat.traits ests
    show hasTraits s.traits (c.appTraits a) = true
    have e2 : c.appTraits a = c0.appTraits a0 := by
      unfold Cell.appTraits Cell.allocInfo; rw [etr, ealloc, hstat.allocs]
    rw [e1, e2]; exact f3
  · -- server-level limit: the count can only have dropped
    rw [eaff, underLimit_congr elim]
    refine underLimit_mono f4 ?_
    rw [hall.aff.srv s hsm a0.aff, h0.aff.srv s0 hsm0 a0.aff, esid, es0id]
    exact Int.ofNat_le.mpr (cnt_shrunk hsh [S] a0.aff)
  · -- capacity: free can only have grown
    rw [edem]
    obtain ⟨_, hf⟩ := hall.cap.free s hsm
    obtain ⟨_, hf0⟩ := h0.cap.free s0 hsm0
    have einit : s.init = s0.init := congrArg SrvStat.init ests
    have hu := used_shrunk hsh h0.cap.demand S
    rw [esid] at hf
    rw [es0id] at hf0
    have hm := congrArg Vec.m hf
    have hcc := congrArg Vec.c hf
    have hd := congrArg Vec.d hf
    have hm0 := congrArg Vec.m hf0
    have hcc0 := congrArg Vec.c hf0
    have hd0 := congrArg Vec.d hf0
    have i1 := congrArg Vec.m einit
    have i2 := congrArg Vec.c einit
    have i3 := congrArg Vec.d einit
    unfold Vec.le at hu
    simp only [Vec.add_m, Vec.add_c, Vec.add_d] at hm hcc hd hm0 hcc0 hd0
    simp only [Vec.anyGt, Bool.or_eq_false_iff, decide_eq_false_iff_not] at f5 ⊢
    omega
  · -- limits on the ancestors
    intro bk hbk
    rw [eaff, underLimit_congr elim]
    obtain ⟨v, hv, hvb, hvn⟩ := path_sound c.tree S anc hanc bk hbk
    obtain ⟨v0, hv0, g1, g2, g3, _⟩ := (reach_treeShape h0.tree.names hreach).1 v hv
    have hmem0 : v0.b ∈ anc0 := path_covers c0.tree S anc0 h0.tree.names hanc0 v0 hv0 (by rw [← g1]; exact hvn)
    have hu0 := f6 v0.b hmem0
    rw [← hvb, g3]
    refine underLimit_mono hu0 ?_
    rw [hall.aff.bkt v hv a0.aff, h0.aff.bkt v0 hv0 a0.aff, g2]
    exact Int.ofNat_le.mpr (cnt_shrunk hsh v0.leaves a0.aff)

/-! ### an unplaced instance behind the entry being processed is not touched -/

theorem unplaced_untouched_step {a0 : App} {unpl : Bool} {after : List Nat} {c c' : Cell} {lab : Lab} {y : Nat}
    {ay : App} (hok : PlaceOk a0 unpl after c lab) (hp : LPrim lab c c') (hy : y ≠ a0.id)
    (hay : c.app? y = some ay) (hnone : ay.server = none) : c'.app? y = c.app? y := by
  by_cases ht : lab.target = some y
  · exfalso
    cases hp with
    | @remove _ _ sid aid h =>
      have e : aid = y := by simpa [Lab.target] using ht
      subst e
      simp only [PlaceOk] at hok
      rcases hok with h1 | ⟨_, _, _, _, x0, s, hx0, _, hsv0, _, _⟩
      · exact hy h1.1
      · rw [hay] at hx0; cases hx0; rw [hnone] at hsv0; cases hsv0
    | @ghost _ a1 v ha1 =>
      have e : a1.id = y := by simpa [Lab.target] using ht
      simp only [PlaceOk] at hok
      obtain ⟨_, _, _, _, x0, sid, s, hx0, hsv0, _, _, _⟩ := hok
      rw [e, hay] at hx0; cases hx0; rw [hnone] at hsv0; cases hsv0
    | @put _ _ aid sid l0 b h =>
      have e : aid = y := by simpa [Lab.target] using ht
      subst e; simp only [PlaceOk] at hok; exact hy hok.1
    | @release _ _ aid h =>
      have e : aid = y := by simpa [Lab.target] using ht
      subst e; simp only [PlaceOk] at hok; exact hy hok.1
    | @acquire _ _ aid ch b ch' h =>
      have e : aid = y := by simpa [Lab.target] using ht
      subst e; simp only [PlaceOk] at hok; exact hy hok.1
    | @appMeta _ a1 a1' ha1 hid1 =>
      have e : a1.id = y := by simpa [Lab.target] using ht
      simp only [PlaceOk] at hok; exact hy (e.symm.trans hok.1)
    | @setRenew _ a1 b ha1 =>
      have e : a1.id = y := by simpa [Lab.target] using ht
      simp only [PlaceOk] at hok; exact hy (e.symm.trans hok.1)
    | dropDangling _ _ _ => simp only [PlaceOk] at hok
    | forgetIdentity _ _ _ _ _ => simp only [PlaceOk] at hok
    | tree _ _ => simp [Lab.target] at ht
    | clearEv => simp [Lab.target] at ht
  · exact lprim_untargeted_eq hp ht (placeOk_not_clear hok)

theorem unplaced_untouched {a0 : App} {unpl : Bool} {after : List Nat} {c c1 : Cell} {y : Nat} {ay : App}
    (h : LReach (PlaceOk a0 unpl after) c c1) (hy : y ≠ a0.id) (hay : c.app? y = some ay)
    (hnone : ay.server = none) : c1.app? y = c.app? y := by
  induction h with
  | refl => rfl
  | step _ p hp ih =>
    rw [← ih]
    exact unplaced_untouched_step hp p hy (by rw [ih]; exact hay) hnone

/-- An instance that already had its turn is not touched by the rest of the loop. -/
theorem loop_stable {revq : List Nat} {qs : List (Nat × Bool)} {c c' : Cell} (hl : Loop revq qs c c')
    (hok : AfterOk revq qs) {y : Nat} (hy : y ∉ qs.map (·.1)) : c'.app? y = c.app? y := by
  induction hl with
  | nil => rfl
  | @cons q rest c c1 c2 a0 ha0 hchain _ _ ih =>
    have hy' : y ∉ rest.map (·.1) := fun hm => hy (by simp [hm])
    rw [ih hok.2 hy']
    refine entry_untouched hchain ?_ ?_
    · rw [app?_id ha0]; intro e; exact hy (by simp [e])
    · intro hm; exact hy' (hok.1 y hm)

/-! ### `Cell.put` is complete; the placement attempt places a fitting instance -/

theorem put_complete {c c' : Cell} {aid : Nat} {a : App} {placed : Bool}
    (hall : AffAll c) (hagg : AggOk c) (hcur : CurOk c.tree) (ha : c.app? aid = some a)
    {sid : Nat} {s : Srv} {anc : List Bkt} (hs : c.srv? sid = some s) (hup : s.state = .up)
    (hanc : c.tree.path sid = some anc) (hfit : srvCheck (c.putCtx a) s anc = true)
    (h : cellPut c aid = .ok (c', placed)) : placed = true := by
  simp only [cellPut, bind_ok, orAbort_ok] at h
  obtain ⟨a1, ha1, h⟩ := h
  rw [ha] at ha1; cases ha1
  have hleaf : sid ∈ c.tree.leaves := (hall.tree.leaves sid).mpr ⟨s, srv?_mem hs, srv?_id hs⟩
  have hfound := search_complete (c.putCtx a) c.tree [] sid s anc hagg.cap hagg.lab hagg.tr hcur hall.tree.names
    hleaf hanc hs hup (by simpa using hfit)
  split at h
  · rename_i hnone
    exact absurd hnone hfound
  · simp only [bind_ok] at h
    obtain ⟨⟨c2, rc⟩, _, h⟩ := h
    split at h
    · simp only [throw_bind, throw_ne_ok] at h
    · simp only [pure_ok, Prod.mk.injEq] at h
      exact h.2.symm

theorem tryPlace_places {revq : List Nat} {st st' : PState} {aid : Nat} {a : App}
    {restore : Option (Nat × Option Int)}
    (hall : AffAll st.cell) (hagg : AggOk st.cell) (hcur : CurOk st.cell.tree)
    (ha : st.cell.app? aid = some a)
    {sid : Nat} {s : Srv} {anc : List Bkt} (hs : st.cell.srv? sid = some s) (hup : s.state = .up)
    (hanc : st.cell.tree.path sid = some anc) (hfit : srvCheck (st.cell.putCtx a) s anc = true)
    (h : tryPlace revq st aid restore = .ok st') :
    ∃ a' sid', st'.cell.app? aid = some a' ∧ a'.server = some sid' := by
  simp only [tryPlace, bind_ok, orAbort_ok] at h
  obtain ⟨a2, ha2, ⟨c3, placed⟩, hput, h⟩ := h
  have hp : placed = true := put_complete hall hagg hcur ha hs hup hanc hfit hput
  subst hp
  obtain ⟨a', sid', hc3, hsv⟩ := cellPut_placed hput
  simp only [↓reduceIte, pure_ok, bind_ok, orAbort_ok] at h
  obtain ⟨c4, hc4, a4, ha4, h⟩ := h
  subst hc4
  rw [hc3] at ha4
  simp only [Option.some.injEq] at ha4
  rw [← ha4, hsv] at h
  simp only [Option.isSome_some, ↓reduceIte, pure_ok] at h
  rw [← h]
  exact ⟨a', sid', hc3, hsv⟩

/-! ### which keys the feasibility tracker can hold -/

theorem trackerAdjust_mem {tr : List (TKey × Vec)} {k : TKey} {d : Vec} {kv : TKey × Vec}
    (h : kv ∈ trackerAdjust tr k d) : kv ∈ tr ∨ kv = (k, d) := by
  unfold trackerAdjust at h
  split at h
  · rcases List.mem_append.mp h with h1 | h1
    · exact Or.inl h1
    · simp only [List.mem_singleton] at h1; exact Or.inr h1
  · split at h
    · simp only [List.mem_map] at h
      obtain ⟨p, hp, e⟩ := h
      split at e
      · exact Or.inr e.symm
      · rw [← e]; exact Or.inl hp
    · exact Or.inl h

/-- The tracker only learns `(shape, demand)` of an instance for which `Cell.put` just failed. -/
theorem tryPlace_tracker {revq : List Nat} {st st' : PState} {aid : Nat} {restore}
    (h : tryPlace revq st aid restore = .ok st') :
    ∀ kv ∈ st'.tracker, kv ∈ st.tracker ∨
      ∃ a2 c3, st.cell.app? aid = some a2 ∧ kv = (st.cell.tkey a2, a2.demand) ∧ cellPut st.cell aid = .ok (c3, false) := by
  simp only [tryPlace, bind_ok, orAbort_ok] at h
  obtain ⟨a2, ha2, ⟨c3, placed⟩, hput, c4, hev, a4, ha4, h⟩ := h
  split at h
  · simp only [pure_ok] at h; subst h; exact fun kv hkv => Or.inl hkv
  · rename_i hns
    split at h
    · simp only [bind_ok, orAbort_ok, pure_ok] at h
      obtain ⟨_, _, _, _, rfl⟩ := h
      exact fun kv hkv => Or.inl hkv
    · simp only [bind_ok, pure_ok] at h
      obtain ⟨c5, _, rfl⟩ := h
      intro kv hkv
      rcases trackerAdjust_mem hkv with h1 | h1
      · exact Or.inl h1
      · right
        cases placed with
        | false => exact ⟨a2, c3, ha2, h1, hput⟩
        | true =>
          exfalso
          simp only [↓reduceIte, pure_ok] at hev
          subst hev
          obtain ⟨a', sid', hc3, hsv⟩ := cellPut_placed hput
          rw [hc3] at ha4; cases ha4
          rw [hsv] at hns; simp at hns

theorem tkey_static {c0 c : Cell} (hs : SameStatic c0 c) {a0 a : App} (he : a.stat = a0.stat) :
    c.tkey a = c0.tkey a0 := by
  have e1 : a.aff = a0.aff := congrArg AppStat.aff he
  have e2 : a.lease = a0.lease := congrArg AppStat.lease he
  have e3 : a.alloc = a0.alloc := congrArg AppStat.alloc he
  have e4 : a.traits = a0.traits := congrArg AppStat.traits he
  have e5 : a.limits = a0.limits := congrArg AppStat.limits he
  unfold Cell.tkey Cell.appTraits Cell.allocInfo
  rw [e1, e2, e3, e4, e5, hs.allocs]

/-- Every record the tracker holds after an entry was there before, or is `(shape, demand)` of the
    entry's instance at a moment `cT` of its turn at which it was unplaced and `Cell.put` failed. -/
theorem placeOne_tracker {revq : List Nat} {st st' : PState} {q : Nat × Bool} {a0 : App}
    (ha0 : st.cell.app? q.1 = some a0) (h : placeOne revq st q = .ok st') :
    ∀ kv ∈ st'.tracker, kv ∈ st.tracker ∨
      ∃ cT a2 c3, LReach (PlaceOk a0 false (revq.takeWhile (· ≠ q.1))) st.cell cT ∧ cT.app? q.1 = some a2 ∧
        a2.server = none ∧ kv = (cT.tkey a2, a2.demand) ∧ cellPut cT q.1 = .ok (c3, false) := by
  simp only [placeOne, bind_ok, orAbort_ok] at h
  obtain ⟨a, ha, h⟩ := h
  rw [ha0] at ha; cases ha
  have hid := app?_id ha0
  split at h
  · simp only [pure_ok] at h; subst h; exact fun kv hkv => Or.inl hkv
  · rename_i hbl
    have hbl' : a0.blacklisted = false := by simpa using hbl
    split at h
    · simp only [bind_ok, pure_ok] at h
      obtain ⟨c2, _, rfl⟩ := h
      exact fun kv hkv => Or.inl hkv
    · simp only [bind_ok, orAbort_ok] at h
      obtain ⟨⟨c1, restore⟩, hrn, a1, ha1, h⟩ := h
      obtain ⟨r1, _⟩ := renewStep_lreach (after := revq.takeWhile (· ≠ q.1)) (by rw [hid]; exact ha0) hbl' hrn
      have r2 : LReach (PlaceOk a0 false (revq.takeWhile (· ≠ q.1))) st.cell (c1.setApp { a1 with renew := false }) :=
        r1.step (setRenew_lprim ha1 false) ⟨hid.symm, hbl', rfl, by intro e; cases e⟩
      have hid1 : a1.id = q.1 := app?_id ha1
      have hself : (c1.setApp { a1 with renew := false }).app? q.1 = some { a1 with renew := false } := by
        have e1 : ({ a1 with renew := false } : App).id = q.1 := hid1
        rw [← e1]; exact app?_setApp_self (a := a1) (by rw [e1]; exact ha1)
      split at h
      · split at h
        · simp only [throw_ne_ok] at h
        · split at h
          · simp only [throw_ne_ok] at h
          · simp only [pure_ok] at h; subst h; exact fun kv hkv => Or.inl hkv
      · rename_i hsvn
        simp only [bind_ok] at h
        obtain ⟨⟨c2, got, ch⟩, hacq, h⟩ := h
        have r3 : LReach (PlaceOk a0 false (revq.takeWhile (· ≠ q.1))) st.cell c2 :=
          r2.step (.acquire hacq) ⟨hid.symm, hbl', rfl, _, hself, hsvn⟩
        have hc2none : ∀ a, c2.app? q.1 = some a → a.server = none := by
          intro a ha
          obtain ⟨a', ha', e⟩ := acquire_server hacq a ha
          rw [hself] at ha'; cases ha'
          rw [e]; exact hsvn
        split at h
        · simp only [pure_ok] at h; subst h; exact fun kv hkv => Or.inl hkv
        · -- afterAcquire
          simp only [afterAcquire, bind_ok] at h
          obtain ⟨⟨c3, done⟩, hre, h⟩ := h
          have r4 : LReach (PlaceOk a0 false (revq.takeWhile (· ≠ q.1))) st.cell c3 :=
            r3.trans (restoreEvicted_lreach hid hbl' hre)
          split at h
          · simp only [pure_ok] at h; subst h; exact fun kv hkv => Or.inl hkv
          · rename_i hdone
            have hdone' : done = false := by simpa using hdone
            subst hdone'
            simp only [bind_ok, orAbort_ok] at h
            obtain ⟨a2, ha2, h⟩ := h
            have ha2none : a2.server = none := by
              obtain ⟨a, ha, e⟩ := restoreEvicted_false_server hre a2 ha2
              rw [e]; exact hc2none a ha
            split at h
            · simp only [bind_ok, pure_ok] at h
              obtain ⟨_, _, rfl⟩ := h; exact fun kv hkv => Or.inl hkv
            · split at h
              · simp only [bind_ok, pure_ok] at h
                obtain ⟨_, _, rfl⟩ := h; exact fun kv hkv => Or.inl hkv
              · intro kv hkv
                rcases tryPlace_tracker h kv hkv with h1 | ⟨a2', c3', ha2', hk, hput⟩
                · exact Or.inl h1
                · right
                  simp only at ha2' hput
                  rw [ha2] at ha2'; cases ha2'
                  exact ⟨c3, a2, c3', r4, ha2, ha2none, hk, hput⟩

/-! ### what a tracker record means -/

/-- No up server of the cell passes the `Server.put` checks for the record `a`. -/
def NoFit (c0 : Cell) (a : App) : Prop :=
  ∀ S s anc, c0.srv? S = some s → s.state = .up → c0.tree.path S = some anc → srvCheck (c0.putCtx a) s anc ≠ true

/-- Every record `(shape, demand)` of the tracker is sound for the cell `c0` the loop started from:
    no instance of that shape in a partition `lbl` allocation asking at least that much fits anywhere. -/
def TrackerOk (c0 : Cell) (lbl : Nat) (tr : List (TKey × Vec)) : Prop :=
  ∀ kv ∈ tr, ∀ ay : App, c0.tkey ay = kv.1 → (c0.allocInfo ay.alloc).label = lbl →
    ay.demand.allGe kv.2 = true → NoFit c0 ay

/-- Two records of one placement shape and partition: the server checks that pass for the larger demand
    pass for the smaller one. -/
theorem fits_key (c : Cell) {a b : App} (hk : c.tkey a = c.tkey b)
    (hl : (c.allocInfo a.alloc).label = (c.allocInfo b.alloc).label) (hd : a.demand.allGe b.demand = true)
    (s : Srv) (anc : List Bkt) (hfit : srvCheck (c.putCtx a) s anc = true) : srvCheck (c.putCtx b) s anc = true := by
  have eaff : a.aff = b.aff := congrArg TKey.aff hk
  have elease : a.lease = b.lease := congrArg TKey.lease hk
  have etr : c.appTraits a = c.appTraits b := congrArg TKey.traits hk
  have elim : a.limits = b.limits := congrArg TKey.limits hk
  simp only [srvCheck, Bool.and_eq_true, decide_eq_true_eq, List.all_eq_true, Bool.not_eq_true'] at hfit ⊢
  obtain ⟨⟨⟨⟨⟨f1, f2⟩, f3⟩, f4⟩, f5⟩, f6⟩ := hfit
  have eappa : (c.putCtx a).app = a := rfl
  have eappb : (c.putCtx b).app = b := rfl
  rw [eappa] at f4 f5 f6
  rw [eappb]
  refine ⟨⟨⟨⟨⟨?_, ?_⟩, ?_⟩, ?_⟩, ?_⟩, ?_⟩
  · simp only [lifetimeOk, Bool.or_eq_true, beq_iff_eq, decide_eq_true_eq] at f1 ⊢
    have enow : (c.putCtx b).now = (c.putCtx a).now := rfl
    rw [eappb, enow, ← elease]; exact f1
  · show s.label = (c.allocInfo b.alloc).label
    rw [← hl]; exact f2
  · show hasTraits s.traits (c.appTraits b) = true
    rw [← etr]; exact f3
  · rw [← eaff, ← underLimit_congr elim]; exact f4
  · simp only [Vec.allGe, Vec.allLe, Bool.and_eq_true, decide_eq_true_eq] at hd
    simp only [Vec.anyGt, Bool.or_eq_false_iff, decide_eq_false_iff_not] at f5 ⊢
    omega
  · intro bk hbk
    rw [← eaff, ← underLimit_congr elim]; exact f6 bk hbk

/-! ### the probe's own turn -/

theorem path_exists (t : Tree) (x : Nat) (h : x ∈ t.names) : ∃ p, t.path x = some p := by
  cases hp : t.path x with
  | some p => exact ⟨p, rfl⟩
  | none => exact absurd h (path_none t x hp)

/-- What is assumed of the probe `p` in the state `c0` at the start of the loop. -/
structure ProbeHyp (c0 : Cell) (p : Nat) (ap : App) : Prop where
  app : c0.app? p = some ap
  unplaced : ap.server = none
  notBl : ap.blacklisted = false
  noRenew : ap.renew = false
  noId : ap.identity = none
  fresh : ap.evFrom = none ∧ (ap.schedOnce && ap.evicted) = false
  fits : ∃ S s anc, c0.srv? S = some s ∧ s.state = .up ∧ c0.tree.path S = some anc ∧
    srvCheck (c0.putCtx ap) s anc = true
  /-- "an identity is free if it needs one" -/
  idFree : ∀ g, ap.group = some g → ∃ k, KFree c0 g k

/-- `y` ended up holding an identity it did not hold at the start of the loop. -/
def IdMovedTo (c0 c : Cell) (y : Nat) : Prop :=
  ∃ b0 b k, c0.app? y = some b0 ∧ c.app? y = some b ∧ b.identity = some k ∧ b0.identity ≠ some k

/-- `acquire_identity` of an unplaced instance that holds no identity, when its group (if any) offers
    one: it succeeds; only the instance's `identity` field (and the group's offer) change. -/
theorem acquire_probe {c c' : Cell} {p : Nat} {ar : App} {ch ch' : List Nat} {got : Bool}
    (ha : c.app? p = some ar) (hnoid : ar.identity = none)
    (hkf : ∀ g, ar.group = some g → ∃ k, KFree c g k)
    (h : acquireIdentity c p ch = .ok (c', got, ch')) :
    got = true ∧ ∃ ar2, c'.app? p = some ar2 ∧ ar2.stat = ar.stat ∧ ar2.server = ar.server ∧
      ar2.evFrom = ar.evFrom ∧ ar2.evicted = ar.evicted ∧
      (∀ y, y ≠ p → c'.app? y = c.app? y) := by
  have hh := h
  simp only [acquireIdentity, bind_ok, orAbort_ok] at h
  obtain ⟨a, ha1, h⟩ := h
  rw [ha] at ha1; cases ha1
  split at h
  · simp only [pure_ok, Prod.mk.injEq] at h
    obtain ⟨rfl, rfl, _⟩ := h
    exact ⟨rfl, ar, ha, rfl, rfl, rfl, rfl, fun _ _ => rfl⟩
  · rename_i g hg
    rw [hnoid] at h
    simp only [Option.isSome_none, Bool.false_eq_true, ↓reduceIte, bind_ok, orAbort_ok] at h
    obtain ⟨grp, hgrp, h⟩ := h
    obtain ⟨k, grp', hgrp', hk⟩ := hkf g hg
    rw [hgrp] at hgrp'; cases hgrp'
    have hne : grp.avail.isEmpty = false := by
      cases hav : grp.avail with
      | nil => rw [hav] at hk; cases hk
      | cons _ _ => rfl
    rw [hne] at h
    simp only [Bool.false_eq_true, ↓reduceIte] at h
    split at h
    · simp only [throw_ne_ok] at h
    · rename_i k' rest
      split at h
      · simp only [throw_bind, throw_ne_ok] at h
      · simp only [pure_ok, Prod.mk.injEq] at h
        obtain ⟨rfl, rfl, _⟩ := h
        have hpid : ar.id = p := app?_id ha
        refine ⟨rfl, { ar with identity := some k' }, ?_, rfl, rfl, rfl, rfl, ?_⟩
        · generalize hr : ({ ar with identity := some k' } : App) = r
          have hid' : r.id = p := by rw [← hr]; exact hpid
          have := app?_setApp_self (c := c.setGrp { grp with avail := grp.avail.filter (· ≠ k') })
            (a := ar) (a' := r) (by rw [hid']; exact ha)
          rw [hid'] at this; exact this
        · intro y hy
          rw [app?_setApp]
          show Option.map _ (c.app? y) = c.app? y
          cases hq : c.app? y with
          | none => rfl
          | some b =>
            simp only [Option.map_some, Option.some.injEq]
            have : b.id ≠ ar.id := by rw [app?_id hq, hpid]; exact hy
            simp [this]

/-- The probe's turn from `afterAcquire` on: nothing to restore, not a used-up schedule-once
    instance, the tracker does not veto it, the fitting server still fits, `Cell.put` is complete. -/
theorem probe_tail {c0 : Cell} {p : Nat} {ap ar : App} {revq : List Nat} {st st' : PState}
    {restore : Option (Nat × Option Int)}
    (h0 : AffAll c0) (hagg : AggOk c0) (hcur : CurOk c0.tree) (hh : ProbeHyp c0 p ap)
    (hreach1 : Reach c0 st.cell) (hclean1 : Clean c0 st.cell) (hc1 : st.cell.app? p = some ar)
    (arstat : ar.stat = ap.stat) (arev : ar.evFrom = none) (arso : (ar.schedOnce && ar.evicted) = false)
    (htr : TrackerOk c0 (c0.allocInfo ap.alloc).label st.tracker)
    (h : afterAcquire revq st p restore = .ok st') :
    ∃ a' sid', st'.cell.app? p = some a' ∧ a'.server = some sid' := by
  obtain ⟨S, s0, anc0, hs0, hup0, hanc0, hfit0⟩ := hh.fits
  simp only [afterAcquire, bind_ok] at h
  obtain ⟨⟨c3, done⟩, hrest, h⟩ := h
  simp only [restoreEvicted, bind_ok, orAbort_ok] at hrest
  obtain ⟨a2, ha2, hrest⟩ := hrest
  rw [hc1] at ha2; cases ha2
  rw [arev] at hrest
  simp only [pure_ok, Prod.mk.injEq] at hrest
  obtain ⟨rfl, rfl⟩ := hrest
  simp only [Bool.false_eq_true, ↓reduceIte, bind_ok, orAbort_ok] at h
  obtain ⟨a2, ha2, h⟩ := h
  rw [hc1] at ha2; cases ha2
  rw [arso] at h
  simp only [Bool.false_eq_true, ↓reduceIte] at h
  have hstat1 := sameStatic_reach hreach1
  have hkey : st.cell.tkey ar = c0.tkey ap := tkey_static hstat1 arstat
  have hfeas : trackerFeasible st.tracker (st.cell.tkey ar) ar.demand = true := by
    unfold trackerFeasible
    cases hf : st.tracker.find? (fun q => q.1 = st.cell.tkey ar) with
    | none => rfl
    | some kv =>
      have hm := List.mem_of_find?_eq_some hf
      have hk := List.find?_some hf
      simp only [decide_eq_true_eq] at hk
      cases hge : ar.demand.allGe kv.2 with
      | false => simp [hge]
      | true =>
        exfalso
        have edem : ar.demand = ap.demand := congrArg AppStat.demand arstat
        exact htr kv hm ap (by rw [hk, hkey]) rfl (by rw [← edem]; exact hge) S s0 anc0 hs0 hup0 hanc0 hfit0
  rw [hfeas] at h
  simp only [Bool.not_true, Bool.false_eq_true, ↓reduceIte] at h
  obtain ⟨s1, hs1, ests⟩ := srv?_stat_to hstat1 hs0
  have hup1 : s1.state = .up := by
    have : s1.state = s0.state := congrArg SrvStat.state ests
    rw [this]; exact hup0
  have hall1 := affAll_reach h0 hreach1
  have hname : S ∈ st.cell.tree.names :=
    leaves_sub_names _ _ ((hall1.tree.leaves S).mpr ⟨s1, srv?_mem hs1, srv?_id hs1⟩)
  obtain ⟨anc1, hanc1⟩ := path_exists _ S hname
  have hfit1 := fits_mono (y := p) h0 hreach1 hclean1 hh.app hc1 hs0 hs1 hanc0 hanc1 hfit0
  exact tryPlace_places hall1 (aggOk_reach h0 hagg hreach1) (curOk_reach hcur hreach1) hc1 hs1 hup1 hanc1 hfit1 h

theorem probe_entry {c0 : Cell} {p : Nat} {ap : App} {revq : List Nat} {st st' : PState}
    (h0 : AffAll c0) (hagg : AggOk c0) (hcur : CurOk c0.tree) (hh : ProbeHyp c0 p ap)
    (hreach : Reach c0 st.cell) (hclean : Clean c0 st.cell) (hsame : st.cell.app? p = some ap)
    (htr : TrackerOk c0 (c0.allocInfo ap.alloc).label st.tracker)
    (hkf : ∀ g, ap.group = some g → ∃ k, KFree st.cell g k)
    (h : placeOne revq st (p, false) = .ok st') :
    ∃ a' sid', st'.cell.app? p = some a' ∧ a'.server = some sid' := by
  have hpid : ap.id = p := app?_id hh.app
  simp only [placeOne, bind_ok, orAbort_ok] at h
  obtain ⟨a1, ha1, h⟩ := h
  rw [hsame] at ha1; cases ha1
  simp only [hh.notBl, Bool.false_eq_true, ↓reduceIte, bind_ok, orAbort_ok] at h
  obtain ⟨⟨c1, restore⟩, hren, a1, ha1, h⟩ := h
  obtain ⟨rfl, rfl⟩ := renewStep_noop hh.noRenew hren
  simp only at ha1 h
  rw [hsame] at ha1; cases ha1
  generalize har : ({ ap with renew := false } : App) = ar at h
  have arid : ar.id = p := by rw [← har]; exact hpid
  have arstat : ar.stat = ap.stat := by rw [← har]; rfl
  have arsv : ar.server = none := by rw [← har]; exact hh.unplaced
  have arnoid : ar.identity = none := by rw [← har]; exact hh.noId
  have argrp : ar.group = ap.group := by rw [← har]
  have arev : ar.evFrom = none := by rw [← har]; exact hh.fresh.1
  have arevd : ar.evicted = ap.evicted := by rw [← har]
  have arso : (ar.schedOnce && ar.evicted) = false := by rw [← har]; exact hh.fresh.2
  have hc1 : (st.cell.setApp ar).app? p = some ar := by
    have := app?_setApp_self (c := st.cell) (a := ap) (a' := ar) (by rw [arid]; exact hsame)
    rw [arid] at this; exact this
  rw [hh.unplaced] at h
  simp only [bind_ok] at h
  obtain ⟨⟨c2, got, ch⟩, hacq, h⟩ := h
  have hkf1 : ∀ g, ar.group = some g → ∃ k, KFree (st.cell.setApp ar) g k := by
    intro g hg
    rw [argrp] at hg
    exact hkf g hg
  obtain ⟨rfl, ar2, hc2, ar2stat, ar2sv, ar2ev, ar2evd, hothers⟩ := acquire_probe hc1 arnoid hkf1 hacq
  simp only [Bool.not_true, Bool.false_eq_true, ↓reduceIte] at h
  -- the state after the identity was taken
  have hreach1 : Reach c0 (st.cell.setApp ar) := by
    rw [← har]
    exact hreach.trans (Reach.single ⟨_, LPrim.setRenew (b := false) (by rw [hpid]; exact hsame)⟩)
  have hreach2 : Reach c0 c2 := hreach1.trans (Reach.single ⟨_, LPrim.acquire hacq⟩)
  have hclean2 : Clean c0 c2 := by
    intro q b0 b hb0 hb
    by_cases hq : q = p
    · subst hq
      rw [hc2] at hb; cases hb
      exact Or.inr (by rw [ar2sv]; exact arsv)
    · rw [hothers q hq, app?_setApp] at hb
      cases hq' : st.cell.app? q with
      | none => rw [hq'] at hb; cases hb
      | some bq =>
        rw [hq'] at hb
        simp only [Option.map_some, Option.some.injEq] at hb
        have hcl := hclean q b0 bq hb0 hq'
        rw [← hb]
        split
        · exact Or.inr arsv
        · exact hcl
  have ar2so : (ar2.schedOnce && ar2.evicted) = false := by
    have e1 : ar2.schedOnce = ar.schedOnce := congrArg AppStat.schedOnce ar2stat
    rw [e1, ar2evd]; exact arso
  exact probe_tail (st := { st with cell := c2, choices := ch }) h0 hagg hcur hh hreach2 hclean2 hc2
    (ar2stat.trans arstat) (by rw [ar2ev]; exact arev) ar2so htr h

/-! ### the loop -/

/-- The situation of the probe after the entries `done`. -/
def ProbeInv (c0 : Cell) (p : Nat) (ap : App) (done : List Nat) (st : PState) : Prop :=
  (p ∈ done ∧ ∃ a' sid', st.cell.app? p = some a' ∧ a'.server = some sid') ∨
  (p ∉ done ∧ Reach c0 st.cell ∧ Clean c0 st.cell ∧ st.cell.app? p = some ap ∧
    TrackerOk c0 (c0.allocInfo ap.alloc).label st.tracker ∧
    ∀ g k, ap.group = some g → KFree c0 g k → KFree st.cell g k)

theorem probe_loop {c0 : Cell} {p : Nat} {ap : App} {full : List (Nat × Bool)}
    (h0 : AffAll c0) (hagg : AggOk c0) (hcur : CurOk c0.tree) (hh : ProbeHyp c0 p ap)
    (hnd : (full.map (·.1)).Nodup) (hp : (p, false) ∈ full)
    (hlbl : ∀ y, AheadOf p (full.map (·.1)) y → ∀ ay, c0.app? y = some ay →
      (c0.allocInfo ay.alloc).label = (c0.allocInfo ap.alloc).label)
    (stF : PState)
    (hnomove : ∀ y, AheadOf p (full.map (·.1)) y → ¬ MovedTo c0 stF.cell y)
    (hinvid : InvId c0)
    (hidq : ∀ g, ap.group = some g → ∀ y, AheadOf p (full.map (·.1)) y → ¬ IdMovedTo c0 stF.cell y) :
    ∀ (rest : List (Nat × Bool)) (done : List (Nat × Bool)) (st : PState), full = done ++ rest →
      rest.foldlM (placeOne (full.map (·.1)).reverse) st = .ok stF →
      ProbeInv c0 p ap (done.map (·.1)) st → ProbeInv c0 p ap (full.map (·.1)) stF := by
  intro rest
  induction rest with
  | nil =>
    intro done st hfull hfold hinv
    simp only [List.foldlM, pure_ok] at hfold
    subst hfold
    rw [hfull, List.append_nil]; exact hinv
  | cons q rest ih =>
    intro done st hfull hfold hinv
    simp only [List.foldlM, bind_ok] at hfold
    obtain ⟨st1, h1, h2⟩ := hfold
    have hfull' : full = (done ++ [q]) ++ rest := by rw [hfull]; simp
    have hids : full.map (·.1) = done.map (·.1) ++ q.1 :: rest.map (·.1) := by rw [hfull]; simp
    have hnd' := hnd
    rw [hids] at hnd'
    have hsplit := List.nodup_append.mp hnd'
    have hqrest : q.1 ∉ rest.map (·.1) := (List.nodup_cons.mp hsplit.2.1).1
    have hqdone : q.1 ∉ done.map (·.1) := fun hm => hsplit.2.2 _ hm _ List.mem_cons_self rfl
    have hafterAll := afterOk_of_nodup full hnd done (q :: rest) hfull
    have hafter := hafterAll.1
    have hdone_not_after : ∀ y ∈ done.map (·.1), y ∉ ((full.map (·.1)).reverse).takeWhile (· ≠ q.1) := by
      intro y hy hin
      exact hsplit.2.2 _ hy _ (List.mem_cons_of_mem _ (hafter y hin)) rfl
    -- the entry's chain
    have hx : ∃ a0, st.cell.app? q.1 = some a0 := by
      simp only [placeOne, bind_ok, orAbort_ok] at h1
      obtain ⟨a, ha, _⟩ := h1
      exact ⟨a, ha⟩
    obtain ⟨a0, ha0⟩ := hx
    have hchain := placeOne_lreach ha0 h1
    have hid0 : a0.id = q.1 := app?_id ha0
    have hrestloop : Loop (full.map (·.1)).reverse rest st1.cell stF.cell := placeLoop rest st1 stF h2
    apply ih (done ++ [q]) st1 hfull' h2
    simp only [List.map_append, List.map_cons, List.map_nil]
    rcases hinv with ⟨hpd, a', sid', ha', hsv'⟩ | ⟨hpd, hreach, hclean, hsame, htr, hkfree⟩
    · left
      have heq : st1.cell.app? p = st.cell.app? p :=
        entry_untouched hchain (by rw [hid0]; intro e; exact hqdone (e ▸ hpd)) (hdone_not_after p hpd)
      exact ⟨List.mem_append_left _ hpd, a', sid', by rw [heq]; exact ha', hsv'⟩
    · by_cases hqp : q.1 = p
      · -- the probe's own turn
        left
        have hq : q = (p, false) := by
          have hq_mem : q ∈ full := by rw [hfull]; simp
          have : ∀ (l : List (Nat × Bool)), (l.map (·.1)).Nodup → q ∈ l → (p, false) ∈ l → q.1 = p → q = (p, false) := by
            intro l
            induction l with
            | nil => intro _ h; cases h
            | cons z t iht =>
              intro hn h1' h2' e
              simp only [List.map_cons, List.nodup_cons] at hn
              rcases List.mem_cons.mp h1' with rfl | h1'
              · rcases List.mem_cons.mp h2' with e2 | h2'
                · exact e2.symm
                · exfalso; apply hn.1; rw [e]; exact List.mem_map_of_mem (f := (·.1)) h2'
              · rcases List.mem_cons.mp h2' with e2 | h2'
                · exfalso; apply hn.1; rw [← e2]; simp only; rw [← e]; exact List.mem_map_of_mem (f := (·.1)) h1'
                · exact iht hn.2 h1' h2' e
          exact this full hnd hq_mem hp hqp
        rw [hq] at h1
        obtain ⟨a', sid', ha', hsv'⟩ := probe_entry h0 hagg hcur hh hreach hclean hsame htr
          (fun g hg => by obtain ⟨k, hk⟩ := hh.idFree g hg; exact ⟨k, hkfree g k hg hk⟩) h1
        exact ⟨by rw [hqp]; simp, a', sid', ha', hsv'⟩
      · -- an entry ahead of the probe: it did not move (final state, hence already now)
        right
        have hpd' : p ∉ done.map (·.1) ++ [q.1] := by
          simp only [List.mem_append, List.mem_singleton, not_or]
          exact ⟨hpd, fun e => hqp e.symm⟩
        have hahead : AheadOf p (full.map (·.1)) q.1 :=
          ⟨done.map (·.1) ++ [q.1], rest.map (·.1), by rw [hids]; simp, by simp, hpd'⟩
        have hstable : stF.cell.app? q.1 = st1.cell.app? q.1 := loop_stable hrestloop hafterAll.2 hqrest
        have hreach1 : Reach c0 st1.cell := hreach.trans hchain.toReach
        have hstat := sameStatic_reach hreach
        obtain ⟨b0, hb0, est0⟩ := app?_stat_of hstat ha0
        obtain ⟨b1, hb1, _⟩ := app?_stat_to (sameStatic_lreach hchain) ha0
        have hnm : ¬ ∃ t, b1.server = some t ∧ b0.server ≠ some t := by
          rintro ⟨t, ht1, ht2⟩
          exact hnomove q.1 hahead ⟨b0, b1, t, hb0, by rw [hstable]; exact hb1, ht1, ht2⟩
        have hpne : p ≠ a0.id := by rw [hid0]; exact fun e => hqp e.symm
        -- any state of the entry's turn in which the entry is unplaced is clean w.r.t. `c0`
        have hcleanT : ∀ cT, LReach (PlaceOk a0 false ((full.map (·.1)).reverse.takeWhile (· ≠ q.1))) st.cell cT →
            (∀ a, cT.app? q.1 = some a → a.server = none) → Clean c0 cT := by
          intro cT hT hnone y d0 d1 hd0 hd1
          by_cases hy : y = q.1
          · subst hy; exact Or.inr (hnone d1 hd1)
          · obtain ⟨d, hd, hcase⟩ := entry_servers_ne hT (by rw [hid0]; exact hy) d1 hd1
            rcases hcase with e | e
            · rcases hclean y d0 d hd0 hd with e' | e'
              · exact Or.inl (e.trans e')
              · exact Or.inr (e.trans e')
            · exact Or.inr e
        refine ⟨hpd', hreach1, ?_, ?_, ?_, ?_⟩
        · intro y d0 d1 hd0 hd1
          by_cases hy : y = q.1
          · subst hy
            rw [hb0] at hd0; cases hd0
            rw [hb1] at hd1; cases hd1
            cases hs : b1.server with
            | none => exact Or.inr rfl
            | some t =>
              left
              by_cases e : b0.server = some t
              · exact e.symm
              · exact absurd ⟨t, hs, e⟩ hnm
          · obtain ⟨d, hd, hcase⟩ := entry_servers_ne hchain (by rw [hid0]; exact hy) d1 hd1
            rcases hcase with e | e
            · rcases hclean y d0 d hd0 hd with e' | e'
              · exact Or.inl (e.trans e')
              · exact Or.inr (e.trans e')
            · exact Or.inr e
        · rw [unplaced_untouched hchain hpne hsame hh.unplaced]; exact hsame
        · -- a new tracker record is sound: `Cell.put` just failed for the entry although placements
          -- had only shrunk since `c0`
          intro kv hkv
          rcases placeOne_tracker ha0 h1 kv hkv with hk | ⟨cT, a2, c3, hT, ha2, ha2none, hk, hput⟩
          · exact htr kv hk
          · intro ay hkey hlab hge S s anc hs hup hanc hfit
            have hreachT : Reach c0 cT := hreach.trans hT.toReach
            have hstatT := sameStatic_reach hreachT
            obtain ⟨b0', hb0', estT⟩ := app?_stat_of hstatT ha2
            rw [hb0] at hb0'; cases hb0'
            have hkT : cT.tkey a2 = c0.tkey b0 := tkey_static hstatT estT
            have edem : a2.demand = b0.demand := congrArg AppStat.demand estT
            rw [hk] at hkey hge
            simp only at hkey hge
            -- the entry's own record at `c0` fits the same server
            have hfitq : srvCheck (c0.putCtx b0) s anc = true :=
              fits_key c0 (by rw [hkey, hkT]) (by rw [hlab]; exact (hlbl q.1 hahead b0 hb0).symm)
                (by rw [← edem]; exact hge) s anc hfit
            have hcl : Clean c0 cT := hcleanT cT hT (by intro a ha; rw [ha2] at ha; cases ha; exact ha2none)
            obtain ⟨s1, hs1, ests⟩ := srv?_stat_to hstatT hs
            have hup1 : s1.state = .up := by
              have : s1.state = s.state := congrArg SrvStat.state ests
              rw [this]; exact hup
            have hallT := affAll_reach h0 hreachT
            have hname : S ∈ cT.tree.names :=
              leaves_sub_names _ _ ((hallT.tree.leaves S).mpr ⟨s1, srv?_mem hs1, srv?_id hs1⟩)
            obtain ⟨anc1, hanc1⟩ := path_exists _ S hname
            have hfitT := fits_mono (y := q.1) h0 hreachT hcl hb0 ha2 hs hs1 hanc hanc1 hfitq
            have := put_complete hallT (aggOk_reach h0 hagg hreachT) (curOk_reach hcur hreachT) ha2 hs1 hup1 hanc1
              hfitT hput
            cases this
        · -- an identity of the probe's group offered at the start is offered again after the entry's turn:
          -- otherwise the entry's instance would hold an identity it did not hold before
          intro g k hg hk0
          have hkst := hkfree g k hg hk0
          obtain ⟨grp0, hgrp0, hm0⟩ := hk0
          have hlt0 : k < grp0.count := hinvid.availRange grp0 (grp?_mem hgrp0) k hm0
          have hlt : ∀ grp, st.cell.grp? g = some grp → k < grp.count := by
            intro grp hgrp
            have hs := hstat.grp g
            rw [hgrp, hgrp0] at hs
            simp only [Option.map_some, Option.some.injEq] at hs
            rw [hs]; exact hlt0
          have hko : KOk st1.cell g k a0.id := kok_lreach hchain hlt (Or.inl hkst)
          rcases hko with hfree | ⟨b, hb, hbg, hbi⟩
          · exact hfree
          · exfalso
            rw [hid0] at hb
            rw [hb1] at hb; cases hb
            apply hidq g hg q.1 hahead
            refine ⟨b0, b1, k, hb0, by rw [hstable]; exact hb1, hbi, ?_⟩
            intro hb0i
            have eg : b0.group = b1.group := by
              have e1 : b1.stat = a0.stat := by
                obtain ⟨b1', hb1', e⟩ := app?_stat_to (sameStatic_lreach hchain) ha0
                rw [hb1] at hb1'; cases hb1'; exact e
              have e2 : a0.stat = b0.stat := est0
              exact (congrArg AppStat.group (e1.trans e2)).symm
            have hgid : grp0.id = g := grp?_id hgrp0
            exact hinvid.disj b0 (app?_mem hb0) grp0 (grp?_mem hgrp0) k (by rw [eg, hbg, hgid]) hb0i hm0

/-- **C02, one `_find_placements` call.**  A pending instance `p` (not blacklisted, not over its cap,
    holding no identity; if it belongs to an identity group, the group offers an identity) for which
    some up server passes the `Server.put` checks when the loop starts is placed by the loop, provided
    no instance ahead of it in the queue ends on a server it was not on before or — when the probe needs
    an identity — holding an identity it did not hold before (the cell is quiescent for the instances
    ahead), and the instances ahead belong to allocations of the probe's partition (one queue = one
    partition).  The feasibility tracker is covered: every record it holds is sound (`TrackerOk`), so
    it never skips the probe; an identity offered at the start is still offered at the probe's turn. -/
theorem findPlacements_probe {c0 c' : Cell} {p : Nat} {ap : App} {queue : List (Nat × Bool)} {ch ch' : List Nat}
    (h0 : AffAll c0) (hagg : AggOk c0) (hcur : CurOk c0.tree) (hh : ProbeHyp c0 p ap)
    (hnd : (queue.map (·.1)).Nodup) (hp : (p, false) ∈ queue)
    (hlbl : ∀ y, AheadOf p (queue.map (·.1)) y → ∀ ay, c0.app? y = some ay →
      (c0.allocInfo ay.alloc).label = (c0.allocInfo ap.alloc).label)
    (h : findPlacements c0 queue ch = .ok (c', ch'))
    (hnomove : ∀ y, AheadOf p (queue.map (·.1)) y → ¬ MovedTo c0 c' y)
    (hinvid : InvId c0)
    (hidq : ∀ g, ap.group = some g → ∀ y, AheadOf p (queue.map (·.1)) y → ¬ IdMovedTo c0 c' y) :
    ∃ a' sid', c'.app? p = some a' ∧ a'.server = some sid' := by
  simp only [findPlacements, bind_ok, pure_ok, Prod.mk.injEq] at h
  obtain ⟨stF, hfold, rfl, _⟩ := h
  -- the state after `evicted = dict()`
  have hclr : Reach c0 (clearGhost c0) := Reach.single ⟨_, LPrim.clearEv⟩
  have hlook : ∀ y, (clearGhost c0).app? y = (c0.app? y).map (fun a => { a with evFrom := none }) := by
    intro y
    unfold Cell.app? clearGhost
    exact find?_map_id c0.apps (fun a : App => { a with evFrom := none }) (fun _ => rfl) y
  have h0' : AffAll (clearGhost c0) := affAll_reach h0 hclr
  have hagg' : AggOk (clearGhost c0) := aggOk_reach h0 hagg hclr
  have hcur' : CurOk (clearGhost c0).tree := curOk_reach hcur hclr
  have hapeq : ({ ap with evFrom := none } : App) = ap := by
    have := hh.fresh.1
    cases ap; simp_all
  have hh' : ProbeHyp (clearGhost c0) p ap := by
    obtain ⟨S, s, anc, f1, f2, f3, f4⟩ := hh.fits
    exact ⟨by rw [hlook, hh.app]; simp [hapeq], hh.unplaced, hh.notBl, hh.noRenew, hh.noId, hh.fresh,
      ⟨S, s, anc, f1, f2, f3, f4⟩, fun g hg => hh.idFree g hg⟩
  have hres := probe_loop (c0 := clearGhost c0) h0' hagg' hcur' hh' hnd hp
    (by
      intro y hy ay hay
      rw [hlook] at hay
      cases hy0 : c0.app? y with
      | none => rw [hy0] at hay; cases hay
      | some b =>
        rw [hy0] at hay
        simp only [Option.map_some, Option.some.injEq] at hay
        have := hlbl y hy b hy0
        rw [← hay]; exact this)
    stF
    (by
      intro y hy hm
      apply hnomove y hy
      obtain ⟨b0, b, t, hb0, hb, hbt, hne⟩ := hm
      rw [hlook] at hb0
      cases hy0 : c0.app? y with
      | none => rw [hy0] at hb0; cases hb0
      | some d0 =>
        rw [hy0] at hb0
        simp only [Option.map_some, Option.some.injEq] at hb0
        exact ⟨d0, b, t, hy0, hb, hbt, by rw [← hb0] at hne; exact hne⟩)
    (invId_reach hinvid hclr)
    (by
      intro g hg y hy hm
      apply hidq g hg y hy
      obtain ⟨b0, b, k, hb0, hb, hbk, hne⟩ := hm
      rw [hlook] at hb0
      cases hy0 : c0.app? y with
      | none => rw [hy0] at hb0; cases hb0
      | some d0 =>
        rw [hy0] at hb0
        simp only [Option.map_some, Option.some.injEq] at hb0
        exact ⟨d0, b, k, hy0, hb, hbk, by rw [← hb0] at hne; exact hne⟩)
    queue [] { cell := clearGhost c0, tracker := [], choices := ch } (by simp) hfold
    (Or.inr ⟨by simp, Reach.refl, fun q b0 b hb0 hb => by rw [hb0] at hb; cases hb; exact Or.inl rfl,
      hh'.app, (fun kv hkv => by cases hkv), (fun _ _ _ hk => hk)⟩)
  have hpin : p ∈ queue.map (·.1) := List.mem_map_of_mem (f := (·.1)) hp
  rcases hres with ⟨_, a', sid', ha', hsv'⟩ | ⟨hnot, _⟩
  · exact ⟨a', sid', ha', hsv'⟩
  · exact absurd hpin hnot

/-! ### the pre-passes: placements only shrink, an unplaced instance without a group is untouched -/

theorem preOk_servers {c c1 : Cell} (h : LReach PreOk c c1) :
    ∀ y b1, c1.app? y = some b1 → ∃ b, c.app? y = some b ∧ (b1.server = b.server ∨ b1.server = none) := by
  induction h with
  | refl => intro y b1 h1; exact ⟨b1, h1, Or.inl rfl⟩
  | @step c' c'' lab _ p hp ih =>
    intro y b2 h2
    obtain ⟨b1, h1, hcase⟩ := lprim_server p y b2 h2
    obtain ⟨b, hb, hprev⟩ := ih y b1 h1
    refine ⟨b, hb, ?_⟩
    rcases hcase with e | e | ⟨sid, l0, hl, _, _⟩
    · rcases hprev with e' | e'
      · exact Or.inl (e.trans e')
      · exact Or.inr (e.trans e')
    · exact Or.inr e
    · subst hl; simp only [PreOk] at hp

theorem preOk_unplaced_step {c c' : Cell} {lab : Lab} {y : Nat} {ay : App} (hcap : InvCap c)
    (hok : PreOk c lab) (hp : LPrim lab c c') (hay : c.app? y = some ay) (hnone : ay.server = none)
    (hnoid : ay.identity = none) : c'.app? y = c.app? y := by
  by_cases ht : lab.target = some y
  · cases hp with
    | @remove _ _ sid aid h =>
      exfalso
      have e : aid = y := by simpa [Lab.target] using ht
      subst e
      obtain ⟨a, s, ha, hs, hin, _⟩ := serverRemove_shape h
      rw [hay] at ha; cases ha
      obtain ⟨b, hb, hbid, hbs⟩ := (hcap.views s (srv?_mem hs) aid).mp hin
      have : b = ay := key_unique (·.id) c.apps hcap.appIds b ay hb (app?_mem hay) (by rw [hbid, app?_id hay])
      subst this
      rw [hnone] at hbs; cases hbs
    | @release _ _ aid h =>
      have e : aid = y := by simpa [Lab.target] using ht
      subst e
      simp only [releaseIdentity, bind_ok, orAbort_ok] at h
      obtain ⟨a, ha, h⟩ := h
      rw [hay] at ha; cases ha
      rw [hnoid] at h
      split at h
      · rename_i hx; cases hx
      · simp only [pure_ok] at h
        subst h; rfl
    | @dropDangling _ a1 sid ha1 hon _ =>
      exfalso
      have e : a1.id = y := by simpa [Lab.target] using ht
      rw [e, hay] at ha1; cases ha1
      rw [hnone] at hon; cases hon
    | @forgetIdentity _ a1 k g grp ha1 hk1 hg _ _ =>
      exfalso
      have e : a1.id = y := by simpa [Lab.target] using ht
      rw [e, hay] at ha1; cases ha1
      rw [hnoid] at hk1; cases hk1
    | put _ => simp only [PreOk] at hok
    | acquire _ => simp only [PreOk] at hok
    | appMeta _ _ _ _ _ _ _ _ _ _ _ _ _ _ _ _ _ _ => simp only [PreOk] at hok
    | setRenew _ => simp only [PreOk] at hok
    | ghost _ => simp only [PreOk] at hok
    | tree _ _ => simp [Lab.target] at ht
    | clearEv => simp [Lab.target] at ht
  · refine lprim_untargeted_eq hp ht ?_
    intro e; subst e; simp only [PreOk] at hok

theorem preOk_unplaced {c c1 : Cell} {y : Nat} {ay : App} (hcap : InvCap c) (h : LReach PreOk c c1)
    (hay : c.app? y = some ay) (hnone : ay.server = none) (hnoid : ay.identity = none) : c1.app? y = c.app? y := by
  induction h with
  | refl => rfl
  | @step c' c'' lab r p hp ih =>
    rw [← ih]
    exact preOk_unplaced_step (invCap_lreach hcap r) hp p (by rw [ih]; exact hay) hnone hnoid

/-! ### partitions scheduled before the probe's -/

/-- A loop over a queue that does not contain `y` leaves `y`'s whole record alone. -/
theorem loop_untouched_eq {revq : List Nat} {qs : List (Nat × Bool)} {c c' : Cell} (hl : Loop revq qs c c')
    {y : Nat} (hr : y ∉ revq) (hq : y ∉ qs.map (·.1)) : c'.app? y = c.app? y := by
  induction hl with
  | nil => rfl
  | @cons q rest c c1 c2 a0 ha0 hchain _ _ ih =>
    have hq' : y ∉ rest.map (·.1) := fun hm => hq (by simp [hm])
    rw [ih hq']
    have hya0 : y ≠ a0.id := by
      rw [app?_id ha0]; intro e; exact hq (by simp [e])
    have hyaf : y ∉ revq.takeWhile (· ≠ q.1) := fun hm => hr (List.takeWhile_subset _ hm)
    exact entry_untouched hchain hya0 hyaf

/-- Whole partitions processed without `y` in their queue leave the record of `y` alone (a record
    that carries no eviction ghost: `evicted = dict()` is the only thing done to it). -/
theorem cycle_untouched_eq {qss : List (List (Nat × Bool))} {c c' : Cell} (hcy : Cycle qss c c')
    {y : Nat} {a : App} (hq : ∀ q ∈ qss, y ∉ q.map (·.1)) (ha : c.app? y = some a) (hev : a.evFrom = none) :
    c'.app? y = some a := by
  induction hcy with
  | nil => exact ha
  | @cons q qs c c1 c2 hl _ ih =>
    apply ih (fun q' hq' => hq q' (List.mem_cons_of_mem _ hq'))
    have hyq := hq q List.mem_cons_self
    rw [loop_untouched_eq hl (by simpa using hyq) hyq]
    have hlook : (clearGhost c).app? y = (c.app? y).map (fun a => { a with evFrom := none }) := by
      unfold Cell.app? clearGhost
      exact find?_map_id c.apps (fun a : App => { a with evFrom := none }) (fun _ => rfl) y
    rw [hlook, ha]
    simp only [Option.map_some, Option.some.injEq]
    cases a; simp_all

theorem clean_of_not_moved {c0 c : Cell} (h : ∀ y, ¬ MovedTo c0 c y) : Clean c0 c := by
  intro y b0 b hb0 hb
  cases hs : b.server with
  | none => exact Or.inr rfl
  | some t =>
    left
    by_cases e : b0.server = some t
    · exact e.symm
    · exact absurd ⟨b0, b, t, hb0, hb, hs, e⟩ (h y)

/-! ### an offered identity stays offered across queues whose instances take no new identity -/

/-- One queue: every identity `k` of group `g` offered in the base state `cB` (and now) is offered
    again after the loop, if no instance of the queue ends up holding an identity it did not hold in `cB`. -/
theorem loop_kfree {revq : List Nat} {qs : List (Nat × Bool)} {cB c c' : Cell} {g k : Nat}
    (hl : Loop revq qs c c') (hok : AfterOk revq qs) (hnd : (qs.map (·.1)).Nodup)
    (hinvB : InvId cB) (hstat : SameStatic cB c) (hkB : KFree cB g k)
    (hq : ∀ y ∈ qs.map (·.1), ¬ IdMovedTo cB c' y) (hk : KFree c g k) : KFree c' g k := by
  induction hl with
  | nil => exact hk
  | @cons q rest c c1 c2 a0 ha0 hchain hrest _ ih =>
    have hqrest : q.1 ∉ rest.map (·.1) := by
      simp only [List.map_cons, List.nodup_cons] at hnd; exact hnd.1
    have hnd' : (rest.map (·.1)).Nodup := by
      simp only [List.map_cons, List.nodup_cons] at hnd; exact hnd.2
    have hstat1 : SameStatic cB c1 := hstat.trans (sameStatic_lreach hchain)
    apply ih hok.2 hnd' hstat1 (fun y hy => hq y (by simp [hy]))
    obtain ⟨grp0, hgrp0, hm0⟩ := hkB
    have hlt0 : k < grp0.count := hinvB.availRange grp0 (grp?_mem hgrp0) k hm0
    have hlt : ∀ grp, c.grp? g = some grp → k < grp.count := by
      intro grp hgrp
      have hs := hstat.grp g
      rw [hgrp, hgrp0] at hs
      simp only [Option.map_some, Option.some.injEq] at hs
      rw [hs]; exact hlt0
    have hko : KOk c1 g k a0.id := kok_lreach hchain hlt (Or.inl hk)
    rcases hko with hfree | ⟨b, hb, hbg, hbi⟩
    · exact hfree
    · exfalso
      have hid0 : a0.id = q.1 := app?_id ha0
      rw [hid0] at hb
      have hstable : c2.app? q.1 = c1.app? q.1 := loop_stable hrest hok.2 hqrest
      obtain ⟨b0, hb0, est0⟩ := app?_stat_of hstat ha0
      apply hq q.1 (by simp)
      refine ⟨b0, b, k, hb0, by rw [hstable]; exact hb, hbi, ?_⟩
      intro hb0i
      have eg : b0.group = b.group := by
        obtain ⟨b1', hb1', e⟩ := app?_stat_to (sameStatic_lreach hchain) ha0
        rw [hb] at hb1'; cases hb1'
        exact (congrArg AppStat.group (e.trans est0)).symm
      have hgid : grp0.id = g := grp?_id hgrp0
      exact hinvB.disj b0 (app?_mem hb0) grp0 (grp?_mem hgrp0) k (by rw [eg, hbg, hgid]) hb0i hm0

/-- Whole partitions: an identity offered before is offered after, if no instance of their queues
    ends up holding an identity it did not hold before (queues duplicate-free and pairwise disjoint). -/
theorem cycle_kfree {qss : List (List (Nat × Bool))} {c c' : Cell} {g k : Nat}
    (hcy : Cycle qss c c') (hinv : InvId c)
    (hnd : ∀ q ∈ qss, (q.map (·.1)).Nodup)
    (hpw : qss.Pairwise (fun a b => ∀ y ∈ a.map (·.1), y ∉ b.map (·.1)))
    (hq : ∀ q ∈ qss, ∀ y ∈ q.map (·.1), ¬ IdMovedTo c c' y) (hk : KFree c g k) : KFree c' g k := by
  induction hcy with
  | nil => exact hk
  | @cons q qs c c1 c2 hl hrest ih =>
    have hpw' := List.pairwise_cons.mp hpw
    have hclr : Reach c (clearGhost c) := Reach.single ⟨_, LPrim.clearEv⟩
    have hr1 : Reach c c1 := hclr.trans hl.toReach
    have hone : Cycle [q] c c1 := .cons hl .nil
    -- the queue `q`
    have hk1 : KFree c1 g k := by
      refine loop_kfree hl (afterOk_of_nodup q (hnd q List.mem_cons_self) [] q rfl) (hnd q List.mem_cons_self)
        hinv (sameStatic_reach hclr) hk ?_ (kfree_clearGhost hk)
      intro y hy hm
      apply hq q List.mem_cons_self y hy
      obtain ⟨b0, b, k', hb0, hb, hbk, hne⟩ := hm
      obtain ⟨b2, hb2, _⟩ := app?_stat_to (sameStatic_reach hrest.toReach) hb
      obtain ⟨b1, hb1, _, e, _⟩ := cycle_untouched hrest (fun q' hq' => hpw'.1 q' hq' y hy) b2 hb2
      rw [hb] at hb1; cases hb1
      exact ⟨b0, b2, k', hb0, hb2, by rw [e]; exact hbk, hne⟩
    -- the remaining queues, from `c1`
    apply ih (invId_reach hinv hr1) (fun q' hq' => hnd q' (List.mem_cons_of_mem _ hq')) hpw'.2 ?_ hk1
    intro q' hq' y hy hm
    apply hq q' (List.mem_cons_of_mem _ hq') y hy
    obtain ⟨b1, b, k', hb1, hb, hbk, hne⟩ := hm
    obtain ⟨b0, hb0, _, e, _⟩ := cycle_untouched hone
      (fun q'' hq'' => by
        rw [List.mem_singleton] at hq''; subst hq''
        exact fun hyq => hpw'.1 q' hq' y hyq hy) b1 hb1
    exact ⟨b0, b, k', hb0, hb, hbk, by rw [← e]; exact hne⟩

end TmVerif.Sched
