/-
  The *skeleton* of the topology tree: everything but the spread-strategy cursors.  The
  `Bucket.put` search only moves cursors, so it never changes the skeleton; all the tree
  invariants (affinity counters, aggregates) are functions of the skeleton.
-/
import TmVerif.Sched.Place

namespace TmVerif.Sched

def Bkt.noCur (b : Bkt) : Bkt := { b with cursors := [] }

mutual
/-- The tree with all cursors erased. -/
def Tree.skel : Tree → Tree
  | .leaf s => .leaf s
  | .node b cs => .node b.noCur (Tree.skelL cs)
def Tree.skelL : List (Option Tree) → List (Option Tree)
  | [] => []
  | none :: r => none :: Tree.skelL r
  | some t :: r => some t.skel :: Tree.skelL r
end

def skelO : Option Tree → Option Tree
  | none => none
  | some t => some t.skel

theorem Tree.skelL_eq_map (cs : List (Option Tree)) : Tree.skelL cs = cs.map skelO := by
  induction cs with
  | nil => simp [Tree.skelL]
  | cons c r ih => cases c <;> simp [Tree.skelL, skelO, ih]

theorem Tree.skel_node (b : Bkt) (cs : List (Option Tree)) :
    (Tree.node b cs).skel = .node b.noCur (cs.map skelO) := by
  rw [Tree.skel, Tree.skelL_eq_map]

@[simp] theorem Tree.skel_leaf (s : Nat) : (Tree.leaf s).skel = .leaf s := by rw [Tree.skel]

theorem setCursor_noCur (b : Bkt) (a i : Nat) : (setCursor b a i).noCur = b.noCur := by
  unfold setCursor Bkt.noCur; split <;> rfl

theorem set_same {α} (l : List α) (i : Nat) (a : α) (h : l[i]? = some a) : l.set i a = l := by
  induction l generalizing i with
  | nil => rfl
  | cons x xs ih =>
    cases i with
    | zero => simp at h; simp [h]
    | succ j => simp at h; simp [ih j h]

/-- The `while True` walk only replaces children by their searched versions. -/
theorem walk_skel (res : List (Option (Tree × Option Nat))) (first : Nat) (cs0 : List (Option Tree))
    (hres : ∀ (i : Nat) (t' : Tree) (o : Option Nat), res[i]? = some (some (t', o)) →
      ∃ t : Tree, cs0[i]? = some (some t) ∧ t'.skel = t.skel) :
    ∀ (fuel : Nat) (cs : List (Option Tree)) (idx cur : Nat) (isFirst : Bool),
      cs.map skelO = cs0.map skelO → (walk res first fuel cs idx cur isFirst).1.map skelO = cs0.map skelO := by
  intro fuel
  have hset : ∀ (cs : List (Option Tree)) (cur : Nat) (t' : Tree) (o : Option Nat),
      cs.map skelO = cs0.map skelO → res[cur]? = some (some (t', o)) →
      (cs.set cur (some t')).map skelO = cs0.map skelO := by
    intro cs cur t' o hcs hr
    obtain ⟨t, ht, hsk⟩ := hres cur t' o hr
    rw [List.map_set, hcs]
    apply set_same
    rw [List.getElem?_map, ht]
    simp [skelO, hsk]
  induction fuel with
  | zero => intro cs idx cur isFirst hcs; simpa [walk] using hcs
  | succ n ih =>
    intro cs idx cur isFirst hcs
    simp only [walk]
    split
    · exact hcs
    · split
      · rename_i t' s0 heq
        exact hset cs cur t' _ hcs heq
      · rename_i t' heq
        have := hset cs cur t' _ hcs heq
        split
        · exact ih _ _ _ _ this
        · exact this
      · split
        · exact ih _ _ _ _ hcs
        · exact hcs

theorem searchL_get' (ctx : PutCtx) (anc : List Bkt) :
    ∀ (cs : List (Option Tree)) (i : Nat) (r : Tree × Option Nat),
      (searchL ctx anc cs)[i]? = some (some r) → ∃ t, cs[i]? = some (some t) ∧ r = search ctx anc t := by
  intro cs
  induction cs with
  | nil => intro i r h; simp [searchL] at h
  | cons c rest ih =>
    intro i r h
    cases c with
    | none =>
      simp only [searchL] at h
      cases i with
      | zero => simp at h
      | succ j =>
        simp only [List.getElem?_cons_succ] at h ⊢
        exact ih j r h
    | some t =>
      simp only [searchL] at h
      cases i with
      | zero =>
        simp only [List.getElem?_cons_zero, Option.some.injEq] at h ⊢
        exact ⟨t, rfl, h.symm⟩
      | succ j =>
        simp only [List.getElem?_cons_succ] at h ⊢
        exact ih j r h

theorem sizeOf_child_lt' (b : Bkt) (cs : List (Option Tree)) (i : Nat) (t : Tree) (h : cs[i]? = some (some t)) :
    sizeOf t < sizeOf (Tree.node b cs) := by
  have hm : some t ∈ cs := List.mem_of_getElem? h
  have h1 : sizeOf (some t) < sizeOf cs := List.sizeOf_lt_of_mem hm
  have h2 : sizeOf t < sizeOf (some t) := by simp
  have h3 : sizeOf cs < sizeOf (Tree.node b cs) := by simp; omega
  omega

/-- **The search moves cursors only.** -/
theorem search_skel (ctx : PutCtx) : ∀ (t : Tree) (anc : List Bkt), (search ctx anc t).1.skel = t.skel := by
  intro t
  induction t using WellFounded.induction (measure (fun t : Tree => sizeOf t)).wf with
  | _ t ih =>
    intro anc
    cases t with
    | leaf l =>
      simp only [search]
      split <;> rfl
    | node b cs =>
      simp only [search]
      split
      · rfl
      · split
        · rw [Tree.skel_node, Tree.skel_node, setCursor_noCur]
        · rename_i f idx hsug
          rw [Tree.skel_node, Tree.skel_node, setCursor_noCur]
          congr 1
          apply walk_skel _ _ cs
          · intro i t' o hr
            obtain ⟨tc, htc, hr2⟩ := searchL_get' ctx (anc ++ [b]) cs i (t', o) hr
            refine ⟨tc, htc, ?_⟩
            have hlt := sizeOf_child_lt' b cs i tc htc
            have := ih tc hlt (anc ++ [b])
            rw [← hr2] at this
            exact this
          · rfl

end TmVerif.Sched
