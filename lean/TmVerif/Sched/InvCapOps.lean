/-
  InvCap is preserved by every operation of a scheduler-level history (C01).
-/
import TmVerif.Sched.ReachCycle

namespace TmVerif.Sched

theorem used_filter_none (apps : List App) (p : App → Bool) (sid : Nat)
    (h : ∀ a ∈ apps, p a = false → a.server ≠ some sid) :
    used (apps.filter p) sid = used apps sid := by
  induction apps with
  | nil => rfl
  | cons x t ih =>
    have iht := ih (fun a ha => h a (List.mem_cons_of_mem _ ha))
    by_cases hp : p x = true
    · simp only [List.filter_cons, hp, ↓reduceIte, used_cons, iht]
    · have hp' : p x = false := by simpa using hp
      have := h x List.mem_cons_self hp'
      simp only [List.filter_cons, hp, used_cons, this]
      simpa using iht

/-- Dropping a server record. -/
theorem core_dropSrv {srvs : List Srv} {apps : List App} (hc : Core srvs apps) (sid : Nat) :
    Core (srvs.filter (fun x => x.id ≠ sid)) apps := by
  refine ⟨(List.filter_sublist.map _).nodup hc.srvIds, hc.appIds, hc.demand, ?_, ?_, ?_⟩
  · intro s hs; exact hc.free s (List.mem_filter.mp hs).1
  · intro s hs; exact hc.views s (List.mem_filter.mp hs).1
  · intro s hs; exact hc.sapps s (List.mem_filter.mp hs).1

/-- Changing a server record without touching id, capacity, free or apps. -/
theorem core_srvSame {srvs : List Srv} {apps : List App} (hc : Core srvs apps) {s s' : Srv} (hs : s ∈ srvs)
    (hid : s'.id = s.id) (hinit : s'.init = s.init) (hfree : s'.free = s.free) (happs : s'.apps = s.apps) :
    Core (updSrv srvs s') apps := by
  refine ⟨?_, hc.appIds, hc.demand, ?_, ?_, ?_⟩
  · unfold updSrv; rw [map_upd_keys (·.id) srvs s']; exact hc.srvIds
  · intro x hx
    rcases mem_updSrv.mp hx with ⟨hx, _⟩ | ⟨rfl, _⟩
    · exact hc.free x hx
    · rw [hid, hinit, hfree]; exact hc.free s hs
  · intro x hx
    rcases mem_updSrv.mp hx with ⟨hx, _⟩ | ⟨rfl, _⟩
    · exact hc.views x hx
    · rw [hid, happs]; exact hc.views s hs
  · intro x hx
    rcases mem_updSrv.mp hx with ⟨hx, _⟩ | ⟨rfl, _⟩
    · exact hc.sapps x hx
    · rw [happs]; exact hc.sapps s hs

theorem used_none (apps : List App) (sid : Nat) (h : ∀ a ∈ apps, a.server ≠ some sid) :
    used apps sid = Vec.zero := by
  induction apps with
  | nil => rfl
  | cons x t ih =>
    rw [used_cons, if_neg (h x List.mem_cons_self)]
    exact ih (fun a ha => h a (List.mem_cons_of_mem _ ha))

/-- Adding a fresh, empty server. -/
theorem core_addSrv {srvs : List Srv} {apps : List App} (hc : Core srvs apps) (s : Srv)
    (hfresh : ∀ x ∈ srvs, x.id ≠ s.id) (hempty : s.apps = []) (hfree : s.free = s.init) (hnn : s.init.nonneg)
    (hnodangling : ∀ a ∈ apps, a.server ≠ some s.id) : Core (srvs ++ [s]) apps := by
  refine ⟨?_, hc.appIds, hc.demand, ?_, ?_, ?_⟩
  · rw [List.map_append, List.nodup_append]
    refine ⟨hc.srvIds, by simp, ?_⟩
    intro a ha b hb
    simp only [List.map_cons, List.map_nil, List.mem_singleton] at hb
    subst hb
    obtain ⟨x, hx, rfl⟩ := List.mem_map.mp ha
    exact hfresh x hx
  · intro x hx
    rcases List.mem_append.mp hx with hx | hx
    · exact hc.free x hx
    · simp only [List.mem_singleton] at hx; subst hx
      rw [used_none apps x.id hnodangling, hfree]
      exact ⟨hnn, by apply Vec.ext' <;> simp⟩
  · intro x hx aid
    rcases List.mem_append.mp hx with hx | hx
    · exact hc.views x hx aid
    · simp only [List.mem_singleton] at hx; subst hx
      rw [hempty]
      constructor
      · intro h; cases h
      · rintro ⟨a, ha, _, hs⟩; exact absurd hs (hnodangling a ha)
  · intro x hx
    rcases List.mem_append.mp hx with hx | hx
    · exact hc.sapps x hx
    · simp only [List.mem_singleton] at hx; subst hx; rw [hempty]; exact List.nodup_nil

theorem used_append (l1 l2 : List App) (sid : Nat) : used (l1 ++ l2) sid = used l1 sid + used l2 sid := by
  induction l1 with
  | nil => apply Vec.ext' <;> simp
  | cons x t ih =>
    simp only [List.cons_append, used_cons, ih]
    split
    · apply Vec.ext' <;> simp <;> omega
    · rfl

/-- Adding a fresh, unplaced app. -/
theorem core_addApp {srvs : List Srv} {apps : List App} (hc : Core srvs apps) (a : App)
    (hfresh : ∀ x ∈ apps, x.id ≠ a.id) (hnone : a.server = none) (hnn : a.demand.nonneg) :
    Core srvs (apps ++ [a]) := by
  have hu : ∀ sid, used (apps ++ [a]) sid = used apps sid := by
    intro sid
    rw [used_append, used_cons, hnone]
    apply Vec.ext' <;> simp
  refine ⟨hc.srvIds, ?_, ?_, ?_, ?_, hc.sapps⟩
  · rw [List.map_append, List.nodup_append]
    refine ⟨hc.appIds, by simp, ?_⟩
    intro x hx b hb
    simp only [List.map_cons, List.map_nil, List.mem_singleton] at hb
    subst hb
    obtain ⟨y, hy, rfl⟩ := List.mem_map.mp hx
    exact hfresh y hy
  · intro x hx
    rcases List.mem_append.mp hx with hx | hx
    · exact hc.demand x hx
    · simp only [List.mem_singleton] at hx; subst hx; exact hnn
  · intro s hs; rw [hu]; exact hc.free s hs
  · intro s hs aid
    rw [hc.views s hs aid]
    constructor
    · rintro ⟨b, hb, h1, h2⟩; exact ⟨b, List.mem_append_left _ hb, h1, h2⟩
    · rintro ⟨b, hb, h1, h2⟩
      rcases List.mem_append.mp hb with hb | hb
      · exact ⟨b, hb, h1, h2⟩
      · simp only [List.mem_singleton] at hb; subst hb; rw [hnone] at h2; cases h2

/-- Dropping an app that is not placed on any existing server. -/
theorem core_dropApp {srvs : List Srv} {apps : List App} (hc : Core srvs apps) (aid : Nat)
    (hfree : ∀ a ∈ apps, a.id = aid → ∀ s ∈ srvs, a.server ≠ some s.id) :
    Core srvs (apps.filter (fun x => x.id ≠ aid)) := by
  have hu : ∀ s ∈ srvs, used (apps.filter (fun x => x.id ≠ aid)) s.id = used apps s.id := by
    intro s hs
    apply used_filter_none
    intro a ha hp
    have : a.id = aid := by simpa using hp
    exact hfree a ha this s hs
  refine ⟨hc.srvIds, (List.filter_sublist.map _).nodup hc.appIds, ?_, ?_, ?_, hc.sapps⟩
  · intro x hx; exact hc.demand x (List.mem_filter.mp hx).1
  · intro s hs; rw [hu s hs]; exact hc.free s hs
  · intro s hs aid'
    rw [hc.views s hs aid']
    constructor
    · rintro ⟨b, hb, h1, h2⟩
      refine ⟨b, List.mem_filter.mpr ⟨hb, ?_⟩, h1, h2⟩
      simp only [ne_eq, decide_not, Bool.not_eq_eq_eq_not, Bool.not_true, decide_eq_false_iff_not]
      intro e; exact hfree b hb e s hs h2
    · rintro ⟨b, hb, h1, h2⟩; exact ⟨b, (List.mem_filter.mp hb).1, h1, h2⟩


/-- Preconditions of the operations that the scheduler code does not check itself
    (what the loader guarantees when it issues them). -/
def OpOk (c : Cell) : Op → Prop
  | .addServer sid _ cap _ _ _ => cap.nonneg ∧ ∀ a ∈ c.apps, a.server ≠ some sid
  | .addApp a => a.demand.nonneg ∧ a.server = none
  | _ => True

theorem addNodeEffects_core {c c' : Cell} {cid tr aff ls fr} (h : addNodeEffects c cid tr aff ls fr = .ok c') :
    c'.srvs = c.srvs ∧ c'.apps = c.apps := by
  simp only [addNodeEffects, bind_ok, orAbort_ok, pure_ok] at h
  obtain ⟨_, _, _, _, _, _, _, _, rfl⟩ := h
  exact ⟨rfl, rfl⟩

@[simp] theorem ensureGroup_srvs (c : Cell) (g : Nat) : (ensureGroup c g).srvs = c.srvs := by
  unfold ensureGroup; split <;> rfl
@[simp] theorem ensureGroup_apps (c : Cell) (g : Nat) : (ensureGroup c g).apps = c.apps := by
  unfold ensureGroup; split <;> rfl

/-- A whole scheduling cycle preserves `InvCap`. -/
theorem invCap_schedule {c c' : Cell} {qs ch} (hc : InvCap c) (h : schedule c qs ch = .ok c') : InvCap c' :=
  invCap_reach hc (schedule_reach h)

theorem invCap_detach {c c' : Cell} {sid : Nat} (hc : InvCap c) (h : detachServer c sid = .ok c') : InvCap c' := by
  simp only [detachServer, bind_ok, orAbort_ok, pure_ok] at h
  obtain ⟨s, _, ⟨t, pid, sub⟩, _, t1, _, t2, _, t3, _, rfl⟩ := h
  exact core_dropSrv hc sid

theorem invCap_step {c c' : Cell} {op : Op} (hc : InvCap c) (hok : OpOk c op) (h : step c op = .ok c') :
    InvCap c' := by
  cases op with
  | addBucket b p l =>
    simp only [step, addBucket] at h
    split at h
    · simp only [throw_bind, throw_ne_ok] at h
    · simp only [bind_ok, orAbort_ok] at h
      obtain ⟨t, _, h⟩ := h
      have := addNodeEffects_core h
      unfold InvCap; rw [this.1, this.2]; exact hc
  | addServer sid pid cap label traits vu =>
    simp only [step, addServer] at h
    split at h
    · simp only [throw_bind, throw_ne_ok] at h
    · split at h
      · simp only [throw_bind, throw_ne_ok] at h
      · rename_i hfresh
        simp only [bind_ok, orAbort_ok] at h
        obtain ⟨t, _, h⟩ := h
        have := addNodeEffects_core h
        unfold InvCap; rw [this.1, this.2]
        refine core_addSrv hc _ ?_ rfl rfl hok.1 hok.2
        intro x hx e
        apply hfresh
        simp only [Option.isSome_iff_exists]
        have : c.srvs.find? (fun s => s.id = sid) = some x :=
          by simpa [e] using find?_key_unique (·.id) c.srvs hc.srvIds x hx
        exact ⟨x, by unfold Cell.srv?; simpa [e] using this⟩
  | removeServer sid =>
    simp only [step, removeServer, bind_ok] at h
    obtain ⟨c1, h1, h2⟩ := h
    exact invCap_detach (invCap_reach hc (serverRemoveAll_reach h1)) h2
  | detachServer sid => exact invCap_detach hc h
  | setState sid st since =>
    simp only [step, setState, bind_ok, orAbort_ok] at h
    obtain ⟨s, hs, h⟩ := h
    split at h
    · simp only [pure_ok] at h; subst h; exact hc
    · simp only [bind_ok, orAbort_ok, pure_ok] at h
      obtain ⟨t, _, rfl⟩ := h
      exact core_srvSame (s' := { s with state := st, since := since }) hc (srv?_mem hs) rfl rfl rfl rfl
  | setValidUntil sid v =>
    simp only [step, setValidUntil, bind_ok, orAbort_ok, pure_ok] at h
    obtain ⟨s, hs, rfl⟩ := h
    exact core_srvSame (s' := { s with validUntil := v }) hc (srv?_mem hs) rfl rfl rfl rfl
  | addApp a =>
    simp only [step, addApp] at h
    split at h
    · simp only [throw_bind, throw_ne_ok] at h
    · rename_i hfresh
      simp only [pure_ok] at h
      subst h
      have hfr : ∀ x ∈ c.apps, x.id ≠ a.id := by
        intro x hx e
        apply hfresh
        have : c.apps.find? (fun y => y.id = a.id) = some x := by
          simpa [e] using find?_key_unique (·.id) c.apps hc.appIds x hx
        simp [Cell.app?, this]
      have := core_addApp hc a hfr hok.2 hok.1
      cases hg : a.group <;> simpa [InvCap, hg] using this
  | updateApp aid al prio ret bl =>
    simp only [step, updateApp, bind_ok, orAbort_ok, pure_ok] at h
    obtain ⟨a, ha, rfl⟩ := h
    have ha' : c.app? a.id = some a := by rw [app?_id ha]; exact ha
    have := core_appSame (a' := { a with alloc := al, prio := prio, retention := ret, blacklisted := bl }) hc
      (app?_mem ha) rfl rfl rfl
    cases hg : a.group <;> simpa [InvCap, hg, Cell.setApp] using this
  | removeApp aid =>
    simp only [step, removeApp] at h
    split at h
    · simp only [pure_ok] at h; subst h; exact hc
    · rename_i a ha
      -- common tail: release + filter, given that the app is on no existing server
      have tail : ∀ c1 : Cell, InvCap c1 →
          (∀ x ∈ c1.apps, x.id = aid → ∀ s ∈ c1.srvs, x.server ≠ some s.id) →
          ∀ c2, releaseIdentity c1 aid = .ok c2 →
          InvCap { c2 with apps := c2.apps.filter (fun x => x.id ≠ aid) } := by
        intro c1 hc1 hfree c2 h2
        have hc2 : InvCap c2 := invCap_release hc1 h2
        have hkeep : (∀ x ∈ c2.apps, x.id = aid → ∀ s ∈ c2.srvs, x.server ≠ some s.id) := by
          simp only [releaseIdentity, bind_ok, orAbort_ok] at h2
          obtain ⟨a3, ha3, h2⟩ := h2
          split at h2
          · simp only [bind_ok, orAbort_ok, pure_ok] at h2
            obtain ⟨grp, _, rfl⟩ := h2
            intro x hx hxid s hs hcontra
            simp only [Cell.setApp, Cell.setGrp] at hx hs
            rcases (mem_updApp (a' := { a3 with identity := none })).mp hx with ⟨hx, _⟩ | ⟨rfl, _⟩
            · exact hfree x hx hxid s hs hcontra
            · exact hfree a3 (app?_mem ha3) (app?_id ha3) s hs hcontra
          · simp only [pure_ok] at h2; subst h2; exact hfree
        exact core_dropApp hc2 aid hkeep
      split at h
      · rename_i sid hsv
        split at h
        · simp only [bind_ok, pure_ok] at h
          obtain ⟨c1, h1, c2, h2, rfl⟩ := h
          refine tail c1 (invCap_remove hc h1) ?_ c2 h2
          simp only [serverRemove, bind_ok, orAbort_ok] at h1
          obtain ⟨s, hs, h1⟩ := h1
          split at h1
          · simp only [throw_bind, throw_ne_ok] at h1
          · simp only [bind_ok, orAbort_ok, pure_ok] at h1
            obtain ⟨a2, ha2, t1, _, t2, _, rfl⟩ := h1
            intro x hx hxid s0 _ hcontra
            simp only [Cell.setApp, Cell.setSrv] at hx
            rcases (mem_updApp (a' := { a2 with server := none, evicted := true, unschedule := false, expiry := none })).mp hx with ⟨_, hne⟩ | ⟨rfl, _⟩
            · exact hne (by simp [hxid, app?_id ha2])
            · simp at hcontra
        · rename_i hex
          simp only [bind_ok, pure_ok] at h
          obtain ⟨c1, rfl, c2, h2, rfl⟩ := h
          refine tail c hc ?_ c2 h2
          intro x hx hxid s hs hcontra
          have hxa : x = a := key_unique (·.id) c.apps hc.appIds x a hx (app?_mem ha) (by rw [hxid, app?_id ha])
          subst hxa
          rw [hsv] at hcontra
          have hsid : s.id = sid := (Option.some.inj hcontra).symm
          apply hex
          have : c.srvs.find? (fun y => y.id = sid) = some s := by
            simpa [hsid] using find?_key_unique (·.id) c.srvs hc.srvIds s hs
          simp [Cell.srv?, this]
      · rename_i hsv
        simp only [bind_ok, pure_ok] at h
        obtain ⟨c1, rfl, c2, h2, rfl⟩ := h
        refine tail c hc ?_ c2 h2
        intro x hx hxid s hs hcontra
        have hxa : x = a := key_unique (·.id) c.apps hc.appIds x a hx (app?_mem ha) (by rw [hxid, app?_id ha])
        subst hxa
        rw [hsv] at hcontra; cases hcontra
  | setAlloc al info =>
    simp only [step, pure_ok] at h; subst h
    unfold setAlloc; split <;> exact hc
  | configureGroup g n =>
    simp only [step, pure_ok] at h; subst h
    unfold configureGroup; split <;> exact hc
  | removeGroup g =>
    simp only [step, pure_ok] at h; subst h
    unfold removeGroup; split
    · exact hc
    · split <;> exact hc
  | forceIdentity aid k =>
    simp only [step, forceIdentity, bind_ok, orAbort_ok, pure_ok] at h
    obtain ⟨a, ha, g, _, grp, _, rfl⟩ := h
    exact core_appSame (a' := { a with identity := some k }) hc (app?_mem ha) rfl rfl rfl
  | serverPut aid sid =>
    simp only [step, bind_ok, pure_ok] at h
    obtain ⟨⟨c1, b⟩, h1, rfl⟩ := h
    exact invCap_put hc h1
  | serverRestore aid sid e =>
    simp only [step, bind_ok, pure_ok] at h
    obtain ⟨⟨c1, b⟩, h1, rfl⟩ := h
    exact invCap_reach hc (serverRestore_reach h1)
  | serverRemoveAll sid => exact invCap_reach hc (serverRemoveAll_reach h)
  | setPrio aid p =>
    simp only [step, bind_ok, orAbort_ok, pure_ok] at h
    obtain ⟨a, ha, rfl⟩ := h
    exact core_appSame (a' := { a with prio := p }) hc (app?_mem ha) rfl rfl rfl
  | setBlacklisted aid b =>
    simp only [step, bind_ok, orAbort_ok, pure_ok] at h
    obtain ⟨a, ha, rfl⟩ := h
    exact core_appSame (a' := { a with blacklisted := b }) hc (app?_mem ha) rfl rfl rfl
  | setUnschedule aid b =>
    simp only [step, bind_ok, orAbort_ok, pure_ok] at h
    obtain ⟨a, ha, rfl⟩ := h
    exact core_appSame (a' := { a with unschedule := b }) hc (app?_mem ha) rfl rfl rfl
  | setRenew aid b =>
    simp only [step, bind_ok, orAbort_ok, pure_ok] at h
    obtain ⟨a, ha, rfl⟩ := h
    exact core_appSame (a' := { a with renew := b }) hc (app?_mem ha) rfl rfl rfl
  | tick now => simp only [step, pure_ok] at h; subst h; exact hc
  | schedule qs ch => exact invCap_schedule hc h

/-- The guards hold along a run. -/
def GuardsHold : Cell → List Op → Prop
  | _, [] => True
  | c, op :: ops => OpOk c op ∧ ∀ c', step c op = .ok c' → GuardsHold c' ops

theorem invCap_runOps : ∀ (ops : List Op) (c c' : Cell), InvCap c → GuardsHold c ops →
    runOps c ops = .ok c' → InvCap c' := by
  intro ops
  induction ops with
  | nil => intro c c' hc _ h; simp only [runOps, pure_ok] at h; subst h; exact hc
  | cons op ops ih =>
    intro c c' hc hg h
    simp only [runOps, bind_ok] at h
    obtain ⟨c1, h1, h2⟩ := h
    exact ih c1 c' (invCap_step hc hg.1 h1) (hg.2 c1 h1) h2

theorem invCap_init (r l : Nat) : InvCap (Cell.init r l) := by
  refine ⟨by simp [Cell.init], by simp [Cell.init], ?_, ?_, ?_, ?_⟩ <;> intro x hx <;> simp [Cell.init] at hx


theorem OpOkB_sound {c : Cell} {op : Op} (h : OpOkB c op = true) : OpOk c op := by
  cases op <;> simp only [OpOk] <;> try trivial
  · simp only [OpOkB, Bool.and_eq_true, decide_eq_true_eq, List.all_eq_true, bne_iff_ne, ne_eq] at h
    exact ⟨⟨h.1.1.1, h.1.1.2, h.1.2⟩, h.2⟩
  · simp only [OpOkB, Bool.and_eq_true, decide_eq_true_eq, Option.isNone_iff_eq_none] at h
    exact ⟨⟨h.1.1.1, h.1.1.2, h.1.2⟩, h.2⟩

def guardsB : Cell → List Op → Bool
  | _, [] => true
  | c, op :: ops => OpOkB c op && (match step c op with
      | .ok c' => guardsB c' ops
      | .error _ => true)

theorem guardsB_sound : ∀ (ops : List Op) (c : Cell), guardsB c ops = true → GuardsHold c ops := by
  intro ops
  induction ops with
  | nil => intro c _; trivial
  | cons op ops ih =>
    intro c h
    simp only [guardsB, Bool.and_eq_true] at h
    refine ⟨OpOkB_sound h.1, ?_⟩
    intro c' hc'
    have h2 := h.2
    rw [hc'] at h2
    exact ih c' h2

end TmVerif.Sched
