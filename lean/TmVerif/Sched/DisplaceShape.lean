/-
  C07 — what stays fixed along a cycle: the order of the app table, and the shape of the tree
  (every bucket keeps its id, level and the servers below it).
-/
import TmVerif.Sched.DisplaceBasic

namespace TmVerif.Sched

/-! ### the app table keeps its ids, in order -/

theorem setApp_ids (c : Cell) (a' : App) : (c.setApp a').apps.map (·.id) = c.apps.map (·.id) := by
  unfold Cell.setApp
  exact map_upd_keys (·.id) c.apps a'

theorem lprim_appIds {c c' : Cell} {lab : Lab} (hp : LPrim lab c c') : c'.apps.map (·.id) = c.apps.map (·.id) := by
  cases hp with
  | put h =>
    rcases serverPut_shape h with ⟨_, rfl⟩ | ⟨_, a, s, anc, _, _, _, _, _, _, happs, _⟩
    · rfl
    · rw [happs]; exact map_upd_keys (·.id) c.apps _
  | remove h =>
    obtain ⟨a, s, _, _, _, happs, _⟩ := serverRemove_shape h
    rw [happs]; exact map_upd_keys (·.id) c.apps _
  | release h =>
    simp only [releaseIdentity, bind_ok, orAbort_ok] at h
    obtain ⟨a, ha, h⟩ := h
    split at h
    · simp only [bind_ok, orAbort_ok, pure_ok] at h
      obtain ⟨grp, _, rfl⟩ := h
      exact setApp_ids _ _
    · simp only [pure_ok] at h; subst h; rfl
  | acquire h =>
    simp only [acquireIdentity, bind_ok, orAbort_ok] at h
    obtain ⟨a, ha, h⟩ := h
    split at h
    · simp only [pure_ok, Prod.mk.injEq] at h; obtain ⟨rfl, _⟩ := h; rfl
    · split at h
      · simp only [pure_ok, Prod.mk.injEq] at h; obtain ⟨rfl, _⟩ := h; rfl
      · simp only [bind_ok, orAbort_ok] at h
        obtain ⟨grp, _, h⟩ := h
        split at h
        · simp only [pure_ok, Prod.mk.injEq] at h; obtain ⟨rfl, _⟩ := h; rfl
        · split at h
          · simp only [throw_ne_ok] at h
          · split at h
            · simp only [throw_bind, throw_ne_ok] at h
            · simp only [pure_ok, Prod.mk.injEq] at h
              obtain ⟨rfl, _⟩ := h
              exact setApp_ids _ _
  | appMeta _ _ _ _ _ _ _ _ _ _ _ _ _ _ _ _ _ _ => exact setApp_ids _ _
  | setRenew _ => exact setApp_ids _ _
  | ghost _ => exact setApp_ids _ _
  | dropDangling _ _ _ => exact setApp_ids _ _
  | forgetIdentity _ _ _ _ _ => exact setApp_ids _ _
  | tree _ _ => rfl
  | clearEv => simp [Function.comp]

theorem reach_appIds {c c' : Cell} (h : Reach c c') : c'.apps.map (·.id) = c.apps.map (·.id) := by
  induction h with
  | refl => rfl
  | step _ p ih => obtain ⟨lab, p⟩ := p; rw [lprim_appIds p, ih]

/-! ### the tree keeps its shape -/

/-- Every bucket of `t'` is a bucket of `t` with the same id, level, names and servers below. -/
def TreeShape (t t' : Tree) : Prop :=
  ∀ v' ∈ t'.views, ∃ v ∈ t.views, v'.names = v.names ∧ v'.leaves = v.leaves ∧ v'.b.level = v.b.level ∧ v'.b.id = v.b.id

theorem TreeShape.refl (t : Tree) : TreeShape t t := fun v hv => ⟨v, hv, rfl, rfl, rfl, rfl⟩

theorem TreeShape.trans {a b c : Tree} (h1 : TreeShape a b) (h2 : TreeShape b c) : TreeShape a c := by
  intro v hv
  obtain ⟨v1, hv1, e1, e2, e3, e4⟩ := h2 v hv
  obtain ⟨v0, hv0, f1, f2, f3, f4⟩ := h1 v1 hv1
  exact ⟨v0, hv0, e1.trans f1, e2.trans f2, e3.trans f3, e4.trans f4⟩

theorem lprim_treeShape {c c' : Cell} {lab : Lab} (hc : c.tree.names.Nodup) (hp : LPrim lab c c') :
    TreeShape c.tree c'.tree ∧ c'.tree.names = c.tree.names := by
  have same : c'.tree = c.tree → TreeShape c.tree c'.tree ∧ c'.tree.names = c.tree.names := by
    intro e; rw [e]; exact ⟨TreeShape.refl _, rfl⟩
  cases hp with
  | @put _ _ aid sid l0 b h =>
    cases b with
    | false =>
      rcases serverPut_shape h with ⟨_, rfl⟩ | ⟨hb, _⟩
      · exact ⟨TreeShape.refl _, rfl⟩
      · cases hb
    | true =>
      obtain ⟨a, t1, _, h1, m, h2⟩ := serverPut_tree h
      obtain ⟨e1, _, e3⟩ := affcap_views hc h1 h2
      refine ⟨?_, e1⟩
      intro v' hv'
      obtain ⟨v, hv, f1, f2, f3, f4, _⟩ := e3 v' hv'
      exact ⟨v, hv, f1, f2, f3, f4⟩
  | remove h =>
    obtain ⟨a, t1, _, h1, m, h2⟩ := serverRemove_tree h
    obtain ⟨e1, _, e3⟩ := affcap_views hc h1 h2
    refine ⟨?_, e1⟩
    intro v' hv'
    obtain ⟨v, hv, f1, f2, f3, f4, _⟩ := e3 v' hv'
    exact ⟨v, hv, f1, f2, f3, f4⟩
  | release h =>
    apply same
    simp only [releaseIdentity, bind_ok, orAbort_ok] at h
    obtain ⟨a, ha, h⟩ := h
    split at h
    · simp only [bind_ok, orAbort_ok, pure_ok] at h
      obtain ⟨grp, _, rfl⟩ := h; rfl
    · simp only [pure_ok] at h; subst h; rfl
  | acquire h =>
    apply same
    simp only [acquireIdentity, bind_ok, orAbort_ok] at h
    obtain ⟨a, ha, h⟩ := h
    split at h
    · simp only [pure_ok, Prod.mk.injEq] at h; obtain ⟨rfl, _⟩ := h; rfl
    · split at h
      · simp only [pure_ok, Prod.mk.injEq] at h; obtain ⟨rfl, _⟩ := h; rfl
      · simp only [bind_ok, orAbort_ok] at h
        obtain ⟨grp, _, h⟩ := h
        split at h
        · simp only [pure_ok, Prod.mk.injEq] at h; obtain ⟨rfl, _⟩ := h; rfl
        · split at h
          · simp only [throw_ne_ok] at h
          · split at h
            · simp only [throw_bind, throw_ne_ok] at h
            · simp only [pure_ok, Prod.mk.injEq] at h
              obtain ⟨rfl, _⟩ := h; rfl
  | appMeta _ _ _ _ _ _ _ _ _ _ _ _ _ _ _ _ _ _ => exact same rfl
  | setRenew _ => exact same rfl
  | ghost _ => exact same rfl
  | dropDangling _ _ _ => exact same rfl
  | forgetIdentity _ _ _ _ _ => exact same rfl
  | @tree _ t hsk _ =>
    obtain ⟨e1, _, e3⟩ := views_of_skel hsk
    refine ⟨?_, e1⟩
    intro v' hv'
    obtain ⟨v, hv, hb, hn, hl⟩ := e3.mem_right v' hv'
    have e5 : v'.b.noCur.level = v.b.noCur.level := congrArg Bkt.level hb
    have e6 : v'.b.noCur.id = v.b.noCur.id := congrArg Bkt.id hb
    exact ⟨v, hv, hn, hl, e5, e6⟩
  | clearEv => exact same rfl

theorem reach_treeShape {c c' : Cell} (hc : c.tree.names.Nodup) (h : Reach c c') :
    TreeShape c.tree c'.tree ∧ c'.tree.names = c.tree.names := by
  induction h with
  | refl => exact ⟨TreeShape.refl _, rfl⟩
  | step _ p ih =>
    obtain ⟨lab, p⟩ := p
    obtain ⟨s1, n1⟩ := ih
    obtain ⟨s2, n2⟩ := lprim_treeShape (by rw [n1]; exact hc) p
    exact ⟨s1.trans s2, n2.trans n1⟩

/-! ### every bucket on the path to a node is a view containing that node -/

mutual
theorem path_sound : ∀ (t : Tree) (target : Nat) (p : List Bkt), t.path target = some p →
    ∀ b ∈ p, ∃ v ∈ t.views, v.b = b ∧ target ∈ v.names
  | .leaf s, target, p, h => by
    simp only [Tree.path] at h
    split at h
    · simp only [Option.some.injEq] at h; subst h; intro b hb; cases hb
    · cases h
  | .node b0 cs, target, p, h => by
    simp only [Tree.path] at h
    split at h
    · simp only [Option.some.injEq] at h; subst h; intro b hb; cases hb
    · split at h
      · cases h
      · rename_i p' heq
        simp only [Option.some.injEq] at h
        subst h
        intro b hb
        rcases List.mem_cons.mp hb with rfl | hb
        · exact ⟨⟨b, Tree.namesL cs, Tree.leavesL cs⟩, by simp [Tree.views], rfl, pathL_mem cs target p' heq⟩
        · obtain ⟨v, hv, e1, e2⟩ := pathL_sound cs target p' heq b hb
          exact ⟨v, by simp [Tree.views, hv], e1, e2⟩
theorem pathL_sound : ∀ (cs : List (Option Tree)) (target : Nat) (p : List Bkt), Tree.pathL cs target = some p →
    ∀ b ∈ p, ∃ v ∈ Tree.viewsL cs, v.b = b ∧ target ∈ v.names
  | [], _, _, h => by simp [Tree.pathL] at h
  | none :: r, target, p, h => by
    simp only [Tree.pathL] at h
    simp only [Tree.viewsL]
    exact pathL_sound r target p h
  | some t :: r, target, p, h => by
    simp only [Tree.pathL] at h
    simp only [Tree.viewsL, List.mem_append]
    split at h
    · rename_i p' heq
      simp only [Option.some.injEq] at h
      subst h
      intro b hb
      obtain ⟨v, hv, e⟩ := path_sound t target p' heq b hb
      exact ⟨v, Or.inl hv, e⟩
    · intro b hb
      obtain ⟨v, hv, e⟩ := pathL_sound r target p h b hb
      exact ⟨v, Or.inr hv, e⟩
end

end TmVerif.Sched
