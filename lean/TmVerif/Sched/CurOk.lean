/-
  Spread-strategy cursors stay inside the children list: `current_idx` is only ever set to
  `index + 1` of an existing child, and children lists never shrink (`remove_node` leaves a hole).
  The `Bucket.put` search keeps this.
-/
import TmVerif.Sched.Skel

namespace TmVerif.Sched

mutual
/-- Every spread-strategy cursor is at most the number of children. -/
def CurOk : Tree → Prop
  | .leaf _ => True
  | .node b cs => (∀ p ∈ b.cursors, p.2 ≤ cs.length) ∧ CurOkL cs
def CurOkL : List (Option Tree) → Prop
  | [] => True
  | none :: r => CurOkL r
  | some t :: r => CurOk t ∧ CurOkL r
end

theorem curOkL_mem : ∀ (cs : List (Option Tree)) (t : Tree), some t ∈ cs → CurOkL cs → CurOk t
  | [], _, h, _ => by cases h
  | none :: r, t, h, hc => by
    simp only [CurOkL] at hc
    rcases List.mem_cons.mp h with e | h'
    · cases e
    · exact curOkL_mem r t h' hc
  | some t0 :: r, t, h, hc => by
    simp only [CurOkL] at hc
    rcases List.mem_cons.mp h with e | h'
    · simp only [Option.some.injEq] at e; subst e; exact hc.1
    · exact curOkL_mem r t h' hc.2

theorem curOkL_set : ∀ (cs : List (Option Tree)) (i : Nat) (t' : Tree), CurOk t' → CurOkL cs →
    CurOkL (cs.set i (some t'))
  | [], _, _, _, h => by simpa using h
  | none :: r, 0, t', ht, hc => by
    simp only [CurOkL] at hc
    simp only [List.set_cons_zero, CurOkL]; exact ⟨ht, hc⟩
  | none :: r, i + 1, t', ht, hc => by
    simp only [CurOkL] at hc
    simp only [List.set_cons_succ, CurOkL]; exact curOkL_set r i t' ht hc
  | some t0 :: r, 0, t', ht, hc => by
    simp only [CurOkL] at hc
    simp only [List.set_cons_zero, CurOkL]; exact ⟨ht, hc.2⟩
  | some t0 :: r, i + 1, t', ht, hc => by
    simp only [CurOkL] at hc
    simp only [List.set_cons_succ, CurOkL]; exact ⟨hc.1, curOkL_set r i t' ht hc.2⟩

theorem getCursor_le {b : Bkt} {n : Nat} (h : ∀ p ∈ b.cursors, p.2 ≤ n) (aff : Nat) : getCursor b aff ≤ n := by
  unfold getCursor
  cases hf : b.cursors.find? (fun p => p.1 = aff) with
  | none => simp
  | some p => simpa using h p (List.mem_of_find?_eq_some hf)

theorem setCursor_le {b : Bkt} {n : Nat} (h : ∀ p ∈ b.cursors, p.2 ≤ n) (aff idx : Nat) (hidx : idx ≤ n) :
    ∀ p ∈ (setCursor b aff idx).cursors, p.2 ≤ n := by
  unfold setCursor
  split
  · intro p hp
    simp only [List.mem_map] at hp
    obtain ⟨q, hq, e⟩ := hp
    split at e
    · rw [← e]; exact hidx
    · rw [← e]; exact h q hq
  · intro p hp
    simp only [List.mem_append, List.mem_singleton] at hp
    rcases hp with hp | rfl
    · exact h p hp
    · exact hidx

/-- `suggest` leaves the cursor inside the list. -/
theorem suggest_idx_le (cs : List (Option Tree)) : ∀ (fuel idx : Nat), fuel ≤ cs.length → idx ≤ cs.length →
    (suggest cs idx fuel).2 ≤ cs.length := by
  intro fuel
  induction fuel with
  | zero => intro idx _ h; simpa [suggest] using h
  | succ n ih =>
    intro idx hf hidx
    simp only [suggest]
    have hi : (if idx = cs.length then 0 else idx) < cs.length := by split <;> omega
    generalize (if idx = cs.length then 0 else idx) = i at hi
    cases h : cs[i]? with
    | none =>
      have := List.getElem?_eq_none_iff.mp h
      omega
    | some c =>
      cases c with
      | some t => simp only; omega
      | none => simp only; exact ih (i + 1) (by omega) (by omega)

theorem walk_keeps (res : List (Option (Tree × Option Nat))) (first : Nat)
    (hres : ∀ (i : Nat) (t' : Tree) (o : Option Nat), res[i]? = some (some (t', o)) → CurOk t') :
    ∀ (fuel : Nat) (cs : List (Option Tree)) (idx cur : Nat) (isFirst : Bool), CurOkL cs → idx ≤ cs.length →
      CurOkL (walk res first fuel cs idx cur isFirst).1 ∧
      (walk res first fuel cs idx cur isFirst).1.length = cs.length ∧
      (walk res first fuel cs idx cur isFirst).2.1 ≤ cs.length := by
  intro fuel
  induction fuel with
  | zero => intro cs idx cur isFirst hc hi; exact ⟨hc, rfl, hi⟩
  | succ n ih =>
    intro cs idx cur isFirst hc hi
    simp only [walk]
    split
    · exact ⟨hc, rfl, hi⟩
    · split
      · rename_i t' s0 heq
        exact ⟨curOkL_set cs cur t' (hres cur t' _ heq) hc, by simp, hi⟩
      · rename_i t' heq
        have hc' := curOkL_set cs cur t' (hres cur t' _ heq) hc
        have hl' : (cs.set cur (some t')).length = cs.length := by simp
        have hs := suggest_idx_le (cs.set cur (some t')) (cs.set cur (some t')).length idx (Nat.le_refl _) (by rw [hl']; exact hi)
        split
        · rename_i nx idx' hsug
          rw [hsug] at hs
          have := ih (cs.set cur (some t')) idx' nx false hc' hs
          rw [hl'] at this
          exact this
        · rename_i idx' hsug
          rw [hsug] at hs
          rw [hl'] at hs
          exact ⟨hc', hl', hs⟩
      · have hs := suggest_idx_le cs cs.length idx (Nat.le_refl _) hi
        split
        · rename_i nx idx' hsug
          rw [hsug] at hs
          exact ih cs idx' nx false hc hs
        · rename_i idx' hsug
          rw [hsug] at hs
          exact ⟨hc, rfl, hs⟩

/-- **The search keeps every cursor inside its children list.** -/
theorem search_curOk (ctx : PutCtx) : ∀ (t : Tree) (anc : List Bkt), CurOk t → CurOk (search ctx anc t).1 := by
  intro t
  induction t using WellFounded.induction (measure (fun t : Tree => sizeOf t)).wf with
  | _ t ih =>
    intro anc hc
    cases t with
    | leaf l =>
      simp only [search]
      split <;> simp only [CurOk]
    | node b cs =>
      simp only [CurOk] at hc
      simp only [search]
      split
      · simp only [CurOk]; exact hc
      · have hidx0 : getCursor b ctx.app.aff ≤ cs.length := getCursor_le hc.1 _
        have hs := suggest_idx_le cs cs.length (getCursor b ctx.app.aff) (Nat.le_refl _) hidx0
        split
        · rename_i idx hsug
          rw [hsug] at hs
          simp only [CurOk]
          exact ⟨setCursor_le hc.1 _ _ hs, hc.2⟩
        · rename_i f idx hsug
          rw [hsug] at hs
          have hres : ∀ (i : Nat) (t' : Tree) (o : Option Nat),
              (searchL ctx (anc ++ [b]) cs)[i]? = some (some (t', o)) → CurOk t' := by
            intro i t' o hr
            obtain ⟨tc, htc, e⟩ := searchL_get' ctx (anc ++ [b]) cs i (t', o) hr
            have hlt := sizeOf_child_lt' b cs i tc htc
            have := ih tc hlt (anc ++ [b]) (curOkL_mem cs tc (List.mem_of_getElem? htc) hc.2)
            rw [← e] at this
            exact this
          obtain ⟨w1, w2, w3⟩ := walk_keeps _ f hres (cs.length + 1) cs idx f true hc.2 hs
          simp only [CurOk]
          refine ⟨?_, w1⟩
          rw [w2]
          exact setCursor_le hc.1 _ _ w3

end TmVerif.Sched
