/-
  InvId — identities are unique within a group and never both held and available (C05).
  This part of the invariant holds in EVERY reachable state (not only after a cycle).
-/
import TmVerif.Sched.InvCapOps

namespace TmVerif.Sched

structure InvId (c : Cell) : Prop where
  appIds : (c.apps.map (·.id)).Nodup
  grpIds : (c.groups.map (·.id)).Nodup
  /-- no two instances of a group hold the same identity -/
  uniq : ∀ a ∈ c.apps, ∀ b ∈ c.apps, ∀ g k, a.group = some g → b.group = some g →
      a.identity = some k → b.identity = some k → a = b
  /-- an identity that is held is not offered -/
  disj : ∀ a ∈ c.apps, ∀ grp ∈ c.groups, ∀ k, a.group = some grp.id → a.identity = some k → k ∉ grp.avail
  availNodup : ∀ grp ∈ c.groups, grp.avail.Nodup
  /-- every offered identity is below the group's current count -/
  availRange : ∀ grp ∈ c.groups, ∀ k ∈ grp.avail, k < grp.count

theorem grp?_id {c : Cell} {g : Nat} {grp : Grp} (h : c.grp? g = some grp) : grp.id = g := by
  unfold Cell.grp? at h
  have := List.find?_some h
  simpa using this

theorem grp?_mem {c : Cell} {g : Nat} {grp : Grp} (h : c.grp? g = some grp) : grp ∈ c.groups := by
  unfold Cell.grp? at h
  exact List.mem_of_find?_eq_some h

/-- Replacing an app by one with the same id, group and identity. -/
theorem invId_appSame {c : Cell} (hc : InvId c) {a a' : App} (ha : a ∈ c.apps)
    (hid : a'.id = a.id) (hg : a'.group = a.group) (hi : a'.identity = a.identity) : InvId (c.setApp a') := by
  have back : ∀ x ∈ (c.setApp a').apps, ∃ y ∈ c.apps, y.id = x.id ∧ y.group = x.group ∧ y.identity = x.identity := by
    intro x hx
    rcases (mem_updApp (a' := a')).mp hx with ⟨hx, _⟩ | ⟨rfl, _⟩
    · exact ⟨x, hx, rfl, rfl, rfl⟩
    · exact ⟨a, ha, hid.symm, hg.symm, hi.symm⟩
  have hids : ((c.setApp a').apps.map (·.id)).Nodup := by
    simp only [Cell.setApp]; rw [map_upd_keys (·.id) c.apps a']; exact hc.appIds
  refine ⟨hids, hc.grpIds, ?_, ?_, hc.availNodup, hc.availRange⟩
  · intro x hx y hy g k gx gy ix iy
    obtain ⟨x0, hx0, e1, e2, e3⟩ := back x hx
    obtain ⟨y0, hy0, f1, f2, f3⟩ := back y hy
    have := hc.uniq x0 hx0 y0 hy0 g k (by rw [e2]; exact gx) (by rw [f2]; exact gy) (by rw [e3]; exact ix) (by rw [f3]; exact iy)
    exact key_unique (·.id) _ hids x y hx hy (by rw [← e1, ← f1, this])
  · intro x hx grp hgrp k gx ix
    obtain ⟨x0, hx0, _, e2, e3⟩ := back x hx
    exact hc.disj x0 hx0 grp hgrp k (by rw [e2]; exact gx) (by rw [e3]; exact ix)

/-- Forgetting an identity without offering it again (`_fix_invalid_identities`). -/
theorem invId_forget {c : Cell} (hc : InvId c) {a a' : App} (ha : a ∈ c.apps)
    (hid : a'.id = a.id) (hg : a'.group = a.group) (hi : a'.identity = none) : InvId (c.setApp a') := by
  have back : ∀ x ∈ (c.setApp a').apps, ∀ k, x.identity = some k →
      ∃ y ∈ c.apps, y.id = x.id ∧ y.group = x.group ∧ y.identity = x.identity := by
    intro x hx k hk
    rcases (mem_updApp (a' := a')).mp hx with ⟨hx, _⟩ | ⟨rfl, _⟩
    · exact ⟨x, hx, rfl, rfl, rfl⟩
    · rw [hi] at hk; cases hk
  have hids : ((c.setApp a').apps.map (·.id)).Nodup := by
    simp only [Cell.setApp]; rw [map_upd_keys (·.id) c.apps a']; exact hc.appIds
  refine ⟨hids, hc.grpIds, ?_, ?_, hc.availNodup, hc.availRange⟩
  · intro x hx y hy g k gx gy ix iy
    obtain ⟨x0, hx0, e1, e2, e3⟩ := back x hx k ix
    obtain ⟨y0, hy0, f1, f2, f3⟩ := back y hy k iy
    have := hc.uniq x0 hx0 y0 hy0 g k (by rw [e2]; exact gx) (by rw [f2]; exact gy) (by rw [e3]; exact ix) (by rw [f3]; exact iy)
    exact key_unique (·.id) _ hids x y hx hy (by rw [← e1, ← f1, this])
  · intro x hx grp hgrp k gx ix
    obtain ⟨x0, hx0, _, e2, e3⟩ := back x hx k ix
    exact hc.disj x0 hx0 grp hgrp k (by rw [e2]; exact gx) (by rw [e3]; exact ix)

theorem listAdd_nodup {l : List Nat} {k : Nat} (h : l.Nodup) : (listAdd l k).Nodup := by
  unfold listAdd
  split
  · exact h
  · rename_i hn
    rw [List.nodup_append]
    refine ⟨h, by simp, ?_⟩
    intro a ha b hb
    simp only [List.mem_singleton] at hb
    subst hb
    intro e; subst e
    exact hn (by simpa using ha)

theorem mem_listAdd {l : List Nat} {k x : Nat} : x ∈ listAdd l k ↔ x ∈ l ∨ x = k := by
  unfold listAdd
  split
  · rename_i h
    constructor
    · intro hx; exact Or.inl hx
    · rintro (hx | rfl)
      · exact hx
      · simpa using h
  · simp [List.mem_append]

theorem invId_release {c c' : Cell} {aid : Nat} (hc : InvId c) (h : releaseIdentity c aid = .ok c') : InvId c' := by
  simp only [releaseIdentity, bind_ok, orAbort_ok] at h
  obtain ⟨a, ha, h⟩ := h
  split at h
  · rename_i g k hg hk
    simp only [bind_ok, orAbort_ok, pure_ok] at h
    obtain ⟨grp, hgrp, rfl⟩ := h
    have hgid := grp?_id hgrp
    have hgm := grp?_mem hgrp
    have ham := app?_mem ha
    generalize hgrp' : (if k < grp.count then { grp with avail := listAdd grp.avail k } else grp) = grp'
    have hgid' : grp'.id = grp.id := by rw [← hgrp']; split <;> rfl
    have hcount' : grp'.count = grp.count := by rw [← hgrp']; split <;> rfl
    have havail' : ∀ x, x ∈ grp'.avail → x ∈ grp.avail ∨ (x = k ∧ k < grp.count) := by
      intro x hx; rw [← hgrp'] at hx
      split at hx
      · rename_i hlt
        rcases mem_listAdd.mp hx with h | h
        · exact Or.inl h
        · exact Or.inr ⟨h, hlt⟩
      · exact Or.inl hx
    have hnd' : grp'.avail.Nodup := by
      rw [← hgrp']; split
      · exact listAdd_nodup (hc.availNodup grp hgm)
      · exact hc.availNodup grp hgm
    simp only [Cell.setApp, Cell.setGrp]
    have hids : ((updApp c.apps { a with identity := none }).map (·.id)).Nodup := by
      unfold updApp; rw [map_upd_keys (·.id) c.apps _]; exact hc.appIds
    have hgids : ((updGrp c.groups grp').map (·.id)).Nodup := by
      unfold updGrp; rw [map_upd_keys (·.id) c.groups grp']; exact hc.grpIds
    refine ⟨hids, hgids, ?_, ?_, ?_, ?_⟩
    · intro x hx y hy g0 k0 gx gy ix iy
      rcases (mem_updApp (a' := { a with identity := none })).mp hx with ⟨hx, _⟩ | ⟨rfl, _⟩
      · rcases (mem_updApp (a' := { a with identity := none })).mp hy with ⟨hy, _⟩ | ⟨rfl, _⟩
        · exact hc.uniq x hx y hy g0 k0 gx gy ix iy
        · cases iy
      · cases ix
    · intro x hx G hG k0 gx ix
      rcases (mem_updApp (a' := { a with identity := none })).mp hx with ⟨hx0, hxne⟩ | ⟨rfl, _⟩
      · rcases (mem_updGrp (g' := grp')).mp hG with ⟨hG0, _⟩ | ⟨hGe, _⟩
        · exact hc.disj x hx0 G hG0 k0 gx ix
        · intro hin
          rw [hGe, hgid'] at gx
          rw [hGe] at hin
          rcases havail' k0 hin with h | ⟨rfl, _⟩
          · exact hc.disj x hx0 grp hgm k0 gx ix h
          · have : x = a := hc.uniq x hx0 a ham grp.id k0 gx (by rw [hg, hgid]) ix hk
            exact hxne (by rw [this])
      · cases ix
    · intro G hG
      rcases (mem_updGrp (g' := grp')).mp hG with ⟨hG, _⟩ | ⟨rfl, _⟩
      · exact hc.availNodup G hG
      · exact hnd'
    · intro G hG k0 hk0
      rcases (mem_updGrp (g' := grp')).mp hG with ⟨hG, _⟩ | ⟨rfl, _⟩
      · exact hc.availRange G hG k0 hk0
      · rw [hcount']
        rcases havail' k0 hk0 with h | ⟨rfl, hlt⟩
        · exact hc.availRange grp hgm k0 h
        · exact hlt
  · simp only [pure_ok] at h; subst h; exact hc

theorem invId_acquire {c c' : Cell} {aid : Nat} {ch ch' : List Nat} {b : Bool} (hc : InvId c)
    (h : acquireIdentity c aid ch = .ok (c', b, ch')) : InvId c' := by
  simp only [acquireIdentity, bind_ok, orAbort_ok] at h
  obtain ⟨a, ha, h⟩ := h
  split at h
  · simp only [pure_ok, Prod.mk.injEq] at h
    obtain ⟨rfl, _⟩ := h; exact hc
  · rename_i g hg
    split at h
    · simp only [pure_ok, Prod.mk.injEq] at h
      obtain ⟨rfl, _⟩ := h; exact hc
    · rename_i hnone
      simp only [bind_ok, orAbort_ok] at h
      obtain ⟨grp, hgrp, h⟩ := h
      split at h
      · simp only [pure_ok, Prod.mk.injEq] at h
        obtain ⟨rfl, _⟩ := h; exact hc
      · split at h
        · simp only [throw_ne_ok] at h
        · rename_i k rest
          split at h
          · simp only [throw_bind, throw_ne_ok] at h
          · rename_i hin
            simp only [pure_ok, Prod.mk.injEq] at h
            obtain ⟨rfl, _⟩ := h
            have hkin : k ∈ grp.avail := by simpa using hin
            have hgid := grp?_id hgrp
            have hgm := grp?_mem hgrp
            have ham := app?_mem ha
            have hanone : a.identity = none := by
              cases hi : a.identity with
              | none => rfl
              | some x => simp [hi] at hnone
            simp only [Cell.setApp, Cell.setGrp]
            have hids : ((updApp c.apps { a with identity := some k }).map (·.id)).Nodup := by
              unfold updApp; rw [map_upd_keys (·.id) c.apps _]; exact hc.appIds
            have hgids : ((updGrp c.groups { grp with avail := grp.avail.filter (· ≠ k) }).map (·.id)).Nodup := by
              unfold updGrp; rw [map_upd_keys (·.id) c.groups _]; exact hc.grpIds
            refine ⟨hids, hgids, ?_, ?_, ?_, ?_⟩
            · intro x hx y hy g0 k0 gx gy ix iy
              rcases (mem_updApp (a' := { a with identity := some k })).mp hx with ⟨hx, hxne⟩ | ⟨rfl, _⟩
              · rcases (mem_updApp (a' := { a with identity := some k })).mp hy with ⟨hy, _⟩ | ⟨rfl, _⟩
                · exact hc.uniq x hx y hy g0 k0 gx gy ix iy
                · -- y is the acquiring app: x would hold an available identity
                  exfalso
                  simp only at gy iy
                  have hk0 : k = k0 := Option.some.inj iy
                  have hg0 : g = g0 := by rw [hg] at gy; exact Option.some.inj gy
                  subst hk0; subst hg0
                  exact hc.disj x hx grp hgm k (by rw [hgid]; exact gx) ix hkin
              · rcases (mem_updApp (a' := { a with identity := some k })).mp hy with ⟨hy, _⟩ | ⟨rfl, _⟩
                · exfalso
                  simp only at gx ix
                  have hk0 : k = k0 := Option.some.inj ix
                  have hg0 : g = g0 := by rw [hg] at gx; exact Option.some.inj gx
                  subst hk0; subst hg0
                  exact hc.disj y hy grp hgm k (by rw [hgid]; exact gy) iy hkin
                · rfl
            · intro x hx G hG k0 gx ix
              rcases (mem_updGrp (g' := { grp with avail := grp.avail.filter (· ≠ k) })).mp hG with ⟨hG, hGne⟩ | ⟨rfl, _⟩
              · rcases (mem_updApp (a' := { a with identity := some k })).mp hx with ⟨hx, _⟩ | ⟨rfl, _⟩
                · exact hc.disj x hx G hG k0 gx ix
                · exfalso
                  simp only at gx
                  rw [hg] at gx
                  exact hGne (by simp only; rw [hgid]; exact (Option.some.inj gx).symm)
              · simp only [List.mem_filter, not_and, decide_eq_true_eq, ne_eq, Decidable.not_not]
                intro hin0
                rcases (mem_updApp (a' := { a with identity := some k })).mp hx with ⟨hx, _⟩ | ⟨rfl, _⟩
                · exact absurd hin0 (hc.disj x hx grp hgm k0 gx ix)
                · simp only at ix; exact (Option.some.inj ix).symm
            · intro G hG
              rcases (mem_updGrp (g' := { grp with avail := grp.avail.filter (· ≠ k) })).mp hG with ⟨hG, _⟩ | ⟨rfl, _⟩
              · exact hc.availNodup G hG
              · exact (hc.availNodup grp hgm).filter _
            · intro G hG k0 hk0
              rcases (mem_updGrp (g' := { grp with avail := grp.avail.filter (· ≠ k) })).mp hG with ⟨hG, _⟩ | ⟨rfl, _⟩
              · exact hc.availRange G hG k0 hk0
              · exact hc.availRange grp hgm k0 (List.mem_filter.mp hk0).1


theorem invId_congr {c c' : Cell} (ha : c'.apps = c.apps) (hg : c'.groups = c.groups) (h : InvId c) : InvId c' := by
  obtain ⟨h1, h2, h3, h4, h5, h6⟩ := h
  exact ⟨by rw [ha]; exact h1, by rw [hg]; exact h2, by rw [ha]; exact h3, by rw [ha, hg]; exact h4,
    by rw [hg]; exact h5, by rw [hg]; exact h6⟩

theorem invId_put {c c' : Cell} {aid sid : Nat} {l0 b : Bool} (hc : InvId c)
    (h : serverPut c aid sid l0 = .ok (c', b)) : InvId c' := by
  rcases serverPut_shape h with ⟨_, rfl⟩ | ⟨_, a, s, anc, ha, _, _, _, _, _, happs, _, hgrps, _, _⟩
  · exact hc
  · exact invId_congr (c := c.setApp (putRec c a sid l0)) happs hgrps
      (invId_appSame hc (app?_mem ha) rfl rfl rfl)

theorem invId_remove {c c' : Cell} {sid aid : Nat} (hc : InvId c)
    (h : serverRemove c sid aid = .ok c') : InvId c' := by
  obtain ⟨a, s, ha, _, _, happs, _, hgrps, _, _⟩ := serverRemove_shape h
  exact invId_congr (c := c.setApp (removeRec a)) happs hgrps (invId_appSame hc (app?_mem ha) rfl rfl rfl)

/-- Mapping every app through a function that keeps id, group and identity. -/
theorem invId_mapSame {c : Cell} (hc : InvId c) (f : App → App)
    (hid : ∀ a, (f a).id = a.id) (hg : ∀ a, (f a).group = a.group) (hi : ∀ a, (f a).identity = a.identity) :
    InvId { c with apps := c.apps.map f } := by
  obtain ⟨h1, h2, h3, h4, h5, h6⟩ := hc
  have hids : ((c.apps.map f).map (·.id)).Nodup := by
    rw [List.map_map]
    have : ((fun x => x.id) ∘ f) = (fun x : App => x.id) := by funext a; exact hid a
    rw [this]; exact h1
  refine ⟨hids, h2, ?_, ?_, h5, h6⟩
  · intro x hx y hy g k gx gy ix iy
    obtain ⟨x0, hx0, rfl⟩ := List.mem_map.mp hx
    obtain ⟨y0, hy0, rfl⟩ := List.mem_map.mp hy
    have := h3 x0 hx0 y0 hy0 g k (by rw [← hg]; exact gx) (by rw [← hg]; exact gy)
      (by rw [← hi]; exact ix) (by rw [← hi]; exact iy)
    rw [this]
  · intro x hx grp hgrp k gx ix
    obtain ⟨x0, hx0, rfl⟩ := List.mem_map.mp hx
    exact h4 x0 hx0 grp hgrp k (by rw [← hg]; exact gx) (by rw [← hi]; exact ix)

/-- Every (labelled) primitive transition preserves `InvId`. -/
theorem invId_lprim {c c' : Cell} {lab : Lab} (hc : InvId c) (hp : LPrim lab c c') : InvId c' := by
  cases hp with
  | put h => exact invId_put hc h
  | remove h => exact invId_remove hc h
  | release h => exact invId_release hc h
  | acquire h => exact invId_acquire hc h
  | appMeta ha hid _ hi hg => exact invId_appSame hc (app?_mem ha) hid hg hi
  | ghost ha => exact invId_appSame hc (app?_mem ha) rfl rfl rfl
  | setRenew ha => exact invId_appSame hc (app?_mem ha) rfl rfl rfl
  | dropDangling ha _ _ => exact invId_appSame hc (app?_mem ha) rfl rfl rfl
  | forgetIdentity ha _ _ _ _ => exact invId_forget hc (app?_mem ha) rfl rfl rfl
  | tree => exact invId_congr (c := c) rfl rfl hc
  | clearEv => exact invId_mapSame hc _ (fun _ => rfl) (fun _ => rfl) (fun _ => rfl)

theorem invId_prim {c c' : Cell} (hc : InvId c) (hp : Prim c c') : InvId c' := by
  obtain ⟨lab, hp⟩ := hp
  exact invId_lprim hc hp

theorem invId_reach {c c' : Cell} (hc : InvId c) (h : Reach c c') : InvId c' :=
  h.induct (fun _ _ hc hp => invId_prim hc hp) hc

theorem invId_schedule {c c' : Cell} {qs ch} (hc : InvId c) (h : schedule c qs ch = .ok c') : InvId c' :=
  invId_reach hc (schedule_reach h)

end TmVerif.Sched
