/-
  C02 — the aggregates kept by the buckets (free capacity, labels, traits) cover everything below
  them, in every reachable state.  This file: the bundle `AggOk` and the primitive transitions.
-/
import TmVerif.Sched.AggInst

namespace TmVerif.Sched

structure AggOk (c : Cell) : Prop where
  cap : CapOk c.srvs c.tree
  lab : LabOk c.srvs c.tree
  tr  : TrOk c.srvs c.tree

/-! ### what each propagation step leaves alone -/

theorem capStep_fields (srvs : List Srv) (b : Bkt) (cs : List (Option Tree)) (m : CapMsg) :
    ∃ f, (capStep srvs b cs m).1 = { b with free := f } := by
  cases m with
  | stop => exact ⟨b.free, rfl⟩
  | up v => exact ⟨_, rfl⟩
  | down prev =>
    simp only [capStep]
    by_cases h1 : bucketEmpty cs = true
    · simp only [h1, ↓reduceIte]; exact ⟨_, rfl⟩
    · simp only [h1, Bool.false_eq_true, ↓reduceIte]
      cases prev with
      | none =>
        simp only [Bool.false_eq_true, ↓reduceIte]
        by_cases h2 : (maxUpFree srvs cs).anyLt b.free = true
        · simp only [h2, ↓reduceIte]; exact ⟨_, rfl⟩
        · simp only [h2, Bool.false_eq_true, ↓reduceIte]; exact ⟨b.free, rfl⟩
      | some p =>
        simp only
        by_cases h3 : p.allLt b.free = true
        · simp only [h3, ↓reduceIte]; exact ⟨b.free, rfl⟩
        · simp only [h3, Bool.false_eq_true, ↓reduceIte]
          by_cases h2 : (maxUpFree srvs cs).anyLt b.free = true
          · simp only [h2, ↓reduceIte]; exact ⟨_, rfl⟩
          · simp only [h2, Bool.false_eq_true, ↓reduceIte]; exact ⟨b.free, rfl⟩

theorem traitStep_fields (b : Bkt) (cs : List (Option Tree)) (m : TraitMsg) :
    ∃ ct, (traitStep b cs m).1 = { b with childTraits := ct } := by
  cases m <;> exact ⟨_, rfl⟩

/-- "not a leaf" side condition of `incl` propagations. -/
def NotLeafAt (t : Tree) (target : Nat) (incl : Bool) : Prop := incl = true → ∀ s, t.find? target ≠ some (.leaf s)

section SameField
variable {srvs : List Srv} {t t' : Tree} {target : Nat} {incl : Bool}

-- capacity aggregate under aff / trait / label propagation
theorem treeAff_capOk {delta : Counter} {sign : Int} (hnd : t.names.Nodup) (hnl : NotLeafAt t target incl)
    (h : treeAff t target incl delta sign = some t') (hc : CapOk srvs t) : CapOk srvs t' := by
  unfold treeAff at h
  cases hb : t.bubble (affStep delta sign) incl target () with
  | none => rw [hb] at h; cases h
  | some r =>
    rw [hb] at h; simp only [Option.map_some, Option.some.injEq] at h; subst h
    exact Agg.bubble_same capLeaf capNode capGood capInv (affStep delta sign) srvs incl (fun _ _ _ => rfl)
      (fun _ _ _ h => h) (fun _ _ _ _ h => h) (fun _ _ _ => rfl) hnd hnl hb hc

theorem treeTraits_capOk {m : TraitMsg} (hnd : t.names.Nodup) (hnl : NotLeafAt t target incl)
    (h : treeTraits t target incl m = some t') (hc : CapOk srvs t) : CapOk srvs t' := by
  unfold treeTraits at h
  cases hb : t.bubble traitStep incl target m with
  | none => rw [hb] at h; cases h
  | some r =>
    rw [hb] at h; simp only [Option.map_some, Option.some.injEq] at h; subst h
    refine Agg.bubble_same capLeaf capNode capGood capInv traitStep srvs incl (fun b cs m => by cases m <;> rfl)
      ?_ ?_ ?_ hnd hnl hb hc
    · intro b cs m h; obtain ⟨ct, e⟩ := traitStep_fields b cs m; rw [e]; exact h
    · intro b cs m v h; obtain ⟨ct, e⟩ := traitStep_fields b cs m; rw [e]; exact h
    · intro b cs m; obtain ⟨ct, e⟩ := traitStep_fields b cs m; rw [e]; rfl

theorem treeLabels_capOk {ls : List Nat} (hnd : t.names.Nodup) (hnl : NotLeafAt t target incl)
    (h : treeLabels t target incl ls = some t') (hc : CapOk srvs t) : CapOk srvs t' := by
  unfold treeLabels at h
  cases hb : t.bubble labelStep incl target ls with
  | none => rw [hb] at h; cases h
  | some r =>
    rw [hb] at h; simp only [Option.map_some, Option.some.injEq] at h; subst h
    exact Agg.bubble_same capLeaf capNode capGood capInv labelStep srvs incl (fun _ _ _ => rfl)
      (fun _ _ _ h => h) (fun _ _ _ _ h => h) (fun _ _ _ => rfl) hnd hnl hb hc

-- label aggregate under aff / trait / capacity propagation
theorem treeAff_labOk {delta : Counter} {sign : Int} (hnd : t.names.Nodup) (hnl : NotLeafAt t target incl)
    (h : treeAff t target incl delta sign = some t') (hc : LabOk srvs t) : LabOk srvs t' := by
  unfold treeAff at h
  cases hb : t.bubble (affStep delta sign) incl target () with
  | none => rw [hb] at h; cases h
  | some r =>
    rw [hb] at h; simp only [Option.map_some, Option.some.injEq] at h; subst h
    exact Agg.bubble_same labLeaf labNode labGood (fun _ => True) (affStep delta sign) srvs incl (fun _ _ _ => rfl)
      (fun _ _ _ h => h) (fun _ _ _ _ h => h) (fun _ _ _ => rfl) hnd hnl hb hc

theorem treeTraits_labOk {m : TraitMsg} (hnd : t.names.Nodup) (hnl : NotLeafAt t target incl)
    (h : treeTraits t target incl m = some t') (hc : LabOk srvs t) : LabOk srvs t' := by
  unfold treeTraits at h
  cases hb : t.bubble traitStep incl target m with
  | none => rw [hb] at h; cases h
  | some r =>
    rw [hb] at h; simp only [Option.map_some, Option.some.injEq] at h; subst h
    refine Agg.bubble_same labLeaf labNode labGood (fun _ => True) traitStep srvs incl (fun b cs m => by cases m <;> rfl)
      (fun _ _ _ h => h) ?_ ?_ hnd hnl hb hc
    · intro b cs m v h; obtain ⟨ct, e⟩ := traitStep_fields b cs m; rw [e]; exact h
    · intro b cs m; obtain ⟨ct, e⟩ := traitStep_fields b cs m; rw [e]; rfl

theorem treeCap_labOk {srvs2 : List Srv} {m : CapMsg} (hnd : t.names.Nodup) (hnl : NotLeafAt t target incl)
    (h : treeCap srvs2 t target incl m = some t') (hc : LabOk srvs t) : LabOk srvs t' := by
  unfold treeCap at h
  cases hb : t.bubble (capStep srvs2) incl target m with
  | none => rw [hb] at h; cases h
  | some r =>
    rw [hb] at h; simp only [Option.map_some, Option.some.injEq] at h; subst h
    refine Agg.bubble_same labLeaf labNode labGood (fun _ => True) (capStep srvs2) srvs incl (capStep_id srvs2)
      (fun _ _ _ h => h) ?_ ?_ hnd hnl hb hc
    · intro b cs m v h; obtain ⟨f, e⟩ := capStep_fields srvs2 b cs m; rw [e]; exact h
    · intro b cs m; obtain ⟨f, e⟩ := capStep_fields srvs2 b cs m; rw [e]; rfl

-- traits aggregate under aff / label / capacity propagation
theorem treeAff_trOk {delta : Counter} {sign : Int} (hnd : t.names.Nodup) (hnl : NotLeafAt t target incl)
    (h : treeAff t target incl delta sign = some t') (hc : TrOk srvs t) : TrOk srvs t' := by
  unfold treeAff at h
  cases hb : t.bubble (affStep delta sign) incl target () with
  | none => rw [hb] at h; cases h
  | some r =>
    rw [hb] at h; simp only [Option.map_some, Option.some.injEq] at h; subst h
    exact Agg.bubble_same trLeaf trNode trGood (fun _ => True) (affStep delta sign) srvs incl (fun _ _ _ => rfl)
      (fun _ _ _ h => h) (fun _ _ _ _ h => h) (fun _ _ _ => rfl) hnd hnl hb hc

theorem treeLabels_trOk {ls : List Nat} (hnd : t.names.Nodup) (hnl : NotLeafAt t target incl)
    (h : treeLabels t target incl ls = some t') (hc : TrOk srvs t) : TrOk srvs t' := by
  unfold treeLabels at h
  cases hb : t.bubble labelStep incl target ls with
  | none => rw [hb] at h; cases h
  | some r =>
    rw [hb] at h; simp only [Option.map_some, Option.some.injEq] at h; subst h
    exact Agg.bubble_same trLeaf trNode trGood (fun _ => True) labelStep srvs incl (fun _ _ _ => rfl)
      (fun _ _ _ h => h) (fun _ _ _ _ h => h) (fun _ _ _ => rfl) hnd hnl hb hc

theorem treeCap_trOk {srvs2 : List Srv} {m : CapMsg} (hnd : t.names.Nodup) (hnl : NotLeafAt t target incl)
    (h : treeCap srvs2 t target incl m = some t') (hc : TrOk srvs t) : TrOk srvs t' := by
  unfold treeCap at h
  cases hb : t.bubble (capStep srvs2) incl target m with
  | none => rw [hb] at h; cases h
  | some r =>
    rw [hb] at h; simp only [Option.map_some, Option.some.injEq] at h; subst h
    refine Agg.bubble_same trLeaf trNode trGood (fun _ => True) (capStep srvs2) srvs incl (capStep_id srvs2)
      (fun _ _ _ h => h) ?_ ?_ hnd hnl hb hc
    · intro b cs m v h; obtain ⟨f, e⟩ := capStep_fields srvs2 b cs m; rw [e]; exact h
    · intro b cs m; obtain ⟨f, e⟩ := capStep_fields srvs2 b cs m; rw [e]; rfl
end SameField

/-! ### the subtree named by a server id is its leaf -/

mutual
theorem find?_leaf : ∀ (t : Tree) (sid : Nat), t.names.Nodup → sid ∈ t.leaves → t.find? sid = some (.leaf sid)
  | .leaf s, sid, _, h => by
    simp only [Tree.leaves, List.mem_singleton] at h
    subst h; simp [Tree.find?]
  | .node b cs, sid, hnd, h => by
    simp only [Tree.names, List.nodup_cons] at hnd
    simp only [Tree.leaves] at h
    simp only [Tree.find?]
    have : b.id ≠ sid := fun e => hnd.1 (e ▸ leavesL_sub_namesL cs sid h)
    rw [if_neg this]
    exact findL?_leaf cs sid hnd.2 h
theorem findL?_leaf : ∀ (cs : List (Option Tree)) (sid : Nat), (Tree.namesL cs).Nodup → sid ∈ Tree.leavesL cs →
    Tree.findL? cs sid = some (.leaf sid)
  | [], _, _, h => by simp [Tree.leavesL] at h
  | none :: r, sid, hnd, h => by
    simp only [Tree.namesL] at hnd
    simp only [Tree.leavesL] at h
    simp only [Tree.findL?]
    exact findL?_leaf r sid hnd h
  | some t :: r, sid, hnd, h => by
    simp only [Tree.namesL] at hnd
    have hnd' := List.nodup_append.mp hnd
    simp only [Tree.leavesL, List.mem_append] at h
    simp only [Tree.findL?]
    rcases h with h | h
    · rw [find?_leaf t sid hnd'.1 h]
    · have : sid ∉ t.names := fun hm => hnd'.2.2 _ hm _ (leavesL_sub_namesL r sid h) rfl
      rw [find?_none t sid this]
      exact findL?_leaf r sid hnd'.2.1 h
end

/-! ### lookups in an updated server table -/

theorem find_updSrv (srvs : List Srv) (s' : Srv) (k : Nat) :
    (updSrv srvs s').find? (fun s => s.id = k) =
      (srvs.find? (fun s => s.id = k)).map (fun x => if x.id = s'.id then s' else x) :=
  find?_map_upd (·.id) srvs s' k

theorem childView_updSrv_ne {srvs : List Srv} {s' : Srv} {k : Nat} (h : k ≠ s'.id) :
    childView (updSrv srvs s') (.leaf k) = childView srvs (.leaf k) := by
  simp only [childView, find_updSrv]
  cases hf : srvs.find? (fun s => s.id = k) with
  | none => rfl
  | some x =>
    have hx : x.id = k := by simpa using List.find?_some hf
    simp only [Option.map_some]
    rw [if_neg (by rw [hx]; exact h)]

theorem labLeaf_updSrv {srvs : List Srv} {s s' : Srv} (hs : s ∈ srvs) (hnd : (srvs.map (·.id)).Nodup)
    (hid : s'.id = s.id) (hl : s'.label = s.label) (k : Nat) :
    labLeaf (updSrv srvs s') k = labLeaf srvs k := by
  simp only [labLeaf, find_updSrv]
  cases hf : srvs.find? (fun x => x.id = k) with
  | none => rfl
  | some x =>
    simp only [Option.map_some]
    by_cases e : x.id = s'.id
    · rw [if_pos e]
      have : x = s := key_unique (·.id) srvs hnd x s (List.mem_of_find?_eq_some hf) hs (by rw [e, hid])
      rw [this, hl]
    · rw [if_neg e]

theorem trLeaf_updSrv {srvs : List Srv} {s s' : Srv} (hs : s ∈ srvs) (hnd : (srvs.map (·.id)).Nodup)
    (hid : s'.id = s.id) (ht : s'.traits = s.traits) (k : Nat) :
    trLeaf (updSrv srvs s') k = trLeaf srvs k := by
  simp only [trLeaf, find_updSrv]
  cases hf : srvs.find? (fun x => x.id = k) with
  | none => rfl
  | some x =>
    simp only [Option.map_some]
    by_cases e : x.id = s'.id
    · rw [if_pos e]
      have : x = s := key_unique (·.id) srvs hnd x s (List.mem_of_find?_eq_some hf) hs (by rw [e, hid])
      rw [this, ht]
    · rw [if_neg e]

/-- Labels and traits of every server are the same in both tables: both aggregates carry over. -/
theorem labOk_congr {srvs srvs' : List Srv} {t : Tree} (h : ∀ k, labLeaf srvs' k = labLeaf srvs k)
    (hc : LabOk srvs t) : LabOk srvs' t :=
  Agg.ok_congr labLeaf labNode labGood (fun _ => True) t (fun k _ => h k) hc

theorem trOk_congr {srvs srvs' : List Srv} {t : Tree} (h : ∀ k, trLeaf srvs' k = trLeaf srvs k)
    (hc : TrOk srvs t) : TrOk srvs' t :=
  Agg.ok_congr trLeaf trNode trGood (fun _ => True) t (fun k _ => h k) hc

/-! ### `Server.put` / `Server.remove` with the message they send up -/

theorem serverPut_tree' {c c' : Cell} {aid sid : Nat} {l0 : Bool}
    (h : serverPut c aid sid l0 = .ok (c', true)) :
    ∃ a s t1, c.app? aid = some a ∧ c.srv? sid = some s ∧
      treeAff c.tree sid false [(a.aff, 1)] 1 = some t1 ∧
      treeCap c'.srvs t1 sid false (.down (some s.free)) = some c'.tree := by
  simp only [serverPut, bind_ok, orAbort_ok] at h
  obtain ⟨a, ha, s, hs, h⟩ := h
  split at h
  · simp only [throw_bind, throw_ne_ok] at h
  · split at h
    · simp only [throw_bind, throw_ne_ok] at h
    · simp only [bind_ok, orAbort_ok] at h
      obtain ⟨anc, hanc, h⟩ := h
      split at h
      · simp only [pure_ok, Prod.mk.injEq] at h
        exact absurd h.2 (by simp)
      · simp only [bind_ok, pure_ok, orAbort_ok, Prod.mk.injEq] at h
        obtain ⟨t1, h1, t2, h2, rfl, _⟩ := h
        exact ⟨a, s, t1, ha, hs, h1, h2⟩

theorem serverRemove_tree' {c c' : Cell} {sid aid : Nat} (h : serverRemove c sid aid = .ok c') :
    ∃ a s t1, c.app? aid = some a ∧ c.srv? sid = some s ∧
      treeAff c.tree sid false [(a.aff, 1)] (-1) = some t1 ∧
      treeCap c'.srvs t1 sid false (.up (s.free + a.demand)) = some c'.tree := by
  simp only [serverRemove, bind_ok, orAbort_ok] at h
  obtain ⟨s, hs, h⟩ := h
  split at h
  · simp only [throw_bind, throw_ne_ok] at h
  · simp only [bind_ok, pure_ok, orAbort_ok] at h
    obtain ⟨a, ha, t1, h1, t2, h2, rfl⟩ := h
    exact ⟨a, s, t1, ha, hs, h1, h2⟩

/-! ### primitive transitions -/

theorem notLeafAt_false (t : Tree) (target : Nat) : NotLeafAt t target false := by
  intro h; cases h

theorem childView_leaf_of (srvs : List Srv) {k : Nat} {s : Srv} (h : srvs.find? (fun x => x.id = k) = some s) :
    childView srvs (.leaf k) = (decide (s.state = .up), s.free) := by
  simp only [childView, h]

theorem aggOk_put {c c' : Cell} {aid sid : Nat} {l0 b : Bool} (hall : AffAll c) (hc : AggOk c)
    (h : serverPut c aid sid l0 = .ok (c', b)) : AggOk c' := by
  rcases serverPut_shape h with ⟨_, rfl⟩ | ⟨rfl, a, s, anc, ha, hs, _, _, _, _, _, hsrvs, _, _, _⟩
  · exact hc
  · obtain ⟨a2, s2, t1, ha2, hs2, h1, h2⟩ := serverPut_tree' h
    rw [ha] at ha2; cases ha2
    rw [hs] at hs2; cases hs2
    have hnd := hall.tree.names
    obtain ⟨n1, l1, _, _⟩ := treeAff_views hnd h1
    have hnd1 : t1.names.Nodup := by rw [n1]; exact hnd
    have hsm : s ∈ c.srvs := srv?_mem hs
    have hsid : s.id = sid := srv?_id hs
    have hleaf : sid ∈ t1.leaves := by rw [l1]; exact (hall.tree.leaves sid).mpr ⟨s, hsm, hsid⟩
    have hdem := hall.cap.demand a (app?_mem ha)
    refine ⟨?_, ?_, ?_⟩
    · -- capacity
      have hc1 : CapOk c.srvs t1 := treeAff_capOk hnd (notLeafAt_false _ _) h1 hc.cap
      refine treeCap_capOk hnd1 h2 hc1 ?_ ?_ (by intro e; cases e)
      · intro k _ hk
        rw [hsrvs]; exact childView_updSrv_ne (by show k ≠ s.id; rw [hsid]; exact hk)
      · intro _ tt htt
        rw [find?_leaf t1 sid hnd1 hleaf] at htt
        cases htt
        have hfind : c.srvs.find? (fun x => x.id = sid) = some s := hs
        have hfind' : c'.srvs.find? (fun x => x.id = sid) = some (putSrv s a) := by
          rw [hsrvs, find_updSrv, hfind]
          simp [putSrv]
        rw [childView_leaf_of _ hfind, childView_leaf_of _ hfind']
        intro hup
        refine ⟨hup, ?_⟩
        unfold Vec.nonneg at hdem
        unfold Vec.le putSrv
        simp only [Vec.sub_m, Vec.sub_c, Vec.sub_d]
        omega
    · have hl : ∀ k, labLeaf c'.srvs k = labLeaf c.srvs k := by
        intro k; rw [hsrvs]; exact labLeaf_updSrv (s' := putSrv s a) hsm hall.cap.srvIds rfl rfl k
      have hc1 : LabOk c.srvs t1 := treeAff_labOk hnd (notLeafAt_false _ _) h1 hc.lab
      exact labOk_congr hl (treeCap_labOk hnd1 (notLeafAt_false _ _) h2 hc1)
    · have hl : ∀ k, trLeaf c'.srvs k = trLeaf c.srvs k := by
        intro k; rw [hsrvs]; exact trLeaf_updSrv (s' := putSrv s a) hsm hall.cap.srvIds rfl rfl k
      have hc1 : TrOk c.srvs t1 := treeAff_trOk hnd (notLeafAt_false _ _) h1 hc.tr
      exact trOk_congr hl (treeCap_trOk hnd1 (notLeafAt_false _ _) h2 hc1)

theorem aggOk_remove {c c' : Cell} {sid aid : Nat} (hall : AffAll c) (hc : AggOk c)
    (h : serverRemove c sid aid = .ok c') : AggOk c' := by
  obtain ⟨a, s, ha, hs, _, _, hsrvs, _, _, _⟩ := serverRemove_shape h
  obtain ⟨a2, s2, t1, ha2, hs2, h1, h2⟩ := serverRemove_tree' h
  rw [ha] at ha2; cases ha2
  rw [hs] at hs2; cases hs2
  have hnd := hall.tree.names
  obtain ⟨n1, l1, _, _⟩ := treeAff_views hnd h1
  have hnd1 : t1.names.Nodup := by rw [n1]; exact hnd
  have hsm : s ∈ c.srvs := srv?_mem hs
  have hsid : s.id = sid := srv?_id hs
  have hleaf : sid ∈ t1.leaves := by rw [l1]; exact (hall.tree.leaves sid).mpr ⟨s, hsm, hsid⟩
  refine ⟨?_, ?_, ?_⟩
  · have hc1 : CapOk c.srvs t1 := treeAff_capOk hnd (notLeafAt_false _ _) h1 hc.cap
    refine treeCap_capOk hnd1 h2 hc1 ?_ ?_ (by intro e; cases e)
    · intro k _ hk
      rw [hsrvs]; exact childView_updSrv_ne (by show k ≠ s.id; rw [hsid]; exact hk)
    · intro _ tt htt
      rw [find?_leaf t1 sid hnd1 hleaf] at htt
      cases htt
      have hfind : c.srvs.find? (fun x => x.id = sid) = some s := hs
      have hfind' : c'.srvs.find? (fun x => x.id = sid) = some (removeSrv s a) := by
        rw [hsrvs, find_updSrv, hfind]
        simp [removeSrv]
      rw [childView_leaf_of _ hfind']
      intro _
      exact Vec.le_refl' _
  · have hl : ∀ k, labLeaf c'.srvs k = labLeaf c.srvs k := by
      intro k; rw [hsrvs]; exact labLeaf_updSrv (s' := removeSrv s a) hsm hall.cap.srvIds rfl rfl k
    have hc1 : LabOk c.srvs t1 := treeAff_labOk hnd (notLeafAt_false _ _) h1 hc.lab
    exact labOk_congr hl (treeCap_labOk hnd1 (notLeafAt_false _ _) h2 hc1)
  · have hl : ∀ k, trLeaf c'.srvs k = trLeaf c.srvs k := by
      intro k; rw [hsrvs]; exact trLeaf_updSrv (s' := removeSrv s a) hsm hall.cap.srvIds rfl rfl k
    have hc1 : TrOk c.srvs t1 := treeAff_trOk hnd (notLeafAt_false _ _) h1 hc.tr
    exact trOk_congr hl (treeCap_trOk hnd1 (notLeafAt_false _ _) h2 hc1)

theorem aggOk_ext {c c' : Cell} (hc : AggOk c) (ht : c'.tree = c.tree) (hs : c'.srvs = c.srvs) : AggOk c' := by
  obtain ⟨h1, h2, h3⟩ := hc
  exact ⟨by rw [ht, hs]; exact h1, by rw [ht, hs]; exact h2, by rw [ht, hs]; exact h3⟩

theorem aggOk_skel {c : Cell} {t : Tree} (hc : AggOk c) (hsk : t.skel = c.tree.skel) : AggOk { c with tree := t } := by
  refine ⟨?_, ?_, ?_⟩
  · exact Agg.ok_of_skel capLeaf capNode capGood capInv c.srvs (fun _ => rfl) (fun _ _ => Iff.rfl) (fun _ => Iff.rfl) hsk hc.cap
  · exact Agg.ok_of_skel labLeaf labNode labGood (fun _ => True) c.srvs (fun _ => rfl) (fun _ _ => Iff.rfl) (fun _ => Iff.rfl) hsk hc.lab
  · exact Agg.ok_of_skel trLeaf trNode trGood (fun _ => True) c.srvs (fun _ => rfl) (fun _ _ => Iff.rfl) (fun _ => Iff.rfl) hsk hc.tr

theorem release_tree_srvs {c c' : Cell} {aid : Nat} (h : releaseIdentity c aid = .ok c') :
    c'.tree = c.tree ∧ c'.srvs = c.srvs := by
  simp only [releaseIdentity, bind_ok, orAbort_ok] at h
  obtain ⟨a, ha, h⟩ := h
  split at h
  · simp only [bind_ok, orAbort_ok, pure_ok] at h
    obtain ⟨grp, _, rfl⟩ := h; exact ⟨rfl, rfl⟩
  · simp only [pure_ok] at h; subst h; exact ⟨rfl, rfl⟩

theorem acquire_tree_srvs {c c' : Cell} {aid : Nat} {ch ch' : List Nat} {b : Bool}
    (h : acquireIdentity c aid ch = .ok (c', b, ch')) : c'.tree = c.tree ∧ c'.srvs = c.srvs := by
  simp only [acquireIdentity, bind_ok, orAbort_ok] at h
  obtain ⟨a, ha, h⟩ := h
  split at h
  · simp only [pure_ok, Prod.mk.injEq] at h; obtain ⟨rfl, _⟩ := h; exact ⟨rfl, rfl⟩
  · split at h
    · simp only [pure_ok, Prod.mk.injEq] at h; obtain ⟨rfl, _⟩ := h; exact ⟨rfl, rfl⟩
    · simp only [bind_ok, orAbort_ok] at h
      obtain ⟨grp, _, h⟩ := h
      split at h
      · simp only [pure_ok, Prod.mk.injEq] at h; obtain ⟨rfl, _⟩ := h; exact ⟨rfl, rfl⟩
      · split at h
        · simp only [throw_ne_ok] at h
        · split at h
          · simp only [throw_bind, throw_ne_ok] at h
          · simp only [pure_ok, Prod.mk.injEq] at h
            obtain ⟨rfl, _⟩ := h; exact ⟨rfl, rfl⟩

/-- Every primitive transition keeps the aggregates sound. -/
theorem aggOk_lprim {c c' : Cell} {lab : Lab} (hall : AffAll c) (hc : AggOk c) (hp : LPrim lab c c') : AggOk c' := by
  cases hp with
  | put h => exact aggOk_put hall hc h
  | remove h => exact aggOk_remove hall hc h
  | release h => obtain ⟨e1, e2⟩ := release_tree_srvs h; exact aggOk_ext hc e1 e2
  | acquire h => obtain ⟨e1, e2⟩ := acquire_tree_srvs h; exact aggOk_ext hc e1 e2
  | appMeta _ _ _ _ _ _ _ _ _ _ _ _ _ _ _ _ _ _ => exact aggOk_ext hc rfl rfl
  | setRenew _ => exact aggOk_ext hc rfl rfl
  | ghost _ => exact aggOk_ext hc rfl rfl
  | dropDangling _ _ _ => exact aggOk_ext hc rfl rfl
  | forgetIdentity _ _ _ _ _ => exact aggOk_ext hc rfl rfl
  | tree hsk _ => exact aggOk_skel hc hsk
  | clearEv => exact aggOk_ext hc rfl rfl

theorem aggOk_reach {c c' : Cell} (hall : AffAll c) (hc : AggOk c) (h : Reach c c') : AggOk c' := by
  induction h with
  | refl => exact hc
  | step r p ih =>
    obtain ⟨lab, p⟩ := p
    exact aggOk_lprim (affAll_reach hall r) ih p

end TmVerif.Sched
