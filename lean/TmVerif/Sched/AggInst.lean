/-
  C02 — the three aggregates as instances of the generic theorem (AggGen.lean):
  free capacity, partition labels, traits.
-/
import TmVerif.Sched.AggGen
import TmVerif.Sched.AggCap

namespace TmVerif.Sched

/-! ### free capacity -/

def capLeaf (srvs : List Srv) (k : Nat) : Bool × Vec := childView srvs (.leaf k)
def capNode (b : Bkt) : Bool × Vec := (true, b.free)
def capGood (b : Bkt) (v : Bool × Vec) : Prop := v.1 = true → v.2.le b.free
def capInv (b : Bkt) : Prop := b.free.nonneg

/-- Every bucket's free-capacity aggregate is non-negative and bounds every up server / every bucket
    directly below it. -/
def CapOk (srvs : List Srv) (t : Tree) : Prop := Agg.Ok capLeaf capNode capGood capInv srvs t

theorem capView_eq (srvs : List Srv) (t : Tree) : Agg.view capLeaf capNode srvs t = childView srvs t := by
  cases t <;> rfl

theorem cap_hstep (srvs' : List Srv) (b : Bkt) (cs : List (Option Tree)) (m : CapMsg) (hinv : capInv b)
    (hk : ∀ t, some t ∈ cs → capGood b (Agg.view capLeaf capNode srvs' t) ∨
      ∃ ov, capGood b ov ∧ MsgIn m ov (Agg.view capLeaf capNode srvs' t)) :
    capInv (capStep srvs' b cs m).1 ∧ Agg.KidsOk capLeaf capNode capGood srvs' (capStep srvs' b cs m).1 cs ∧
    MsgIn (capStep srvs' b cs m).2 (capNode b) (capNode (capStep srvs' b cs m).1) := by
  obtain ⟨r1, r2, r3⟩ := capStep_ok srvs' b cs m hinv (by
    intro t ht hup
    rcases hk t ht with h | ⟨ov, h1, h2⟩
    · left; rw [capView_eq] at h; exact h hup
    · right; rw [capView_eq] at h2; exact ⟨ov, h1, h2⟩)
  refine ⟨r1, ?_, r3⟩
  intro t ht
  rw [capView_eq]
  exact r2 t ht

theorem capStep_id (srvs : List Srv) (b : Bkt) (cs : List (Option Tree)) (m : CapMsg) :
    (capStep srvs b cs m).1.id = b.id := by
  cases m with
  | stop => rfl
  | up v => rfl
  | down prev => simp only [capStep]; (repeat' split) <;> rfl

/-- **Capacity propagation keeps `CapOk`.** -/
theorem treeCap_capOk {srvs srvs' : List Srv} {t t' : Tree} {target : Nat} {incl : Bool} {m : CapMsg}
    (hnd : t.names.Nodup) (h : treeCap srvs' t target incl m = some t') (hc : CapOk srvs t)
    (hag : ∀ k ∈ t.leaves, k ≠ target → childView srvs' (.leaf k) = childView srvs (.leaf k))
    (hcon : incl = false → ∀ tt, t.find? target = some tt → MsgIn m (childView srvs tt) (childView srvs' tt))
    (hincl : incl = true → (∀ k ∈ t.leaves, childView srvs' (.leaf k) = childView srvs (.leaf k)) ∧
      ∀ s, t.find? target ≠ some (.leaf s)) :
    CapOk srvs' t' := by
  unfold treeCap at h
  cases hb : t.bubble (capStep srvs') incl target m with
  | none => rw [hb] at h; cases h
  | some r =>
    rw [hb] at h
    simp only [Option.map_some, Option.some.injEq] at h
    subst h
    exact (Agg.bubble_ok capLeaf capNode capGood capInv MsgIn (capStep srvs') srvs srvs' incl (fun _ _ _ => True)
      (capStep_id srvs') (fun b cs m _ hi _ _ _ hk => cap_hstep srvs' b cs m hi hk)
      t target m r.1 r.2 hnd hb hc hag
      (fun hi tt htt => by rw [capView_eq, capView_eq]; exact hcon hi tt htt)
      (fun hi => ⟨(hincl hi).1, (hincl hi).2, fun _ _ _ => trivial⟩)).1

/-! ### steps that do not touch the relevant field keep any aggregate -/

section Same
variable {V M : Type} (leafView : List Srv → Nat → V) (nodeView : Bkt → V)
  (good : Bkt → V → Prop) (inv : Bkt → Prop) (step : Bkt → List (Option Tree) → M → Bkt × M)

theorem Agg.bubble_same (srvs : List Srv) (incl : Bool)
    (hid : ∀ b cs m, (step b cs m).1.id = b.id)
    (hinv : ∀ b cs m, inv b → inv (step b cs m).1)
    (hgood : ∀ b cs m v, good b v → good (step b cs m).1 v)
    (hnode : ∀ b cs m, nodeView (step b cs m).1 = nodeView b)
    {t t' : Tree} {target : Nat} {m m' : M} (hnd : t.names.Nodup)
    (hnl : incl = true → ∀ s, t.find? target ≠ some (.leaf s))
    (h : t.bubble step incl target m = some (t', m')) (hc : Agg.Ok leafView nodeView good inv srvs t) :
    Agg.Ok leafView nodeView good inv srvs t' := by
  refine (Agg.bubble_ok leafView nodeView good inv (fun (_ : M) ov nv => nv = ov) step srvs srvs incl
    (fun _ _ _ => True) hid ?_ t target m t' m' hnd h hc (fun _ _ _ => rfl)
    (fun _ _ _ => rfl) (fun hi => ⟨fun _ _ => rfl, hnl hi, fun _ _ _ => trivial⟩)).1
  intro b cs m _ hi _ _ _ hk
  refine ⟨hinv b cs m hi, ?_, hnode b cs m⟩
  intro tc htc
  rcases hk tc htc with h1 | ⟨ov, h1, h2⟩
  · exact hgood b cs m _ h1
  · rw [h2]; exact hgood b cs m _ h1
end Same

/-! ### partition labels -/

def labLeaf (srvs : List Srv) (k : Nat) : List Nat :=
  match srvs.find? (fun s => s.id = k) with
  | some s => [s.label]
  | none => []
def labNode (b : Bkt) : List Nat := b.labels
def labGood (b : Bkt) (v : List Nat) : Prop := ∀ x ∈ v, x ∈ b.labels
def LabMsgIn (ls : List Nat) (_ov nv : List Nat) : Prop := ∀ x ∈ nv, x ∈ ls

/-- Every bucket's label set contains the labels of everything directly below it. -/
def LabOk (srvs : List Srv) (t : Tree) : Prop := Agg.Ok labLeaf labNode labGood (fun _ => True) srvs t

theorem labelUnion_mem (b : List Nat) : ∀ (a : List Nat) (x : Nat), x ∈ labelUnion a b ↔ x ∈ a ∨ x ∈ b := by
  induction b with
  | nil => intro a x; simp [labelUnion]
  | cons y t ih =>
    intro a x
    have hstep : labelUnion a (y :: t) = labelUnion (if a.contains y then a else a ++ [y]) t := rfl
    rw [hstep, ih]
    by_cases hy : a.contains y = true
    · simp only [hy, ↓reduceIte, List.mem_cons]
      constructor
      · rintro (h | h)
        · exact Or.inl h
        · exact Or.inr (Or.inr h)
      · rintro (h | h | h)
        · exact Or.inl h
        · left; rw [h]; simpa using hy
        · exact Or.inr h
    · simp only [hy, Bool.false_eq_true, ↓reduceIte, List.mem_append, List.mem_cons, List.not_mem_nil, or_false]
      constructor
      · rintro ((h | h) | h)
        · exact Or.inl h
        · exact Or.inr (Or.inl h)
        · exact Or.inr (Or.inr h)
      · rintro (h | h | h)
        · exact Or.inl (Or.inl h)
        · exact Or.inl (Or.inr h)
        · exact Or.inr h

theorem treeLabels_labOk {srvs srvs' : List Srv} {t t' : Tree} {target : Nat} {incl : Bool} {ls : List Nat}
    (hnd : t.names.Nodup) (h : treeLabels t target incl ls = some t') (hc : LabOk srvs t)
    (hag : ∀ k ∈ t.leaves, k ≠ target → labLeaf srvs' k = labLeaf srvs k)
    (hcon : incl = false → ∀ tt, t.find? target = some tt → ∀ x ∈ Agg.view labLeaf labNode srvs' tt, x ∈ ls)
    (hincl : incl = true → (∀ k ∈ t.leaves, labLeaf srvs' k = labLeaf srvs k) ∧ ∀ s, t.find? target ≠ some (.leaf s)) :
    LabOk srvs' t' := by
  unfold treeLabels at h
  cases hb : t.bubble labelStep incl target ls with
  | none => rw [hb] at h; cases h
  | some r =>
    rw [hb] at h
    simp only [Option.map_some, Option.some.injEq] at h
    subst h
    refine (Agg.bubble_ok labLeaf labNode labGood (fun _ => True) LabMsgIn labelStep srvs srvs' incl
      (fun _ _ _ => True) (fun _ _ _ => rfl) ?_ t target ls r.1 r.2 hnd hb hc hag
      (fun hi tt htt => hcon hi tt htt)
      (fun hi => ⟨(hincl hi).1, (hincl hi).2, fun _ _ _ => trivial⟩)).1
    intro b cs m _ _ _ _ _ hk
    refine ⟨trivial, ?_, ?_⟩
    · intro tc htc x hx
      show x ∈ labelUnion b.labels m
      rw [labelUnion_mem]
      rcases hk tc htc with h1 | ⟨_, _, h2⟩
      · exact Or.inl (h1 x hx)
      · exact Or.inr (h2 x hx)
    · intro x hx; exact hx

/-! ### traits -/

def trLeaf (srvs : List Srv) (k : Nat) : Nat × Nat :=
  (k, match srvs.find? (fun s => s.id = k) with
      | some s => s.traits
      | none => 0)
def trNode (b : Bkt) : Nat × Nat := (b.id, b.traits)
def trGood (b : Bkt) (v : Nat × Nat) : Prop := v.2 = 0 ∨ v ∈ b.childTraits
def TrMsgIn : TraitMsg → Nat × Nat → Nat × Nat → Prop
  | .set k v, ov, nv => nv = (k, v) ∧ ov.1 = k
  | .erase _, _, _ => False
def trPre (_b : Bkt) (cs : List (Option Tree)) : TraitMsg → Prop
  | .erase k => ∀ t, some t ∈ cs → t.id ≠ k
  | .set _ _ => False

/-- Every bucket records, for each child, exactly the traits of that child (a server's own traits, a
    bucket's aggregated traits). -/
def TrOk (srvs : List Srv) (t : Tree) : Prop := Agg.Ok trLeaf trNode trGood (fun _ => True) srvs t

theorem trView_fst (srvs : List Srv) (t : Tree) : (Agg.view trLeaf trNode srvs t).1 = t.id := by
  cases t <;> rfl

theorem id_mem_namesL : ∀ (cs : List (Option Tree)) (tt : Tree), some tt ∈ cs → tt.id ∈ Tree.namesL cs
  | [], _, h => by cases h
  | none :: r, tt, h => by
    simp only [Tree.namesL]
    rcases List.mem_cons.mp h with e | h'
    · cases e
    · exact id_mem_namesL r tt h'
  | some t :: r, tt, h => by
    simp only [Tree.namesL, List.mem_append]
    rcases List.mem_cons.mp h with e | h'
    · simp only [Option.some.injEq] at e; subst e; exact Or.inl (Tree.id_mem_names tt)
    · exact Or.inr (id_mem_namesL r tt h')

/-- Two children with the same id are the same child. -/
theorem child_unique : ∀ (cs : List (Option Tree)), (Tree.namesL cs).Nodup →
    ∀ t1 t2, some t1 ∈ cs → some t2 ∈ cs → t1.id = t2.id → t1 = t2
  | [], _, _, _, h, _, _ => by cases h
  | none :: r, hnd, t1, t2, h1, h2, e => by
    simp only [Tree.namesL] at hnd
    rcases List.mem_cons.mp h1 with e1 | h1'
    · cases e1
    · rcases List.mem_cons.mp h2 with e2 | h2'
      · cases e2
      · exact child_unique r hnd t1 t2 h1' h2' e
  | some t :: r, hnd, t1, t2, h1, h2, e => by
    simp only [Tree.namesL] at hnd
    have hnd' := List.nodup_append.mp hnd
    rcases List.mem_cons.mp h1 with e1 | h1'
    · simp only [Option.some.injEq] at e1
      rcases List.mem_cons.mp h2 with e2 | h2'
      · simp only [Option.some.injEq] at e2; rw [e1, e2]
      · subst e1
        exact absurd e (hnd'.2.2 _ (Tree.id_mem_names t1) _ (id_mem_namesL r t2 h2'))
    · rcases List.mem_cons.mp h2 with e2 | h2'
      · simp only [Option.some.injEq] at e2; subst e2
        exact absurd e.symm (hnd'.2.2 _ (Tree.id_mem_names t2) _ (id_mem_namesL r t1 h1'))
      · exact child_unique r hnd'.2.1 t1 t2 h1' h2' e

theorem treeTraits_trOk {srvs srvs' : List Srv} {t t' : Tree} {target : Nat} {incl : Bool} {m : TraitMsg}
    (hnd : t.names.Nodup) (h : treeTraits t target incl m = some t') (hc : TrOk srvs t)
    (hag : ∀ k ∈ t.leaves, k ≠ target → trLeaf srvs' k = trLeaf srvs k)
    (hcon : incl = false → ∀ tt, t.find? target = some tt →
      TrMsgIn m (Agg.view trLeaf trNode srvs tt) (Agg.view trLeaf trNode srvs' tt))
    (hincl : incl = true → (∀ k ∈ t.leaves, trLeaf srvs' k = trLeaf srvs k) ∧ (∀ s, t.find? target ≠ some (.leaf s)) ∧
      ∀ b cs, t.find? target = some (.node b cs) → trPre b cs m) :
    TrOk srvs' t' := by
  unfold treeTraits at h
  cases hb : t.bubble traitStep incl target m with
  | none => rw [hb] at h; cases h
  | some r =>
    rw [hb] at h
    simp only [Option.map_some, Option.some.injEq] at h
    subst h
    refine (Agg.bubble_ok trLeaf trNode trGood (fun _ => True) TrMsgIn traitStep srvs srvs' incl
      trPre (fun b cs m => by cases m <;> rfl) ?_ t target m r.1 r.2 hnd hb hc hag hcon hincl).1
    intro b cs m onPath _ hndc hpre hB hk
    have hndc' : (Tree.namesL cs).Nodup := (List.nodup_cons.mp hndc).2
    cases m with
    | set k v =>
      -- a `.set` only ever arrives from the changed child below
      have hon : onPath = true := by
        cases onPath with
        | true => rfl
        | false => exact absurd (hpre rfl) (by simp [trPre])
      obtain ⟨tB, htB, ovB, _, hmB⟩ := hB hon
      simp only [TrMsgIn] at hmB
      refine ⟨trivial, ?_, ?_⟩
      · intro tc htc
        show (Agg.view trLeaf trNode srvs' tc).2 = 0 ∨ Agg.view trLeaf trNode srvs' tc ∈ setChildTraits b.childTraits k v
        simp only [setChildTraits, List.mem_append, List.mem_filter, List.mem_singleton, decide_eq_true_eq]
        rcases hk tc htc with (h0 | h1) | ⟨_, _, h2⟩
        · exact Or.inl h0
        · right
          by_cases hid : (Agg.view trLeaf trNode srvs' tc).1 = k
          · -- same id as the changed child: it is the changed child
            right
            have e1 : tc.id = tB.id := by
              rw [← trView_fst srvs' tc, hid, ← trView_fst srvs' tB, hmB.1]
            have : tc = tB := child_unique cs hndc' tc tB htc htB e1
            rw [this]; exact hmB.1
          · exact Or.inl ⟨h1, hid⟩
        · simp only [TrMsgIn] at h2; exact Or.inr (Or.inr h2.1)
      · exact ⟨rfl, rfl⟩
    | erase k =>
      have hoff : onPath = false := by
        cases onPath with
        | false => rfl
        | true =>
          obtain ⟨_, _, _, _, hm⟩ := hB rfl
          simp only [TrMsgIn] at hm
      have hp := hpre hoff
      simp only [trPre] at hp
      refine ⟨trivial, ?_, ?_⟩
      · intro tc htc
        show (Agg.view trLeaf trNode srvs' tc).2 = 0 ∨ Agg.view trLeaf trNode srvs' tc ∈ b.childTraits.filter (fun p => p.1 ≠ k)
        simp only [List.mem_filter, decide_eq_true_eq]
        rcases hk tc htc with (h0 | h1) | ⟨_, _, h2⟩
        · exact Or.inl h0
        · exact Or.inr ⟨h1, by rw [trView_fst]; exact hp tc htc⟩
        · simp only [TrMsgIn] at h2
      · exact ⟨rfl, rfl⟩

/-! ### bit-set inclusion of traits -/

theorem bits_sub_or (a b c : Nat) (h : a ||| b = b) : a ||| (b ||| c) = b ||| c := by
  apply Nat.eq_of_testBit_eq; intro i
  have := congrArg (fun n => n.testBit i) h
  simp only [Nat.testBit_or] at this ⊢
  cases ha : a.testBit i <;> cases hb : b.testBit i <;> cases hc : c.testBit i <;> simp_all

theorem bits_and_mono (a b w : Nat) (h : a ||| b = b) (hw : a &&& w = w) : b &&& w = w := by
  apply Nat.eq_of_testBit_eq; intro i
  have h1 := congrArg (fun n => n.testBit i) h
  have h2 := congrArg (fun n => n.testBit i) hw
  simp only [Nat.testBit_or, Nat.testBit_and] at h1 h2 ⊢
  cases ha : a.testBit i <;> cases hb : b.testBit i <;> cases hc : w.testBit i <;> simp_all

theorem bits_or_self (a b : Nat) : a ||| (b ||| a) = b ||| a := by
  apply Nat.eq_of_testBit_eq; intro i
  simp only [Nat.testBit_or]
  cases a.testBit i <;> cases b.testBit i <;> rfl

/-- An entry of the child-traits map is included in the bucket's aggregated traits. -/
theorem entry_sub_traits (l : List (Nat × Nat)) : ∀ (s0 : Nat) (e : Nat × Nat), e ∈ l →
    e.2 ||| l.foldl (fun acc p => acc ||| p.2) s0 = l.foldl (fun acc p => acc ||| p.2) s0 := by
  induction l with
  | nil => intro _ _ h; cases h
  | cons p t ih =>
    intro s0 e he
    simp only [List.foldl_cons]
    rcases List.mem_cons.mp he with rfl | he
    · -- e contributes at the head; the rest only adds bits
      have mono : ∀ (l : List (Nat × Nat)) (x a : Nat), a ||| x = x →
          a ||| l.foldl (fun acc p => acc ||| p.2) x = l.foldl (fun acc p => acc ||| p.2) x := by
        intro l
        induction l with
        | nil => intro x a h; exact h
        | cons q r ihr =>
          intro x a h
          simp only [List.foldl_cons]
          exact ihr (x ||| q.2) a (bits_sub_or a x q.2 h)
      exact mono t (s0 ||| e.2) e.2 (bits_or_self e.2 s0)
    · exact ih _ e he

theorem hasTraits_mono {a b w : Nat} (h : a ||| b = b) (hw : hasTraits a w = true) : hasTraits b w = true := by
  simp only [hasTraits, Bool.or_eq_true, beq_iff_eq] at hw ⊢
  rcases hw with h0 | h1
  · exact Or.inl h0
  · exact Or.inr (bits_and_mono a b w h h1)

end TmVerif.Sched
