/-
  What no primitive transition of a cycle changes: the clock, allocation data, every server's
  static data / state / since, group counts, and the static part of every app record.
-/
import TmVerif.Sched.ReachCycle

namespace TmVerif.Sched

/-- The part of a server record no primitive changes. -/
structure SrvStat where
  id : Nat
  label : Nat
  traits : Nat
  state : SState
  since : Int
  validUntil : Int
  init : Vec
  deriving DecidableEq

def Srv.stat (s : Srv) : SrvStat := ⟨s.id, s.label, s.traits, s.state, s.since, s.validUntil, s.init⟩

/-- The part of an app record no primitive changes. -/
structure AppStat where
  id : Nat
  blacklisted : Bool
  retention : Option Int
  lease : Int
  group : Option Nat
  traits : Nat
  alloc : Nat
  demand : Vec
  aff : Nat
  limits : List (Nat × Nat)
  schedOnce : Bool
  prio : Int
  deriving DecidableEq

def App.stat (a : App) : AppStat :=
  ⟨a.id, a.blacklisted, a.retention, a.lease, a.group, a.traits, a.alloc, a.demand, a.aff, a.limits,
   a.schedOnce, a.prio⟩

/-- Cycle-constant view of a cell. -/
structure SameStatic (c c' : Cell) : Prop where
  now : c'.now = c.now
  allocs : c'.allocs = c.allocs
  srv : ∀ k, (c'.srv? k).map Srv.stat = (c.srv? k).map Srv.stat
  grp : ∀ g, (c'.grp? g).map (·.count) = (c.grp? g).map (·.count)
  app : ∀ x, (c'.app? x).map App.stat = (c.app? x).map App.stat

theorem SameStatic.refl (c : Cell) : SameStatic c c := ⟨rfl, rfl, fun _ => rfl, fun _ => rfl, fun _ => rfl⟩

theorem SameStatic.trans {a b c : Cell} (h1 : SameStatic a b) (h2 : SameStatic b c) : SameStatic a c :=
  ⟨by rw [h2.now, h1.now], by rw [h2.allocs, h1.allocs], fun k => by rw [h2.srv, h1.srv],
   fun g => by rw [h2.grp, h1.grp], fun x => by rw [h2.app, h1.app]⟩

/-- Replacing an app record by one with the same static part. -/
theorem sameStatic_setApp {c : Cell} {a a' : App} (ha : c.app? a'.id = some a) (hs : a'.stat = a.stat) :
    SameStatic c (c.setApp a') := by
  refine ⟨rfl, rfl, fun _ => rfl, fun _ => rfl, ?_⟩
  intro x
  rw [app?_setApp]
  cases hx : c.app? x with
  | none => rfl
  | some y =>
    simp only [Option.map_some, Option.some.injEq]
    by_cases e : y.id = a'.id
    · rw [if_pos e]
      have : x = a'.id := by rw [← app?_id hx, e]
      subst this
      rw [ha] at hx; cases hx; exact hs
    · rw [if_neg e]

theorem sameStatic_of_apps {c c' : Cell} {a a' : App} (happs : c'.apps = updApp c.apps a')
    (hsrvs : c'.srvs = c.srvs) (hg : c'.groups = c.groups) (hal : c'.allocs = c.allocs) (hn : c'.now = c.now)
    (ha : c.app? a'.id = some a) (hs : a'.stat = a.stat) : SameStatic c c' := by
  have h0 := sameStatic_setApp ha hs
  refine ⟨hn, hal, ?_, ?_, ?_⟩
  · intro k; unfold Cell.srv?; rw [hsrvs]
  · intro g; unfold Cell.grp?; rw [hg]
  · intro x
    have : c'.app? x = (c.setApp a').app? x := by unfold Cell.app? Cell.setApp; rw [happs]
    rw [this]; exact h0.app x

/-- Server table updated at one id by a record with the same static part. -/
theorem srvStat_upd {c c' : Cell} {s s' : Srv} {sid : Nat} (hs : c.srv? sid = some s)
    (hsrvs : c'.srvs = updSrv c.srvs s') (hid : s'.id = s.id) (hst : s'.stat = s.stat) :
    ∀ k, (c'.srv? k).map Srv.stat = (c.srv? k).map Srv.stat := by
  intro k
  rw [srv?_of_srvs hsrvs]
  cases hk : c.srv? k with
  | none => rfl
  | some y =>
    simp only [Option.map_some, Option.some.injEq]
    by_cases e : y.id = s'.id
    · rw [if_pos e]
      have : k = sid := by rw [← srv?_id hk, e, hid, srv?_id hs]
      subst this
      rw [hs] at hk; cases hk; exact hst
    · rw [if_neg e]

theorem sameStatic_put {c c' : Cell} {aid sid : Nat} {l0 b : Bool} (h : serverPut c aid sid l0 = .ok (c', b)) :
    SameStatic c c' := by
  rcases serverPut_shape h with ⟨_, rfl⟩ | ⟨_, a, s, anc, ha, hs, _, _, _, _, happs, hsrvs, hg, hal, hn⟩
  · exact .refl _
  · have hid : (putRec c a sid l0).id = aid := (app?_id ha : a.id = aid)
    refine ⟨hn, hal, srvStat_upd hs hsrvs rfl rfl, ?_, ?_⟩
    · intro g; unfold Cell.grp?; rw [hg]
    · intro x
      have h0 := sameStatic_setApp (c := c) (a := a) (a' := putRec c a sid l0) (by rw [hid]; exact ha) rfl
      have : c'.app? x = (c.setApp (putRec c a sid l0)).app? x := by unfold Cell.app? Cell.setApp; rw [happs]
      rw [this]; exact h0.app x

theorem sameStatic_remove {c c' : Cell} {sid aid : Nat} (h : serverRemove c sid aid = .ok c') :
    SameStatic c c' := by
  obtain ⟨a, s, ha, hs, _, happs, hsrvs, hg, hal, hn⟩ := serverRemove_shape h
  have hid : (removeRec a).id = aid := (app?_id ha : a.id = aid)
  refine ⟨hn, hal, srvStat_upd hs hsrvs rfl rfl, ?_, ?_⟩
  · intro g; unfold Cell.grp?; rw [hg]
  · intro x
    have h0 := sameStatic_setApp (c := c) (a := a) (a' := removeRec a) (by rw [hid]; exact ha) rfl
    have : c'.app? x = (c.setApp (removeRec a)).app? x := by unfold Cell.app? Cell.setApp; rw [happs]
    rw [this]; exact h0.app x

theorem grpCount_setGrp {c : Cell} {grp grp' : Grp} {g : Nat} (hg : c.grp? g = some grp) (hid : grp'.id = grp.id)
    (hc : grp'.count = grp.count) : ∀ k, ((c.setGrp grp').grp? k).map (·.count) = (c.grp? k).map (·.count) := by
  intro k
  rw [grp?_setGrp]
  cases hk : c.grp? k with
  | none => rfl
  | some y =>
    simp only [Option.map_some, Option.some.injEq]
    by_cases e : y.id = grp'.id
    · rw [if_pos e]
      have hyid : y.id = k := by
        unfold Cell.grp? at hk; have := List.find?_some hk; simpa using this
      have hgid : grp.id = g := by
        unfold Cell.grp? at hg; have := List.find?_some hg; simpa using this
      have : k = g := by rw [← hyid, e, hid, hgid]
      subst this
      rw [hg] at hk; cases hk; exact hc
    · rw [if_neg e]

theorem sameStatic_release {c c' : Cell} {aid : Nat} (h : releaseIdentity c aid = .ok c') : SameStatic c c' := by
  simp only [releaseIdentity, bind_ok, orAbort_ok] at h
  obtain ⟨a, ha, h⟩ := h
  split at h
  · rename_i g k hg hk
    simp only [bind_ok, orAbort_ok, pure_ok] at h
    obtain ⟨grp, hgrp, rfl⟩ := h
    have hid := app?_id ha
    generalize hgrp' : (if k < grp.count then { grp with avail := listAdd grp.avail k } else grp) = grp'
    have hgid' : grp'.id = grp.id := by rw [← hgrp']; split <;> rfl
    have hcnt' : grp'.count = grp.count := by rw [← hgrp']; split <;> rfl
    have h1 : SameStatic c (c.setGrp grp') :=
      ⟨rfl, rfl, fun _ => rfl, grpCount_setGrp hgrp hgid' hcnt', fun _ => rfl⟩
    have ha' : (c.setGrp grp').app? ({ a with identity := none } : App).id = some a := by
      show c.app? a.id = some a; rw [hid]; exact ha
    exact h1.trans (sameStatic_setApp ha' rfl)
  · simp only [pure_ok] at h; subst h; exact .refl c

theorem sameStatic_acquire {c c' : Cell} {aid : Nat} {ch ch' : List Nat} {b : Bool}
    (h : acquireIdentity c aid ch = .ok (c', b, ch')) : SameStatic c c' := by
  simp only [acquireIdentity, bind_ok, orAbort_ok] at h
  obtain ⟨a, ha, h⟩ := h
  split at h
  · simp only [pure_ok, Prod.mk.injEq] at h
    obtain ⟨rfl, _⟩ := h; exact .refl c
  · split at h
    · simp only [pure_ok, Prod.mk.injEq] at h
      obtain ⟨rfl, _⟩ := h; exact .refl c
    · simp only [bind_ok, orAbort_ok] at h
      obtain ⟨grp, hgrp, h⟩ := h
      split at h
      · simp only [pure_ok, Prod.mk.injEq] at h
        obtain ⟨rfl, _⟩ := h; exact .refl c
      · split at h
        · simp only [throw_ne_ok] at h
        · rename_i k rest
          split at h
          · simp only [throw_bind, throw_ne_ok] at h
          · simp only [pure_ok, Prod.mk.injEq] at h
            obtain ⟨rfl, _⟩ := h
            have hid := app?_id ha
            have h1 : SameStatic c (c.setGrp { grp with avail := grp.avail.filter (· ≠ k) }) :=
              ⟨rfl, rfl, fun _ => rfl, grpCount_setGrp hgrp rfl rfl, fun _ => rfl⟩
            have ha' : (c.setGrp { grp with avail := grp.avail.filter (· ≠ k) }).app?
                ({ a with identity := some k } : App).id = some a := by
              show c.app? a.id = some a; rw [hid]; exact ha
            exact h1.trans (sameStatic_setApp ha' rfl)

theorem find?_map_id (l : List App) (f : App → App) (hid : ∀ a, (f a).id = a.id) (k : Nat) :
    (l.map f).find? (fun y => y.id = k) = (l.find? (fun y => y.id = k)).map f := by
  induction l with
  | nil => rfl
  | cons a t ih =>
    simp only [List.map_cons, List.find?_cons, hid]
    by_cases e : a.id = k
    · simp [e]
    · simp only [e, decide_false]; exact ih

/-- Every primitive keeps the static view. -/
theorem sameStatic_lprim {c c' : Cell} {lab : Lab} (hp : LPrim lab c c') : SameStatic c c' := by
  cases hp with
  | put h => exact sameStatic_put h
  | remove h => exact sameStatic_remove h
  | release h => exact sameStatic_release h
  | acquire h => exact sameStatic_acquire h
  | appMeta ha hid _ _ hg hd haff hl ht hal hle hb hso hr hp _ _ _ =>
    refine sameStatic_setApp (by rw [hid]; exact ha) ?_
    simp only [App.stat, hid, hg, hd, haff, hl, ht, hal, hle, hb, hso, hr, hp]
  | setRenew ha => exact sameStatic_setApp ha rfl
  | ghost ha => exact sameStatic_setApp ha rfl
  | dropDangling ha _ _ => exact sameStatic_setApp ha rfl
  | forgetIdentity ha _ _ _ _ => exact sameStatic_setApp ha rfl
  | tree => exact ⟨rfl, rfl, fun _ => rfl, fun _ => rfl, fun _ => rfl⟩
  | clearEv =>
    refine ⟨rfl, rfl, fun _ => rfl, fun _ => rfl, ?_⟩
    intro x
    unfold Cell.app?
    simp only
    rw [find?_map_id c.apps (fun a => { a with evFrom := none }) (fun _ => rfl) x]
    cases c.apps.find? (fun y => y.id = x) <;> rfl

theorem sameStatic_lreach {P} {c c' : Cell} (h : LReach P c c') : SameStatic c c' := by
  induction h with
  | refl => exact .refl _
  | step _ p _ ih => exact ih.trans (sameStatic_lprim p)

theorem sameStatic_reach {c c' : Cell} (h : Reach c c') : SameStatic c c' := by
  induction h with
  | refl => exact .refl _
  | step _ p ih => obtain ⟨lab, p⟩ := p; exact ih.trans (sameStatic_lprim p)

end TmVerif.Sched
