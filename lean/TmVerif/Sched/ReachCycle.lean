/-
  The structure of a whole cycle: pre-passes (`PreOk` chain), then per partition a fresh
  `evicted` dict and the loop over the queue (`Loop`), each entry processed along a `PlaceOk`
  chain.  Also the unlabelled, unconditional `schedule_reach`.
-/
import TmVerif.Sched.ReachPlace2

namespace TmVerif.Sched

/-- The `for app in queue` loop: entry by entry. -/
inductive Loop (revq : List Nat) : List (Nat × Bool) → Cell → Cell → Prop
  | nil {c} : Loop revq [] c c
  | cons {q qs c c1 c2 a0} : c.app? q.1 = some a0 →
      LReach (PlaceOk a0 q.2 (revq.takeWhile (· ≠ q.1))) c c1 → Loop revq qs c1 c2 →
      (∃ st st' : PState, st.cell = c ∧ st'.cell = c1 ∧ placeOne revq st q = .ok st') →
      Loop revq (q :: qs) c c2

/-- `evicted = dict()` at the start of `_find_placements`. -/
def clearGhost (c : Cell) : Cell := { c with apps := c.apps.map (fun a => { a with evFrom := none }) }

/-- One `_find_placements` call per partition. -/
inductive Cycle : List (List (Nat × Bool)) → Cell → Cell → Prop
  | nil {c} : Cycle [] c c
  | cons {q qs c c1 c2} : Loop (q.map (·.1)).reverse q (clearGhost c) c1 → Cycle qs c1 c2 →
      Cycle (q :: qs) c c2

theorem Loop.toReach {revq qs c c'} (h : Loop revq qs c c') : Reach c c' := by
  induction h with
  | nil => exact .refl
  | cons _ r _ _ ih => exact r.toReach.trans ih

theorem Cycle.toReach {qs c c'} (h : Cycle qs c c') : Reach c c' := by
  induction h with
  | nil => exact .refl
  | cons l _ ih => exact ((Reach.single ⟨_, .clearEv⟩).trans l.toReach).trans ih

theorem placeLoop {revq : List Nat} : ∀ (l : List (Nat × Bool)) (s s' : PState),
    l.foldlM (placeOne revq) s = .ok s' → Loop revq l s.cell s'.cell := by
  intro l
  induction l with
  | nil => intro s s' h; simp [List.foldlM, pure_ok] at h; subst h; exact .nil
  | cons x xs ih =>
    intro s s' h
    simp only [List.foldlM, bind_ok] at h
    obtain ⟨s1, h1, h2⟩ := h
    have hx : ∃ a0, s.cell.app? x.1 = some a0 := by
      simp only [placeOne, bind_ok, orAbort_ok] at h1
      obtain ⟨a, ha, _⟩ := h1
      exact ⟨a, ha⟩
    obtain ⟨a0, ha0⟩ := hx
    exact .cons ha0 (placeOne_lreach ha0 h1) (ih _ _ h2) ⟨s, s1, rfl, rfl, h1⟩

theorem findPlacements_loop {c c' q ch ch'} (h : findPlacements c q ch = .ok (c', ch')) :
    Loop (q.map (·.1)).reverse q (clearGhost c) c' := by
  simp only [findPlacements, bind_ok, pure_ok, Prod.mk.injEq] at h
  obtain ⟨st, hf, rfl, _⟩ := h
  exact placeLoop _ _ _ hf

theorem partitions_cycle : ∀ (l : List (List (Nat × Bool))) (p p' : Cell × List Nat),
    l.foldlM (fun (p : Cell × List Nat) q => findPlacements p.1 q p.2) p = .ok p' → Cycle l p.1 p'.1 := by
  intro l
  induction l with
  | nil => intro p p' h; simp [List.foldlM, pure_ok] at h; subst h; exact .nil
  | cons x xs ih =>
    intro p p' h
    simp only [List.foldlM, bind_ok] at h
    obtain ⟨⟨c3, ch3⟩, h1, h2⟩ := h
    exact .cons (findPlacements_loop h1) (ih _ _ h2)

/-- The structure of `Cell.schedule`. -/
theorem schedule_cycle {c c' qs ch} (hc : InvCap c) (h : schedule c qs ch = .ok c') :
    ∃ c1, LReach PreOk c c1 ∧ Cycle qs c1 c' := by
  simp only [schedule, bind_ok] at h
  obtain ⟨c1, hpre, ⟨c2, rest⟩, hf, h⟩ := h
  refine ⟨c1, prePasses_lreach hc hpre, ?_⟩
  have := partitions_cycle _ _ _ hf
  split at h
  · simp only [throw_bind, throw_ne_ok] at h
  · simp only [pure_ok] at h; subst h; exact this

/-! ### unconditional, unlabelled versions -/

theorem handleInactive_reach {c c' sid} (h : handleInactive c sid = .ok c') : Reach c c' := by
  simp only [handleInactive, bind_ok, orAbort_ok] at h
  obtain ⟨s, _, toMove, _, h⟩ := h
  have : LReach AnyLab c c' := by
    refine foldlM_lreach _ _ ?_ _ _ h
    intro c0 x c0' _ hx
    simp only [removeRelease, bind_ok] at hx
    obtain ⟨c1, h1, h2⟩ := hx
    exact (LReach.single (.remove h1) trivial).step (.release h2) trivial
  exact this.toReach

theorem prePasses_reach {c c'} (h : prePasses c = .ok c') : Reach c c' := by
  simp only [prePasses, bind_ok] at h
  obtain ⟨c1, h1, c2, h2, c3, h3, h4⟩ := h
  have r1 : LReach PreOk c c1 := foldlM_lreach _ _ (fun _ _ _ _ hx => fixInvalidPlacement_lreach hx) _ _ h1
  have r2 : Reach c1 c2 := by
    have key : ∀ (l : List Nat) (a b : Cell), l.foldlM handleInactive a = .ok b → Reach a b := by
      intro l
      induction l with
      | nil => intro a b h; simp [List.foldlM, pure_ok] at h; subst h; exact .refl
      | cons x xs ih =>
        intro a b h
        simp only [List.foldlM, bind_ok] at h
        obtain ⟨a1, hx, hrest⟩ := h
        exact (handleInactive_reach hx).trans (ih a1 b hrest)
    exact key _ _ _ h2
  have r3 : LReach PreOk c2 c3 := foldlM_lreach _ _ (fun _ _ _ _ hx => handleBlacklisted_lreach hx) _ _ h3
  have r4 : LReach PreOk c3 c' := foldlM_lreach _ _ (fun _ _ _ _ hx => fixInvalidIdentity_lreach hx) _ _ h4
  exact ((r1.toReach.trans r2).trans r3.toReach).trans r4.toReach

/-- A whole cycle only moves along primitive transitions. -/
theorem schedule_reach {c c' qs ch} (h : schedule c qs ch = .ok c') : Reach c c' := by
  simp only [schedule, bind_ok] at h
  obtain ⟨c1, hpre, ⟨c2, rest⟩, hf, h⟩ := h
  have r2 := (partitions_cycle _ _ _ hf).toReach
  split at h
  · simp only [throw_bind, throw_ne_ok] at h
  · simp only [pure_ok] at h; subst h; exact (prePasses_reach hpre).trans r2

theorem serverRemoveAll_reach {c c' sid} (h : serverRemoveAll c sid = .ok c') : Reach c c' :=
  (serverRemoveAll_lreach h).toReach

theorem serverRestore_reach {c c' aid sid exp b} (h : serverRestore c aid sid exp = .ok (c', b)) : Reach c c' :=
  (serverRestore_lreach h).toReach

end TmVerif.Sched
