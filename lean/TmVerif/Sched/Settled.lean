/-
  C05, end-of-cycle clauses: after its turn an app is "settled" — placed with an identity (if its
  group requires one), or unplaced without identity.
-/
import TmVerif.Sched.IdRange

namespace TmVerif.Sched

def SettledRec (a : App) : Prop :=
  (a.server.isSome = true → a.hasIdentity = true) ∧ (a.server = none → a.group.isSome = true → a.identity = none)

def Settled (c : Cell) (y : Nat) : Prop := ∀ a, c.app? y = some a → SettledRec a

/-- Labels that keep every app's identity and group. -/
def KeepsId : Lab → Prop
  | .release _ => False
  | .acquire _ _ => False
  | .forgetIdentity _ => False
  | _ => True

theorem lprim_keepsId {c c' : Cell} {lab : Lab} (hk : KeepsId lab) (hp : LPrim lab c c') (y : Nat) :
    ∀ a', c'.app? y = some a' → ∃ a, c.app? y = some a ∧ a'.identity = a.identity := by
  intro a' ha'
  obtain ⟨a, ha, hcase⟩ := lprim_identity hp y a' ha'
  refine ⟨a, ha, ?_⟩
  rcases hcase with e | e | ⟨k, g, grp, b, hl, e1, _, _, _⟩
  · exact e
  · -- identity dropped: only release / forgetIdentity do that... unless it was none already
    cases hp with
    | put h =>
      rcases serverPut_shape h with ⟨_, e2⟩ | ⟨_, a1, s1, anc, ha1, _, _, _, _, _, happs, _⟩
      · subst e2; rw [ha] at ha'; cases ha'; rfl
      · rw [app?_of_apps happs, ha] at ha'
        simp only [Option.map_some, Option.some.injEq] at ha'
        rw [← ha']
        split
        · rename_i e3
          have hy : y = a1.id := by rw [← app?_id ha, e3]; rfl
          have : c.app? a1.id = some a1 := by rw [app?_id ha1]; exact ha1
          rw [← hy, ha] at this; cases this; rfl
        · rfl
    | remove h =>
      obtain ⟨a1, s1, ha1, _, _, happs, _⟩ := serverRemove_shape h
      rw [app?_of_apps happs, ha] at ha'
      simp only [Option.map_some, Option.some.injEq] at ha'
      rw [← ha']
      split
      · rename_i e3
        have hy : y = a1.id := by rw [← app?_id ha, e3]; rfl
        have : c.app? a1.id = some a1 := by rw [app?_id ha1]; exact ha1
        rw [← hy, ha] at this; cases this; rfl
      · rfl
    | release h => simp only [KeepsId] at hk
    | acquire h => simp only [KeepsId] at hk
    | @appMeta _ a1 a1' ha1 hid _ hidn =>
      rcases setApp_cases ha ha' with e2 | e2
      · have hy : y = a1.id := by
          have h1 := app?_id ha'; rw [e2, hid] at h1; exact h1.symm
        subst hy; rw [ha] at ha1; cases ha1; rw [e2]; exact hidn
      · rw [e2]
    | @setRenew _ a1 b ha1 =>
      rcases setApp_cases ha ha' with e2 | e2
      · have hy : y = a1.id := by
          have h1 := app?_id ha'; rw [e2] at h1; exact h1.symm
        subst hy; rw [ha] at ha1; cases ha1; rw [e2]
      · rw [e2]
    | @ghost _ a1 v ha1 =>
      rcases setApp_cases ha ha' with e2 | e2
      · have hy : y = a1.id := by
          have h1 := app?_id ha'; rw [e2] at h1; exact h1.symm
        subst hy; rw [ha] at ha1; cases ha1; rw [e2]
      · rw [e2]
    | @dropDangling _ a1 sid ha1 =>
      rcases setApp_cases ha ha' with e2 | e2
      · have hy : y = a1.id := by
          have h1 := app?_id ha'; rw [e2] at h1; exact h1.symm
        subst hy; rw [ha] at ha1; cases ha1; rw [e2]
      · rw [e2]
    | forgetIdentity => simp only [KeepsId] at hk
    | tree => have : c.app? y = some a' := ha'; rw [ha] at this; cases this; rfl
    | clearEv =>
      have : ({ c with apps := c.apps.map (fun a => { a with evFrom := none }) } : Cell).app? y =
          (c.app? y).map (fun a => { a with evFrom := none }) := by
        unfold Cell.app?; exact find?_map_id c.apps (fun a : App => { a with evFrom := none }) (fun _ => rfl) y
      rw [this, ha] at ha'
      simp only [Option.map_some, Option.some.injEq] at ha'
      rw [← ha']
  · -- identity acquired: only `acquire` does that
    subst hl; simp only [KeepsId] at hk

/-- Along a chain of identity-keeping labels every app keeps its identity and its group. -/
theorem keepsId_chain {P : Cell → Lab → Prop} (hP : ∀ c lab, P c lab → KeepsId lab) {c c' : Cell}
    (h : LReach P c c') (y : Nat) :
    ∀ a', c'.app? y = some a' → ∃ a, c.app? y = some a ∧ a'.identity = a.identity ∧ a'.group = a.group := by
  induction h with
  | refl => intro a' ha'; exact ⟨a', ha', rfl, rfl⟩
  | step _ p hp ih =>
    intro a' ha'
    obtain ⟨am, ham, e1⟩ := lprim_keepsId (hP _ _ hp) p y a' ha'
    obtain ⟨am2, ham2, hst⟩ := app?_stat_of (sameStatic_lprim p) ha'
    rw [ham] at ham2; cases ham2
    obtain ⟨a, ha, e2, e3⟩ := ih am ham
    exact ⟨a, ha, by rw [e1, e2], by rw [← e3]; exact congrArg AppStat.group hst⟩

theorem noIdLab_keeps {lab : Lab} (h : NoIdLab lab) : KeepsId lab := by
  cases lab <;> simp only [NoIdLab, KeepsId] at h ⊢

end TmVerif.Sched

namespace TmVerif.Sched

/-- `release_identity`: server and group unchanged, and if the app has a group it holds nothing. -/
theorem release_post {c c' : Cell} {aid : Nat} (h : releaseIdentity c aid = .ok c') :
    ∀ a', c'.app? aid = some a' → ∃ a, c.app? aid = some a ∧ a'.server = a.server ∧ a'.group = a.group ∧
      (a'.group.isSome = true → a'.identity = none) := by
  simp only [releaseIdentity, bind_ok, orAbort_ok] at h
  obtain ⟨a, ha, h⟩ := h
  split at h
  · simp only [bind_ok, orAbort_ok, pure_ok] at h
    obtain ⟨grp, _, rfl⟩ := h
    intro a' ha'
    refine ⟨a, ha, ?_⟩
    have e : a' = { a with identity := none } := by
      refine setApp_self' (c := c) (a := a) ?_ ha ?_ ha'
      · rfl
      · exact (app?_id ha : a.id = aid)
    rw [e]; exact ⟨rfl, rfl, fun _ => rfl⟩
  · rename_i hno
    simp only [pure_ok] at h; subst h
    intro a' ha'
    rw [ha] at ha'; cases ha'
    refine ⟨a, ha, rfl, rfl, ?_⟩
    intro hg
    cases hi : a.identity with
    | none => rfl
    | some k =>
      obtain ⟨g, hg'⟩ := Option.isSome_iff_exists.mp hg
      exact absurd hi (by intro hi'; exact hno g k hg' hi')

/-- `acquire_identity`: server and group unchanged; success means the app has an identity (or needs
    none), failure means it needs one and holds none. -/
theorem acquire_post {c c' : Cell} {aid : Nat} {ch ch' : List Nat} {got : Bool}
    (h : acquireIdentity c aid ch = .ok (c', got, ch')) :
    ∀ a', c'.app? aid = some a' → ∃ a, c.app? aid = some a ∧ a'.server = a.server ∧ a'.group = a.group ∧
      (got = true → a'.hasIdentity = true) ∧ (got = false → a'.group.isSome = true ∧ a'.identity = none) := by
  simp only [acquireIdentity, bind_ok, orAbort_ok] at h
  obtain ⟨a, ha, h⟩ := h
  split at h
  · rename_i hg
    simp only [pure_ok, Prod.mk.injEq] at h
    obtain ⟨rfl, rfl, _⟩ := h
    intro a' ha'; rw [ha] at ha'; cases ha'
    exact ⟨a, ha, rfl, rfl, fun _ => by simp [App.hasIdentity, hg], fun e => by cases e⟩
  · rename_i g hg
    split at h
    · rename_i hsome
      simp only [pure_ok, Prod.mk.injEq] at h
      obtain ⟨rfl, rfl, _⟩ := h
      intro a' ha'; rw [ha] at ha'; cases ha'
      exact ⟨a, ha, rfl, rfl, fun _ => by simp [App.hasIdentity, hsome], fun e => by cases e⟩
    · rename_i hnone
      simp only [bind_ok, orAbort_ok] at h
      obtain ⟨grp, _, h⟩ := h
      split at h
      · simp only [pure_ok, Prod.mk.injEq] at h
        obtain ⟨rfl, rfl, _⟩ := h
        intro a' ha'; rw [ha] at ha'; cases ha'
        refine ⟨a, ha, rfl, rfl, (fun e => by cases e), fun _ => ⟨by simp [hg], ?_⟩⟩
        cases hi : a.identity with
        | none => rfl
        | some k => simp [hi] at hnone
      · split at h
        · simp only [throw_ne_ok] at h
        · rename_i k rest
          split at h
          · simp only [throw_bind, throw_ne_ok] at h
          · simp only [pure_ok, Prod.mk.injEq] at h
            obtain ⟨rfl, rfl, _⟩ := h
            intro a' ha'
            refine ⟨a, ha, ?_⟩
            have e : a' = { a with identity := some k } := by
              refine setApp_self' (c := c) (a := a) ?_ ha ?_ ha'
              · rfl
              · exact (app?_id ha : a.id = aid)
            rw [e]
            exact ⟨rfl, rfl, fun _ => by simp [App.hasIdentity], fun e => by cases e⟩

/-- `Server.restore` as used for evicted apps: identity and group untouched; `true` = placed. -/
theorem restoreEvicted_post {c c' : Cell} {aid : Nat} {done : Bool} (h : restoreEvicted c aid = .ok (c', done)) :
    ∀ a', c'.app? aid = some a' → ∃ a, c.app? aid = some a ∧ a'.identity = a.identity ∧ a'.group = a.group ∧
      (done = true → a'.server.isSome = true) := by
  -- identity/group: the chain consists of put + appMeta steps only
  intro a' ha'
  have hchain : LReach (fun _ lab => KeepsId lab) c c' := by
    simp only [restoreEvicted, bind_ok, orAbort_ok] at h
    obtain ⟨a2, ha2, h⟩ := h
    split at h
    · split at h
      · simp only [throw_ne_ok] at h
      · simp only [bind_ok, orAbort_ok] at h
        obtain ⟨⟨c3, rc⟩, hr, a3, ha3, h⟩ := h
        have r2 : LReach (fun _ lab => KeepsId lab) c c3 :=
          serverRestore_lreachP hr (by simp [KeepsId]) (fun _ => by simp [KeepsId])
        cases rc with
        | true =>
          simp only [↓reduceIte, pure_ok, Prod.mk.injEq] at h
          obtain ⟨rfl, _⟩ := h
          exact r2.step (setMeta_lprim ha3 rfl rfl rfl rfl rfl rfl rfl rfl rfl rfl rfl rfl rfl rfl rfl rfl (Or.inr rfl))
            (by simp [KeepsId])
        | false =>
          simp only [Bool.false_eq_true, ↓reduceIte, pure_ok, Prod.mk.injEq] at h
          obtain ⟨rfl, _⟩ := h
          exact r2.step (setMeta_lprim ha3 rfl rfl rfl rfl rfl rfl rfl rfl rfl rfl rfl rfl rfl rfl rfl rfl (Or.inr rfl))
            (by simp [KeepsId])
    · simp only [pure_ok, Prod.mk.injEq] at h
      obtain ⟨rfl, _⟩ := h; exact .refl
  obtain ⟨a, ha, e1, e2⟩ := keepsId_chain (fun _ _ h => h) hchain aid a' ha'
  refine ⟨a, ha, e1, e2, ?_⟩
  intro hd
  subst hd
  -- done = true: the put succeeded
  simp only [restoreEvicted, bind_ok, orAbort_ok] at h
  obtain ⟨a2, ha2, h⟩ := h
  split at h
  · split at h
    · simp only [throw_ne_ok] at h
    · simp only [bind_ok, orAbort_ok] at h
      obtain ⟨⟨c3, rc⟩, hr, a3, ha3, h⟩ := h
      cases rc with
      | false => simp only [Bool.false_eq_true, ↓reduceIte, pure_ok, Prod.mk.injEq] at h; obtain ⟨_, hb⟩ := h; cases hb
      | true =>
        simp only [↓reduceIte, pure_ok, Prod.mk.injEq] at h
        obtain ⟨rfl, _⟩ := h
        -- a3 is placed: serverRestore with rc = true
        simp only [serverRestore, bind_ok, orAbort_ok, pure_ok] at hr
        obtain ⟨a0, _, ⟨c1, rc1⟩, hput, a1, ha1, hr⟩ := hr
        simp only [Prod.mk.injEq] at hr
        obtain ⟨rfl, rfl⟩ := hr
        rcases serverPut_shape hput with ⟨hb, _⟩ | ⟨_, ap, sp, anc, hap, _, _, _, _, _, happs, _⟩
        · cases hb
        · have hsv1 : a1.server.isSome = true := by
            have h1 : c1.app? aid = some a1 := ha1
            rw [app?_of_apps happs, hap] at h1
            simp [putRec, app?_id hap] at h1
            rw [← h1]; rfl
          have hsv3 : a3.server = a1.server := by
            have h3 := ha3
            rw [app?_setApp] at h3
            have h1 : c1.app? aid = some a1 := ha1
            rw [h1] at h3
            simp only [Option.map_some, Option.some.injEq] at h3
            rw [← h3]; split <;> rfl
          have hsv' : a'.server = a3.server := by
            rw [app?_setApp, ha3] at ha'
            simp only [Option.map_some, Option.some.injEq] at ha'
            rw [← ha']; split <;> rfl
          rw [hsv', hsv3]; exact hsv1
  · simp only [pure_ok, Prod.mk.injEq] at h; obtain ⟨_, hb⟩ := h; cases hb

end TmVerif.Sched

namespace TmVerif.Sched

theorem hasIdentity_congr {a b : App} (hg : a.group = b.group) (hi : a.identity = b.identity) :
    a.hasIdentity = b.hasIdentity := by unfold App.hasIdentity; rw [hg, hi]

theorem settled_of_release {c c' : Cell} {aid : Nat} (h : releaseIdentity c aid = .ok c')
    (hnone : ∀ a, c.app? aid = some a → a.server = none) : Settled c' aid := by
  intro a' ha'
  obtain ⟨a, ha, e1, _, e3⟩ := release_post h a' ha'
  have hs : a'.server = none := by rw [e1]; exact hnone a ha
  exact ⟨fun hsome => (by rw [hs] at hsome; cases hsome), fun _ hg => e3 hg⟩

theorem unplacedBranch_settled {c c' : Cell} {a : App} (ha : c.app? a.id = some a)
    (h : unplacedBranch c a = .ok c') : Settled c' a.id := by
  simp only [unplacedBranch] at h
  split at h
  · split at h
    · simp only [throw_bind, throw_ne_ok] at h
    · split at h
      · simp only [throw_bind, throw_ne_ok] at h
      · simp only [bind_ok] at h
        obtain ⟨c1, h1, h2⟩ := h
        refine settled_of_release h2 ?_
        intro a1 ha1
        obtain ⟨a0, _, ha0⟩ := serverRemove_app_self h1
        rw [ha0] at ha1; cases ha1; rfl
  · rename_i hsv
    simp only [bind_ok, pure_ok] at h
    obtain ⟨c1, rfl, h2⟩ := h
    exact settled_of_release h2 (fun a1 ha1 => by rw [ha] at ha1; cases ha1; exact hsv)

/-- `tryPlace` without a pending renewal: the app ends placed with its identity, or unplaced and
    released. -/
theorem tryPlace_settled {revq : List Nat} {st st' : PState} {a0 : App} {aid : Nat}
    (hid : a0.id = aid) (hbl : a0.blacklisted = false)
    (hhas : ∀ a, st.cell.app? aid = some a → a.hasIdentity = true)
    (h : tryPlace revq st aid none = .ok st') : Settled st'.cell aid := by
  simp only [tryPlace, bind_ok, orAbort_ok] at h
  obtain ⟨a2, ha2, ⟨c3, placed⟩, hput, c4, hev, a4, ha4, h⟩ := h
  have r1 := cellPut_lreach2 (after := revq.takeWhile (· ≠ aid)) hid hbl hput
  have r2 : LReach (fun c lab => PlaceOk a0 false (revq.takeWhile (· ≠ aid)) c lab ∧ NoIdLab lab) c3 c4 := by
    split at hev
    · simp only [pure_ok] at hev; subst hev; exact .refl
    · exact evictLoop_lreach2 hid hbl _ _ _ hev
  have r12 := r1.trans r2
  obtain ⟨ab, hab, e1, e2⟩ := keepsId_chain (fun _ _ h => noIdLab_keeps h.2) r12 aid a4 ha4
  have hhas4 : a4.hasIdentity = true := by rw [hasIdentity_congr e2 e1]; exact hhas ab hab
  split at h
  · simp only [pure_ok] at h; subst h
    intro a' ha'
    rw [ha4] at ha'; cases ha'
    exact ⟨fun _ => hhas4, fun hn => by rename_i hs; rw [hn] at hs; cases hs⟩
  · rename_i hns
    simp only [bind_ok, pure_ok] at h
    obtain ⟨c5, hrel, rfl⟩ := h
    refine settled_of_release hrel ?_
    intro a1 ha1
    rw [ha4] at ha1; cases ha1
    cases hsv : a4.server with
    | none => rfl
    | some x => simp [hsv] at hns

theorem renewStep_noop {c c' : Cell} {a : App} {r} (hnr : a.renew = false) (h : renewStep c a = .ok (c', r)) :
    c' = c ∧ r = none := by
  simp only [renewStep, hnr, Bool.false_eq_true, ↓reduceIte, pure_ok, Prod.mk.injEq] at h
  exact ⟨h.1.symm, h.2.symm⟩

/-- After its turn the app of a queue entry is settled (no renewal pending; a blacklisted app is
    assumed settled already — the pre-passes see to that). -/
theorem placeOne_settled {revq : List Nat} {st st' : PState} {q : Nat × Bool} {a0 : App}
    (ha0 : st.cell.app? q.1 = some a0) (hnr : a0.renew = false)
    (hblset : a0.blacklisted = true → SettledRec a0)
    (h : placeOne revq st q = .ok st') : Settled st'.cell q.1 := by
  simp only [placeOne, bind_ok, orAbort_ok] at h
  obtain ⟨a, ha, h⟩ := h
  rw [ha0] at ha; cases ha
  have hid := app?_id ha0
  split at h
  · rename_i hbl
    simp only [pure_ok] at h; subst h
    intro a' ha'; rw [ha0] at ha'; cases ha'; exact hblset hbl
  · rename_i hbl
    have hbl' : a0.blacklisted = false := by simpa using hbl
    split at h
    · simp only [bind_ok, pure_ok] at h
      obtain ⟨c2, h2, rfl⟩ := h
      have := unplacedBranch_settled (by rw [hid]; exact ha0) h2
      rw [hid] at this; exact this
    · simp only [bind_ok, orAbort_ok] at h
      obtain ⟨⟨c1, restore⟩, hrn, a1, ha1, h⟩ := h
      obtain ⟨hc1, hr1⟩ := renewStep_noop hnr hrn
      subst hc1; subst hr1
      rw [ha0] at ha1; cases ha1
      have hid1 : ({ a0 with renew := false } : App).id = q.1 := hid
      have hself : (st.cell.setApp { a0 with renew := false }).app? q.1 = some { a0 with renew := false } := by
        rw [← hid1]; exact app?_setApp_self (a := a0) (by rw [hid1]; exact ha0)
      split at h
      · rename_i sid hsv
        split at h
        · simp only [throw_ne_ok] at h
        · split at h
          · simp only [throw_ne_ok] at h
          · rename_i hhas
            simp only [pure_ok] at h; subst h
            intro a' ha'
            rw [hself] at ha'; cases ha'
            refine ⟨fun _ => ?_, fun hn => ?_⟩
            · have : a0.hasIdentity = true := by simpa using hhas
              exact this
            · have : a0.server = none := hn
              rw [hsv] at this; cases this
      · rename_i hsvn
        simp only [bind_ok] at h
        obtain ⟨⟨c2, got, ch⟩, hacq, h⟩ := h
        -- after acquire: still unplaced
        have hacq_post := acquire_post hacq
        have hnone2 : ∀ a, c2.app? q.1 = some a → a.server = none := by
          intro a ha
          obtain ⟨b, hb, e1, _⟩ := hacq_post a ha
          rw [hself] at hb; cases hb; rw [e1]; exact hsvn
        split at h
        · rename_i hgot
          have hgot' : got = false := by simpa using hgot
          simp only [pure_ok] at h; subst h
          intro a' ha'
          obtain ⟨b, _, _, _, _, hf⟩ := hacq_post a' ha'
          obtain ⟨hg, hi⟩ := hf hgot'
          exact ⟨fun hs => (by rw [hnone2 a' ha'] at hs; cases hs), fun _ _ => hi⟩
        · rename_i hgot
          have hgot' : got = true := by simpa using hgot
          have hhas2 : ∀ a, c2.app? q.1 = some a → a.hasIdentity = true := by
            intro a ha
            obtain ⟨b, _, _, _, ht, _⟩ := hacq_post a ha
            exact ht hgot'
          -- afterAcquire
          simp only [afterAcquire, bind_ok] at h
          obtain ⟨⟨c3, done⟩, hre, h⟩ := h
          have hre_post := restoreEvicted_post hre
          have hhas3 : ∀ a, c3.app? q.1 = some a → a.hasIdentity = true := by
            intro a ha
            obtain ⟨b, hb, e1, e2, _⟩ := hre_post a ha
            rw [hasIdentity_congr e2 e1]; exact hhas2 b hb
          split at h
          · rename_i hdone
            simp only [pure_ok] at h; subst h
            intro a' ha'
            obtain ⟨b, hb, _, _, hsome⟩ := hre_post a' ha'
            have hs := hsome hdone
            exact ⟨fun _ => hhas3 a' ha', fun hn => by rw [hn] at hs; cases hs⟩
          · rename_i hdone
            have hdone' : done = false := by simpa using hdone
            subst hdone'
            have hnone3 : ∀ a, c3.app? q.1 = some a → a.server = none := by
              intro a ha
              obtain ⟨b, hb, e⟩ := restoreEvicted_false_server hre a ha
              rw [e]; exact hnone2 b hb
            simp only [bind_ok, orAbort_ok] at h
            obtain ⟨a2, ha2, h⟩ := h
            split at h
            · simp only [bind_ok, pure_ok] at h
              obtain ⟨c4, hrel, rfl⟩ := h
              exact settled_of_release hrel hnone3
            · split at h
              · simp only [bind_ok, pure_ok] at h
                obtain ⟨c4, hrel, rfl⟩ := h
                exact settled_of_release hrel hnone3
              · exact tryPlace_settled hid hbl' hhas3 h

end TmVerif.Sched
